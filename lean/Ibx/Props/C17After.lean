import Ibx.Model.LuaAfter
import Ibx.Model.Broker
import Ibx.Lemmas.LuaAfter
import Ibx.Props.C16Broker
/-
  C17 (Lua half), AFTER events: "an after.message_stored / after.message_deleted handler is an observer: it sees the event,
  it cannot change anything outside its own copy, its failure is silent, it is called once per event in emission order and
  the Lua state it ran on goes back to the pool" — over Model.LuaAfter (the Go glue of lua.go + the message_metadata /
  address bindings), Model.Pool and the per-listener FIFO of Model.Broker.

  Standing hypothesis `WF h m`: the metadata `m` has no dangling reference into the heap `h` of address objects.
  "Owner" = everything that holds the event's address objects besides the handler: the stored message of the memory store
  (all recipients' copies of a transaction), the copies of the event the other listeners (message hub, Go extensions) get.
  What the owner can tell is `view h' m` for the metadata `m` it holds.
-/
namespace Ibx.Props.C17After
open Ibx Ibx.Model Ibx.Model.LuaAfter Ibx.Lemmas.LuaAfter

/-- the frame of ONE call on detached objects: the heap the event was emitted in is a prefix of the heap afterwards -/
theorem afterCall_detached_prefix (env : Env) (p : Prog) (h : Heap) (ev : Meta) (hw : WF h ev) :
    (afterCall .detached env p h ev).1.take h.length = h := by
  obtain ⟨_, hpre, hge⟩ := detach_spec h ev hw
  have f0 : Frame h { heap := (detach h ev).1, msg := (detach h ev).2, fresh := zeroMeta, obs := [] } :=
    ⟨hpre, hge, refsGE_zero _⟩
  have := (run_frame env p f0).pre
  simpa [afterCall] using this

/-- the same for any number of events handled one after the other (each event's own objects may have been created in
    between: `evs` only have to be well-formed in the heap they are emitted in, which contains `h`) -/
theorem dispatch_detached_prefix (env : Env) (l : Option Prog) (evs : List Meta) :
    ∀ (h : Heap), (∀ ev ∈ evs, WF h ev) → (dispatch .detached env l h evs).1.take h.length = h := by
  induction evs with
  | nil => intro h _; simp [dispatch]
  | cons ev rest ih =>
    intro h hw
    cases l with
    | none => simpa [dispatch] using ih h (fun e he => hw e (List.mem_cons_of_mem _ he))
    | some p =>
      have h1 := afterCall_detached_prefix env p h ev (hw ev (by simp))
      have hlen : h.length ≤ (afterCall .detached env p h ev).1.length := by
        have := congrArg List.length h1
        simp [List.length_take] at this
        omega
      have hw1 : ∀ e ∈ rest, WF (afterCall .detached env p h ev).1 e := by
        intro e he
        obtain ⟨a, b⟩ := hw e (List.mem_cons_of_mem _ he)
        exact ⟨fun r hr => Nat.lt_of_lt_of_le (a r hr) hlen, fun r hr => Nat.lt_of_lt_of_le (b r hr) hlen⟩
      have h2 := ih (afterCall .detached env p h ev).1 hw1
      simp only [dispatch]
      have h3 : ((dispatch .detached env (some p) (afterCall .detached env p h ev).1 rest).1.take
          (afterCall .detached env p h ev).1.length).take h.length = h := by rw [h2]; exact h1
      rw [List.take_take, Nat.min_eq_left hlen] at h3
      exact h3

/-- **after_handler_changes_nothing**.  In the `detached` variant (the source), for EVERY handler program, every slot
    content (a function, not a function, nothing), every list of events and every heap: after all the calls, every
    metadata that was well-formed when the events were emitted — the stored message, the copy of the event every other
    listener holds, any other message — looks exactly as it looks when NO handler is registered (`dispatch … none` makes
    no call at all).  The delivery outcome cannot depend on the handler either: `afterCall` has no result besides the
    heap and the ghost record of the call (NRet: 0, the error is only logged, the listener returns nothing). -/
theorem after_handler_changes_nothing (env : Env) (sv : SlotVal) (h : Heap) (evs : List Meta) (hw : ∀ ev ∈ evs, WF h ev)
    (m : Meta) (hm : WF h m) :
    view (dispatch .detached env sv.listener h evs).1 m = view (dispatch .detached env none h evs).1 m ∧
    (dispatch .detached env none h evs) = (h, []) := by
  have hnone : ∀ (es : List Meta) (h : Heap), dispatch .detached env none h es = (h, []) := by
    intro es
    induction es with
    | nil => intro h; rfl
    | cons e rest ih => intro h; simpa [dispatch] using ih h
  refine ⟨?_, hnone evs h⟩
  rw [hnone evs h]
  exact view_of_take _ h (dispatch_detached_prefix env sv.listener evs h hw) m hm

/-- non-vacuity: a transaction to two recipients; the handler assigns to every field of its argument, into the address
    objects, replaces them by new ones — the stored message and the other listeners' event look as before -/
def sampleHeap : Heap := [⟨[83], [115, 64, 120]⟩, ⟨[], [97, 64, 120]⟩, ⟨[], [98, 64, 120]⟩]
def sampleEvent : Meta := { mailbox := [97], id := [49], frm := some 0, to := [some 1, some 2], date := 1700000000, subject := [104, 105], size := 42 }
def scribbler : Prog :=
  [.setAddr (.frm .msg) (Bytes.ofAscii "name") (.str [120]), .setAddr (.to .msg 1) (Bytes.ofAscii "address") (.str [101, 118, 105, 108, 64, 120]),
   .set .msg (Bytes.ofAscii "subject") (.str [33]), .set .msg (Bytes.ofAscii "from") (.addr (.to .msg 2)),
   .set .msg (Bytes.ofAscii "to") (.tbl [.addr (.new [110] [111]), .int 5, .addr (.frm .msg)]), .setAddr (.to .msg 2) (Bytes.ofAscii "name") (.int 7)]

theorem sample_wf : WF sampleHeap sampleEvent := by
  constructor
  · intro r hr; cases hr; decide
  · intro r hr
    simp only [sampleEvent, List.mem_cons, Option.some.injEq, List.mem_nil_iff, or_false] at hr
    rcases hr with rfl | rfl <;> decide

example : view (afterCall .detached ⟨true, false⟩ scribbler sampleHeap sampleEvent).1 sampleEvent = view sampleHeap sampleEvent ∧
    (afterCall .detached ⟨true, false⟩ scribbler sampleHeap sampleEvent).2.status = .ok ∧
    (afterCall .detached ⟨true, false⟩ scribbler sampleHeap sampleEvent).1.length = 7 := by decide

/-- **shared_addresses_let_after_handler_rewrite_stored_message** (counter-witness for the `shared` variant, the tree
    before fix 07cb6da; the script of finding F-17b):
        function inbucket.after.message_stored(msg)  msg.from.name = "x";  msg.to[1].address = "evil@x"  end
    changes what the stored message and every other listener's event look like. -/
theorem shared_addresses_let_after_handler_rewrite_stored_message :
    let p : Prog := [.setAddr (.frm .msg) (Bytes.ofAscii "name") (.str [120]),
                     .setAddr (.to .msg 1) (Bytes.ofAscii "address") (.str [101, 118, 105, 108, 64, 120])]
    view (afterCall .shared ⟨true, false⟩ p sampleHeap sampleEvent).1 sampleEvent ≠ view sampleHeap sampleEvent ∧
    (view (afterCall .shared ⟨true, false⟩ p sampleHeap sampleEvent).1 sampleEvent).frm = some ⟨[120], [115, 64, 120]⟩ ∧
    (view (afterCall .shared ⟨true, false⟩ p sampleHeap sampleEvent).1 sampleEvent).to = [some ⟨[], [101, 118, 105, 108, 64, 120]⟩, some ⟨[], [98, 64, 120]⟩] ∧
    view (afterCall .detached ⟨true, false⟩ p sampleHeap sampleEvent).1 sampleEvent = view sampleHeap sampleEvent := by decide

/-! ## the handler sees the event -/

/-- message_metadata.new() looks the same in every heap -/
def zeroView : View := view [] zeroMeta

theorem view_zero (h : Heap) : view h zeroMeta = zeroView := rfl

/-- **after_handler_sees_the_event**.  In both variants, for every program, event and heap: the read statements in front
    of the first assignment / error / return report exactly the fields of the EVENT as emitted (`readView` on
    `view h ev`: mailbox, id, date, subject, size literally; `from` a userdata whose `name` / `address` are those of the
    sender object; `to` a table of as many userdata as there are recipients, each with its object's fields; an unknown
    field nil), and of an empty metadata for `message_metadata.new()`.  A program of reads only reports nothing else
    (its report stops at the first read that raises: an index beyond `to`, a nil pointer) and changes nothing. -/
theorem after_handler_sees_the_event (v : AddrSharing) (env : Env) (p : Prog) (h : Heap) (ev : Meta) (hw : WF h ev) :
    leadReads env (view h ev) zeroView p <+: (afterCall v env p h ev).2.obs ∧
    (p.all Op.isRead = true →
      (afterCall v env p h ev).2.obs = leadReads env (view h ev) zeroView p ∧ (afterCall v env p h ev).1.take h.length = h) := by
  -- the state the handler is entered in looks like the event
  obtain ⟨h1, m1, hinit, hview, hpre⟩ : ∃ h1 m1, (∀ q, afterCall v env q h ev =
        ((run env { heap := h1, msg := m1, fresh := zeroMeta, obs := [] } q).1.heap,
         { ev := ev, obs := (run env { heap := h1, msg := m1, fresh := zeroMeta, obs := [] } q).1.obs.reverse,
           status := (run env { heap := h1, msg := m1, fresh := zeroMeta, obs := [] } q).2 })) ∧
      view h1 m1 = view h ev ∧ h1.take h.length = h := by
    cases v with
    | detached =>
      obtain ⟨a, b, _⟩ := detach_spec h ev hw
      exact ⟨(detach h ev).1, (detach h ev).2, fun q => rfl, a, b⟩
    | shared => exact ⟨h, ev, fun q => rfl, rfl, by simp⟩
    | unknown => exact ⟨h, ev, fun q => rfl, rfl, by simp⟩
  constructor
  · obtain ⟨more, hm⟩ := run_lead env p { heap := h1, msg := m1, fresh := zeroMeta, obs := [] }
    rw [hinit p]
    simp only []
    rw [hm]
    simp only [hview, view_zero, List.append_nil, List.reverse_append, List.reverse_reverse]
    exact List.prefix_append _ _
  · intro hp
    have := run_reads_only env p hp { heap := h1, msg := m1, fresh := zeroMeta, obs := [] }
    rw [hinit p]
    simp only []
    rw [this]
    simp only [hview, view_zero, List.append_nil, List.reverse_reverse]
    exact ⟨trivial, hpre⟩

/-- non-vacuity: every field of the sample event read back, then an unknown field, `#msg.to`, the slot itself and a field
    of message_metadata.new() — in the detached variant, i.e. through the COPIES of the address objects -/
example : (afterCall .detached ⟨true, false⟩
      [.get .msg (Bytes.ofAscii "mailbox"), .get .msg (Bytes.ofAscii "id"), .get .msg (Bytes.ofAscii "date"), .get .msg (Bytes.ofAscii "subject"),
       .get .msg (Bytes.ofAscii "size"), .getAddr (.frm .msg) (Bytes.ofAscii "name"), .getAddr (.frm .msg) (Bytes.ofAscii "address"),
       .getAddr (.to .msg 2) (Bytes.ofAscii "address"), .get .msg (Bytes.ofAscii "seen"), .get .msg (Bytes.ofAscii "to"),
       .slot (Bytes.ofAscii "message_stored"), .slot (Bytes.ofAscii "message_deleted"), .get .fresh (Bytes.ofAscii "date"),
       .getAddr (.to .msg 3) (Bytes.ofAscii "address"), .get .msg (Bytes.ofAscii "mailbox")] sampleHeap sampleEvent).2
    = { ev := sampleEvent,
        obs := [.str [97], .str [49], .int 1700000000, .str [104, 105], .int 42, .str [83], .str [115, 64, 120], .str [98, 64, 120], .nil, .tbl 2,
                .func, .nil, .int zeroDate],
        status := .error } := by decide

/-! ## failures are silent, the state goes back to the pool -/

/-- a slot that was assigned something that is not a function, or nothing, registers no listener: no call, no change -/
theorem not_a_function_registers_nothing (v : AddrSharing) (env : Env) (h : Heap) (evs : List Meta) :
    SlotVal.notFunction.listener = none ∧ SlotVal.undefined.listener = none ∧ dispatch v env none h evs = (h, []) := by
  refine ⟨rfl, rfl, ?_⟩
  induction evs generalizing h with
  | nil => rfl
  | cons e rest ih => simpa [dispatch] using ih h

/-- **after_handler_failure_is_silent**.  For EVERY program — in particular one that raises at any point, assigns an
    unknown field, assigns a value of the wrong type, indexes nil, dereferences a nil pointer inside a binding — every
    reachable state of the pool in which the calling goroutine `t` holds nothing, every event and whatever the call
    leaves on the Lua stack: the listener completes (all four pool steps are enabled), what everybody else can see of the
    heap is unchanged (detached variant), and the Lua state is back in the pool: the caller is idle again, nobody else's
    holding changed, the pool is the old pool (or the one newly created state), every pooled state has an empty stack,
    and the pool state is again a reachable one — so pool_exclusive / pool_disjoint / pool_bounded of Props.C17Lua go on
    holding.  The status of the call (`c.status`) is visible in the log only. -/
theorem after_handler_failure_is_silent (env : Env) (t : Pool.Tid) (d0 d : Nat) (p : Prog) (s : Sys)
    (hr : Pool.Reach s.pool) (hidle : s.pool.pc t = .idle) (ev : Meta) (hw : WF s.heap ev) (m : Meta) (hm : WF s.heap m) :
    ∃ s' c, handleAfter .detached env t .ok d0 d p s ev = some (s', some c) ∧
      c = (afterCall .detached env p s.heap ev).2 ∧
      view s'.heap m = view s.heap m ∧
      Pool.Reach s'.pool ∧ s'.pool.pc t = .idle ∧ s'.pool.held = s.pool.held ∧ (∀ u, u ≠ t → s'.pool.pc u = s.pool.pc u) ∧
      s'.pool.pool = (match s.pool.pool with | [] => [s.pool.next] | x :: rest => x :: rest) ∧
      (∀ x ∈ s'.pool.pool, s'.pool.depth x = 0) := by
  obtain ⟨st', hrun, hreach, hpc, hheld, hoth, hpool, hdepth⟩ := pool_roundtrip s.pool hr t hidle d0 d
  refine ⟨{ pool := st', heap := (afterCall .detached env p s.heap ev).1 }, (afterCall .detached env p s.heap ev).2, ?_, rfl, ?_,
    hreach, hpc, hheld, hoth, hpool, hdepth⟩
  · simp [handleAfter, hrun]
  · exact view_of_take _ s.heap (afterCall_detached_prefix env p s.heap ev hw) m hm

/-- when the listener cannot get a state (getState fails) or the state has no `inbucket` object, the handler is not
    called at all: nothing changes but the pool's bookkeeping, which stays reachable; the caller is idle again -/
theorem after_handler_without_state_is_silent (v : AddrSharing) (env : Env) (t : Pool.Tid) (a : Acquire) (ha : a ≠ .ok)
    (d0 d : Nat) (p : Prog) (s s' : Sys) (c : Option Call) (hr : Pool.Reach s.pool) (ev : Meta)
    (hh : handleAfter v env t a d0 d p s ev = some (s', c)) :
    c = none ∧ s'.heap = s.heap ∧ Pool.Reach s'.pool := by
  unfold handleAfter at hh
  cases hro : Pool.runOps s.pool (poolSteps t a d0 d) with
  | none => simp [hro] at hh
  | some pool' =>
    have hreach := Pool.reach_runOps _ hr hro
    cases a with
    | ok => exact absurd rfl ha
    | getFails => simp [hro] at hh; obtain ⟨rfl, rfl⟩ := hh; exact ⟨rfl, rfl, hreach⟩
    | noInbucket => simp [hro] at hh; obtain ⟨rfl, rfl⟩ := hh; exact ⟨rfl, rfl, hreach⟩

/-- non-vacuity: a handler that scribbles over its argument and the address objects and then raises -/
example : (afterCall .detached ⟨true, true⟩
      [.set .msg (Bytes.ofAscii "subject") (.str [33]), .setAddr (.frm .msg) (Bytes.ofAscii "name") (.str [120]), .raise,
       .setAddr (.to .msg 1) (Bytes.ofAscii "name") (.str [121])] sampleHeap sampleEvent).2.status = .error ∧
    view (afterCall .detached ⟨true, true⟩
      [.set .msg (Bytes.ofAscii "subject") (.str [33]), .setAddr (.frm .msg) (Bytes.ofAscii "name") (.str [120]), .raise,
       .setAddr (.to .msg 1) (Bytes.ofAscii "name") (.str [121])] sampleHeap sampleEvent).1 sampleEvent = view sampleHeap sampleEvent := by decide

/-- every way a single assignment can fail: unknown field, wrong type for a string / an integer / an address / a table
    field, a nil entry used as an address, an unknown field of an address object, an address that is nil -/
example : ([Op.set .msg (Bytes.ofAscii "nosuch") (.int 1), .set .msg (Bytes.ofAscii "subject") (.tbl []), .set .msg (Bytes.ofAscii "size") (.str [49]),
            .set .msg (Bytes.ofAscii "from") (.self .msg), .set .msg (Bytes.ofAscii "from") (.addr (.to .msg 9)), .set .msg (Bytes.ofAscii "to") (.int 3),
            .setAddr (.frm .msg) (Bytes.ofAscii "nosuch") (.str [49]), .setAddr (.frm .fresh) (Bytes.ofAscii "name") (.str [49]),
            .setAddr (.to .msg 0) (Bytes.ofAscii "name") (.str [49]), .setAddr (.frm .msg) (Bytes.ofAscii "name") (.bool true)].map
      (fun op => (afterCall .detached ⟨true, true⟩ [op] sampleHeap sampleEvent).2.status)) = List.replicate 10 Status.error := by decide

/-- and the conversions that succeed: a number where a string is expected is converted (CheckString) -/
example : (afterCall .detached ⟨true, true⟩ [.set .msg (Bytes.ofAscii "subject") (.int 15), .get .msg (Bytes.ofAscii "subject"),
      .set .msg (Bytes.ofAscii "to") (.tbl [.int 1, .addr (.frm .msg), .self .msg, .addr (.to .msg 7), .addr (.new [110] [97])]), .get .msg (Bytes.ofAscii "to"),
      .getAddr (.to .msg 2) (Bytes.ofAscii "address")] sampleHeap sampleEvent).2
    = { ev := sampleEvent, obs := [.str [49, 53], .tbl 2, .str [97]], status := .ok } := by decide

/-! ## one call per event, in order -/

/-- **one_call_per_event**: n events of a registered handler give n calls, the i-th for the i-th event, each entered on
    the heap the previous one left (and no call when nothing is registered: `not_a_function_registers_nothing`) -/
theorem one_call_per_event (v : AddrSharing) (env : Env) (p : Prog) (evs : List Meta) : ∀ (h : Heap),
    (dispatch v env (some p) h evs).2.map (·.ev) = evs ∧ (dispatch v env (some p) h evs).2.length = evs.length := by
  induction evs with
  | nil => intro h; simp [dispatch]
  | cons e rest ih =>
    intro h
    obtain ⟨a, b⟩ := ih (afterCall v env p h e).1
    refine ⟨?_, ?_⟩
    · simp only [dispatch, List.map_cons, a]
      rfl
    · simp only [dispatch, List.length_cons, b]

/-- composed with the per-listener FIFO of the asynchronous broker (Props.C16Broker over Model.Broker, variant
    perListenerQueue pinned by Tie.Broker): in EVERY interleaving of emitters and the queue's worker, once the listener's
    queue has drained (nothing queued, nothing in progress, listener still registered) the handler has been called
    exactly once per emitted event, in emission order -/
theorem one_call_per_event_fifo {s : Broker.St} (hs : Broker.Reach .perListenerQueue s) (hreg : s.registered = true)
    (hrun : s.running = []) (hpend : s.pending = []) (evOf : Broker.Ev → Meta) (v : AddrSharing) (env : Env) (p : Prog) (h : Heap) :
    (dispatch v env (some p) h (s.done.map evOf)).2.map (·.ev) = s.emitted.map evOf := by
  have := Ibx.Props.C16Broker.no_event_lost hs hreg
  rw [hrun, hpend] at this
  simp at this
  rw [(one_call_per_event v env p (s.done.map evOf) h).1, this]

/-- the calls of a whole queue of events on the pool: every call finds a state, all of them succeed as pool schedules,
    the heap and the call records are those of `dispatch`, and at the end the caller holds nothing, the pool is
    reachable (hence exclusive, disjoint, bounded) and — if there was at least one event — not empty -/
theorem every_call_returns_its_state (v : AddrSharing) (env : Env) (t : Pool.Tid) (d0 : Nat) (p : Prog) (evs : List (Meta × Nat)) :
    ∀ (s : Sys), Pool.Reach s.pool → s.pool.pc t = .idle →
    ∃ s' cs, dispatchSys v env t d0 p s evs = some (s', cs) ∧
      (s'.heap, cs) = dispatch v env (some p) s.heap (evs.map (·.1)) ∧
      Pool.Reach s'.pool ∧ s'.pool.pc t = .idle ∧ s'.pool.held = s.pool.held ∧ (evs ≠ [] → s'.pool.pool ≠ []) := by
  induction evs with
  | nil => intro s hr hi; exact ⟨s, [], rfl, rfl, hr, hi, rfl, by intro h; exact absurd rfl h⟩
  | cons e rest ih =>
    intro s hr hi
    obtain ⟨ev, d⟩ := e
    obtain ⟨st', hrun, hreach, hpc, hheld, _, hpool, _⟩ := pool_roundtrip s.pool hr t hi d0 d
    have hne : st'.pool ≠ [] := by
      rw [hpool]; cases s.pool.pool <;> simp
    obtain ⟨s2, cs, h2, hd, hr2, hi2, hh2, hp2⟩ := ih { pool := st', heap := (afterCall v env p s.heap ev).1 } hreach hpc
    refine ⟨s2, (afterCall v env p s.heap ev).2 :: cs, ?_, ?_, hr2, hi2, by rw [hh2]; exact hheld, ?_⟩
    · simp [dispatchSys, handleAfter, hrun, h2]
    · simp only [List.map_cons, dispatch]
      have hd1 := congrArg Prod.fst hd
      have hd2 := congrArg Prod.snd hd
      simp only [] at hd1 hd2
      rw [← hd1, ← hd2]
    · intro _
      cases rest with
      | nil =>
        simp [dispatchSys] at h2
        obtain ⟨rfl, _⟩ := h2
        exact hne
      | cons e2 r2 => exact hp2 (by simp)

example : ((dispatch .detached ⟨true, true⟩ (some scribbler) sampleHeap [sampleEvent, { sampleEvent with id := [50] }]).2.map (·.status)) = [.ok, .ok] := by decide

/-- assignments to the metadata's OWN fields never leave the listener's copy, in EITHER variant: a handler that does not
    assign through an address object (`msg.from.name = …`) leaves every existing object alone even when the objects are
    shared — the struct is a per-listener copy (AsyncEventBroker.Emit: `l, ev := l, *event`) -/
theorem own_fields_never_escape (v : AddrSharing) (env : Env) (p : Prog) (h : Heap) (ev : Meta) (hw : WF h ev)
    (hp : ∀ op ∈ p, ∀ a f x, op ≠ .setAddr a f x) (m : Meta) (hm : WF h m) :
    view (afterCall v env p h ev).1 m = view h m := by
  apply view_of_take _ h _ m hm
  have hshared : (afterCall .shared env p h ev).1.take h.length = h := by
    obtain ⟨ext, he⟩ := run_grows env p { heap := h, msg := ev, fresh := zeroMeta, obs := [] } hp
    have : (afterCall .shared env p h ev).1 = h ++ ext := by simpa [afterCall] using he
    rw [this]; simp
  cases v with
  | detached => exact afterCall_detached_prefix env p h ev hw
  | shared => exact hshared
  | unknown => exact hshared

end Ibx.Props.C17After
