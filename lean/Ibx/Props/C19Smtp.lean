import Ibx.Props.C03Conc
import Ibx.Props.C01
import Ibx.Props.C19
/-
  C19 for any number of REAL SMTP sessions: "a session that is already open can complete its dialogue — a message whose
  transfer is in progress is still stored and acknowledged".

  `Props.C19.inflight_message_stored_and_acked` states this of a toy program over `List Nat`, one session, k ≤ 9.
  Here the program is `Model.SmtpConc.prog`: the session machine of `Model.Smtp` (every command, hooks, policy, limits,
  send budgets), any number of sessions and other clients around one `Spec.Store`, schedules = any list of
  `sess i` / `cancel` / `closeL`; no bound on the number of sessions, the length of a message or the schedule.

  * `shutdown_events_are_immaterial`, `shutdown_flags_are_immaterial`, `shutdown_events_make_no_call` — `cancel` and
    `closeL` at ANY positions change no session state, no reply, no stored copy, no store call and not the store: C19's
    frame lemma `open_session_unaffected` at this program;
  * `inflight_message_stored_and_acked` — the sentence itself, for the real machine;
  * `refusing_after_cancel_loses_inflight_message`, `refuse_in_greet_breaks_open_session` — the same schedules with a
    session loop that consults the cancel flag (seeded change C19-r4m2 and its blunt form): the message is lost, the
    open session is cut short.  Such a loop is not a `Sess.Prog` at all; T1 (`Tie.Shutdown`, `Tie.SmtpConc`) pins that
    the source's is.
-/
namespace Ibx.Props.C19Smtp
open Ibx Ibx.Bytes Ibx.Model Ibx.Model.Smtp Ibx.Model.SmtpConc Ibx.Model.Shutdown
open Ibx.Lemmas.Smtp Ibx.Lemmas.SmtpLoop Ibx.Lemmas.SmtpIO Ibx.Lemmas.SmtpEx Ibx.Lemmas.SpecStore Ibx.Lemmas.SmtpStore
open Ibx.Lemmas.SmtpConc Ibx.Props.C03Conc
open Ibx.Spec.Store

/-! ### the frame: shutdown events change nothing a session does -/

/-- **shutdown_events_are_immaterial.**  For every environment, every world (any number of SMTP sessions in any state
    with anything still to come from their clients, any other clients, any store) and every schedule: session states,
    remaining inputs, every reply, every copy handed to the store and the store itself are exactly those of the same
    schedule with the `cancel` / `closeL` events erased. -/
theorem shutdown_events_are_immaterial (e : SmtpConc.Env) (w : World) (sched : List Sess.Ev) :
    (SmtpConc.run e w sched).data = (SmtpConc.run e w (sched.filter Sess.Ev.isSess)).data :=
  Ibx.Props.C19.open_session_unaffected (prog e) w sched

/-- … and the flags the world starts with do not matter either: a server already shutting down treats its open
    sessions as one that is not -/
theorem shutdown_flags_are_immaterial (e : SmtpConc.Env) (w : World) (b d : Bool) (sched : List Sess.Ev) :
    (SmtpConc.run e { w with cancelled := b, closed := d } sched).data =
      (SmtpConc.run e w (sched.filter Sess.Ev.isSess)).data :=
  Ibx.Props.C19.session_steps_ignore_flags (prog e) w b d sched

private theorem trace_congr (e : SmtpConc.Env) (sched : List Sess.Ev) (w w' : World) (hs : w.store = w'.store)
    (ht : w.threads = w'.threads) : trace e w sched = trace e w' sched := by
  induction sched generalizing w w' with
  | nil => rfl
  | cons ev rest ih =>
    have h1 : opsAt e w ev = opsAt e w' ev := by cases ev <;> simp [opsAt, ht]
    have h2 : (Sess.exec1 (prog e) w ev).store = (Sess.exec1 (prog e) w' ev).store ∧
        (Sess.exec1 (prog e) w ev).threads = (Sess.exec1 (prog e) w' ev).threads := by
      cases ev with
      | cancel => exact ⟨hs, ht⟩
      | closeL => rw [exec1_closeL_store, exec1_closeL_store, exec1_closeL_threads, exec1_closeL_threads]; exact ⟨hs, ht⟩
      | sess i => simp [Sess.exec1, hs, ht]
    simp only [trace, h1]
    rw [ih _ _ h2.1 h2.2]

/-- **shutdown_events_make_no_call.**  The sequence of store calls of a schedule — which AddMessage, by whom, in which
    order — is that of the schedule with the shutdown events erased. -/
theorem shutdown_events_make_no_call (e : SmtpConc.Env) (sched : List Sess.Ev) (w : World) :
    trace e w sched = trace e w (sched.filter Sess.Ev.isSess) := by
  induction sched generalizing w with
  | nil => rfl
  | cons ev rest ih =>
    cases ev with
    | sess i => simp only [List.filter, Sess.Ev.isSess, trace]; rw [ih]
    | cancel =>
      simp only [List.filter, Sess.Ev.isSess, trace, opsAt, List.nil_append]
      rw [ih]; exact trace_congr e _ _ _ rfl rfl
    | closeL =>
      simp only [List.filter, Sess.Ev.isSess, trace, opsAt, List.nil_append]
      rw [ih]; exact trace_congr e _ _ _ (exec1_closeL_store e w) (exec1_closeL_threads e w)

/-! ### the message whose transfer is in progress -/

/-- Client `c` is inside a transaction whose data block its remaining input completes: run alone for `k` more loop
    iterations (further RCPTs, NOOPs, the DATA line — `k = 0` when the 354 is already due) the session is still
    running, it is `s`, in state DATA, its last send has not failed, and the input it has not read yet begins with a
    complete dot block `block`. -/
structure InFlight (e : Smtp.Env) (c : Client) (k : Nat) (s : Smtp.Sess) (block rest : Bytes) : Prop where
  live : (alone e k c).1.over = none
  sess : (alone e k c).1.sess = s
  inData : s.st = .data
  sendOk : s.sendErr = false
  complete : Dot.dotDecode (alone e k c).1.pending = some (block, rest)

private theorem run_snoc (e : SmtpConc.Env) (w : World) (sched : List Sess.Ev) (ev : Sess.Ev) :
    SmtpConc.run e w (sched ++ [ev]) = Sess.exec1 (prog e) (SmtpConc.run e w sched) ev := by
  simp [SmtpConc.run, Sess.exec, List.foldl_append]

private theorem data_tick (e : Smtp.Env) (c : Client) (s : Smtp.Sess) (block rest : Bytes) (h : HdrInfo)
    (ho : c.over = none) (hs : c.sess = s) (h3 : s.st = .data) (h2 : s.sendErr = false)
    (hd : Dot.dotDecode c.pending = some (block, rest))
    (hhook : e.hookStored (inbound s h) = none) (hstore : ∀ mb, e.storeFails mb = false)
    (hh : e.hdr block = some h) (hsz : (block.length : Int) ≤ e.maxBytes) :
    tick e c = ({ sess := send (reset (send s 1)) 1, pending := rest, over := none },
      .reply [354] :: ((Ibx.Props.C01.storable e s).map (fun r => Ev.stored (Ibx.Props.C01.copyFor e s h block r)) ++
        [.reply [250]])) := by
  subst hs
  have hex := Ibx.Props.C01.handleData_exact e (send c.sess 1) block [] h (by simpa [inbound] using hhook) hstore hh hsz
  rw [tick_live e c ho]
  simp only [SmtpConc.iter, h3, h2, hd, hex]
  simp [Ibx.Props.C01.storable, Ibx.Props.C01.copyFor, Ibx.Props.C01.metaOf]

/-- **inflight_message_stored_and_acked** (C19, the real machine).  Session `i` of ANY world is inside a transaction
    (MAIL accepted, at least one recipient; in DATA or `k` commands away from it) and the rest of what its client sends
    completes the data block `block` (`InFlight`).  The block is within the size limit, its headers parse, no hook
    redirects it and the store accepts deliveries — the conditions under which the same dialogue is acknowledged on a
    server that is not shutting down (`Props.C01.handleData_exact`).  Then for EVERY schedule `sched` that gives the
    session those `k` steps — any interleaving with any number of other sessions and clients, `cancel` and `closeL`
    anywhere in it, before, between or after the session's steps — the session's next step
      * sends the 354, hands one copy per storable accepted recipient to the store, in acceptance order, and answers 250;
      * leaves the session READY, running, with the envelope cleared;
      * and right after it every storable accepted recipient's mailbox holds the message (metadata and source of the
        copy): for every mailbox cap, without a store byte limit (a byte limit smaller than the message evicts the
        message itself — C08).
    Later the copy stays unless the cap evicts it for newer mail or another client removes it (`store_is_trace`). -/
theorem inflight_message_stored_and_acked (e : SmtpConc.Env) (hl : e.store.limit = 0) (w : World) (i : Nat) (t : Thread)
    (hw : w.threads[i]? = some t) (k : Nat) (s : Smtp.Sess) (block rest : Bytes) (h : HdrInfo)
    (hin : t.input.take (k + 1) = List.replicate (k + 1) In.tick)
    (hf : InFlight e.smtp t.st k s block rest)
    (hhook : e.smtp.hookStored (inbound s h) = none) (hstore : ∀ mb, e.smtp.storeFails mb = false)
    (hh : e.smtp.hdr block = some h) (hsz : (block.length : Int) ≤ e.smtp.maxBytes)
    (sched : List Sess.Ev) (hk : sched.count (.sess i) = k) :
    ∃ t', (SmtpConc.run e w (sched ++ [.sess i])).threads[i]? = some t' ∧
      evsOf t'.replies = evsOf t.replies ++ (alone e.smtp k t.st).2 ++
        (.reply [354] :: ((Ibx.Props.C01.storable e.smtp s).map
          (fun r => Ev.stored (Ibx.Props.C01.copyFor e.smtp s h block r)) ++ [.reply [250]])) ∧
      t'.st.sess.st = .ready ∧ t'.st.sess.rcpts = [] ∧ t'.st.over = none ∧
      ∀ r ∈ Ibx.Props.C01.storable e.smtp s,
        ∃ m ∈ listing (SmtpConc.run e w (sched ++ [.sess i])).store r.mailbox,
          m.hdr = Ibx.Props.C01.metaOf s h ∧ m.source = traceHeaders e.smtp s r.mailbox ++ block := by
  obtain ⟨t1, h1, h2, h3, h4⟩ := session_as_if_alone e sched w i t hw
  rw [hk] at h2 h3 h4
  have htk : t.input.take k = List.replicate k In.tick := by
    have := congrArg (List.take k) hin
    rw [List.take_take, List.take_replicate] at this
    simpa [Nat.min_eq_left (Nat.le_succ k)] using this
  rw [htk, aloneIn_ticks] at h2 h4
  -- the next unit of the session is a tick
  have hnext : ∃ xs, t1.input = In.tick :: xs := by
    have := congrArg (List.drop k) hin
    rw [List.drop_take, List.drop_replicate] at this
    simp only [Nat.add_sub_cancel_left, List.replicate_one] at this
    rw [← h3] at this
    cases hti : t1.input with
    | nil => rw [hti] at this; simp at this
    | cons x xs => rw [hti] at this; simp at this; exact ⟨xs, by rw [this]⟩
  obtain ⟨xs, hxs⟩ := hnext
  rw [run_snoc]
  have hself := exec1_thread_self e (SmtpConc.run e w sched) i t1 In.tick xs h1 hxs
  have htick := data_tick e.smtp t1.st s block rest h (by rw [h2]; exact hf.live) (by rw [h2]; exact hf.sess)
    hf.inData hf.sendOk (by rw [h2]; exact hf.complete) hhook hstore hh hsz
  refine ⟨_, hself, ?_, ?_, ?_, ?_, ?_⟩
  · simp only [clientStep, htick, evsOf_append, h4, List.append_assoc]
    congr 1; congr 1
    simp [evsOf, List.filterMap_map, Function.comp_def]
  · simp only [clientStep, htick]
    have : (send s 1).st ≠ .greet := by simp [hf.inData]
    simp [reset_st_of_ne _ this]
  · simp only [clientStep, htick]; simp
  · simp only [clientStep, htick]
  · intro r hr
    rw [exec1_sess_live e _ i t1 In.tick xs h1 hxs]
    simp only [clientStep, htick]
    have hc : copiesOf (Ev.reply [354] :: ((Ibx.Props.C01.storable e.smtp s).map
        (fun r => Ev.stored (Ibx.Props.C01.copyFor e.smtp s h block r)) ++ [Ev.reply [250]])) =
        (Ibx.Props.C01.storable e.smtp s).map (Ibx.Props.C01.copyFor e.smtp s h block) := by
      simp [copiesOf, List.filterMap_append, List.filterMap_map, Function.comp_def]
    rw [hc]
    have := applyCopies_holds e.store hl ((Ibx.Props.C01.storable e.smtp s).map (Ibx.Props.C01.copyFor e.smtp s h block))
      (by
        intro x hx y hy hxy
        obtain ⟨rx, _, rfl⟩ := List.mem_map.mp hx
        obtain ⟨ry, _, rfl⟩ := List.mem_map.mp hy
        simp only [Ibx.Props.C01.copyFor] at hxy ⊢
        rw [hxy])
      (SmtpConc.run e w sched).store _ (List.mem_map.mpr ⟨r, hr, rfl⟩)
    simpa [Ibx.Props.C01.copyFor] using this

/-- a session in state MAIL with a recipient whose client sends `DATA`, the block and its terminator is `InFlight`
    with `k = 1` — the hypothesis of the theorem is met from the protocol position "MAIL and RCPT accepted" -/
theorem mail_state_with_data_is_inflight (e : Smtp.Env) (s : Smtp.Sess) (line rest1 block rest : Bytes)
    (hs : s.st = .mail) (hr : s.rcpts ≠ []) (he : s.sendErr = false)
    (hline : Line.readLine (line ++ rest1) = some (line, rest1)) (hp : parseCmd line = .cmd (ofAscii "DATA") [])
    (hd : Dot.dotDecode rest1 = some (block, rest)) :
    InFlight e { sess := s, pending := line ++ rest1 } 1 { s with st := .data } block rest := by
  have h1 : tick e { sess := s, pending := line ++ rest1 } =
      ({ sess := { s with st := .data }, pending := rest1, over := none }, []) := by
    rw [tick_live e _ rfl]
    simp only [SmtpConc.iter, hs, he, hline]
    rw [handleLine_cmd e s line _ [] [] (by simp [hs]) (by simp [hs]) hp, handleCmd_mail_data e s [] hs hr]
    simp [he]
  constructor <;> simp [alone, h1, hd, he]

/-! ### non-vacuity -/

/-- session 0 of the example world of `Props.C03Conc` (HELO, MAIL, RCPT done by its first three steps, the DATA line by
    the fourth) with `cancel` and `closeL` falling inside those steps: the fifth step stores and acknowledges -/
example :
    InFlight exEnv (fresh exEnv none dlg1) 4
      (alone exEnv 4 (fresh exEnv none dlg1)).1.sess (ofAscii "hi\n") [] ∧
    (alone exEnv 4 (fresh exEnv none dlg1)).1.sess.st = .data ∧
    exEnv.hookStored (inbound (alone exEnv 4 (fresh exEnv none dlg1)).1.sess ⟨none, none, ofAscii "s"⟩) = none ∧
    exEnv.hdr (ofAscii "hi\n") = some ⟨none, none, ofAscii "s"⟩ := by
  refine ⟨⟨?_, rfl, ?_, ?_, ?_⟩, ?_, rfl, rfl⟩ <;> decide +kernel

example :
    let sched : List Sess.Ev := [.sess 0, .sess 1, .sess 0, .cancel, .sess 0, .sess 2, .closeL, .sess 0, .sess 1]
    sched.count (.sess 0) = 4 ∧
    ((SmtpConc.run exConc (exWorld exConc) (sched ++ [.sess 0])).store.msgs.map (fun m => (m.box, m.source))) =
      [(ofAscii "u", traceHeaders exEnv (alone exEnv 4 (fresh exEnv none dlg1)).1.sess (ofAscii "u") ++ ofAscii "hi\n")] ∧
    (SmtpConc.run exConc (exWorld exConc) (sched ++ [.sess 0])).cancelled = true := by
  decide +kernel

/-! ### a loop that looks at the cancel flag loses the message -/

/-- the variant `source` is the program the theorems above are about -/
theorem source_variant_is_prog (e : SmtpConc.Env) (w : World) (sched : List Sess.Ev) :
    runC .source e w sched = SmtpConc.run e w sched := by
  have hp : ∀ b, progC .source e b = prog e := by
    intro b
    simp only [progC, prog]
    congr 1
    funext c s x
    cases x <;> simp [clientStepC, clientStep, tickC, Variant.refuses, tick]
    split <;> simp_all
  simp only [runC, SmtpConc.run, Sess.exec, hp]

/-- one session, `dlg1` (HELO, MAIL, RCPT, DATA, the block): shutdown is requested after RCPT was accepted -/
def lossSched : List Sess.Ev := [.sess 0, .sess 0, .sess 0, .cancel, .closeL, .sess 0, .sess 0, .sess 0]

def lossWorld : World :=
  { cancelled := false, closed := false, store := Spec.Store.empty, threads := [newClient exConc none dlg1 8] }

/-- **counter-witness** (`inflight_message_stored_and_acked` fails for a loop that refuses the next command with 421
    once shutdown is requested).  Same world, same schedule: the source's program stores the message and answers 250;
    the variant answers 421 to the DATA command and the message, whose transaction was open when `cancel` fell, is
    never stored. -/
theorem refusing_after_cancel_loses_inflight_message :
    ((SmtpConc.run exConc lossWorld lossSched).store.msgs.map (·.box) = [ofAscii "u"] ∧
     (SmtpConc.run exConc lossWorld lossSched).threads.map (fun t => evsOf t.replies) = [(Smtp.run exEnv none dlg1).1]) ∧
    ((runC .refuseAlways exConc lossWorld lossSched).store.msgs = [] ∧
     (runC .refuseAlways exConc lossWorld lossSched).threads.map (fun t => (evsOf t.replies).getLast?) =
       [some (.reply [421])]) := by
  decide +kernel

/-- a connection that was greeted before the cancel and sends NOOP before its HELO -/
def dlgN : Bytes := ofAscii "NOOP\r\nHELO a\r\nMAIL FROM:<>\r\nRCPT TO:<u@x.org>\r\nDATA\r\nhi\r\n.\r\n"

def greetWorld : World :=
  { cancelled := false, closed := false, store := Spec.Store.empty, threads := [newClient exConc none dlgN 9] }

/-- **counter-witness** (seeded change C19-r4m2: the loop head refuses with 421 while the session is in GREET and
    shutdown has been requested).  The connection was open — accepted and greeted — when `cancel` fell; it sends NOOP
    and then a complete dialogue.  With the source every command is answered and the message stored (the frame lemma);
    the variant answers 421 before reading anything and the message is never accepted: the run is NOT that of the
    schedule with the shutdown events erased. -/
theorem refuse_in_greet_breaks_open_session :
    let sched : List Sess.Ev := .cancel :: .closeL :: List.replicate 9 (.sess 0)
    (SmtpConc.run exConc greetWorld sched).store.msgs.map (·.box) = [ofAscii "u"] ∧
    (runC .refuseInGreet exConc greetWorld sched).store.msgs = [] ∧
    (runC .refuseInGreet exConc greetWorld sched).threads.map (fun t => evsOf t.replies) =
      [[.reply [220], .reply [421]]] ∧
    (runC .refuseInGreet exConc greetWorld (sched.filter Sess.Ev.isSess)).store.msgs.map (·.box) = [ofAscii "u"] := by
  decide +kernel

end Ibx.Props.C19Smtp
