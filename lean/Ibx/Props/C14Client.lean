import Ibx.Model.ClientJoin
import Ibx.Model.RestIds
import Ibx.Props.C14
/-
  C14, the client's path — "every operation offered by the bundled Go client has the effect its name says … for every
  mailbox name that can receive mail", stated for EVERY byte string.

    routed_vars_are_carriable / carriable_names_are_routable    the set of names the ROUTER can carry, exactly:
                                      no '/', not "", ".", ".." (the rest is F-14c and three names no mailbox has)
    client_route_general              what the client's request reaches for any name without '/'
    client_request_reaches_the_named_mailbox     IFF: the bundled client (url.QueryEscape + JoinPath) reaches the handler
                                      of its operation with exactly (name, id)  ⇔  the router can carry the name and it
                                      holds no ' '
    path_join_client_decodes_the_name (counter-witness) the variant path.Join + JoinPath percent-DECODES the name
-/
namespace Ibx.Props.C14Client
open Ibx Ibx.Bytes Ibx.Spec.Store Ibx.Model.Addr Ibx.Model.Rest Ibx.Model.ClientUrl Ibx.Model.ClientJoin Ibx.Lemmas.ClientUrl
open Ibx.Props.C14

/-! ## what the router can carry -/

/-- a name a route variable can hold -/
def RouterCarries (name : Bytes) : Prop := 47 ∉ name ∧ name ≠ [] ∧ name ≠ dot ∧ name ≠ dotdot

/-- a name the bundled client can ask for -/
def ClientCarries (name : Bytes) : Prop := RouterCarries name ∧ 32 ∉ name

private theorem cleanGo_mem (st l : List Bytes) :
    ∀ s ∈ cleanGo st l, s ∈ st ∨ (s ∈ l ∧ s ≠ [] ∧ s ≠ dot ∧ s ≠ dotdot) := by
  induction l generalizing st with
  | nil => intro s hs; left; simpa [cleanGo] using hs
  | cons x rest ih =>
    intro s hs
    rw [cleanGo] at hs
    split at hs
    · rcases ih st s hs with h | h
      · exact Or.inl h
      · exact Or.inr ⟨List.mem_cons_of_mem _ h.1, h.2⟩
    · rename_i h1
      split at hs
      · rcases ih st.tail s hs with h | h
        · exact Or.inl (List.mem_of_mem_tail h)
        · exact Or.inr ⟨List.mem_cons_of_mem _ h.1, h.2⟩
      · rename_i h2
        rcases ih (x :: st) s hs with h | h
        · rcases List.mem_cons.1 h with rfl | h
          · right
            simp only [Bool.or_eq_true, beq_iff_eq, not_or] at h1
            refine ⟨List.mem_cons_self .., h1.1, h1.2, by simpa using h2⟩
          · exact Or.inl h
        · exact Or.inr ⟨List.mem_cons_of_mem _ h.1, h.2⟩

/-- the segments of a cleaned path: none is "." or ".." -/
private theorem pathClean_segs (q : Bytes) : ∀ s ∈ splitSlash (pathClean q), s ≠ dot ∧ s ≠ dotdot := by
  unfold pathClean
  cases hc : cleanGo [] (splitSlash q) with
  | nil =>
    intro s hs
    have : splitSlash [47] = [[], []] := by decide
    rw [this] at hs
    simp only [List.mem_cons, List.mem_nil_iff, or_false, or_self] at hs
    subst hs
    simp [dot, dotdot]
  | cons x xs =>
    have hall : ∀ t ∈ x :: xs, t ∈ splitSlash q ∧ t ≠ [] ∧ t ≠ dot ∧ t ≠ dotdot := by
      intro t ht
      rw [← hc] at ht
      rcases cleanGo_mem [] (splitSlash q) t ht with h | h
      · simp at h
      · exact h
    simp only
    rw [splitSlash_render (x :: xs) (fun t ht => splitSlash_noslash_segs q t (hall t ht).1)]
    intro s hs
    rcases List.mem_cons.1 hs with rfl | hs
    · simp [dot, dotdot]
    · exact ⟨(hall s hs).2.2.1, (hall s hs).2.2.2⟩

private theorem splitSlash_snoc_slash (a : Bytes) : splitSlash (a ++ [47]) = splitSlash a ++ [[]] := by
  have := splitSlash_append a []
  simpa [splitSlash] using this

private theorem cleaned_or_slashed_segs (q : Bytes) (b : Bool) :
    ∀ s ∈ splitSlash (if b = true then pathClean q ++ [47] else pathClean q), s ≠ dot ∧ s ≠ dotdot := by
  intro s hs
  cases b with
  | false => exact pathClean_segs q s (by simpa using hs)
  | true =>
    simp only [if_true] at hs
    rw [splitSlash_snoc_slash] at hs
    rcases List.mem_append.1 hs with hs | hs
    · exact pathClean_segs _ s hs
    · simp only [List.mem_cons, List.mem_nil_iff, or_false] at hs
      subst hs; simp [dot, dotdot]

/-- a path that gorilla/mux does not redirect has no "." and no ".." segment -/
private theorem muxClean_fixed_segs (p : Bytes) (h : muxCleanPath p = p) : ∀ s ∈ splitSlash p, s ≠ dot ∧ s ≠ dotdot := by
  intro s hs
  rw [← h] at hs
  unfold muxCleanPath at hs
  exact cleaned_or_slashed_segs _ _ s hs

private theorem matchTpl_nonempty (tpl : List TSeg) (segs vs : List Bytes) (h : matchTpl tpl segs = some vs) :
    ∀ v ∈ vs, v ≠ [] := by
  induction tpl generalizing segs vs with
  | nil => cases segs <;> simp_all [matchTpl]
  | cons t ts ih =>
    cases segs with
    | nil => cases t <;> simp [matchTpl] at h
    | cons x xs =>
      cases t with
      | lit b =>
        simp only [matchTpl] at h
        split at h
        · exact ih xs vs h
        · simp at h
      | var =>
        simp only [matchTpl] at h
        split at h
        · simp at h
        · rename_i hx
          cases hm : matchTpl ts xs with
          | none => simp [hm] at h
          | some ws =>
            simp only [hm, Option.map_some, Option.some.injEq] at h
            subst h
            intro v hv
            rcases List.mem_cons.1 hv with rfl | hv
            · intro he; subst he; simp at hx
            · exact ih xs ws hm v hv

private theorem firstHit_nonempty (m : Method) (segs : List Bytes) (rs : List Route) (h : Handler) (vs : List Bytes)
    (hh : firstHit m segs rs = some (h, vs)) : ∀ v ∈ vs, v ≠ [] := by
  induction rs with
  | nil => simp [firstHit] at hh
  | cons r rest ih =>
    simp only [firstHit] at hh
    split at hh
    · rename_i ws hm
      split at hh
      · simp only [Option.some.injEq, Prod.mk.injEq] at hh
        obtain ⟨_, rfl⟩ := hh
        exact matchTpl_nonempty _ _ _ hm
      · exact ih hh
    · exact ih hh

/-- **routed_vars_are_carriable.**  Whatever is sent — any method, any path, any escaping, any base path — a route
    variable handed to a handler is one non-empty '/'-free segment of the once-decoded, un-redirected path: it holds no
    '/' and is not "", "." or "..".  So no request reaches a mailbox handler with a name outside `RouterCarries`
    (names with '/' are the open finding F-14c; "", ".", ".." name no mailbox). -/
theorem routed_vars_are_carriable (base : List Bytes) (m : Method) (wire : Bytes) (h : Handler) (vars : List Bytes)
    (hr : serverRoute base m wire = .hit h vars) : ∀ v ∈ vars, RouterCarries v := by
  intro v hv
  have hslash := no_path_reaches_slash_name base m wire h vars hr v hv
  unfold serverRoute at hr
  split at hr
  · simp at hr
  · rename_i p hp
    split at hr
    · simp at hr
    · rename_i hcl
      have hfix : muxCleanPath p = p := by simpa using hcl
      split at hr
      · rename_i segs hsp
        split at hr
        · simp at hr
        · rename_i segs' hst
          split at hr
          · rename_i h' vs hf
            simp only [RouteRes.hit.injEq] at hr
            obtain ⟨_, rfl⟩ := hr
            have h1 := firstHit_sub m segs' routeTable h' vs hf v hv
            have h2 := stripBase_sub base segs segs' hst v h1
            have h3 := muxClean_fixed_segs p hfix v (by rw [hsp]; simp [h2])
            exact ⟨hslash, firstHit_nonempty m segs' routeTable h' vs hf v hv, h3.1, h3.2⟩
          · simp at hr
      · simp at hr

example : serverRoute [] .get (47 :: sApi ++ 47 :: sV1 ++ 47 :: sMailbox ++ [47, 97, 37, 50, 53, 98]) = .hit .listV1 [[97, 37, 98]] ∧
    RouterCarries [97, 37, 98] := by
  refine ⟨by decide +kernel, by decide, by decide, by decide, by decide⟩

/-- **carriable_names_are_routable.**  Conversely every name in `RouterCarries` CAN be asked for: written with RFC 3986
    path-segment escaping (url.PathEscape) the request reaches the intended handler with exactly that name — blanks,
    '%', '+', '?', '#' included.  `RouterCarries` is exactly the set of names the router can carry. -/
theorem carriable_names_are_routable (base : List Bytes) (hb : ∀ s ∈ base, SegOk s) (op : ClientOp) (name id : Bytes)
    (hbytes : ∀ c ∈ name, c < 256) (hc : RouterCarries name) (hid : SegOk id) :
    serverRoute base op.method (render (base ++ segsOf op.shape (pathEscape name) id)) = .hit op.handler (op.vars name id) :=
  escaped_request_routes isPathSegKeepB pathKeep_table base hb op name id hbytes hc.1 hc.2.1 hc.2.2.1 hc.2.2.2 hid

example : RouterCarries [97, 32, 37, 43, 63, 35, 98] := ⟨by decide, by decide, by decide, by decide⟩

/-! ## what the bundled client's request reaches -/

/-- what a path makes of a QueryEscaped string: ' ' was written '+', and '+' is not decoded in a path -/
def plusify (s : Bytes) : Bytes := s.map (fun c => if c = 32 then 43 else c)

private theorem plusify_eq_self (s : Bytes) (h : 32 ∉ s) : plusify s = s := by
  induction s with
  | nil => rfl
  | cons c cs ih =>
    simp only [List.mem_cons, not_or] at h
    have : c ≠ 32 := fun hc => h.1 hc.symm
    simp [plusify, this] at ih ⊢
    exact ih h.2

private theorem plusify_self_nospace (s : Bytes) (h : plusify s = s) : 32 ∉ s := by
  induction s with
  | nil => simp
  | cons c cs ih =>
    simp only [plusify, List.map_cons, List.cons.injEq] at h
    simp only [List.mem_cons, not_or]
    refine ⟨?_, ih h.2⟩
    intro hc
    have h1 := h.1
    rw [← hc] at h1
    simp at h1

/-- `plusify s` is one of "", ".", ".." only if `s` is -/
private theorem plusify_eq_plain (s t : Bytes) (ht : 43 ∉ t) (h : plusify s = t) : s = t := by
  induction s generalizing t with
  | nil => simpa [plusify] using h
  | cons c cs ih =>
    cases t with
    | nil => simp [plusify] at h
    | cons d ds =>
      simp only [plusify, List.map_cons, List.cons.injEq] at h
      simp only [List.mem_cons, not_or] at ht
      have hc : c = d := by
        by_cases h32 : c = 32
        · rw [if_pos h32] at h
          exact absurd h.1 ht.1
        · rw [if_neg h32] at h
          exact h.1
      rw [hc, ih ds ht.2 h.2]

private theorem plusify_noslash (s : Bytes) (h : 47 ∉ s) : 47 ∉ plusify s := by
  induction s with
  | nil => simp [plusify]
  | cons c cs ih =>
    simp only [List.mem_cons, not_or] at h
    simp only [plusify, List.map_cons, List.mem_cons, not_or]
    refine ⟨?_, ih h.2⟩
    by_cases h32 : c = 32
    · simp [h32]
    · simp only [h32, if_false]; exact h.1

/-- one percent-decode of a QueryEscaped string -/
private theorem unescape_queryEscape (s : Bytes) (hs : ∀ c ∈ s, c < 256) (rest : Bytes) :
    unescape (queryEscape s ++ rest) = (unescape rest).map (fun t => plusify s ++ t) := by
  induction s with
  | nil => simp [queryEscape, plusify]
  | cons c cs ih =>
    have hc := hs c (by simp)
    have ih' := ih (fun d hd => hs d (by simp [hd]))
    have h1 : queryEscape (c :: cs) = qEscByte c ++ queryEscape cs := by simp [queryEscape]
    have h2 : plusify (c :: cs) = (if c = 32 then 43 else c) :: plusify cs := by simp [plusify]
    rw [h1, h2, List.append_assoc]
    unfold qEscByte
    by_cases hu : isUnreservedB c = true
    · have := unreserved_table c hc hu
      simp only [hu, if_true, List.cons_append, List.nil_append]
      rw [unescape_cons_ne c _ this.1, ih', if_neg this.2.2]
      cases unescape rest <;> simp
    · have hu' : isUnreservedB c = false := by simpa using hu
      simp only [hu', Bool.false_eq_true, if_false]
      by_cases h32 : c = 32
      · subst h32
        simp only [beq_self_eq_true, if_true, List.cons_append, List.nil_append]
        rw [unescape_cons_ne 43 _ (by omega), ih']
        cases unescape rest <;> simp
      · have : (c == 32) = false := by simpa using h32
        simp only [this, Bool.false_eq_true, if_false, h32]
        rw [unescape_pct c hc, ih']
        cases unescape rest <;> simp

private theorem noslash_queryEscape (s : Bytes) (hs : ∀ c ∈ s, c < 256) : 47 ∉ queryEscape s := by
  induction s with
  | nil => simp [queryEscape]
  | cons c cs ih =>
    have hc := hs c (by simp)
    have ih' := ih (fun d hd => hs d (by simp [hd]))
    have h1 : queryEscape (c :: cs) = qEscByte c ++ queryEscape cs := by simp [queryEscape]
    rw [h1, List.mem_append, not_or]
    refine ⟨?_, ih'⟩
    unfold qEscByte
    by_cases hu : isUnreservedB c = true
    · have := unreserved_table c hc hu
      simp [hu]; omega
    · have hu' : isUnreservedB c = false := by simpa using hu
      simp only [hu', Bool.false_eq_true, if_false]
      split
      · simp
      · have ht := hex_table c hc
        simp [pct]
        exact ⟨ht.2.2.1.symm, ht.2.2.2.symm⟩

/-- a QueryEscaped name is a clean path segment unless the name is "", "." or ".." -/
private theorem queryEscape_clean (name : Bytes) (hb : ∀ c ∈ name, c < 256) (hne : name ≠ []) (hd : name ≠ dot)
    (hdd : name ≠ dotdot) : Clean (queryEscape name) := by
  have hdec : unescape (queryEscape name) = some (plusify name) := by
    have := unescape_queryEscape name hb []
    simpa [unescape_nil] using this
  refine ⟨?_, ?_, ?_, noslash_queryEscape name hb⟩
  · intro h
    rw [h, unescape_nil] at hdec
    exact hne (plusify_eq_plain name [] (by simp) (Option.some.inj hdec).symm)
  · intro h
    rw [h, unescape_dot] at hdec
    exact hd (plusify_eq_plain name dot (by decide) (Option.some.inj hdec).symm)
  · intro h
    rw [h, unescape_dotdot] at hdec
    exact hdd (plusify_eq_plain name dotdot (by decide) (Option.some.inj hdec).symm)

/-- decoding base + /api/v1/mailbox/E[/id[/source]] where the segment `E` decodes to `nm` -/
private theorem decode_path_gen (E nm : Bytes)
    (hesc : ∀ rest, unescape (E ++ rest) = (unescape rest).map (fun t => nm ++ t))
    (base : List Bytes) (hb : ∀ s ∈ base, SegOk s) (sh : Shape) (id : Bytes) (hid : SegOk id) :
    unescape (render (base ++ segsOf sh E id)) = some (render (base ++ segsOf sh nm id)) := by
  have hlit : ∀ (l : Bytes), 37 ∉ l → ∀ rest, unescape (l ++ rest) = (unescape rest).map (fun t => l ++ t) :=
    fun l hl rest => unescape_lit_append l rest hl
  have hL : ∀ l : Bytes, 37 ∉ l → ∀ rest, unescape ((l, l).1 ++ rest) = (unescape rest).map (fun t => (l, l).2 ++ t) :=
    fun l hl rest => hlit l hl rest
  have h1 : (37 : Nat) ∉ sApi := by decide
  have h2 : (37 : Nat) ∉ sV1 := by decide
  have h3 : (37 : Nat) ∉ sMailbox := by decide
  have h4 : (37 : Nat) ∉ sSource := by decide
  have key := unescape_render
    (base.map (fun s => (s, s)) ++
      (match sh with
       | .box => [(sApi, sApi), (sV1, sV1), (sMailbox, sMailbox), (E, nm)]
       | .msg => [(sApi, sApi), (sV1, sV1), (sMailbox, sMailbox), (E, nm), (id, id)]
       | .source => [(sApi, sApi), (sV1, sV1), (sMailbox, sMailbox), (E, nm), (id, id), (sSource, sSource)]))
    (by
      intro p hp rest
      rcases List.mem_append.mp hp with hp | hp
      · obtain ⟨s, hs, rfl⟩ := List.mem_map.mp hp
        exact hlit s (hb s hs).noPct rest
      · cases sh <;> simp only [List.mem_cons, List.mem_nil_iff, or_false] at hp
        · rcases hp with rfl | rfl | rfl | rfl
          · exact hL _ h1 rest
          · exact hL _ h2 rest
          · exact hL _ h3 rest
          · exact hesc rest
        · rcases hp with rfl | rfl | rfl | rfl | rfl
          · exact hL _ h1 rest
          · exact hL _ h2 rest
          · exact hL _ h3 rest
          · exact hesc rest
          · exact hL _ hid.noPct rest
        · rcases hp with rfl | rfl | rfl | rfl | rfl | rfl
          · exact hL _ h1 rest
          · exact hL _ h2 rest
          · exact hL _ h3 rest
          · exact hesc rest
          · exact hL _ hid.noPct rest
          · exact hL _ h4 rest)
  cases sh <;> simpa [segsOf, Function.comp_def] using key

/-- **client_route_general.**  For ANY name of real bytes without '/' that is not "", ".", ".." — blanks, '%' followed
    by anything, '+', '?', '#' included — every operation of the bundled client sends a request, and the request reaches
    the handler of that operation with the variables (`plusify name`, id): the name itself with every ' ' turned
    into '+'. -/
theorem client_route_general (base : List Bytes) (hb : ∀ s ∈ base, SegOk s) (op : ClientOp) (name id : Bytes)
    (hbytes : ∀ c ∈ name, c < 256) (hc : RouterCarries name) (hid : SegOk id) :
    clientRoute base op name id = some (.hit op.handler (op.vars (plusify name) id)) := by
  obtain ⟨hslash, hne, hd, hdd⟩ := hc
  have hqc := queryEscape_clean name hbytes hne hd hdd
  have hsc := segs_clean op.shape _ id hqc hid.clean
  have hsegs : segsOf op.shape (queryEscape name) id ≠ [] := by cases op.shape <;> simp [segsOf]
  have hj := joinPath_clean base _ (fun s h => (hb s h).clean) hsc hsegs
  have hdec := decode_path_gen (queryEscape name) (plusify name) (unescape_queryEscape name hbytes) base hb op.shape id hid
  have hpc : Clean (plusify name) :=
    ⟨fun h => hne (plusify_eq_plain name [] (by simp) h), fun h => hd (plusify_eq_plain name dot (by decide) h),
     fun h => hdd (plusify_eq_plain name dotdot (by decide) h), plusify_noslash name hslash⟩
  have hsegs' : segsOf op.shape (plusify name) id ≠ [] := by cases op.shape <;> simp [segsOf]
  unfold clientRoute clientWire
  simp only [clientUri_render, hj, hdec, Option.isSome_some, if_true, Option.map_some]
  rw [serverRoute_clean base _ (segsOf op.shape (plusify name) id) op.method (fun s h => (hb s h).clean)
      (segs_clean _ _ _ hpc hid.clean) hsegs' hdec,
    firstHit_shapes op (plusify name) id hpc.1 hid.ne]

/-- the name "100% sure+1?" (bytes 49 48 48 37 32 115 117 114 101 43 49 63) is such a name -/
example : RouterCarries [49, 48, 48, 37, 32, 115, 117, 114, 101, 43, 49, 63] ∧
    plusify [49, 48, 48, 37, 32, 115, 117, 114, 101, 43, 49, 63] = [49, 48, 48, 37, 43, 115, 117, 114, 101, 43, 49, 63] :=
  ⟨⟨by decide, by decide, by decide, by decide⟩, by decide⟩

/-- **client_request_reaches_the_named_mailbox.**  For EVERY byte string `name` (any of '%' followed by two, one or no
    hex digits, '+', '/', '?', '#', blanks, …), every operation of the bundled client, every id of unreserved bytes
    and every clean base path: the request the client builds (`"/api/v1/mailbox/" + url.QueryEscape(name) …`, joined by
    `URL.JoinPath`) reaches the handler its operation names with EXACTLY (name, id) as route variables

        if and only if      name holds no '/', is not "", "." or ".."    (what the router can carry at all)
                       and  name holds no ' '                            (QueryEscape writes '+', a path keeps '+').

    In particular '%' in any position, '+', '?', '#', '@', ';' are carried faithfully — nothing is decoded twice. -/
theorem client_request_reaches_the_named_mailbox (base : List Bytes) (hb : ∀ s ∈ base, SegOk s) (op : ClientOp)
    (name id : Bytes) (hbytes : ∀ c ∈ name, c < 256) (hid : SegOk id) :
    clientRoute base op name id = some (.hit op.handler (op.vars name id)) ↔ ClientCarries name := by
  have hmem : ∀ nm, nm ∈ op.vars nm id := by
    intro nm; cases op <;> simp [ClientOp.vars, ClientOp.shape]
  have hhead : ∀ a b, op.vars a id = op.vars b id → a = b := by
    intro a b h; cases op <;> simp [ClientOp.vars, ClientOp.shape] at h <;> exact h
  constructor
  · intro h
    have hrc : RouterCarries name := by
      unfold clientRoute at h
      cases hw : clientWire base op.shape name id with
      | none => simp [hw] at h
      | some w =>
        simp only [hw, Option.map_some, Option.some.injEq] at h
        exact routed_vars_are_carriable base op.method w _ _ h name (hmem name)
    refine ⟨hrc, ?_⟩
    rw [client_route_general base hb op name id hbytes hrc hid] at h
    simp only [Option.some.injEq, RouteRes.hit.injEq, true_and] at h
    exact plusify_self_nospace name (hhead _ _ h)
  · rintro ⟨hrc, hsp⟩
    rw [client_route_general base hb op name id hbytes hrc hid, plusify_eq_self name hsp]

/-- "promo%2Bwinter@example.com", "sale%2025", "carol%example.org@relay", "a%", "x?y#z" are all carried -/
example : ClientCarries (ofAscii "promo%2Bwinter@example.com") ∧ ClientCarries (ofAscii "sale%2025") ∧
    ClientCarries (ofAscii "carol%example.org@relay") ∧ ClientCarries (ofAscii "a%") ∧ ClientCarries (ofAscii "x?y#z") := by
  refine ⟨⟨⟨?_, ?_, ?_, ?_⟩, ?_⟩, ⟨⟨?_, ?_, ?_, ?_⟩, ?_⟩, ⟨⟨?_, ?_, ?_, ?_⟩, ?_⟩, ⟨⟨?_, ?_, ?_, ?_⟩, ?_⟩, ⟨⟨?_, ?_, ?_, ?_⟩, ?_⟩⟩ <;> decide

/-! ## the general wire model agrees with `clientWire` where that one is defined -/

private theorem render_all (P : Nat → Bool) (h47 : P 47 = true) (segs : List Bytes) (h : ∀ s ∈ segs, s.all P = true) :
    (render segs).all P = true := by
  induction segs with
  | nil => simp [render]
  | cons s ss ih =>
    have : render (s :: ss) = 47 :: (s ++ render ss) := by simp [render]
    rw [this]
    simp only [List.all_cons, List.all_append, Bool.and_eq_true]
    exact ⟨h47, h s (by simp), ih (fun t ht => h t (by simp [ht]))⟩

private theorem qEsc_valid : ∀ c < 256, (qEscByte c).all validEncodedB = true := by decide +kernel
private theorem unreserved_valid : ∀ c < 256, isUnreservedB c = true → validEncodedB c = true := by decide +kernel

private theorem queryEscape_valid (s : Bytes) (hs : ∀ c ∈ s, c < 256) : (queryEscape s).all validEncodedB = true := by
  induction s with
  | nil => rfl
  | cons c cs ih =>
    have h1 : queryEscape (c :: cs) = qEscByte c ++ queryEscape cs := by simp [queryEscape]
    rw [h1, List.all_append, Bool.and_eq_true]
    exact ⟨qEsc_valid c (hs c (by simp)), ih (fun d hd => hs d (by simp [hd]))⟩

/-- **client_wire_general_agrees.**  On the names and ids `client_wire` speaks about, the general model of what
    `JoinPath(…).String()` sends (`clientWireV .queryEscape`, defined for every name and id) is the path `clientWire`
    gives: the QueryEscaped path is a valid encoding of its own decoding, so it is sent as it is. -/
theorem client_wire_general_agrees (base : List Bytes) (hb : ∀ s ∈ base, SegOk s) (sh : Shape) (name id : Bytes)
    (hn : NameOk name) (hid : SegOk id) :
    some (clientWireV .queryEscape base sh name id) = clientWire base sh name id := by
  have hw := client_wire base hb sh name id hn hid
  have hsome : (unescape (joinPath base (clientUri sh name id))).isSome = true := by
    unfold clientWire at hw
    simp only at hw
    split at hw
    · assumption
    · simp at hw
  have hp : joinPath base (clientUri sh name id) = render (base ++ segsOf sh (queryEscape name) id) := by
    unfold clientWire at hw
    simp only [hsome, if_true, Option.some.injEq] at hw
    exact hw
  have hvalid : validEncoded (render (base ++ segsOf sh (queryEscape name) id)) = true := by
    unfold validEncoded
    apply render_all validEncodedB (by decide)
    intro s hs
    have hseg : ∀ t : Bytes, SegOk t → t.all validEncodedB = true := by
      intro t ht
      rw [List.all_eq_true]
      intro c hc
      exact unreserved_valid c (ht.bytes c hc).1 (ht.bytes c hc).2
    have hq := queryEscape_valid name hn.bytes
    rcases List.mem_append.1 hs with hs | hs
    · exact hseg s (hb s hs)
    · cases sh <;> simp only [segsOf, List.mem_cons, List.mem_nil_iff, or_false] at hs
      · rcases hs with rfl | rfl | rfl | rfl <;> first | decide | exact hq
      · rcases hs with rfl | rfl | rfl | rfl | rfl <;> first | decide | exact hq | exact hseg _ hid
      · rcases hs with rfl | rfl | rfl | rfl | rfl | rfl <;> first | decide | exact hq | exact hseg _ hid
  rw [hw]
  unfold clientWireV wireOf uriOf
  simp only
  obtain ⟨path, hpath⟩ := Option.isSome_iff_exists.1 hsome
  rw [hpath]
  simp only
  rw [hp, hvalid]
  simp

example : NameOk (ofAscii "a%41@x.org") := ⟨by decide, by decide, by decide, by decide, by decide, by decide⟩

/-! ## the counter-witness: path.Join + JoinPath -/

def nPromo : Bytes := ofAscii "promo%2Bwinter"
def nSale : Bytes := ofAscii "sale%2025"
def nCarol : Bytes := ofAscii "carol%example.org"

/-- **path_join_client_decodes_the_name** (counter-witness).  A client that builds its path with
    `path.Join("/api/v1/mailbox", name, id…)` and leaves the escaping to `URL.JoinPath` percent-DECODES the name:
    asked for "promo%2Bwinter" it reaches the handlers with "promo+winter" (whose mailbox is "promo"), asked for
    "sale%2025" with "sale 25" (no mailbox: 500), and for "carol%example.org" — an invalid escape — the joined path
    is dropped and the request goes to the base URL (no route).  None of the three names reaches the named mailbox,
    for listing, fetching, marking, deleting or purging; the client of the code (QueryEscape) carries all three. -/
theorem path_join_client_decodes_the_name :
    clientRouteV .pathJoinRaw [] .list nPromo [] = .hit .listV1 [ofAscii "promo+winter"] ∧
    clientRouteV .pathJoinRaw [] .delete nPromo [49] = .hit .deleteV1 [ofAscii "promo+winter", [49]] ∧
    clientRouteV .pathJoinRaw [] .purge nPromo [] = .hit .purgeV1 [ofAscii "promo+winter"] ∧
    extractMailbox (fun _ => false) .localN (ofAscii "promo+winter") = some (ofAscii "promo") ∧
    extractMailbox (fun _ => false) .localN nPromo = some (ofAscii "promo%2bwinter") ∧
    clientRouteV .pathJoinRaw [] .get nSale [49] = .hit .showV1 [ofAscii "sale 25", [49]] ∧
    extractMailbox (fun _ => false) .localN (ofAscii "sale 25") = none ∧
    clientRouteV .pathJoinRaw [] .list nCarol [] = .notFound ∧
    clientRouteV .queryEscape [] .list nPromo [] = .hit .listV1 [nPromo] ∧
    clientRouteV .queryEscape [] .get nSale [49] = .hit .showV1 [nSale, [49]] ∧
    clientRouteV .queryEscape [] .list nCarol [] = .hit .listV1 [nCarol] := by
  decide +kernel

end Ibx.Props.C14Client
