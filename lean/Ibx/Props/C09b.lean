import Ibx.Props.C09
import Ibx.Props.C07
import Ibx.Lemmas.ConcMemMutex
import Ibx.Lemmas.ConcMemTie
import Ibx.Lemmas.ConcMemTerm
import Ibx.Lemmas.ConcMemQuiesce
import Ibx.Lemmas.ConcFileOnce
/-
  C09 (second part) — stores are safe under concurrent use: what the first part left open.

  1. the size enforcer's byte ACCOUNTING under every interleaving, and what it gives at quiescence
     (the concurrent analogue of C08.no_drift / size_bound); the eviction loop terminates;
  2. MUTUAL EXCLUSION as stated lemmas (write sections, readers vs writers, the store mutex);
  3. file store: a visit reports every mailbox directory at most once;
  4. the TIE: every critical section of the concurrent model is the corresponding operation of the sequential
     memory-store model of C07 (hence of Spec.Store) on the abstraction of the shared state, so the results of
     every concurrent execution are those of `Spec.Store.run` on its linearisation order.

  Same model and same trusted base as Ibx/Props/C09.lean (all interleavings of any family of client threads
  with the enforcer goroutine, every cap / limit; both variants of the enforcer protocol where not said
  otherwise).
-/
namespace Ibx.Props.C09b
open Ibx.Model Ibx.Model.ConcMem

private theorem reach_ind {v c progs} {P : St → Prop} (h0 : P (init progs))
    (hs : ∀ s s', P s → Step v c s s' → P s') {s : St} (h : Reach v c progs s) : P s := by
  induction h with
  | init => exact h0
  | step _ st ih => exact hs _ _ ih st

/-! ## sample executions used by the non-vacuity examples -/

/-- one delivery of 2 bytes into a store limited to 1 byte: it is registered and then evicted -/
def progsBig : Nat → List Op := fun t => if t = 0 then [.add 0 2] else []
def cfgTiny : Cfg := { cap := 0, limit := 1 }

/-- the state in the middle of the eviction is reachable: the enforcer has popped the message from `all` and is
    about to take the store mutex (9 steps) -/
theorem reach_midEvict : ∃ s, Reach C09.code cfgTiny progsBig s ∧ s.epc = .evLockS 0 (0, 1) ∧ s.all = [] ∧
    s.counted = [(0, 1)] ∧ s.cur = 2 ∧ s.size (0, 1) = 2 ∧ (s.boxes 0).msgs = [1] ∧
    s.wlock = (fun _ => none) ∧ s.slock = none ∧ s.thr 0 = .wait (.add 0 2) [] (.id 1) := by
  have r0 : Reach C09.code cfgTiny progsBig _ := Reach.init
  have r1 := Reach.step r0 (Step.start 0 (.add 0 2) [] rfl rfl rfl)
  have r2 := Reach.step r1 (Step.lockS 0 (.add 0 2) rfl rfl rfl)
  have r3 := Reach.step r2 (Step.unlockS 0 (.add 0 2) rfl rfl)
  have r4 := Reach.step r3 (Step.lockB 0 (.add 0 2) rfl rfl ⟨rfl, fun _ _ => rfl⟩)
  have r5 := Reach.step r4 (Step.crit 0 (.add 0 2) rfl rfl)
  have r6 := Reach.step r5 (Step.unlockB 0 (.add 0 2) [.inc (0, 1)] (.id 1) rfl rfl)
  have r7 := Reach.step r6 (Step.sendInc 0 (.add 0 2) (0, 1) [] (.id 1) rfl rfl rfl)
  have r8 := Reach.step r7 (Step.incReg 0 (0, 1) rfl rfl rfl)
  have r9 := Reach.step r8 (Step.loopEvict 0 (0, 1) [] rfl rfl (by decide) rfl)
  refine ⟨_, r9, rfl, rfl, rfl, rfl, rfl, rfl, ?_, rfl, rfl⟩
  funext b; simp [release, acquire, critEff, init, upd, Op.isWrite]

/-! ## 1. the enforcer's accounting -/

/-- the rendezvous discipline and the accounting invariant hold in every reachable state -/
theorem accounting_invariants {v c progs s} (hl : c.limit ≠ 0) (h : Reach v c progs s) : PendInv s ∧ Acct c s :=
  reach_ind (P := fun s => PendInv s ∧ Acct c s) ⟨pendInv_init progs, acct_init c progs⟩
    (fun _ _ ih st => ⟨pendInv_step st ih.1, acct_step hl st ih.1 ih.2⟩) h

/-- **enforcer_accounting.**  In every reachable state of a store with a size limit, under every interleaving:
    `cur` is exactly the sum of the sizes of the messages registered and not yet subtracted (`counted`, duplicate
    free); these are the entries of `all` (duplicate free) plus the messages the eviction loop has popped
    (`popped`), and every popped message is either being evicted right now (the eviction will subtract it) or
    has already been deleted from its mailbox map by a client whose enforcerRemove is still pending (that call
    will subtract it: `all.Remove` of an unlinked element returns its value). -/
theorem enforcer_accounting {v c progs s} (hl : c.limit ≠ 0) (h : Reach v c progs s) :
    s.cur = sumSize s.size s.counted ∧ s.counted.Nodup ∧ s.all.Nodup ∧ (∀ k ∈ s.all, k ∈ s.counted) ∧
    s.cur = sumSize s.size s.all + sumSize s.size (popped s) ∧
    (∀ k ∈ popped s, evPre s k ∨ evPost s k true ∨ (¬ live s.abs k ∧ hasRem s k)) :=
  let ⟨hP, hA⟩ := accounting_invariants hl h
  ⟨hA.sum, hA.cnd, hA.and, hA.sub, hA.split, hA.popped_where hP⟩

/-- non-vacuity: a reachable state of the code as it is in which `all` is empty, `cur` = 2 and the whole
    amount is owed by the eviction in flight -/
example : ∃ s, Reach C09.code cfgTiny progsBig s ∧ cfgTiny.limit ≠ 0 ∧ popped s = [(0, 1)] ∧ s.cur = 2 ∧
    evPre s (0, 1) := by
  obtain ⟨s, hr, he, ha, hc, hcur, _⟩ := reach_midEvict
  refine ⟨s, hr, by decide, ?_, hcur, ⟨0, Or.inl he⟩⟩
  simp [popped, ha, hc]

/-- the messages in the maps and the entries of `all`: a message in a map is registered, or its registration is
    still pending, or it is being evicted; an entry of `all` is in its map or its deleter's enforcerRemove is
    still pending.  Every enforcerRemove / enforcerDeliver is issued exactly once per message (todo lists are
    duplicate free and pairwise disjoint; a request being served is in no todo list). -/
theorem registered_vs_stored {v c progs s} (hl : c.limit ≠ 0) (h : Reach v c progs s) :
    (∀ k, live s.abs k → k ∈ s.all ∨ hasInc s k ∨ evPre s k) ∧
    (∀ k ∈ s.all, live s.abs k ∨ hasRem s k) ∧
    (∀ t, (todoPC (s.thr t)).Nodup) ∧
    (∀ x t1 t2, x ≠ Instr.unlock → x ∈ todoPC (s.thr t1) → x ∈ todoPC (s.thr t2) → t1 = t2) := by
  obtain ⟨hP, hA⟩ := accounting_invariants hl h
  refine ⟨hA.lv, ?_, hP.nd, hP.uq⟩
  intro k hk
  rcases hA.alive k (hA.sub k hk) with q | q | q
  · exact Or.inl q
  · exact Or.inr q
  · exact absurd hk (hA.evc k (Or.inr ⟨true, q⟩)).2

/-- **quiescent_no_drift** (the concurrent analogue of C08.no_drift and C08.size_bound).  Whenever no operation
    has enforcer calls outstanding and the enforcer is in its `select` — in particular whenever every client
    thread is idle — `all` enumerates exactly the messages in the mailbox maps, each once, `cur` is the sum of
    their sizes, and it does not exceed the limit. -/
theorem quiescent_no_drift {v c progs s} (hl : c.limit ≠ 0) (h : Reach v c progs s) (hq : Quiescent s) :
    (∀ k, k ∈ s.all ↔ live s.abs k) ∧ s.all.Nodup ∧ s.cur = sumSize s.size s.all ∧ s.cur ≤ (c.limit : Int) :=
  (accounting_invariants hl h).2.quiescent hq

/-- every client thread idle (no operation in flight) is a quiescent state: the enforcer works only on behalf
    of a waiting client -/
theorem idle_is_quiescent {v c progs s} (h : Reach v c progs s) (hf : ∀ t, s.thr t = .idle) : Quiescent s :=
  quiescent_of_final (reach_ind (P := ServInv) (servInv_init progs) (fun _ _ ih st => servInv_step st ih) h) hf

/-- … hence at the end of every complete execution the stored bytes are accounted exactly and within the limit -/
theorem final_no_drift {v c progs s} (hl : c.limit ≠ 0) (h : Reach v c progs s) (hf : Final s) :
    (∀ k, k ∈ s.all ↔ live s.abs k) ∧ s.cur = sumSize s.size s.all ∧ s.cur ≤ (c.limit : Int) :=
  let q := quiescent_no_drift hl h (idle_is_quiescent h (fun t => (hf t).1))
  ⟨q.1, q.2.2.1, q.2.2.2⟩

/-- non-vacuity of `quiescent_no_drift`: the state after one complete delivery (C09's sample, 11 steps) is
    reachable, quiescent, and has `cur` = 5 = the size of the one stored message -/
example : ∃ s, Reach C09.code { cap := 0, limit := 100 } C09.progsAdd s ∧ Quiescent s ∧ s.cur = 5 ∧ s.all = [(0, 1)] := by
  have r0 : Reach C09.code { cap := 0, limit := 100 } C09.progsAdd _ := Reach.init
  have r1 := Reach.step r0 (Step.start 0 (.add 0 5) [] rfl rfl rfl)
  have r2 := Reach.step r1 (Step.lockS 0 (.add 0 5) rfl rfl rfl)
  have r3 := Reach.step r2 (Step.unlockS 0 (.add 0 5) rfl rfl)
  have r4 := Reach.step r3 (Step.lockB 0 (.add 0 5) rfl rfl ⟨rfl, fun _ _ => rfl⟩)
  have r5 := Reach.step r4 (Step.crit 0 (.add 0 5) rfl rfl)
  have r6 := Reach.step r5 (Step.unlockB 0 (.add 0 5) [.inc (0, 1)] (.id 1) rfl rfl)
  have r7 := Reach.step r6 (Step.sendInc 0 (.add 0 5) (0, 1) [] (.id 1) rfl rfl rfl)
  have r8 := Reach.step r7 (Step.incReg 0 (0, 1) rfl rfl rfl)
  have r9 := Reach.step r8 (Step.loopDone 0 rfl rfl (by decide))
  have r10 := Reach.step r9 (Step.fin 0 rfl rfl)
  have r11 := Reach.step r10 (Step.finish 0 (.add 0 5) (.id 1) rfl rfl)
  refine ⟨_, r11, ⟨rfl, ?_⟩, rfl, rfl⟩
  intro t
  by_cases e : t = 0
  · subst e; rfl
  · simp [upd, e, init, critEff, acquire, release, resume, todoPC]

/-- without a size limit there is no enforcer: nothing is ever sent to it and its state stays empty -/
theorem enforcer_off {v c progs s} (hl : c.limit = 0) (h : Reach v c progs s) :
    s.epc = .idle ∧ s.all = [] ∧ s.cur = 0 ∧ ∀ t x, x ∈ todoPC (s.thr t) → x = Instr.unlock :=
  let q := reach_ind (P := EnfOff) (enfOff_init progs) (fun _ _ ih st => enfOff_step hl st ih) h
  ⟨q.idle, q.all, q.cur, q.todo⟩

example : ({ cap := 3, limit := 0 } : Cfg).limit = 0 := rfl

/-- **eviction_loop_terminates.**  While the enforcer serves a request, each of its own moves strictly decreases
    `emeasure` (linear in `len(all)`: every iteration of `for curSize > maxSize` pops one element and nobody
    adds to `all` meanwhile), no client step changes it, and it starts at most at `6·len(all) + 9`; so along
    every execution fragment in which the enforcer is busy the number of its moves is bounded by the measure
    at the start — the loop cannot run for ever, whatever the clients do in between. -/
theorem eviction_loop_terminates {v c} :
    (∀ s s', Step v c s s' → s.epc ≠ .idle → s'.epc ≠ s.epc → emeasure s' < emeasure s) ∧
    (∀ s s', Step v c s s' → s'.epc = s.epc → emeasure s' = emeasure s ∧ s'.all = s.all ∧ s'.cur = s.cur) ∧
    (∀ s s', Step v c s s' → s.epc = .idle → emeasure s' ≤ 6 * s.all.length + 9) ∧
    (∀ s s' n, BusySteps v c s s' n → n + emeasure s' ≤ emeasure s) :=
  ⟨fun _ _ st hb hn => enf_step_decreases st hb hn, fun _ _ st hn => other_step_keeps st hn,
   fun _ _ st hi => (request_measure st hi).1, fun _ _ _ h => busy_bound h⟩

/-- non-vacuity: a busy fragment with one enforcer move exists from the mid-eviction state (measure 7) -/
example : ∃ s s', Reach C09.code cfgTiny progsBig s ∧ BusySteps C09.code cfgTiny s s' 1 ∧ emeasure s = 7 := by
  obtain ⟨s, hr, he, ha, _, _, _, _, _, hsl, _⟩ := reach_midEvict
  have hp : s.panic = false := C09.no_panic .outsideLock _ _ s hr
  have st : Step C09.code cfgTiny s { s with slock := some .enf, epc := .evUnlockS 0 (0, 1) } :=
    Step.evLockS 0 (0, 1) hp he hsl
  have hb := BusySteps.step (BusySteps.refl s) (by rw [he]; simp) st
  have e : (0 + if ({ s with slock := some Who.enf, epc := EPC.evUnlockS 0 (0, 1) } : St).epc = s.epc then 0 else 1) = 1 := by
    simp [he]
  rw [e] at hb
  exact ⟨s, _, hr, hb, by simp [emeasure, he, ha]⟩

/-! ## 2. mutual exclusion -/

theorem hold_invariant {v c progs s} (h : Reach v c progs s) : HoldInv s :=
  reach_ind (P := HoldInv) (holdInv_init progs) (fun _ _ ih st => holdInv_step st ih) h

/-- **write_section_exclusive.**  At most one party — client thread or the enforcer in removeMessage — is inside
    a write critical section of a mailbox (between `mb.Lock()` and `mb.Unlock()`), in every reachable state. -/
theorem write_section_exclusive {v c progs s} (h : Reach v c progs s) (b : Nat) (w1 w2 : Who)
    (h1 : WriterIn s b w1) (h2 : WriterIn s b w2) : w1 = w2 := by
  have e1 := (writerIn_iff (C09.lock_invariant h) (hold_invariant h) b w1).1 h1
  have e2 := (writerIn_iff (C09.lock_invariant h) (hold_invariant h) b w2).1 h2
  rw [e1] at e2; injection e2

/-- **readers_exclude_writers.**  While anybody is inside a write critical section of a mailbox, no thread is
    inside a read critical section (GetMessage / GetMessages under RLock) of it. -/
theorem readers_exclude_writers {v c progs s} (h : Reach v c progs s) (b : Nat) (w : Who) (t : Nat)
    (h1 : WriterIn s b w) : ¬ ReaderIn s b t := by
  intro h2
  have e1 := (writerIn_iff (C09.lock_invariant h) (hold_invariant h) b w).1 h1
  have e2 := (readerIn_iff (C09.lock_invariant h) (hold_invariant h) b t).1 h2
  have := (hold_invariant h).rw b t (by rw [e1]; simp)
  rw [e2] at this; cases this

/-- **store_mutex_exclusive.**  The store mutex is held by at most one party. -/
theorem store_mutex_exclusive {v c progs s} (h : Reach v c progs s) (w1 w2 : Who)
    (h1 : InStore s w1) (h2 : InStore s w2) : w1 = w2 := by
  have e1 := (inStore_iff (C09.lock_invariant h) (hold_invariant h) w1).1 h1
  have e2 := (inStore_iff (C09.lock_invariant h) (hold_invariant h) w2).1 h2
  rw [e1] at e2; injection e2

/-- the lock tables say exactly who is inside: an entry is a party inside its critical section and vice versa -/
theorem lock_tables_exact {v c progs s} (h : Reach v c progs s) :
    (∀ b w, WriterIn s b w ↔ s.wlock b = some w) ∧ (∀ b t, ReaderIn s b t ↔ s.rlock b t = true) ∧
    (∀ w, InStore s w ↔ s.slock = some w) :=
  ⟨writerIn_iff (C09.lock_invariant h) (hold_invariant h), readerIn_iff (C09.lock_invariant h) (hold_invariant h),
   inStore_iff (C09.lock_invariant h) (hold_invariant h)⟩

/-- non-vacuity: a reachable state with a writer inside mailbox 0 (and one with the store mutex held) -/
example : (∃ s, Reach C09.code cfgTiny progsBig s ∧ WriterIn s 0 (.cl 0)) ∧
    (∃ s, Reach C09.code cfgTiny progsBig s ∧ InStore s (.cl 0)) := by
  have r0 : Reach C09.code cfgTiny progsBig _ := Reach.init
  have r1 := Reach.step r0 (Step.start 0 (.add 0 2) [] rfl rfl rfl)
  have r2 := Reach.step r1 (Step.lockS 0 (.add 0 2) rfl rfl rfl)
  have r3 := Reach.step r2 (Step.unlockS 0 (.add 0 2) rfl rfl)
  have r4 := Reach.step r3 (Step.lockB 0 (.add 0 2) rfl rfl ⟨rfl, fun _ _ => rfl⟩)
  exact ⟨⟨_, r4, rfl⟩, ⟨_, r2, ⟨_, rfl⟩⟩⟩

/-! ## 3. file store -/

/-- **visit_reports_each_at_most_once.**  Whatever the mutators do during the walk (either variant of the
    ENOENT handling), VisitMailboxes calls back at most once per mailbox directory: the callback invocations
    of every reachable state — in particular of a finished visit — name pairwise different mailboxes.
    Needs only that the directory tree had no duplicate entries when the visit started. -/
theorem visit_reports_each_at_most_once (v : ConcFile.EnoentVar) (keep : ConcFile.Mb → Bool) (fs : ConcFile.Fs)
    (s : ConcFile.St) (hwf : fs.WF) (h : ConcFile.Reach v keep fs s) : (s.reported.map (·.1)).Nodup :=
  ConcFile.once_reach hwf h

example : ConcFile.Fs.WF C09.fs1 := by constructor <;> decide

/-! ## 4. the tie to Spec.Store -/

/-- **critical_section_is_spec_step.**  One critical section of the concurrent model (`Atomic.step`, the
    linearisation point of an operation) is the corresponding operation of the sequential memory-store model
    `Model.Mem.step` (cap as configured, byte limit off: the limit is the enforcer's business) on a related
    state: related states after, the same answer, the same messages deleted from the maps. -/
theorem critical_section_is_mem_step (c : Cfg) (a : AS) (size : Key → Nat) (m : Mem.Mem) (o : Op) (h : Sim a size m)
    (hbi : ∀ b, Ibx.Lemmas.MemRefine.BoxInv (m.boxes (nm b))) :
    Sim (Atomic.step c a o).1 (newSize o (Atomic.step c a o).2.1 size) (Mem.step (specCfg c) m (specOp o)).1 ∧
    retOf (Mem.step (specCfg c) m (specOp o)).2.1 = (Atomic.step c a o).2.1 ∧
    (Mem.step (specCfg c) m (specOp o)).2.2 = (Atomic.step c a o).2.2.map evKey :=
  sim_step c a size m o h hbi

example : Sim AS.empty (fun _ => 0) Mem.empty := sim_empty _

private theorem tieInv {v c progs s} (h : Reach v c progs s) : TieInv c s :=
  reach_ind (P := TieInv c) (tieInv_init c progs) (fun _ _ ih st => tieInv_step st ih) h

/-- **concurrent_results_are_spec_results.**  For every concurrent execution (any number of threads, any
    schedule, either enforcer variant): run `Spec.Store` sequentially on the linearisation order `s.lin` — the
    critical sections in the order they happened, the enforcer's evictions being `remove` operations of a
    background client.  Then
      (1) the answers of that sequential run are exactly the results the critical sections produced,
      (2) every completed operation of the concurrent execution returned the result of its own entry,
      (3) the `deleted` events of the sequential run are exactly the deletions from the maps, in order,
      (4) the sequential run ends in the current shared state: same ids in every mailbox, in the same order,
          with the recorded sizes.
    Composition of `C09.linearizable` (forward simulation to the atomic machine), `critical_section_is_mem_step`
    and `C07.mem_refines_run` (the memory-store model refines Spec.Store). -/
theorem concurrent_results_are_spec_results {v c progs s} (h : Reach v c progs s) :
    let sp := Spec.Store.run (specCfg c) Spec.Store.empty s.specOps
    sp.2.map (fun x => retOf x.1) = s.lin.map (·.2.2) ∧
    (∀ t o r, (t, o, r) ∈ s.hist → (Who.cl t, o, r) ∈ s.lin) ∧
    (sp.2.map (·.2)).flatten = s.removed.map evKey ∧
    (∀ b, (Spec.Store.listing sp.1 (nm b)).map (·.id) = (s.boxes b).msgs) ∧
    (∀ b, ∀ x ∈ Spec.Store.listing sp.1 (nm b), x.size = s.size (b, x.id)) := by
  intro sp
  have hT := tieInv h
  obtain ⟨hR, hA⟩ := C07.mem_refines_run (specCfg c) s.specOps
  obtain ⟨a1, a2⟩ := ansAll_proj hA
  have hbox := fun b => (hR.rb.box (nm b)).list
  refine ⟨?_, fun t o r hh => C09.results_from_linearisation h t o r hh, ?_, ?_, ?_⟩
  · rw [← hT.ans]; exact a1.symm
  · rw [← hT.del]; exact congrArg List.flatten a2.symm
  · intro b
    show (Spec.Store.listing sp.1 (nm b)).map (·.id) = (s.abs.boxes b).msgs
    rw [← (hT.sim.box b).ids, ← hbox b, List.map_map]; rfl
  · intro b x hx
    have hx' : x ∈ Spec.Store.listing (Spec.Store.run (specCfg c) Spec.Store.empty s.specOps).1 (nm b) := hx
    rw [← hbox b] at hx'
    simp only [List.mem_map] at hx'
    obtain ⟨y, hy, rfl⟩ := hx'
    exact (hT.sim.box b).size y hy

/-- non-vacuity: on the complete delivery of C09's sample the linearisation order is the one `add`, and the
    spec run on it answers id 1 -/
example : (Spec.Store.run (specCfg { cap := 0, limit := 100 }) Spec.Store.empty [specOp (.add 0 5)]).2.map (fun x => retOf x.1)
    = [Ret.id 1] := by decide

end Ibx.Props.C09b
