import Ibx.Props.C03
/-
  C06 — no message larger than the configured maximum is ever accepted or stored.
  For every limit `e.maxBytes : Int` — including 0 and negative values — every block and every SIZE parameter.
-/
namespace Ibx.Props.C06
open Ibx Ibx.Bytes Ibx.Model Ibx.Model.Smtp
open Ibx.Lemmas.Smtp Ibx.Lemmas.SmtpLoop Ibx.Lemmas.SmtpIO Ibx.Lemmas.SmtpEx

/-! ### the SIZE parameter of MAIL -/

/-- a declared SIZE larger than the limit: 552, state and envelope unchanged -/
theorem size_param_refused (e : Env) (s : Sess) (line arg addr params : Bytes) (pairs : List (Bytes × Bytes))
    (n : Int) (acc : List Ev) (hs : s.st = .ready) (hp : parseCmd line = .cmd (ofAscii "MAIL") arg)
    (hre : e.mailRe arg = some (addr, params)) (hne : params ≠ []) (hargs : e.parseArgs params = some pairs)
    (hsz : sizeArg pairs ≠ []) (hint : parseInt32 (sizeArg pairs) = some n) (hbig : n > e.maxBytes) :
    handleLine e s line acc = (send s 1, .reply [552] :: acc) := by
  rw [handleLine_cmd e s line _ arg acc (by simp [hs]) (by simp [hs]) hp, handleCmd_ready_mail e s arg acc hs,
    mailFrom_eq]
  have : mailSyntax e arg = .inl 552 := by
    simp [mailSyntax, sizeCheck, hre, hne, hargs, hsz, hint, hbig]
  rw [this]
  rfl

/-- a SIZE that is not a 32-bit integer: 501, state and envelope unchanged -/
theorem size_param_not_integer (e : Env) (s : Sess) (line arg addr params : Bytes) (pairs : List (Bytes × Bytes))
    (acc : List Ev) (hs : s.st = .ready) (hp : parseCmd line = .cmd (ofAscii "MAIL") arg)
    (hre : e.mailRe arg = some (addr, params)) (hne : params ≠ []) (hargs : e.parseArgs params = some pairs)
    (hsz : sizeArg pairs ≠ []) (hint : parseInt32 (sizeArg pairs) = none) :
    handleLine e s line acc = (send s 1, .reply [501] :: acc) := by
  rw [handleLine_cmd e s line _ arg acc (by simp [hs]) (by simp [hs]) hp, handleCmd_ready_mail e s arg acc hs,
    mailFrom_eq]
  have : mailSyntax e arg = .inl 501 := by
    simp [mailSyntax, sizeCheck, hre, hne, hargs, hsz, hint]
  rw [this]
  rfl

/-- limit 20: SIZE=21 is refused, SIZE=20 accepted, SIZE=x is a syntax error -/
example : (handleLine exEnv exReady (ofAscii "MAIL FROM:<> SIZE=21\r\n") []).2 = [.reply [552]] ∧
    (handleLine exEnv exReady (ofAscii "MAIL FROM:<> SIZE=21\r\n") []).1.st = .ready := by decide
example : (handleLine exEnv exReady (ofAscii "MAIL FROM:<> SIZE=20\r\n") []).2 = [.reply [250]] := by decide
example : (handleLine exEnv exReady (ofAscii "MAIL FROM:<> SIZE=x\r\n") []).2 = [.reply [501]] := by decide

/-! ### the DATA phase -/

/-- whatever the data phase stores is a copy of a block within the limit (trace headers ++ that block) -/
theorem oversize_never_delivered (e : Env) (s : Sess) (block : Bytes) (acc : List Ev) :
    ∀ x ∈ storedOf (handleData e s block acc).2, x ∈ storedOf acc ∨
      ((block.length : Int) ≤ e.maxBytes ∧ x.source = traceHeaders e s x.mailbox ++ block) := by
  intro x hx
  obtain ⟨dels, c, h, _, hd, _⟩ := handleData_shape e s block
  rw [handleData_acc, h] at hx
  simp only [List.cons_append, storedOf_reply, storedOf_append, List.mem_append] at hx
  rcases hx with hx | hx
  · rw [mem_storedOf] at hx
    rcases hd _ hx with h | ⟨y, hy, hsrc, hsz⟩
    · simp at h
    · simp only [Ev.stored.injEq] at hy
      subst hy
      exact .inr ⟨hsz, hsrc⟩
  · exact .inl hx

/-- along any connection, for any send budget: every stored copy was made by a completed data phase whose block
    is within the limit, and is the trace headers followed by exactly that block -/
theorem oversize_never_stored (e : Env) (b : Option Nat) (w : Bytes) :
    ∀ x ∈ storedOf (run e b w).1, ∃ ph ∈ runPhases e b w, x ∈ storedOf ph.evs ∧
      (ph.block.length : Int) ≤ e.maxBytes ∧ x.source = traceHeaders e ph.sess x.mailbox ++ ph.block := by
  intro x hx
  rw [run_stored, List.mem_flatMap] at hx
  obtain ⟨ph, hph, hxph⟩ := hx
  refine ⟨ph, hph, hxph, ?_⟩
  obtain ⟨_, hevs, _⟩ := Ibx.Props.C03.phases_complete e b w ph hph
  rw [hevs, storedOf_reverse, List.mem_reverse] at hxph
  rcases oversize_never_delivered e ph.sess ph.block [] x hxph with h | h
  · simp at h
  · exact h

/-- a block over the limit is answered 552 and nothing is stored -/
theorem oversize_refused (e : Env) (s : Sess) (block : Bytes) (acc : List Ev)
    (h : (block.length : Int) > e.maxBytes) : (handleData e s block acc).2 = .reply [552] :: acc := by
  simp [handleData, h, say]

/-- a block within the limit, with parsable headers and a store that takes every destination, is accepted -/
theorem fits_is_accepted (e : Env) (s : Sess) (block : Bytes) (acc : List Ev) (h : HdrInfo)
    (hsz : (block.length : Int) ≤ e.maxBytes) (hh : e.hdr block = some h)
    (hstore : ∀ mb ∈ (finalInbound e s h).mailboxes, e.storeFails mb = false) :
    ∃ dels, (handleData e s block acc).2 = .reply [250] :: (dels ++ acc) ∧ ∀ ev ∈ dels, ∃ x, ev = .stored x := by
  unfold handleData
  rw [if_neg (by omega), deliver_hdr_some _ _ _ _ h hh, storeLoop_all_ok _ _ _ _ _ _ _ hstore]
  refine ⟨_, by simp [say]; rfl, ?_⟩
  intro ev hev
  simp only [List.mem_reverse, List.mem_map] at hev
  obtain ⟨mb, _, rfl⟩ := hev
  exact ⟨_, rfl⟩

/-- the ready state of a session that greeted as `rd` (I/O fields: the peer keeps reading), in the clear or inside TLS -/
def freshReady (rd : Bytes) (tls : Bool := false) : Sess :=
  { st := .ready, sender := none, rcpts := [], remoteDomain := rd, sendErr := false, budget := none, tls := tls }

/-- after a refusal in DATA (indeed after every data phase) the session is READY with an empty envelope, and
    every following command line is handled exactly as in a fresh READY session of the same client: same
    events, same resulting state (up to the I/O fields, which no decision depends on) -/
theorem usable_after_refusal (e : Env) (s : Sess) (block : Bytes) (acc : List Ev) (hs : s.st ≠ .greet)
    (line : Bytes) (acc' : List Ev) :
    (handleData e s block acc).1.st = .ready ∧ (handleData e s block acc).1.sender = none ∧
    (handleData e s block acc).1.rcpts = [] ∧
    handleLine e (freshReady s.remoteDomain s.tls) line acc' =
      (erase (handleLine e (handleData e s block acc).1 line acc').1,
        (handleLine e (handleData e s block acc).1 line acc').2) := by
  refine ⟨by simp [reset_st_of_ne s hs], by simp, by simp, ?_⟩
  rw [← handleLine_erase]
  congr 1
  rw [handleData_fst, erase_send]
  simp [erase, reset, freshReady, hs]

/-- limits 0 and negative: every non-empty (resp. every) block is refused, the session stays usable -/
example : (handleData { exEnv with maxBytes := 0 } exMail [104] []).2 = [.reply [552]] := by decide
example : (handleData { exEnv with maxBytes := -1 } exMail [] []).2 = [.reply [552]] := by decide
example : (handleData exEnv exMail (ofAscii "hi\n") []).2.head? = some (.reply [250]) := by decide
-- 22 bytes against the limit 20 (552), then a complete second transaction on the same connection
set_option maxRecDepth 8000 in
example : ((run exEnv none (ofAscii "HELO a\r\nMAIL FROM:<>\r\nRCPT TO:<u@x.org>\r\nDATA\r\n123456789012345678901\r\n.\r\nMAIL FROM:<>\r\nRCPT TO:<u@x.org>\r\nDATA\r\nhi\r\n.\r\n")).1.filter
    (fun ev => ev == .reply [552] || ev == .reply [250])).length = 7 := by decide

end Ibx.Props.C06
