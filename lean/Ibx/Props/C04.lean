import Ibx.Model.Addr
import Ibx.Lemmas.AddrCase
/-
  C04 — mailbox naming is canonical: mail to an address is fetchable by that address.
  Only property theorems, their non-vacuity examples and counter-witnesses live here.
  Everything is stated over ALL addresses `a` that `NewRecipient` (= RCPT TO) accepts, in each naming
  mode, for every `net.ParseIP` parameter `ip` (two explicit hypotheses on `ip` where needed).
  `read_side_same_function` (every read interface computes the name with the same function) is the
  T1 theorem of Ibx/Tie/Addr2.lean.
-/
namespace Ibx.Props.C04
open Ibx Ibx.Bytes Ibx.Model.Addr
open Ibx.Lemmas.AddrName Ibx.Lemmas.AddrLoop Ibx.Lemmas.AddrDom Ibx.Lemmas.AddrExtract Ibx.Lemmas.AddrCase

/-! ### a concrete `ParseIP` stand-in for the examples: non-empty strings of IP bytes -/

def ipEx (s : Bytes) : Bool := !s.isEmpty && s.all isIpByte

theorem isIpByte_lowerB (c : Nat) : isIpByte (lowerB c) = isIpByte c := by
  rw [Bool.eq_iff_iff]
  rcases lowerB_cases c with ⟨h, _, _⟩ | ⟨h, _⟩ <;> rw [h] <;>
    simp only [isIpByte, isDigitB, Bool.or_eq_true, Bool.and_eq_true, decide_eq_true_eq, beq_iff_eq] <;>
    omega

/-- the stand-in satisfies both hypotheses the theorems below put on `ip` -/
theorem ipEx_ok : IpCaseInsensitive ipEx ∧ IpAlphabet ipEx := by
  constructor
  · intro s
    have hall : (lower s).all isIpByte = s.all isIpByte := by
      induction s with
      | nil => rfl
      | cons c r ih => simp only [lower_cons, List.all_cons, isIpByte_lowerB, ih]
    rw [ipEx, ipEx, isEmpty_lower, hall]
  · intro s hs c hc
    simp only [ipEx, Bool.and_eq_true, List.all_eq_true] at hs
    exact hs.2 c hc

def aQuoted : Bytes := [34, 70, 105, 114, 115, 116, 46, 76, 97, 115, 116, 34, 43, 84, 97, 103, 64, 91, 73, 80, 118, 54, 58, 65, 66, 67, 68, 58, 58, 49, 93]  -- "First.Last"+Tag@[IPv6:ABCD::1]
def nQuotedFull : Bytes := [102, 105, 114, 115, 116, 46, 108, 97, 115, 116, 64, 91, 73, 80, 118, 54, 58, 97, 98, 99, 100, 58, 58, 49, 93]  -- first.last@[IPv6:abcd::1]
def aEsc : Bytes := [92, 74, 92, 111, 101, 43, 120, 64, 69, 120, 97, 109, 112, 108, 101, 46, 67, 79, 77]  -- \J\oe+x@Example.COM
def aRoute : Bytes := [64, 114, 101, 108, 97, 121, 46, 101, 120, 97, 109, 112, 108, 101, 58, 85, 115, 101, 114, 46, 78, 97, 109, 101, 43, 101, 120, 116, 64, 83, 117, 98, 46, 69, 120, 97, 109, 112, 108, 101, 46, 79, 82, 71]  -- @relay.example:User.Name+ext@Sub.Example.ORG
def aRouteLower : Bytes := [64, 114, 101, 108, 97, 121, 46, 101, 120, 97, 109, 112, 108, 101, 58, 117, 115, 101, 114, 46, 110, 97, 109, 101, 43, 101, 120, 116, 64, 115, 117, 98, 46, 101, 120, 97, 109, 112, 108, 101, 46, 111, 114, 103]  -- the same, lower case
def aPlusL : Bytes := [85, 115, 101, 114, 46, 78, 97, 109, 101]  -- User.Name
def aPlusE : Bytes := [84, 97, 103, 46, 49]  -- Tag.1
def aPlusD : Bytes := [69, 120, 97, 109, 112, 108, 101, 46, 67, 79, 77]  -- Example.COM

/-- mailbox computed for `a`, if `NewRecipient` accepts it -/
def mailboxOf (ip : Bytes → Bool) (m : Naming) (a : Bytes) : Option Bytes :=
  (newRecipient ip m a).map (·.mailbox)

/-! ### the name is computed by `ExtractMailbox`, is never empty, never longer than the address -/

/-- the mailbox fixed at RCPT time is what `ExtractMailbox` returns for the address: asking any read
    interface for the address itself reaches the mailbox the mail went to -/
theorem name_by_address (ip : Bytes → Bool) (m : Naming) (a : Bytes) (r : Recipient)
    (h : newRecipient ip m a = some r) : extractMailbox ip m a = some r.mailbox := by
  obtain ⟨_, _, _, _, _, _, he⟩ := newRecipient_inv h
  exact he

example : mailboxOf ipEx .fullN aQuoted = some nQuotedFull ∧
    extractMailbox ipEx .fullN aQuoted = some nQuotedFull := by decide

/-- no accepted address is filed under the empty name -/
theorem name_nonempty (ip : Bytes → Bool) (m : Naming) (a : Bytes) (r : Recipient)
    (h : newRecipient ip m a = some r) : r.mailbox ≠ [] := by
  obtain ⟨l, d, _, hd, _, _, _, hc⟩ := mailbox_shape h
  rcases hc with ⟨_, hm⟩ | ⟨_, n, _, hs, hm⟩
  · rw [hm]; exact cd_ne_nil hd
  · have hn := (nameShape_inv hs).1
    rw [hm]
    cases m <;> simp [nameOf, hn]
    exact cd_ne_nil hd

example : ∃ r, newRecipient ipEx .localN aEsc = some r ∧ r.mailbox = [106, 111, 101] := by decide

/-- the name is never longer than the address it came from (so at most 320 bytes) -/
theorem name_length (ip : Bytes → Bool) (m : Naming) (a : Bytes) (r : Recipient)
    (h : newRecipient ip m a = some r) : r.mailbox.length ≤ a.length ∧ a.length ≤ 320 := by
  obtain ⟨l, d, hp, hd, _, _, _, hc⟩ := mailbox_shape h
  obtain ⟨_, h320, hat⟩ := pea_len hp
  have := (hat hd).2
  refine ⟨?_, h320⟩
  rcases hc with ⟨_, hm⟩ | ⟨_, n, hn, _, hm⟩
  · rw [hm, cd_length]; omega
  · have := (parseMailboxName_out hn).2.2.2
    rw [hm]
    cases m <;> simp [nameOf, cd_length] <;> omega

example : ∃ r, newRecipient ipEx .domainN aRoute = some r ∧ r.mailbox.length ≤ aRoute.length := by decide

/-! ### the output alphabet -/

/-- in local naming the name consists of lower-case letters, digits and the name specials without
    '+' (no upper case, no quoting characters, no '@'), and has dot-atom shape: non-empty, no leading
    or trailing period, no two consecutive periods -/
theorem name_alphabet_local (ip : Bytes → Bool) (a : Bytes) (r : Recipient)
    (h : newRecipient ip .localN a = some r) :
    (∀ c ∈ r.mailbox, isNameB c = true) ∧ nameShapeOk r.mailbox = true := by
  obtain ⟨l, d, _, _, _, _, _, hc⟩ := mailbox_shape h
  rcases hc with ⟨hm, _⟩ | ⟨_, n, hn, hs, hm⟩
  · cases hm
  · rw [hm]; exact ⟨(parseMailboxName_out hn).2.2.1, hs⟩

example : ∃ r, newRecipient ipEx .localN aQuoted = some r ∧
    r.mailbox = [102, 105, 114, 115, 116, 46, 108, 97, 115, 116] := by decide

/-- `parseEmailAddress` is the identity on such strings: a name over the output alphabet, without a
    leading period or two consecutive periods, parses as itself with no domain -/
theorem parse_identity_on_names (n : Bytes) (hc : ∀ c ∈ n, isNameB c = true)
    (hs : nameShapeOk n = true) (hlen : n.length ≤ 320) :
    parseEmailAddress n = some (n, []) ∧ parseMailboxName n = some n :=
  ⟨clean_pea hc (nameShape_dd hs) (nameShape_inv hs).1 hlen,
   parseMailboxName_id n (nameShape_inv hs).1 hc⟩

example : parseEmailAddress [102, 46, 108, 45, 49] = some ([102, 46, 108, 45, 49], []) := by decide

/-! ### the name is a fixed point of the naming function -/

/-- local naming: asking for the mailbox by its own name reaches it (no hypothesis on `ip`) -/
theorem name_fixed_point_local (ip : Bytes → Bool) (a : Bytes) (r : Recipient)
    (h : newRecipient ip .localN a = some r) :
    extractMailbox ip .localN r.mailbox = some r.mailbox := by
  obtain ⟨hc, hs⟩ := name_alphabet_local ip a r h
  have hlen := name_length ip .localN a r h
  obtain ⟨hp, hn⟩ := parse_identity_on_names r.mailbox hc hs (by omega)
  exact extract_local_intro hp hn hs

example : ∃ r, newRecipient ipEx .localN aRoute = some r ∧
    extractMailbox ipEx .localN r.mailbox = some r.mailbox ∧ r.mailbox ≠ aRoute := by decide

/-- full naming: `name@canonical-domain` is its own name.  The loop stops at the '@' because the
    cleaned local part is at most 128 bytes and does not end in a period; the canonical domain is
    still valid (this is where `ParseIP` must ignore case, for IP literals) and is its own
    canonical form. -/
theorem name_fixed_point_full (ip : Bytes → Bool) (hip : IpCaseInsensitive ip) (a : Bytes)
    (r : Recipient) (h : newRecipient ip .fullN a = some r) :
    extractMailbox ip .fullN r.mailbox = some r.mailbox := by
  obtain ⟨l, d, hp, hd, hv, _, _, hc⟩ := mailbox_shape h
  rcases hc with ⟨hm, _⟩ | ⟨_, n, hn, hs, hm⟩
  · cases hm
  · obtain ⟨_, _, hnc, hnl⟩ := parseMailboxName_out hn
    obtain ⟨_, h320, hat⟩ := pea_len hp
    obtain ⟨h128, hsum⟩ := hat hd
    have hp' : parseEmailAddress (n ++ 64 :: canonicalDomain d) = some (n, canonicalDomain d) :=
      clean_pea_at hnc hs (by omega) (by rw [cd_length]; omega)
    have hv' : validateDomainPart ip (canonicalDomain d) = true := by rw [vdp_cd ip hip]; exact hv
    have := extract_full_intro (ip := ip) hp' (parseMailboxName_id n (nameShape_inv hs).1 hnc) hs
      (cd_ne_nil hd) hv'
    rw [cd_idem] at this
    rw [hm]; exact this

example : ∃ r, newRecipient ipEx .fullN aQuoted = some r ∧
    extractMailbox ipEx .fullN r.mailbox = some r.mailbox ∧ r.mailbox = nQuotedFull := by decide

/-- domain naming: the canonical domain is its own name.  An IP literal takes the bracket shortcut
    of `extractDomainMailbox`; a label domain, lower-cased, is plain text over the name alphabet
    (letters, digits, '-', '_', '.', no leading period, no ".."), so it parses as a local part with
    no domain, `parseMailboxName` leaves it alone and it validates again. -/
theorem name_fixed_point_domain (ip : Bytes → Bool) (hip : IpCaseInsensitive ip) (a : Bytes)
    (r : Recipient) (h : newRecipient ip .domainN a = some r) :
    extractMailbox ip .domainN r.mailbox = some r.mailbox := by
  obtain ⟨l, d, hp, hd, hv, _, _, hc⟩ := mailbox_shape h
  rcases hc with ⟨_, hm⟩ | ⟨hne, _⟩
  · have hv' : validateDomainPart ip (canonicalDomain d) = true := by rw [vdp_cd ip hip]; exact hv
    rw [hm]
    obtain ⟨_, h255, hbr⟩ := vdp_inv hv
    rcases hbr with ⟨hb, _⟩ | ⟨_, hdl⟩
    · have hb' : isBracketed (canonicalDomain d) = true := by rw [isBracketed_cd]; exact hb
      simp only [isBracketed, Bool.and_eq_true, beq_iff_eq] at hb'
      have := extract_domain_bracket (ip := ip) (cd_ne_nil hd) hb'.1.2 hb'.2 hv'
      rw [cd_idem] at this; exact this
    · obtain ⟨hbytes, hdd⟩ := label_props hdl
      have hcd : canonicalDomain d = lower d := by
        rcases cd_cases d with ⟨t, rfl, _⟩ | ⟨_, hc⟩
        · have := hbytes 91 (by simp [ipv6Open])
          simp [Lemmas.Addr.isDomByte, isDomAN, isAlphaB, isLowerB, isUpperB, isDigitB] at this
        · exact hc
      have hname : ∀ c ∈ lower d, isNameB c = true := by
        intro c hc
        simp only [lower, List.mem_map] at hc
        obtain ⟨c0, hc0, rfl⟩ := hc
        exact isDomByte_name (hbytes c0 hc0)
      have hdd' : hasDotDot (46 :: lower d) = false := by
        have := hasDotDot_lower (46 :: d)
        rw [lower_cons] at this
        rw [show lowerB 46 = 46 from rfl] at this
        rw [this]; exact hdd
      have hne : lower d ≠ [] := by rw [← hcd]; exact cd_ne_nil hd
      have hp' := clean_pea hname hdd' hne (by rw [lower_length]; omega)
      have hn' := parseMailboxName_id (lower d) hne hname
      rw [hcd] at hv' ⊢
      have := extract_domain_bare (ip := ip) hp' hn' hv'
      rw [← hcd, cd_idem] at this
      rw [← hcd]; exact this
  · exact absurd rfl hne

example : ∃ r, newRecipient ipEx .domainN aQuoted = some r ∧
    extractMailbox ipEx .domainN r.mailbox = some r.mailbox ∧
    r.mailbox = [91, 73, 80, 118, 54, 58, 97, 98, 99, 100, 58, 58, 49, 93] := by decide

example : ∃ r, newRecipient ipEx .domainN aRoute = some r ∧
    extractMailbox ipEx .domainN r.mailbox = some r.mailbox ∧
    r.mailbox = [115, 117, 98, 46, 101, 120, 97, 109, 112, 108, 101, 46, 111, 114, 103] := by decide

/-- in every naming mode the mailbox name is a fixed point of `ExtractMailbox` -/
theorem name_fixed_point (ip : Bytes → Bool) (hip : IpCaseInsensitive ip) (m : Naming) (a : Bytes)
    (r : Recipient) (h : newRecipient ip m a = some r) :
    extractMailbox ip m r.mailbox = some r.mailbox := by
  cases m with
  | localN => exact name_fixed_point_local ip a r h
  | fullN => exact name_fixed_point_full ip hip a r h
  | domainN => exact name_fixed_point_domain ip hip a r h

example : ∃ r, newRecipient ipEx .fullN aEsc = some r ∧
    extractMailbox ipEx .fullN r.mailbox = some r.mailbox := by decide

/-- the hypothesis on `ip` is needed: with a case-sensitive `ParseIP` stand-in the lower-cased IP
    literal no longer validates, and the name is not fetchable by itself -/
theorem name_fixed_point_needs_ip_case :
    let ip : Bytes → Bool := fun s => s == [65, 66]
    ∃ r, newRecipient ip .fullN [117, 64, 91, 65, 66, 93] = some r ∧
      r.mailbox = [117, 64, 91, 97, 98, 93] ∧ extractMailbox ip .fullN r.mailbox = none := by
  decide

/-! ### letter case -/

/-- local naming: two accepted addresses that differ only in letter case name the same mailbox
    (no hypothesis on `ip`) -/
theorem name_case_insensitive_local (ip : Bytes → Bool) (a a' : Bytes) (r r' : Recipient)
    (hl : lower a = lower a') (h : newRecipient ip .localN a = some r)
    (h' : newRecipient ip .localN a' = some r') : r.mailbox = r'.mailbox := by
  obtain ⟨l, d, hp, _, _, _, _, hc⟩ := mailbox_shape h
  obtain ⟨l', d', hp', _, _, _, _, hc'⟩ := mailbox_shape h'
  have hcase := (pea_case hl hp hp').1
  rcases hc with ⟨hm, _⟩ | ⟨_, n, hn, _, hm⟩
  · cases hm
  · rcases hc' with ⟨hm', _⟩ | ⟨_, n', hn', _, hm'⟩
    · cases hm'
    · rw [parseMailboxName_case hcase, hn'] at hn
      injection hn with hn
      simp only [hm, hm', hn, nameOf]

/-- in every naming mode two accepted addresses that differ only in letter case name the same
    mailbox.  The `IPv6:` tag of an IP literal is matched case-sensitively by `ValidateDomainPart` and
    kept by `canonicalDomain`; two spellings of the tag cannot both be accepted because the other
    spelling hands `ParseIP` a string containing 'p' — that is the hypothesis `IpAlphabet`. -/
theorem name_case_insensitive (ip : Bytes → Bool) (halpha : IpAlphabet ip) (m : Naming)
    (a a' : Bytes) (r r' : Recipient) (hl : lower a = lower a')
    (h : newRecipient ip m a = some r) (h' : newRecipient ip m a' = some r') :
    r.mailbox = r'.mailbox := by
  obtain ⟨l, d, hp, _, hv, _, _, hc⟩ := mailbox_shape h
  obtain ⟨l', d', hp', _, hv', _, _, hc'⟩ := mailbox_shape h'
  obtain ⟨hcl, hcd⟩ := pea_case hl hp hp'
  have hdom := cd_case_eq halpha hcd hv hv'
  rcases hc with ⟨hmode, hm⟩ | ⟨hmode, n, hn, _, hm⟩
  · rcases hc' with ⟨_, hm'⟩ | ⟨hmode', _⟩
    · rw [hm, hm', hdom]
    · exact absurd hmode hmode'
  · rcases hc' with ⟨hmode', _⟩ | ⟨_, n', hn', _, hm'⟩
    · exact absurd hmode' hmode
    · rw [parseMailboxName_case hcl, hn'] at hn
      injection hn with hn
      rw [hm, hm', hn]
      cases m <;> simp [nameOf, hdom]

example : lower aRoute = lower aRouteLower ∧
    mailboxOf ipEx .fullN aRoute = mailboxOf ipEx .fullN aRouteLower ∧
    (mailboxOf ipEx .fullN aRoute).isSome = true := by decide

/-- read side: a REST / web / WebSocket lookup goes through `ExtractMailbox` alone (no RCPT-time
    validation).  For any string `x` that differs from an accepted address `a` only in letter case,
    whatever name `ExtractMailbox` returns for `x` is the mailbox the mail to `a` went to. -/
theorem lookup_case_insensitive (ip : Bytes → Bool) (halpha : IpAlphabet ip) (m : Naming)
    (a x mb : Bytes) (r : Recipient) (hl : lower x = lower a)
    (h : newRecipient ip m a = some r) (hx : extractMailbox ip m x = some mb) : mb = r.mailbox := by
  obtain ⟨l, d, hp, hd, hv, _, _, hc⟩ := mailbox_shape h
  have h1 := parseEmailAddress_lower a
  have h2 := parseEmailAddress_lower x
  rw [hp] at h1
  rw [hl, h1] at h2
  cases hpx : parseEmailAddress x with
  | none => rw [hpx] at h2; simp at h2
  | some ld =>
    obtain ⟨l', d'⟩ := ld
    rw [hpx] at h2
    simp only [Option.map_some, lower2, Option.some.injEq, Prod.mk.injEq] at h2
    obtain ⟨hcl, hcd⟩ := h2
    have hd' : d' ≠ [] := by
      intro h0; subst h0
      have := congrArg List.length hcd
      simp at this
      exact hd this
    rcases extract_shape hpx hd' hx with ⟨hmode, hmb, hv'⟩ | ⟨hmode, n', hn', _, hmb, hfull⟩
    · rcases hc with ⟨_, hm⟩ | ⟨hmode', _⟩
      · rw [hmb, hm, cd_case_eq halpha hcd hv hv']
      · exact absurd hmode hmode'
    · rcases hc with ⟨hmode', _⟩ | ⟨_, n, hn, _, hm⟩
      · exact absurd hmode' hmode
      · rw [parseMailboxName_case hcl, hn'] at hn
        injection hn with hn
        rw [hmb, hm, hn]
        cases m with
        | localN => rfl
        | fullN => simp only [nameOf]; rw [cd_case_eq halpha hcd hv (hfull rfl)]
        | domainN => exact absurd rfl hmode

example : lower aRouteLower = lower aRoute ∧ (newRecipient ipEx .fullN aRoute).isSome = true ∧
    extractMailbox ipEx .fullN aRouteLower = mailboxOf ipEx .fullN aRoute := by decide

/-- an accepted IP literal carrying the tag is spelled `[IPv6:` exactly: `[ipv6:…]` and `[IPv6:…]`
    are never both accepted -/
theorem ipv6_tag_spelling (ip : Bytes → Bool) (halpha : IpAlphabet ip) (t d' : Bytes)
    (hl : lower d' = lower (ipv6Open ++ t)) (hv : validateDomainPart ip d' = true) :
    ∃ t', d' = ipv6Open ++ t' :=
  have ⟨t', ht'⟩ := List.isPrefixOf_iff_prefix.mp (tag_forced halpha hl hv)
  ⟨t', ht'.symm⟩

example : validateDomainPart ipEx [91, 73, 80, 118, 54, 58, 58, 58, 49, 93] = true ∧
    validateDomainPart ipEx [91, 105, 112, 118, 54, 58, 58, 58, 49, 93] = false := by decide

/-- the hypothesis `IpAlphabet` is needed: a `ParseIP` stand-in that accepted "ipv6:1" would let
    both spellings through, and they would name different mailboxes in domain naming -/
theorem name_case_insensitive_needs_ip_alphabet :
    let ip : Bytes → Bool := fun _ => true
    let a : Bytes := [117, 64, 91, 73, 80, 118, 54, 58, 49, 93]      -- u@[IPv6:1]
    let a' : Bytes := [117, 64, 91, 105, 112, 118, 54, 58, 49, 93]   -- u@[ipv6:1]
    lower a = lower a' ∧ (mailboxOf ip .domainN a).isSome = true ∧
      (mailboxOf ip .domainN a').isSome = true ∧ mailboxOf ip .domainN a ≠ mailboxOf ip .domainN a' := by
  decide

/-! ### '+extension' -/

/-- at the level of `parseMailboxName` (which cuts at the first '+'): a local part and the same local
    part with "+anything" appended clean to the same name -/
theorem name_plus_insensitive_parse (l e n n' : Bytes)
    (h : parseMailboxName (l ++ 43 :: e) = some n) (h' : parseMailboxName l = some n') : n = n' :=
  parseMailboxName_plus h h'

example : parseMailboxName (aPlusL ++ 43 :: aPlusE) = parseMailboxName aPlusL ∧
    (parseMailboxName aPlusL).isSome = true := by decide

/-- lifted to addresses: for an unquoted local part `l` and an unquoted extension `e` (letters,
    digits, specials, periods), `l+e@d` and `l@d`, both accepted, name the same mailbox in every
    naming mode -/
theorem name_plus_insensitive (ip : Bytes → Bool) (m : Naming) (l e d : Bytes) (r r' : Recipient)
    (hlp : ∀ c ∈ l, isPlainB c = true) (hne : l ≠ []) (hep : ∀ c ∈ e, isPlainB c = true)
    (h : newRecipient ip m (l ++ 43 :: e ++ 64 :: d) = some r)
    (h' : newRecipient ip m (l ++ 64 :: d) = some r') : r.mailbox = r'.mailbox := by
  obtain ⟨L, D, hp, _, _, _, _, hc⟩ := mailbox_shape h
  obtain ⟨L', D', hp', _, _, _, _, hc'⟩ := mailbox_shape h'
  have hplain : ∀ c ∈ l ++ 43 :: e, isPlainB c = true := by
    intro c hc
    simp only [List.mem_append, List.mem_cons] at hc
    rcases hc with hc | rfl | hc
    · exact hlp c hc
    · decide
    · exact hep c hc
  have hassoc : l ++ 43 :: e ++ 64 :: d = (l ++ 43 :: e) ++ 64 :: d := by simp
  rw [hassoc] at hp
  obtain ⟨rfl, rfl⟩ := pea_plain_at hplain (by simp) hp
  obtain ⟨rfl, rfl⟩ := pea_plain_at hlp hne hp'
  rcases hc with ⟨hmode, hm⟩ | ⟨hmode, n, hn, _, hm⟩
  · rcases hc' with ⟨_, hm'⟩ | ⟨hmode', _⟩
    · rw [hm, hm']
    · exact absurd hmode hmode'
  · rcases hc' with ⟨hmode', _⟩ | ⟨_, n', hn', _, hm'⟩
    · exact absurd hmode' hmode
    · rw [hm, hm', parseMailboxName_plus hn hn']

example : mailboxOf ipEx .fullN (aPlusL ++ 43 :: aPlusE ++ 64 :: aPlusD) =
      mailboxOf ipEx .fullN (aPlusL ++ 64 :: aPlusD) ∧
    (mailboxOf ipEx .fullN (aPlusL ++ 64 :: aPlusD)).isSome = true ∧
    (∀ c ∈ aPlusL, isPlainB c = true) ∧ (∀ c ∈ aPlusE, isPlainB c = true) := by decide

/-- the extension may be anything `parseEmailAddress` lets through (escapes included), as long as
    both addresses end up with the same domain part: `l+<anything>` and `l@d`, both accepted, name
    the same mailbox -/
theorem name_plus_insensitive_any_ext (ip : Bytes → Bool) (m : Naming) (l t d : Bytes)
    (r r' : Recipient) (hlp : ∀ c ∈ l, isPlainB c = true) (hne : l ≠ [])
    (h : newRecipient ip m (l ++ 43 :: t) = some r) (h' : newRecipient ip m (l ++ 64 :: d) = some r')
    (hdom : r.domain = r'.domain) : r.mailbox = r'.mailbox := by
  obtain ⟨L, D, hp, _, _, _, hD, hc⟩ := mailbox_shape h
  obtain ⟨L', D', hp', _, _, _, hD', hc'⟩ := mailbox_shape h'
  have hDD : D = D' := by rw [← hD, ← hD', hdom]
  subst hDD
  obtain ⟨E, rfl⟩ := pea_plain_plus hlp hne hp
  obtain ⟨rfl, _⟩ := pea_plain_at hlp hne hp'
  rcases hc with ⟨hmode, hm⟩ | ⟨hmode, n, hn, _, hm⟩
  · rcases hc' with ⟨_, hm'⟩ | ⟨hmode', _⟩
    · rw [hm, hm']
    · exact absurd hmode hmode'
  · rcases hc' with ⟨hmode', _⟩ | ⟨_, n', hn', _, hm'⟩
    · exact absurd hmode' hmode
    · rw [hm, hm', parseMailboxName_plus hn hn']

/-- `User.Name+a\.b@Example.COM` (an escape inside the extension) against `User.Name@Example.COM` -/
example : mailboxOf ipEx .fullN (aPlusL ++ 43 :: ([97, 92, 46, 98] ++ 64 :: aPlusD)) =
      mailboxOf ipEx .fullN (aPlusL ++ 64 :: aPlusD) ∧
    (mailboxOf ipEx .fullN (aPlusL ++ 64 :: aPlusD)).isSome = true := by decide

/-! ### all of it together -/

/-- mail to an address is fetchable by that address: for every accepted address `a` (mailbox `r.mailbox`
    fixed at RCPT time), the read-side function returns that same mailbox when asked for `a`, for the
    mailbox name itself, and for any other accepted spelling of `a` that differs only in letter case -/
theorem canonical_lookup (ip : Bytes → Bool) (hip : IpCaseInsensitive ip) (halpha : IpAlphabet ip)
    (m : Naming) (a : Bytes) (r : Recipient) (h : newRecipient ip m a = some r) :
    r.mailbox ≠ [] ∧ extractMailbox ip m a = some r.mailbox ∧
    extractMailbox ip m r.mailbox = some r.mailbox ∧
    (∀ a' r', lower a' = lower a → newRecipient ip m a' = some r' →
      extractMailbox ip m a' = some r.mailbox) := by
  refine ⟨name_nonempty ip m a r h, name_by_address ip m a r h, name_fixed_point ip hip m a r h, ?_⟩
  intro a' r' hl h'
  rw [name_by_address ip m a' r' h', name_case_insensitive ip halpha m a' a r' r hl h' h]

example : (newRecipient ipEx .domainN aQuoted).isSome = true ∧ IpCaseInsensitive ipEx ∧ IpAlphabet ipEx :=
  ⟨by decide, ipEx_ok.1, ipEx_ok.2⟩

end Ibx.Props.C04
