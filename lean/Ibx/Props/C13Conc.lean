import Ibx.Model.Pop3Conc
import Ibx.Lemmas.Pop3Conc
/-
  C13, concurrent form — "a POP3 session's deletions are committed on QUIT and only then", for ANY number of sessions
  (the real session machine `Model.Pop3.step`) running against one shared `Spec.Store`, each command one atomic step,
  interleaved in every possible way with each other, with the store calls of any other clients (deliveries and what they
  evict, REST deletes, purges, retention) and with the shutdown events of C19.  The composed model is
  `Model.Pop3Conc`; the theorems quantify over every world (store content, number of clients, what each will still send),
  every schedule and both variants of the deletion loop unless a hypothesis says otherwise.
  Only property theorems, their non-vacuity examples and counter-witnesses live here.
-/
namespace Ibx.Props.C13Conc
open Ibx Ibx.Spec.Store Ibx.Lemmas.SpecStore
open Ibx.Model Ibx.Model.Pop3Conc Ibx.Model.Shutdown
open Ibx.Lemmas.Pop3Conc
open Ibx.Lemmas.Pop3 (markedIds)

/-! ### data for the non-vacuity examples: mailbox "box" with three messages, two sessions with overlapping marks -/

def exIds : Sys.Ids := { str := fun n => [48 + n], dec := fun b => match b with | [d] => if 48 ≤ d then some (d - 48) else none | _ => none }

theorem exIds_roundtrip : ∀ n, exIds.dec (exIds.str n) = some n := by
  intro n; simp [exIds]

def box : Bytes := [98, 111, 120]
def exMsg (i : Nat) : Msg := { box := box, id := i, hdr := default, seen := false, source := [65, 10] }
def exStore : Store := { msgs := [exMsg 1, exMsg 2, exMsg 3], next := fun b => if b == box then 3 else 0 }

def cUSER : Bytes := [85, 83, 69, 82, 32, 98, 111, 120, 13, 10]   -- "USER box\r\n"
def cPASS : Bytes := [80, 65, 83, 83, 32, 120, 13, 10]            -- "PASS x\r\n"
def cDELE (n : Nat) : Bytes := [68, 69, 76, 69, 32, 48 + n, 13, 10]   -- "DELE n\r\n"
def cQUIT : Bytes := [113, 117, 105, 116, 13, 10]                 -- "quit\r\n"
def cSTAT : Bytes := [83, 84, 65, 84, 13, 10]                     -- "STAT\r\n"
def ln (l : Bytes) : In := .line l true

def exEnv : Env := { store := { cap := 0, limit := 0 }, ids := exIds }
def exEnvStop : Env := { exEnv with loop := .stopsAtFirstFailure }

/-- session 0 marks message 1; session 1 marks messages 1 AND 3; a third client deletes nothing yet -/
def exWorld : World :=
  { cancelled := false, closed := false, store := exStore,
    threads := [newClient {} false [ln cUSER, ln cPASS, ln (cDELE 1), ln cQUIT],
                newClient {} false [ln cUSER, ln cPASS, ln (cDELE 1), ln (cDELE 3), ln cQUIT]] }

/-- both log in and mark; shutdown is requested; session 0 quits first, then session 1 (whose first removal fails) -/
def exSchedule : List Sess.Ev :=
  [.sess 0, .sess 1, .sess 0, .sess 1, .sess 0, .sess 1, .cancel, .sess 1, .closeL, .sess 0, .sess 1]

def liveIds (w : World) : List Nat := w.store.msgs.map (·.id)

theorem exWorld_good (e : Env) : Good e exWorld :=
  good_fresh e exWorld ⟨by decide, by decide⟩ (by
    intro t ht
    simp only [exWorld, List.mem_cons, List.not_mem_nil, or_false] at ht
    rcases ht with rfl | rfl <;> exact ⟨{}, false, rfl⟩)

/-! ### the store changes only by a QUIT in TRANSACTION or by another client's call -/

/-- **one event, any world.**  Whatever a client does next, the shared store afterwards is (1) the store before, or
    (2) the result of the one store call another kind of client made, or (3) — when the client is a POP3 session in
    TRANSACTION with a running command loop and its line is a QUIT — the result of `processDeletes` over the ids that
    session has marked AT THAT MOMENT.  No other POP3 command, no way of ending a session, no `cancel` and no
    `listener.Close` touches it. -/
theorem concurrent_store_untouched_unless_quit (e : Env) (w : World) (hs : SessInv w) (ev : Sess.Ev) :
    (Sess.exec1 (prog e) w ev).store = w.store ∨
    (∃ i op, ev = .sess i ∧ ForeignAt w i op ∧ (Sess.exec1 (prog e) w ev).store = (step e.store w.store op).1) ∨
    (∃ i c, ev = .sess i ∧ QuitsAt w i c ∧
      (Sess.exec1 (prog e) w ev).store = (processDeletes e c.st.user (markedIds c.st) w.store).1) := by
  rcases exec1_store e w ev with h | ⟨i, t, x, rest, rfl, hti, hin, h⟩
  · exact Or.inl h
  · cases x with
    | call op => exact Or.inr (Or.inl ⟨i, op, rfl, ⟨t, rest, hti, hin⟩, by rw [h, clientStep_call]⟩)
    | line l ok =>
      rcases clientStep_line_effect e t.st w.store l ok (hs t (List.mem_of_getElem? hti)) with ⟨h1, _⟩ | ⟨ho, ht, hq, r, heq⟩
      · exact Or.inl (by rw [h, h1])
      · exact Or.inr (Or.inr ⟨i, t.st, rfl, ⟨t, l, ok, rest, hti, hin, rfl, ho, ht, hq⟩, by rw [h, heq]⟩)

/-- non-vacuity of the third case: after ten events of the example schedule session 1 is about to process its QUIT in
    TRANSACTION with messages 1 and 3 marked -/
example : ∃ t, (run exEnv exWorld (exSchedule.take 10)).threads[1]? = some t ∧
    QuitsAt (run exEnv exWorld (exSchedule.take 10)) 1 t.st :=
  quitsAtB_sound _ _ (by decide +kernel)

/-- **no `RemoveMessage` without QUIT, every schedule.**  Take any world whose sessions satisfy the session invariant
    (fresh connections do), any schedule `evs` (session steps of any clients, other clients' store calls, `cancel` and
    `listener.Close` anywhere) and any client `j`.  Every `RemoveMessage(user, id)` call found among `j`'s outputs at the
    end that was not already there at the start was issued by a step of `j` itself, taken when `j` was a POP3 session in
    TRANSACTION whose command loop was running and whose line was a QUIT — and `id` was marked deleted in `j`'s session
    at that moment.  (C13End's `pop3_no_commit_without_quit` in the concurrent setting: no DELE, no RSET, no dropped
    connection, no other session's QUIT and no shutdown event makes a session issue a removal.) -/
theorem concurrent_remove_calls_only_at_quit (e : Env) (w : World) (hs : SessInv w) (evs : List Sess.Ev) (j : Nat)
    (t' : Thread) (h : (run e w evs).threads[j]? = some t') :
    ∃ t, w.threads[j]? = some t ∧ ∀ id, id ∈ calls t'.replies →
      id ∈ calls t.replies ∨
      ∃ pre post c, evs = pre ++ .sess j :: post ∧ QuitsAt (run e w pre) j c ∧ id ∈ markedIds c.st := by
  induction evs generalizing w with
  | nil => exact ⟨t', h, fun id hid => Or.inl hid⟩
  | cons ev evs ih =>
    rw [run_cons] at h
    obtain ⟨t1, ht1, hcalls⟩ := ih _ (sessInv_exec1 e w hs ev) h
    obtain ⟨t, htj, hcase⟩ := exec1_thread e w ev j t1 ht1
    refine ⟨t, htj, ?_⟩
    intro id hid
    rcases hcalls id hid with h1 | ⟨pre, post, c, hsplit, hq, hm⟩
    · rcases hcase with rfl | ⟨rfl, x, rest, hin, rfl⟩
      · exact Or.inl h1
      · simp only [calls_append, List.mem_append] at h1
        rcases h1 with h1 | h1
        · exact Or.inl h1
        · right
          cases x with
          | call op => rw [clientStep_call] at h1; simp [calls] at h1
          | line l ok =>
            rcases clientStep_line_effect e t.st w.store l ok (hs t (List.mem_of_getElem? htj)) with ⟨_, h2⟩ | ⟨ho, ht, hql, r, heq⟩
            · rw [h2] at h1; simp at h1
            · rw [heq] at h1
              simp only [calls] at h1
              refine ⟨[], evs, t.st, rfl, ⟨t, l, ok, rest, htj, hin, rfl, ho, ht, hql⟩, ?_⟩
              exact (calls_prefix e _ _ _).subset h1
    · exact Or.inr ⟨ev :: pre, post, c, by rw [hsplit]; rfl, by rw [run_cons]; exact hq, hm⟩

/-- non-vacuity: in the example schedule session 1 ends with the calls [1 (failed), 3 (succeeded)], both marked when it quit -/
example : ((run exEnv exWorld exSchedule).threads[1]?.map (fun t => calls t.replies)) = some [[49], [51]] := by
  decide +kernel

/-- **… and only then.**  A session that is not in state QUIT at the end of a schedule — it is still talking, its
    client vanished, its connection timed out, a reply could not be written, shutdown was requested meanwhile — has not
    issued a single `RemoveMessage` during that schedule, however many messages it has marked and whatever the other
    sessions did. -/
theorem concurrent_no_quit_no_removal (e : Env) (w : World) (hs : SessInv w) (evs : List Sess.Ev) (j : Nat) (t' : Thread)
    (h : (run e w evs).threads[j]? = some t') (hnq : t'.st.st.phase ≠ .quit) :
    ∃ t, w.threads[j]? = some t ∧ ∀ id, id ∈ calls t'.replies → id ∈ calls t.replies := by
  obtain ⟨t, htj, hc⟩ := concurrent_remove_calls_only_at_quit e w hs evs j t' h
  refine ⟨t, htj, fun id hid => ?_⟩
  rcases hc id hid with h1 | ⟨pre, post, c, hsplit, hq, _⟩
  · exact h1
  · exfalso
    rw [hsplit, run_append, run_cons] at h
    exact hnq (quit_phase_run e _ post j (quitsAt_then_quit e _ (sessInv_run e w hs pre) j c hq) t' h)

/-- non-vacuity: after eight events of the example both sessions have marked messages, neither has quit, nothing was called
    and the mailbox is intact -/
example : ((run exEnv exWorld (exSchedule.take 8)).threads.map (fun t => (t.st.st.phase, calls t.replies))) =
      [(.trans, []), (.trans, [])] ∧ liveIds (run exEnv exWorld (exSchedule.take 8)) = [1, 2, 3] := by
  decide +kernel

/-! ### QUIT commits exactly the marked messages that are still there -/

/-- **the QUIT step, any world, the source's loop (`goesOn`).**  When a session in TRANSACTION processes QUIT it calls
    `RemoveMessage(user, id)` for EVERY id it has marked, in snapshot order, whether or not earlier calls failed; the
    store afterwards is the store before without the messages of its mailbox that those ids name (so a marked message
    that another session or another client had already removed is simply not there, and the removals after it still
    happen); the mailbox counters are untouched; the session is in state QUIT. -/
theorem concurrent_quit_commits_exactly (e : Env) (hl : e.loop = .goesOn) (w : World) (hs : SessInv w) (i : Nat)
    (c : Client) (hq : QuitsAt w i c) :
    let w' := Sess.exec1 (prog e) w (.sess i)
    w'.store.msgs = w.store.msgs.filter (fun m => !(markedIds c.st).any (fun id => names e c.st.user id m)) ∧
    w'.store.next = w.store.next ∧
    ∃ t', w'.threads[i]? = some t' ∧ t'.st.st = { c.st with phase := .quit } ∧
      ∃ t, w.threads[i]? = some t ∧ calls t'.replies = calls t.replies ++ markedIds c.st := by
  obtain ⟨t, l, ok, rest, hti, hin, rfl, ho, ht, hql⟩ := hq
  obtain ⟨h1, h2⟩ := exec1_sess_step e w i t (.line l ok) rest hti hin
  have heq := clientStep_quit e t.st w.store l ok (hs t (List.mem_of_getElem? hti)) ho ht hql
  obtain ⟨hm, hn⟩ := processDeletes_msgs e t.st.st.user (markedIds t.st.st) w.store
  have hc := calls_goesOn e hl t.st.st.user (markedIds t.st.st) w.store
  have hlen : i < w.threads.length := (List.getElem?_eq_some_iff.1 hti).1
  simp only
  rw [h1, h2, heq]
  refine ⟨by rw [hm, hc], hn, _, List.getElem?_set_self hlen, rfl, t, hti, ?_⟩
  simp [calls_append, calls, hc]

/-- non-vacuity: session 1's QUIT in the example — message 1 is already gone, message 3 goes, message 2 stays -/
example : liveIds (run exEnv exWorld (exSchedule.take 10)) = [2, 3] ∧ liveIds (run exEnv exWorld exSchedule) = [2] := by
  decide +kernel

/-- **a QUIT removes nothing its session has not listed**, whatever the variant of the loop: a message whose id no
    entry of the quitting session's snapshot names (delivered after that session logged in; in another mailbox) is still
    there after the step — the very same message, not only its key. -/
theorem concurrent_quit_keeps_unlisted (e : Env) (w : World) (hs : SessInv w) (i : Nat) (c : Client) (hq : QuitsAt w i c)
    (m : Msg) (hm : m ∈ w.store.msgs) (hnew : m.box ≠ c.st.user ∨ ∀ x ∈ c.st.msgs, e.ids.dec x.id ≠ some m.id) :
    m ∈ (Sess.exec1 (prog e) w (.sess i)).store.msgs := by
  obtain ⟨t, l, ok, rest, hti, hin, rfl, ho, ht, hql⟩ := hq
  obtain ⟨h1, _⟩ := exec1_sess_step e w i t (.line l ok) rest hti hin
  have heq := clientStep_quit e t.st w.store l ok (hs t (List.mem_of_getElem? hti)) ho ht hql
  rw [h1, heq]
  simp only
  rw [(processDeletes_msgs e _ _ _).1, List.mem_filter]
  refine ⟨hm, ?_⟩
  simp only [Bool.not_eq_true', List.any_eq_false, names, Bool.and_eq_true, beq_iff_eq, not_and]
  intro id hid hb
  have hid' := (calls_prefix e t.st.st.user (markedIds t.st.st) w.store).subset hid
  obtain ⟨x, hx, rfl⟩ := marked_in_snapshot _ _ hid'
  rcases hnew with h | h
  · exact absurd hb h
  · exact h x hx

example : exMsg 2 ∈ (run exEnv exWorld exSchedule).store.msgs := by decide +kernel

end Ibx.Props.C13Conc
