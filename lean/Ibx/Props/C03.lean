import Ibx.Lemmas.SmtpEx
/-
  C03 — SMTP transactions are well-sequenced, isolated from each other and atomic.
  Theorems over the session model `Ibx.Model.Smtp` for ALL environments (any regex results, header parser,
  hooks, policy, limits), all input byte strings, all send budgets.
  Events are accumulated newest-first: `(handleLine e s l acc).2 = ev :: acc` means "appended ev".
-/
namespace Ibx.Props.C03
open Ibx Ibx.Bytes Ibx.Model Ibx.Model.Smtp
open Ibx.Lemmas.Smtp Ibx.Lemmas.SmtpLoop Ibx.Lemmas.SmtpIO Ibx.Lemmas.SmtpEx

/-! ### the reachable-state invariant -/

/-- outside a transaction the envelope is empty; before the greeting there is no sender (after an accepted STARTTLS
    the session is in GREET again and `from` is whatever READY had left in it — a MAIL refused by the origin policy
    records its sender without opening a transaction; the next accepted MAIL overwrites it); an open transaction
    has a sender; the data phase has at least one recipient -/
def Inv (s : Sess) : Prop :=
  ((s.st = .greet ∨ s.st = .ready ∨ s.st = .login ∨ s.st = .password) → s.rcpts = []) ∧
  (s.st = .greet → s.tls = false → s.sender = none) ∧
  ((s.st = .mail ∨ s.st = .data) → s.sender ≠ none) ∧
  (s.st = .data → s.rcpts ≠ [])

theorem inv_init (e : Env) (b : Option Nat) : Inv (init b) ∧ Inv (start e b) := by
  simp [Inv, init, initFor, start]

private theorem inv_step (e : Env) (s : Sess) (line : Bytes) (s' : Sess) (evs : List Ev) (hi : Inv s)
    (h : Step e s line s' evs) : Inv s' := by
  obtain ⟨i1, i2, i3, i4⟩ := hi
  cases h
  case login h => simp_all [Inv]
  case password h => simp_all [Inv]
  case plain => simpa [Inv] using ⟨i1, i2, i3, i4⟩
  case noop => simpa [Inv] using ⟨i1, i2, i3, i4⟩
  case hook => simpa [Inv] using ⟨i1, i2, i3, i4⟩
  case rset =>
    by_cases hg : s.st = .greet
    · simp [Inv, reset_st_greet s hg]
    · simp [Inv, reset_st_of_ne s hg]
  case quit => simp [Inv]
  case helo hs _ => simp_all [Inv]
  case ehlo hs _ => simp_all [Inv]
  case starttls hs _ _ => simp_all [Inv]
  case authLogin hs => simp_all [Inv]
  case mailOrigin hs _ => simp_all [Inv]
  case mailOk hs _ => simp_all [Inv]
  case rcptOk hs _ _ => simp_all [Inv]
  case data hs hr => simp_all [Inv]
  case stuck => exact ⟨i1, i2, i3, i4⟩

/-- every command line preserves the invariant -/
theorem inv_handleLine (e : Env) (s : Sess) (line : Bytes) (acc : List Ev) (hi : Inv s) :
    Inv (handleLine e s line acc).1 := by
  rw [handleLine_acc]
  exact inv_step e s line _ _ hi (handleLine_step e s line)

/-- every data phase (250, 451 or 552) re-establishes it, whatever the state before -/
theorem inv_handleData (e : Env) (s : Sess) (block : Bytes) (acc : List Ev) :
    Inv (handleData e s block acc).1 := by
  rw [handleData_fst]
  by_cases hg : s.st = .greet
  · simp [Inv, reset_st_greet s hg]
  · simp [Inv, reset_st_of_ne s hg]

/-- the invariant holds in every state the loop passes through -/
theorem inv_reach (e : Env) (s : Sess) (g : List Addr.Recipient) (s' : Sess) (g' : List Addr.Recipient)
    (hi : Inv s) (h : Reach e s g s' g') : Inv s' := by
  induction h with
  | refl => exact hi
  | line s1 g1 l _ _ _ _ ih => exact inv_handleLine e s1 l [] ih
  | data s1 g1 block _ _ _ _ => exact inv_handleData e _ block []

/-- … in particular in the state a whole connection ends in, and at the start of each of its data phases -/
theorem inv_loop (e : Env) (b : Option Nat) (w : Bytes) :
    Inv (run e b w).2.1 ∧ ∀ ph ∈ runPhases e b w, Inv ph.sess := by
  constructor
  · obtain ⟨s1, g1, hr, hf⟩ := loop_final_reach e (w.length + 2) (start e b) [] w [.reply [220]]
    have := inv_reach e _ _ _ _ (inv_init e b).2 hr
    rw [run_eq]
    rcases hf with hf | hf <;> rw [hf]
    · exact this
    · simp [Inv]
  · intro ph hph
    obtain ⟨s1, hr, _, _, hsess, _⟩ := phases_reach e _ _ _ _ ph hph
    have := inv_reach e _ _ _ _ (inv_init e b).2 hr
    rw [hsess]
    exact this

example : Inv exMail := by simp [Inv, exMail]

/-! ### sequencing: step lemmas -/

/-- the state becomes MAIL only from READY, by a MAIL command answered 250 -/
theorem mail_only_from_ready (e : Env) (s : Sess) (line : Bytes) (acc : List Ev)
    (h : (handleLine e s line acc).1.st = .mail) (hs : s.st ≠ .mail) :
    s.st = .ready ∧ (∃ arg, parseCmd line = .cmd (ofAscii "MAIL") arg) ∧
      (handleLine e s line acc).2 = .reply [250] :: acc := by
  rw [handleLine_acc] at h ⊢
  have hstep := handleLine_step e s line
  generalize (handleLine e s line []).1 = s' at *
  generalize (handleLine e s line []).2 = evs at *
  cases hstep <;> simp_all [reset_st]
  case rset => split at h <;> simp at h

/-- from GREET the only exits are HELO / EHLO with a non-empty argument (to READY) and QUIT -/
theorem greet_exits (e : Env) (s : Sess) (line : Bytes) (acc : List Ev) (hs : s.st = .greet) :
    (handleLine e s line acc).1.st = .greet ∨
    ((handleLine e s line acc).1.st = .ready ∧ ∃ arg, arg ≠ [] ∧
      (parseCmd line = .cmd (ofAscii "HELO") arg ∨ parseCmd line = .cmd (ofAscii "EHLO") arg)) ∨
    ((handleLine e s line acc).1.st = .quit ∧ ∃ arg, parseCmd line = .cmd (ofAscii "QUIT") arg) := by
  rw [handleLine_acc]
  have hstep := handleLine_step e s line
  generalize (handleLine e s line []).1 = s' at *
  generalize (handleLine e s line []).2 = evs at *
  cases hstep <;> simp_all [reset_st]
  case helo => exact ⟨_, by assumption, .inl rfl⟩
  case ehlo => exact ⟨_, by assumption, .inr rfl⟩

/-- RSET before the greeting stays in GREET (the repaired defect F-03) -/
theorem rset_in_greet_stays (e : Env) (s : Sess) (line arg : Bytes) (acc : List Ev) (hs : s.st = .greet)
    (hp : parseCmd line = .cmd (ofAscii "RSET") arg) :
    (handleLine e s line acc).1.st = .greet ∧ (handleLine e s line acc).2 = .reply [250] :: acc := by
  rw [handleLine_cmd e s line _ arg acc (by simp [hs]) (by simp [hs]) hp, handleCmd_rset]
  simp [reset_st_greet s hs]

/-- the `reset` of the tree before the fix: always to READY -/
def resetOld (s : Sess) : Sess := { s with st := .ready, sender := none, rcpts := [] }

/-- counter-example for the old `reset`: RSET as the first command opened the session for MAIL, which was then
    accepted without any greeting -/
theorem resetOld_skips_greeting :
    (resetOld (start exEnv none)).st = .ready ∧
    (handleLine exEnv (send (resetOld (start exEnv none)) 1) (ofAscii "MAIL FROM:<>") []).1.st = .mail ∧
    (handleLine exEnv (send (reset (start exEnv none)) 1) (ofAscii "MAIL FROM:<>") []).2 = [.reply [503]] := by
  decide

/-- a 250 to MAIL needs an earlier accepted HELO / EHLO: every path of the loop from the greeting state to a
    state other than GREET / QUIT passes through a HELO or EHLO line with a non-empty argument that took the
    session from GREET to READY -/
theorem mail_needs_greeting (e : Env) (s0 : Sess) (g0 : List Addr.Recipient) (s' : Sess) (g' : List Addr.Recipient)
    (h : Reach e s0 g0 s' g') (h0 : s0.st = .greet) (hg : s'.st ≠ .greet) (hq : s'.st ≠ .quit) :
    ∃ s1 g1 l arg, Reach e s0 g0 s1 g1 ∧ s1.st = .greet ∧ arg ≠ [] ∧
      (parseCmd l = .cmd (ofAscii "HELO") arg ∨ parseCmd l = .cmd (ofAscii "EHLO") arg) ∧
      (handleLine e s1 l []).1.st = .ready ∧
      Reach e (handleLine e s1 l []).1 (ghostStep e g1 l (handleLine e s1 l []).2) s' g' := by
  induction h with
  | refl => exact absurd h0 hg
  | line s1 g1 l hr h1 h2 h3 ih =>
    by_cases hs1 : s1.st = .greet
    · rcases greet_exits e s1 l [] hs1 with hx | ⟨hx, arg, ha, hp⟩ | ⟨hx, _⟩
      · exact absurd hx hg
      · exact ⟨s1, g1, l, arg, hr, hs1, ha, hp, hx, .refl⟩
      · exact absurd hx hq
    · obtain ⟨s2, g2, l2, arg, hr2, hs2, ha, hp, hx, hr3⟩ := ih hs1 h1
      exact ⟨s2, g2, l2, arg, hr2, hs2, ha, hp, hx, .line s1 g1 l hr3 h1 h2 h3⟩
  | data s1 g1 block hr h2 h3 ih =>
    obtain ⟨s2, g2, l2, arg, hr2, hs2, ha, hp, hx, hr3⟩ := ih (by simp [h3]) (by simp [h3])
    exact ⟨s2, g2, l2, arg, hr2, hs2, ha, hp, hx, .data s1 g1 block hr3 h2 h3⟩

/-- a recipient is appended only in state MAIL by a RCPT command answered 250; otherwise the recipient list is
    unchanged or reset to empty -/
theorem rcpt_needs_mail (e : Env) (s : Sess) (line : Bytes) (acc : List Ev) :
    (handleLine e s line acc).1.rcpts = s.rcpts ∨ (handleLine e s line acc).1.rcpts = [] ∨
    (s.st = .mail ∧ ∃ arg addr r, parseCmd line = .cmd (ofAscii "RCPT") arg ∧ rcptSyntax e arg = some (addr, r) ∧
      (handleLine e s line acc).1.rcpts = s.rcpts ++ [r] ∧ (handleLine e s line acc).2 = .reply [250] :: acc ∧
      (s.rcpts.length : Int) < e.maxRcpt) := by
  rw [handleLine_acc]
  have hstep := handleLine_step e s line
  generalize (handleLine e s line []).1 = s' at *
  generalize (handleLine e s line []).2 = evs at *
  cases hstep <;> simp_all

/-- the state becomes DATA only from MAIL with at least one recipient, by a DATA command without argument;
    the envelope is carried over unchanged and no reply is sent yet -/
theorem data_needs_rcpt (e : Env) (s : Sess) (line : Bytes) (acc : List Ev)
    (h : (handleLine e s line acc).1.st = .data) (hs : s.st ≠ .data) :
    s.st = .mail ∧ s.rcpts ≠ [] ∧ parseCmd line = .cmd (ofAscii "DATA") [] ∧
      (handleLine e s line acc).1.rcpts = s.rcpts ∧ (handleLine e s line acc).1.sender = s.sender ∧
      (handleLine e s line acc).2 = acc := by
  rw [handleLine_acc] at h ⊢
  have hstep := handleLine_step e s line
  generalize (handleLine e s line []).1 = s' at *
  generalize (handleLine e s line []).2 = evs at *
  cases hstep <;> simp_all [reset_st]
  case rset => split at h <;> simp at h

example : (handleLine exEnv exMail (ofAscii "DATA\r\n") []).1.st = .data := by decide
example : (handleLine exEnv exReady (ofAscii "MAIL FROM:<>\r\n") []).1.st = .mail := by decide
example : (handleLine exEnv exMail (ofAscii "RCPT TO:<w@x.org>\r\n") []).1.rcpts.length = 2 := by decide

/-! ### reset_clears -/

/-- RSET (any state the loop dispatches from) empties the envelope; READY unless still before the greeting -/
theorem reset_clears_rset (e : Env) (s : Sess) (line arg : Bytes) (acc : List Ev) (h1 : s.st ≠ .login)
    (h2 : s.st ≠ .password) (hp : parseCmd line = .cmd (ofAscii "RSET") arg) :
    (handleLine e s line acc).1.sender = none ∧ (handleLine e s line acc).1.rcpts = [] ∧
      (s.st ≠ .greet → (handleLine e s line acc).1.st = .ready) ∧
      (s.st = .greet → (handleLine e s line acc).1.st = .greet) := by
  rw [handleLine_cmd e s line _ arg acc h1 h2 hp, handleCmd_rset]
  simp only [say_fst, send_sender, send_rcpts, send_st, reset_sender, reset_rcpts, true_and]
  exact ⟨reset_st_of_ne s, reset_st_greet s⟩

/-- a repeated EHLO (in READY or MAIL) empties the envelope and returns to READY -/
theorem reset_clears_ehlo (e : Env) (s : Sess) (line arg : Bytes) (acc : List Ev) (hs : s.st = .ready ∨ s.st = .mail)
    (hp : parseCmd line = .cmd (ofAscii "EHLO") arg) :
    (handleLine e s line acc).1.sender = none ∧ (handleLine e s line acc).1.rcpts = [] ∧
      (handleLine e s line acc).1.st = .ready := by
  have h1 : s.st ≠ .login := by rcases hs with h | h <;> simp [h]
  have h2 : s.st ≠ .password := by rcases hs with h | h <;> simp [h]
  have h3 : s.st ≠ .greet := by rcases hs with h | h <;> simp [h]
  rw [handleLine_cmd e s line _ arg acc h1 h2 hp, handleCmd_ehlo_reset e s arg acc hs]
  simp [reset_st_of_ne s h3]

/-- the end of every data phase — accepted (250), failed (451) or oversized (552) — empties the envelope and
    returns to READY -/
theorem reset_clears_data (e : Env) (s : Sess) (block : Bytes) (acc : List Ev) (hs : s.st ≠ .greet) :
    (handleData e s block acc).1.sender = none ∧ (handleData e s block acc).1.rcpts = [] ∧
      (handleData e s block acc).1.st = .ready := by
  simp [reset_st_of_ne s hs]

example : (handleLine exEnv exMail (ofAscii "RSET\r\n") []).1.rcpts = [] := by decide
example : (handleLine exEnv exMail (ofAscii "ehlo x\r\n") []).1.st = .ready := by decide

/-! ### one reply per line -/

/-- a single reply: one line with one code, the four-line 250 answer to EHLO (five lines when STARTTLS is
    advertised), or a hook's own code and text -/
def SingleReply (ev : Ev) : Prop :=
  (∃ c, ev = .reply [c]) ∨ ev = .reply [250, 250, 250, 250] ∨ ev = .reply [250, 250, 250, 250, 250] ∨
    ∃ c m, ev = .hookReply c m

/-- every command line (in a state the loop reads lines in) appends exactly one reply — except the accepted
    DATA command, which appends nothing and enters the data phase (whose first event is the 354) -/
theorem one_reply_per_line (e : Env) (s : Sess) (line : Bytes) (acc : List Ev) (h3 : s.st ≠ .data) (h4 : s.st ≠ .quit) :
    (∃ ev, (handleLine e s line acc).2 = ev :: acc ∧ SingleReply ev ∧ (handleLine e s line acc).1.st ≠ .data) ∨
    ((handleLine e s line acc).2 = acc ∧ (handleLine e s line acc).1.st = .data ∧ s.st = .mail ∧
      parseCmd line = .cmd (ofAscii "DATA") []) := by
  rw [handleLine_acc]
  have hstep := handleLine_step e s line
  generalize (handleLine e s line []).1 = s' at *
  generalize (handleLine e s line []).2 = evs at *
  cases hstep <;> simp_all [SingleReply, reset_st]
  case rset => split <;> simp
  case ehlo => rcases ehloLines_cases e s with h | h <;> simp [h, List.replicate]

/-- the data phase opens with the 354, appends only stored / failed-delivery events and then exactly one reply
    (250, 451 or 552; nothing is stored before a 552) -/
theorem one_reply_per_data (e : Env) (s : Sess) (block : Bytes) (acc : List Ev) :
    ∃ dels c, (handleData e s block acc).2 = .reply [c] :: (dels ++ acc) ∧ (c = 250 ∨ c = 451 ∨ c = 552) ∧
      (∀ ev ∈ dels, ev = .deliverFailed ∨ ∃ x, ev = .stored x) ∧ (c = 552 → dels = []) := by
  obtain ⟨dels, c, h, hc, hd, h552⟩ := handleData_shape e s block
  refine ⟨dels, c, ?_, hc, ?_, h552⟩
  · rw [handleData_acc, h]; simp
  · intro ev hev
    rcases hd ev hev with h | ⟨x, h, _⟩
    · exact .inl h
    · exact .inr ⟨x, h⟩

example : (handleLine exEnv exMail (ofAscii "NOOP\r\n") []).2 = [.reply [250]] := by decide
example : (handleLine exEnv (start exEnv none) (ofAscii "EHLO a\r\n") []).2 = [.reply [250, 250, 250, 250]] := by decide
example : (handleData exEnv exMail (ofAscii "hi\n") []).2.length = 2 := by decide

/-! ### totality -/

/-- reading a line consumes at least one byte -/
theorem readLine_rest_lt (inp l rest : Bytes) (h : Line.readLine inp = some (l, rest)) : rest.length < inp.length :=
  Ibx.Lemmas.SmtpIO.readLine_rest_lt inp l rest h

/-- decoding a dot block consumes at least one byte -/
theorem dotDecode_rest_lt (inp b rest : Bytes) (h : Dot.dotDecode inp = some (b, rest)) : rest.length < inp.length :=
  Ibx.Lemmas.SmtpIO.dotDecode_rest_lt inp b rest h

/-- a connection never runs out of fuel: the command loop terminates on every byte string, for every
    environment and send budget (with EOF, QUIT, a send error or a cut data phase) -/
theorem total (e : Env) (b : Option Nat) (w : Bytes) : (run e b w).2.2 ≠ .outOfFuel := by
  rw [run_eq]
  exact loop_total e _ _ w _ (by omega)

/-- … and more fuel changes nothing -/
theorem fuel_irrelevant (e : Env) (b : Option Nat) (w : Bytes) (fuel : Nat) (h : w.length < fuel) :
    loop e fuel (start e b) w [.reply [220]] = run e b w := by
  rw [run_eq]
  exact loop_fuel e _ _ _ _ _ h (by omega)

/-- slice guard of `mailHandler`: `arg[0:3]` is evaluated only when `len(arg) ≥ 4`; a shorter argument is
    answered 501 before — and then `take 3` really has three bytes -/
theorem rcpt_slice_guarded (e : Env) (s : Sess) (arg : Bytes) (acc : List Ev) :
    (arg.length < 4 → rcptTo e s arg acc = say s 501 acc) ∧ (¬ arg.length < 4 → (arg.take 3).length = 3) := by
  constructor
  · intro h; simp [rcptTo, h]
  · intro h; simp; omega

/-- slice guard of `parseCmd`: `line[l+1:]` is evaluated only when a space was found at index `l`
    (so `l + 1 ≤ len(line)`); without a space the argument is empty and nothing is sliced -/
theorem parseCmd_slice_guarded (line name arg : Bytes) (h : parseCmd line = .cmd name arg) :
    let t := Line.trimRightCRLF line
    let w := t.takeWhile (· != 32)
    4 ≤ w.length ∧
    ((w.length + 1 ≤ t.length ∧ t[w.length]? = some 32 ∧ name = goUpper w ∧ arg = trimSpaces (t.drop (w.length + 1))) ∨
     (w.length = t.length ∧ name = goUpper t ∧ arg = [])) := by
  intro t w
  unfold parseCmd at h
  simp only [] at h
  split at h
  · simp at h
  · split at h
    · simp at h
    · rename_i h0 h4
      have h4 : 4 ≤ w.length := by simp only [w, t]; omega
      refine ⟨h4, ?_⟩
      split at h
      · rename_i hlt
        have hlt : w.length < t.length := hlt
        simp only [Parsed.cmd.injEq] at h
        refine .inl ⟨by omega, ?_, h.1.symm, h.2.symm⟩
        have hw : w.length = t.findIdx (fun c => !(c != 32)) := by
          simp only [w, List.takeWhile_eq_take_findIdx_not, List.length_take]
          have := List.findIdx_le_length (p := fun c => !(c != 32)) (xs := t)
          omega
        have hlt' : List.findIdx (fun c => !(c != 32)) t < t.length := by omega
        have := List.findIdx_getElem (p := fun c => !(c != 32)) (xs := t) (w := hlt')
        rw [hw, List.getElem?_eq_getElem hlt']
        simpa using this
      · rename_i hge
        have hle : w.length ≤ t.length := (List.takeWhile_prefix _).length_le
        have hge : ¬ w.length < t.length := hge
        simp only [Parsed.cmd.injEq] at h
        exact .inr ⟨by omega, h.1.symm, h.2.symm⟩

example : (run exEnv none dlg2).2.2 = .quit := by decide
example : (run exEnv (some 3) dlg2).2.2 = .sendError := by decide

/-! ### cut anywhere -/

/-- no partial, no phantom: every completed data phase of a connection decoded a complete dot block found in
    the input, ran `handleData` on exactly that block, and each stored copy's source is the trace headers of
    that session followed by the whole block -/
theorem phases_complete (e : Env) (b : Option Nat) (w : Bytes) :
    ∀ ph ∈ runPhases e b w,
      (∃ suf rest, suf <:+ w ∧ Dot.dotDecode suf = some (ph.block, rest)) ∧
      ph.evs = (handleData e ph.sess ph.block []).2.reverse ∧
      ∀ x ∈ storedOf ph.evs, x.source = traceHeaders e ph.sess x.mailbox ++ ph.block := by
  intro ph hph
  obtain ⟨s1, _, _, _, hsess, hevs, hsuf⟩ := phases_reach e _ _ _ _ ph hph
  refine ⟨hsuf, by rw [hsess]; exact hevs, ?_⟩
  intro x hx
  rw [hevs, storedOf_reverse, List.mem_reverse, mem_storedOf] at hx
  obtain ⟨dels, c, h, _, hd, _⟩ := handleData_shape e (erase s1) ph.block
  rw [h] at hx
  simp only [List.mem_cons, reduceCtorEq, false_or] at hx
  rcases hd _ hx with h | ⟨y, hy, hsrc, _⟩
  · simp at h
  · simp only [Ev.stored.injEq] at hy
    subst hy
    rw [hsess]; exact hsrc

/-- the stored copies of a connection are exactly those of its completed data phases, in order -/
theorem stored_by_phases (e : Env) (b : Option Nat) (w : Bytes) :
    storedOf (run e b w).1 = (runPhases e b w).flatMap (fun ph => storedOf ph.evs) :=
  run_stored e b w

/-- a connection cut after any byte: the data phases completed on the prefix are a prefix of those of the whole
    dialogue — the SAME phases (same block, same session, same deliveries, same reply) — and therefore the
    stored copies of the cut connection are a prefix of those of the whole one: every acknowledged message is
    there, at most the one whose terminator was the last thing transmitted in addition, nothing partial -/
theorem cut_anywhere (e : Env) (p q : Bytes) :
    runPhases e none p <+: runPhases e none (p ++ q) ∧
    storedOf (run e none p).1 <+: storedOf (run e none (p ++ q)).1 := by
  have h : runPhases e none p <+: runPhases e none (p ++ q) :=
    phases_prefix e _ _ _ _ p q (by omega) (by omega)
  refine ⟨h, ?_⟩
  rw [run_stored, run_stored]
  exact flatMap_prefix _ _ _ h

/-- a partial last line may change the state and produce a reply, never a stored copy -/
theorem partial_line_stores_nothing (e : Env) (s : Sess) (line : Bytes) (acc : List Ev) :
    storedOf (handleLine e s line acc).2 = storedOf acc := by
  rw [handleLine_acc]
  simp [handleLine_no_stored]

/-- a failing send (any budget of reply lines) ends the loop at its next head: the completed data phases and the
    stored copies are a prefix of those of the same dialogue with a peer that keeps reading — a send error never
    undoes or duplicates a delivery -/
theorem cut_by_send_error (e : Env) (b : Nat) (w : Bytes) :
    runPhases e (some b) w <+: runPhases e none w ∧
    storedOf (run e (some b) w).1 <+: storedOf (run e none w).1 := by
  have h : runPhases e (some b) w <+: runPhases e none w := by
    have := phases_erase_prefix e (w.length + 2) (start e (some b)) [] w
    rw [erase_start] at this
    exact this
  refine ⟨h, ?_⟩
  rw [run_stored, run_stored]
  exact flatMap_prefix _ _ _ h

/-- the transaction abandoned by RSET leaves nothing; the completed one leaves its single copy -/
example : (storedOf (run exEnv none dlg2).1).map (·.mailbox) = [ofAscii "u"] := by decide
/-- cut inside the data: nothing stored -/
example : storedOf (run exEnv none (dlg1.take 50)).1 = [] := by decide
/-- cut right after the terminator: stored, although the 250 may never be seen -/
example : (storedOf (run exEnv none (dlg1.take 55)).1).length = 1 := by decide
/-- budget 4: the 354 cannot be sent any more, yet the message is delivered once; the loop then stops -/
example : (storedOf (run exEnv (some 4) dlg1).1).length = 1 ∧ (run exEnv (some 4) dlg1).2.2 = .sendError := by decide

end Ibx.Props.C03
