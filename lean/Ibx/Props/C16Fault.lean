import Ibx.Lemmas.FsFault
import Ibx.Props.C11
/-
  C16 (fault leg) — `deleted` events of the file store when file-system calls are REFUSED and the process lives on.

  Model: Ibx/Model/FsFault.lean (`opF C lay cap F op s`: operation `op` started in state `s`, the hook calls
  `{k | F k = true}` of it refused — k counts the calls of the verif step hook of pkg/storage/file in execution order —,
  the code's error paths followed statement by statement).  All theorems are for EVERY codec satisfying the `Codec`
  hypotheses, every directory layout, every cap, every state that is well-formed in the sense of C11 (`WF`: an
  invariant of all crash states and — `refused_steps_keep_store_wellformed` — of all states a faulty operation leaves).

    (a) ONE refused call inside a delivery (any call: the eviction's index write, the delivery's own, an unlink, the raw
        file's create / copy / flush / close, a mkdir, a parent's rmdir): the events are exactly the evicted messages,
        the mailbox reads as "evictions done, new message appended" (ok) or "evictions done" (err), nothing else;
    (b) ANY set of refused calls of ANY operation: the store stays well-formed (every mailbox readable, every listed
        message complete), other mailboxes are not touched;
    (c) what the code AS IT IS does when the refused call is the index write that follows an already emitted event — a
        refused index write inside RemoveMessage, both index writes of a capped delivery refused —: the message stays
        listed although `deleted` was emitted, and is announced again when it is removed later.  C16 ranges over
        histories and schedules, not over fault sequences: these are documentation of the model (and of the T2 tie:
        harness/cmd/drive/c16_fsfault.go asserts that the implementation does exactly this), not findings.
-/
namespace Ibx.Props.C16Fault
open Ibx Ibx.Model.FsSteps Ibx.Model.FsFault Ibx.Lemmas.Crash Ibx.Lemmas.FsFault
open Ibx.Props.C11 (WF Fresh readable_of_wf)
open Ibx.Spec.Store (Meta)
open Ibx.Model.FileStore (FEnt)
abbrev Op := Ibx.Model.FsSteps.Op

/-- at most one hook call of the operation is refused -/
def AtMostOne (F : Nat → Bool) : Prop := ∀ i j, F i = true → F j = true → i = j

private theorem opF_dirs (C : Codec) (lay : Layout) (cap : Nat) (F : Nat → Bool) (op : Op) (s : FS) (x : Bytes) :
    (opF C lay cap F op s).fs.dirs x =
      if x = op.box then (opD C F (parentSteps lay s op.box) cap (s.dirs op.box) op).d else s.dirs x := by
  simp [opF, setDir]

private theorem fresh_local {C : Codec} {s : FS} {op : Op} {l0 : List FEnt} (hf : Fresh C s op) (hg : Good C op.box l0 (s.dirs op.box)) :
    ∀ id hdr src, op = .add op.box id hdr src → id ∉ l0.map (·.id) := by
  intro id hdr src h
  rw [h] at hf
  exact hf l0 (good_listing hg)

private theorem atMostOne_single (k : Nat) : AtMostOne (refuse [k]) := by
  intro i j hi hj
  simp [refuse] at hi hj
  omega

/-- event accounting of "the first `n` listed messages are announced, the rest (plus `extra`, whose ids are new) is listed" -/
private theorem exact_of_split (l0 : List FEnt) (n : Nat) (hnd : (l0.map (·.id)).Nodup) (extra : List FEnt)
    (hex : ∀ e ∈ extra, e.id ∉ l0.map (·.id)) :
    (∀ e ∈ l0, e.id ∉ (l0.drop n ++ extra).map (·.id) → ((l0.take n).map (·.id)).count e.id = 1) ∧
    (∀ e ∈ l0.drop n ++ extra, e.id ∉ (l0.take n).map (·.id)) ∧
    (∀ i ∈ (l0.take n).map (·.id), i ∈ l0.map (·.id)) := by
  have hsplit : l0.map (·.id) = (l0.take n).map (·.id) ++ (l0.drop n).map (·.id) := by
    rw [← List.map_append, List.take_append_drop]
  rw [hsplit, List.nodup_append] at hnd
  obtain ⟨hT, _, hdis⟩ := hnd
  have hsub : ∀ i ∈ (l0.take n).map (·.id), i ∈ l0.map (·.id) := by
    intro i hi; rw [hsplit]; exact List.mem_append_left _ hi
  refine ⟨?_, ?_, hsub⟩
  · intro e he hnot
    have he' : e ∈ l0.take n ++ l0.drop n := by rw [List.take_append_drop]; exact he
    rcases List.mem_append.mp he' with h | h
    · rw [List.Nodup.count hT]
      simp only [List.mem_map]
      rw [if_pos ⟨e, h, rfl⟩]
    · exact absurd (by simp only [List.map_append, List.mem_append, List.mem_map]; exact Or.inl ⟨e, h, rfl⟩) hnot
  · intro e he hin
    rcases List.mem_append.mp he with h | h
    · exact hdis e.id hin e.id (by simp only [List.mem_map]; exact ⟨e, h, rfl⟩) rfl
    · exact hex e h (hsub _ hin)

/-! ### (b) any set of refused calls -/

/-- **Readable / untouched, for ANY fault set.**  Whatever hook calls of whatever operation are refused, the store the
    operation leaves is well-formed again in the sense of C11 — every mailbox lists without error (so VisitMailboxes and
    retention work), every listed message has its complete raw file, ids are unique — and no mailbox directory other
    than the operation's is touched.  The error paths never corrupt an index: whatever is refused, the index file is
    either the old one or a complete new one (`rename` is the only call that changes it). -/
theorem refused_steps_keep_store_wellformed (C : Codec) (lay : Layout) (cap : Nat) (F : Nat → Bool) (s : FS) (op : Op)
    (hwf : WF C s) (hfresh : Fresh C s op) :
    WF C (opF C lay cap F op s).fs ∧ Readable C (opF C lay cap F op s).fs ∧
    ∀ x, x ≠ op.box → (opF C lay cap F op s).fs.dirs x = s.dirs x := by
  obtain ⟨l0, hg⟩ := hwf op.box
  obtain ⟨ld, hgd⟩ := opD_good C F op.box (parentSteps lay s op.box) cap (s.dirs op.box) l0 op rfl hg (fresh_local hfresh hg)
  have hwf' : WF C (opF C lay cap F op s).fs := by
    intro x
    rw [opF_dirs]
    by_cases hx : x = op.box
    · subst hx; simp only [if_true]; exact ⟨ld, hgd⟩
    · simp only [hx, if_false]; exact hwf x
  exact ⟨hwf', readable_of_wf C _ hwf', fun x hx => by rw [opF_dirs]; simp [hx]⟩

/-- mailboxes the faulty operation does not address read exactly as before -/
theorem refused_steps_leave_other_mailboxes (C : Codec) (lay : Layout) (cap : Nat) (F : Nat → Bool) (s : FS) (op : Op)
    (hwf : WF C s) (hfresh : Fresh C s op) (x : Bytes) (hx : x ≠ op.box) :
    recover C (opF C lay cap F op s).fs x = recover C s x := by
  have := (refused_steps_keep_store_wellformed C lay cap F s op hwf hfresh).2.2 x hx
  simp [recover, view, this]

/-- a history of operations, each with its own set of refused calls -/
def runFaulty (C : Codec) (lay : Layout) (cap : Nat) : FS → List (Op × (Nat → Bool)) → FS
  | s, [] => s
  | s, (op, F) :: h => runFaulty C lay cap (opF C lay cap F op s).fs h

/-- the id generator's contract along such a history -/
def FreshAlong (C : Codec) (lay : Layout) (cap : Nat) : FS → List (Op × (Nat → Bool)) → Prop
  | _, [] => True
  | s, (op, F) :: h => Fresh C s op ∧ FreshAlong C lay cap (opF C lay cap F op s).fs h

/-- … hence after ANY history of operations with ANY refused calls (from the empty store, or from any crash state of
    C11) every mailbox is readable and every listed message complete -/
theorem faulty_history_wellformed (C : Codec) (lay : Layout) (cap : Nat) : ∀ (h : List (Op × (Nat → Bool))) (s : FS),
    WF C s → FreshAlong C lay cap s h → WF C (runFaulty C lay cap s h) ∧ Readable C (runFaulty C lay cap s h)
  | [], s, hwf, _ => ⟨hwf, readable_of_wf C s hwf⟩
  | (op, F) :: h, s, hwf, hfr =>
    faulty_history_wellformed C lay cap h _ (refused_steps_keep_store_wellformed C lay cap F s op hwf hfr.1).1 hfr.2

/-- **an error answer means a refused call.**  From a well-formed state no system call of any operation fails by itself:
    when an operation answers `err`, a hook call of it was refused.  In particular with no refused call every operation
    answers ok or notExist (the `okDir` clause of the fault model never fires from well-formed states). -/
theorem error_means_a_call_was_refused (C : Codec) (lay : Layout) (cap : Nat) (F : Nat → Bool) (s : FS) (op : Op)
    (hwf : WF C s) (hfresh : Fresh C s op) (herr : (opF C lay cap F op s).res = .err) : ∃ j, F j = true := by
  obtain ⟨l0, hg⟩ := hwf op.box
  exact opD_err_fault C F op.box (parentSteps lay s op.box) cap (s.dirs op.box) l0 op rfl hg (fresh_local hfresh hg) herr

example (C : Codec) (lay : Layout) (cap : Nat) (s : FS) (op : Op) (hwf : WF C s) (hfresh : Fresh C s op) :
    (opF C lay cap (fun _ => false) op s).res ≠ .err := by
  intro h
  obtain ⟨j, hj⟩ := error_means_a_call_was_refused C lay cap _ s op hwf hfresh h
  simp at hj

/-! ### (a) one refused call inside a delivery -/

/-- **one refused call inside AddMessage: the outcomes.**  `l0` / `V0` = what the mailbox lists / shows before,
    `n` = the number of evictions the cap asks for.  With at most one refused hook call — whichever —
      * the `deleted` events are exactly the ids of the `n` oldest messages, oldest first, once each;
      * EITHER the delivery answers ok and the mailbox shows the remaining messages, untouched, and the new one last with
        its full content (the refused call was inside an eviction: its index write — the delivery's own index write then
        drops the evicted entry, its raw file stays behind unlisted —, or its unlink, or a parent's rmdir),
      * OR the delivery answers err — then a call WAS refused — and the mailbox shows exactly the remaining messages,
        untouched (every eviction was carried out completely; what the failed delivery leaves — nothing, an empty
        directory, an `index.gob.tmp` — changes no view);
      * the store is well-formed. -/
theorem one_refused_step_in_add_outcomes (C : Codec) (lay : Layout) (cap : Nat) (F : Nat → Bool) (s : FS) (b : Bytes) (id : Nat)
    (hdr : Meta) (src : Bytes) (hwf : WF C s) (hfresh : Fresh C s (.add b id hdr src)) (hone : AtMostOne F) :
    ∃ l0 V0, listing C s b = some l0 ∧ view C s b = some V0 ∧ (l0.map (·.id)).Nodup ∧ id ∉ l0.map (·.id) ∧
      (opF C lay cap F (.add b id hdr src) s).events = (l0.take (if cap > 0 then nEvict cap l0 else 0)).map (·.id) ∧
      WF C (opF C lay cap F (.add b id hdr src) s).fs ∧
      (((opF C lay cap F (.add b id hdr src) s).res = .ok ∧
          listing C (opF C lay cap F (.add b id hdr src) s).fs b = some (l0.drop (if cap > 0 then nEvict cap l0 else 0) ++ [newEnt id hdr src]) ∧
          view C (opF C lay cap F (.add b id hdr src) s).fs b =
            some (V0.drop (if cap > 0 then nEvict cap l0 else 0) ++ [(newEnt id hdr src, some src)])) ∨
       ((opF C lay cap F (.add b id hdr src) s).res = .err ∧ (∃ j, F j = true) ∧
          listing C (opF C lay cap F (.add b id hdr src) s).fs b = some (l0.drop (if cap > 0 then nEvict cap l0 else 0)) ∧
          view C (opF C lay cap F (.add b id hdr src) s).fs b = some (V0.drop (if cap > 0 then nEvict cap l0 else 0)))) := by
  obtain ⟨l0, hg⟩ := hwf b
  have hfr : id ∉ l0.map (·.id) := hfresh l0 (good_listing hg)
  obtain ⟨hev, ld, hgd, hcont, hcase⟩ := addF_spec C F b (parentSteps lay s b) cap (s.dirs b) l0 id hdr src hg hfr
  have hd : (opF C lay cap F (.add b id hdr src) s).fs.dirs b = (addF C F b (parentSteps lay s b) cap (s.dirs b) id hdr src).d := by
    rw [opF_dirs]; simp [Op.box, opD]
  have hwf' := (refused_steps_keep_store_wellformed C lay cap F s (.add b id hdr src) hwf hfresh).1
  have hvl : viewOf (addF C F b (parentSteps lay s b) cap (s.dirs b) id hdr src).d (l0.drop (if cap > 0 then nEvict cap l0 else 0)) =
      (viewOf (s.dirs b) l0).drop (if cap > 0 then nEvict cap l0 else 0) := by
    rw [← viewOf_drop]
    exact viewOf_congr _ _ _ hcont
  refine ⟨l0, viewOf (s.dirs b) l0, good_listing hg, good_view hg, good_nodup hg, hfr, hev, hwf', ?_⟩
  rcases hcase with ⟨hres, hld, hnew⟩ | ⟨hres, hsuf, ks, ⟨j, hj1, hj2⟩, hflt, _⟩
  · left
    subst hld
    refine ⟨hres, ?_, ?_⟩
    · rw [listing, hd]; exact good_listing hgd
    · rw [view, hd, good_view hgd, viewOf_append, hvl]
      simp [viewOf]
      exact hnew
  · right
    have hld : ld = l0.drop (if cap > 0 then nEvict cap l0 else 0) := by
      apply Classical.byContradiction
      intro hne
      obtain ⟨j', _, hj'2, hj'3⟩ := hflt hne
      have := hone j j' hj2 hj'3
      omega
    subst hld
    refine ⟨hres, ⟨j, hj2⟩, ?_, ?_⟩
    · rw [listing, hd]; exact good_listing hgd
    · rw [view, hd, good_view hgd, hvl]

/-- **one_refused_index_write_in_capped_add_events_exact.**  A capped delivery in which ONE hook call `k` is refused —
    `k` ranges over ALL calls of the delivery, so in particular over every step of the eviction's index write
    (create-tmp, flush-tmp, close-tmp, rename; unlink-index, removeall when the eviction empties the mailbox) and of
    the delivery's own.  Then, with `l0` the listing before and `l'` the listing after:
      * each message that is no longer listed has EXACTLY ONE `deleted` event,
      * no message that is listed has one, and no event concerns anything that was not listed,
      * every mailbox is readable (the store is well-formed),
      * and the result is one of the two documented outcomes: the delivery answers ok, the evictions are done and the new
        message is listed last with its content; or it answers err, the evictions are done, and what is left behind (an
        unlisted raw file of an evicted message is possible only in the ok case; here at most an `index.gob.tmp` or an
        empty directory) changes no view: the mailbox shows exactly the messages that were not evicted. -/
theorem one_refused_index_write_in_capped_add_events_exact (C : Codec) (lay : Layout) (cap : Nat) (k : Nat) (s : FS) (b : Bytes)
    (id : Nat) (hdr : Meta) (src : Bytes) (hcap : cap > 0) (hwf : WF C s) (hfresh : Fresh C s (.add b id hdr src)) :
    ∃ l0 l' V0, listing C s b = some l0 ∧ view C s b = some V0 ∧
      listing C (opF C lay cap (refuse [k]) (.add b id hdr src) s).fs b = some l' ∧
      (∀ e ∈ l0, e.id ∉ l'.map (·.id) → (opF C lay cap (refuse [k]) (.add b id hdr src) s).events.count e.id = 1) ∧
      (∀ e ∈ l', e.id ∉ (opF C lay cap (refuse [k]) (.add b id hdr src) s).events) ∧
      (∀ i ∈ (opF C lay cap (refuse [k]) (.add b id hdr src) s).events, i ∈ l0.map (·.id)) ∧
      Readable C (opF C lay cap (refuse [k]) (.add b id hdr src) s).fs ∧
      (((opF C lay cap (refuse [k]) (.add b id hdr src) s).res = .ok ∧ l' = l0.drop (nEvict cap l0) ++ [newEnt id hdr src] ∧
          view C (opF C lay cap (refuse [k]) (.add b id hdr src) s).fs b = some (V0.drop (nEvict cap l0) ++ [(newEnt id hdr src, some src)])) ∨
       ((opF C lay cap (refuse [k]) (.add b id hdr src) s).res = .err ∧ l' = l0.drop (nEvict cap l0) ∧
          view C (opF C lay cap (refuse [k]) (.add b id hdr src) s).fs b = some (V0.drop (nEvict cap l0)))) := by
  obtain ⟨l0, V0, h1, h2, hnd, hfr, hev, hwf', hcase⟩ :=
    one_refused_step_in_add_outcomes C lay cap (refuse [k]) s b id hdr src hwf hfresh (atMostOne_single k)
  simp only [hcap, if_true] at hev hcase
  rcases hcase with ⟨hres, hl, hv⟩ | ⟨hres, _, hl, hv⟩
  · obtain ⟨e1, e2, e3⟩ := exact_of_split l0 (nEvict cap l0) hnd [newEnt id hdr src] (by intro e he; simp at he; subst he; simpa [newEnt] using hfr)
    exact ⟨l0, _, V0, h1, h2, hl, by rw [hev]; exact e1, by rw [hev]; exact e2, by rw [hev]; exact e3,
      readable_of_wf C _ hwf', Or.inl ⟨hres, rfl, hv⟩⟩
  · obtain ⟨e1, e2, e3⟩ := exact_of_split l0 (nEvict cap l0) hnd [] (by simp)
    simp only [List.append_nil] at e1 e2
    exact ⟨l0, _, V0, h1, h2, hl, by rw [hev]; exact e1, by rw [hev]; exact e2, by rw [hev]; exact e3,
      readable_of_wf C _ hwf', Or.inr ⟨hres, rfl, hv⟩⟩

/-- without any refused call the delivery succeeds (no system call fails by itself from a well-formed state) and the
    mailbox reads exactly as after the step program of C11 (`runOp`, every chunking, every layout) -/
theorem unfaulted_add_reads_as_step_program (C : Codec) (ch : Chooser) (lay lay' : Layout) (cap : Nat) (s : FS) (b : Bytes) (id : Nat)
    (hdr : Meta) (src : Bytes) (hwf : WF C s) (hfresh : Fresh C s (.add b id hdr src)) :
    (opF C lay cap (fun _ => false) (.add b id hdr src) s).res = .ok ∧
    view C (opF C lay cap (fun _ => false) (.add b id hdr src) s).fs b = view C (runOp C Variant.safe ch lay' cap (.add b id hdr src) s) b := by
  obtain ⟨l0, V0, h1, h2, _, _, _, _, hcase⟩ :=
    one_refused_step_in_add_outcomes C lay cap (fun _ => false) s b id hdr src hwf hfresh (fun i _ hi _ => by simp at hi)
  obtain ⟨_, _, W0, W, g0, g1, g2⟩ := Ibx.Props.C11.op_complete C ch lay' cap s (.add b id hdr src) hwf hfresh
  rcases hcase with ⟨hres, _, hv⟩ | ⟨_, ⟨j, hj⟩, _⟩
  · refine ⟨hres, ?_⟩
    simp only [Op.box] at g0 g1
    rw [h2] at g0
    cases g0
    have hl : V0.map (·.1) = l0 := by
      obtain ⟨l, hg⟩ := hwf b
      rw [view, good_view hg] at h2
      rw [listing, good_listing hg] at h1
      cases h1; cases h2
      exact viewOf_fst _ _
    rw [hv, g1]
    simp only [unitViews, hl, List.getLast?_append, List.getLast?_singleton, Option.some_or] at g2
    cases g2
    rfl
  · simp at hj

/-! ### non-vacuity: the two-message mailbox of C11 (`s2`: messages 1 "hello" and 2 "yo" in mailbox "a"), cap 2 -/

section Concrete
open Ibx.Model.FsCodec Ibx.Props.C11

example : WF lp s2 := wf_s2
example : Fresh lp s2 (.add boxA 3 hdr0 [33]) := by
  intro l h
  have : listing lp s2 boxA = some [newEnt 1 hdr0 [104, 101, 108, 108, 111], newEnt 2 hdr0 [121, 111]] := by decide
  rw [this] at h; cases h; decide
example : AtMostOne (refuse [0]) := atMostOne_single 0

/-- the hook calls of the capped delivery when nothing is refused: the eviction's index write, its unlink, the raw file, the
    delivery's index write -/
example : (opF lp lay0 2 (refuse []) (.add boxA 3 hdr0 [33]) s2).trace =
    [.createTmp, .flushTmp, .closeTmp, .rename, .unlinkRaw 1, .createRaw 3, .copyRaw 3, .flushRaw 3, .closeRaw 3,
     .createTmp, .flushTmp, .closeTmp, .rename] := by decide

/-- the eviction's index write refused (call 0, its create-tmp): the eviction returns the error before unlinking, the loop
    goes on, the delivery's own index write drops message 1 — one event, message 1 gone, delivery ok, `1.raw` left unlisted -/
example : (opF lp lay0 2 (refuse [0]) (.add boxA 3 hdr0 [33]) s2).res = .ok ∧
    (opF lp lay0 2 (refuse [0]) (.add boxA 3 hdr0 [33]) s2).events = [1] ∧
    (opF lp lay0 2 (refuse [0]) (.add boxA 3 hdr0 [33]) s2).trace =
      [.createTmp, .createRaw 3, .copyRaw 3, .flushRaw 3, .closeRaw 3, .createTmp, .flushTmp, .closeTmp, .rename] ∧
    view lp (opF lp lay0 2 (refuse [0]) (.add boxA 3 hdr0 [33]) s2).fs boxA =
      some [(newEnt 2 hdr0 [121, 111], some [121, 111]), (newEnt 3 hdr0 [33], some [33])] ∧
    orphanRaws lp ((opF lp lay0 2 (refuse [0]) (.add boxA 3 hdr0 [33]) s2).fs.dirs boxA) = [1] := by decide

/-- the delivery's own index write refused (call 12, its rename): eviction done, delivery failed, the raw file removed
    again, an `index.gob.tmp` left behind — one event, the mailbox shows message 2 alone -/
example : (opF lp lay0 2 (refuse [12]) (.add boxA 3 hdr0 [33]) s2).res = .err ∧
    (opF lp lay0 2 (refuse [12]) (.add boxA 3 hdr0 [33]) s2).events = [1] ∧
    view lp (opF lp lay0 2 (refuse [12]) (.add boxA 3 hdr0 [33]) s2).fs boxA = some [(newEnt 2 hdr0 [121, 111], some [121, 111])] ∧
    orphanRaws lp ((opF lp lay0 2 (refuse [12]) (.add boxA 3 hdr0 [33]) s2).fs.dirs boxA) = [] ∧
    hasTmp ((opF lp lay0 2 (refuse [12]) (.add boxA 3 hdr0 [33]) s2).fs.dirs boxA) = true := by decide

/-! ### (c) counter-witnesses of the code as it is — outside C16's quantifier (fault sequences), documentation of the model -/

/-- **a refused index write inside RemoveMessage.**  mbox.removeMessage emits `deleted` and drops the in-memory entry
    BEFORE writeIndex; when the index write is refused (here its create-tmp, call 0) RemoveMessage returns the error,
    the in-memory list is discarded with the mbox object, and the message is still listed with its content although it
    was announced as deleted.  A repeated RemoveMessage (nothing refused) then removes it and announces it a SECOND
    time.  C16 quantifies over histories and schedules, not over file-system faults: this is what the unchanged code
    does, recorded here because the T2 leg asserts the implementation agrees with it — not a finding. -/
theorem refused_index_write_in_remove_announces_twice :
    (opF lp lay0 0 (refuse [0]) (.remove boxA 1) s2).res = .err ∧
    (opF lp lay0 0 (refuse [0]) (.remove boxA 1) s2).events = [1] ∧
    view lp (opF lp lay0 0 (refuse [0]) (.remove boxA 1) s2).fs boxA = view lp s2 boxA ∧
    (opF lp lay0 0 (refuse []) (.remove boxA 1) (opF lp lay0 0 (refuse [0]) (.remove boxA 1) s2).fs).res = .ok ∧
    (opF lp lay0 0 (refuse []) (.remove boxA 1) (opF lp lay0 0 (refuse [0]) (.remove boxA 1) s2).fs).events = [1] ∧
    listing lp (opF lp lay0 0 (refuse []) (.remove boxA 1) (opF lp lay0 0 (refuse [0]) (.remove boxA 1) s2).fs).fs boxA =
      some [newEnt 2 hdr0 [121, 111]] := by decide

/-- the same for every well-formed mailbox holding at least two messages, every listed id, every fault set that refuses
    call 0: the answer is err, exactly one event was emitted, the directory is unchanged -/
theorem refused_first_call_of_remove_changes_nothing_but_announces (C : Codec) (F : Nat → Bool) (b : Bytes) (par : List FsStep)
    (x : MDir) (l : List FEnt) (id : Nat) (hg : Good C b l (some x)) (hin : l.any (fun e => e.id = id) = true)
    (hrest : eraseFirst id l ≠ []) (h0 : F 0 = true) :
    (removeF C F b par (some x) id).res = .err ∧ (removeF C F b par (some x) id).events = [id] ∧
    (removeF C F b par (some x) id).d = some x := by
  have hin' : ∃ e, e ∈ l ∧ e.id = id := by simpa using hin
  simp [removeF, good_listing hg, removeFoundF, writeIndexAnyF, hrest, writeIndexF, createDirH, calls, call, Run.start, emit, h0,
    Out.of, hin']

/-- **both index writes of a capped delivery refused** (call 0: the eviction's create-tmp; call 5: the delivery's own
    create-tmp).  The eviction has announced message 1, neither index write happened: the delivery fails, message 1 is
    still listed with its content.  The next delivery (nothing refused) evicts message 1 again and announces it a second
    time.  With ONE of the two refused the events are exact (`one_refused_index_write_in_capped_add_events_exact`).
    Outside C16's quantifier, as above: documentation of the model, tied to the code by the T2 leg. -/
theorem both_index_writes_refused_in_capped_add_fails :
    (opF lp lay0 2 (refuse [0, 5]) (.add boxA 3 hdr0 [33]) s2).res = .err ∧
    (opF lp lay0 2 (refuse [0, 5]) (.add boxA 3 hdr0 [33]) s2).events = [1] ∧
    (opF lp lay0 2 (refuse [0, 5]) (.add boxA 3 hdr0 [33]) s2).trace = [.createTmp, .createRaw 3, .copyRaw 3, .flushRaw 3, .closeRaw 3, .createTmp] ∧
    view lp (opF lp lay0 2 (refuse [0, 5]) (.add boxA 3 hdr0 [33]) s2).fs boxA = view lp s2 boxA ∧
    (opF lp lay0 2 (refuse []) (.add boxA 4 hdr0 [34]) (opF lp lay0 2 (refuse [0, 5]) (.add boxA 3 hdr0 [33]) s2).fs).res = .ok ∧
    (opF lp lay0 2 (refuse []) (.add boxA 4 hdr0 [34]) (opF lp lay0 2 (refuse [0, 5]) (.add boxA 3 hdr0 [33]) s2).fs).events = [1] := by decide

/-- PurgeMessages emits every `deleted` event before it removes anything: a refused unlink of the index (call 0) leaves
    every message listed although all were announced -/
theorem refused_unlink_index_in_purge_keeps_everything_listed :
    (opF lp lay0 0 (refuse [0]) (.purge boxA) s2).res = .err ∧
    (opF lp lay0 0 (refuse [0]) (.purge boxA) s2).events = [1, 2] ∧
    view lp (opF lp lay0 0 (refuse [0]) (.purge boxA) s2).fs boxA = view lp s2 boxA := by decide

/-- … whereas a refused RemoveAll (call 1: the index is gone already) leaves the raw files behind, unlisted: the events
    are exact, the mailbox reads as empty -/
example : (opF lp lay0 0 (refuse [1]) (.purge boxA) s2).res = .err ∧
    (opF lp lay0 0 (refuse [1]) (.purge boxA) s2).events = [1, 2] ∧
    view lp (opF lp lay0 0 (refuse [1]) (.purge boxA) s2).fs boxA = some [] ∧
    orphanRaws lp ((opF lp lay0 0 (refuse [1]) (.purge boxA) s2).fs.dirs boxA) = [2, 1] := by decide

/-- (b) at the same states: the stores the counter-witnesses leave are well-formed -/
example : WF lp (opF lp lay0 2 (refuse [0, 5]) (.add boxA 3 hdr0 [33]) s2).fs :=
  (refused_steps_keep_store_wellformed lp lay0 2 _ s2 _ wf_s2 (by
    intro l h
    have : listing lp s2 boxA = some [newEnt 1 hdr0 [104, 101, 108, 108, 111], newEnt 2 hdr0 [121, 111]] := by decide
    rw [this] at h; cases h; decide)).1

end Concrete

end Ibx.Props.C16Fault
