import Ibx.Props.C16Fault
/-
  C08 (failing-disk leg) — "with a per-mailbox message cap, a mailbox never lists more than the cap", file store, when
  file-system calls are REFUSED inside a delivery and the process lives on.

  Model: Ibx/Model/FsFault.lean (`opF C lay cap F op s`: the hook calls `{k | F k = true}` of the operation refused, the
  code's error paths followed statement by statement — in particular the cap loop of mbox.newMessage, which LOGS a failed
  eviction and goes on with the shortened in-memory list).  The theorem is for EVERY fault set `F` (one refused call, all
  calls from the k-th on, every call of one kind …: harness/cmd/drive/storefault.go generates these classes on the real
  store and compares every outcome with `opF`), every codec, layout, cap > 0 and every well-formed state.
-/
namespace Ibx.Props.C08Fault
open Ibx Ibx.Model.FsSteps Ibx.Model.FsFault Ibx.Lemmas.Crash Ibx.Lemmas.FsFault
open Ibx.Props.C11 (WF Fresh)
open Ibx.Spec.Store (Meta)
open Ibx.Model.FileStore (FEnt)
abbrev Op := Ibx.Model.FsSteps.Op

private theorem length_le_of_nodup_subset : ∀ (a c : List Nat), a.Nodup → (∀ x ∈ a, x ∈ c) → a.length ≤ c.length
  | [], _, _, _ => by simp
  | x :: a, c, hnd, hsub => by
    have hx : x ∈ c := hsub x (by simp)
    have hnd' := List.nodup_cons.mp hnd
    have ih : a.length ≤ (c.erase x).length :=
      length_le_of_nodup_subset a (c.erase x) hnd'.2 (fun y hy => by
        have hyc : y ∈ c := hsub y (by simp [hy])
        have hne : y ≠ x := by intro h; subst h; exact hnd'.1 hy
        exact (List.mem_erase_of_ne hne).mpr hyc)
    rw [List.length_erase_of_mem hx] at ih
    have hpos : 0 < c.length := List.length_pos_of_mem hx
    simp only [List.length_cons]
    omega

private theorem add_dirs (C : Codec) (lay : Layout) (cap : Nat) (F : Nat → Bool) (s : FS) (b : Bytes) (id : Nat) (hdr : Meta) (src : Bytes) :
    (opF C lay cap F (.add b id hdr src) s).fs.dirs b = (addF C F b (parentSteps lay s b) cap (s.dirs b) id hdr src).d := by
  simp [opF, setDir, opD, Ibx.Model.FsSteps.Op.box]

/-- **The cap holds whatever is refused.**  A delivery to a mailbox that lists at most `cap` messages leaves a mailbox that
    lists at most `cap` messages — whichever of its file-system calls are refused (none, one, the eviction's index write
    and the delivery's own, every unlink, everything from the k-th call on …) and whatever it answers: when it answers ok
    the mailbox lists what the cap loop kept plus the new message (`cap` entries at most, however many evictions failed on
    disk: the in-memory list the loop shortened is what the final index write stores); when it answers err the mailbox
    lists only messages it listed before. -/
theorem cap_holds_whatever_is_refused (C : Codec) (lay : Layout) (cap : Nat) (F : Nat → Bool) (s : FS) (b : Bytes) (id : Nat)
    (hdr : Meta) (src : Bytes) (hwf : WF C s) (hfresh : Fresh C s (.add b id hdr src)) (hcap : cap > 0)
    (hbound : ∀ l, listing C s b = some l → l.length ≤ cap) :
    ∃ l, listing C (opF C lay cap F (.add b id hdr src) s).fs b = some l ∧ l.length ≤ cap := by
  obtain ⟨l0, hg⟩ := hwf b
  have hfr : id ∉ l0.map (·.id) := hfresh l0 (good_listing hg)
  have hl0 : l0.length ≤ cap := hbound l0 (good_listing hg)
  obtain ⟨_, ld, hgd, _, hcase⟩ := addF_spec C F b (parentSteps lay s b) cap (s.dirs b) l0 id hdr src hg hfr
  refine ⟨ld, by rw [listing, add_dirs]; exact good_listing hgd, ?_⟩
  rcases hcase with ⟨_, hld, _⟩ | ⟨_, _, _, _, _, hids⟩
  · subst hld
    simp only [hcap, if_true, List.length_append, List.length_drop, List.length_cons, List.length_nil]
    rw [nEvict_closed cap hcap l0]
    omega
  · have h1 : (ld.map (·.id)).length ≤ (l0.map (·.id)).length :=
      length_le_of_nodup_subset _ _ (good_nodup hgd) (fun x hx => by
        obtain ⟨e, he, rfl⟩ := List.mem_map.mp hx
        exact hids e he)
    simp only [List.length_map] at h1
    omega

/-- … and a delivery that answers ok lists the new message LAST (it "always holds its most recent messages"): what the cap
    loop kept, then the new entry, with its content -/
theorem acknowledged_delivery_is_listed_last_whatever_is_refused (C : Codec) (lay : Layout) (cap : Nat) (F : Nat → Bool) (s : FS)
    (b : Bytes) (id : Nat) (hdr : Meta) (src : Bytes) (hwf : WF C s) (hfresh : Fresh C s (.add b id hdr src))
    (hok : (opF C lay cap F (.add b id hdr src) s).res = .ok) :
    ∃ l0, listing C s b = some l0 ∧
      listing C (opF C lay cap F (.add b id hdr src) s).fs b = some (l0.drop (if cap > 0 then nEvict cap l0 else 0) ++ [newEnt id hdr src]) ∧
      content (opF C lay cap F (.add b id hdr src) s).fs b id = some src := by
  obtain ⟨l0, hg⟩ := hwf b
  have hfr : id ∉ l0.map (·.id) := hfresh l0 (good_listing hg)
  obtain ⟨_, ld, hgd, _, hcase⟩ := addF_spec C F b (parentSteps lay s b) cap (s.dirs b) l0 id hdr src hg hfr
  have hres : (opF C lay cap F (.add b id hdr src) s).res = (addF C F b (parentSteps lay s b) cap (s.dirs b) id hdr src).res := by
    simp [opF, opD, Ibx.Model.FsSteps.Op.box]
  rcases hcase with ⟨_, hld, hnew⟩ | ⟨herr, _⟩
  · subst hld
    exact ⟨l0, good_listing hg, by rw [listing, add_dirs]; exact good_listing hgd, by rw [content, add_dirs]; exact hnew⟩
  · rw [hres, herr] at hok; cases hok

/-! ### non-vacuity: the two-message mailbox of C11 at its cap 2, the eviction's index write AND the delivery's own refused -/

section Concrete
open Ibx.Model.FsCodec Ibx.Props.C11

example : ∃ l, listing lp (opF lp lay0 2 (refuse [0, 5]) (.add boxA 3 hdr0 [33]) s2).fs boxA = some l ∧ l.length ≤ 2 :=
  cap_holds_whatever_is_refused lp lay0 2 (refuse [0, 5]) s2 boxA 3 hdr0 [33] wf_s2
    (by
      intro l h
      have : listing lp s2 boxA = some [newEnt 1 hdr0 [104, 101, 108, 108, 111], newEnt 2 hdr0 [121, 111]] := by decide
      rw [this] at h; cases h; decide)
    (by decide)
    (by
      intro l h
      have : listing lp s2 boxA = some [newEnt 1 hdr0 [104, 101, 108, 108, 111], newEnt 2 hdr0 [121, 111]] := by decide
      rw [this] at h; cases h; decide)

end Concrete

end Ibx.Props.C08Fault
