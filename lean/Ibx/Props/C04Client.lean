import Ibx.Props.Sys
import Ibx.Props.C14Ids
import Ibx.Props.C14Client
/-
  C04, the Go client as a read interface — "the name computed when mail is received is the same name every read
  interface computes when a user asks for that address".

  `Props.Sys.mail_is_fetchable` says it for the REST handlers given the name that ARRIVES in the route variable.
  Between a caller of pkg/rest/client and that variable lie the client's path construction, `URL.JoinPath`, the request
  line, one percent-decode and the router (`Props.C14Client`).  Composed: for every address RCPT accepts, asking the Go
  client for that address — or the canonical name, a re-cased spelling, another `+ext` — reaches exactly the mailbox
  the mail was stored in, for listing, fetching, marking, deleting and purging; a mutation through the client touches
  that mailbox only.  The guard is the precise set the client can carry (`ClientCarries`: no '/' — the open finding
  F-14c —, no ' ', not "", ".", ".."); '%' in any position is inside.
-/
namespace Ibx.Props.C04Client
open Ibx Ibx.Bytes Ibx.Spec.Store Ibx.Model Ibx.Model.Addr Ibx.Model.Rest Ibx.Model.RestIds Ibx.Model.ClientUrl
open Ibx.Lemmas.SpecStore Ibx.Lemmas.AddrCase
open Ibx.Model.Sys (restEnv)
open Ibx.Props.Sys (AsksFor asks_resolve mail_is_fetchable)
open Ibx.Props.C14 (SegOk clientBody rest_refines_spec reachesStore)
open Ibx.Props.C14Ids (Listed listed_id_string_resolves)
open Ibx.Props.C14Client (ClientCarries client_request_reaches_the_named_mailbox)

/-- one call of pkg/rest/client against the server, ids as strings: the request is built, routed, and handled
    (`none`: the router answered by itself — 301 / 400 / 404) -/
def clientCallS (e : Env) (lk : Lookup) (str : Nat → Bytes) (base : List Bytes) (op : ClientOp) (s : Store)
    (name id : Bytes) : Option (Resp × Store) :=
  match clientRoute base op name id with
  | some (.hit h (nm :: rest)) => some (handleS e lk str h s { name := nm, id := rest.headD [], body := clientBody op })
  | _ => none

/-- the back-end's id strings: unreserved bytes (decimal counters; `20060102T150405-0001`), pairwise different,
    never "latest" -/
structure IdStrings (str : Nat → Bytes) : Prop where
  seg : ∀ n, SegOk (str n)
  inj : ∀ a b, str a = str b → a = b
  notLatest : ∀ n, str n ≠ sLatest

private theorem listed_any (s : Store) (box : Bytes) (m : Msg) (hm : m ∈ listing s box) :
    s.msgs.any (isMsg box m.id) = true := by
  have hm' : m ∈ s.msgs ∧ m.box = box := by
    simp only [listing, List.mem_filter, inBox, beq_iff_eq] at hm; exact hm
  exact List.any_eq_true.2 ⟨m, hm'.1, by simp [isMsg, hm'.2]⟩

private theorem sLatest_seg : SegOk sLatest := ⟨by decide, by decide, by decide, by decide⟩

private theorem route_box (base : List Bytes) (op : ClientOp) (hs : op.shape = .box) (name id id' : Bytes) :
    clientRoute base op name id = clientRoute base op name id' := by
  simp [clientRoute, clientWire, clientUri, hs]

/-- **mail_is_fetchable_through_client** (C04 + C14, over any store of any history).  Let `a` be an address RCPT
    accepts, with mailbox `r.mailbox`, and `x` any of the spellings a reader may use (`AsksFor`: the address, the
    canonical name, a re-casing, another or no `+ext`) that the client can carry.  Then through pkg/rest/client:
    `ListMailbox(x)` returns exactly the listing of `r.mailbox`; for every message `m` of that listing, asked for by
    its id string, `GetMessage` returns `m`, `GetMessageSource` its source bytes — nothing changes —, `MarkSeen` is the
    store's `seen` and `DeleteMessage` the store's `remove` of exactly that message of `r.mailbox`; `PurgeMailbox(x)` is
    the purge of `r.mailbox`.  (Store contract "missing ⇒ ErrNotExist"; `Inv` holds in every reachable store.) -/
theorem mail_is_fetchable_through_client (k : Model.Sys.Cfg) (hk : k.contract = .strict) (hip : IpCaseInsensitive k.ip)
    (halpha : IpAlphabet k.ip) (c : Cfg) (str : Nat → Bytes) (hstr : IdStrings str) (base : List Bytes)
    (hb : ∀ sg ∈ base, SegOk sg) (s : Store) (hs : Inv s) (a : Bytes) (r : Recipient)
    (ha : newRecipient k.ip k.naming a = some r) (x : Bytes) (hx : AsksFor k a r x)
    (hbytes : ∀ ch ∈ x, ch < 256) (hcar : ClientCarries x) :
    clientCallS (restEnv k) .byString str base .list s x [] =
      some (⟨.ok, .listing r.mailbox (listing s r.mailbox)⟩, s) ∧
    clientCallS (restEnv k) .byString str base .purge s x [] = some (rOK, (step c s (.purge r.mailbox)).1) ∧
    ∀ m ∈ listing s r.mailbox,
      clientCallS (restEnv k) .byString str base .get s x (str m.id) = some (⟨.ok, .message r.mailbox m⟩, s) ∧
      clientCallS (restEnv k) .byString str base .source s x (str m.id) = some (⟨.ok, .source m.source⟩, s) ∧
      clientCallS (restEnv k) .byString str base .markSeen s x (str m.id) =
        some (rOK, (step c s (.seen r.mailbox m.id)).1) ∧
      clientCallS (restEnv k) .byString str base .delete s x (str m.id) =
        some (rOK, (step c s (.remove r.mailbox m.id)).1) := by
  have hbox := asks_resolve k hip halpha a r ha x hx
  have hke : (restEnv k).contract = .strict := hk
  have hbox' : extractMailbox (restEnv k).ip (restEnv k).naming x = some r.mailbox := hbox
  obtain ⟨g1, g2⟩ := mail_is_fetchable k hk hip halpha s hs a r ha x hx
  have route := fun (op : ClientOp) (id : Bytes) (hid : SegOk id) =>
    (client_request_reaches_the_named_mailbox base hb op x id hbytes hid).2 hcar
  refine ⟨?_, ?_, ?_⟩
  · unfold clientCallS
    rw [route_box base .list rfl x [] sLatest, route .list sLatest sLatest_seg]
    simp only [ClientOp.handler, ClientOp.vars, ClientOp.shape, List.headD_nil, clientBody]
    unfold handleS
    rw [hbox']
    simp only
    rw [← g1]
    simp [handle, hbox']
  · unfold clientCallS
    rw [route_box base .purge rfl x [] sLatest, route .purge sLatest sLatest_seg]
    simp only [ClientOp.handler, ClientOp.vars, ClientOp.shape, List.headD_nil, clientBody]
    unfold handleS
    rw [hbox']
    simp only
    rw [rest_refines_spec (restEnv k) hke c .purgeV1 s _ r.mailbox hbox' (.purge r.mailbox) rfl (by simp [reachesStore])]
    simp [Ibx.Props.C14.respOf, step]
  · intro m hm
    have hl : Listed str s r.mailbox (str m.id) := ⟨m, hm, rfl⟩
    have hany := listed_any s r.mailbox m hm
    -- the request string names message `m.id`
    have named : ∀ (h : Handler) (body : Body),
        handleS (restEnv k) .byString str h s { name := x, id := str m.id, body := body } =
          handle (restEnv k) h s { name := x, id := .num m.id, body := body } := by
      intro h body
      obtain ⟨m', _, he, heq⟩ := listed_id_string_resolves (restEnv k) str h s
        { name := x, id := str m.id, body := body } r.mailbox hbox' (hstr.notLatest m.id) hl
      rw [heq, hstr.inj _ _ he]
    refine ⟨?_, ?_, ?_, ?_⟩
    · unfold clientCallS
      rw [route .get (str m.id) (hstr.seg m.id)]
      simp only [ClientOp.handler, ClientOp.vars, ClientOp.shape, List.headD_cons, clientBody]
      rw [named, ← (g2 m hm).1]
    · unfold clientCallS
      rw [route .source (str m.id) (hstr.seg m.id)]
      simp only [ClientOp.handler, ClientOp.vars, ClientOp.shape, List.headD_cons, clientBody]
      rw [named, ← (g2 m hm).2]
    · unfold clientCallS
      rw [route .markSeen (str m.id) (hstr.seg m.id)]
      simp only [ClientOp.handler, ClientOp.vars, ClientOp.shape, List.headD_cons, clientBody]
      rw [named, rest_refines_spec (restEnv k) hke c .seenV1 s _ r.mailbox hbox' (.seen r.mailbox m.id) rfl
        (by simp [reachesStore])]
      simp [Ibx.Props.C14.respOf, step, hany]
    · unfold clientCallS
      rw [route .delete (str m.id) (hstr.seg m.id)]
      simp only [ClientOp.handler, ClientOp.vars, ClientOp.shape, List.headD_cons, clientBody]
      rw [named, rest_refines_spec (restEnv k) hke c .deleteV1 s _ r.mailbox hbox' (.remove r.mailbox m.id) rfl
        (by simp [reachesStore])]
      simp [Ibx.Props.C14.respOf, step, hany]

/-- satisfiable: decimal-looking id strings ("n" as one digit byte), the address "Promo%2Bwinter+x@x.org" of the running
    configuration names mailbox "promo%2bwinter", and the reader's spelling "promo%2Bwinter@X.ORG" can be carried -/
example : newRecipient Props.Sys.exK.ip Props.Sys.exK.naming (ofAscii "Promo%2Bwinter+x@x.org") =
      some (Props.Sys.rcp "Promo%2Bwinter+x@x.org" "Promo%2Bwinter+x" "x.org" "promo%2bwinter") ∧
    AsksFor Props.Sys.exK (ofAscii "Promo%2Bwinter+x@x.org")
      (Props.Sys.rcp "Promo%2Bwinter+x@x.org" "Promo%2Bwinter+x" "x.org" "promo%2bwinter") (ofAscii "promo%2bWINTER+x@X.ORG") ∧
    ClientCarries (ofAscii "promo%2bWINTER+x@X.ORG") := by
  refine ⟨by decide, ?_, ⟨⟨by decide, by decide, by decide, by decide⟩, by decide⟩⟩
  exact .recased _ (Props.Sys.rcp "promo%2bWINTER+x@X.ORG" "promo%2bWINTER+x" "X.ORG" "promo%2bwinter") (by decide) (by decide)

/-- **client_mutation_touches_one_mailbox.**  What a client mutation changes is what the store operation changes: the
    listing of every OTHER mailbox is what it was — whichever spelling of the address the caller used. -/
theorem client_mutation_touches_one_mailbox (c : Cfg) (s : Store) (box : Bytes) (i : Nat) (b' : Bytes) (hb : b' ≠ box) :
    listing (step c s (.seen box i)).1 b' = listing s b' ∧
    listing (step c s (.remove box i)).1 b' = listing s b' ∧
    listing (step c s (.purge box)).1 b' = listing s b' := by
  have hother : ∀ m ∈ listing s b', isMsg box i m = false := by
    intro m hm
    simp only [listing, List.mem_filter, inBox, beq_iff_eq] at hm
    simp only [isMsg, Bool.and_eq_false_iff, beq_eq_false_iff_ne, ne_eq]
    left
    rw [hm.2]; exact hb
  refine ⟨?_, ?_, ?_⟩
  · rw [listing_seen]
    conv => rhs; rw [← List.map_id (listing s b')]
    apply List.map_congr_left
    intro m hm
    simp [mark_other box i m (hother m hm)]
  · rw [listing_remove, List.filter_eq_self]
    intro m hm
    simp [hother m hm]
  · rw [listing_purge, if_neg hb]

example : ([98] : Bytes) ≠ [97] := by decide

end Ibx.Props.C04Client
