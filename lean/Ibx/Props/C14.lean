import Ibx.Model.Rest
import Ibx.Lemmas.ClientUrl
/-
  C14 — REST / web APIs and the Go client report and change exactly the store's state.

  Part A (handlers over the store):   rest_refines_spec, reads_do_not_change, missing_is_404, handlers_total
                                      (+ the counter-examples under the OLD store contract `(nil, nil)`).
  Part B (client URL → router):       client_wire, client_round_trip, escaped_request_routes (RFC 3986 escaping),
                                      client_op_is_spec_op, and the counter-witnesses for every guard of
                                      client_round_trip: '/' in the name (= F-14c), ' ' in the name, the names
                                      "." and "..", the ids ".." and "".
-/
namespace Ibx.Props.C14
open Ibx Ibx.Bytes Ibx.Spec.Store Ibx.Model.Addr Ibx.Model.Rest Ibx.Model.ClientUrl Ibx.Lemmas.ClientUrl

/-! ## Part A — handlers -/

/-- the abstract-store operation a handler stands for (`none`: an id string no store ever handed out,
    or "latest" given to MarkSeen / RemoveMessage, which know no such id) -/
def specOp (h : Handler) (box : Bytes) (id : IdArg) : Option Op :=
  match h with
  | .listV1 => some (.list box)
  | .purgeV1 => some (.purge box)
  | .showV1 | .wMessage | .sourceV1 | .wSource | .wHtml | .wAttach =>
    match id with
    | .num n => some (.get box n)
    | .latest => some (.latest box)
    | .junk => none
  | .seenV1 => match id with | .num n => some (.seen box n) | _ => none
  | .deleteV1 => match id with | .num n => some (.remove box n) | _ => none
  | _ => none

/-- how a handler renders the abstract store's answer -/
def respOf (h : Handler) (rq : Req) (box : Bytes) : Out → Resp
  | .msgs l => ⟨.ok, .listing box l⟩
  | .msg m =>
    match h with
    | .showV1 | .wMessage => ⟨.ok, .message box m⟩
    | .sourceV1 | .wSource => ⟨.ok, .source m.source⟩
    | .wHtml => ⟨.ok, .html m⟩
    | .wAttach =>
      match rq.num with
      | .ok n => if n ≥ rq.natt then r500 else ⟨.ok, .attach m n⟩
      | .bad => r500
    | _ => r500
  | .ok => rOK
  | .notExist => r404
  | _ => r500

/-- requests whose outcome is decided before the store is consulted are excluded from the refinement
    statement: PATCH without `"seen": true` (500 / no-op 200) and a non-numeric attachment number (500) -/
def reachesStore (h : Handler) (rq : Req) : Prop :=
  (h = .seenV1 → rq.body = .seenTrue) ∧ (h = .wAttach → rq.num ≠ .bad)

/-- **rest_refines_spec.**  Under the store contract "missing ⇒ ErrNotExist", every handler answers and effects
    exactly what the abstract store does for the corresponding operation on the CANONICAL mailbox: the listing
    (ids, order, metadata, size, seen), the message, its source bytes; seen / delete / purge are the Spec
    operation.  (`c` is the store configuration, irrelevant to these operations.) -/
theorem rest_refines_spec (e : Env) (hk : e.contract = .strict) (c : Cfg) (h : Handler) (s : Store) (rq : Req)
    (box : Bytes) (hbox : extractMailbox e.ip e.naming rq.name = some box)
    (op : Op) (hop : specOp h box rq.id = some op) (hr : reachesStore h rq) :
    handle e h s rq = (respOf h rq box (step c s op).2.1, (step c s op).1) := by
  obtain ⟨hseen, hnum⟩ := hr
  cases h <;> simp only [specOp, reduceCtorEq] at hop
  case listV1 => cases hop; simp [handle, hbox, step, respOf]
  case purgeV1 => cases hop; simp [handle, hbox, step, respOf, mgrPurge]
  case seenV1 =>
    cases hid : rq.id <;> simp only [hid, reduceCtorEq] at hop
    cases hop
    have hb := hseen rfl
    simp only [handle, hbox, hb, mgrMarkSeen, hid, mutId, step, hk, missErr]
    split <;> simp [respOf, rOK, r404]
  case deleteV1 =>
    cases hid : rq.id <;> simp only [hid, reduceCtorEq] at hop
    cases hop
    simp only [handle, hbox, mgrRemove, hid, mutId, step, hk, missErr]
    split <;> simp [respOf, rOK, r404]
  case wAttach =>
    have hn := hnum rfl
    cases hnm : rq.num with
    | bad => exact absurd hnm hn
    | ok k =>
      cases hid : rq.id with
      | junk => simp [hid] at hop
      | num n =>
        simp only [hid] at hop; cases hop
        cases hf : s.msgs.find? (isMsg box n) <;>
          simp [handle, hbox, hnm, fetch, mgrGet, hid, step, hk, miss, hf, respOf, r404]
      | latest =>
        simp only [hid] at hop; cases hop
        cases hf : (listing s box).getLast? <;>
          simp [handle, hbox, hnm, fetch, mgrGet, hid, step, hk, miss, hf, respOf, r404]
  all_goals
    cases hid : rq.id with
    | junk => simp [hid] at hop
    | num n =>
      simp only [hid] at hop; cases hop
      cases hf : s.msgs.find? (isMsg box n) <;>
        simp [handle, hbox, fetch, mgrGet, hid, step, hk, miss, hf, respOf, r404]
    | latest =>
      simp only [hid] at hop; cases hop
      cases hf : (listing s box).getLast? <;>
        simp [handle, hbox, fetch, mgrGet, hid, step, hk, miss, hf, respOf, r404]

/-- the hypotheses of `rest_refines_spec` are satisfiable: GET /api/v1/mailbox/a/latest, local naming -/
example : ∃ box op, extractMailbox (fun _ => false) .localN [97] = some box ∧
    specOp .showV1 box .latest = some op ∧ reachesStore .showV1 { name := [97], id := .latest } :=
  ⟨[97], .latest [97], by decide, rfl, by simp [reachesStore]⟩

def isRead : Handler → Bool
  | .listV1 | .showV1 | .sourceV1 | .wMessage | .wHtml | .wSource | .wAttach => true
  | _ => false

/-- **reads_do_not_change.**  list / show / source and every web-UI endpoint leave the store as it is — under either
    contract, for every request (also those answered 404 / 500). -/
theorem reads_do_not_change (e : Env) (h : Handler) (hr : isRead h = true) (s : Store) (rq : Req) :
    (handle e h s rq).2 = s := by
  unfold handle
  split
  · rfl
  · cases h <;> simp [isRead] at hr <;> simp
    split <;> rfl

example : isRead .wAttach = true := rfl

/-- the request addresses a message the mailbox does not hold -/
def Missing (s : Store) (box : Bytes) : IdArg → Prop
  | .num n => s.msgs.any (isMsg box n) = false
  | .latest => listing s box = []
  | .junk => True

/-- handlers that address one message, and for which "latest" is the newest message -/
def isFetch : Handler → Bool
  | .showV1 | .sourceV1 | .wMessage | .wHtml | .wSource | .wAttach => true
  | _ => false

private theorem find_none_of_any_false (l : List Msg) (p : Msg → Bool) (h : l.any p = false) : l.find? p = none := by
  induction l with
  | nil => rfl
  | cons m rest ih =>
    simp only [List.any_cons, Bool.or_eq_false_iff] at h
    simp [List.find?_cons, h.1, ih h.2]

/-- **missing_is_404.**  With the contract "missing ⇒ ErrNotExist": get / source / web-UI message, html, source,
    attachment of a missing id — and `latest` on an empty mailbox — are answered 404; so are PATCH {"seen":true} and
    DELETE of a missing id (and of the literal "latest"); none of them changes the store. -/
theorem missing_is_404 (e : Env) (hk : e.contract = .strict) (h : Handler) (s : Store) (rq : Req) (box : Bytes)
    (hbox : extractMailbox e.ip e.naming rq.name = some box)
    (hh : (isFetch h = true ∧ Missing s box rq.id) ∨
          ((h = .seenV1 ∨ h = .deleteV1) ∧ (Missing s box rq.id ∨ rq.id = .latest)))
    (hr : reachesStore h rq) :
    handle e h s rq = (r404, s) := by
  obtain ⟨hseen, hnum⟩ := hr
  have getMiss : Missing s box rq.id → mgrGet e.contract s box rq.id = .notExist := by
    intro hm
    cases hid : rq.id with
    | num n =>
      rw [hid] at hm
      simp [mgrGet, find_none_of_any_false _ _ hm, hk, miss]
    | latest =>
      rw [hid] at hm
      simp only [Missing] at hm
      simp [mgrGet, hm, hk, miss]
    | junk => simp [mgrGet, hk, miss]
  rcases hh with ⟨hf, hm⟩ | ⟨hsd, hm⟩
  · have hg := getMiss hm
    cases h <;> simp [isFetch] at hf <;> simp only [handle, hbox, fetch, hg]
    cases hnm : rq.num with
    | bad => exact absurd hnm (hnum rfl)
    | ok n => simp
  · have hmut : mutId rq.id = none ∨ ∃ n, rq.id = .num n ∧ s.msgs.any (isMsg box n) = false := by
      rcases hm with hm | hm
      · cases hid : rq.id with
        | num n => rw [hid] at hm; exact Or.inr ⟨n, rfl, hm⟩
        | latest => exact Or.inl rfl
        | junk => exact Or.inl rfl
      · exact Or.inl (by rw [hm]; rfl)
    rcases hsd with rfl | rfl
    · have hb := hseen rfl
      rcases hmut with hn | ⟨n, hid, hany⟩
      · simp [handle, hbox, hb, mgrMarkSeen, hn, hk, missErr]
      · simp [handle, hbox, hb, mgrMarkSeen, hid, mutId, hany, hk, missErr]
    · rcases hmut with hn | ⟨n, hid, hany⟩
      · simp [handle, hbox, mgrRemove, hn, hk, missErr]
      · simp [handle, hbox, mgrRemove, hid, mutId, hany, hk, missErr]

/-- satisfiable: DELETE /api/v1/mailbox/a/7 on the empty store -/
example : extractMailbox (fun _ => false) .localN [97] = some [97] ∧ Missing Spec.Store.empty [97] (.num 7) ∧
    reachesStore .deleteV1 { name := [97], id := .num 7 } := ⟨by decide, rfl, by simp [reachesStore]⟩

/-- **handlers_total.**  With the contract "missing ⇒ ErrNotExist" no request makes any handler dereference a nil
    message or read a nil reader: every outcome is 200, 404 or 500, for every handler, store, name, id, body. -/
theorem handlers_total (e : Env) (hk : e.contract = .strict) (h : Handler) (s : Store) (rq : Req) :
    (handle e h s rq).1.status ≠ .panic := by
  have hget : ∀ box id, mgrGet e.contract s box id ≠ .nilNil := by
    intro box id
    cases id <;> simp only [mgrGet, hk, miss] <;> (try split) <;> simp
  have hfetch : ∀ h box id (render : Msg → Resp), (∀ m, (render m).status ≠ .panic) →
      (fetch e h s box id render).status ≠ .panic := by
    intro h box id render hrd
    unfold fetch
    have := hget box id
    split
    · exact hrd _
    · simp [r404]
    · contradiction
  unfold handle
  split
  · simp [r500]
  · cases h <;> simp only
    case listV1 | purgeV1 => simp [rOK]
    case showV1 | wMessage | sourceV1 | wSource | wHtml => exact hfetch _ _ _ _ (fun m => by simp)
    case wAttach =>
      split
      · simp [r500]
      · exact hfetch _ _ _ _ (fun m => by split <;> simp [r500])
    case seenV1 =>
      split
      · simp [r500]
      · simp [rOK]
      · generalize mgrMarkSeen e.contract s _ rq.id = r
        obtain ⟨s', b⟩ := r
        cases b <;> simp [rOK, r404]
    case deleteV1 =>
      generalize mgrRemove e.contract s _ rq.id = r
      obtain ⟨s', b⟩ := r
      cases b <;> simp [rOK, r404]
    all_goals simp [r404]

example : (⟨fun _ => false, .localN, .strict⟩ : Env).contract = .strict := rfl

def oldEnv : Env := ⟨fun _ => false, .localN, .nilNil⟩

/-- **handlers_panic_old_contract** (counter-example, F-14a): when a store answers `(nil, nil)` for a missing id,
    GET /serve/mailbox/a/x/html (and …/source, …/attach/0/f) dereference nil — the connection is dropped. -/
theorem handlers_panic_old_contract :
    (handle oldEnv .wHtml Spec.Store.empty { name := [97], id := .junk }).1.status = .panic ∧
    (handle oldEnv .wSource Spec.Store.empty { name := [97], id := .junk }).1.status = .panic ∧
    (handle oldEnv .wAttach Spec.Store.empty { name := [97], id := .junk, num := .ok 0 }).1.status = .panic := by
  decide

/-- (counter-example, F-14a) under the old contract DELETE of a missing id answers 200 "OK", while the guarded
    handlers (REST show / source, web-UI message) still answer 404 -/
theorem delete_missing_200_old_contract :
    (handle oldEnv .deleteV1 Spec.Store.empty { name := [97], id := .num 3 }).1 = rOK ∧
    (handle oldEnv .showV1 Spec.Store.empty { name := [97], id := .num 3 }).1 = r404 := by
  decide

/-- a name `ExtractMailbox` rejects is a 500 from every handler, with no effect (the code: `return err`) -/
theorem bad_name_is_500 (e : Env) (h : Handler) (s : Store) (rq : Req)
    (hbad : extractMailbox e.ip e.naming rq.name = none) : handle e h s rq = (r500, s) := by
  simp [handle, hbad]

example : extractMailbox (fun _ => false) .localN [46, 46] = none := by decide

/-! ## Part B — the client's URL and the server's router -/

/-- a mailbox name the client can address: real bytes, no '/', no ' ', not "", ".", ".." -/
structure NameOk (name : Bytes) : Prop where
  bytes : ∀ c ∈ name, c < 256
  noSlash : 47 ∉ name
  noSpace : 32 ∉ name
  ne : name ≠ []
  notDot : name ≠ dot
  notDotDot : name ≠ dotdot

/-- a path segment used literally (message ids, base-path segments): unreserved bytes, not "", ".", ".." -/
structure SegOk (s : Bytes) : Prop where
  bytes : ∀ c ∈ s, c < 256 ∧ isUnreservedB c = true
  ne : s ≠ []
  notDot : s ≠ dot
  notDotDot : s ≠ dotdot

def segsOf (sh : Shape) (nm id : Bytes) : List Bytes :=
  match sh with
  | .box => [sApi, sV1, sMailbox, nm]
  | .msg => [sApi, sV1, sMailbox, nm, id]
  | .source => [sApi, sV1, sMailbox, nm, id, sSource]

/-- a segment that survives path cleaning and splitting -/
def Clean (s : Bytes) : Prop := s ≠ [] ∧ s ≠ dot ∧ s ≠ dotdot ∧ 47 ∉ s

theorem SegOk.clean {s : Bytes} (h : SegOk s) : Clean s :=
  ⟨h.ne, h.notDot, h.notDotDot, fun hm => (unreserved_table 47 (by omega) (h.bytes 47 hm).2).2.1 rfl⟩

theorem SegOk.noPct {s : Bytes} (h : SegOk s) : 37 ∉ s :=
  fun hm => (unreserved_table 37 (by omega) (h.bytes 37 hm).2).1 rfl

theorem lit_clean : Clean sApi ∧ Clean sV1 ∧ Clean sMailbox ∧ Clean sSource := by
  simp [Clean, sApi, sV1, sMailbox, sSource, dot, dotdot]

/-- an escaped name is a clean segment -/
theorem esc_clean (keep : Nat → Bool) (hk : ∀ c < 256, keep c = true → c ≠ 37 ∧ c ≠ 47) (name : Bytes)
    (hb : ∀ c ∈ name, c < 256) (hne : name ≠ []) (hd : name ≠ dot) (hdd : name ≠ dotdot) :
    Clean (escWith keep name) :=
  ⟨escWith_ne keep hk name hb [] unescape_nil hne, escWith_ne keep hk name hb dot unescape_dot hd,
   escWith_ne keep hk name hb dotdot unescape_dotdot hdd, noslash_escWith keep hk name hb⟩

theorem segs_clean (sh : Shape) (nm id : Bytes) (hn : Clean nm) (hi : Clean id) : ∀ s ∈ segsOf sh nm id, Clean s := by
  obtain ⟨h1, h2, h3, h4⟩ := lit_clean
  cases sh <;> simp [segsOf] <;> simp_all

theorem clientUri_render (sh : Shape) (name id : Bytes) :
    clientUri sh name id = render (segsOf sh (queryEscape name) id) := by
  cases sh <;> simp [clientUri, segsOf, render, uriPrefix]

/-- JoinPath of a clean base and a clean URI is their concatenation -/
theorem joinPath_clean (base segs : List Bytes) (hb : ∀ s ∈ base, Clean s) (hs : ∀ s ∈ segs, Clean s) (hne : segs ≠ []) :
    joinPath base (render segs) = render (base ++ segs) := by
  have hall : ∀ s ∈ base ++ segs, s ≠ [] ∧ s ≠ dot ∧ s ≠ dotdot ∧ 47 ∉ s := by
    intro s hm
    rcases List.mem_append.mp hm with h | h
    · exact hb s h
    · exact hs s h
  have hlast : (render segs).getLast? ≠ some 47 :=
    render_getLast segs hne (fun s h => ⟨(hs s h).1, (hs s h).2.2.2⟩)
  have hsplit : cleanGo [] (splitSlash ((if base.isEmpty then [47] else render base) ++ 47 :: render segs)) = base ++ segs := by
    rw [splitSlash_append, splitSlash_render segs (fun t h => (hs t h).2.2.2)]
    by_cases hbe : base = []
    · subst hbe
      simp only [List.isEmpty_nil, if_true, List.nil_append]
      have : splitSlash [47] = [[], []] := by decide
      rw [this, cleanGo_filter]
      · simp only [List.reverse_nil, List.nil_append]
        have := filter_nonempty_id segs (fun s h => (hs s h).1)
        simp [List.filter_cons, this]
      · intro s hm
        simp only [List.cons_append, List.nil_append, List.mem_cons] at hm
        rcases hm with rfl | rfl | rfl | hm
        · simp [dot, dotdot]
        · simp [dot, dotdot]
        · simp [dot, dotdot]
        · exact ⟨(hs s hm).2.1, (hs s hm).2.2.1⟩
    · have hie : base.isEmpty = false := by cases base <;> simp_all
      simp only [hie, Bool.false_eq_true, if_false]
      rw [splitSlash_render base (fun t h => (hb t h).2.2.2), cleanGo_filter]
      · simp only [List.reverse_nil, List.nil_append]
        have h1 := filter_nonempty_id base (fun s h => (hb s h).1)
        have h2 := filter_nonempty_id segs (fun s h => (hs s h).1)
        simp [List.filter_cons, List.filter_append, h1, h2]
      · intro s hm
        simp only [List.cons_append, List.mem_cons, List.mem_append] at hm
        rcases hm with rfl | hm | rfl | hm
        · simp [dot, dotdot]
        · exact ⟨(hb s hm).2.1, (hb s hm).2.2.1⟩
        · simp [dot, dotdot]
        · exact ⟨(hs s hm).2.1, (hs s hm).2.2.1⟩
  have hne2 : base ++ segs ≠ [] := by simp [hne]
  unfold joinPath
  simp only
  have hpc : pathClean ((if base.isEmpty then [47] else render base) ++ 47 :: render segs) = render (base ++ segs) := by
    unfold pathClean
    rw [hsplit]
    cases hbs : base ++ segs with
    | nil => exact absurd hbs hne2
    | cons x xs => rfl
  rw [hpc]
  have : ((render segs).getLast? == some 47) = false := by simpa using hlast
  simp [this]

/-- the request path of a clean segment list is routed on exactly those segments -/
theorem serverRoute_clean (base segs dsegs : List Bytes) (m : Method) (hb : ∀ s ∈ base, Clean s)
    (hd : ∀ s ∈ dsegs, Clean s) (hne : dsegs ≠ [])
    (hdec : unescape (render (base ++ segs)) = some (render (base ++ dsegs))) :
    serverRoute base m (render (base ++ segs)) =
      match firstHit m dsegs routeTable with
      | some (h, vs) => .hit h vs
      | none => .notFound := by
  have hall : ∀ s ∈ base ++ dsegs, s ≠ [] ∧ s ≠ dot ∧ s ≠ dotdot ∧ 47 ∉ s := by
    intro s hm
    rcases List.mem_append.mp hm with h | h
    · exact hb s h
    · exact hd s h
  have hne2 : base ++ dsegs ≠ [] := by simp [hne]
  have hclean : muxCleanPath (render (base ++ dsegs)) = render (base ++ dsegs) := by
    unfold muxCleanPath
    have hh : (render (base ++ dsegs)).head? = some 47 := by
      cases hbs : base ++ dsegs with
      | nil => exact absurd hbs hne2
      | cons x xs => simp [render]
    have hl := render_getLast (base ++ dsegs) hne2 (fun s h => ⟨(hall s h).1, (hall s h).2.2.2⟩)
    have hl' : ((render (base ++ dsegs)).getLast? == some 47) = false := by simpa using hl
    simp [hh, pathClean_render _ hne2 hall, hl']
  have hstrip : ∀ (b : List Bytes), stripBase b (b ++ dsegs) = some dsegs := by
    intro b
    induction b with
    | nil => cases dsegs <;> rfl
    | cons x xs ih => simp [stripBase, ih]
  unfold serverRoute
  rw [hdec]
  simp only [hclean, bne_self_eq_false, Bool.false_eq_true, if_false,
    splitSlash_render _ (fun t h => (hall t h).2.2.2), hstrip]
  rfl

/-- decoding a rendered path segment by segment -/
theorem unescape_render (pairs : List (Bytes × Bytes)) (h : ∀ p ∈ pairs, ∀ rest, unescape (p.1 ++ rest) = (unescape rest).map (fun t => p.2 ++ t)) :
    unescape (render (pairs.map (·.1))) = some (render (pairs.map (·.2))) := by
  induction pairs with
  | nil => rfl
  | cons p ps ih =>
    have ih' := ih (fun q hq => h q (by simp [hq]))
    have h1 : render ((p :: ps).map (·.1)) = 47 :: (p.1 ++ render (ps.map (·.1))) := by simp [render]
    have h2 : render ((p :: ps).map (·.2)) = 47 :: (p.2 ++ render (ps.map (·.2))) := by simp [render]
    rw [h1, h2, unescape_cons_ne 47 _ (by omega), h p (by simp), ih']
    simp

/-- routing of the three path shapes: which handler, which variables -/
theorem firstHit_shapes (op : ClientOp) (name id : Bytes) (hn : name ≠ []) (hi : id ≠ []) :
    firstHit op.method (segsOf op.shape name id) routeTable = some (op.handler, op.vars name id) := by
  have hn' : name.isEmpty = false := by cases name <;> simp_all
  have hi' : id.isEmpty = false := by cases id <;> simp_all
  cases op <;>
    simp [firstHit, routeTable, matchRoute, matchTpl, segsOf, ClientOp.method, ClientOp.shape, ClientOp.handler,
      ClientOp.vars, sApi, sServe, sV1, sV2, sMailbox, sSource, sHtml, sAttach, sMonitor, sMessages, sGreeting,
      sStatus, hn', hi']

/-- one percent-decode of an escaped request path gives back the plain segments -/
private theorem decode_path (keep : Nat → Bool) (hk : ∀ c < 256, keep c = true → c ≠ 37 ∧ c ≠ 47)
    (base : List Bytes) (hb : ∀ s ∈ base, SegOk s) (sh : Shape) (name id : Bytes)
    (hbytes : ∀ c ∈ name, c < 256) (hid : SegOk id) :
    unescape (render (base ++ segsOf sh (escWith keep name) id)) = some (render (base ++ segsOf sh name id)) := by
  have hlit : ∀ (l : Bytes), 37 ∉ l → ∀ rest, unescape (l ++ rest) = (unescape rest).map (fun t => l ++ t) :=
    fun l hl rest => unescape_lit_append l rest hl
  have hesc : ∀ rest, unescape (escWith keep name ++ rest) = (unescape rest).map (fun t => name ++ t) :=
    fun rest => unescape_escWith keep hk name hbytes rest
  have hL : ∀ l : Bytes, 37 ∉ l → ∀ rest, unescape ((l, l).1 ++ rest) = (unescape rest).map (fun t => (l, l).2 ++ t) :=
    fun l hl rest => hlit l hl rest
  have h1 : (37 : Nat) ∉ sApi := by decide
  have h2 : (37 : Nat) ∉ sV1 := by decide
  have h3 : (37 : Nat) ∉ sMailbox := by decide
  have h4 : (37 : Nat) ∉ sSource := by decide
  have key := unescape_render
    (base.map (fun s => (s, s)) ++
      (match sh with
       | .box => [(sApi, sApi), (sV1, sV1), (sMailbox, sMailbox), (escWith keep name, name)]
       | .msg => [(sApi, sApi), (sV1, sV1), (sMailbox, sMailbox), (escWith keep name, name), (id, id)]
       | .source => [(sApi, sApi), (sV1, sV1), (sMailbox, sMailbox), (escWith keep name, name), (id, id), (sSource, sSource)]))
    (by
      intro p hp rest
      rcases List.mem_append.mp hp with hp | hp
      · obtain ⟨s, hs, rfl⟩ := List.mem_map.mp hp
        exact hlit s (hb s hs).noPct rest
      · cases sh <;> simp only [List.mem_cons, List.mem_nil_iff, or_false] at hp
        · rcases hp with rfl | rfl | rfl | rfl
          · exact hL _ h1 rest
          · exact hL _ h2 rest
          · exact hL _ h3 rest
          · exact hesc rest
        · rcases hp with rfl | rfl | rfl | rfl | rfl
          · exact hL _ h1 rest
          · exact hL _ h2 rest
          · exact hL _ h3 rest
          · exact hesc rest
          · exact hL _ hid.noPct rest
        · rcases hp with rfl | rfl | rfl | rfl | rfl | rfl
          · exact hL _ h1 rest
          · exact hL _ h2 rest
          · exact hL _ h3 rest
          · exact hesc rest
          · exact hL _ hid.noPct rest
          · exact hL _ h4 rest)
  cases sh <;> simpa [segsOf, Function.comp_def] using key

/-- **escaped_request_routes.**  For ANY percent-escaper that keeps neither '%' nor '/' (url.QueryEscape on names
    without a space, url.PathEscape = RFC 3986 path-segment escaping, full escaping …): a request whose path is
    base + /api/v1/mailbox/ + esc(name) [+ /id [+ /source]] reaches the intended handler with exactly
    (name, id) as variables — also for names containing '%' followed by hex digits, '?', '#', '+', '&', '=', ';',
    '@', ':' — provided the name contains no '/' and is not "", ".", "..". -/
theorem escaped_request_routes (keep : Nat → Bool) (hk : ∀ c < 256, keep c = true → c ≠ 37 ∧ c ≠ 47)
    (base : List Bytes) (hb : ∀ s ∈ base, SegOk s) (op : ClientOp) (name id : Bytes)
    (hbytes : ∀ c ∈ name, c < 256) (hslash : 47 ∉ name) (hne : name ≠ []) (hd : name ≠ dot) (hdd : name ≠ dotdot)
    (hid : SegOk id) :
    serverRoute base op.method (render (base ++ segsOf op.shape (escWith keep name) id)) =
      .hit op.handler (op.vars name id) := by
  have hbc : ∀ s ∈ base, Clean s := fun s h => (hb s h).clean
  have hnc : Clean name := ⟨hne, hd, hdd, hslash⟩
  have hdec := decode_path keep hk base hb op.shape name id hbytes hid
  have hsegs : segsOf op.shape name id ≠ [] := by cases op.shape <;> simp [segsOf]
  rw [serverRoute_clean base _ (segsOf op.shape name id) op.method hbc (segs_clean _ _ _ hnc hid.clean) hsegs hdec,
    firstHit_shapes op name id hne hid.ne]

/-- satisfiable, with a name full of URL-significant bytes: "a%41?#+&=;@:b", base path /pre, id "latest" -/
example : SegOk [112, 114, 101] ∧ SegOk sLatest ∧
    (47 : Nat) ∉ [97, 37, 52, 49, 63, 35, 43, 38, 61, 59, 64, 58, 98] := by
  refine ⟨⟨by decide, by decide, by decide, by decide⟩, ⟨by decide, by decide, by decide, by decide⟩, by decide⟩

/-- **client_wire.**  The path pkg/rest/client puts on the wire: nothing is cleaned away, the name appears
    QueryEscaped. -/
theorem client_wire (base : List Bytes) (hb : ∀ s ∈ base, SegOk s) (sh : Shape) (name id : Bytes)
    (hn : NameOk name) (hid : SegOk id) :
    clientWire base sh name id = some (render (base ++ segsOf sh (queryEscape name) id)) := by
  have hq := queryEscape_eq name hn.noSpace
  have hqc : Clean (queryEscape name) := by
    rw [hq]; exact esc_clean _ unreserved_table' name hn.bytes hn.ne hn.notDot hn.notDotDot
  have hsc := segs_clean sh _ id hqc hid.clean
  have hsegs : segsOf sh (queryEscape name) id ≠ [] := by cases sh <;> simp [segsOf]
  have hj := joinPath_clean base _ (fun s h => (hb s h).clean) hsc hsegs
  have hdec := decode_path _ unreserved_table' base hb sh name id hn.bytes hid
  rw [← hq] at hdec
  unfold clientWire
  simp only [clientUri_render, hj, hdec, Option.isSome_some, if_true]

/-- **client_round_trip.**  For every mailbox name without '/' and ' ' (and not "", ".", ".." — no such name can
    receive mail) and every id made of unreserved bytes (store ids, "latest"), under any clean base path, every
    operation of the bundled client reaches exactly the handler its name says, with exactly (name, id) as the
    route variables: `route (clientPath name id) = some (name, id)`. -/
theorem client_round_trip (base : List Bytes) (hb : ∀ s ∈ base, SegOk s) (op : ClientOp) (name id : Bytes)
    (hn : NameOk name) (hid : SegOk id) :
    clientRoute base op name id = some (.hit op.handler (op.vars name id)) := by
  unfold clientRoute
  rw [client_wire base hb op.shape name id hn hid, queryEscape_eq name hn.noSpace]
  simp only [Option.map_some]
  rw [escaped_request_routes _ unreserved_table' base hb op name id hn.bytes hn.noSlash hn.ne hn.notDot hn.notDotDot hid]

/-- satisfiable: mailbox "we!rd#$%&'*=?^_`{|}~@ex.org" -/
example : NameOk [119, 101, 33, 114, 100, 35, 36, 37, 38, 39, 42, 61, 63, 94, 95, 96, 123, 124, 125, 126, 64, 101, 120, 46, 111, 114, 103] :=
  ⟨by decide, by decide, by decide, by decide, by decide, by decide⟩

/-- what a client call does to the store and what the server answers (`none`: nothing was sent, or the router
    answered by itself: 301 / 400 / 404 / 405) -/
def clientBody : ClientOp → Body
  | .markSeen => .seenTrue          -- the body `{"seen":true}` (tied by Tie.Rest.clientMarkSeenBody_tie)
  | _ => .absent

def clientCall (e : Env) (dec : Bytes → Option Nat) (base : List Bytes) (op : ClientOp) (s : Store) (name id : Bytes) :
    Option (Resp × Store) :=
  match clientRoute base op name id with
  | some (.hit h (nm :: rest)) =>
    some (handle e h s { name := nm, id := idArg dec (rest.headD []), body := clientBody op })
  | _ => none

/-- **client_op_is_spec_op.**  For every name the round trip holds for, each client operation is the Spec operation
    of its name on the canonical mailbox: ListMailbox = the listing, GetMessage = that message, GetMessageSource =
    its bytes, MarkSeen sets the flag, DeleteMessage removes exactly it, PurgeMailbox empties the mailbox — and a
    missing id is a 404. -/
theorem client_op_is_spec_op (e : Env) (hk : e.contract = .strict) (c : Cfg) (dec : Bytes → Option Nat)
    (base : List Bytes) (hb : ∀ s ∈ base, SegOk s) (op : ClientOp) (s : Store) (name id : Bytes)
    (hn : NameOk name) (hid : SegOk id) (box : Bytes) (hbox : extractMailbox e.ip e.naming name = some box)
    (sop : Op) (hop : specOp op.handler box (idArg dec id) = some sop) :
    clientCall e dec base op s name id =
      some (respOf op.handler { name := name } box (step c s sop).2.1, (step c s sop).1) := by
  unfold clientCall
  rw [client_round_trip base hb op name id hn hid]
  have hv : op.vars name id = [name] ∨ op.vars name id = [name, id] := by
    cases op <;> simp [ClientOp.vars, ClientOp.shape]
  have hreach : reachesStore op.handler { name := name, id := idArg dec id, body := clientBody op } := by
    cases op <;> simp [reachesStore, ClientOp.handler, clientBody]
  have hnotAttach : op.handler ≠ .wAttach := by cases op <;> simp [ClientOp.handler]
  have hresp : ∀ (rq : Req) o, respOf op.handler rq box o = respOf op.handler { name := name } box o := by
    intro rq o
    cases op <;> cases o <;> simp [respOf, ClientOp.handler]
  rcases hv with hv | hv
  · have hboxshape : op.handler = .listV1 ∨ op.handler = .purgeV1 := by
      cases op <;> simp_all [ClientOp.vars, ClientOp.shape, ClientOp.handler]
    rw [hv]
    simp only [List.headD_nil]
    have hop' : specOp op.handler box (idArg dec []) = some sop := by
      rcases hboxshape with h | h <;> rw [h] at hop ⊢ <;> simpa [specOp] using hop
    have hreach' : reachesStore op.handler { name := name, id := idArg dec [], body := clientBody op } := by
      rcases hboxshape with h | h <;> simp [reachesStore, h]
    rw [rest_refines_spec e hk c op.handler s _ box hbox sop hop' hreach', hresp]
  · rw [hv]
    simp only [List.headD_cons]
    rw [rest_refines_spec e hk c op.handler s _ box hbox sop hop hreach, hresp]

/-- the bytes `parseMailboxName` lets through are real bytes and none of them is a space -/
private theorem nameCharOk_bytes (c : Nat) (h : nameCharOk c = true) : c < 256 ∧ c ≠ 32 := by
  simp only [nameCharOk, isLowerB, isDigitB, isNameSpecialB, isSpecialB, Bool.or_eq_true, Bool.and_eq_true,
    decide_eq_true_eq, beq_iff_eq] at h
  omega

/-- **canonical_local_name_ok.**  "Every mailbox name that can receive mail" meets the guard of the round trip except
    for '/': under local naming (the default) every name `ExtractMailbox` produces consists of real bytes without a
    space and is not "", "." or ".." — so the ONLY canonical names the client cannot address are those containing '/'. -/
theorem canonical_local_name_ok (ip : Bytes → Bool) (a name : Bytes)
    (h : extractMailbox ip .localN a = some name) (hs : 47 ∉ name) : NameOk name := by
  unfold extractMailbox at h
  simp only at h
  split at h
  · simp at h
  · rename_i l d _
    split at h
    · simp at h
    · rename_i l' hl'
      split at h
      · simp at h
      · rename_i hshape
        simp only [beq_self_eq_true, if_true, Option.some.injEq] at h
        subst h
        have hshape' : nameShapeOk l' = true := by simpa using hshape
        simp only [nameShapeOk, Bool.and_eq_true, Bool.not_eq_true', bne_iff_ne, ne_eq] at hshape'
        obtain ⟨⟨⟨hne, hhead⟩, _⟩, _⟩ := hshape'
        have hne' : l' ≠ [] := by cases l' <;> simp_all
        unfold parseMailboxName at hl'
        split at hl'
        · simp at hl'
        · simp only at hl'
          split at hl'
          · simp only [Option.some.injEq] at hl'
            rename_i hall
            have hb : ∀ c ∈ l', c < 256 ∧ c ≠ 32 := by
              intro c hc
              rw [← hl'] at hc
              have hc' := (List.takeWhile_sublist _).subset hc
              exact nameCharOk_bytes c (List.all_eq_true.mp hall c hc')
            refine ⟨fun c hc => (hb c hc).1, hs, fun h32 => (hb 32 h32).2 rfl, hne', ?_, ?_⟩
            · intro hd; rw [hd] at hhead; simp [dot] at hhead
            · intro hd; rw [hd] at hhead; simp [dotdot] at hhead
          · simp at hl'

/-- satisfiable: RCPT TO:<We!rd#x+tag@example.com> names the mailbox "we!rd#x" -/
example : extractMailbox (fun _ => false) .localN
    [87, 101, 33, 114, 100, 35, 120, 43, 116, 97, 103, 64, 101, 120, 97, 109, 112, 108, 101, 46, 99, 111, 109] =
    some [119, 101, 33, 114, 100, 35, 120] := by decide +kernel

/-! ### counter-witnesses: every guard of `client_round_trip` is forced -/

def bA : Bytes := [97]
def bB : Bytes := [98]
def b1 : Bytes := [49]

/-- **client_round_trip_fails_on_slash** (F-14c).  Mailbox "a/b" (RCPT TO:<a/b@d>): the client's ListMailbox("a/b")
    sends /api/v1/mailbox/a%2Fb, which the server decodes and routes as "message b of mailbox a"; GetMessage,
    MarkSeen, DeleteMessage, GetMessageSource of ("a/b", "1") match no route (404); and PurgeMailbox("a/1") is
    routed to MailboxDeleteV1 with (a, 1): it DELETES message 1 of mailbox "a" and reports success. -/
theorem client_round_trip_fails_on_slash :
    clientRoute [] .list (bA ++ 47 :: bB) [] = some (.hit .showV1 [bA, bB]) ∧
    clientRoute [] .get (bA ++ 47 :: bB) b1 = some .notFound ∧
    clientRoute [] .markSeen (bA ++ 47 :: bB) b1 = some .notFound ∧
    clientRoute [] .delete (bA ++ 47 :: bB) b1 = some .notFound ∧
    clientRoute [] .source (bA ++ 47 :: bB) b1 = some .notFound ∧
    clientRoute [] .purge (bA ++ 47 :: b1) [] = some (.hit .deleteV1 [bA, b1]) := by
  decide +kernel

theorem splitSlash_noslash_segs (p : Bytes) : ∀ seg ∈ splitSlash p, 47 ∉ seg := by
  induction p with
  | nil => simp [splitSlash]
  | cons c rest ih =>
    by_cases hc : c = 47
    · subst hc
      rw [splitSlash_slash]
      intro seg hs
      simp only [List.mem_cons] at hs
      rcases hs with rfl | hs
      · simp
      · exact ih seg hs
    · cases h : splitSlash rest with
      | nil => exact absurd h (splitSlash_ne_nil rest)
      | cons sg more =>
        rw [splitSlash_cons_ne c rest hc sg more h]
        rw [h] at ih
        intro seg hs
        simp only [List.mem_cons] at hs
        rcases hs with rfl | hs
        · have := ih sg (by simp)
          simp only [List.mem_cons, not_or]
          exact ⟨fun h => hc h.symm, this⟩
        · exact ih seg (by simp [hs])

theorem stripBase_sub (base segs out : List Bytes) (h : stripBase base segs = some out) : ∀ s ∈ out, s ∈ segs := by
  induction base generalizing segs with
  | nil => cases segs <;> simp_all [stripBase]
  | cons b bs ih =>
    cases segs with
    | nil => simp [stripBase] at h
    | cons x xs =>
      simp only [stripBase] at h
      split at h
      · intro s hs; exact List.mem_cons_of_mem _ (ih xs h s hs)
      · simp at h

theorem matchTpl_sub (tpl : List TSeg) (segs vs : List Bytes) (h : matchTpl tpl segs = some vs) : ∀ v ∈ vs, v ∈ segs := by
  induction tpl generalizing segs vs with
  | nil => cases segs <;> simp_all [matchTpl]
  | cons t ts ih =>
    cases segs with
    | nil => cases t <;> simp [matchTpl] at h
    | cons x xs =>
      cases t with
      | lit b =>
        simp only [matchTpl] at h
        split at h
        · intro v hv; exact List.mem_cons_of_mem _ (ih xs vs h v hv)
        · simp at h
      | var =>
        simp only [matchTpl] at h
        split at h
        · simp at h
        · cases hm : matchTpl ts xs with
          | none => simp [hm] at h
          | some ws =>
            simp only [hm, Option.map_some, Option.some.injEq] at h
            subst h
            intro v hv
            simp only [List.mem_cons] at hv
            rcases hv with rfl | hv
            · simp
            · exact List.mem_cons_of_mem _ (ih xs ws hm v hv)

theorem firstHit_sub (m : Method) (segs : List Bytes) (rs : List Route) (h : Handler) (vs : List Bytes)
    (hh : firstHit m segs rs = some (h, vs)) : ∀ v ∈ vs, v ∈ segs := by
  induction rs with
  | nil => simp [firstHit] at hh
  | cons r rest ih =>
    simp only [firstHit] at hh
    split at hh
    · rename_i ws hm
      split at hh
      · simp only [Option.some.injEq, Prod.mk.injEq] at hh
        obtain ⟨_, rfl⟩ := hh
        intro v hv
        have := matchTpl_sub _ _ _ hm v hv
        exact this
      · exact ih hh
    · exact ih hh

/-- **no_path_reaches_slash_name.**  RFC 3986 escaping does not help: the path is percent-decoded before it is
    routed, whoever sends it, and a route variable is one '/'-free segment of the DECODED path — so no request
    whatsoever (any method, any path, any escaping) reaches a mailbox handler with a name containing '/'. -/
theorem no_path_reaches_slash_name (base : List Bytes) (m : Method) (wire : Bytes) (h : Handler) (vars : List Bytes)
    (hr : serverRoute base m wire = .hit h vars) : ∀ v ∈ vars, 47 ∉ v := by
  unfold serverRoute at hr
  split at hr
  · simp at hr
  · rename_i p hp
    split at hr
    · simp at hr
    · split at hr
      · rename_i segs hsp
        split at hr
        · simp at hr
        · rename_i segs' hst
          split at hr
          · rename_i h' vs hf
            simp only [RouteRes.hit.injEq] at hr
            obtain ⟨_, rfl⟩ := hr
            intro v hv
            have h1 := firstHit_sub m segs' routeTable h' vs hf v hv
            have h2 := stripBase_sub base segs segs' hst v h1
            have h3 := splitSlash_noslash_segs p v (by rw [hsp]; simp [h2])
            exact h3
          · simp at hr
      · simp at hr

example : serverRoute [] .get (47 :: sApi ++ 47 :: sV1 ++ 47 :: sMailbox ++ [47, 97, 37, 50, 70, 98]) = .hit .showV1 [bA, bB] := by
  decide +kernel

/-- a space in the name (no mailbox name contains one, but the client accepts any string): QueryEscape writes '+',
    which a PATH does not decode back — the server sees "a+b", whose canonical mailbox is "a" -/
theorem client_round_trip_fails_on_space :
    clientRoute [] .list (bA ++ 32 :: bB) [] = some (.hit .listV1 [bA ++ 43 :: bB]) := by
  decide +kernel

/-- the names "." and ".." are removed by JoinPath's path cleaning (neither can receive mail: ExtractMailbox
    rejects both in every naming mode) -/
theorem client_round_trip_fails_on_dots :
    clientRoute [] .list dot [] = some .notFound ∧ clientRoute [] .list dotdot [] = some .notFound ∧
    clientRoute [] .get dotdot b1 = some .notFound := by
  decide +kernel

/-- the ids "" and "..": GetMessage(name, "..") asks for /api/v1/mailbox, DeleteMessage(name, "") for the mailbox
    path with a trailing slash (no route) — while DeleteMessage(name, ".") is cleaned to DELETE /api/v1/mailbox/name,
    i.e. PURGES the mailbox -/
theorem client_round_trip_fails_on_bad_id :
    clientRoute [] .get bA dotdot = some .notFound ∧ clientRoute [] .delete bA [] = some .notFound ∧
    clientRoute [] .delete bA dot = some (.hit .purgeV1 [bA]) := by
  decide +kernel

end Ibx.Props.C14
