import Ibx.Lemmas.HubIso
import Ibx.Lemmas.WsListener
/-
  C15 — every monitor sees every message event once, in order; none can stall the rest.

  Part 1 (hub actor, Model.Hub): the retained history is the last N dispatched minus those deleted since;
  a listener that never fails receives exactly `Spec.HubLog.expected`; what one listener does is invisible
  to the others — as long as no listener panics or blocks.
  Part 2 (the WebSocket listeners, Model.WsListener): the FIXED close protocol never blocks the hub, never
  panics, always unregisters, and hands the socket writer a gap-free in-order prefix; the ORIGINAL protocol
  reaches a blocked hub, a dead hub, a send on a closed channel and a double close.
  Ibx/Tie/Hub.lean pins the facts regenerated from the source to `Proto.fixed`.
-/
namespace Ibx.Props.C15
open Ibx.Spec.HubLog Ibx.Model.Hub Ibx.Lemmas.Hub

/-! ## Part 1 — the hub -/

/-- The history played to a new listener is the specification: of the last N dispatched messages those
    for which no Delete of their key was queued after them, oldest first (keys unique, as the stores
    guarantee).  All N, all operation sequences, all listener behaviours. -/
theorem history_is_last_N_minus_deleted (N : Nat) (L : Nat → Listener) (ops : List Op) (hu : UniqueKeys ops) :
    ringDo (run (init N L) ops).ring = history N ops :=
  ringDo_run N L ops hu

def okL : Nat → Listener := fun _ => { accepts := fun _ => true, answer := fun _ => .ok }
def a1 : Msg := ⟨0, 1, 10⟩
def b2 : Msg := ⟨0, 2, 11⟩
def c3 : Msg := ⟨1, 3, 12⟩
def d4 : Msg := ⟨0, 4, 13⟩
def pre0 : List Op := [.dispatch a1, .add 7, .dispatch b2, .dispatch c3, .delete 0 2, .remove 7]
def post0 : List Op := [.dispatch d4, .add 8, .delete 1 3, .remove 9]

example : UniqueKeys pre0 := by decide
example : history 2 pre0 = [c3] := by decide
example : ringDo (run (init 2 okL) pre0).ring = [c3] := by decide

/-- Why the hypothesis: with a key dispatched twice, Delete clears ONE cell (the first match scanning from
    `p.Next()`, i.e. not the oldest when the ring is full) while the sentence "minus those deleted" removes
    both.  Unreachable with the real stores (ids are never reused). -/
theorem history_dupkeys_differs :
    ringDo (run (init 2 okL) [.dispatch ⟨0, 1, 10⟩, .dispatch ⟨0, 1, 11⟩, .delete 0 1]).ring = [⟨0, 1, 10⟩] ∧
    history 2 [.dispatch ⟨0, 1, 10⟩, .dispatch ⟨0, 1, 11⟩, .delete 0 1] = [] := by decide

/-- hub_delivers.  For N ≥ 1: a listener that never fails, attached at queue position |pre| and neither
    removed nor re-attached during `post`, has received exactly the retained history at that position
    followed by every later stored/deleted event — restricted to its filter — each once, in queue order;
    and it is still registered.  (No other listener is assumed well behaved, only not to panic.) -/
theorem hub_delivers {N : Nat} (hN : 1 ≤ N) (L : Nat → Listener) (hnp : NoPanic L) (l : Nat)
    (hok : (L l).answer = fun _ => .ok) (hgot : (L l).got = []) (pre post : List Op) (hu : UniqueKeys pre)
    (hpre : ∀ op ∈ pre, op ≠ .add l) (hpost : ∀ op ∈ post, op ≠ .add l ∧ op ≠ .remove l) :
    ((run (init N L) (pre ++ .add l :: post)).ls l).got = expected N pre post (L l).accepts ∧
    l ∈ (run (init N L) (pre ++ .add l :: post)).regs := by
  have g1 := good_run (good_init N L hnp) pre
  have hr1 : (run (init N L) pre).ring ≠ [] := by
    intro he
    have := run_ring_length (init N L) pre
    rw [he] at this
    simp [init] at this
    omega
  have un := unattached_run l pre (init N L) (by simp [init]) hpre
  have hun1 : (run (init N L) pre).ls l = L l := un.1
  have pb := playback_ok (ringDo (run (init N L) pre).ring) (L l) hok
  have pa := playback_answer (ringDo (run (init N L) pre).ring) (L l)
  rw [run_append, run_cons]
  have hls2 : (step (run (init N L) pre) (.add l)).ls l = (playback (ringDo (run (init N L) pre).ring) (L l)).1 := by
    simp [step, upd, hun1]
  have hreg2 : l ∈ (step (run (init N L) pre) (.add l)).regs := by
    rw [mem_add_regs, hun1]; exact Or.inr ⟨rfl, pb.1⟩
  have at2 := attached_run l post _ (good_step g1 (.add l)) (ring_ne_nil_step _ hr1) hreg2
    (by rw [hls2, pa.1, hok]) hpost
  refine ⟨?_, at2.2⟩
  rw [at2.1, hls2, pb.2, pa.2, hgot, history_is_last_N_minus_deleted N L pre hu]
  simp [expected, List.filter_append]

/-- the hypotheses of `hub_delivers` are satisfiable by a non-trivial run (history 2, one deleted entry, other
    listeners coming and going), and the conclusion computes to the expected three events -/
example : ((run (init 2 okL) (pre0 ++ .add 1 :: post0)).ls 1).got = [.stored c3, .stored d4, .deleted 1 3] :=
  (hub_delivers (N := 2) (by decide) okL (fun _ _ => by simp [okL]) 1 rfl rfl pre0 post0 (by decide) (by decide)
    (by decide)).1.trans (by decide)

/-- After RemoveListener a listener is told nothing more (until it is attached again). -/
theorem removed_listener_receives_nothing (h : Hub) (l : Nat) (post : List Op) (hpost : ∀ op ∈ post, op ≠ .add l) :
    (run h (.remove l :: post)).ls l = h.ls l := by
  rw [run_cons]
  have hl : l ∉ (step h (.remove l)).regs := by simp [step]
  exact (unattached_run l post _ hl hpost).1

example : (run (run (init 2 okL) [.add 1, .dispatch a1]) [.remove 1, .dispatch b2]).ls 1
    = (run (init 2 okL) [.add 1, .dispatch a1]).ls 1 :=
  removed_listener_receives_nothing _ 1 [.dispatch b2] (by decide)

/-- A listener whose call returns an error is dropped by that very broadcast. -/
theorem erroring_listener_dropped {h : Hub} (g : Good h) (hr : h.ring ≠ []) {op : Op} {e : Ev} (hev : op.ev = some e)
    (l : Nat) (herr : (h.ls l).answer (h.ls l).calls = .err) : l ∉ (step h op).regs := by
  intro hm
  have := ((step_event g hr hev l).2.mp hm).2
  rw [call_fst, herr] at this
  cases this

/-- failing_listener_isolated.  Take any two worlds that differ only in listener l (it fails early, late,
    never; it filters differently): after any operation sequence every OTHER listener has received exactly
    the same calls, is registered or not alike, and the history is the same.  Dropping a failing listener
    costs nobody else an event. -/
theorem failing_listener_isolated (N : Nat) (L L' : Nat → Listener) (l : Nat) (hagree : ∀ x, x ≠ l → L x = L' x)
    (hn : NoPanic L) (hn' : NoPanic L') (ops : List Op) (x : Nat) (hx : x ≠ l) :
    (run (init N L) ops).ls x = (run (init N L') ops).ls x ∧
    (x ∈ (run (init N L) ops).regs ↔ x ∈ (run (init N L') ops).regs) ∧
    (run (init N L) ops).ring = (run (init N L') ops).ring := by
  have r : Rel l (init N L) (init N L') :=
    ⟨rfl, hagree, fun _ _ => Iff.rfl, good_init N L hn, good_init N L' hn'⟩
  have r' := rel_run r ops
  exact ⟨r'.ls x hx, r'.regs x hx, r'.ring⟩

/-- listener 1 fails at its second call -/
def failL : Nat → Listener := fun x =>
  if x = 1 then { accepts := fun _ => true, answer := fun n => if n = 1 then .err else .ok } else okL x

example : (∀ x, x ≠ 1 → okL x = failL x) ∧ NoPanic okL ∧ NoPanic failL ∧
    ((run (init 2 failL) [.add 1, .add 2, .dispatch a1, .dispatch b2, .dispatch c3]).ls 1).got = [.stored a1] ∧
    ((run (init 2 failL) [.add 1, .add 2, .dispatch a1, .dispatch b2, .dispatch c3]).ls 2).got
      = [.stored a1, .stored b2, .stored c3] := by
  refine ⟨fun x hx => by simp [failL, hx], fun _ _ => by simp [okL], ?_, by decide, by decide⟩
  intro x n
  unfold failL
  split
  · simp only []; split <;> simp
  · simp [okL]

/-- History length 0 is the documented "monitor disabled": nobody is ever told anything. -/
theorem monitor_disabled (L : Nat → Listener) (ops : List Op) (x : Nat) : (run (init 0 L) ops).ls x = L x :=
  disabled_run ops (init 0 L) rfl x

/-- Why `NoPanic` is a hypothesis (F-15c at hub level): a listener that panics — the original WebSocket
    listener after close(ml.c) — makes runOp abandon the rest of the loop: listener 2, registered and well
    behaved, never hears of the message. -/
theorem panicking_listener_breaks_broadcast :
    let L : Nat → Listener := fun x => if x = 1 then { accepts := fun _ => true, answer := fun _ => .panic } else okL x
    let h := run (init 2 L) [.add 1, .add 2, .dispatch a1]
    (h.ls 2).got = [] ∧ 2 ∈ h.regs ∧ ringDo h.ring = [a1] := by decide

/-! ## Part 2 — the WebSocket listeners' close protocol -/

open Ibx.Model.WsListener Ibx.Lemmas.WsListener

/-- F-15a/F-15b are gone: in no interleaving of the fixed protocol is the hub goroutine ever parked on a listener. -/
theorem never_blocks_hub {cap : Nat} {s : St} (h : Reach .fixed cap s) : s.hubBlocked = false :=
  (fixed_inv h).notBlocked

/-- … and that is not because the hub has no move: whenever the listener is registered the hub's call
    completes in one step (event queued, or an error that drops the listener). -/
theorem hub_offer_always_completes {cap : Nat} {s : St} (h : Reach .fixed cap s) (hr : s.registered = true) :
    ∃ s', Step .fixed cap s s' ∧ s'.next = s.next + 1 ∧ s'.hubBlocked = false := by
  have inv := fixed_inv h
  by_cases hl : s.buf.length < cap
  · exact ⟨_, .nbSend rfl hr inv.notBlocked inv.chOpen hl, rfl, inv.notBlocked⟩
  · by_cases hd : s.done = true
    · exact ⟨_, .nbClosed rfl hr inv.notBlocked hd, rfl, inv.notBlocked⟩
    · exact ⟨_, .nbSlow rfl hr inv.notBlocked inv.chOpen (by simpa using hd) (by omega), rfl, inv.notBlocked⟩

/-- F-15c is gone: no send on a closed channel, no double close; the data channel is never closed at all. -/
theorem no_send_on_closed {cap : Nat} {s : St} (h : Reach .fixed cap s) :
    s.hubPanics = 0 ∧ s.closePanic = false ∧ s.chClosed = false :=
  ⟨(fixed_inv h).noPanic, (fixed_inv h).noClosePanic, (fixed_inv h).chOpen⟩

/-- `done` is closed at most once however many Close() calls and overflowing Receives race. -/
theorem done_closed_at_most_once {cap : Nat} {s : St} (h : Reach .fixed cap s) : s.doneCloses ≤ 1 := by
  have := (fixed_inv h).once
  split at this <;> omega

/-- After any Close() has returned the listener is unregistered, or its removal sits in the hub's queue … -/
theorem close_unregisters {cap : Nat} {s : St} (h : Reach .fixed cap s)
    (hc : s.reader = .exited ∨ s.writer = .exited) : s.registered = false ∨ 0 < s.rmQueued :=
  (fixed_inv h).closed hc

/-- … which the hub, never being parked, can always run … -/
theorem queued_removal_runs {cap : Nat} {s : St} (h : Reach .fixed cap s) (hq : 0 < s.rmQueued) :
    ∃ s', Step .fixed cap s s' ∧ s'.registered = false ∧ s'.rmQueued = s.rmQueued - 1 :=
  ⟨_, .hubRm (fixed_inv h).notBlocked hq, rfl, rfl⟩

/-- … and nothing ever registers it again (any protocol). -/
theorem unregistered_is_final {P : Proto} {cap : Nat} {s s' : St} (st : Step P cap s s')
    (hr : s.registered = false) : s'.registered = false := by
  cases st <;> simp only [St.setPc, St.push] <;> (try split) <;> simp_all

/-- Close() itself never waits: each of its actions is enabled as soon as the caller reaches it. -/
theorem close_never_blocks {cap : Nat} {s : St} (r : Bool) (hp : s.pc r = .closeSel ∨ s.pc r = .closeRm) :
    ∃ s', Step .fixed cap s s' := by
  rcases hp with hp | hp
  · exact ⟨_, .cOnce r rfl hp⟩
  · exact ⟨_, .cRm r hp⟩

/-- What the socket writer gets: events 0, 1, 2, … with no gap, duplicate or reordering (delivered, then
    still queued); nothing is taken out of the queue by anybody else; and as long as the listener is
    registered that is every event the hub has broadcast. -/
theorem delivered_in_order_no_loss {cap : Nat} {s : St} (h : Reach .fixed cap s) :
    ∃ k, s.delivered ++ s.buf = List.range k ∧ s.lost = [] ∧ (s.registered = true → k = s.next) := by
  have inv := fixed_inv h
  exact ⟨_, inv.queue.trans inv.consecutive, inv.noLoss, inv.complete⟩

/-! ### the original protocol: the defects as reachable states -/

/-- F-15b: with the blocking send a client that merely stops reading parks the hub goroutine (and with
    it every other listener and every Dispatch caller) once `cap` events are queued. -/
theorem orig_blocks_hub (cap : Nat) : ∃ s, Reach .orig cap s ∧ s.hubBlocked = true ∧ s.writer = .run := by
  have f := pushN_fields cap {}
  have r := reach_pushN (cap := cap) cap .init rfl rfl rfl (by simp)
  refine ⟨_, .step r (.hubPark rfl (by rw [f.1]) (by rw [f.2.1]) (by rw [f.2.2.1]) (by rw [f.2.2.2.1]; simp)), rfl, ?_⟩
  simp [f.2.2.2.2.2.1]

/-- F-15a: Close() tests "already closed" by receiving from the DATA channel.  With two events queued when
    the client goes away, the reader's and the writer's Close() each swallow one, neither unregisters nor
    closes; the listener stays registered with nobody draining it, the queue fills, the hub parks in
    Receive — and from that state NO step is possible any more: the hub is dead for good. -/
theorem orig_close_wedges_hub {cap : Nat} (hc : 2 ≤ cap) :
    ∃ s, Reach .orig cap s ∧ s.hubBlocked = true ∧ s.reader = .exited ∧ s.writer = .exited ∧
      s.registered = true ∧ s.lost = [0, 1] ∧ ∀ s', ¬ Step .orig cap s s' := by
  have f := pushN_fields cap swallowed
  have f1 : (pushN cap swallowed).registered = true := f.1
  have f2 : (pushN cap swallowed).hubBlocked = false := f.2.1
  have f3 : (pushN cap swallowed).chClosed = false := f.2.2.1
  have f4 : (pushN cap swallowed).buf.length = cap := by rw [f.2.2.2.1]; simp [swallowed]
  have f5 : (pushN cap swallowed).reader = .exited := f.2.2.2.2.1
  have f6 : (pushN cap swallowed).writer = .exited := f.2.2.2.2.2.1
  have f7 : (pushN cap swallowed).rmQueued = 0 := f.2.2.2.2.2.2.1
  have f8 : (pushN cap swallowed).lost = [0, 1] := f.2.2.2.2.2.2.2
  clear f
  have r := reach_pushN cap (reach_swallowed hc) rfl rfl rfl (by simp [swallowed])
  refine ⟨_, .step r (.hubPark rfl f1 f2 f3 (by omega)), rfl, f5, f6, f1, f8, ?_⟩
  intro s' st
  generalize pushN cap swallowed = t at *
  cases st <;> simp_all [St.pc] <;> omega

/-- F-15a, first half: a Close() of the original protocol can return having neither unregistered the
    listener nor queued its removal — it swallowed a buffered event instead (contrast `close_unregisters`). -/
theorem orig_close_never_unregisters {cap : Nat} (hc : 1 ≤ cap) :
    ∃ s, Reach .orig cap s ∧ s.reader = .exited ∧ s.registered = true ∧ s.rmQueued = 0 ∧
      s.chClosed = false ∧ s.lost = [0] := by
  have r1 := Reach.step (P := .orig) (cap := cap) .init (.hubSend rfl rfl rfl rfl (by simp; omega))
  have r2 := Reach.step r1 (.rFail rfl)
  have r3 := Reach.step r2 (.cSwallow (e := 0) (rest := []) true rfl rfl rfl)
  exact ⟨_, r3, rfl, rfl, rfl, rfl, rfl⟩

/-- F-15c: Close() closes the data channel while the listener is still registered (its RemoveListener is
    queued BEHIND whatever Dispatch is already in the hub's queue): the hub's next Receive is a send on a
    closed channel. -/
theorem orig_send_on_closed (cap : Nat) :
    ∃ s, Reach .orig cap s ∧ s.hubPanics = 1 ∧ s.rmQueued = 1 ∧ s.registered = true := by
  have r1 := Reach.step (P := .orig) (cap := cap) .init (.rFail rfl)
  have r2 := Reach.step r1 (.cDefault true rfl rfl rfl rfl)
  have r3 := Reach.step r2 (.cRm true rfl)
  have r4 := Reach.step r3 (.cCloseCh true rfl)
  have r5 := Reach.step r4 (.hubSendPanic rfl rfl)
  exact ⟨_, r5, rfl, rfl, rfl⟩

/-- F-15d: reader and writer failing together both take Close()'s `default` branch and both close the
    channel: close of a closed channel, in goroutines nobody recovers. -/
theorem orig_double_close (cap : Nat) : ∃ s, Reach .orig cap s ∧ s.closePanic = true := by
  have r1 := Reach.step (P := .orig) (cap := cap) .init (.rFail rfl)
  have r2 := Reach.step r1 (.wFail rfl)
  have r3 := Reach.step r2 (.cDefault true rfl rfl rfl rfl)
  have r4 := Reach.step r3 (.cDefault false rfl rfl rfl rfl)
  have r5 := Reach.step r4 (.cRm true rfl)
  have r6 := Reach.step r5 (.cRm false rfl)
  have r7 := Reach.step r6 (.cCloseCh true rfl)
  have r8 := Reach.step r7 (.cCloseCh false rfl)
  exact ⟨_, r8, rfl⟩

/-- non-vacuity of the fixed-protocol theorems: the fixed protocol does reach a state where a Close() has
    returned with two events delivered, one still queued and the removal pending; and one where a slow
    client was dropped by the overflowing Receive. -/
example : ∃ s, Reach .fixed 100 s ∧ s.reader = .exited ∧ s.delivered = [0, 1] ∧ s.buf = [2] ∧ s.rmQueued = 1 := by
  have r1 := Reach.step (P := .fixed) (cap := 100) .init (.nbSend rfl rfl rfl rfl (by decide))
  have r2 := Reach.step r1 (.nbSend rfl rfl rfl rfl (by decide))
  have r3 := Reach.step r2 (.nbSend rfl rfl rfl rfl (by decide))
  have r4 := Reach.step r3 (.wRecv (e := 0) (rest := [1, 2]) rfl rfl)
  have r5 := Reach.step r4 (.wRecv (e := 1) (rest := [2]) rfl rfl)
  have r6 := Reach.step r5 (.rFail rfl)
  have r7 := Reach.step r6 (.cOnce true rfl rfl)
  have r8 := Reach.step r7 (.cRm true rfl)
  exact ⟨_, r8, rfl, rfl, rfl, rfl⟩

example : ∃ s, Reach .fixed 1 s ∧ s.registered = false ∧ s.done = true ∧ s.buf = [0] ∧ s.next = 2 := by
  have r1 := Reach.step (P := .fixed) (cap := 1) .init (.nbSend rfl rfl rfl rfl (by decide))
  have r2 := Reach.step r1 (.nbSlow rfl rfl rfl rfl rfl (by decide))
  exact ⟨_, r2, rfl, rfl, rfl, rfl⟩


end Ibx.Props.C15
