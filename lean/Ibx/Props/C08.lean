import Ibx.Lemmas.SpecStore
import Ibx.Lemmas.MemRefine
/-
  C08 — mailbox cap and store size limit evict oldest-first and only what is necessary.
  Theorems about `Spec.Store.step` for every cap / limit (either disabled, both together), every
  reachable state and every history; carried over to the memory-store model (`Model.Mem`, cap loop +
  size enforcer) through the refinement of C07 (`no_drift`, `mem_cap_bound`, `mem_size_bound`).
-/
namespace Ibx.Props.C08
open Ibx Ibx.Spec.Store Ibx.Model.Mem Ibx.Lemmas.SpecStore Ibx.Lemmas.MemRefine

/-! ### sample used by the non-vacuity examples: cap 2, limit 10 bytes -/

def exCfg : Cfg := { cap := 2, limit := 10 }
def exOps : List Op :=
  [.add [97] default [1, 2, 3], .add [98] default [4, 5], .add [97] default [6], .remove [98] 1,
   .add [97] default [7, 8, 9, 10], .add [98] default [1, 2, 3, 4, 5, 6]]
def exStore : Store := after exCfg Spec.Store.empty exOps

theorem exStore_reachable : Reachable exCfg exStore := ⟨exOps, rfl⟩

/-- both limits acted in the sample: the cap evicted a/1, the byte limit a/2; a/3 and b/2 remain -/
theorem exStore_pairs : exStore.msgs.map evOf = [([97], 3), ([98], 2)] := by decide

theorem exStore_events :
    deleted exCfg Spec.Store.empty exOps = [([98], 1), ([97], 1), ([97], 2)] := by decide

/-! ### the cap -/

/-- With a cap, no mailbox ever lists more than the cap, in any reachable state. -/
theorem cap_bound (c : Cfg) (s : Store) (h : Reachable c s) (hc : c.cap > 0) (b : Bytes) :
    (listing s b).length ≤ c.cap := by
  refine reachable_induct c (fun s => ∀ b, (listing s b).length ≤ c.cap) ?_ ?_ s h b
  · intro b; simp [listing, Spec.Store.empty]
  · intro s op ih b; exact cap_step c s op hc ih b

example : Reachable exCfg exStore ∧ exCfg.cap > 0 := ⟨exStore_reachable, by decide⟩

/-- After a delivery the new message is the last (most recent) of its mailbox, for every cap,
    whenever it fits the byte limit (or the limit is disabled). -/
theorem keeps_most_recent (c : Cfg) (s : Store) (b : Bytes) (hdr : Meta) (src : Bytes)
    (hfit : c.limit = 0 ∨ src.length ≤ c.limit) :
    (listing (step c s (.add b hdr src)).1 b).getLast? = some (newMsg s b hdr src) := by
  obtain ⟨r, hr⟩ := add_keeps_new c s b hdr src hfit
  have : inBox b (newMsg s b hdr src) = true := by simp [newMsg]
  simp [listing, hr, List.filter_append, this]

example : exCfg.limit = 0 ∨ ([1, 2, 3] : Bytes).length ≤ exCfg.limit := by decide

/-- The evicted by the cap are exactly the oldest `n - cap` messages of that mailbox, in order;
    what remains of the mailbox is the rest of its listing; no other mailbox loses anything; and
    nothing is created or duplicated. -/
theorem cap_evicts_oldest_of_mailbox (cap : Nat) (b : Bytes) (l : List Msg) :
    (capEvict cap b l).2 =
      (if cap > 0 then (l.filter (inBox b)).take ((l.filter (inBox b)).length - cap) else []) ∧
    (capEvict cap b l).1.filter (inBox b) =
      (if cap > 0 then (l.filter (inBox b)).drop ((l.filter (inBox b)).length - cap)
       else l.filter (inBox b)) ∧
    (∀ b', b' ≠ b → (capEvict cap b l).1.filter (inBox b') = l.filter (inBox b')) ∧
    ((capEvict cap b l).2 ++ (capEvict cap b l).1).Perm l ∧
    (capEvict cap b l).1.Sublist l := by
  refine ⟨capEvict_removed cap b l, capEvict_kept_box cap b l, ?_, capEvict_perm cap b l,
    capEvict_sublist cap b l⟩
  intro b' hb'
  apply capEvict_kept_other
  intro m hm; simp at hm; simp [inBox, hm]; exact hb'

/-! ### the byte limit -/

/-- With a byte limit, the stored bytes never exceed it, in any reachable state. -/
theorem size_bound (c : Cfg) (s : Store) (h : Reachable c s) (hl : c.limit > 0) :
    total s.msgs ≤ c.limit := by
  refine reachable_induct c (fun s => total s.msgs ≤ c.limit) ?_ ?_ s h
  · simp [Spec.Store.empty]
  · intro s op ih; exact size_step c s op hl ih

example : Reachable exCfg exStore ∧ exCfg.limit > 0 := ⟨exStore_reachable, by decide⟩

/-- The set evicted by the byte limit is the shortest prefix of global arrival order whose removal
    restores the bound: the store is `evicted ++ kept`, the kept part meets the limit, and putting
    the last evicted message back would break it. -/
theorem evicts_minimal_oldest_prefix (limit : Nat) (l : List Msg) :
    (limitEvict limit l).2 ++ (limitEvict limit l).1 = l ∧
    (limit > 0 → total (limitEvict limit l).1 ≤ limit) ∧
    (∀ hd : (limitEvict limit l).2 ≠ [],
      total ((limitEvict limit l).2.getLast hd :: (limitEvict limit l).1) > limit) :=
  ⟨limitEvict_append limit l, limitEvict_bound limit l, fun hd => (limitEvict_minimal limit l hd).2⟩

example : (limitEvict 3 [(⟨[97], 1, default, false, [1, 2]⟩ : Msg), ⟨[97], 2, default, false, [3, 4]⟩]).2 ≠ [] := by
  decide

/-- A delivery evicts exactly: first the cap's choice for its mailbox, then the limit's choice
    over the whole store; the events are those messages' (mailbox, id), in that order. -/
theorem add_evicts (c : Cfg) (s : Store) (b : Bytes) (hdr : Meta) (src : Bytes) :
    (step c s (.add b hdr src)).2.2 =
      ((capEvict c.cap b (s.msgs ++ [newMsg s b hdr src])).2 ++
       (limitEvict c.limit (capEvict c.cap b (s.msgs ++ [newMsg s b hdr src])).1).2).map evOf ∧
    (step c s (.add b hdr src)).1.msgs =
      (limitEvict c.limit (capEvict c.cap b (s.msgs ++ [newMsg s b hdr src])).1).1 := by
  rw [step_add]; exact ⟨rfl, rfl⟩

/-- A newly delivered message that fits is retrievable immediately, whatever evictions, removals
    or purges preceded it: `get` of the returned id answers exactly the message. -/
theorem fits_then_retrievable (c : Cfg) (s : Store) (h : Reachable c s) (b : Bytes) (hdr : Meta)
    (src : Bytes) (hfit : c.limit = 0 ∨ src.length ≤ c.limit) :
    step c (step c s (.add b hdr src)).1 (.get b (s.next b + 1)) =
      ((step c s (.add b hdr src)).1,
       .msg { box := b, id := s.next b + 1, hdr := hdr, seen := false, source := src }, []) := by
  obtain ⟨r, hr⟩ := add_keeps_new c s b hdr src hfit
  have hx : newMsg s b hdr src ∈ (step c s (.add b hdr src)).1.msgs := by rw [hr]; simp
  exact step_get_live c _ (inv_step c s _ (inv_reachable c s h)) hx

example : Reachable exCfg exStore ∧ (exCfg.limit = 0 ∨ ([9, 9] : Bytes).length ≤ exCfg.limit) :=
  ⟨exStore_reachable, by decide⟩

/-- Only what is necessary: when the mailbox is below its cap and the message fits into what is
    left of the limit, a delivery evicts nothing and emits no event. -/
theorem no_unnecessary_eviction (c : Cfg) (s : Store) (b : Bytes) (hdr : Meta) (src : Bytes)
    (hcap : c.cap = 0 ∨ (listing s b).length < c.cap)
    (hlim : c.limit = 0 ∨ total s.msgs + src.length ≤ c.limit) :
    step c s (.add b hdr src) =
      ({ msgs := s.msgs ++ [newMsg s b hdr src],
         next := fun x => if x == b then s.next b + 1 else s.next x }, .id (s.next b + 1), []) :=
  add_no_eviction c s b hdr src hcap hlim

example : (exCfg.cap = 0 ∨ (listing (after exCfg Spec.Store.empty (exOps.take 2)) [98]).length < exCfg.cap) ∧
    (exCfg.limit = 0 ∨
      total (after exCfg Spec.Store.empty (exOps.take 2)).msgs + ([1] : Bytes).length ≤ exCfg.limit) := by
  decide

/-! ### the memory store (cap loop + size enforcer) -/

/-- The enforcer's accounting never drifts: in every state related to the model its list `all` is
    the live messages in global arrival order and `cur` is the sum of their sizes (and both stay
    empty / zero when the limit is disabled). -/
theorem no_drift (c : Cfg) (m : Mem) (s : Store) (h : R c m s) :
    (c.limit > 0 → m.all = s.msgs.map ent ∧ m.cur = total s.msgs) ∧
    (c.limit = 0 → m.all = [] ∧ m.cur = 0) :=
  ⟨h.enf.on, h.enf.off⟩

/-- … hence after every history of the memory-store model. -/
theorem no_drift_run (c : Cfg) (ops : List Op) (hl : c.limit > 0) :
    (runMem c Model.Mem.empty ops).1.cur = total (after c Spec.Store.empty ops).msgs ∧
    (runMem c Model.Mem.empty ops).1.all = (after c Spec.Store.empty ops).msgs.map ent :=
  let h := (refines_run c ops _ _ (R_empty c)).1
  ⟨(h.enf.on hl).2, (h.enf.on hl).1⟩

/-- The memory store's mailboxes never hold more than the cap after any history. -/
theorem mem_cap_bound (c : Cfg) (ops : List Op) (hc : c.cap > 0) (b : Bytes) :
    ((runMem c Model.Mem.empty ops).1.boxes b).msgs.length ≤ c.cap := by
  have h : R c _ (after c Spec.Store.empty ops) := (refines_run c ops _ _ (R_empty c)).1
  have := cap_bound c (after c Spec.Store.empty ops) ⟨ops, rfl⟩ hc b
  rw [← (h.rb.box b).list, List.length_map] at this
  exact this

/-- The memory store's accounted bytes never exceed the limit after any history. -/
theorem mem_size_bound (c : Cfg) (ops : List Op) (hl : c.limit > 0) :
    (runMem c Model.Mem.empty ops).1.cur ≤ c.limit := by
  rw [(no_drift_run c ops hl).1]
  exact size_bound c _ ⟨ops, rfl⟩ hl

example : (runMem exCfg Model.Mem.empty exOps).1.cur = 10 := by decide

/-- The cap loop of AddMessage removes exactly the oldest `length - cap` messages of the mailbox
    (with enough fuel: `last + 1 - first` iterations always suffice). -/
theorem cap_loop_is_drop_oldest (cap : Nat) (mb : MBox) (y : MMsg) (hy : y.index = mb.last + 1)
    (hbi : BoxInv mb) (hc : cap > 0) :
    (capPhase cap mb.first (mb.last + 1) (mb.msgs ++ [y])).2.1 =
      (mb.msgs ++ [y]).drop ((mb.msgs ++ [y]).length - cap) ∧
    (capPhase cap mb.first (mb.last + 1) (mb.msgs ++ [y])).2.2 =
      (mb.msgs ++ [y]).take ((mb.msgs ++ [y]).length - cap) := by
  obtain ⟨hk, h1, h2, _, _⟩ := capPhase_spec cap mb y hy hbi
  simp only [hc, ↓reduceIte] at hk h1 h2
  have : (mb.msgs ++ [y]).length - cap = mb.msgs.length + 1 - cap := by simp
  rw [this, List.drop_append_of_le_length hk, List.take_append_of_le_length hk]
  exact ⟨h1, h2⟩

example : BoxInv emptyBox := ⟨by simp [emptyBox], by simp [emptyBox], by simp [emptyBox], by simp [emptyBox]⟩

end Ibx.Props.C08
