import Ibx.Lemmas.FsFault
import Ibx.Model.FsCodec
/-
  C12 (lost content) — "deletes every message older than the retention period" on a file store in which the CONTENT FILE of an
  expired message is gone while its index entry exists (a crash between the two steps of an earlier removal, a disk fault, an
  operator's clean-up).  The scanner removes by `RemoveMessage(mailbox, id)`; what that call does on the file store is
  `mbox.removeMessage`: drop the entry from the in-memory list, emit `deleted`, REWRITE THE INDEX, and only then unlink `<id>.raw`
  (Model/FsFault.lean: `removeFoundF`, statement by statement; the order is pinned from the source by Tie/Crash.lean, which C12's
  module list includes).  Because the index goes first, the message leaves the listing whether or not its content file exists and
  whatever the unlink answers — for every codec, every directory (NO well-formedness hypothesis: the directory may list entries
  without content), every set of refused calls that spares the index write.

  The other order (unlink the content file first, return on failure, rewrite the index afterwards — a plausible "do not lose the
  index entry of a message we could not delete" rewrite) is modelled beside it: a message without content is then NEVER de-listed,
  scan after scan (`unlink_first_never_delists_lost_content`).

  T2: harness/cmd/drive/c12_lost.go unlinks content files behind the real file store's back and runs the real RetentionScanner
  (`expired-gone`, `remove-delists`, `deleted-event-per-gone`).
-/
namespace Ibx.Props.C12Lost
open Ibx Ibx.Model.FsSteps Ibx.Model.FsFault Ibx.Lemmas.FsFault
open Ibx.Model.FileStore (FEnt)

variable (C : Codec) (F : Nat → Bool) (b : Bytes)

/-- reading a directory whose index file holds the encoding of `l` lists `l` -/
private theorem dlisting_index (x : MDir) (l : List FEnt) (hi : x.index = some (C.enc (b, l))) : dlisting C (some x) = some l := by
  simp [dlisting, hi, C.dec_enc]

/-- a hooked unlink of a content file never touches the index, carried out, refused or failing by itself -/
private theorem call_unlinkRaw_index (r : Run) (id : Nat) (x : MDir) (hr : r.d = some x) :
    ∃ y, (call F r (.unlinkRaw id) []).1.d = some y ∧ y.index = x.index ∧ (call F r (.unlinkRaw id) []).1.events = r.events := by
  obtain ⟨c1, _, c3⟩ := call_spec F r (.unlinkRaw id) []
  rcases c3 with c3 | c3
  · exact ⟨x, by rw [c3, hr], rfl, c1⟩
  · refine ⟨{ x with raws := rawDel x.raws id }, ?_, rfl, c1⟩
    rw [c3, hr]
    simp [Hook.steps, runDir, applyDir, onDir]

/-- **remove_delists_without_content.**  `RemoveMessage(id)` on a mailbox directory that lists `id` among at least two messages:
    when the index write goes through, the mailbox lists exactly the other messages afterwards and `deleted(id)` was emitted once —
    for EVERY directory (the content file of `id`, or of any other message, may be missing), whatever happens to the unlink. -/
theorem remove_delists_without_content (par : List FsStep) (x : MDir) (l : List FEnt) (id : Nat)
    (hl : dlisting C (some x) = some l) (hid : l.any (fun e => e.id = id) = true) (hne : eraseFirst id l ≠ [])
    (hw : (writeIndexF C F b (eraseFirst id l) (emit (Run.start (some x)) id)).2 = true) :
    dlisting C (removeF C F b par (some x) id).d = some (eraseFirst id l) ∧ (removeF C F b par (some x) id).events = [id] := by
  have h3 := (writeIndexF_some C F b x (eraseFirst id l) (emit (Run.start (some x)) id) rfl).2.2.1 hw
  have h1 := (writeIndexF_some C F b x (eraseFirst id l) (emit (Run.start (some x)) id) rfl).1
  obtain ⟨y, hy, hyi, hye⟩ := call_unlinkRaw_index F (writeIndexF C F b (eraseFirst id l) (emit (Run.start (some x)) id)).1 id _ h3
  have e : removeFoundF C F b par (eraseFirst id l) id (Run.start (some x)) =
      call F (writeIndexF C F b (eraseFirst id l) (emit (Run.start (some x)) id)).1 (.unlinkRaw id) [] := by
    simp [removeFoundF, writeIndexAnyF, hne, hw]
  constructor
  · simp only [removeF, hl, hid, if_true, Out.of]
    rw [e, hy]
    exact dlisting_index C b y _ (by rw [hyi])
  · simp only [removeF, hl, hid, if_true, Out.of]
    rw [e, hye, h1]
    rfl

/-- in particular with no refused call at all: the removal of a message whose content file is gone answers with the unlink's error
    but de-lists the message -/
theorem lost_content_is_delisted (par : List FsStep) (x : MDir) (l : List FEnt) (id : Nat)
    (hl : dlisting C (some x) = some l) (hid : l.any (fun e => e.id = id) = true) (hne : eraseFirst id l ≠ [])
    (hlost : rawGet x.raws id = none) :
    dlisting C (removeF C (fun _ => false) b par (some x) id).d = some (eraseFirst id l) ∧
    (removeF C (fun _ => false) b par (some x) id).res = .err := by
  have hw : (writeIndexF C (fun _ => false) b (eraseFirst id l) (emit (Run.start (some x)) id)).2 = true := by
    simp [writeIndexF, createDirH, calls, call, Hook.steps, okAll, okDir, applyDir, onDir, runDir, emit, Run.start]
  refine ⟨(remove_delists_without_content C (fun _ => false) b par x l id hl hid hne hw).1, ?_⟩
  have h3 := (writeIndexF_some C (fun _ => false) b x (eraseFirst id l) (emit (Run.start (some x)) id) rfl).2.2.1 hw
  have e : removeFoundF C (fun _ => false) b par (eraseFirst id l) id (Run.start (some x)) =
      call (fun _ => false) (writeIndexF C (fun _ => false) b (eraseFirst id l) (emit (Run.start (some x)) id)).1 (.unlinkRaw id) [] := by
    simp [removeFoundF, writeIndexAnyF, hne, hw]
  simp only [removeF, hl, hid, if_true, Out.of]
  rw [e]
  simp [call, h3, Hook.steps, okAll, okDir, hlost]

/-! ### the other order -/

/-- `removeMessage` with the unlink FIRST (return on failure), the index write afterwards — not the code's order -/
def removeFoundUnlinkFirst (par : List FsStep) (l' : List FEnt) (id : Nat) (r : Run) : Run × Bool :=
  let o := call F r (.unlinkRaw id) []
  if !o.2 then (o.1, false) else writeIndexAnyF C F b par l' (emit o.1 id)

/-- **unlink_first_never_delists_lost_content**: with that order a listed message whose content file is gone stays listed, with
    or without refused calls, however often the removal is repeated (the directory is not changed at all) -/
theorem unlink_first_never_delists_lost_content (par : List FsStep) (x : MDir) (l' : List FEnt) (id : Nat) (k : Nat)
    (hlost : rawGet x.raws id = none) :
    (removeFoundUnlinkFirst C F b par l' id { Run.start (some x) with k := k }).1.d = some x ∧
    (removeFoundUnlinkFirst C F b par l' id { Run.start (some x) with k := k }).2 = false ∧
    (removeFoundUnlinkFirst C F b par l' id { Run.start (some x) with k := k }).1.events = [] := by
  simp [removeFoundUnlinkFirst, call, Run.start, Hook.steps, okAll, okDir, hlost]

/-! ### non-vacuity: a mailbox listing two messages, the content file of the first one lost -/

section Example
open Ibx.Model.FsCodec (lp)

def e1 : FEnt := { id := 1, hdr := default, size := 3, seen := false }
def e2 : FEnt := { id := 2, hdr := default, size := 2, seen := false }
/-- index lists 1 and 2; only `2.raw` exists -/
def exDir : MDir := { index := some (lp.enc ([98], [e1, e2])), tmp := none, raws := [(2, [7, 7])] }

example : dlisting lp (some exDir) = some [e1, e2] := by simp [dlisting, exDir, lp.dec_enc]
example : rawGet exDir.raws 1 = none := by decide
/-- the code's order: message 1 is gone from the listing, message 2 stays, the call reports the unlink's error -/
example : dlisting lp (removeF lp (fun _ => false) [98] [] (some exDir) 1).d = some [e2] ∧
    (removeF lp (fun _ => false) [98] [] (some exDir) 1).res = .err := by
  have h := lost_content_is_delisted lp [98] [] exDir [e1, e2] 1 (by simp [dlisting, exDir, lp.dec_enc]) (by decide) (by decide) (by decide)
  simpa [eraseFirst, e1, e2] using h
end Example

end Ibx.Props.C12Lost
