import Ibx.Model.Pop3
import Ibx.Lemmas.Pop3
import Ibx.Props.C13
/-
  C13 (TLS part) — STLS, the CAPA advertisement and ForceTLS of the POP3 session, and the `tlsState` the sessions of one
  server share.  Theorems over the executable model `Ibx.Model.Pop3` for ALL configurations, command sequences, store
  contents and ways a session can end.  `C13.Reach` ranges over the sessions of every server (any TLS configuration,
  `tlsState` per server or per session, whatever earlier sessions left), so `C13.count_inv`, `retain_length`, `total`,
  `no_panic`, `stat_list_uidl_agree`, `snapshot_stable`, `uidl_is_store_id`, `rset_unmarks_all`, `quit_commits_exactly`,
  `removal_only_at_quit`, … hold of sessions that contain an STLS; what is stated here is what is specific to the switch.
-/
namespace Ibx.Props.C13Tls
open Ibx Ibx.Model.Pop3 Ibx.Lemmas.Pop3 Ibx.Props.C13

/-! ### examples used for non-vacuity -/

/-- STLS available (key pair loaded, no ForceTLS), `tlsState` declared as in the pinned source -/
def cTls : Cfg := { tlsEnabled := true }
/-- the same with the repaired declaration -/
def cTlsFixed : Cfg := { tlsEnabled := true, scope := .perSession }
/-- ForceTLS with a key pair -/
def cForce : Cfg := { tlsEnabled := true, forceTLS := true }
/-- ForceTLS WITHOUT a key pair (TLSEnabled unset) -/
def cForceNoKey : Cfg := { forceTLS := true }

def cSTLS : Bytes := kSTLS ++ [13, 10]
def cCAPA : Bytes := kCAPA ++ [13, 10]

/-- a logged-in session of a server with STLS available -/
def exTrans : St := { exSt with cfg := cTls }

/-! ### when STLS is accepted -/

/-- STLS is refused ("-ERR", nothing changes) whenever TLS is not configured, ForceTLS is set, or `tlsState` is already
    non-nil -/
theorem stls_refused (store : Bytes → List Msg) (s : St) (args : List Bytes) (h : acceptsStls s = false) :
    authH store s .stls args = .ok s .err [] := by
  unfold authH
  simp only [acceptsStls, Bool.and_eq_false_iff, Bool.not_eq_false'] at h
  rcases h with (h | h) | h
  · simp [h]
  · simp [h]
  · cases h1 : (!s.cfg.tlsEnabled || s.cfg.forceTLS) <;> simp [h]

/-- the accepted STLS: "+OK Begin TLS Negotiation", `tlsState` recorded; phase, user, snapshot, marks and count are left
    exactly as they were and nothing is removed -/
theorem stls_accepted (store : Bytes → List Msg) (s : St) (args : List Bytes) (h : acceptsStls s = true) :
    authH store s .stls args = .ok { s with tls := true } .stlsBegin [] := by
  unfold authH
  simp only [acceptsStls, Bool.and_eq_true, Bool.not_eq_true'] at h
  simp [h.1.1, h.1.2, h.2]

/-- **STLS only in AUTHORIZATION.**  In TRANSACTION an STLS line is answered "-ERR" (out of sequence): no handshake, the
    state — snapshot, marks, count, `tlsState` — is unchanged and nothing is removed. -/
theorem stls_refused_in_transaction (store : Bytes → List Msg) (s : St) (ht : s.phase = .trans) (line : Bytes)
    (args : List Bytes) (hp : parseCmd line = some (kSTLS, args)) : step store s line = .ok s .err [] := by
  unfold step
  rw [hp]
  simp only []
  rw [if_neg (by decide), if_neg (by decide)]
  have : verbOf kSTLS = some .stls := by decide
  rw [this, ht]
  rfl

example : step exStore exTrans cSTLS = .ok exTrans .err [] := by decide
example : step exStore (St.start cTls false) cSTLS = .ok { St.start cTls false with tls := true } .stlsBegin [] := by decide
example : step exStore (St.start { } false) cSTLS = .ok (St.start { } false) .err [] := by decide
example : step exStore (St.start cForce false) cSTLS = .ok (St.start cForce false) .err [] := by decide

/-- **The flag changes in one way only.**  Whatever the line and the store: if a loop iteration changes `tlsState`, it
    was an STLS read in AUTHORIZATION on a server where it is available, with the flag off; the reply is the "+OK Begin
    TLS Negotiation", the new state differs from the old one in the flag ONLY (same phase, user, snapshot, marks, count)
    and no message is removed. -/
theorem tls_flag_only_by_stls (store : Bytes → List Msg) (s : St) (line : Bytes) (s' : St) (r : Reply) (rm : List Bytes)
    (h : step store s line = .ok s' r rm) (hne : s'.tls ≠ s.tls) :
    s.phase = .auth ∧ acceptsStls s = true ∧ r = .stlsBegin ∧ s' = { s with tls := true } ∧ rm = [] := by
  unfold step at h
  split at h
  · simp at h
  · rename_i cmd args hpc
    split at h
    · simp only [Outcome.ok.injEq] at h; obtain ⟨rfl, _, _⟩ := h; exact absurd rfl hne
    · split at h
      · simp only [Outcome.ok.injEq] at h; obtain ⟨rfl, _, _⟩ := h; exact absurd rfl hne
      · split at h
        · simp only [Outcome.ok.injEq] at h; obtain ⟨rfl, _, _⟩ := h; exact absurd rfl hne
        · rename_i v hv
          split at h
          · rename_i hph
            refine ⟨hph, ?_⟩
            cases v
            case stls =>
              by_cases hacc : acceptsStls s = true
              · rw [stls_accepted store s args hacc] at h
                simp only [Outcome.ok.injEq] at h
                exact ⟨hacc, h.2.1.symm, h.1.symm, h.2.2.symm⟩
              · rw [stls_refused store s args (by simpa using hacc)] at h
                simp only [Outcome.ok.injEq] at h
                obtain ⟨rfl, _, _⟩ := h; exact absurd rfl hne
            all_goals
              exfalso
              simp only [authH] at h
              repeat' split at h
              all_goals first
                | (simp only [Outcome.ok.injEq] at h; obtain ⟨rfl, _, _⟩ := h; exact hne rfl)
                | (simp only [Outcome.ok.injEq] at h; obtain ⟨rfl, _, _⟩ := h; exact hne (by simp [loadMailbox, retainAll]))
                | simp at h
          · exfalso
            have hk : ∀ o, transH s v args = o → o = .ok s' r rm → False := by
              intro o ho hs
              subst hs
              cases v <;> simp only [transH, cmdStat, cmdList, cmdUidl, cmdDele, cmdRetr, cmdTop, cmdQuit, retainAll] at ho
              all_goals repeat' split at ho
              all_goals first
                | (simp only [Outcome.ok.injEq] at ho; obtain ⟨rfl, _, _⟩ := ho; exact hne rfl)
                | simp at ho
            exact hk _ rfl h
          · simp at h

/-- **STLS never changes the snapshot or the marks and causes no removal**, wherever it is issued and whatever it is
    answered: the state after an STLS line differs from the state before in `tlsState` at most -/
theorem stls_keeps_snapshot_and_marks (store : Bytes → List Msg) (s : St) (line : Bytes) (args : List Bytes)
    (hp : parseCmd line = some (kSTLS, args)) (hq : s.phase ≠ .quit) :
    ∃ r tl, step store s line = .ok { s with tls := tl } r [] ∧ (r = .err ∨ r = .stlsBegin) := by
  by_cases hph : s.phase = .trans
  · exact ⟨.err, s.tls, by rw [stls_refused_in_transaction store s hph line args hp], .inl rfl⟩
  · have hph : s.phase = .auth := by
      cases h : s.phase <;> simp_all
    have hstep : step store s line = authH store s .stls args := by
      unfold step
      rw [hp]
      simp only []
      rw [if_neg (by decide), if_neg (by decide)]
      have : verbOf kSTLS = some .stls := by decide
      rw [this, hph]
    rw [hstep]
    by_cases hacc : acceptsStls s = true
    · exact ⟨.stlsBegin, true, stls_accepted store s args hacc, .inr rfl⟩
    · exact ⟨.err, s.tls, by rw [stls_refused store s args (by simpa using hacc)], .inl rfl⟩

/-- once `tlsState` is set it stays set for the rest of the session: STLS is accepted at most once per connection -/
theorem tls_stays_on {s0 s : St} (h0 : s0.tls = true) (h : ReachFrom s0 s) : s.tls = true := by
  induction h with
  | refl => exact h0
  | @step s1 s2 store line r rm _ _ hs ih =>
    by_cases hne : s2.tls = s1.tls
    · rw [hne]; exact ih
    · have := tls_flag_only_by_stls store s1 line s2 r rm hs hne
      rw [this.2.2.2.1]

example : step exStore { St.start cTls false with tls := true } cSTLS =
    .ok { St.start cTls false with tls := true } .err [] := by decide

/-! ### the advertisement -/

/-- **CAPA lists STLS iff STLS would be accepted** (in AUTHORIZATION, the only state STLS is valid in): the capability
    test `tlsConfig != nil && tlsState == nil && !ForceTLS` and the acceptance test of the STLS case agree, and the CAPA
    reply carries the extra line exactly then.  (CAPA is answered in every state; in TRANSACTION it lists STLS under the
    same test although STLS is out of sequence there — RFC 2595 announces the capability in both states.) -/
theorem capa_advertises_iff_accepted (store : Bytes → List Msg) (s : St) :
    offersStls s = acceptsStls s ∧
    step store s cCAPA = .ok s (.capa (if acceptsStls s then capaLines ++ [kSTLS] else capaLines)) [] := by
  have h1 : offersStls s = acceptsStls s := by
    simp only [offersStls, acceptsStls]
    cases s.cfg.tlsEnabled <;> cases s.tls <;> cases s.cfg.forceTLS <;> rfl
  refine ⟨h1, ?_⟩
  have hp : parseCmd cCAPA = some (kCAPA, []) := by decide
  unfold step
  rw [hp]
  simp [h1]

example : step exStore (St.start cTls false) cCAPA = .ok (St.start cTls false) (.capa (capaLines ++ [kSTLS])) [] := by decide
example : step exStore { St.start cTls false with tls := true } cCAPA =
    .ok { St.start cTls false with tls := true } (.capa capaLines) [] := by decide
example : step exStore (St.start cForce false) cCAPA = .ok (St.start cForce false) (.capa capaLines) [] := by decide
example : step exStore St.init cCAPA = .ok St.init (.capa capaLines) [] := by decide

/-! ### C13 for sessions that contain STLS -/

/-- a session that logged in AFTER an accepted STLS: USER in the clear, STLS, PASS inside TLS (the user name given in
    the clear survives the switch), then DELE 2 -/
def exAfterStls : St := { exSt with cfg := cTls, tls := true }

private theorem exAfterStls_reach : Reach exAfterStls := by
  have h1 : step exStore (St.start cTls false) cUSER = .ok { St.start cTls false with user := [98, 111, 120] } .ok [] := by decide
  have h2 : step exStore { St.start cTls false with user := [98, 111, 120] } cSTLS =
      .ok { St.start cTls false with user := [98, 111, 120], tls := true } .stlsBegin [] := by decide
  have h3 : step exStore { St.start cTls false with user := [98, 111, 120], tls := true } cPASS =
      .ok { exS2 with cfg := cTls, tls := true } (.okLogin 2) [] := by decide
  have h4 : step exStore { exS2 with cfg := cTls, tls := true } cDELE2 = .ok exAfterStls (.okDele 2) [] := by decide
  exact ⟨St.start cTls false, ⟨cTls, false, rfl⟩,
    .step (.step (.step (.step .refl (by decide) h1) (by decide) h2) (by decide) h3) (by decide) h4⟩

/-- the invariants of C13 in a state reached THROUGH an STLS (instances of the general theorems, for non-vacuity) -/
example : exAfterStls.msgCount = ((exAfterStls.retain.count true : Nat) : Int) ∧
    exAfterStls.retain.length = exAfterStls.msgs.length ∧
    (markedIds exAfterStls).Sublist (exAfterStls.msgs.map (·.id)) :=
  ⟨count_inv exAfterStls_reach, retain_length exAfterStls_reach, removed_sublist exAfterStls_reach⟩

/-- **No panic, no removal without QUIT — with TLS.**  A session on a server whose configuration is usable (ForceTLS
    only together with a key pair), whatever `tlsState` earlier sessions left, whatever the lines, the store history and
    the way it ends: it never panics, never takes the "unexpected state" exit, and either removes nothing or removes
    exactly the ids marked in the reachable TRANSACTION state QUIT was issued in. -/
theorem tls_session_safe (c : Cfg) (srv : Bool) (term : Term) (evs : List Ev) (hc : c.forceTLS = true → c.tlsEnabled = true) :
    (sessionTls c srv term evs).ending ≠ .panic ∧ (sessionTls c srv term evs).ending ≠ .badState ∧
    ((sessionTls c srv term evs).removed = [] ∨
      ∃ sq, Reach sq ∧ sq.phase = .trans ∧ (sessionTls c srv term evs).final = { sq with phase := .quit } ∧
        (sessionTls c srv term evs).removed = markedIds sq) := by
  have hcfg : (c.forceTLS && !c.tlsEnabled) = false := by
    cases hf : c.forceTLS with
    | false => rfl
    | true => simp [hc hf]
  have hfresh : Fresh (St.start c srv) := ⟨c, srv, rfl⟩
  have he := loop_endings term (St.start c srv) (inv_fresh hfresh) evs
  unfold sessionTls
  rw [hcfg]
  exact ⟨he.1, he.2.1, loop_commits_exactly term (St.start c srv) hfresh evs⟩

/-- the guard of `tls_session_safe` is forced: ForceTLS without a key pair (TLSEnabled unset) panics in startSession on
    EVERY connection, before the greeting (finding F-13tls2: `tls.Server(conn, nil).ConnectionState()`) -/
theorem forcetls_without_keypair_fails (srv : Bool) (term : Term) (evs : List Ev) :
    (sessionTls cForceNoKey srv term evs).ending = .panic ∧ (sessionTls cForceNoKey srv term evs).replies = [] := by
  simp [sessionTls, cForceNoKey]

example : (sessionTls cTls false .eof [ev cUSER, ev cSTLS, ev cPASS, ev cDELE2, ev cQUIT]).removed = [[50]] ∧
    (sessionTls cTls false .eof [ev cUSER, ev cSTLS, ev cPASS, ev cDELE2]).removed = [] ∧
    (sessionTls cTls false .eof [ev cUSER, ev cPASS, ev cDELE2, ev cSTLS, ev cQUIT]).replies.map (fun r => decide (r = .err)) =
      [false, false, false, false, true, false] := by decide

/-! ### the sessions of one server: `tlsState` per server (the pinned source) and per session (the repair) -/

/-- with `tlsState` per session every fresh connection of a server with STLS available accepts STLS, whatever happened
    on other connections -/
theorem stls_available_on_every_connection (c : Cfg) (srv : Bool) (hs : c.scope = .perSession)
    (he : c.tlsEnabled = true) (hf : c.forceTLS = false) : acceptsStls (St.start c srv) = true := by
  simp [acceptsStls, St.start, St.init, hs, he, hf]

/-- with `tlsState` per SERVER (the pinned source) that is false: once one session has had its STLS accepted — even if
    the handshake then failed — every later session of the process finds the flag set … -/
theorem stls_once_per_server (c : Cfg) (srv : Bool) (final : St) (hs : c.scope = .perServer) (ht : final.tls = true) :
    acceptsStls (St.start c (serverTlsAfter c srv final)) = false ∧
    offersStls (St.start c (serverTlsAfter c srv final)) = false := by
  simp [acceptsStls, offersStls, St.start, St.init, serverTlsAfter, hs, ht]

/-- … counter-example for the pinned source (finding F-13tls): two plaintext connections to one server, one after the
    other.  The first does STLS and quits.  The second — a NEW plaintext connection — is told by CAPA that there is no
    STLS and gets "-ERR" for STLS; with the repaired declaration it gets the capability and "+OK". -/
theorem stls_second_connection_fails :
    ((serve cTls false [(.eof, [ev cSTLS, ev cQUIT]), (.eof, [ev cCAPA, ev cSTLS])]).map (·.replies)) =
      [[.ok, .stlsBegin, .ok], [.ok, .capa capaLines, .err]] ∧
    ((serve cTlsFixed false [(.eof, [ev cSTLS, ev cQUIT]), (.eof, [ev cCAPA, ev cSTLS])]).map (·.replies)) =
      [[.ok, .stlsBegin, .ok], [.ok, .capa (capaLines ++ [kSTLS]), .stlsBegin]] := by decide

/-! ### what is on the wire -/

/-- a TLS library for the examples: the handshake succeeds iff no stray byte reaches it, and then yields `inner` -/
def exOpen (inner : Option Bytes) : Bytes → Option Bytes := fun raw => if raw.isEmpty then inner else none

/-- **No plaintext injection.**  Let the client send `w.pre` in the clear, `rest` being what it sent behind the accepted
    STLS line without waiting for the "+OK".  The session is then the session of the lines of `consumed ++ q` — `consumed`
    = `w.pre` up to and including the STLS line, `q` = what the TLS layer delivers; `rest` is not part of it.  If the
    handshake fails the session is that of `consumed`, plus the one "-ERR" written in the clear, and ends there. -/
theorem stls_no_plaintext_injection (c : Cfg) (srv : Bool) (term : Term) (store : Bytes → List Msg) (w : Wire) (rest : Bytes)
    (hf : c.forceTLS = false) (h : switchRest store (w.pre.length + 1) (St.start c srv) w.pre = some rest) :
    (∀ q, w.tlsOpen (rest.drop w.buffered) = some q →
      sessionWire c srv term store w =
        sessionTls c srv term (evsOf store (w.pre.take (w.pre.length - rest.length) ++ q))) ∧
    (w.tlsOpen (rest.drop w.buffered) = none →
      (sessionWire c srv term store w).ending = .tlsFail ∧
      (sessionWire c srv term store w).replies =
        (sessionTls c srv .eof (evsOf store (w.pre.take (w.pre.length - rest.length)))).replies ++ [.err] ∧
      (sessionWire c srv term store w).removed =
        (sessionTls c srv .eof (evsOf store (w.pre.take (w.pre.length - rest.length)))).removed) := by
  constructor
  · intro q hq
    unfold sessionWire
    simp [hf, h, hq]
  · intro hq
    unfold sessionWire
    simp [hf, h, hq]

/-- the classic attack: USER / PASS glued behind STLS in one write, then a real handshake and DELE / QUIT inside TLS -/
def exInject (buffered : Nat) : Wire :=
  { pre := cSTLS ++ cUSER ++ cPASS, buffered := buffered, tlsOpen := exOpen (some (cDELE1 ++ cQUIT)) }

/-- buffered (same write): dropped — DELE inside TLS is out of sequence, the injected login never happened -/
example : (sessionWire cTls false .eof exStore (exInject 100)).replies = [.ok, .stlsBegin, .err, .ok] ∧
    (sessionWire cTls false .eof exStore (exInject 100)).removed = [] := by decide
/-- not buffered (a later segment): the handshake reads the bytes and fails -/
example : (sessionWire cTls false .eof exStore (exInject 0)).replies = [.ok, .stlsBegin, .err] ∧
    (sessionWire cTls false .eof exStore (exInject 0)).ending = .tlsFail := by decide
example : switchRest exStore 100 (St.start cTls false) (exInject 0).pre = some (cUSER ++ cPASS) := by decide

/-- **ForceTLS.**  A client that talks in the clear to a ForceTLS server gets nothing, not even the greeting, and
    nothing is removed; a client that completes the handshake has an ordinary session on what it sends inside TLS, in
    which STLS is neither offered nor accepted. -/
theorem forcetls_sessions (c : Cfg) (srv : Bool) (term : Term) (store : Bytes → List Msg) (w : Wire)
    (hf : c.forceTLS = true) :
    (w.tlsOpen w.pre = none →
      (sessionWire c srv term store w).replies = [] ∧ (sessionWire c srv term store w).removed = []) ∧
    (∀ q, w.tlsOpen w.pre = some q → sessionWire c srv term store w = sessionTls c srv term (evsOf store q)) ∧
    acceptsStls (St.start c srv) = false ∧ offersStls (St.start c srv) = false := by
  refine ⟨?_, ?_, by simp [acceptsStls, St.start, St.init, hf], by simp [offersStls, St.start, St.init, hf]⟩
  · intro h; unfold sessionWire; simp [hf, h]
  · intro q h; unfold sessionWire; simp [hf, h]

example : (sessionWire cForce false .eof exStore { pre := cUSER ++ cPASS, buffered := 0, tlsOpen := exOpen none }).replies = [] := by
  decide
example : (sessionWire cForce false .eof exStore
    { pre := [], buffered := 0, tlsOpen := exOpen (some (cCAPA ++ cSTLS ++ cUSER ++ cPASS ++ cDELE2 ++ cQUIT)) }).removed = [[50]] := by
  decide

end Ibx.Props.C13Tls
