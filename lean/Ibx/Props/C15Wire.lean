import Ibx.Lemmas.WsWire
/-
  C15, the last hop: from the listener's queue to the WebSocket client.

  Props/C15 part 2 ends at `delivered` (what the socket writer took out of the queue).  Here the writer loop of
  pkg/rest/socketv{1,2}_controller.go (WSWriter) is modelled down to the messages it writes (Model.WsWire), the
  client is one that decodes ONE JSON value per message (gorilla ReadJSON, the web UI), and the mailbox filter of
  Receive / Delete is part of the model.  For the writer as it is (`onePerFrame`; pinned by Ibx/Tie/HubWire.lean
  to the regenerated facts of both socket controllers) and over ALL interleavings of hub, writer, reader, ticker:

    every text message carries exactly one event; the events the client decodes are exactly those the writer took
    (minus at most the one whose write failed, which ends the writer); together with what is still queued they are
    0, 1, 2, … n-1 = the first n events of the hub's order that pass the listener's filter, each once, in order, all
    of them while the listener is registered; events of other mailboxes never reach the wire; ping and close messages
    carry no event, a close message is the last message; a failed write ends the writer, whose Close() removes
    the listener.

  For the `batching k` writer (a writer that packs the events waiting in the queue into the same text message once
  k or more are waiting) the statement is FALSE: `batching_client_misses_events`.
-/
namespace Ibx.Props.C15Wire
open Ibx.Spec.HubLog Ibx.Model.WsListener Ibx.Model.WsWire Ibx.Lemmas.WsListener Ibx.Lemmas.WsWire

/-- The wire model refines the listener model: the listener part of every reachable wire state is a reachable
    state of the FIXED close protocol, whatever the writer variant, the filter and the capacity — so
    never_blocks_hub, no_send_on_closed, close_unregisters, delivered_in_order_no_loss … (Props/C15) hold of it. -/
theorem refines_listener_model {V : WsWriter} {F : Filter} {cap : Nat} {w : WSt} (h : WReach V F cap w) :
    Reach .fixed cap w.s :=
  wreach_base h

/-- … for instance: the hub is never parked on the listener, with the writer modelled down to the wire. -/
example {V : WsWriter} {F : Filter} {cap : Nat} {w : WSt} (h : WReach V F cap w) : w.s.hubBlocked = false :=
  (fixed_inv (refines_listener_model h)).notBlocked

/-! ## the writer as it is: one message per event -/

/-- Every text message on the wire carries exactly one event. -/
theorem every_text_frame_carries_one_event {F : Filter} {cap : Nat} {w : WSt} (h : WReach .onePerFrame F cap w) :
    ∀ f ∈ w.wire, ∀ evs, f = .text evs → ∃ e, evs = [e] :=
  (winv h).frames

/-- What the client has decoded, then what the writer has in hand, then what it had in hand when a write failed,
    is what the writer took out of the queue; it never has more than one event in hand, at most one write fails,
    and a failed write is the end of the writer goroutine. -/
theorem client_sees_what_the_writer_took {F : Filter} {cap : Nat} {w : WSt} (h : WReach .onePerFrame F cap w) :
    clientSees w.wire ++ w.hold ++ w.unwritten = w.s.delivered ∧ w.hold.length ≤ 1 ∧ w.unwritten.length ≤ 1 ∧
    (w.unwritten ≠ [] → w.s.writer ≠ .run) := by
  have inv := winv h
  refine ⟨inv.sees, ?_, ?_, ?_⟩
  · cases hs : w.stage with
    | select => simp [inv.holdSel hs]
    | got => obtain ⟨e, he⟩ := inv.holdGot hs; simp [he]
    | batch m => exact absurd hs (inv.noBatch m)
  · rcases inv.unwritten with hu | ⟨_, e, hu⟩ <;> simp [hu]
  · intro hne
    rcases inv.unwritten with hu | ⟨hw, _⟩
    · exact absurd hu hne
    · exact hw

/-- `clientSees wire = delivered`: with the writer at its select and no write failed, the client has decoded
    exactly the events the writer took out of the queue. -/
theorem client_sees_delivered {F : Filter} {cap : Nat} {w : WSt} (h : WReach .onePerFrame F cap w)
    (hs : w.stage = .select) (hu : w.unwritten = []) : clientSees w.wire = w.s.delivered := by
  have inv := winv h
  have := inv.sees
  rw [inv.holdSel hs, hu] at this
  simpa using this

/-- Nothing is lost, duplicated or reordered between the hub and the client: what the client has decoded, then
    what the writer has in hand (or lost to a failed write), then what is queued, is 0, 1, …, n-1, the first n
    of the events that passed the filter — all of them as long as the listener is registered — and the events
    that passed the filter are the hub's events, in the hub's order, restricted to the filter. -/
theorem client_sees_every_accepted_event_once_in_order {F : Filter} {cap : Nat} {w : WSt}
    (h : WReach .onePerFrame F cap w) :
    ∃ n, clientSees w.wire ++ w.hold ++ w.unwritten ++ w.s.buf = List.range n ∧ n ≤ w.accepted.length ∧
      (w.s.registered = true → n = w.accepted.length) ∧ w.accepted = w.offered.filter F.accepts := by
  have inv := winv h
  refine ⟨w.s.delivered.length + w.s.buf.length, ?_, ?_, ?_, inv.filt⟩
  · rw [inv.sees, inv.base.queue, inv.base.consecutive]
  · rw [inv.count]; exact inv.sentLe
  · intro hr; rw [inv.count]; exact inv.base.complete hr

/-- The same by name: the i-th event the client decodes IS the i-th event of the hub's order that passes the
    listener's filter. -/
theorem client_sees_hub_order {F : Filter} {cap : Nat} {w : WSt} (h : WReach .onePerFrame F cap w) :
    (clientSees w.wire).map (fun i => w.accepted[i]?) =
      ((w.offered.filter F.accepts).take (clientSees w.wire).length).map some := by
  obtain ⟨n, hn, hle, _, hf⟩ := client_sees_every_accepted_event_once_in_order h
  have hr : clientSees w.wire = List.range (clientSees w.wire).length :=
    prefix_of_range (b := w.hold ++ w.unwritten ++ w.s.buf) (n := n) (by simpa [List.append_assoc] using hn)
  have hl : (clientSees w.wire).length ≤ w.accepted.length := by
    have := congrArg List.length hn
    simp only [List.length_append, List.length_range] at this
    omega
  calc (clientSees w.wire).map (fun i => w.accepted[i]?)
      = (List.range (clientSees w.wire).length).map (fun i => w.accepted[i]?) := by rw [← hr]
    _ = (w.accepted.take (clientSees w.wire).length).map some := range_named _ hl
    _ = _ := by rw [hf]

/-- A served listener is served completely: registered, queue empty, writer at its select, no failed write —
    then the client has decoded every event of the hub's order that passes the filter. -/
theorem client_has_everything_when_idle {F : Filter} {cap : Nat} {w : WSt} (h : WReach .onePerFrame F cap w)
    (hr : w.s.registered = true) (hb : w.s.buf = []) (hs : w.stage = .select) (hu : w.unwritten = []) :
    (clientSees w.wire).map (fun i => w.accepted[i]?) = (w.offered.filter F.accepts).map some := by
  obtain ⟨n, hn, _, hreg, hf⟩ := client_sees_every_accepted_event_once_in_order h
  have hh := (winv h).holdSel hs
  rw [hh, hu, hb] at hn
  simp only [List.append_nil] at hn
  have hl : (clientSees w.wire).length = (w.offered.filter F.accepts).length := by
    rw [hn, List.length_range, hreg hr, hf]
  rw [client_sees_hub_order h, hl, List.take_length]

/-- Events of other mailboxes never reach the wire: every event in every message written names an event the hub
    passed to the listener and the filter accepted — so, for a listener created with a mailbox name, an event of
    that mailbox (and for a v1 listener, never a deletion). -/
theorem other_mailboxes_never_reach_the_wire {F : Filter} {cap : Nat} {w : WSt} (h : WReach .onePerFrame F cap w) :
    ∀ f ∈ w.wire, ∀ i ∈ f.events, ∃ e, w.accepted[i]? = some e ∧ e ∈ w.offered ∧ F.accepts e = true ∧
      (∀ k, F.mailbox = some k → evMailbox e = k) ∧ (F.deletes = false → ∃ m, e = .stored m) := by
  intro f hf i hi
  have inv := winv h
  have hd : i ∈ w.s.delivered := inv.onWire f hf i hi
  have hlt : i < w.accepted.length := by
    have hm : i ∈ List.range (w.s.delivered.length + w.s.buf.length) := by
      rw [← inv.base.consecutive, ← inv.base.queue]
      exact List.mem_append_left _ hd
    have := inv.sentLe
    rw [inv.count]
    simp only [List.mem_range] at hm
    omega
  have hmem : w.accepted[i] ∈ w.offered.filter F.accepts := by
    have hsub : ∀ x ∈ w.accepted, x ∈ w.offered.filter F.accepts := fun x hx => by rw [inv.filt] at hx; exact hx
    exact hsub _ (List.getElem_mem hlt)
  obtain ⟨ho, ha⟩ := List.mem_filter.1 hmem
  refine ⟨w.accepted[i], List.getElem?_eq_getElem hlt, ho, ha, ?_, ?_⟩
  · intro k hk
    simp only [Filter.accepts, hk, Bool.and_eq_true, decide_eq_true_eq] at ha
    exact ha.2
  · intro hdel
    cases he : w.accepted[i] with
    | stored m => exact ⟨m, rfl⟩
    | deleted mb id => simp [Filter.accepts, he, hdel] at ha

/-- A close message can only be the last message on the wire … -/
theorem close_frame_is_last {F : Filter} {cap : Nat} {w : WSt} (h : WReach .onePerFrame F cap w) :
    noClose w.wire.dropLast := by
  rcases (winv h).closeLast with hn | ⟨_, pre, hp, hn⟩
  · exact noClose_dropLast hn
  · rw [hp, List.dropLast_concat]; exact hn

/-- … because once it is written the writer goroutine has left its loop, and from then on no step writes anything. -/
theorem nothing_written_after_close {F : Filter} {cap : Nat} {w w' : WSt} (h : WReach .onePerFrame F cap w)
    (hc : Frame.close ∈ w.wire) (st : WStep .onePerFrame F cap w w') : w.s.writer ≠ .run ∧ w'.wire = w.wire := by
  have hw : w.s.writer ≠ .run := by
    rcases (winv h).closeLast with hn | ⟨hw, _⟩
    · exact absurd rfl (hn _ hc)
    · exact hw
  exact ⟨hw, wire_frozen h hw st⟩

/-- Ping and close messages carry no event: one step shows the client nothing new, or exactly the one event the
    writer had in hand (the write of a text message); whatever else is written leaves the client's view alone. -/
theorem step_shows_client_at_most_the_held_event {F : Filter} {cap : Nat} {w w' : WSt}
    (h : WReach .onePerFrame F cap w) (st : WStep .onePerFrame F cap w w') :
    clientSees w'.wire = clientSees w.wire ∨ ∃ e, w.hold = [e] ∧ w'.hold = [] ∧ clientSees w'.wire = clientSees w.wire ++ [e] := by
  have inv := winv h
  have hnc : w.s.writer = .run → noClose w.wire := fun hw => by
    rcases inv.closeLast with hn | ⟨hn, _⟩
    · exact hn
    · exact absurd hw hn
  cases st with
  | wWriteOne hs =>
    obtain ⟨e, he⟩ := inv.holdGot hs
    refine .inr ⟨e, he, rfl, ?_⟩
    simp [clientSees_append (hnc (inv.stageRun (by simp [hs]))), he, clientSees, Frame.decoded]
  | wWriteBatch hs => exact absurd hs (inv.noBatch _)
  | wDone ok _ hw =>
    cases ok with
    | false => exact .inl rfl
    | true => exact .inl (by simp [clientSees_append (hnc hw), clientSees])
  | wPing _ hw => exact .inl (by simp [clientSees_append (hnc hw), clientSees, Frame.decoded])
  | _ => exact .inl rfl

/-- A write that fails ends the writer goroutine: it is out of its loop, and no later step writes anything. -/
theorem write_failure_ends_the_writer {F : Filter} {cap : Nat} {w w' : WSt} (h : WReach .onePerFrame F cap w)
    (hf : w.writeFailed = true) (st : WStep .onePerFrame F cap w w') : w.s.writer ≠ .run ∧ w'.wire = w.wire :=
  ⟨(winv h).failed hf, wire_frozen h ((winv h).failed hf) st⟩

/-- … and leads to Close(): a writer that has left its loop (failed write, or `done` seen) can always take the two
    actions of Close(), after which `done` is closed and the listener's removal is queued on the hub … -/
theorem writer_exit_runs_close {V : WsWriter} {F : Filter} {cap : Nat} {w : WSt} (hw : w.s.writer = .closeSel) :
    ∃ w1 w2, WStep V F cap w w1 ∧ WStep V F cap w1 w2 ∧ w2.s.writer = .exited ∧ w2.s.done = true ∧
      0 < w2.s.rmQueued ∧ w2.wire = w.wire := by
  refine ⟨_, _, .cOnce false (by simp [St.pc, hw]), .cRm false (by simp [St.pc, St.setPc]), ?_, ?_, ?_, rfl⟩
  · simp [St.setPc]
  · simp [St.setPc]
  · simp [St.setPc]

/-- … and whenever the writer's Close() has returned, the listener is unregistered or its removal is in the hub's
    queue, which the hub (never parked) runs (Props.C15.close_unregisters, queued_removal_runs, through the refinement). -/
theorem after_writer_exit_listener_removed {V : WsWriter} {F : Filter} {cap : Nat} {w : WSt} (h : WReach V F cap w)
    (hw : w.s.writer = .exited) :
    w.s.registered = false ∨ (0 < w.s.rmQueued ∧ ∃ w', WStep V F cap w w' ∧ w'.s.registered = false) := by
  have inv := fixed_inv (wreach_base h)
  rcases inv.closed (.inr hw) with hr | hq
  · exact .inl hr
  · exact .inr ⟨hq, _, .hubRm inv.notBlocked hq, rfl⟩

/-! ### non-vacuity: concrete reachable states of the one-per-message writer -/

/-- a v2 listener on mailbox 3 -/
def f3 : Filter := ⟨some 3, true⟩
def m1 : Msg := ⟨3, 1, 0⟩
def m2 : Msg := ⟨5, 2, 0⟩
def m4 : Msg := ⟨3, 4, 0⟩

/-- hub: stored m1 (accepted), stored m2 (other mailbox), deleted 3/1 (accepted), stored m4 (accepted); the writer
    wrote two of the three, a ping in between; the third is still queued -/
def wA : WSt :=
  { s := { buf := [2], next := 3, sent := [0, 1, 2], delivered := [0, 1] },
    wire := [.text [0], .ping, .text [1]],
    offered := [.stored m1, .stored m2, .deleted 3 1, .stored m4],
    accepted := [.stored m1, .deleted 3 1, .stored m4] }

theorem reach_wA : WReach .onePerFrame f3 100 wA := by
  have r1 := WReach.step (V := .onePerFrame) (F := f3) (cap := 100) .init (.nbSend (.stored m1) (by decide) rfl rfl rfl (by decide))
  have r2 := WReach.step r1 (.hubSkip (.stored m2) rfl (by decide))
  have r3 := WReach.step r2 (.wTake (e := 0) (rest := []) rfl rfl rfl)
  have r4 := WReach.step r3 (.wWriteOne rfl (.inl rfl))
  have r5 := WReach.step r4 .tick
  have r6 := WReach.step r5 (.nbSend (.deleted 3 1) (by decide) rfl rfl rfl (by decide))
  have r7 := WReach.step r6 (.wPing rfl rfl rfl)
  have r8 := WReach.step r7 (.nbSend (.stored m4) (by decide) rfl rfl rfl (by decide))
  have r9 := WReach.step r8 (.wTake (e := 1) (rest := [2]) rfl rfl rfl)
  have r10 := WReach.step r9 (.wWriteOne rfl (.inl rfl))
  exact r10

example : clientSees wA.wire = [0, 1] ∧ wA.s.delivered = [0, 1] := ⟨by decide, rfl⟩
example : (clientSees wA.wire).map (fun i => wA.accepted[i]?) = [some (.stored m1), some (.deleted 3 1)] := by decide
example : (wA.offered.filter f3.accepts).take 2 = [.stored m1, .deleted 3 1] := by decide
example : ∃ n, clientSees wA.wire ++ wA.hold ++ wA.unwritten ++ wA.s.buf = List.range n ∧ n = 3 :=
  ⟨3, by decide, rfl⟩

/-- the slow client: capacity 2, four events while the writer is stuck in its first write; the fourth finds the
    queue full, the listener is dropped; the stuck write then fails; Close() runs; the hub removes the listener.
    The client saw nothing, event 0 was lost to the failed write, events 1 and 2 stay queued for ever. -/
def wB : WSt :=
  { s := { buf := [1, 2], next := 4, sent := [0, 1, 2], delivered := [0], done := true, doneCloses := 1,
           registered := false, rmQueued := 0, writer := .exited },
    unwritten := [0], writeFailed := true,
    offered := [evN 0, evN 1, evN 2, evN 3], accepted := [evN 0, evN 1, evN 2, evN 3] }

theorem reach_wB : WReach .onePerFrame ⟨none, true⟩ 2 wB := by
  have r1 := WReach.step (V := .onePerFrame) (F := ⟨none, true⟩) (cap := 2) .init (.nbSend (evN 0) (by decide) rfl rfl rfl (by decide))
  have r2 := WReach.step r1 (.wTake (e := 0) (rest := []) rfl rfl rfl)
  have r3 := WReach.step r2 (.nbSend (evN 1) (by decide) rfl rfl rfl (by decide))
  have r4 := WReach.step r3 (.nbSend (evN 2) (by decide) rfl rfl rfl (by decide))
  have r5 := WReach.step r4 (.nbSlow (evN 3) (by decide) rfl rfl rfl rfl (by decide))
  have r6 := WReach.step r5 (.wWriteFail (by decide) rfl)
  have r7 := WReach.step r6 (.cOnce false rfl)
  have r8 := WReach.step r7 (.cRm false rfl)
  have r9 := WReach.step r8 (.hubRm rfl (by decide))
  exact r9

example : wB.writeFailed = true ∧ wB.s.writer ≠ .run ∧ clientSees wB.wire ++ wB.hold ++ wB.unwritten = wB.s.delivered :=
  ⟨rfl, by decide, by decide⟩

/-- the served and then closed client: one event written, the reader sees the client go, Close(), the writer
    sees `done` and writes the close message -/
def wC : WSt :=
  { s := { next := 1, sent := [0], delivered := [0], done := true, doneCloses := 1, rmQueued := 1,
           reader := .exited, writer := .closeSel },
    wire := [.text [0], .close], offered := [evN 0], accepted := [evN 0] }

theorem reach_wC : WReach .onePerFrame ⟨none, true⟩ 100 wC := by
  have r1 := WReach.step (V := .onePerFrame) (F := ⟨none, true⟩) (cap := 100) .init (.nbSend (evN 0) (by decide) rfl rfl rfl (by decide))
  have r2 := WReach.step r1 (.wTake (e := 0) (rest := []) rfl rfl rfl)
  have r3 := WReach.step r2 (.wWriteOne rfl (.inl rfl))
  have r4 := WReach.step r3 (.rFail rfl)
  have r5 := WReach.step r4 (.cOnce true rfl)
  have r6 := WReach.step r5 (.cRm true rfl)
  have r7 := WReach.step r6 (.wDone true rfl rfl rfl)
  exact r7

example : Frame.close ∈ wC.wire ∧ noClose wC.wire.dropLast ∧ clientSees wC.wire = [0] := by
  refine ⟨by decide, ?_, by decide⟩
  intro f hf
  simp [wC] at hf
  subst hf
  decide

/-! ## the batching writer: the counter-witness -/

/-- A writer that, finding k or more events waiting, packs them into the SAME text message loses events for a
    one-value-per-message client WITHOUT dropping it: for every threshold k and every capacity that lets the queue
    reach it, there is a reachable state in which the listener is still registered, nothing failed, the queue is
    empty, the writer is back at its select having taken k+2 events out of the queue — and the client has decoded
    ONE.  (Seeded change C15-r6m2 is `batching 50` at capacity 100.) -/
theorem batching_client_misses_events (k cap : Nat) (hc : k + 2 ≤ cap) :
    ∃ w, WReach (.batching k) ⟨none, true⟩ cap w ∧ w.s.registered = true ∧ w.s.writer = .run ∧ w.stage = .select ∧
      w.hold = [] ∧ w.unwritten = [] ∧ w.writeFailed = false ∧ w.s.buf = [] ∧ w.s.delivered.length = k + 2 ∧
      (clientSees w.wire).length = 1 ∧ clientSees w.wire ≠ w.s.delivered := by
  -- the hub queues k+2 events
  obtain ⟨w1, r1, e1, s1, h1, i1, u1, wf1⟩ :=
    reach_offerN (V := .batching k) (F := ⟨none, true⟩) (cap := cap) (fun _ => rfl) (k + 2) .init rfl rfl rfl (by simpa using hc)
  obtain ⟨b1, d1, n1, wr1⟩ := pushN_init (k + 2)
  have f1 := pushN_fields (k + 2) ({} : St)
  have hbuf : w1.s.buf = 0 :: (List.range (k + 1)).map Nat.succ := by
    rw [e1, b1, List.range_succ_eq_map]
  -- the writer takes the first, finds k+1 ≥ k waiting, commits to k+1 more receives, performs them
  have r2 := WReach.step r1 (.wTake s1 (by rw [e1]; exact wr1) hbuf)
  have r3 := WReach.step r2 (.wBatch (k := k) rfl rfl (by simp))
  obtain ⟨w4, r4, g1, g2, g3, g4, g5, g6, g7, g8, g9⟩ := reach_takeMore ((List.range (k + 1)).map Nat.succ).length r3 rfl
    (by show w1.s.writer = .run; rw [e1]; exact wr1) (Nat.le_refl _)
  -- and writes ONE text message
  have r5 := WReach.step r4 (.wWriteBatch g1)
  simp only [List.take_length, List.drop_length] at g2 g3 g4
  have hd : w4.s.delivered.length = k + 2 := by
    rw [g3, e1, d1]; simp
  refine ⟨_, r5, ?_, g8, rfl, rfl, ?_, ?_, g4, hd, ?_, ?_⟩
  · show w4.s.registered = true
    rw [g7]; show w1.s.registered = true; rw [e1]; exact f1.1
  · show w4.unwritten = []
    rw [g6]; exact u1
  · show w4.writeFailed = false
    rw [g9]; exact wf1
  · show (clientSees (w4.wire ++ [.text w4.hold])).length = 1
    rw [g5, g2, i1]; simp [clientSees, Frame.decoded]
  · intro he
    have := congrArg List.length he
    have hl : (clientSees (w4.wire ++ [.text w4.hold])).length = 1 := by
      rw [g5, g2, i1]; simp [clientSees, Frame.decoded]
    simp only [hl] at this
    omega

/-- the seeded change: threshold 50, capacity 100 — 52 events taken, the client sees one -/
example : ∃ w, WReach (.batching 50) ⟨none, true⟩ 100 w ∧ w.s.registered = true ∧ w.s.delivered.length = 52 ∧
    (clientSees w.wire).length = 1 := by
  obtain ⟨w, r, hr, _, _, _, _, _, _, hd, hl, _⟩ := batching_client_misses_events 50 100 (by decide)
  exact ⟨w, r, hr, hd, hl⟩

/-- below the threshold the batching writer behaves: one event queued, one message, the client sees it -/
example : ∃ w, WReach (.batching 50) ⟨none, true⟩ 100 w ∧ w.wire = [.text [0]] ∧ clientSees w.wire = w.s.delivered := by
  have r1 := WReach.step (V := .batching 50) (F := ⟨none, true⟩) (cap := 100) .init (.nbSend (evN 0) (by decide) rfl rfl rfl (by decide))
  have r2 := WReach.step r1 (.wTake (e := 0) (rest := []) rfl rfl rfl)
  have r3 := WReach.step r2 (.wWriteOne rfl (.inr ⟨50, rfl, by decide⟩))
  exact ⟨_, r3, rfl, rfl⟩

/-! ## the executable scheduler of the driver (mode `wswire`) walks the proved relation -/

/-- every state the driver's scheduler produces from a reachable state is reachable -/
theorem driver_schedule_is_a_run {V : WsWriter} {F : Filter} {cap : Nat} {w w' : WSt} {a : Act}
    (h : WReach V F cap w) (ha : act V F cap w a = some w') : WReach V F cap w' :=
  .step h (act_sound ha)

example : act .onePerFrame f3 100 {} (.offer (.stored m1) false) =
    some { s := ({} : St).push, offered := [.stored m1], accepted := [.stored m1] } := rfl

end Ibx.Props.C15Wire
