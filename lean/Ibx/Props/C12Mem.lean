import Ibx.Lemmas.ScanMemVisit
/-
  C12 on the memory store, at lock granularity: the retention scan is a CLIENT PROGRAM of the interleaving model of
  pkg/storage/mem (Ibx/Model/ConcMem.lean: store mutex, mailbox RW locks, critical sections, the rendezvous with the
  size-enforcer goroutine) — Ibx/Model/ScanMem.lean — running among any family of other client threads (deliveries
  with cap / maxkb evictions, removals, purges, reads) and the enforcer.  Props/C12.lean treats `RemoveMessage` as an
  atomic step that always returns; here it is the step program the code executes, and "it returns" is a theorem
  about the variant of the store the source has (`Tie/Conc.lean: memEnforcerCallSite_tie`, pinned under C12 too):

    (a) `no_deadlock`, `scan_never_blocks_forever`  — no reachable state is stuck, and from every reachable state
        there is a continuation (steps of the system only) in which the scan returns; every call of the scan returns
        (`remove_call_returns`, `list_call_returns`), every callback ends (`callback_ends`); the continuations consist
        of completing the operations in flight, no thread beginning a new one (`in_flight_operations_complete`);
    (b) `scan_removes_only_snapshot_expired`, `scanner_runs_only_its_calls`, `fresh_delivery_never_removed_by_scan`,
        `later_delivery_not_in_snapshot`, `snapshot_expired_gone`, `visited_expired_gone`;
    (c) `cancel_observed_between_mailboxes`.
  For the other call site (a rendezvous inside the mailbox critical section) `scan_blocks_forever_insideLock` is the
  counter-witness: a reachable state in which the scanner holds the mailbox lock and waits for the enforcer while the
  enforcer waits for that lock — nothing moves any more, cancel or not.
-/
namespace Ibx.Props.C12Mem
open Ibx.Model Ibx.Model.ConcMem Ibx.Model.ScanMem

/-- the memory store as it is: `gone` protocol, enforcer calls outside the mailbox lock -/
abbrev code : Variant := Variant.code

/-! ## (a) the scan never blocks forever -/

/-- **no_deadlock.**  In every reachable state of the scanner running among any clients and the enforcer, unless the
    scan has returned and every thread is done, a step of the system is enabled (the cancel signal is not counted:
    it is the environment's).  The store part is `C09.deadlock_free`'s argument; the scanner adds its own waits: the
    store mutex for the name snapshot (free, or its holder can move) and the returns of its calls. -/
theorem no_deadlock (c : Cfg) (e : Env) (progs : Nat → List Op) (σ : ScanMem.St) (h : Reach code c e progs σ)
    (hnf : ¬ Finished σ) : ∃ σ', SStep code c e σ σ' := by
  have hS := reach_sound (v := code) rfl rfl h
  by_cases hfin : Final σ.mem
  · have rest : atRest e σ.mem := ⟨hS.np, (hfin e.t0).1, (hfin e.t0).2⟩
    cases hph : σ.phase with
    | init =>
      rcases slock_free_or_step (v := code) (c := c) hS.np hS.lock with q | ⟨m', q⟩
      · exact ⟨_, SStep.lockNames [] hph hS.np q⟩
      · exact ⟨_, SStep.base q (fun nm hn => by rw [hph] at hn; cases hn)⟩
    | names nm => exact ⟨_, SStep.unlockNames nm hph hS.np⟩
    | visit todo =>
      cases todo with
      | nil => exact ⟨_, SStep.visitEnd hph hS.np⟩
      | cons b todo => exact ⟨_, SStep.visitNext b todo hph rest⟩
    | listing b todo =>
      have := reach_track h
      simp only [Track, hph] at this
      rcases this with ⟨_, q⟩ | ⟨_, q⟩ | ⟨_, _, r, q⟩
      · rw [rest.2.2] at q; cases q
      · rw [rest.2.1] at q; cases q
      · exact ⟨_, SStep.gotList b todo r hph rest q⟩
    | sweep b p todo =>
      cases p with
      | nil => exact ⟨_, SStep.sweepEnd b todo hph hS.np⟩
      | cons i p =>
        by_cases hx : e.date (b, i) < e.cutoff
        · exact ⟨_, SStep.sweepCall b i p todo hph rest hx⟩
        · exact ⟨_, SStep.sweepSkip b i p todo hph hS.np hx⟩
    | removing b i p todo => exact ⟨_, SStep.returned b i p todo hph rest⟩
    | check todo =>
      cases hc : σ.cancelled with
      | true => exact ⟨_, SStep.checkStop todo hph hS.np hc⟩
      | false => exact ⟨_, SStep.checkGo todo hph hS.np (Or.inl hc)⟩
    | done a => exact absurd ⟨⟨a, hph⟩, hfin⟩ hnf
  · by_cases hn : ∃ nm, σ.phase = .names nm
    · obtain ⟨nm, hn⟩ := hn
      exact ⟨_, SStep.unlockNames nm hn hS.np⟩
    · obtain ⟨m', q⟩ := progress (v := code) (c := c) hS.np hS.lock hS.shape hfin
      exact ⟨_, SStep.base q (fun nm hq => absurd ⟨nm, hq⟩ hn)⟩

/-- **scan_never_blocks_forever.**  From every reachable state: (1) unless everything is finished some step of the
    system is enabled, and (2) there is a finite continuation, made of steps of the system alone, at whose end the
    scan has returned.  The continuation is built from `settle` — the operations in flight (the scanner's included)
    are completed by the threads inside them and the enforcer, no thread beginning a new operation; each such step
    lowers a lexicographic measure (Lemmas/ConcMemDrain.lean) — followed by the scanner's next move, which is then
    enabled.  `nm` is the name list taken if the scan has not read the names yet (any list will do). -/
theorem scan_never_blocks_forever (c : Cfg) (e : Env) (progs : Nat → List Op) (σ : ScanMem.St)
    (h : Reach code c e progs σ) (nm : List Nat) :
    (¬ Finished σ → ∃ σ', SStep code c e σ σ') ∧ ∃ σ', Steps code c e σ σ' ∧ ∃ a, σ'.phase = .done a :=
  ⟨no_deadlock c e progs σ h, finish_any (v := code) rfl rfl h nm⟩

/-- **operations in flight can always be completed** (what the continuations are made of): from every reachable
    state in which the scanner is not holding the store mutex for its name snapshot (then its own unlock is enabled),
    steps of the store alone — the threads that are inside an operation and the enforcer; NO thread begins a new
    operation, so this does not rely on any other client doing anything more — lead to a state in which every
    thread, the scanner's included, is between operations, the enforcer is in its `select`, and no lock is held.
    After it the scanner's next move is enabled. -/
theorem in_flight_operations_complete (c : Cfg) (e : Env) (progs : Nat → List Op) (σ : ScanMem.St)
    (h : Reach code c e progs σ) (hph : ∀ nm, σ.phase ≠ .names nm) :
    ∃ m', Steps code c e σ { σ with mem := m' } ∧ (∀ t, m'.thr t = .idle) ∧ m'.epc = .idle ∧ m'.prog = σ.mem.prog ∧
      m'.slock = none ∧ ∀ b, m'.wlock b = none ∧ ∀ t, m'.rlock b t = false := by
  obtain ⟨m', p, q, w, g⟩ := settle (v := code) rfl rfl h hph
  exact ⟨m', p, q.1, q.2, g, (quiet_locks_free w q).1, (quiet_locks_free w q).2⟩

/-- **every RemoveMessage call of the scan returns**: from any point of the call (issued, waiting for the store
    mutex, for the mailbox lock, for the enforcer to take the removal, for its `done`) there is a continuation
    after which the call has returned to the callback — and the message is no longer in its mailbox.  This is what
    realises the atomic `remove` action of Model/Retention.lean (and `procEnd` of Model/Shutdown.lean) here. -/
theorem remove_call_returns (c : Cfg) (e : Env) (progs : Nat → List Op) (σ : ScanMem.St) (h : Reach code c e progs σ)
    (b i : Nat) (p todo : List Nat) (hph : σ.phase = .removing b i p todo) :
    ∃ σ', Steps code c e σ σ' ∧ σ'.phase = .sweep b p todo ∧ σ'.snaps = σ.snaps ∧ σ'.calls = σ.calls ∧
      σ'.cancelled = σ.cancelled ∧ i ∉ (σ'.mem.boxes b).msgs := by
  have hn : ∀ nm, σ.phase ≠ .names nm := by intro nm q; rw [hph] at q; cases q
  obtain ⟨m1, p1, a1, _⟩ := complete_op (v := code) rfl rfl h (.remove b i) hn (fun σ' r' hp' => by
    have := reach_track r'; simpa [Track, hp', hph] using this)
  have r1 := h.steps p1
  have hd : Dead m1 (b, i) := by
    rcases (reach_scanInv r1).rem b i p todo hph with q | q
    · exfalso
      obtain ⟨_, h1, h2⟩ := a1
      rcases q with ⟨_, q⟩ | q | q | q | q
      · rw [h2] at q; cases q
      all_goals (rw [h1] at q; cases q)
    · exact q
  exact ⟨_, Steps.step p1 (SStep.returned b i p todo hph a1), rfl, rfl, rfl, rfl, hd.1⟩

/-- **every GetMessages call of the scan returns** with a snapshot -/
theorem list_call_returns (c : Cfg) (e : Env) (progs : Nat → List Op) (σ : ScanMem.St) (h : Reach code c e progs σ)
    (b : Nat) (todo : List Nat) (hph : σ.phase = .listing b todo) :
    ∃ σ' l, Steps code c e σ σ' ∧ σ'.phase = .sweep b l todo ∧ σ'.snaps = σ.snaps ++ [(b, l)] ∧
      σ'.calls = σ.calls ∧ σ'.cancelled = σ.cancelled := by
  have hn : ∀ nm, σ.phase ≠ .names nm := by intro nm q; rw [hph] at q; cases q
  obtain ⟨m1, p1, a1, r, l1⟩ := complete_op (v := code) rfl rfl h (.list b) hn (fun σ' r' hp' => by
    have := reach_track r'; simpa [Track, hp', hph] using this)
  exact ⟨_, idsOf r, Steps.step p1 (SStep.gotList b todo r hph a1 l1), rfl, rfl, rfl, rfl⟩

/-- **every callback ends**: from anywhere inside the callback of a mailbox there is a continuation to the `select`
    that ends it (where a cancelled context is observed) -/
theorem callback_ends (c : Cfg) (e : Env) (progs : Nat → List Op) (σ : ScanMem.St) (h : Reach code c e progs σ)
    (b : Nat) (p todo : List Nat) (hph : σ.phase = .sweep b p todo ∨ ∃ i, σ.phase = .removing b i p todo) :
    ∃ σ', Steps code c e σ σ' ∧ σ'.phase = .check todo := by
  rcases hph with hph | ⟨i, hph⟩
  · exact finish_sweep (v := code) rfl rfl b todo p σ h hph
  · obtain ⟨σ1, p1, q1, _⟩ := remove_call_returns c e progs σ h b i p todo hph
    obtain ⟨σ2, p2, q2⟩ := finish_sweep (v := code) rfl rfl b todo p σ1 (h.steps p1) q1
    exact ⟨σ2, p1.trans p2, q2⟩

/-! ## (b) what the scan removes -/

/-- **scan_removes_only_snapshot_expired.**  Every RemoveMessage critical section the scanner's thread ever ran —
    in any interleaving — was for a message that is in one of the snapshots the scan took of that mailbox and is
    dated before the cutoff; and it was one of the scan's recorded calls. -/
theorem scan_removes_only_snapshot_expired (v : Variant) (c : Cfg) (e : Env) (progs : Nat → List Op) (σ : ScanMem.St)
    (h : Reach v c e progs σ) (b i : Nat) (r : Ret) (hm : (Who.cl e.t0, Op.remove b i, r) ∈ σ.mem.lin) :
    (b, i) ∈ σ.calls ∧ e.date (b, i) < e.cutoff ∧ ∃ l, (b, l) ∈ σ.snaps ∧ i ∈ l := by
  have hk : (b, i) ∈ σ.calls := by
    rcases (reach_opsInv h).lin _ r hm with ⟨b', q⟩ | ⟨k, hk, q⟩
    · cases q
    · simp only [Op.remove.injEq] at q
      obtain ⟨rfl, rfl⟩ := q
      exact hk
  obtain ⟨h1, l, h2, h3⟩ := (reach_scanInv h).callsOK _ hk
  exact ⟨hk, h1, l, h2, h3⟩

/-- the scanner's thread runs nothing but GetMessages and those RemoveMessage calls (no purge, no delivery) -/
theorem scanner_runs_only_its_calls (v : Variant) (c : Cfg) (e : Env) (progs : Nat → List Op) (σ : ScanMem.St)
    (h : Reach v c e progs σ) (o : Op) (r : Ret) (hm : (Who.cl e.t0, o, r) ∈ σ.mem.lin) :
    (∃ b, o = .list b) ∨ ∃ k ∈ σ.calls, o = .remove k.1 k.2 :=
  (reach_opsInv h).lin o r hm

/-- **a delivery that lands at any point of the interleaving is never removed by the scan**: if a delivery returned
    id `i` in mailbox `b` and its date is not before the cutoff, the scanner's thread has run no RemoveMessage
    critical section for `(b, i)`, and the message is in its mailbox unless a critical section of somebody else (a
    client's removal or purge, the cap loop of a delivery, the enforcer's eviction) deleted it
    (`C09.delivered_stays` at this granularity; ids are never re-issued: `C09.ids_distinct`, so `(b, i)` denotes
    this message and no other). -/
theorem fresh_delivery_never_removed_by_scan (v : Variant) (c : Cfg) (e : Env) (progs : Nat → List Op)
    (σ : ScanMem.St) (h : Reach v c e progs σ) (t b sz i : Nat) (hd : (t, Op.add b sz, Ret.id i) ∈ σ.mem.hist)
    (hfresh : e.cutoff ≤ e.date (b, i)) :
    (∀ r, (Who.cl e.t0, Op.remove b i, r) ∉ σ.mem.lin) ∧ (b, i) ∉ σ.calls ∧
    (i ∈ (σ.mem.boxes b).msgs ∨ (b, i) ∈ σ.mem.removed) := by
  have hM := reach_memInv h
  refine ⟨fun r hm => ?_, fun hk => ?_, ?_⟩
  · have := (scan_removes_only_snapshot_expired v c e progs σ h b i r hm).2.1; omega
  · have := ((reach_scanInv h).callsOK _ hk).1; omega
  · have hl := hM.ret.1 _ hd
    have hi : i ∈ σ.mem.lin.filterMap (addId b) := List.mem_filterMap.mpr ⟨_, hl, by simp [addId]⟩
    have hb := (hM.ids b).2 i hi
    exact hM.del b i hb.1 hb.2

/-- **a delivery after a snapshot is not in it**: the id the next delivery to mailbox `b` will get
    (`mb.last + 1`) is in no snapshot taken of `b` so far, and not in the pending list of the callback — a snapshot
    entry can never come to denote mail delivered later -/
theorem later_delivery_not_in_snapshot (v : Variant) (c : Cfg) (e : Env) (progs : Nat → List Op) (σ : ScanMem.St)
    (h : Reach v c e progs σ) (b : Nat) :
    (∀ l, (b, l) ∈ σ.snaps → (σ.mem.boxes b).last + 1 ∉ l) ∧
    (∀ p todo, σ.phase = .sweep b p todo → (σ.mem.boxes b).last + 1 ∉ p) ∧
    (Atomic.step c σ.mem.abs (.add b 0)).2.1 = .id ((σ.mem.boxes b).last + 1) := by
  have hI := reach_scanInv h
  refine ⟨fun l hl hm => ?_, fun p todo hph hm => ?_, step_ret_add c σ.mem.abs b 0⟩
  · have := hI.snapB b l hl _ hm; omega
  · obtain ⟨l, hl, hs⟩ := hI.pend b p todo hph
    have := hI.snapB b l hl _ (hs _ hm); omega

/-- **every expired snapshot message is gone when the scan has returned** — aborted or not: removed by the scan, by
    another client, or evicted — and whenever the scanner is outside the callback this already holds of all the
    snapshots taken so far.  (A message that has left its mailbox never comes back: `dead_step`.) -/
theorem snapshot_expired_gone (v : Variant) (c : Cfg) (e : Env) (progs : Nat → List Op) (σ : ScanMem.St)
    (h : Reach v c e progs σ) (hout : ∀ b p todo, σ.phase ≠ .sweep b p todo ∧ ∀ i, σ.phase ≠ .removing b i p todo)
    (b : Nat) (l : List Nat) (hl : (b, l) ∈ σ.snaps) (i : Nat) (hi : i ∈ l) (hx : e.date (b, i) < e.cutoff) :
    i ∉ (σ.mem.boxes b).msgs :=
  ((reach_scanInv h).gone_dead (fun b p todo => (hout b p todo).1) (fun b i p todo => (hout b p todo).2 i) b l hl i hi hx).1

/-- the same, at the end of the scan -/
theorem snapshot_expired_gone_at_end (v : Variant) (c : Cfg) (e : Env) (progs : Nat → List Op) (σ : ScanMem.St)
    (h : Reach v c e progs σ) (a : Bool) (hd : σ.phase = .done a)
    (b : Nat) (l : List Nat) (hl : (b, l) ∈ σ.snaps) (i : Nat) (hi : i ∈ l) (hx : e.date (b, i) < e.cutoff) :
    i ∉ (σ.mem.boxes b).msgs :=
  snapshot_expired_gone v c e progs σ h (fun b p todo => ⟨by simp [hd], fun i => by simp [hd]⟩) b l hl i hi hx

/-- **every expired message of a visited mailbox is gone when the scan returns un-aborted.**  If message `(b, i)` was
    in mailbox `b` when VisitMailboxes read the mailbox names, `b` is among those names, and the message is older
    than the cutoff, then after an un-aborted scan it is not in its mailbox — whatever deliveries (with their cap
    and size evictions), removals and purges ran in between, at lock granularity: by the time GetMessages(b) reached
    its critical section the message was gone or it is in the snapshot (`snapshot_expired_gone`).  This is
    `C12.interleaved_expired_gone` with `RemoveMessage` and `GetMessages` as the step programs the memory store
    executes. -/
theorem visited_expired_gone (v : Variant) (c : Cfg) (e : Env) (progs : Nat → List Op) (σ : ScanMem.St)
    (h : Reach v c e progs σ) (hd : σ.phase = .done false) (b i : Nat) (hm : i ∈ (σ.boxes0 b).msgs)
    (hb : b ∈ σ.names0) (hx : e.date (b, i) < e.cutoff) : i ∉ (σ.mem.boxes b).msgs := by
  rcases (reach_visitInv h b i ⟨hm, hb, hx, by simp [hd]⟩).2 with q | q
  · exact q.1
  · simp [Cover, hd] at q

/-! ## (c) cancellation -/

/-- **cancel_observed_between_mailboxes.**  Once the context is cancelled (timer case of the select not ready, as in
    `C12.cancel_bounded`), in EVERY continuation — steps of the system and further cancels — the scan takes at most
    one more mailbox snapshot, and none if it has a mailbox in hand; with a mailbox in hand it makes at most the
    RemoveMessage calls left for that snapshot and can only end aborted.  And — this is what the atomic model could
    not say — there IS a continuation in which it does end: the calls left return (`remove_call_returns`), the
    callback reaches its `select`, the cancelled context is observed there. -/
theorem cancel_observed_between_mailboxes (c : Cfg) (e : Env) (progs : Nat → List Op) (σ : ScanMem.St)
    (h : Reach code c e progs σ) (ht : e.timerReady = false) (hc : σ.cancelled = true) :
    (∀ σ', Run code c e σ σ' →
      σ'.snaps.length ≤ σ.snaps.length + snapBudget σ.phase ∧
      (inHand σ.phase → σ'.snaps = σ.snaps ∧ σ'.calls.length ≤ σ.calls.length + callBudget σ.phase) ∧
      (abortsOnly σ.phase → ∀ a, σ'.phase = .done a → a = true)) ∧
    ∃ σ', Steps code c e σ σ' ∧ ∃ a, σ'.phase = .done a := by
  refine ⟨fun σ' p => ?_, finish_any (v := code) rfl rfl h []⟩
  obtain ⟨_, h2, h3, h4⟩ := cancel_run ht p hc
  refine ⟨by omega, fun hh => ?_, fun hh a ha => ?_⟩
  · obtain ⟨_, a2, a3⟩ := h3 hh
    exact ⟨a2, by omega⟩
  · have := h4 hh
    rw [ha] at this
    cases a with
    | true => rfl
    | false => cases this

/-! ## explicit schedules: the counter-witness for the other call site, and non-vacuity -/

/-- a rendezvous with the enforcer from inside the mailbox critical section (what `Tie.Conc.memEnforcerCallSite_tie`
    excludes): `RemoveMessage` reports the removal before it unlocks the mailbox -/
def inside : Variant := { remove := .goneFlag, site := .insideLock }
/-- no cap, a byte limit of 3 -/
def cfg3 : Cfg := { cap := 0, limit := 3 }
/-- thread 0 scans with cutoff 10; message (0, 1) is old, everything else is new -/
def envW : Env := { t0 := 0, date := fun k => if k = (0, 1) then 0 else 100, cutoff := 10, timerReady := false }
/-- thread 1 delivers two messages of 2 bytes, to mailbox 0 and to mailbox 1: the second exceeds the limit -/
def progsW : Nat → List Op := fun t => if t = 1 then [.add 0 2, .add 1 2] else []

private theorem stuck_mem {v c} {s : ConcMem.St} (t1 : Nat) (k : Key) (w : Who) (he : s.epc = .evLockB t1 k)
    (hw : s.wlock k.1 = some w)
    (ht : ∀ t, (s.thr t = .idle ∧ s.prog t = []) ∨ (∃ o todo r, s.thr t = .wait o todo r) ∨
      ∃ o k' todo r, s.thr t = .run o (.rem k' :: todo) r) :
    ∀ s', ¬ Step v c s s' := by
  intro s' st
  cases st with
  | start t o rest hp h1 h2 => rcases ht t with h | ⟨o', td, r, h⟩ | ⟨o', k', td, r, h⟩ <;> simp_all
  | lockS t o hp h1 h2 => rcases ht t with h | ⟨o', td, r, h⟩ | ⟨o', k', td, r, h⟩ <;> simp_all
  | unlockS t o hp h1 => rcases ht t with h | ⟨o', td, r, h⟩ | ⟨o', k', td, r, h⟩ <;> simp_all
  | lockB t o hp h1 h2 => rcases ht t with h | ⟨o', td, r, h⟩ | ⟨o', k', td, r, h⟩ <;> simp_all
  | crit t o hp h1 => rcases ht t with h | ⟨o', td, r, h⟩ | ⟨o', k', td, r, h⟩ <;> simp_all
  | unlockB t o todo r hp h1 => rcases ht t with h | ⟨o', td, r', h⟩ | ⟨o', k', td, r', h⟩ <;> simp_all
  | sendInc t o k todo r hp h1 h2 => rcases ht t with h | ⟨o', td, r', h⟩ | ⟨o', k', td, r', h⟩ <;> simp_all
  | sendRem t o k todo r hp h1 h2 => rw [he] at h2; cases h2
  | finish t o r hp h1 => rcases ht t with h | ⟨o', td, r', h⟩ | ⟨o', k', td, r', h⟩ <;> simp_all
  | evLockB t k' hp h1 h2 h3 => rw [he] at h1; injection h1 with e1 e2; subst e2; simp_all
  | _ => simp_all

private theorem stuck_scan {v c e} {σ : ScanMem.St} {b i : Nat} {p todo : List Nat} (hph : σ.phase = .removing b i p todo)
    (hthr : σ.mem.thr e.t0 ≠ .idle) (hm : ∀ m', ¬ Step v c σ.mem m') : ∀ σ', ¬ SStep v c e σ σ' := by
  intro σ' st
  cases st with
  | base st' _ => exact hm _ st'
  | returned b' i' p' todo' _ hr => exact hthr hr.2.1
  | lockNames nm h _ _ | unlockNames nm h _ | visitEnd h _ | visitNext _ _ h _ | gotList _ _ _ h _ _
  | sweepSkip _ _ _ _ h _ _ | sweepCall _ _ _ _ h _ _ | sweepEnd _ _ h _ | checkStop _ h _ _ | checkGo _ h _ _ =>
    rw [hph] at h; cases h

private theorem stuck_forever {v c e} {σ : ScanMem.St} {b i : Nat} {p todo : List Nat} (hph : σ.phase = .removing b i p todo)
    (hthr : σ.mem.thr e.t0 ≠ .idle) (hm : ∀ m', ¬ Step v c σ.mem m') :
    ∀ σ', Run v c e σ σ' → σ'.mem = σ.mem ∧ σ'.phase = σ.phase := by
  intro σ' r
  induction r with
  | refl => exact ⟨rfl, rfl⟩
  | cancel _ ih => exact ih
  | step _ st ih =>
    exfalso
    exact stuck_scan (e := e) (hph := by rw [ih.2]; exact hph) (by rw [ih.1]; exact hthr) (by rw [ih.1]; exact hm) _ st


/-- **scan_blocks_forever_insideLock** (counter-witness).  With the rendezvous inside the mailbox critical section
    the scan can be stuck for good.  Schedule (38 steps): thread 1 delivers (0, 1); the scan snapshots mailbox 0,
    finds (0, 1) expired and enters `RemoveMessage(0, 1)`: store mutex, mailbox 0 WRITE lock, delete — and now has to
    hand the removal to the enforcer before unlocking.  Meanwhile thread 1 delivers (1, 1) to ANOTHER mailbox, the
    enforcer registers it, finds the store over its limit and goes to evict the oldest message it knows, (0, 1):
    it waits for the write lock of mailbox 0.  The scanner waits for the enforcer's `select`, the enforcer for the
    scanner's lock, thread 1 for the enforcer's `done`.  From this reachable state NO step of the system is
    enabled, and in every continuation (the environment may cancel as often as it likes) the store and the scan's
    phase stay what they are: `DoScan` never returns, the cancelled context is never observed, `Join` hangs, every
    later delivery blocks behind the enforcer. -/
theorem scan_blocks_forever_insideLock :
    ∃ σ, Reach inside cfg3 envW progsW σ ∧
      σ.phase = .removing 0 1 [] [] ∧
      σ.mem.wlock 0 = some (.cl 0) ∧
      σ.mem.thr 0 = .run (.remove 0 1) [.rem (0, 1), .unlock] .ok ∧
      σ.mem.epc = .evLockB 1 (0, 1) ∧
      σ.mem.panic = false ∧
      ∀ σ', Run inside cfg3 envW σ σ' → σ'.mem = σ.mem ∧ σ'.phase = σ.phase := by
  have r0 : Reach inside cfg3 envW progsW _ := Reach.init
  have b (σ) (m') (st : Step inside cfg3 σ.mem m') (hq : ∀ nm, σ.phase = .names nm → m'.slock = none) :
      SStep inside cfg3 envW σ { σ with mem := m' } := SStep.base st hq
  have r1 := Reach.step r0 (SStep.base (Step.start 1 (.add 0 2) [.add 1 2] rfl rfl rfl) (fun _ h => by cases h))
  have r2 := Reach.step r1 (SStep.base (Step.lockS 1 (.add 0 2) rfl rfl rfl) (fun _ h => by cases h))
  have r3 := Reach.step r2 (SStep.base (Step.unlockS 1 (.add 0 2) rfl rfl) (fun _ h => by cases h))
  have r4 := Reach.step r3 (SStep.base (Step.lockB 1 (.add 0 2) rfl rfl ⟨rfl, fun _ _ => rfl⟩) (fun _ h => by cases h))
  have r5 := Reach.step r4 (SStep.base (Step.crit 1 (.add 0 2) rfl rfl) (fun _ h => by cases h))
  have r6 := Reach.step r5 (SStep.base (Step.sendInc 1 (.add 0 2) (0, 1) [.unlock] (.id 1) rfl rfl rfl) (fun _ h => by cases h))
  have r7 := Reach.step r6 (SStep.base (Step.incReg 1 (0, 1) rfl rfl rfl) (fun _ h => by cases h))
  have r8 := Reach.step r7 (SStep.base (Step.loopDone 1 rfl rfl (by decide)) (fun _ h => by cases h))
  have r9 := Reach.step r8 (SStep.base (Step.fin 1 rfl rfl) (fun _ h => by cases h))
  have r10 := Reach.step r9 (SStep.base (Step.unlockB 1 (.add 0 2) [] (.id 1) rfl rfl) (fun _ h => by cases h))
  have r11 := Reach.step r10 (SStep.base (Step.finish 1 (.add 0 2) (.id 1) rfl rfl) (fun _ h => by cases h))
  have r12 := Reach.step r11 (SStep.lockNames [0] rfl rfl rfl)
  have r13 := Reach.step r12 (SStep.unlockNames [0] rfl rfl)
  have r14 := Reach.step r13 (SStep.visitNext 0 [] rfl ⟨rfl, rfl, rfl⟩)
  have nb : ∀ {ph : Phase} (nm : List Nat), ph = .names nm → ph = .names nm := fun _ h => h
  have r15 := Reach.step r14 (SStep.base (Step.start 0 (.list 0) [] rfl rfl rfl) (fun _ h => by cases h))
  have r16 := Reach.step r15 (SStep.base (Step.lockS 0 (.list 0) rfl rfl rfl) (fun _ h => by cases h))
  have r17 := Reach.step r16 (SStep.base (Step.unlockS 0 (.list 0) rfl rfl) (fun _ h => by cases h))
  have r18 := Reach.step r17 (SStep.base (Step.lockB 0 (.list 0) rfl rfl ⟨rfl, fun h => by cases h⟩) (fun _ h => by cases h))
  have r19 := Reach.step r18 (SStep.base (Step.crit 0 (.list 0) rfl rfl) (fun _ h => by cases h))
  have r20 := Reach.step r19 (SStep.base (Step.unlockB 0 (.list 0) [] (.ids [1]) rfl rfl) (fun _ h => by cases h))
  have r21 := Reach.step r20 (SStep.base (Step.finish 0 (.list 0) (.ids [1]) rfl rfl) (fun _ h => by cases h))
  have r22 := Reach.step r21 (SStep.gotList 0 [] (.ids [1]) rfl ⟨rfl, rfl, rfl⟩ rfl)
  have r23 := Reach.step r22 (SStep.sweepCall 0 1 [] [] rfl ⟨rfl, rfl, rfl⟩ (by decide))
  have r24 := Reach.step r23 (SStep.base (Step.start 0 (.remove 0 1) [] rfl rfl rfl) (fun _ h => by cases h))
  have r25 := Reach.step r24 (SStep.base (Step.lockS 0 (.remove 0 1) rfl rfl rfl) (fun _ h => by cases h))
  have r26 := Reach.step r25 (SStep.base (Step.unlockS 0 (.remove 0 1) rfl rfl) (fun _ h => by cases h))
  have r27 := Reach.step r26 (SStep.base (Step.lockB 0 (.remove 0 1) rfl rfl ⟨rfl, fun _ t' => by
    by_cases e : t' = 0 <;> simp [upd, e, acquire, release, critEff, Op.isWrite, Op.box, issue, start, ConcMem.init]⟩) (fun _ h => by cases h))
  have r28 := Reach.step r27 (SStep.base (Step.crit 0 (.remove 0 1) rfl rfl) (fun _ h => by cases h))
  have r29 := Reach.step r28 (SStep.base (Step.start 1 (.add 1 2) [] rfl rfl rfl) (fun _ h => by cases h))
  have r30 := Reach.step r29 (SStep.base (Step.lockS 1 (.add 1 2) rfl rfl rfl) (fun _ h => by cases h))
  have r31 := Reach.step r30 (SStep.base (Step.unlockS 1 (.add 1 2) rfl rfl) (fun _ h => by cases h))
  have r32 := Reach.step r31 (SStep.base (Step.lockB 1 (.add 1 2) rfl rfl ⟨rfl, fun _ _ => rfl⟩) (fun _ h => by cases h))
  have r33 := Reach.step r32 (SStep.base (Step.crit 1 (.add 1 2) rfl rfl) (fun _ h => by cases h))
  have r34 := Reach.step r33 (SStep.base (Step.sendInc 1 (.add 1 2) (1, 1) [.unlock] (.id 1) rfl rfl rfl) (fun _ h => by cases h))
  have r35 := Reach.step r34 (SStep.base (Step.incReg 1 (1, 1) rfl rfl rfl) (fun _ h => by cases h))
  have r36 := Reach.step r35 (SStep.base (Step.loopEvict 1 (0, 1) [(1, 1)] rfl rfl (by decide) rfl) (fun _ h => by cases h))
  have r37 := Reach.step r36 (SStep.base (Step.evLockS 1 (0, 1) rfl rfl rfl) (fun _ h => by cases h))
  have r38 := Reach.step r37 (SStep.base (Step.evUnlockS 1 (0, 1) rfl rfl) (fun _ h => by cases h))
  refine ⟨_, r38, rfl, rfl, rfl, rfl, rfl, ?_⟩
  apply stuck_forever (e := envW) rfl (fun h => by
    have h2 : PC.run (.remove 0 1) [.rem (0, 1), .unlock] .ok = PC.idle := h
    cases h2)
  apply stuck_mem 1 (0, 1) (.cl 0) rfl rfl
  intro t
  by_cases e0 : t = 0
  · subst e0; right; right; exact ⟨_, _, _, _, rfl⟩
  · by_cases e1 : t = 1
    · subst e1; right; left; exact ⟨_, _, _, rfl⟩
    · left; simp [upd, e0, e1, ConcMem.init, critEff, acquire, release, progsW, issue, start, envW]


/-- **the same race in the code as it is** (non-vacuity of (a), and the reason the counter-witness is one): the
    same deliveries, the same scan, the enforcer again waiting for the write lock of mailbox 0 to evict (0, 1) while
    the scan is inside `RemoveMessage(0, 1)` — but the scan has UNLOCKED the mailbox before it waits for the
    enforcer, so the lock is free and the enforcer can go on. -/
theorem race_state_reachable_in_code : ∃ σ, Reach code cfg3 envW progsW σ ∧ σ.phase = .removing 0 1 [] [] ∧
    σ.mem.thr 0 = .run (.remove 0 1) [.rem (0, 1)] .ok ∧ σ.mem.epc = .evLockB 1 (0, 1) ∧ σ.mem.wlock 0 = none ∧
    ¬ Finished σ := by
  have r0 : Reach code cfg3 envW progsW _ := Reach.init
  have r1 := Reach.step r0 (SStep.base (Step.start 1 (.add 0 2) [.add 1 2] rfl rfl rfl) (fun _ h => by cases h))
  have r2 := Reach.step r1 (SStep.base (Step.lockS 1 (.add 0 2) rfl rfl rfl) (fun _ h => by cases h))
  have r3 := Reach.step r2 (SStep.base (Step.unlockS 1 (.add 0 2) rfl rfl) (fun _ h => by cases h))
  have r4 := Reach.step r3 (SStep.base (Step.lockB 1 (.add 0 2) rfl rfl ⟨rfl, fun _ _ => rfl⟩) (fun _ h => by cases h))
  have r5 := Reach.step r4 (SStep.base (Step.crit 1 (.add 0 2) rfl rfl) (fun _ h => by cases h))
  have r6 := Reach.step r5 (SStep.base (Step.unlockB 1 (.add 0 2) [.inc (0, 1)] (.id 1) rfl rfl) (fun _ h => by cases h))
  have r7 := Reach.step r6 (SStep.base (Step.sendInc 1 (.add 0 2) (0, 1) [] (.id 1) rfl rfl rfl) (fun _ h => by cases h))
  have r8 := Reach.step r7 (SStep.base (Step.incReg 1 (0, 1) rfl rfl rfl) (fun _ h => by cases h))
  have r9 := Reach.step r8 (SStep.base (Step.loopDone 1 rfl rfl (by decide)) (fun _ h => by cases h))
  have r10 := Reach.step r9 (SStep.base (Step.fin 1 rfl rfl) (fun _ h => by cases h))
  have r11 := Reach.step r10 (SStep.base (Step.finish 1 (.add 0 2) (.id 1) rfl rfl) (fun _ h => by cases h))
  have r12 := Reach.step r11 (SStep.lockNames [0] rfl rfl rfl)
  have r13 := Reach.step r12 (SStep.unlockNames [0] rfl rfl)
  have r14 := Reach.step r13 (SStep.visitNext 0 [] rfl ⟨rfl, rfl, rfl⟩)
  have r15 := Reach.step r14 (SStep.base (Step.start 0 (.list 0) [] rfl rfl rfl) (fun _ h => by cases h))
  have r16 := Reach.step r15 (SStep.base (Step.lockS 0 (.list 0) rfl rfl rfl) (fun _ h => by cases h))
  have r17 := Reach.step r16 (SStep.base (Step.unlockS 0 (.list 0) rfl rfl) (fun _ h => by cases h))
  have r18 := Reach.step r17 (SStep.base (Step.lockB 0 (.list 0) rfl rfl ⟨rfl, fun h => by cases h⟩) (fun _ h => by cases h))
  have r19 := Reach.step r18 (SStep.base (Step.crit 0 (.list 0) rfl rfl) (fun _ h => by cases h))
  have r20 := Reach.step r19 (SStep.base (Step.unlockB 0 (.list 0) [] (.ids [1]) rfl rfl) (fun _ h => by cases h))
  have r21 := Reach.step r20 (SStep.base (Step.finish 0 (.list 0) (.ids [1]) rfl rfl) (fun _ h => by cases h))
  have r22 := Reach.step r21 (SStep.gotList 0 [] (.ids [1]) rfl ⟨rfl, rfl, rfl⟩ rfl)
  have r23 := Reach.step r22 (SStep.sweepCall 0 1 [] [] rfl ⟨rfl, rfl, rfl⟩ (by decide))
  have r24 := Reach.step r23 (SStep.base (Step.start 0 (.remove 0 1) [] rfl rfl rfl) (fun _ h => by cases h))
  have r25 := Reach.step r24 (SStep.base (Step.lockS 0 (.remove 0 1) rfl rfl rfl) (fun _ h => by cases h))
  have r26 := Reach.step r25 (SStep.base (Step.unlockS 0 (.remove 0 1) rfl rfl) (fun _ h => by cases h))
  have r27 := Reach.step r26 (SStep.base (Step.lockB 0 (.remove 0 1) rfl rfl ⟨rfl, fun _ t' => by
    by_cases e : t' = 0 <;> simp [upd, e, acquire, release, critEff, Op.isWrite, Op.box, issue, start, ConcMem.init]⟩) (fun _ h => by cases h))
  have r28 := Reach.step r27 (SStep.base (Step.crit 0 (.remove 0 1) rfl rfl) (fun _ h => by cases h))
  have r29 := Reach.step r28 (SStep.base (Step.unlockB 0 (.remove 0 1) [.rem (0, 1)] .ok rfl rfl) (fun _ h => by cases h))
  have r30 := Reach.step r29 (SStep.base (Step.start 1 (.add 1 2) [] rfl rfl rfl) (fun _ h => by cases h))
  have r31 := Reach.step r30 (SStep.base (Step.lockS 1 (.add 1 2) rfl rfl rfl) (fun _ h => by cases h))
  have r32 := Reach.step r31 (SStep.base (Step.unlockS 1 (.add 1 2) rfl rfl) (fun _ h => by cases h))
  have r33 := Reach.step r32 (SStep.base (Step.lockB 1 (.add 1 2) rfl rfl ⟨rfl, fun _ _ => rfl⟩) (fun _ h => by cases h))
  have r34 := Reach.step r33 (SStep.base (Step.crit 1 (.add 1 2) rfl rfl) (fun _ h => by cases h))
  have r35 := Reach.step r34 (SStep.base (Step.unlockB 1 (.add 1 2) [.inc (1, 1)] (.id 1) rfl rfl) (fun _ h => by cases h))
  have r36 := Reach.step r35 (SStep.base (Step.sendInc 1 (.add 1 2) (1, 1) [] (.id 1) rfl rfl rfl) (fun _ h => by cases h))
  have r37 := Reach.step r36 (SStep.base (Step.incReg 1 (1, 1) rfl rfl rfl) (fun _ h => by cases h))
  have r38 := Reach.step r37 (SStep.base (Step.loopEvict 1 (0, 1) [(1, 1)] rfl rfl (by decide) rfl) (fun _ h => by cases h))
  have r39 := Reach.step r38 (SStep.base (Step.evLockS 1 (0, 1) rfl rfl rfl) (fun _ h => by cases h))
  have r40 := Reach.step r39 (SStep.base (Step.evUnlockS 1 (0, 1) rfl rfl) (fun _ h => by cases h))
  exact ⟨_, r40, rfl, rfl, rfl, rfl, fun h => by have := h.1; simp at this⟩


/-- … from there a step is enabled, the call returns, the scan can end (instances of `scan_never_blocks_forever`,
    `remove_call_returns`, `callback_ends`), and if the context is cancelled now the scan takes no further snapshot,
    makes no further call and can only end aborted (`cancel_observed_between_mailboxes`) -/
example : ∃ σ, Reach code cfg3 envW progsW σ ∧ σ.mem.epc = .evLockB 1 (0, 1) ∧
    (∃ σ', SStep code cfg3 envW σ σ') ∧
    (∃ σ', Steps code cfg3 envW σ σ' ∧ σ'.phase = .sweep 0 [] [] ∧ 1 ∉ (σ'.mem.boxes 0).msgs) ∧
    (∃ σ', Steps code cfg3 envW σ σ' ∧ σ'.phase = .check []) ∧
    (∃ σ', Steps code cfg3 envW σ σ' ∧ ∃ a, σ'.phase = .done a) := by
  obtain ⟨σ, h, hph, _, he, _, hnf⟩ := race_state_reachable_in_code
  obtain ⟨σ1, p1, q1, _, _, _, d1⟩ := remove_call_returns cfg3 envW progsW σ h 0 1 [] [] hph
  have _ := in_flight_operations_complete cfg3 envW progsW σ h (by intro nm q; rw [hph] at q; cases q)
  exact ⟨σ, h, he, (scan_never_blocks_forever cfg3 envW progsW σ h []).1 hnf, ⟨σ1, p1, q1, d1⟩,
    callback_ends cfg3 envW progsW σ h 0 [] [] (Or.inr ⟨1, hph⟩), (scan_never_blocks_forever cfg3 envW progsW σ h []).2⟩

example : ∃ σ, Reach code cfg3 envW progsW σ ∧ σ.cancelled = true ∧ inHand σ.phase ∧ abortsOnly σ.phase ∧
    (∀ σ', Run code cfg3 envW σ σ' → σ'.snaps = σ.snaps ∧ σ'.calls.length ≤ σ.calls.length ∧
      ∀ a, σ'.phase = .done a → a = true) ∧
    ∃ σ', Steps code cfg3 envW σ σ' ∧ ∃ a, σ'.phase = .done a := by
  obtain ⟨σ, h, hph, _⟩ := race_state_reachable_in_code
  have hc := Reach.cancel h
  have hi : inHand ({ σ with cancelled := true } : ScanMem.St).phase := by show inHand σ.phase; rw [hph]; trivial
  have ha : abortsOnly ({ σ with cancelled := true } : ScanMem.St).phase := by show abortsOnly σ.phase; rw [hph]; trivial
  obtain ⟨g1, g2⟩ := cancel_observed_between_mailboxes cfg3 envW progsW _ hc rfl rfl
  refine ⟨_, hc, rfl, hi, ha, fun σ' r => ?_, g2⟩
  obtain ⟨_, b2, b3⟩ := g1 σ' r
  have := b2 hi
  have hb : callBudget ({ σ with cancelled := true } : ScanMem.St).phase = 0 := by
    show callBudget σ.phase = 0; rw [hph]; rfl
  exact ⟨this.1, by omega, b3 ha⟩

/-- **a complete scan in the code as it is** (non-vacuity of (b)): thread 1 delivers (0, 1), the scan snapshots
    mailbox 0 as [1], calls `RemoveMessage(0, 1)` — through the enforcer — and returns un-aborted with the mailbox
    empty. -/
theorem complete_scan_reachable_in_code : ∃ σ, Reach code cfg3 envW progsW σ ∧ σ.phase = .done false ∧
    σ.snaps = [(0, [1])] ∧ σ.calls = [(0, 1)] ∧ (σ.mem.boxes 0).msgs = [] ∧
    (Who.cl 0, Op.remove 0 1, Ret.ok) ∈ σ.mem.lin ∧ (1, Op.add 0 2, Ret.id 1) ∈ σ.mem.hist ∧
    (σ.boxes0 0).msgs = [1] ∧ σ.names0 = [0] := by
  have r0 : Reach code cfg3 envW progsW _ := Reach.init
  have r1 := Reach.step r0 (SStep.base (Step.start 1 (.add 0 2) [.add 1 2] rfl rfl rfl) (fun _ h => by cases h))
  have r2 := Reach.step r1 (SStep.base (Step.lockS 1 (.add 0 2) rfl rfl rfl) (fun _ h => by cases h))
  have r3 := Reach.step r2 (SStep.base (Step.unlockS 1 (.add 0 2) rfl rfl) (fun _ h => by cases h))
  have r4 := Reach.step r3 (SStep.base (Step.lockB 1 (.add 0 2) rfl rfl ⟨rfl, fun _ _ => rfl⟩) (fun _ h => by cases h))
  have r5 := Reach.step r4 (SStep.base (Step.crit 1 (.add 0 2) rfl rfl) (fun _ h => by cases h))
  have r6 := Reach.step r5 (SStep.base (Step.unlockB 1 (.add 0 2) [.inc (0, 1)] (.id 1) rfl rfl) (fun _ h => by cases h))
  have r7 := Reach.step r6 (SStep.base (Step.sendInc 1 (.add 0 2) (0, 1) [] (.id 1) rfl rfl rfl) (fun _ h => by cases h))
  have r8 := Reach.step r7 (SStep.base (Step.incReg 1 (0, 1) rfl rfl rfl) (fun _ h => by cases h))
  have r9 := Reach.step r8 (SStep.base (Step.loopDone 1 rfl rfl (by decide)) (fun _ h => by cases h))
  have r10 := Reach.step r9 (SStep.base (Step.fin 1 rfl rfl) (fun _ h => by cases h))
  have r11 := Reach.step r10 (SStep.base (Step.finish 1 (.add 0 2) (.id 1) rfl rfl) (fun _ h => by cases h))
  have r12 := Reach.step r11 (SStep.lockNames [0] rfl rfl rfl)
  have r13 := Reach.step r12 (SStep.unlockNames [0] rfl rfl)
  have r14 := Reach.step r13 (SStep.visitNext 0 [] rfl ⟨rfl, rfl, rfl⟩)
  have r15 := Reach.step r14 (SStep.base (Step.start 0 (.list 0) [] rfl rfl rfl) (fun _ h => by cases h))
  have r16 := Reach.step r15 (SStep.base (Step.lockS 0 (.list 0) rfl rfl rfl) (fun _ h => by cases h))
  have r17 := Reach.step r16 (SStep.base (Step.unlockS 0 (.list 0) rfl rfl) (fun _ h => by cases h))
  have r18 := Reach.step r17 (SStep.base (Step.lockB 0 (.list 0) rfl rfl ⟨rfl, fun h => by cases h⟩) (fun _ h => by cases h))
  have r19 := Reach.step r18 (SStep.base (Step.crit 0 (.list 0) rfl rfl) (fun _ h => by cases h))
  have r20 := Reach.step r19 (SStep.base (Step.unlockB 0 (.list 0) [] (.ids [1]) rfl rfl) (fun _ h => by cases h))
  have r21 := Reach.step r20 (SStep.base (Step.finish 0 (.list 0) (.ids [1]) rfl rfl) (fun _ h => by cases h))
  have r22 := Reach.step r21 (SStep.gotList 0 [] (.ids [1]) rfl ⟨rfl, rfl, rfl⟩ rfl)
  have r23 := Reach.step r22 (SStep.sweepCall 0 1 [] [] rfl ⟨rfl, rfl, rfl⟩ (by decide))
  have r24 := Reach.step r23 (SStep.base (Step.start 0 (.remove 0 1) [] rfl rfl rfl) (fun _ h => by cases h))
  have r25 := Reach.step r24 (SStep.base (Step.lockS 0 (.remove 0 1) rfl rfl rfl) (fun _ h => by cases h))
  have r26 := Reach.step r25 (SStep.base (Step.unlockS 0 (.remove 0 1) rfl rfl) (fun _ h => by cases h))
  have r27 := Reach.step r26 (SStep.base (Step.lockB 0 (.remove 0 1) rfl rfl ⟨rfl, fun _ t' => by
    by_cases e : t' = 0 <;> simp [upd, e, acquire, release, critEff, Op.isWrite, Op.box, issue, start, ConcMem.init]⟩) (fun _ h => by cases h))
  have r28 := Reach.step r27 (SStep.base (Step.crit 0 (.remove 0 1) rfl rfl) (fun _ h => by cases h))
  have r29 := Reach.step r28 (SStep.base (Step.unlockB 0 (.remove 0 1) [.rem (0, 1)] .ok rfl rfl) (fun _ h => by cases h))
  have r30 := Reach.step r29 (SStep.base (Step.sendRem 0 (.remove 0 1) (0, 1) [] .ok rfl rfl rfl) (fun _ h => by cases h))
  have r31 := Reach.step r30 (SStep.base (Step.remUnlink 0 (0, 1) rfl rfl rfl) (fun _ h => by cases h))
  have r32 := Reach.step r31 (SStep.base (Step.fin 0 rfl rfl) (fun _ h => by cases h))
  have r33 := Reach.step r32 (SStep.base (Step.finish 0 (.remove 0 1) .ok rfl rfl) (fun _ h => by cases h))
  have r34 := Reach.step r33 (SStep.returned 0 1 [] [] rfl ⟨rfl, rfl, rfl⟩)
  have r35 := Reach.step r34 (SStep.sweepEnd 0 [] rfl rfl)
  have r36 := Reach.step r35 (SStep.checkGo [] rfl rfl (Or.inl rfl))
  have r37 := Reach.step r36 (SStep.visitEnd rfl rfl)
  exact ⟨_, r37, rfl, rfl, rfl, rfl, by decide, by decide, rfl, rfl⟩


/-- the hypotheses of `scan_removes_only_snapshot_expired`, `snapshot_expired_gone_at_end`, `visited_expired_gone`
    and `later_delivery_not_in_snapshot` hold of that run -/
example : ∃ σ, Reach code cfg3 envW progsW σ ∧
    ((0, 1) ∈ σ.calls ∧ envW.date (0, 1) < envW.cutoff ∧ ∃ l, (0, l) ∈ σ.snaps ∧ 1 ∈ l) ∧
    1 ∉ (σ.mem.boxes 0).msgs ∧ 1 ∉ (σ.mem.boxes 0).msgs ∧ (σ.mem.boxes 0).last + 1 ∉ [1] := by
  obtain ⟨σ, h, hd, hs, _, _, hl, _, hb0, hn0⟩ := complete_scan_reachable_in_code
  refine ⟨σ, h, scan_removes_only_snapshot_expired code cfg3 envW progsW σ h 0 1 .ok hl,
    snapshot_expired_gone_at_end code cfg3 envW progsW σ h false hd 0 [1] (by rw [hs]; simp) 1 (by simp) (by decide),
    visited_expired_gone code cfg3 envW progsW σ h hd 0 1 (by rw [hb0]; simp) (by rw [hn0]; simp) (by decide), ?_⟩
  exact (later_delivery_not_in_snapshot code cfg3 envW progsW σ h 0).1 [1] (by rw [hs]; simp)

/-- a scan during which every delivery is new: thread 1's delivery of (0, 1), dated 100, with cutoff 10 -/
def envNew : Env := { envW with date := fun _ => 100 }

/-- the hypotheses of `fresh_delivery_never_removed_by_scan` are satisfiable: a completed delivery dated after the
    cutoff; it is in its mailbox -/
example : ∃ σ, Reach code cfg3 envNew progsW σ ∧ (1, Op.add 0 2, Ret.id 1) ∈ σ.mem.hist ∧
    (0, 1) ∉ σ.calls ∧ (1 ∈ (σ.mem.boxes 0).msgs ∨ (0, 1) ∈ σ.mem.removed) := by
  have r0 : Reach code cfg3 envNew progsW _ := Reach.init
  have r1 := Reach.step r0 (SStep.base (Step.start 1 (.add 0 2) [.add 1 2] rfl rfl rfl) (fun _ h => by cases h))
  have r2 := Reach.step r1 (SStep.base (Step.lockS 1 (.add 0 2) rfl rfl rfl) (fun _ h => by cases h))
  have r3 := Reach.step r2 (SStep.base (Step.unlockS 1 (.add 0 2) rfl rfl) (fun _ h => by cases h))
  have r4 := Reach.step r3 (SStep.base (Step.lockB 1 (.add 0 2) rfl rfl ⟨rfl, fun _ _ => rfl⟩) (fun _ h => by cases h))
  have r5 := Reach.step r4 (SStep.base (Step.crit 1 (.add 0 2) rfl rfl) (fun _ h => by cases h))
  have r6 := Reach.step r5 (SStep.base (Step.unlockB 1 (.add 0 2) [.inc (0, 1)] (.id 1) rfl rfl) (fun _ h => by cases h))
  have r7 := Reach.step r6 (SStep.base (Step.sendInc 1 (.add 0 2) (0, 1) [] (.id 1) rfl rfl rfl) (fun _ h => by cases h))
  have r8 := Reach.step r7 (SStep.base (Step.incReg 1 (0, 1) rfl rfl rfl) (fun _ h => by cases h))
  have r9 := Reach.step r8 (SStep.base (Step.loopDone 1 rfl rfl (by decide)) (fun _ h => by cases h))
  have r10 := Reach.step r9 (SStep.base (Step.fin 1 rfl rfl) (fun _ h => by cases h))
  have r11 := Reach.step r10 (SStep.base (Step.finish 1 (.add 0 2) (.id 1) rfl rfl) (fun _ h => by cases h))
  refine ⟨_, r11, by decide, ?_⟩
  exact (fresh_delivery_never_removed_by_scan code cfg3 envNew progsW _ r11 1 0 2 1 (by decide) (by decide)).2

/-- the hypotheses of `list_call_returns` are satisfiable: the scan has issued GetMessages(0) -/
example : ∃ σ, Reach code cfg3 envW progsW σ ∧ σ.phase = .listing 0 [] ∧
    ∃ σ' l, Steps code cfg3 envW σ σ' ∧ σ'.phase = .sweep 0 l [] := by
  have r0 : Reach code cfg3 envW progsW _ := Reach.init
  have r1 := Reach.step r0 (SStep.lockNames [0] rfl rfl rfl)
  have r2 := Reach.step r1 (SStep.unlockNames [0] rfl rfl)
  have r3 := Reach.step r2 (SStep.visitNext 0 [] rfl ⟨rfl, rfl, rfl⟩)
  obtain ⟨σ', l, p, q, _⟩ := list_call_returns cfg3 envW progsW _ r3 0 [] rfl
  exact ⟨_, r3, rfl, σ', l, p, q⟩

end Ibx.Props.C12Mem
