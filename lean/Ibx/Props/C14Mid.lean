import Ibx.Spec.Store
/-
  C14, leg "an API write while a delivery is in flight" (harness/cmd/drive/c14_midwrite.go).

  The histories of C14 are "sequences of API calls mixed with deliveries".  When a write through the API (mark seen,
  delete, purge) and a delivery to the same mailbox OVERLAP, a store that is linearizable serialises them in one of two
  orders.  The theorems below say, over the abstract store both back-ends refine and for the uncapped configuration
  the leg runs with, what BOTH orders agree on — which is exactly what the leg's implementation-only oracles
  `acknowledged-write-stays-in-effect` and `delivery-during-write-is-listed` demand of the real stores once both
  calls have returned.  (The leg itself is implementation only: the executable model answers one operation at a time.)
-/
namespace Ibx.Props.C14Mid
open Ibx Ibx.Spec.Store

/-- the configuration of the leg: no mailbox cap, no byte limit -/
def c0 : Cfg := ⟨0, 0⟩

/-- the two serialisations of a delivery `add b hdr src` and a write `w` -/
def addThen (s : Store) (b : Bytes) (hdr : Meta) (src : Bytes) (w : Op) : Store :=
  (step c0 (step c0 s (.add b hdr src)).1 w).1
def thenAdd (s : Store) (b : Bytes) (hdr : Meta) (src : Bytes) (w : Op) : Store :=
  (step c0 (step c0 s w).1 (.add b hdr src)).1

private theorem limitEvict_zero (l : List Msg) : limitEvict 0 l = (l, []) := by
  cases l <;> simp [limitEvict]

private theorem capEvict_zero (b : Bytes) (l : List Msg) : capEvict 0 b l = (l, []) := by
  simp [capEvict]

/-- the message a delivery to `b` creates in state `s` -/
def newMsg (s : Store) (b : Bytes) (hdr : Meta) (src : Bytes) : Msg :=
  { box := b, id := s.next b + 1, hdr := hdr, seen := false, source := src }

/-- what a delivery does to the uncapped store: the new message goes to the end, the mailbox's id counter advances,
    nothing else changes -/
theorem add_state (s : Store) (b : Bytes) (hdr : Meta) (src : Bytes) :
    (step c0 s (.add b hdr src)).1 =
      { msgs := s.msgs ++ [newMsg s b hdr src], next := fun x => if x == b then s.next b + 1 else s.next x } := by
  simp [step, c0, capEvict_zero, limitEvict_zero, newMsg]

private theorem new_not_i (s : Store) (b : Bytes) (i : Nat) (hdr : Meta) (src : Bytes) (hf : i ≠ s.next b + 1) :
    isMsg b i (newMsg s b hdr src) = false := by
  simp [isMsg, newMsg]; omega

/-- **seen_survives_overlapping_delivery.**  A PATCH seen of a message that exists when the two calls start (so its id is
    not the one the delivery is about to hand out) and a delivery to the same mailbox: both serialisations end in the
    SAME store — every earlier message in place, the addressed one marked seen, the new message last. -/
theorem seen_survives_overlapping_delivery (s : Store) (b : Bytes) (i : Nat) (hdr : Meta) (src : Bytes)
    (hx : s.msgs.any (isMsg b i) = true) (hf : i ≠ s.next b + 1) :
    (addThen s b hdr src (.seen b i)).msgs =
        s.msgs.map (fun m => if isMsg b i m then { m with seen := true } else m) ++ [newMsg s b hdr src] ∧
    (thenAdd s b hdr src (.seen b i)).msgs =
        s.msgs.map (fun m => if isMsg b i m then { m with seen := true } else m) ++ [newMsg s b hdr src] := by
  have hn := new_not_i s b i hdr src hf
  constructor
  · simp only [addThen, add_state]
    simp [step, List.any_append, hx, hn]
  · simp only [thenAdd, add_state]
    simp [step, hx, newMsg]

/-- **delete_survives_overlapping_delivery.**  A DELETE of a message that exists when the two calls start and a delivery to
    the same mailbox: both serialisations end in the same store — the message gone, the others in place, the new one last. -/
theorem delete_survives_overlapping_delivery (s : Store) (b : Bytes) (i : Nat) (hdr : Meta) (src : Bytes)
    (hx : s.msgs.any (isMsg b i) = true) (hf : i ≠ s.next b + 1) :
    (addThen s b hdr src (.remove b i)).msgs = s.msgs.filter (fun m => !isMsg b i m) ++ [newMsg s b hdr src] ∧
    (thenAdd s b hdr src (.remove b i)).msgs = s.msgs.filter (fun m => !isMsg b i m) ++ [newMsg s b hdr src] := by
  have hn := new_not_i s b i hdr src hf
  constructor
  · simp only [addThen, add_state]
    simp [step, List.any_append, hx, hn, List.filter_append]
  · simp only [thenAdd, add_state]
    simp [step, hx, newMsg]

/-- **purge_survives_overlapping_delivery.**  A purge and a delivery to the same mailbox: whichever comes first, no message
    the mailbox held before is left; the mailbox ends empty (delivery first) or holding the new message alone (purge first). -/
theorem purge_survives_overlapping_delivery (s : Store) (b : Bytes) (hdr : Meta) (src : Bytes) :
    listing (addThen s b hdr src (.purge b)) b = [] ∧
    listing (thenAdd s b hdr src (.purge b)) b = [newMsg s b hdr src] := by
  constructor
  · simp only [addThen, add_state]
    simp [step, listing, List.filter_filter]
  · simp only [thenAdd, add_state]
    simp [step, listing, List.filter_append, List.filter_filter, inBox, newMsg]

/-- after either serialisation of a DELETE with a delivery the deleted message is not fetched: GET answers 404 -/
theorem deleted_stays_deleted (s : Store) (b : Bytes) (i : Nat) (hdr : Meta) (src : Bytes)
    (hx : s.msgs.any (isMsg b i) = true) (hf : i ≠ s.next b + 1) :
    (step c0 (addThen s b hdr src (.remove b i)) (.get b i)).2.1 = .notExist ∧
    (step c0 (thenAdd s b hdr src (.remove b i)) (.get b i)).2.1 = .notExist := by
  have h := delete_survives_overlapping_delivery s b i hdr src hx hf
  have hn := new_not_i s b i hdr src hf
  have key : (s.msgs.filter (fun m => !isMsg b i m) ++ [newMsg s b hdr src]).find? (isMsg b i) = none := by
    simp [List.find?_append, hn]
  constructor
  · simp only [step]; rw [h.1, key]
  · simp only [step]; rw [h.2, key]

/-- non-vacuity: a mailbox with two messages, the first is deleted while a third is delivered -/
example :
    let s : Store := { msgs := [⟨[97], 1, default, false, [1]⟩, ⟨[97], 2, default, false, [2]⟩], next := fun _ => 2 }
    (addThen s [97] default [3] (.remove [97] 1)).msgs.map (·.id) = [2, 3] ∧
    (thenAdd s [97] default [3] (.remove [97] 1)).msgs.map (·.id) = [2, 3] ∧
    (addThen s [97] default [3] (.seen [97] 1)).msgs.map (·.seen) = [true, false, false] ∧
    (listing (thenAdd s [97] default [3] (.purge [97])) [97]).map (·.id) = [3] := by
  decide

/-- counter-witness (what the oracle would see on a store that lets the delivery overwrite the index it read before the
    write): replaying the delivery on the state from BEFORE the delete brings the deleted message back — this is NOT a
    serialisation, and the listing differs from both. -/
theorem stale_index_is_no_serialisation :
    let s : Store := { msgs := [⟨[97], 1, default, false, [1]⟩], next := fun _ => 1 }
    let stale := (step c0 s (.add [97] default [3])).1          -- the delivery appends to the index it loaded before the delete
    stale.msgs.map (·.id) = [1, 2] ∧
    (addThen s [97] default [3] (.remove [97] 1)).msgs.map (·.id) = [2] ∧
    (thenAdd s [97] default [3] (.remove [97] 1)).msgs.map (·.id) = [2] := by
  decide

end Ibx.Props.C14Mid
