import Ibx.Props.C03
/-
  C17 (Go-hook part) — extension hooks decide exactly what they say.
  `Env.hookMail`, `Env.hookRcpt`, `Env.hookStored` stand for EventBroker.Emit on the three before-events
  (`none` = no listener answered).  The Lua side (a broken script answers `none`, the state pool) is the
  business of the Lua part of C17, built separately.
-/
namespace Ibx.Props.C17
open Ibx Ibx.Bytes Ibx.Model Ibx.Model.Smtp
open Ibx.Lemmas.Smtp Ibx.Lemmas.SmtpLoop Ibx.Lemmas.SmtpEx

/-! ### deny -/

/-- MAIL denied by the hook: the reply is the hook's code and text, literally; state and envelope unchanged -/
theorem deny_literal_mail (e : Env) (s : Sess) (line arg addr l d : Bytes) (acc : List Ev) (a : HookAns)
    (hs : s.st = .ready) (hp : parseCmd line = .cmd (ofAscii "MAIL") arg) (hsyn : mailSyntax e arg = .inr (addr, l, d))
    (ha : e.hookMail addr = some a) (hd : a.action = .deny) :
    handleLine e s line acc = (send s 1, .hookReply a.code a.msg :: acc) := by
  rw [handleLine_cmd e s line _ arg acc (by simp [hs]) (by simp [hs]) hp, handleCmd_ready_mail e s arg acc hs,
    mailFrom_eq, hsyn]
  exact mailDecide_deny _ _ _ _ _ _ a ha hd

/-- RCPT denied by the hook: the hook's code and text, literally; state and envelope unchanged -/
theorem deny_literal_rcpt (e : Env) (s : Sess) (line arg addr : Bytes) (r : Addr.Recipient) (acc : List Ev) (a : HookAns)
    (hs : s.st = .mail) (hp : parseCmd line = .cmd (ofAscii "RCPT") arg) (hsyn : rcptSyntax e arg = some (addr, r))
    (ha : rcptAns e s addr = some a) (hd : a.action = .deny) :
    handleLine e s line acc = (send s 1, .hookReply a.code a.msg :: acc) := by
  rw [handleLine_cmd e s line _ arg acc (by simp [hs]) (by simp [hs]) hp, handleCmd_mail_rcpt e s arg acc hs,
    rcptTo_eq, hsyn]
  exact rcptDecide_deny _ _ _ _ _ a ha hd

/-! ### allow -/

/-- MAIL allowed by the hook: accepted whatever the origin policy says -/
theorem allow_overrides_policy_mail (e : Env) (s : Sess) (line arg addr l d : Bytes) (acc : List Ev) (a : HookAns)
    (hs : s.st = .ready) (hp : parseCmd line = .cmd (ofAscii "MAIL") arg) (hsyn : mailSyntax e arg = .inr (addr, l, d))
    (ha : e.hookMail addr = some a) (hd : a.action = .allow) :
    handleLine e s line acc =
      (send { s with sender := some { addr := addr, localPart := l, domain := d }, st := .mail } 1,
        .reply [250] :: acc) := by
  rw [handleLine_cmd e s line _ arg acc (by simp [hs]) (by simp [hs]) hp, handleCmd_ready_mail e s arg acc hs,
    mailFrom_eq, hsyn]
  exact mailDecide_accept _ _ _ _ _ _ (.inl (by simp [hookAction, ha, hd]))

/-- RCPT allowed by the hook: accepted whatever the recipient policy says — the recipient limit still applies -/
theorem allow_overrides_policy_rcpt (e : Env) (s : Sess) (line arg addr : Bytes) (r : Addr.Recipient) (acc : List Ev)
    (a : HookAns) (hs : s.st = .mail) (hp : parseCmd line = .cmd (ofAscii "RCPT") arg)
    (hsyn : rcptSyntax e arg = some (addr, r)) (ha : rcptAns e s addr = some a) (hd : a.action = .allow) :
    handleLine e s line acc =
      if (s.rcpts.length : Int) < e.maxRcpt then (send { s with rcpts := s.rcpts ++ [r] } 1, .reply [250] :: acc)
      else (send s 1, .reply [552] :: acc) := by
  rw [handleLine_cmd e s line _ arg acc (by simp [hs]) (by simp [hs]) hp, handleCmd_mail_rcpt e s arg acc hs,
    rcptTo_eq, hsyn]
  have hal : hookAction (rcptAns e s addr) = .allow := by simp [hookAction, ha, hd]
  show rcptDecide e s addr r acc = _
  split
  · rename_i hl; exact rcptDecide_250 _ _ _ _ _ (.inl hal) hl
  · rename_i hl; exact rcptDecide_552 _ _ _ _ _ (.inl hal) (by omega)

/-! ### defer, and no answer -/

/-- the policy-only decision for RCPT -/
def rcptByPolicy (e : Env) (s : Sess) (r : Addr.Recipient) (acc : List Ev) : Sess × List Ev :=
  if Policy.shouldAccept e.pol r.domain = false then (send s 1, .reply [550] :: acc)
  else if (s.rcpts.length : Int) < e.maxRcpt then (send { s with rcpts := s.rcpts ++ [r] } 1, .reply [250] :: acc)
  else (send s 1, .reply [552] :: acc)

/-- the policy-only decision for MAIL -/
def mailByPolicy (e : Env) (s : Sess) (addr l d : Bytes) (acc : List Ev) : Sess × List Ev :=
  if Policy.shouldAcceptOrigin e.pol d = false then
    (send { s with sender := some { addr := addr, localPart := l, domain := d } } 1, .reply [501] :: acc)
  else
    (send { s with sender := some { addr := addr, localPart := l, domain := d }, st := .mail } 1, .reply [250] :: acc)

private theorem rcpt_defer (e : Env) (s : Sess) (addr : Bytes) (r : Addr.Recipient) (acc : List Ev)
    (h : hookAction (rcptAns e s addr) = .defer) : rcptDecide e s addr r acc = rcptByPolicy e s r acc := by
  unfold rcptByPolicy
  split
  · rename_i hpol; exact rcptDecide_550 _ _ _ _ _ h hpol
  · rename_i hpol
    have hpol : Policy.shouldAccept e.pol r.domain = true := by simpa using hpol
    split
    · rename_i hl; exact rcptDecide_250 _ _ _ _ _ (.inr ⟨h, hpol⟩) hl
    · rename_i hl; exact rcptDecide_552 _ _ _ _ _ (.inr ⟨h, hpol⟩) (by omega)

private theorem mail_defer (e : Env) (s : Sess) (addr l d : Bytes) (acc : List Ev)
    (h : hookAction (e.hookMail addr) = .defer) : mailDecide e s addr l d acc = mailByPolicy e s addr l d acc := by
  unfold mailByPolicy
  split
  · rename_i hpol; exact mailDecide_refuse _ _ _ _ _ _ h hpol
  · rename_i hpol
    exact mailDecide_accept _ _ _ _ _ _ (.inr ⟨h, by simpa using hpol⟩)

/-- a hook answering defer leaves the decision to the domain policy (and the recipient limit) -/
theorem defer_is_policy (e : Env) (s : Sess) (line arg addr : Bytes) (r : Addr.Recipient) (acc : List Ev) (a : HookAns)
    (hs : s.st = .mail) (hp : parseCmd line = .cmd (ofAscii "RCPT") arg) (hsyn : rcptSyntax e arg = some (addr, r))
    (ha : rcptAns e s addr = some a) (hd : a.action = .defer) :
    handleLine e s line acc = rcptByPolicy e s r acc := by
  rw [handleLine_cmd e s line _ arg acc (by simp [hs]) (by simp [hs]) hp, handleCmd_mail_rcpt e s arg acc hs,
    rcptTo_eq, hsyn]
  exact rcpt_defer _ _ _ _ _ (by simp [hookAction, ha, hd])

theorem defer_is_policy_mail (e : Env) (s : Sess) (line arg addr l d : Bytes) (acc : List Ev) (a : HookAns)
    (hs : s.st = .ready) (hp : parseCmd line = .cmd (ofAscii "MAIL") arg) (hsyn : mailSyntax e arg = .inr (addr, l, d))
    (ha : e.hookMail addr = some a) (hd : a.action = .defer) :
    handleLine e s line acc = mailByPolicy e s addr l d acc := by
  rw [handleLine_cmd e s line _ arg acc (by simp [hs]) (by simp [hs]) hp, handleCmd_ready_mail e s arg acc hs,
    mailFrom_eq, hsyn]
  exact mail_defer _ _ _ _ _ _ (by simp [hookAction, ha, hd])

/-- no answer at all (no listener, or none that answered) is the same as defer -/
theorem none_is_defer (e : Env) (s : Sess) (line arg addr : Bytes) (r : Addr.Recipient) (acc : List Ev)
    (hs : s.st = .mail) (hp : parseCmd line = .cmd (ofAscii "RCPT") arg) (hsyn : rcptSyntax e arg = some (addr, r))
    (ha : rcptAns e s addr = none) :
    handleLine e s line acc = rcptByPolicy e s r acc := by
  rw [handleLine_cmd e s line _ arg acc (by simp [hs]) (by simp [hs]) hp, handleCmd_mail_rcpt e s arg acc hs,
    rcptTo_eq, hsyn]
  exact rcpt_defer _ _ _ _ _ (by simp [hookAction, ha])

theorem none_is_defer_mail (e : Env) (s : Sess) (line arg addr l d : Bytes) (acc : List Ev)
    (hs : s.st = .ready) (hp : parseCmd line = .cmd (ofAscii "MAIL") arg) (hsyn : mailSyntax e arg = .inr (addr, l, d))
    (ha : e.hookMail addr = none) :
    handleLine e s line acc = mailByPolicy e s addr l d acc := by
  rw [handleLine_cmd e s line _ arg acc (by simp [hs]) (by simp [hs]) hp, handleCmd_ready_mail e s arg acc hs,
    mailFrom_eq, hsyn]
  exact mail_defer _ _ _ _ _ _ (by simp [hookAction, ha])

/-! ### a replaced inbound message -/

/-- BeforeMessageStored returned `r`: the copies go to exactly `r.mailboxes`, in that order (duplicates and all),
    carrying `r.sender`, `r.rcpts`, `r.subject`; the store policy is not consulted (the right-hand side does not
    mention `e.pol`); the source is still the trace headers followed by the block as received -/
theorem replacement_is_literal (e : Env) (s : Sess) (block : Bytes) (acc : List Ev) (h : HdrInfo) (r : Inbound)
    (hsz : (block.length : Int) ≤ e.maxBytes) (hh : e.hdr block = some h)
    (hhook : e.hookStored (inbound s h) = some r) (hstore : ∀ mb ∈ r.mailboxes, e.storeFails mb = false) :
    (handleData e s block acc).2 =
      .reply [250] ::
        ((r.mailboxes.map (fun mb => Ev.stored
            { mailbox := mb, hdr := { sender := r.sender, rcpts := r.rcpts, subject := r.subject, date := 0 },
              source := traceHeaders e s mb ++ block })).reverse ++ acc) := by
  have hfin : finalInbound e s h = r := by simp [finalInbound, hhook]
  unfold handleData
  rw [if_neg (by omega), deliver_hdr_some _ _ _ _ h hh, hfin, storeLoop_all_ok _ _ _ _ _ _ _ hstore]
  simp [say, storedEv]

/-- … in particular a replacement with no mailboxes stores nothing, and the message is still acknowledged -/
theorem replacement_may_drop (e : Env) (s : Sess) (block : Bytes) (acc : List Ev) (h : HdrInfo) (r : Inbound)
    (hsz : (block.length : Int) ≤ e.maxBytes) (hh : e.hdr block = some h)
    (hhook : e.hookStored (inbound s h) = some r) (hmb : r.mailboxes = []) :
    (handleData e s block acc).2 = .reply [250] :: acc := by
  rw [replacement_is_literal e s block acc h r hsz hh hhook (by simp [hmb]), hmb]
  simp

/-! ### non-vacuity: hooks that deny with 550 / 451-style codes, allow a rejected domain, redirect a message -/

def exHooks : Env :=
  { exEnv with
    hookMail := fun _ => some { action := .deny, code := 557, msg := ofAscii "no" },
    hookRcpt := fun _ to =>
      if to.getLast? == some (ofAscii "w@bad.org") then some { action := .allow, code := 0, msg := [] }
      else if to.getLast? == some (ofAscii "d@x.org") then some { action := .deny, code := 599, msg := ofAscii "go away" }
      else if to.getLast? == some (ofAscii "f@bad.org") then some { action := .defer, code := 0, msg := [] }
      else none,
    hookStored := fun ib => some { ib with mailboxes := [ofAscii "z", ofAscii "z"], subject := ofAscii "new" } }

example : (handleLine exHooks exReady (ofAscii "MAIL FROM:<>\r\n") []).2 = [.hookReply 557 (ofAscii "no")] := by decide
example : (handleLine exHooks exMail (ofAscii "RCPT TO:<d@x.org>\r\n") []).2 = [.hookReply 599 (ofAscii "go away")] := by
  decide
/-- allowed although `bad.org` is on the reject list -/
example : (handleLine exHooks exMail (ofAscii "RCPT TO:<w@bad.org>\r\n") []).2 = [.reply [250]] := by decide
/-- deferred: the reject list decides -/
example : (handleLine exHooks exMail (ofAscii "RCPT TO:<f@bad.org>\r\n") []).2 = [.reply [550]] := by decide
example : (handleLine exHooks exMail (ofAscii "RCPT TO:<g@bad.org>\r\n") []).2 = [.reply [550]] := by decide
/-- the envelope names mailbox `u`; the hook redirects to `z` twice -/
example : (storedOf (handleData exHooks exMail (ofAscii "hi\n") []).2).map (fun x => (x.mailbox, x.hdr.subject)) =
    [(ofAscii "z", ofAscii "new"), (ofAscii "z", ofAscii "new")] := by decide

end Ibx.Props.C17
