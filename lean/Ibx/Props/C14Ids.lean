import Ibx.Model.RestIds
import Ibx.Props.C14
/-
  C14, ids — "a request for a message that does not exist is answered 404" where the request carries a STRING.

  The store hands out id strings; a request may carry any byte string.  With the stores' lookup (string equality with
  the id string of a listed message: `Lookup.byString`, selected by Ibx/Tie/StoreIds.lean) a by-id request finds a
  message iff its string is LITERALLY the id string of a listed message of that mailbox (or the alias "latest" on the
  routes that fetch); every other spelling — leading zeros, a sign, blanks, other letter case, the id of a message of
  another mailbox, an id that was removed, "latest" on PATCH / DELETE — is answered 404 and changes nothing, in every
  store state and hence at every point of every history.  The variant that converts the string to a number first
  (`Lookup.byDecimalValue`) does not have the property: counter-witness below.
-/
namespace Ibx.Props.C14Ids
open Ibx Ibx.Bytes Ibx.Spec.Store Ibx.Model.Addr Ibx.Model.Rest Ibx.Model.RestIds Ibx.Model.ClientUrl
open Ibx.Props.C14 (isFetch reachesStore Missing missing_is_404)

/-- the routes that address one message -/
def byId : Handler → Bool
  | .showV1 | .sourceV1 | .wMessage | .wHtml | .wSource | .wAttach | .seenV1 | .deleteV1 => true
  | _ => false

/-- `r` is literally the id string of a listed message of `box` -/
def Listed (str : Nat → Bytes) (s : Store) (box r : Bytes) : Prop := ∃ m ∈ listing s box, str m.id = r

/-- `r` is the alias "latest", on a route that accepts it (GET of message / source / html / attachment), of a
    mailbox that holds a message -/
def Alias (h : Handler) (s : Store) (box r : Bytes) : Prop := isFetch h = true ∧ r = sLatest ∧ listing s box ≠ []

/-- the request gets as far as the store: PATCH carries `"seen": true`, the attachment number is a number -/
def reaches (h : Handler) (rq : ReqS) : Prop := (h = .seenV1 → rq.body = .seenTrue) ∧ (h = .wAttach → rq.num ≠ .bad)

theorem findByStr_none_iff (str : Nat → Bytes) (s : Store) (box r : Bytes) :
    findByStr str s box r = none ↔ ¬ Listed str s box r := by
  unfold findByStr Listed
  rw [List.find?_eq_none]
  constructor
  · rintro h ⟨m, hm, he⟩
    exact h m hm (by simp [he])
  · intro h m hm hc
    exact h ⟨m, hm, by simpa using hc⟩

theorem findByStr_some (str : Nat → Bytes) (s : Store) (box r : Bytes) (m : Msg)
    (h : findByStr str s box r = some m) : m ∈ listing s box ∧ str m.id = r := by
  unfold findByStr at h
  exact ⟨List.mem_of_find?_eq_some h, by simpa using List.find?_some h⟩

private theorem listed_live (s : Store) (box : Bytes) (m : Msg) (hm : m ∈ listing s box) :
    s.msgs.any (isMsg box m.id) = true ∧ (s.msgs.find? (isMsg box m.id)).isSome = true := by
  have hm' : m ∈ s.msgs ∧ m.box = box := by
    simp only [listing, List.mem_filter, inBox, beq_iff_eq] at hm; exact hm
  have hp : isMsg box m.id m = true := by simp [isMsg, hm'.2]
  constructor
  · exact List.any_eq_true.2 ⟨m, hm'.1, hp⟩
  · rw [List.find?_isSome]; exact ⟨m, hm'.1, hp⟩

/-- **unlisted_id_changes_nothing.**  Any by-id request (GET message / source, the web-UI message, html, source and
    attachment views, PATCH seen, DELETE) whose id string is not literally the id string of a listed message of the
    addressed mailbox — and is not the alias "latest" on a fetching route of a non-empty mailbox — is answered 404 and
    leaves the store exactly as it was: for EVERY store state, mailbox name and request string. -/
theorem unlisted_id_changes_nothing (e : Env) (hk : e.contract = .strict) (str : Nat → Bytes) (h : Handler)
    (hb : byId h = true) (s : Store) (rq : ReqS) (box : Bytes)
    (hbox : extractMailbox e.ip e.naming rq.name = some box) (hr : reaches h rq)
    (hun : ¬ Listed str s box rq.id) (hal : ¬ Alias h s box rq.id) :
    handleS e .byString str h s rq = (r404, s) := by
  unfold handleS
  rw [hbox]
  simp only
  apply missing_is_404 e hk h s _ box hbox
  · by_cases hl : rq.id = sLatest
    · have hres : resolve .byString str s box rq.id = .latest := by simp [resolve, hl]
      by_cases hf : isFetch h = true
      · left
        refine ⟨hf, ?_⟩
        simp only [hres, Missing]
        by_cases hne : listing s box = []
        · exact hne
        · exact absurd ⟨hf, hl, hne⟩ hal
      · right
        refine ⟨?_, Or.inr hres⟩
        cases h <;> simp_all [byId, isFetch]
    · have hres : resolve .byString str s box rq.id = .junk := by
        have hne : (rq.id == sLatest) = false := by simpa using hl
        simp [resolve, hne, (findByStr_none_iff str s box rq.id).2 hun]
      by_cases hf : isFetch h = true
      · left; exact ⟨hf, by simp [hres, Missing]⟩
      · right
        refine ⟨?_, Or.inl (by simp [hres, Missing])⟩
        cases h <;> simp_all [byId, isFetch]
  · exact ⟨fun hh => hr.1 hh, fun hh => hr.2 hh⟩

/-- satisfiable: DELETE …/a/01 and PATCH …/a/latest on a mailbox "a" holding message 1 (id string "1") -/
example : ¬ Listed decStr ⟨[{ box := [97], id := 1, hdr := default, seen := false, source := [] }], fun _ => 1⟩ [97] [48, 49] ∧
    ¬ Alias .seenV1 ⟨[{ box := [97], id := 1, hdr := default, seen := false, source := [] }], fun _ => 1⟩ [97] sLatest ∧
    reaches .deleteV1 { name := [97], id := [48, 49] } := by
  refine ⟨?_, ?_, ?_⟩
  · rintro ⟨m, hm, he⟩
    simp [listing, inBox] at hm
    subst hm
    revert he
    decide
  · simp [Alias, isFetch]
  · simp [reaches]

/-- **listed_id_string_resolves.**  A request string that IS the id string of a listed message names that message:
    the request is the request for its number (and `rest_refines_spec` says what that answers and effects). -/
theorem listed_id_string_resolves (e : Env) (str : Nat → Bytes) (h : Handler) (s : Store) (rq : ReqS) (box : Bytes)
    (hbox : extractMailbox e.ip e.naming rq.name = some box) (hne : rq.id ≠ sLatest) (hl : Listed str s box rq.id) :
    ∃ m ∈ listing s box, str m.id = rq.id ∧
      handleS e .byString str h s rq =
        handle e h s { name := rq.name, id := .num m.id, body := rq.body, num := rq.num, natt := rq.natt } := by
  cases hf : findByStr str s box rq.id with
  | none => exact absurd hl ((findByStr_none_iff str s box rq.id).1 hf)
  | some m =>
    obtain ⟨hm, hs⟩ := findByStr_some str s box rq.id m hf
    refine ⟨m, hm, hs, ?_⟩
    have hne' : (rq.id == sLatest) = false := by simpa using hne
    simp [handleS, hbox, resolve, hne', hf]

example : Listed decStr ⟨[{ box := [97], id := 12, hdr := default, seen := false, source := [] }], fun _ => 12⟩ [97] [49, 50] :=
  ⟨{ box := [97], id := 12, hdr := default, seen := false, source := [] }, by simp [listing, inBox], by decide⟩

/-- **only_listed_id_strings_resolve.**  With id strings that never spell "latest" (decimal counters; date-sequence
    stamps): a by-id request finds a message — is answered anything but 404 — IF AND ONLY IF its id string is literally
    the id string of a listed message of the addressed mailbox, or is "latest" on a fetching route of a non-empty
    mailbox.  For every store state, every mailbox name, every request string, every by-id route. -/
theorem only_listed_id_strings_resolve (e : Env) (hk : e.contract = .strict) (str : Nat → Bytes)
    (hstr : ∀ n, str n ≠ sLatest) (h : Handler) (hb : byId h = true) (s : Store) (rq : ReqS) (box : Bytes)
    (hbox : extractMailbox e.ip e.naming rq.name = some box) (hr : reaches h rq) :
    (handleS e .byString str h s rq).1.status ≠ .notFound ↔ (Listed str s box rq.id ∨ Alias h s box rq.id) := by
  constructor
  · intro hst
    by_cases hl : Listed str s box rq.id
    · exact Or.inl hl
    · by_cases ha : Alias h s box rq.id
      · exact Or.inr ha
      · rw [unlisted_id_changes_nothing e hk str h hb s rq box hbox hr hl ha] at hst
        simp [r404] at hst
  · rintro (hl | ⟨hf, hlat, hne⟩)
    · have hne : rq.id ≠ sLatest := by
        obtain ⟨m, _, he⟩ := hl
        rw [← he]; exact hstr m.id
      obtain ⟨m, hm, _, heq⟩ := listed_id_string_resolves e str h s rq box hbox hne hl
      rw [heq]
      obtain ⟨hany, hfind⟩ := listed_live s box m hm
      obtain ⟨m', hm'⟩ := Option.isSome_iff_exists.1 hfind
      cases h <;> simp [byId] at hb <;>
        simp only [handle, hbox, fetch, mgrGet, hm', mgrMarkSeen, mgrRemove, mutId, hany, if_true]
      case seenV1 => have := hr.1 rfl; simp [this, rOK]
      case deleteV1 => simp [rOK]
      case wAttach =>
        cases hn : rq.num with
        | bad => exact absurd hn (hr.2 rfl)
        | ok n => simp only; split <;> simp [r500]
      all_goals simp
    · have hres : resolve .byString str s box rq.id = .latest := by simp [resolve, hlat]
      have hlast : ∃ m, (listing s box).getLast? = some m := by
        cases hx : (listing s box).getLast? with
        | none => exact absurd (List.getLast?_eq_none_iff.1 hx) hne
        | some m => exact ⟨m, rfl⟩
      obtain ⟨m, hm⟩ := hlast
      unfold handleS
      rw [hbox]
      simp only [hres]
      cases h <;> simp [isFetch] at hf <;> simp only [handle, hbox, fetch, mgrGet, hm]
      case wAttach =>
        cases hn : rq.num with
        | bad => exact absurd hn (hr.2 rfl)
        | ok n => simp only; split <;> simp [r500]
      all_goals simp

example : ∀ n, (fun n => [n + 1000] : Nat → Bytes) n ≠ sLatest := by intro n; simp [sLatest]

/-! ### every history -/

theorem runS_append (e : Env) (lk : Lookup) (str : Nat → Bytes) (s : Store) (a b : List (Handler × ReqS)) :
    runS e lk str s (a ++ b) =
      ((runS e lk str s a).1 ++ (runS e lk str (runS e lk str s a).2 b).1, (runS e lk str (runS e lk str s a).2 b).2) := by
  induction a generalizing s with
  | nil => simp [runS]
  | cons x xs ih =>
    obtain ⟨h, rq⟩ := x
    simp only [List.cons_append, runS]
    rw [ih]

/-- **unlisted_requests_can_be_erased.**  In ANY history of requests, a by-id request whose id string is unlisted at the
    moment it is served is answered 404 and may be struck out of the history: every other answer and the final store
    are those of the history without it. -/
theorem unlisted_requests_can_be_erased (e : Env) (hk : e.contract = .strict) (str : Nat → Bytes) (s0 : Store)
    (pre post : List (Handler × ReqS)) (h : Handler) (hb : byId h = true) (rq : ReqS) (box : Bytes)
    (hbox : extractMailbox e.ip e.naming rq.name = some box) (hr : reaches h rq)
    (hun : ¬ Listed str (runS e .byString str s0 pre).2 box rq.id)
    (hal : ¬ Alias h (runS e .byString str s0 pre).2 box rq.id) :
    runS e .byString str s0 (pre ++ (h, rq) :: post) =
      ((runS e .byString str s0 pre).1 ++ r404 :: (runS e .byString str (runS e .byString str s0 pre).2 post).1,
       (runS e .byString str s0 (pre ++ post)).2) := by
  rw [runS_append, runS_append]
  simp only [runS]
  rw [unlisted_id_changes_nothing e hk str h hb _ rq box hbox hr hun hal]

/-! ### the link to the handlers over `IdArg` -/

/-- **string_lookup_is_id_syntax_lookup.**  When `dec` is the exact inverse of the store's id printer (`dec (str n) = n`,
    and `dec r = n` only for `r = str n`), looking the request string up among the id strings of the listed messages
    is the same as parsing it with `dec` and looking the number up: `handleS … byString` is `Model.Rest.handle` on
    `idArg dec` — so every theorem of `Props.C14` about `handle` (refinement of the abstract store, totality, 404s)
    speaks about the handlers on STRINGS. -/
theorem string_lookup_is_id_syntax_lookup (e : Env) (str : Nat → Bytes) (dec : Bytes → Option Nat)
    (h1 : ∀ n, dec (str n) = some n) (h2 : ∀ r n, dec r = some n → str n = r)
    (h : Handler) (s : Store) (rq : ReqS) :
    handleS e .byString str h s rq =
      handle e h s { name := rq.name, id := idArg dec rq.id, body := rq.body, num := rq.num, natt := rq.natt } := by
  unfold handleS
  cases hbox : extractMailbox e.ip e.naming rq.name with
  | none => simp [handle, hbox]
  | some box =>
    simp only
    by_cases hl : rq.id = sLatest
    · simp [resolve, idArg, hl]
    · have hne : (rq.id == sLatest) = false := by simpa using hl
      cases hd : dec rq.id with
      | none =>
        have : findByStr str s box rq.id = none := by
          rw [findByStr_none_iff]
          rintro ⟨m, _, he⟩
          rw [← he, h1] at hd
          simp at hd
        simp [resolve, idArg, hne, hd, this]
      | some n =>
        have hs := h2 _ _ hd
        cases hf : findByStr str s box rq.id with
        | some m =>
          obtain ⟨_, hm⟩ := findByStr_some str s box rq.id m hf
          have : m.id = n := by
            have := h1 m.id
            rw [hm, hd] at this
            exact (Option.some.inj this).symm
          simp [resolve, idArg, hne, hd, hf, this]
        | none =>
          -- `n` names no listed message: `.junk` and `.num n` are both a miss
          have hnl := (findByStr_none_iff str s box rq.id).1 hf
          have hany : s.msgs.any (isMsg box n) = false := by
            rw [Bool.eq_false_iff]
            intro ha
            obtain ⟨m, hm, hp⟩ := List.any_eq_true.1 ha
            simp only [isMsg, Bool.and_eq_true, beq_iff_eq] at hp
            exact hnl ⟨m, by simp [listing, inBox, hm, hp.1], by rw [hp.2, hs]⟩
          have hfind : s.msgs.find? (isMsg box n) = none := by
            rw [List.find?_eq_none]
            intro m hm hp
            have : s.msgs.any (isMsg box n) = true := List.any_eq_true.2 ⟨m, hm, hp⟩
            rw [hany] at this
            exact absurd this (by simp)
          simp only [resolve, idArg, hne, hd, hf, Bool.false_eq_true, if_false]
          cases h <;> simp [handle, hbox, fetch, mgrGet, mgrMarkSeen, mgrRemove, mutId, hany, hfind] <;> rfl

example : (∀ n, (fun b => match b with | [n] => some n | _ => none : Bytes → Option Nat) ((fun n => [n]) n) = some n) := by
  intro n; rfl

/-! ### the counter-witness: lookup by decimal value -/

/-- mailbox "a" holding one message, number 1 (id string "1") -/
def exStore : Store :=
  { msgs := [{ box := [97], id := 1, hdr := default, seen := false, source := [120] }], next := fun _ => 1 }

def exEnv : Env := ⟨fun _ => false, .localN, .strict⟩

/-- **decimal_value_lookup_resolves_unlisted_spellings** (counter-witness).  When the store converts the request string
    to a number first (`strconv.Atoi`, messages keyed by index), the strings "01", "001" and "+1" — none of them the id
    string of a listed message — name message 1: GET answers 200 with it, PATCH marks it seen, DELETE removes it; the
    string lookup answers 404 to all of them and changes nothing. -/
theorem decimal_value_lookup_resolves_unlisted_spellings :
    (¬ Listed decStr exStore [97] [48, 49] ∧ ¬ Listed decStr exStore [97] [48, 48, 49] ∧ ¬ Listed decStr exStore [97] [43, 49]) ∧
    (handleS exEnv .byDecimalValue decStr .showV1 exStore { name := [97], id := [48, 49] }).1.status = .ok ∧
    (handleS exEnv .byDecimalValue decStr .wHtml exStore { name := [97], id := [48, 48, 49] }).1.status = .ok ∧
    ((handleS exEnv .byDecimalValue decStr .seenV1 exStore { name := [97], id := [43, 49], body := .seenTrue }).2.msgs.map (·.seen)) = [true] ∧
    (handleS exEnv .byDecimalValue decStr .deleteV1 exStore { name := [97], id := [48, 49] }).1 = rOK ∧
    (handleS exEnv .byDecimalValue decStr .deleteV1 exStore { name := [97], id := [48, 49] }).2.msgs = [] ∧
    (handleS exEnv .byString decStr .showV1 exStore { name := [97], id := [48, 49] }).1 = r404 ∧
    (handleS exEnv .byString decStr .deleteV1 exStore { name := [97], id := [43, 49] }).1 = r404 ∧
    (handleS exEnv .byString decStr .deleteV1 exStore { name := [97], id := [43, 49] }).2.msgs = exStore.msgs := by
  refine ⟨⟨?_, ?_, ?_⟩, by decide, by decide, by decide, by decide, by decide, by decide, by decide, by decide⟩ <;>
  · rintro ⟨m, hm, he⟩
    simp [listing, inBox, exStore] at hm
    subst hm
    revert he
    decide

end Ibx.Props.C14Ids
