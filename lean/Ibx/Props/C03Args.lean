import Ibx.Lemmas.MailArgsSmtp
import Ibx.Props.C03
/-
  C03 with the MAIL-argument parsing inside the model: what a MAIL command line must look like to open a transaction, and
  that one which does not look like that changes nothing.  For every environment whose `mailRe` / `parseArgs` are the
  concrete recognisers of `Ibx.Model.MailArgs` (`Concrete e`; the specification is `Ibx.Spec.MailArgs`, the theorems about
  the recognisers themselves are in `Ibx.Props.C06Args`).
-/
namespace Ibx.Props.C03Args
open Ibx Ibx.Bytes Ibx.Model Ibx.Model.Smtp Ibx.Model.MailArgs Ibx.Spec.MailArgs
open Ibx.Lemmas.Smtp Ibx.Lemmas.MailArgs Ibx.Lemmas.MailArgsSmtp Ibx.Lemmas.SmtpEx

/-- A MAIL argument that cannot be read as `FROM:` · white space · `<` address `>` parameters is answered 501 and changes
    nothing: the session is the one before (state READY, no sender, envelope untouched), only the reply was sent. -/
theorem mail_syntax_error_501 (e : Env) (hc : Concrete e) (s : Sess) (line arg : Bytes) (acc : List Ev)
    (hs : s.st = .ready) (hp : parseCmd line = .cmd (ofAscii "MAIL") arg)
    (hno : ¬ ∃ addr params, Decomp arg addr params) :
    handleLine e s line acc = (send s 1, .reply [501] :: acc) := by
  rw [handleLine_mail e s line arg acc hs hp]
  unfold mailFrom
  rw [hc.1, (mailRe_none_iff arg).2 hno]
  rfl

/-- in particular: no '>' anywhere in the argument -/
theorem mail_without_closing_bracket_501 (e : Env) (hc : Concrete e) (s : Sess) (line arg : Bytes) (acc : List Ev)
    (hs : s.st = .ready) (hp : parseCmd line = .cmd (ofAscii "MAIL") arg) (h : 62 ∉ arg) :
    handleLine e s line acc = (send s 1, .reply [501] :: acc) := by
  refine mail_syntax_error_501 e hc s line arg acc hs hp ?_
  rintro ⟨addr, params, pre, ws, rfl, _⟩
  apply h
  simp

/-- … no '<' anywhere -/
theorem mail_without_opening_bracket_501 (e : Env) (hc : Concrete e) (s : Sess) (line arg : Bytes) (acc : List Ev)
    (hs : s.st = .ready) (hp : parseCmd line = .cmd (ofAscii "MAIL") arg) (h : 60 ∉ arg) :
    handleLine e s line acc = (send s 1, .reply [501] :: acc) := by
  refine mail_syntax_error_501 e hc s line arg acc hs hp ?_
  rintro ⟨addr, params, pre, ws, rfl, _⟩
  apply h
  simp

/-- … or an argument that does not begin with FROM: (in either case) -/
theorem mail_not_from_501 (e : Env) (hc : Concrete e) (s : Sess) (line arg : Bytes) (acc : List Ev)
    (hs : s.st = .ready) (hp : parseCmd line = .cmd (ofAscii "MAIL") arg) (h : lower (arg.take 5) ≠ ofAscii "from:") :
    handleLine e s line acc = (send s 1, .reply [501] :: acc) := by
  refine mail_syntax_error_501 e hc s line arg acc hs hp ?_
  rintro ⟨addr, params, pre, ws, rfl, hpre, _⟩
  apply h
  have hlen : pre.length = 5 := by
    have := congrArg List.length hpre
    simpa [lower, ofAscii] using this
  rw [List.append_assoc, List.take_left' hlen]
  exact hpre

/-- Conversely: a MAIL command that opens a transaction had an argument the expression matches, and the sender the
    session records is group 1 of that match — the decomposition with the longest address. -/
theorem mail_sender_is_group1 (e : Env) (hc : Concrete e) (s : Sess) (arg : Bytes) (acc : List Ev) (hs : s.st = .ready)
    (h : (mailFrom e s arg acc).1.st = .mail) :
    ∃ addr params, MailMatch arg addr params ∧ (mailFrom e s arg acc).1.sender.map (·.addr) = some addr := by
  rw [mailFrom_eq] at h ⊢
  cases hsyn : mailSyntax e arg with
  | inl c =>
    rw [hsyn] at h
    simp [hs] at h
  | inr r =>
    obtain ⟨addr, l, d⟩ := r
    rw [hsyn] at h
    simp only [] at h ⊢
    have hre : ∃ params, MailArgs.mailRe arg = some (addr, params) := by
      unfold mailSyntax at hsyn
      rw [hc.1] at hsyn
      cases hm : MailArgs.mailRe arg with
      | none => rw [hm] at hsyn; simp at hsyn
      | some ap =>
        obtain ⟨a', p'⟩ := ap
        rw [hm] at hsyn
        simp only [] at hsyn
        split at hsyn
        · simp at hsyn
        · split at hsyn
          · simp at hsyn
          · simp only [Sum.inr.injEq, Prod.mk.injEq] at hsyn
            exact ⟨p', by rw [hsyn.1]⟩
    obtain ⟨params, hre⟩ := hre
    refine ⟨addr, params, (mailRe_iff _ _ _).1 hre, ?_⟩
    rcases mailDecide_cases e addr d with ⟨a, ha, hd⟩ | ⟨hh, hpol⟩ | hh
    · rw [mailDecide_deny _ _ _ _ _ _ a ha hd] at h
      simp [hs] at h
    · rw [mailDecide_refuse _ _ _ _ _ _ hh hpol] at h
      simp [hs] at h
    · rw [mailDecide_accept _ _ _ _ _ _ hh]
      simp

/-- refused: no FROM:, no brackets, a bare '>' inside the address, text behind the '>' that is no parameter tail -/
example : (handleLine exEnvC exReady (ofAscii "MAIL TO:<a@b.org>\r\n") []).2 = [.reply [501]] ∧
    (handleLine exEnvC exReady (ofAscii "MAIL TO:<a@b.org>\r\n") []).1.st = .ready := by decide
example : (handleLine exEnvC exReady (ofAscii "MAIL FROM:a@b.org\r\n") []).2 = [.reply [501]] := by decide
example : (handleLine exEnvC exReady (ofAscii "MAIL FROM:<a>b@c.org>\r\n") []).2 = [.reply [501]] := by decide
example : (handleLine exEnvC exReady (ofAscii "MAIL FROM:<a@b.org>x\r\n") []).2 = [.reply [501]] := by decide
example : (handleLine exEnvC exReady (ofAscii "MAIL FROM:<a@b.org> RET=a-b\r\n") []).2 = [.reply [501]] := by decide
/-- accepted: the plain form, lower case with white space, a quoted local part holding a '>' -/
example : (handleLine exEnvC exReady (ofAscii "MAIL FROM:<a@b.org>\r\n") []).1.st = .mail := by decide
example : (handleLine exEnvC exReady (ofAscii "mail from: <a@b.org>\r\n") []).1.st = .mail := by decide
example : (handleLine exEnvC exReady (ofAscii "MAIL FROM:<\"a>b\"@c.org>\r\n") []).1.sender.map (·.addr) =
    some (ofAscii "\"a>b\"@c.org") := by decide
/-- the hypotheses of `mail_syntax_error_501` are met by a concrete line -/
example : parseCmd (ofAscii "MAIL FROM:a@b.org\r\n") = .cmd (ofAscii "MAIL") (ofAscii "FROM:a@b.org") ∧
    MailArgs.mailRe (ofAscii "FROM:a@b.org") = none := by decide

end Ibx.Props.C03Args
