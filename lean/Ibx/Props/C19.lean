import Ibx.Model.Shutdown
/-
  C19 — shutdown is graceful: open sessions finish, nothing new starts, waiting ends.
  Only property theorems, their non-vacuity examples and counter-witnesses live here.
  (Timing — how long after the last session Drain/Join return — is measured by the harness, not proved.)
-/
namespace Ibx.Props.C19
open Ibx.Model.Shutdown

/-! ## (a) accept / WaitGroup / Drain -/
section DrainThms
open Drain

/-- the WaitGroup counter always equals Adds-minus-Dones of the connections in flight -/
private theorem accounting (c : Cfg) {s : St} (h : Reach c s) :
    s.wg = expected c s ∧ (s.acc = .added → c.wgAdd.before = true) ∧ (s.acc = .exited → s.closed = true)
    ∧ (s.closed = true → s.cancelled = true) := by
  unfold Reach at h
  generalize hi : init c = i at h
  induction h with
  | refl => subst hi; obtain ⟨w, sc⟩ := c; cases w <;> cases sc <;> simp [init, expected, WgAdd.before, WgAdd.inside]
  | step _ st ih =>
    obtain ⟨h1, h2, h3, h4⟩ := ih
    obtain ⟨w, sc⟩ := c
    cases st
    case sess ss =>
      cases ss <;> cases w <;> cases sc <;>
        simp_all [expected, WgAdd.before, WgAdd.inside] <;> omega
    all_goals
      cases w <;> cases sc <;> simp_all [expected, WgAdd.before, WgAdd.inside] <;> omega

/-- **no WaitGroup panic**: in every variant of the source, on every schedule, the counter never goes
    negative (`sync: negative WaitGroup counter` cannot happen). -/
theorem wg_never_negative (c : Cfg) {s : St} (h : Reach c s) : 0 ≤ s.wg := by
  have := (accounting c h).1
  rw [this]; unfold expected
  repeat' split <;> omega

/-- **Drain only after** (state form).  With an `Add` before the `go` statement (`beforeSpawn`, `both`):
    whenever the counter is zero — i.e. whenever `Drain()` can return — no session goroutine has an open
    connection, none is still running deferred code, and the acceptor is not between `Add` and `go`. -/
theorem drain_only_after (c : Cfg) (hsafe : c.wgAdd.before = true) {s : St} (h : Reach c s)
    (hz : s.wg = 0) :
    s.openSessions = 0 ∧ s.closing2 = 0 ∧ s.closing1 = 0 ∧ s.acc ≠ .added := by
  have := (accounting c h).1
  rw [hz] at this
  obtain ⟨w, sc⟩ := c
  unfold St.openSessions
  cases w <;> cases sc <;> cases ha : s.acc <;>
    simp [expected, WgAdd.before, WgAdd.inside, ha] at this hsafe ⊢ <;> omega

/-- … and at the very step at which a `Drain()` call returns. -/
theorem drain_returns_only_after (c : Cfg) (hsafe : c.wgAdd.before = true) {s s' : St} (h : Reach c s)
    (st : Step c s s') (hd : s.drained = false) (hd' : s'.drained = true) :
    s'.openSessions = 0 ∧ s'.closing2 = 0 ∧ s'.closing1 = 0 ∧ s'.acc ≠ .added := by
  have hr : Reach c s' := Path.step h st
  cases st
  case drain hz => exact drain_only_after c hsafe hr (by simpa using hz)
  case sess ss => cases ss <;> (try split at hd') <;> simp_all
  all_goals simp_all

/-- **Drain after**: once every session goroutine has finished and the accept loop has returned (which it
    does as soon as the listener is closed, see `acceptor_exits_after_close`), the counter is zero, so
    `Drain()` is enabled — in every variant of the source. -/
theorem drain_enabled_after (c : Cfg) {s : St} (h : Reach c s)
    (hs : s.spawned = 0 ∧ s.running = 0 ∧ s.closing2 = 0 ∧ s.closing1 = 0)
    (ha : s.acc = .exited ∨ (s.acc = .idle ∧ c.serveCounted = false)) :
    ∃ s', Step c s s' ∧ s'.drained = true := by
  have h1 := (accounting c h).1
  refine ⟨{ s with drained := true }, Step.drain s ?_, rfl⟩
  rw [h1]; unfold expected
  obtain ⟨a, b, d, e⟩ := hs
  rcases ha with ha | ⟨ha, hc⟩
  · simp [a, b, d, e, ha]
  · simp [a, b, d, e, ha, hc]

/-- the accept loop is never stuck after the listener was closed: idle → it returns -/
theorem acceptor_exits_after_close (c : Cfg) (s : St) (hc : s.closed = true) (hi : s.acc = .idle) :
    ∃ s', Step c s s' ∧ s'.acc = .exited :=
  ⟨_, Step.acceptFail s hi hc, rfl⟩

/-- `closed` and `cancelled` are stable, and a step from a closed listener accepts nothing -/
private theorem step_closed (c : Cfg) {s s' : St} (st : Step c s s') (hc : s.closed = true) :
    s'.closed = true ∧ s'.accepted = s.accepted := by
  cases st
  case sess ss => cases ss <;> (try split) <;> simp_all
  all_goals simp_all

/-- **no accept after close**: from the moment the listener is closed, on every continuation of every
    schedule, no further connection is accepted (the count of successful Accepts is frozen). -/
theorem no_accept_after_close (c : Cfg) {s s' : St} (p : Path c s s') (hc : s.closed = true) :
    s'.closed = true ∧ s'.accepted = s.accepted := by
  induction p with
  | refl => exact ⟨hc, rfl⟩
  | step _ st ih =>
    obtain ⟨a, b⟩ := ih
    obtain ⟨a', b'⟩ := step_closed c st a
    exact ⟨a', b'.trans b⟩

private theorem quiescent_step (c : Cfg) {s s' : St} (st : Step c s s')
    (h : s.acc = .exited ∧ s.openConns = 0) : s'.acc = .exited ∧ s'.openConns = 0 := by
  obtain ⟨h1, h2⟩ := h
  unfold St.openConns at h2 ⊢
  cases st
  case sess ss => cases ss <;> (try split) <;> simp_all <;> omega
  all_goals simp_all

/-- **Drain is final**: if `Drain()` can return (counter zero) when the accept loop has returned, then no
    accepted connection is open at that moment **or ever after**. -/
theorem drain_final (c : Cfg) (hsafe : c.wgAdd.before = true) {s s' : St} (h : Reach c s)
    (hz : s.wg = 0) (ha : s.acc = .exited) (p : Path c s s') : s'.openConns = 0 := by
  have h0 : s.acc = .exited ∧ s.openConns = 0 := by
    obtain ⟨a, _, _, _⟩ := drain_only_after c hsafe h hz
    unfold St.openSessions at a
    unfold St.openConns
    simp [ha]; omega
  suffices s'.acc = .exited ∧ s'.openConns = 0 from this.2
  induction p with
  | refl => exact h0
  | step _ st ih => exact quiescent_step c st ih

/-- With the accept loop itself counted in the WaitGroup (`serveCounted`, NOT the present source) the side
    condition of `drain_final` is automatic: counter zero ⇒ the loop has returned, the listener is closed,
    nothing is open now or later.  This is the cure for `handoff_window` / `early_drain_window` below (the F-19c fix). -/
theorem drain_final_serveCounted (w : WgAdd) (hsafe : w.before = true) {s s' : St}
    (h : Reach ⟨w, true⟩ s) (hz : s.wg = 0) (p : Path ⟨w, true⟩ s s') :
    s.closed = true ∧ s'.openConns = 0 := by
  obtain ⟨h1, _, h3, _⟩ := accounting ⟨w, true⟩ h
  have ha : s.acc = .exited := by
    rw [hz] at h1
    cases w <;> cases ha : s.acc <;>
      simp [expected, WgAdd.before, WgAdd.inside, ha] at h1 hsafe ⊢ <;> omega
  exact ⟨h3 ha, drain_final ⟨w, true⟩ hsafe h hz ha p⟩

/-- **frame (model a)**: the steps of session goroutines neither read nor write `cancelled` / `closed`:
    the same step is possible, with the same result, whatever those two fields hold. -/
theorem sess_step_frame (c : Cfg) {s s' : St} (st : SessStep c s s') (b d : Bool) :
    SessStep c { s with cancelled := b, closed := d } { s' with cancelled := b, closed := d } := by
  cases st with
  | enter h => exact SessStep.enter { s with cancelled := b, closed := d } h
  | talk h => exact SessStep.talk { s with cancelled := b, closed := d } h
  | close h =>
    have := SessStep.close (c := c) { s with cancelled := b, closed := d } h
    by_cases hb : c.wgAdd = .both <;> simpa [hb] using this
  | done2 h => exact SessStep.done2 { s with cancelled := b, closed := d } h
  | done1 h => exact SessStep.done1 { s with cancelled := b, closed := d } h

/-- … so an open session can always go on (talk, then end and be counted down) after cancel and close. -/
theorem open_session_can_finish (c : Cfg) (s : St) (h : 0 < s.running) :
    ∃ s', SessStep c s s' ∧ s'.running = s.running - 1 ∧ s'.cancelled = s.cancelled := by
  by_cases hb : c.wgAdd = .both
  · exact ⟨_, SessStep.close s h, by simp [hb], by simp [hb]⟩
  · exact ⟨_, SessStep.close s h, by simp [hb], by simp [hb]⟩

/-! ### non-vacuity and counter-witnesses for (a) -/

private def smtpCfg : Cfg := ⟨.both, true⟩   -- the SMTP source as it is now
private def oldSmtpCfg : Cfg := ⟨.inSessionGoroutine, false⟩

/-- accept one connection and bring its session to `running` (present SMTP source: 3+1 steps) -/
private theorem smtp_one_more {s : St} (h : Reach smtpCfg s) (hi : s.acc = .idle) (hc : s.closed = false) :
    Reach smtpCfg { s with accepted := s.accepted + 1, running := s.running + 1, wg := s.wg + 1 + 1 } := by
  have r1 := Path.step h (Step.accept s hi hc)
  have r2 := Path.step r1 (Step.accAdd _ rfl rfl)
  have r3 := Path.step r2 (Step.spawn _ (Or.inl rfl))
  have r4 := Path.step r3 (Step.sess _ _ (SessStep.enter _ (by simp)))
  simpa [smtpCfg, WgAdd.inside, hi] using r4

/-- non-vacuity: a reachable state of the present SMTP source in which shutdown has been requested and
    the listener closed while **two sessions are open**; the counter is 5 (2 per session + the accept
    loop), so Drain is blocked. -/
theorem two_open_sessions_at_cancel :
    ∃ s, Reach smtpCfg s ∧ s.cancelled = true ∧ s.closed = true ∧ s.running = 2 ∧ s.wg = 5 ∧ s.drained = false := by
  have r0 : Reach smtpCfg (init smtpCfg) := Path.refl _
  have r1 := smtp_one_more r0 rfl rfl
  have r2 := smtp_one_more r1 rfl rfl
  have r3 := Path.step r2 (Step.cancel _)
  have r4 := Path.step r3 (Step.closeL _ rfl)
  exact ⟨_, r4, rfl, rfl, rfl, by decide, rfl⟩

example : ∃ s, Reach smtpCfg s ∧ s.wg = 0 ∧ s.acc = .exited ∧ s.ended = 1 := by
  have r0 : Reach smtpCfg (init smtpCfg) := Path.refl _
  have r1 := smtp_one_more r0 rfl rfl
  have r2 := Path.step r1 (Step.cancel _)
  have r3 := Path.step r2 (Step.closeL _ rfl)
  have r4 := Path.step r3 (Step.acceptFail _ rfl rfl)
  have r5 := Path.step r4 (Step.sess _ _ (SessStep.close _ (by decide)))
  have r6 := Path.step r5 (Step.sess _ _ (SessStep.done2 _ (by decide)))
  have r7 := Path.step r6 (Step.sess _ _ (SessStep.done1 _ (by decide)))
  exact ⟨_, r7, by decide, rfl, rfl⟩

/-- **F-19a as a theorem** (`wg.Add` only inside the session goroutine): the schedule
    accept · go · cancel · listener.Close · Accept fails · Drain returns — reaches a state where `Drain()`
    has returned, the accept loop has exited, and an accepted connection is open in a session goroutine
    that has not yet executed its `Add`. -/
theorem drain_unsafe_inSessionGoroutine :
    ∃ s, Reach oldSmtpCfg s ∧ s.drained = true ∧ s.acc = .exited ∧ s.openSessions = 1 := by
  have r0 : Reach oldSmtpCfg (init oldSmtpCfg) := Path.refl _
  have r1 := Path.step r0 (Step.accept _ rfl rfl)
  have r2 := Path.step r1 (Step.spawn _ (Or.inr ⟨rfl, rfl⟩))
  have r3 := Path.step r2 (Step.cancel _)
  have r4 := Path.step r3 (Step.closeL _ rfl)
  have r5 := Path.step r4 (Step.acceptFail _ rfl rfl)
  have r6 := Path.step r5 (Step.drain _ rfl)
  exact ⟨_, r6, rfl, rfl, rfl⟩

/-- the guard `c.wgAdd.before` of `drain_only_after` is needed -/
theorem drain_only_after_fails_inSessionGoroutine :
    ¬ (∀ s, Reach oldSmtpCfg s → s.wg = 0 → s.openSessions = 0) := by
  intro h
  obtain ⟨s, r, _, _, ho⟩ := drain_unsafe_inSessionGoroutine
  have r0 : Reach oldSmtpCfg (init oldSmtpCfg) := Path.refl _
  have r1 := Path.step r0 (Step.accept _ rfl rfl)
  have r2 := Path.step r1 (Step.spawn _ (Or.inr ⟨rfl, rfl⟩))
  have := h _ r2 rfl
  simp [St.openSessions, init] at this

/-- **F-19c, window 1 (hand-off)** — every variant in which the accept loop is NOT counted in the
    WaitGroup, whatever the position of the per-session `Add`.  `Accept` returns a connection; cancel;
    listener.Close; `Drain()` returns (counter 0); only then the accept loop executes `wg.Add(1)` / `go` and
    the session starts: a session is open after Drain returned although the listener was already closed. -/
theorem handoff_window (w : WgAdd) :
    ∃ s, Reach ⟨w, false⟩ s ∧ s.drained = true ∧ s.closed = true ∧ s.running = 1 := by
  have r0 : Reach ⟨w, false⟩ (init ⟨w, false⟩) := Path.refl _
  have r1 := Path.step r0 (Step.accept _ rfl rfl)
  have r2 := Path.step r1 (Step.cancel _)
  have r3 := Path.step r2 (Step.closeL _ rfl)
  have r4 := Path.step r3 (Step.drain _ rfl)
  cases w
  · have r5 := Path.step r4 (Step.accAdd _ rfl rfl)
    have r6 := Path.step r5 (Step.spawn _ (Or.inl rfl))
    have r7 := Path.step r6 (Step.sess _ _ (SessStep.enter _ (by decide)))
    exact ⟨_, r7, rfl, rfl, rfl⟩
  · have r6 := Path.step r4 (Step.spawn _ (Or.inr ⟨rfl, rfl⟩))
    have r7 := Path.step r6 (Step.sess _ _ (SessStep.enter _ (by decide)))
    exact ⟨_, r7, rfl, rfl, rfl⟩
  · have r5 := Path.step r4 (Step.accAdd _ rfl rfl)
    have r6 := Path.step r5 (Step.spawn _ (Or.inl rfl))
    have r7 := Path.step r6 (Step.sess _ _ (SessStep.enter _ (by decide)))
    exact ⟨_, r7, rfl, rfl, rfl⟩

/-- **F-19c, window 2 (early drain)** — accept loop not counted.  main.go calls `Drain()` right after
    `cancel()`, without waiting for `listener.Close()`: cancel; `Drain()` returns (no session open); a
    connection is accepted before Start closes the listener; its session runs after Drain returned. -/
theorem early_drain_window (w : WgAdd) :
    ∃ s, Reach ⟨w, false⟩ s ∧ s.drained = true ∧ s.cancelled = true ∧ s.closed = false ∧ s.running = 1 := by
  have r0 : Reach ⟨w, false⟩ (init ⟨w, false⟩) := Path.refl _
  have r1 := Path.step r0 (Step.cancel _)
  have r2 := Path.step r1 (Step.drain _ rfl)
  have r3 := Path.step r2 (Step.accept _ rfl rfl)
  cases w
  · have r5 := Path.step r3 (Step.accAdd _ rfl rfl)
    have r6 := Path.step r5 (Step.spawn _ (Or.inl rfl))
    have r7 := Path.step r6 (Step.sess _ _ (SessStep.enter _ (by decide)))
    exact ⟨_, r7, rfl, rfl, rfl, rfl⟩
  · have r6 := Path.step r3 (Step.spawn _ (Or.inr ⟨rfl, rfl⟩))
    have r7 := Path.step r6 (Step.sess _ _ (SessStep.enter _ (by decide)))
    exact ⟨_, r7, rfl, rfl, rfl, rfl⟩
  · have r5 := Path.step r3 (Step.accAdd _ rfl rfl)
    have r6 := Path.step r5 (Step.spawn _ (Or.inl rfl))
    have r7 := Path.step r6 (Step.sess _ _ (SessStep.enter _ (by decide)))
    exact ⟨_, r7, rfl, rfl, rfl, rfl⟩

/-- the executable step function used by the replay driver only takes steps of the model -/
theorem apply_sound (c : Cfg) (s s' : St) (l : Label) (h : apply c s l = some s') : Step c s s' := by
  cases l <;> simp only [apply] at h <;> (try split at h) <;> simp at h <;> subst h
  · exact Step.cancel s
  · exact Step.closeL s (by assumption)
  · rename_i hh; exact Step.accept s hh.1 hh.2
  · rename_i hh; exact Step.acceptFail s hh.1 hh.2
  · rename_i hh; exact Step.accAdd s hh.1 hh.2
  · rename_i hh; exact Step.spawn s hh
  · rename_i hh; exact Step.sess _ _ (SessStep.enter s hh)
  · rename_i hh; exact Step.sess _ _ (SessStep.talk s hh)
  · rename_i hh; exact Step.sess _ _ (SessStep.close s hh)
  · rename_i hh; exact Step.sess _ _ (SessStep.done2 s hh)
  · rename_i hh; exact Step.sess _ _ (SessStep.done1 s hh)
  · rename_i hh; exact Step.drain s hh

/-- … so every state the driver reports is reachable -/
theorem applyAll_sound (c : Cfg) (ls : List Label) (s s' : St) (h : applyAll c s ls = some s') : Path c s s' := by
  induction ls generalizing s with
  | nil => simp [applyAll] at h; subst h; exact Path.refl _
  | cons l ls ih =>
    simp only [applyAll] at h
    split at h
    · simp at h
    · rename_i t ht
      have p := ih t h
      have st := apply_sound c s t l ht
      clear ih h ht
      induction p with
      | refl => exact Path.step (Path.refl _) st
      | step _ st' ih' => exact Path.step ih' st'

/-! ### the obligation the tie instantiates with the regenerated fact -/

/-- what "Drain is safe" means for one variant of the source -/
def DrainSafe (c : Cfg) : Prop :=
  (∀ s, Reach c s → 0 ≤ s.wg) ∧
  (∀ s, Reach c s → s.wg = 0 → s.openSessions = 0 ∧ s.closing2 = 0 ∧ s.closing1 = 0 ∧ s.acc ≠ .added) ∧
  (∀ s s', Reach c s → s.wg = 0 → s.acc = .exited → Path c s s' → s'.openConns = 0) ∧
  (∀ s, Reach c s → s.spawned = 0 ∧ s.running = 0 ∧ s.closing2 = 0 ∧ s.closing1 = 0 → s.acc = .exited →
      ∃ s', Step c s s' ∧ s'.drained = true) ∧
  (∀ s s', Path c s s' → s.closed = true → s'.closed = true ∧ s'.accepted = s.accepted)

/-- **drain_after_and_only_after** for every variant with an `Add` before the `go` statement -/
theorem drain_after_and_only_after (c : Cfg) (hsafe : c.wgAdd.before = true) : DrainSafe c :=
  ⟨fun _ h => wg_never_negative c h,
   fun _ h hz => drain_only_after c hsafe h hz,
   fun _ _ h hz ha p => drain_final c hsafe h hz ha p,
   fun _ h hs ha => drain_enabled_after c h hs (Or.inl ha),
   fun _ _ p hc => no_accept_after_close c p hc⟩

/-- the variant with `Add` only inside the goroutine is NOT safe (whatever `serveCounted` is); the
    failing schedule is accept · go · cancel · listener.Close · Accept fails · (Drain returns) -/
theorem drain_unsafe (sc : Bool) : ¬ DrainSafe ⟨.inSessionGoroutine, sc⟩ := by
  rintro ⟨_, h2, _⟩
  have r0 : Reach ⟨.inSessionGoroutine, sc⟩ (init ⟨.inSessionGoroutine, sc⟩) := Path.refl _
  have r1 := Path.step r0 (Step.accept _ rfl rfl)
  have r2 := Path.step r1 (Step.spawn _ (Or.inr ⟨rfl, rfl⟩))
  have r3 := Path.step r2 (Step.cancel _)
  have r4 := Path.step r3 (Step.closeL _ rfl)
  have r5 := Path.step r4 (Step.acceptFail _ rfl rfl)
  have := h2 _ r5 (by cases sc <;> rfl)
  simp [St.openSessions, init] at this

/-- "Drain is final": whenever `Drain()` can return, the listener is closed, the accept loop has returned,
    and no accepted connection is open then or at any later time. -/
def DrainFinal (c : Cfg) : Prop :=
  ∀ s s', Reach c s → s.wg = 0 → Path c s s' → s.closed = true ∧ s'.openConns = 0

/-- holds as soon as the accept loop is counted in the WaitGroup and the per-session `Add` precedes `go` -/
theorem drain_is_final (c : Cfg) (hsafe : c.wgAdd.before = true) (hsc : c.serveCounted = true) : DrainFinal c := by
  obtain ⟨w, sc⟩ := c
  simp only at hsafe hsc
  subst hsc
  intro s s' h hz p
  exact drain_final_serveCounted w hsafe h hz p

/-- fails for every variant with the accept loop NOT counted; the failing schedules are
    `early_drain_window` (used here) and `handoff_window` -/
theorem drain_not_final_uncounted (w : WgAdd) : ¬ DrainFinal ⟨w, false⟩ := by
  intro h
  obtain ⟨s, r, _, _, hc, hr⟩ := early_drain_window w
  have := (h (init ⟨w, false⟩) s (Path.refl _) rfl r).2
  simp [St.openConns, hr] at this

end DrainThms

/-! ## (b) the message hub's stop -/
section HubThms
open Hub

private theorem hub_inv (cap : Nat) {s : St} (h : Reach .closesDone cap s) :
    s.opClosed = false ∧ s.panicked = false ∧ (s.stopped = true → s.doneClosed = true)
    ∧ (s.doneClosed = true → s.stopped = true) ∧ (s.stopped = true → s.cancelled = true) := by
  unfold Reach at h
  generalize hi : init = i at h
  induction h with
  | refl => subst hi; simp [init]
  | step _ st ih =>
    obtain ⟨h1, h2, h3, h4, h5⟩ := ih
    cases st <;> simp_all

/-- **no panic after cancel** (`closesDone`, the present source): on every schedule — any number of
    producers, events arriving before, during and after the loop's stop — no goroutine panics, because
    `opChan` is never closed. -/
theorem no_panic_after_cancel (cap : Nat) {s : St} (h : Reach .closesDone cap s) :
    s.panicked = false ∧ s.opClosed = false :=
  ⟨(hub_inv cap h).2.1, (hub_inv cap h).1⟩

/-- **producers never block forever after the stop**: once the loop has stopped, every producer that is
    inside `enqueue` can return at once (`case <-hub.done`), whatever the queue holds — also when the
    buffer is full and nobody will ever drain it. -/
theorem producers_never_block_forever_after_stop (cap : Nat) {s : St} (h : Reach .closesDone cap s)
    (hs : s.stopped = true) (hw : 0 < s.waiting) :
    ∃ s', Step .closesDone cap s s' ∧ s'.waiting = s.waiting - 1 ∧ s'.panicked = false :=
  ⟨_, Step.drop s rfl hw ((hub_inv cap h).2.2.1 hs), rfl, (hub_inv cap h).2.1⟩

/-- `Sync()` does not hang after the stop: its second select has a readable case. -/
theorem sync_never_blocks_forever_after_stop (cap : Nat) {s : St} (h : Reach .closesDone cap s)
    (hs : s.stopped = true) (hw : 0 < s.syncWait) :
    ∃ s', Step .closesDone cap s s' ∧ s'.syncWait = s.syncWait - 1 :=
  ⟨_, Step.syncStop s rfl hw ((hub_inv cap h).2.2.1 hs), rfl⟩

/-- the loop can always stop once cancelled (its select has the `ctx.Done()` case readable), and it is the
    only enabled loop step when the queue is empty -/
theorem hub_loop_can_stop (m : OnCancel) (cap : Nat) (s : St) (hc : s.cancelled = true) (hs : s.stopped = false) :
    ∃ s', Step m cap s s' ∧ s'.stopped = true := by
  refine ⟨_, Step.stop s hs hc, ?_⟩
  cases m <;> rfl

/-- after the stop the queue is never consumed again (operations sent late are dropped or stay buffered;
    nothing runs them), and the loop stays stopped -/
theorem hub_stopped_stable (m : OnCancel) (cap : Nat) {s s' : St} (st : Step m cap s s') (hs : s.stopped = true) :
    s'.stopped = true ∧ s.q ≤ s'.q := by
  cases st <;> (try cases m) <;> simp_all

example : ∃ s, Reach .closesDone 100 s ∧ s.stopped = true ∧ s.waiting = 1 ∧ s.q = 1 := by
  have r0 : Reach .closesDone 100 init := Path.refl _
  have r1 := Path.step r0 (Step.call _)
  have r2 := Path.step r1 (Step.send _ (by decide) (by decide) rfl)
  have r3 := Path.step r2 (Step.cancel _)
  have r4 := Path.step r3 (Step.stop _ rfl rfl)
  have r5 := Path.step r4 (Step.call _)
  exact ⟨_, r5, rfl, rfl, rfl⟩

/-- **F-19b as a theorem** (`Hub.Start` closes `opChan` on cancel): the schedule
    cancel · loop stops (closes opChan) · a draining session's `stored` event calls Dispatch · send on the
    closed channel — reaches a panic. -/
theorem hub_panic_closesOpChan (cap : Nat) : ∃ s, Reach .closesOpChan cap s ∧ s.panicked = true := by
  have r0 : Reach .closesOpChan cap init := Path.refl _
  have r1 := Path.step r0 (Step.cancel _)
  have r2 := Path.step r1 (Step.stop _ rfl rfl)
  have r3 := Path.step r2 (Step.call _)
  have r4 := Path.step r3 (Step.sendClosed _ (by decide) rfl)
  exact ⟨_, r4, rfl⟩

/-- … and in that source a producer that meets a full buffer after the stop has no enabled step except the
    panic: it can never return normally. -/
theorem hub_closesOpChan_producer_stuck (cap : Nat) (s s' : St) (hs : s.opClosed = true)
    (st : Step .closesOpChan cap s s') : s.waiting ≤ s'.waiting := by
  cases st <;> simp_all

end HubThms

/-! ## (c) the retention scanner -/
section RetThms
open Ret

/-- how many more mailboxes can still be *finished* after cancel from a given program counter when the
    sleep is positive -/
private def potential : Pc → Nat
  | .start => 1 | .top => 1 | .preSleep => 0
  | .scanHead k => if k = 0 then 0 else 1
  | .processing _ => 1 | .waiting _ => 0 | .postScan => 0 | .stopped => 0

private def inProc : Pc → Nat
  | .processing _ => 1 | _ => 0

private def RInv (s : St) : Prop :=
  (s.cancelled = false → s.finishedAfterCancel = 0 ∧ s.begunAfterCancel = 0) ∧
  (s.cancelled = true → s.finishedAfterCancel + potential s.pc ≤ 1 ∧
     s.begunAfterCancel ≤ s.finishedAfterCancel + inProc s.pc) ∧
  (s.joined = true → s.pc = .stopped)

private theorem rinv_step (e : Bool) {s s' : St} (st : Step ⟨e, false⟩ s s') (h : RInv s) : RInv s' := by
  obtain ⟨h1, h2, h3⟩ := h
  unfold RInv
  cases st
  case scan ss =>
    cases ss <;> cases hc : s.cancelled <;>
      simp_all [potential, bump, inProc] <;> (try split) <;> (try omega) <;> simp_all <;> omega
  case cancel =>
    cases hc : s.cancelled <;> cases hp : s.pc <;> simp_all [potential, inProc] <;> (try split) <;> omega
  case join => simp_all

private theorem ret_inv (e : Bool) {s : St} (h : Reach ⟨e, false⟩ s) : RInv s := by
  unfold Reach at h
  generalize hi : init = i at h
  induction h with
  | refl => subst hi; simp [init, RInv]
  | step _ st ih => exact rinv_step e st ih

/-- **cancel is bounded** (positive RetentionSleep): after shutdown is requested the scanner finishes at
    most ONE mailbox — the one in hand, or the first one of a scan it had already committed to — and
    begins at most one. -/
theorem cancel_bounded (e : Bool) {s : St} (h : Reach ⟨e, false⟩ s) :
    s.finishedAfterCancel ≤ 1 ∧ s.begunAfterCancel ≤ 1 := by
  obtain ⟨h1, h2, _⟩ := ret_inv e h
  cases hc : s.cancelled
  · have := h1 hc; omega
  · obtain ⟨a, b⟩ := h2 hc
    cases hp : s.pc <;> simp_all [potential, inProc] <;> (try split at a) <;> omega

/-- every wait of the scanner is a select with a `ctx.Done()` case: once cancelled the scanner goroutine
    is never blocked — it always has an enabled step until it has closed `retentionShutdown`. -/
theorem scanner_never_stuck (c : Cfg) (s : St) (hc : s.cancelled = true) (hp : s.pc ≠ .stopped) :
    ∃ s', ScanStep c s s' := by
  cases h : s.pc with
  | start => cases he : c.enabled
             · exact ⟨_, ScanStep.disabled s h he⟩
             · exact ⟨_, ScanStep.enabled s h he⟩
  | top => exact ⟨_, ScanStep.topSleep s h⟩
  | preSleep => exact ⟨_, ScanStep.sleepDone s h hc⟩
  | scanHead k => cases k with
    | zero => exact ⟨_, ScanStep.scanEnd s h⟩
    | succ k => exact ⟨_, ScanStep.procStart s k h⟩
  | processing k => exact ⟨_, ScanStep.procEnd s k h⟩
  | waiting k => exact ⟨_, ScanStep.waitDone s k h hc⟩
  | postScan => exact ⟨_, ScanStep.postDone s h hc⟩
  | stopped => exact absurd h hp

/-- … and every step it takes after cancel brings it strictly closer to `stopped` (even with a zero
    RetentionSleep, where the random select may let the current scan go on: `rank` counts the remaining
    mailboxes of the current scan) — so it stops after at most `rank` of its own steps … -/
theorem scanner_progress (c : Cfg) {s s' : St} (st : ScanStep c s s') (hc : s.cancelled = true)
    (ht : s.pc ≠ .top) : rank s'.pc < rank s.pc ∧ s'.cancelled = true := by
  cases st <;> simp_all [rank] <;> omega

/-- … `top` being left for good: no new loop iteration is entered after cancel (`postScan` takes the
    `ctx.Done()` branch: a select with `default` never prefers `default` over a readable case). -/
theorem top_not_reentered (c : Cfg) {s s' : St} (st : Step c s s') (hc : s.cancelled = true)
    (ht : s'.pc = .top) : s.pc = .top ∨ s.pc = .start := by
  cases st
  case scan ss => cases ss <;> simp_all
  all_goals simp_all

/-- with a positive sleep the bound is a constant: at most 4 scanner steps from anywhere but `top`/`scanHead` -/
theorem scanner_stops_within (e : Bool) {s s' : St} (st : ScanStep ⟨e, false⟩ s s') (hc : s.cancelled = true)
    (hw : ∃ k, s.pc = .waiting k) : s'.pc = .postScan := by
  obtain ⟨k, hw⟩ := hw
  cases st <;> simp_all

/-- **Join returns**: `Join()` is enabled exactly when the scanner has stopped. -/
theorem join_returns (c : Cfg) (s : St) : (∃ s', Step c s s' ∧ s'.joined = true ∧ s.joined = false) → s.pc = .stopped := by
  rintro ⟨s', st, hj, hn⟩
  cases st
  case scan ss => cases ss <;> simp_all
  all_goals simp_all

theorem join_enabled (c : Cfg) (s : St) (h : s.pc = .stopped) : ∃ s', Step c s s' ∧ s'.joined = true :=
  ⟨_, Step.join s h, rfl⟩

/-- the disabled scanner (RetentionPeriod ≤ 0) stops in one step, cancelled or not -/
theorem disabled_scanner_stops (s : St) (h : s.pc = .start) (sz : Bool) :
    ∃ s', ScanStep ⟨false, sz⟩ s s' ∧ s'.pc = .stopped :=
  ⟨_, ScanStep.disabled s h rfl, rfl⟩

/-- non-vacuity: cancel arrives while mailbox 1 of 3 is being purged; that one is finished, none is begun,
    the scanner stops and Join returns -/
example : ∃ s, Reach ⟨true, false⟩ s ∧ s.joined = true ∧ s.finishedAfterCancel = 1 ∧ s.begunAfterCancel = 0 := by
  have r0 : Reach ⟨true, false⟩ init := Path.refl _
  have r1 := Path.step r0 (Step.scan _ _ (ScanStep.enabled _ rfl rfl))
  have r2 := Path.step r1 (Step.scan _ _ (ScanStep.topSleep _ rfl))
  have r3 := Path.step r2 (Step.scan _ _ (ScanStep.sleepTimer _ 3 rfl rfl))
  have r4 := Path.step r3 (Step.scan _ _ (ScanStep.procStart _ 2 rfl))
  have r5 := Path.step r4 (Step.cancel _)
  have r6 := Path.step r5 (Step.scan _ _ (ScanStep.procEnd _ 2 rfl))
  have r7 := Path.step r6 (Step.scan _ _ (ScanStep.waitDone _ 2 rfl rfl))
  have r8 := Path.step r7 (Step.scan _ _ (ScanStep.postDone _ rfl rfl))
  have r9 := Path.step r8 (Step.join _ rfl)
  exact ⟨_, r9, rfl, rfl, rfl⟩

/-- the guard "positive sleep" of `cancel_bounded` is needed: with RetentionSleep = 0 the select at the
    end of a mailbox may pick the timer although `ctx.Done()` is readable, and a second mailbox is purged
    after cancel.  (Still bounded by the current scan: `scanner_progress`.) -/
theorem cancel_bounded_fails_sleepZero :
    ∃ s, Reach ⟨true, true⟩ s ∧ s.finishedAfterCancel = 2 := by
  have r0 : Reach ⟨true, true⟩ init := Path.refl _
  have r1 := Path.step r0 (Step.scan _ _ (ScanStep.enabled _ rfl rfl))
  have r2 := Path.step r1 (Step.scan _ _ (ScanStep.topScan _ 3 rfl))
  have r3 := Path.step r2 (Step.scan _ _ (ScanStep.procStart _ 2 rfl))
  have r4 := Path.step r3 (Step.cancel _)
  have r5 := Path.step r4 (Step.scan _ _ (ScanStep.procEnd _ 2 rfl))
  have r6 := Path.step r5 (Step.scan _ _ (ScanStep.waitTimer _ 2 rfl (Or.inr rfl)))
  have r7 := Path.step r6 (Step.scan _ _ (ScanStep.procStart _ 1 rfl))
  have r8 := Path.step r7 (Step.scan _ _ (ScanStep.procEnd _ 1 rfl))
  exact ⟨_, r8, rfl⟩

end RetThms

/-! ## (d) an open session is unaffected by the cancel event -/
section SessThms
open Sess
variable {σ ι ρ κ : Type}

/-- cancel / close events do not touch the data; session events do not look at the flags -/
private theorem exec1_data (p : Prog σ ι ρ κ) (s t : St σ ι ρ κ) (hd : s.data = t.data) (e : Ev) :
    (exec1 p s e).data = (if e.isSess then exec1 p t e else t).data := by
  cases s; cases t
  simp only [St.data, Data.mk.injEq] at hd
  obtain ⟨h1, h2⟩ := hd
  subst h1 h2
  cases e <;> simp [exec1, Ev.isSess, St.data]
  split <;> simp

private theorem exec_data (p : Prog σ ι ρ κ) (evs : List Ev) (s t : St σ ι ρ κ) (hd : s.data = t.data) :
    (exec p s evs).data = (exec p t (evs.filter Ev.isSess)).data := by
  induction evs generalizing s t with
  | nil => simpa [exec] using hd
  | cons e rest ih =>
    have h1 := exec1_data p s t hd e
    cases he : e.isSess
    · simp only [he] at h1
      simpa [exec, List.filter, he] using ih (exec1 p s e) t (by simpa using h1)
    · simp only [he] at h1
      simpa [exec, List.filter, he] using ih (exec1 p s e) (exec1 p t e) (by simpa using h1)

/-- **frame lemma — open_session_unaffected.**  For every session program (anything of type `Prog`: a
    function of session state, store and input only), every number of sessions, every schedule `evs` of
    session steps with `cancel` / `listener.Close` events interleaved ANYWHERE: session states, remaining
    inputs, all replies and the store at the end are exactly those of the same schedule with the shutdown
    events erased. -/
theorem open_session_unaffected (p : Prog σ ι ρ κ) (s : St σ ι ρ κ) (evs : List Ev) :
    (exec p s evs).data = (exec p s (evs.filter Ev.isSess)).data :=
  exec_data p evs s s rfl

/-- same statement in the "two states differing only in the flags" form: the flags of the start state do
    not matter either -/
theorem session_steps_ignore_flags (p : Prog σ ι ρ κ) (s : St σ ι ρ κ) (b d : Bool) (evs : List Ev) :
    (exec p { s with cancelled := b, closed := d } evs).data = (exec p s (evs.filter Ev.isSess)).data :=
  exec_data p evs _ s rfl

/-- one step: enabledness and result of a session step are the same in any two states that differ only
    in `cancelled` / `closed` -/
theorem sess_exec1_frame (p : Prog σ ι ρ κ) (s : St σ ι ρ κ) (b d : Bool) (i : Nat) :
    exec1 p { s with cancelled := b, closed := d } (.sess i)
      = { exec1 p s (.sess i) with cancelled := b, closed := d } := rfl

/-- the SMTP dialogue of one message with a 3-line body -/
def smtpDialogue : List SmtpIn := [.helo, .mail, .rcpt, .data, .body 1, .body 2, .body 3, .dot, .quit]

def smtpStart (b d : Bool) : St SmtpSt SmtpIn Nat (List (List Nat)) :=
  { cancelled := b, closed := d, store := [], threads := [⟨.greet, smtpDialogue, []⟩] }

/-- shutdown requested at protocol position `k` of the dialogue (0 = right after the greeting, 4 = after
    the 354, 5/6 = mid-body, 8 = after the final dot's reply, …) -/
def cancelAt (k n : Nat) : List Ev :=
  List.replicate k (Ev.sess 0) ++ [Ev.cancel, Ev.closeL] ++ List.replicate (n - k) (Ev.sess 0)

private theorem filter_cancelAt (k n : Nat) (h : k ≤ n) :
    (cancelAt k n).filter Ev.isSess = List.replicate n (Ev.sess 0) := by
  unfold cancelAt
  simp [List.filter_append, List.filter_replicate, Ev.isSess]
  omega

/-- **an in-flight message is still stored and acknowledged**: wherever in the dialogue shutdown is
    requested — after the greeting, after MAIL, after RCPT, after the 354, in the middle of the body,
    between the final dot and its reply — the message is stored intact, the client gets
    250 250 250 354 250 221, and the session ends in QUIT. -/
theorem inflight_message_stored_and_acked (k : Nat) (hk : k ≤ 9) :
    let s := exec smtp (smtpStart false false) (cancelAt k 9)
    s.store = [[1, 2, 3]] ∧ s.threads.map (·.replies) = [[250, 250, 250, 354, 250, 221]]
      ∧ s.threads.map (·.st) = [SmtpSt.quit] ∧ s.cancelled = true := by
  have h := open_session_unaffected smtp (smtpStart false false) (cancelAt k 9)
  rw [filter_cancelAt k 9 hk] at h
  have hc : (exec smtp (smtpStart false false) (cancelAt k 9)).cancelled = true := by
    have : ∀ (evs : List Ev) (s : St SmtpSt SmtpIn Nat (List (List Nat))), s.cancelled = true →
        (exec smtp s evs).cancelled = true := by
      intro evs
      induction evs with
      | nil => intro s h; simpa [exec] using h
      | cons e r ih => intro s h; apply ih; cases e <;> simp [exec1, h]
    unfold cancelAt exec
    rw [List.foldl_append, List.foldl_append]
    apply this
    simp [exec1]
  have e : (exec smtp (smtpStart false false) (List.replicate 9 (Ev.sess 0))).data
      = ⟨[[1, 2, 3]], [⟨.quit, [], [250, 250, 250, 354, 250, 221]⟩]⟩ := by decide
  rw [e] at h
  simp only [St.data, Data.mk.injEq] at h
  obtain ⟨h1, h2⟩ := h
  refine ⟨h1, ?_, ?_, hc⟩ <;> simp [h2]

def popDialogue : List PopIn := [.login, .dele 7, .dele 9, .quit]

def popStart : St PopSt PopIn Nat (List Nat) :=
  { cancelled := false, closed := false, store := [7, 8, 9], threads := [⟨.auth, popDialogue, []⟩] }

/-- **pending POP3 deletions still apply on QUIT**: wherever shutdown is requested (after login, after a
    DELE, just before QUIT), the marked messages 7 and 9 are removed at QUIT and every command got +OK. -/
theorem pop3_deletes_apply_on_quit (k : Nat) (hk : k ≤ 4) :
    let s := exec pop3 popStart (cancelAt k 4)
    s.store = [8] ∧ s.threads.map (·.replies) = [[1, 1, 1, 1]] := by
  have h := open_session_unaffected pop3 popStart (cancelAt k 4)
  rw [filter_cancelAt k 4 hk] at h
  have e : (exec pop3 popStart (List.replicate 4 (Ev.sess 0))).data
      = ⟨[8], [⟨.quit, [], [1, 1, 1, 1]⟩]⟩ := by decide
  rw [e] at h
  simp only [St.data, Data.mk.injEq] at h
  obtain ⟨h1, h2⟩ := h
  exact ⟨h1, by simp [h2]⟩

/-- … and without QUIT (client vanishes after shutdown was requested) nothing is removed -/
example : (exec pop3 popStart (cancelAt 1 3)).store = [7, 8, 9] := by decide

/-- non-vacuity: two sessions open when shutdown is requested in the middle of both dialogues; both
    messages end up stored, both clients acknowledged -/
example :
    let s := exec smtp { cancelled := false, closed := false, store := [],
                         threads := [⟨.greet, smtpDialogue, []⟩, ⟨.greet, smtpDialogue, []⟩] }
               ([.sess 0, .sess 1, .sess 0, .sess 0, .sess 0, .sess 0, .cancel, .sess 1, .closeL] ++
                List.replicate 7 (.sess 1) ++ List.replicate 4 (.sess 0))
    s.store = [[1, 2, 3], [1, 2, 3]] ∧ s.cancelled = true ∧ s.closed = true ∧
    s.threads.map (·.replies) = [[250, 250, 250, 354, 250, 221], [250, 250, 250, 354, 250, 221]] := by
  decide

end SessThms

end Ibx.Props.C19
