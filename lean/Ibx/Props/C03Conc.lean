import Ibx.Lemmas.SmtpConc
import Ibx.Props.C03
import Ibx.Props.C01Conc
/-
  C03 ("transactions are … isolated from each other") and C01 for any number of REAL SMTP sessions at once.

  The world is `Model.SmtpConc`: N sessions running the session machine of `Model.Smtp` (one step = one iteration of the
  command loop), any number of other clients making store calls, all around ONE `Spec.Store`; a schedule is any list of
  `sess i` / `cancel` / `closeL` events.  Proved for EVERY environment (policy, limits, hooks, fault set), every number
  of clients, everything each will send, every initial store and every schedule:

  * isolation — what a session answers and what it hands to the store are those of the same session ALONE
    (`session_as_if_alone`; for a fresh connection that is `Model.Smtp.run`: `fresh_session_is_prefix_of_run`,
    `fresh_session_is_run`).  Hypotheses: none beyond the model's shape — a session step is a function of the session's
    own state and pending input; the store's content, its evictions and the other clients' calls are not among its
    arguments (`Env.storeFails` is a function of the mailbox).  Evictions therefore matter to what the store HOLDS
    afterwards (below), never to a reply or to a copy handed over;
  * the store — it is the initial store with the calls of the schedule's `trace` applied in order (`store_is_trace`),
    and the trace is an in-order merge of the clients' own call lists (`trace_is_merge`, `fresh_session_calls`);
    without cap and limit the number of copies of every delivery is the number of calls made for it, whatever the
    interleaving (`copies_are_session_calls`, `schedule_is_immaterial` — `Props.C01Conc` applied to the trace); with a
    mailbox cap every mailbox shows the newest `cap` of (what it held ++ what arrived for it, in arrival order)
    (`capped_mailbox_holds_newest`).
-/
namespace Ibx.Props.C03Conc
open Ibx Ibx.Bytes Ibx.Model Ibx.Model.Smtp Ibx.Model.SmtpConc Ibx.Model.Shutdown
open Ibx.Lemmas.Smtp Ibx.Lemmas.SmtpLoop Ibx.Lemmas.SmtpIO Ibx.Lemmas.SmtpEx Ibx.Lemmas.SpecStore Ibx.Lemmas.SmtpStore
open Ibx.Lemmas.SmtpConc
open Ibx.Spec.Store

deriving instance DecidableEq for Ibx.Spec.Store.Op

/-! ### isolation -/

private theorem run_cons (e : SmtpConc.Env) (w : World) (ev : Sess.Ev) (evs : List Sess.Ev) :
    SmtpConc.run e w (ev :: evs) = SmtpConc.run e (Sess.exec1 (prog e) w ev) evs := rfl

/-- **session_as_if_alone.**  Whatever the other clients do and wherever `cancel` / `closeL` fall: after a schedule in
    which client `i` was given `n` steps, its state is the state of the same client ALONE after its first `n` units
    (`aloneIn`: no store, no other client, no flags), the input it has left is the rest, and the SMTP events among its
    outputs — every reply, every copy handed to the store, in order — are what it had put out before followed by
    exactly those it produces alone. -/
theorem session_as_if_alone (e : SmtpConc.Env) (sched : List Sess.Ev) (w : World) (i : Nat) (t : Thread)
    (h : w.threads[i]? = some t) :
    ∃ t', (SmtpConc.run e w sched).threads[i]? = some t' ∧
      t'.st = (aloneIn e.smtp (t.input.take (sched.count (.sess i))) t.st).1 ∧
      t'.input = t.input.drop (sched.count (.sess i)) ∧
      evsOf t'.replies = evsOf t.replies ++ (aloneIn e.smtp (t.input.take (sched.count (.sess i))) t.st).2 := by
  induction sched generalizing w t with
  | nil => exact ⟨t, h, by simp [aloneIn], by simp, by simp [aloneIn]⟩
  | cons ev rest ih =>
    rw [run_cons]
    by_cases hev : ev = .sess i
    · subst hev
      rw [List.count_cons_self]
      cases hin : t.input with
      | nil =>
        rw [exec1_sess_idle e w i t h hin]
        obtain ⟨t', h1, h2, h3, h4⟩ := ih w t h
        refine ⟨t', h1, ?_, ?_, ?_⟩
        · rw [h2, hin]; simp
        · rw [h3, hin]; simp
        · rw [h4, hin]; simp
      | cons x xs =>
        have hs := exec1_thread_self e w i t x xs h hin
        obtain ⟨t', h1, h2, h3, h4⟩ := ih _ _ hs
        have hl := clientStep_local e t.st w.store x
        refine ⟨t', h1, ?_, ?_, ?_⟩
        · rw [h2]; simp only [List.take_succ_cons, aloneIn, hl.1]
        · rw [h3]; simp
        · rw [h4]; simp only [List.take_succ_cons, aloneIn, evsOf_append, hl.1, hl.2, List.append_assoc]
    · rw [List.count_cons_of_ne hev]
      have hs := exec1_thread_other e w ev i hev
      exact ih _ t (by rw [hs]; exact h)

theorem aloneIn_ticks (e : Smtp.Env) (n : Nat) (c : Client) : aloneIn e (List.replicate n .tick) c = alone e n c := by
  induction n generalizing c with
  | zero => rfl
  | succ n ih => simp [List.replicate_succ, aloneIn, localStep, alone, ih]

/-- the session alone, iterated, computes `Model.Smtp.run`: once its loop has ended the events are those of the whole
    connection, the session and the way it ended are `run`'s -/
theorem alone_is_run (e : Smtp.Env) (b : Option Nat) (inp : Bytes) (n : Nat) (en : End)
    (h : (alone e n (fresh e b inp)).1.over = some en) :
    Smtp.run e b inp = (.reply [220] :: (alone e n (fresh e b inp)).2, (alone e n (fresh e b inp)).1.sess, en) := by
  have h1 := loop_alone e n (inp.length + 2) (start e b) inp [.reply [220]]
  have h2 : loop e (n + (inp.length + 2)) (start e b) inp [.reply [220]] = Smtp.run e b inp := by
    rw [run_eq]; exact loop_fuel e _ _ _ _ _ (by omega) (by omega)
  rw [h2] at h1
  have hf : ({ sess := start e b, pending := inp } : Client) = fresh e b inp := rfl
  rw [hf, h] at h1
  simpa using h1

/-- `|input| + 2` iterations always suffice (every iteration consumes input or ends the loop) -/
theorem alone_ends (e : Smtp.Env) (b : Option Nat) (inp : Bytes) (n : Nat) (hn : inp.length + 2 ≤ n) :
    ∃ en, (alone e n (fresh e b inp)).1.over = some en := by
  have h1 := loop_alone e n 0 (start e b) inp [.reply [220]]
  have h2 : loop e (n + 0) (start e b) inp [.reply [220]] = Smtp.run e b inp := by
    rw [run_eq]; exact loop_fuel e _ _ _ _ _ (by omega) (by omega)
  rw [h2] at h1
  have hf : ({ sess := start e b, pending := inp } : Client) = fresh e b inp := rfl
  rw [hf] at h1
  cases ho : (alone e n (fresh e b inp)).1.over with
  | some en => exact ⟨en, rfl⟩
  | none =>
    rw [ho] at h1
    have := Ibx.Props.C03.total e b inp
    rw [h1] at this
    simp [loop_zero] at this

/-- after any number of iterations the events so far are a prefix of those of the whole connection -/
theorem alone_prefix_of_run (e : Smtp.Env) (b : Option Nat) (inp : Bytes) (n : Nat) :
    (.reply [220] :: (alone e n (fresh e b inp)).2) <+: (Smtp.run e b inp).1 := by
  have h1 := loop_alone e n (inp.length + 2) (start e b) inp [.reply [220]]
  have h2 : loop e (n + (inp.length + 2)) (start e b) inp [.reply [220]] = Smtp.run e b inp := by
    rw [run_eq]; exact loop_fuel e _ _ _ _ _ (by omega) (by omega)
  rw [h2] at h1
  have hf : ({ sess := start e b, pending := inp } : Client) = fresh e b inp := rfl
  rw [hf] at h1
  cases ho : (alone e n (fresh e b inp)).1.over with
  | some en => rw [ho] at h1; rw [h1]; simp
  | none =>
    rw [ho] at h1
    simp only [] at h1
    rw [h1, loop_acc]
    exact ⟨(loop e (inp.length + 2) (alone e n (fresh e b inp)).1.sess (alone e n (fresh e b inp)).1.pending []).1, by simp⟩

/-- **fresh_session_is_prefix_of_run** (C03, isolation).  A connection that was accepted and greeted, whose client sends
    `inp`, in ANY world (any other sessions in any state, any other clients, any store) under ANY schedule: the replies
    it has sent and the copies it has handed to the store, in order, are a prefix of `(Model.Smtp.run env budget inp).1`
    — the events of the same dialogue on a server that serves nobody else. -/
theorem fresh_session_is_prefix_of_run (e : SmtpConc.Env) (sched : List Sess.Ev) (w : World) (i : Nat)
    (b : Option Nat) (inp : Bytes) (steps : Nat) (h : w.threads[i]? = some (newClient e b inp steps)) :
    ∃ t', (SmtpConc.run e w sched).threads[i]? = some t' ∧ evsOf t'.replies <+: (Smtp.run e.smtp b inp).1 := by
  obtain ⟨t', h1, _, _, h4⟩ := session_as_if_alone e sched w i _ h
  refine ⟨t', h1, ?_⟩
  rw [h4]
  simp only [newClient, List.take_replicate, aloneIn_ticks]
  exact alone_prefix_of_run e.smtp b inp _

/-- **fresh_session_is_run** (C03, isolation).  … and when the schedule lets the session run to the end of its loop
    (`|inp| + 2` steps always suffice: `alone_ends`), every reply, every stored copy, the final session state and the
    way the loop ended are EXACTLY those of `Model.Smtp.run env budget inp`.  Nothing another session or client does —
    deliveries to the same mailbox, evictions, deletions, purges, RSETs, refused commands, shutdown events — changes
    any of it. -/
theorem fresh_session_is_run (e : SmtpConc.Env) (sched : List Sess.Ev) (w : World) (i : Nat)
    (b : Option Nat) (inp : Bytes) (steps : Nat) (h : w.threads[i]? = some (newClient e b inp steps))
    (hlen : inp.length + 2 ≤ steps) (hsched : inp.length + 2 ≤ sched.count (.sess i)) :
    ∃ t', (SmtpConc.run e w sched).threads[i]? = some t' ∧
      evsOf t'.replies = (Smtp.run e.smtp b inp).1 ∧ t'.st.sess = (Smtp.run e.smtp b inp).2.1 ∧
      t'.st.over = some (Smtp.run e.smtp b inp).2.2 := by
  obtain ⟨t', h1, h2, _, h4⟩ := session_as_if_alone e sched w i _ h
  refine ⟨t', h1, ?_⟩
  simp only [newClient, List.take_replicate, aloneIn_ticks] at h2 h4
  obtain ⟨en, hen⟩ := alone_ends e.smtp b inp (min (sched.count (.sess i)) steps) (by omega)
  have hr := alone_is_run e.smtp b inp _ en hen
  rw [hr, h4, h2]
  exact ⟨rfl, rfl, hen⟩

/-! ### the store after a schedule -/

private theorem trace_cons (e : SmtpConc.Env) (w : World) (ev : Sess.Ev) (evs : List Sess.Ev) :
    trace e w (ev :: evs) = opsAt e w ev ++ trace e (Sess.exec1 (prog e) w ev) evs := rfl

/-- **store_is_trace.**  The store after a schedule is the initial store with the calls of the schedule — the
    AddMessage calls of the sessions' data phases and the other clients' calls — applied one after the other in the
    order of the trace, each with the store's cap / limit evictions.  Shutdown events contribute no call. -/
theorem store_is_trace (e : SmtpConc.Env) (sched : List Sess.Ev) (w : World) :
    (SmtpConc.run e w sched).store = after e.store w.store ((trace e w sched).map (·.2)) := by
  induction sched generalizing w with
  | nil => rfl
  | cons ev rest ih => rw [run_cons, ih, exec1_store, trace_cons, List.map_append, after_append]

private theorem opsAt_tag (e : SmtpConc.Env) (w : World) (ev : Sess.Ev) (p : Nat × Op) (hp : p ∈ opsAt e w ev) :
    ev = .sess p.1 := by
  cases ev with
  | cancel => simp [opsAt] at hp
  | closeL => simp [opsAt] at hp
  | sess j =>
    simp only [opsAt] at hp
    split at hp
    · simp at hp
    · split at hp
      · simp at hp
      · simp only [List.mem_map] at hp
        obtain ⟨_, _, rfl⟩ := hp
        rfl

private theorem filter_opsAt_other (e : SmtpConc.Env) (w : World) (ev : Sess.Ev) (i : Nat) (h : ev ≠ .sess i) :
    (opsAt e w ev).filter (fun p => p.1 == i) = [] := by
  rw [List.filter_eq_nil_iff]
  intro p hp
  have := opsAt_tag e w ev p hp
  simp only [beq_iff_eq]
  intro hpi
  exact h (by rw [this, hpi])

/-- **trace_is_merge.**  The calls of client `i` inside the trace, in order, are exactly the calls the same client makes
    ALONE on the units it was given (`aloneOps`) — for every client at once: the trace is an in-order merge of the
    clients' own call lists, and it contains nothing else (`trace_has_no_other_calls`). -/
theorem trace_is_merge (e : SmtpConc.Env) (sched : List Sess.Ev) (w : World) (i : Nat) (t : Thread)
    (h : w.threads[i]? = some t) :
    ((trace e w sched).filter (fun p => p.1 == i)).map (·.2) =
      aloneOps e.smtp (t.input.take (sched.count (.sess i))) t.st := by
  induction sched generalizing w t with
  | nil => simp [trace, aloneOps]
  | cons ev rest ih =>
    rw [trace_cons, List.filter_append, List.map_append]
    by_cases hev : ev = .sess i
    · subst hev
      rw [List.count_cons_self]
      cases hin : t.input with
      | nil =>
        rw [exec1_sess_idle e w i t h hin, ih w t h, hin]
        simp [opsAt, h, hin, aloneOps]
      | cons x xs =>
        have hs := exec1_thread_self e w i t x xs h hin
        rw [ih _ _ hs]
        have hl := clientStep_local e t.st w.store x
        simp only [opsAt, h, hin, List.take_succ_cons, aloneOps, hl.1]
        congr 1
        generalize unitOps e.smtp t.st x = ops
        induction ops with
        | nil => rfl
        | cons o os ihh => simpa using ihh
    · rw [List.count_cons_of_ne hev, filter_opsAt_other e w ev i hev]
      have hs := exec1_thread_other e w ev i hev
      simpa using ih _ t (by rw [hs]; exact h)

/-- no call in the trace comes from a client that does not exist -/
theorem trace_has_no_other_calls (e : SmtpConc.Env) (sched : List Sess.Ev) (w : World) (i : Nat)
    (h : w.threads[i]? = none) : (trace e w sched).filter (fun p => p.1 == i) = [] := by
  induction sched generalizing w with
  | nil => rfl
  | cons ev rest ih =>
    rw [trace_cons, List.filter_append]
    have h1 : (opsAt e w ev).filter (fun p => p.1 == i) = [] := by
      by_cases hev : ev = .sess i
      · subst hev; simp [opsAt, h]
      · exact filter_opsAt_other e w ev i hev
    have h2 : (Sess.exec1 (prog e) w ev).threads[i]? = none := by
      by_cases hev : ev = .sess i
      · subst hev; rw [exec1_sess_none e w i h]; exact h
      · rw [exec1_thread_other e w ev i hev]; exact h
    rw [h1, ih _ h2]; rfl

theorem copiesOf_append (a b : List Smtp.Ev) : copiesOf (a ++ b) = copiesOf a ++ copiesOf b := by simp [copiesOf]

theorem copiesOf_eq_storedOf (l : List Smtp.Ev) : copiesOf l = storedOf l := rfl

theorem aloneOps_ticks (e : Smtp.Env) (n : Nat) (c : Client) :
    aloneOps e (List.replicate n .tick) c = (copiesOf (alone e n c).2).map addOf := by
  induction n generalizing c with
  | zero => rfl
  | succ n ih => simp [List.replicate_succ, aloneOps, unitOps, localStep, alone, ih, copiesOf_append]

/-- **fresh_session_calls.**  The AddMessage calls of a fresh connection inside the trace of ANY schedule are, in order,
    the copies of its own dialogue run alone — a prefix of `storedOf (Model.Smtp.run env budget inp).1`, all of them
    once the session has been given `|inp| + 2` steps.  (What those copies are — one per accepted storable recipient
    of each acknowledged transaction — is `Props.C01.handleData_exact` / `Props.C03.stored_by_phases`.) -/
theorem fresh_session_calls (e : SmtpConc.Env) (sched : List Sess.Ev) (w : World) (i : Nat)
    (b : Option Nat) (inp : Bytes) (steps : Nat) (h : w.threads[i]? = some (newClient e b inp steps)) :
    (∃ k, ((trace e w sched).filter (fun p => p.1 == i)).map (·.2) =
      ((storedOf (Smtp.run e.smtp b inp).1).take k).map addOf) ∧
    (inp.length + 2 ≤ steps → inp.length + 2 ≤ sched.count (.sess i) →
      ((trace e w sched).filter (fun p => p.1 == i)).map (·.2) = (storedOf (Smtp.run e.smtp b inp).1).map addOf) := by
  rw [trace_is_merge e sched w i _ h]
  simp only [newClient, List.take_replicate, aloneOps_ticks]
  constructor
  · obtain ⟨r, hr⟩ := alone_prefix_of_run e.smtp b inp (min (sched.count (.sess i)) steps)
    refine ⟨(copiesOf (alone e.smtp (min (sched.count (.sess i)) steps) (fresh e.smtp b inp)).2).length, ?_⟩
    rw [← hr]
    simp [copiesOf_eq_storedOf]
  · intro h1 h2
    obtain ⟨en, hen⟩ := alone_ends e.smtp b inp (min (sched.count (.sess i)) steps) (by omega)
    rw [alone_is_run e.smtp b inp _ en hen]
    simp [copiesOf_eq_storedOf]

/-! ### worlds in which only SMTP sessions touch the store: connection to Props.C01Conc -/

/-- every client is an SMTP session (no other client's store calls) -/
def SessionsOnly (w : World) : Prop := ∀ t ∈ w.threads, ∀ x ∈ t.input, x = In.tick

private theorem sessionsOnly_exec1 (e : SmtpConc.Env) (w : World) (ev : Sess.Ev) (h : SessionsOnly w) :
    SessionsOnly (Sess.exec1 (prog e) w ev) := by
  cases ev with
  | cancel => exact h
  | closeL => intro t ht; rw [exec1_closeL_threads] at ht; exact h t ht
  | sess i =>
    cases hi : w.threads[i]? with
    | none => rw [exec1_sess_none e w i hi]; exact h
    | some t =>
      cases hin : t.input with
      | nil => rw [exec1_sess_idle e w i t hi hin]; exact h
      | cons x xs =>
        rw [exec1_sess_live e w i t x xs hi hin]
        intro t' ht' y hy
        rcases List.mem_or_eq_of_mem_set ht' with hm | rfl
        · exact h t' hm y hy
        · have := List.mem_of_getElem? hi
          exact h t this y (by rw [hin]; exact List.mem_cons_of_mem _ hy)

/-- the delivery a call makes, if it is an `add` -/
def toAdd : Op → Option C01Conc.Add
  | .add b h src => some (b, h, src)
  | _ => none

/-- the deliveries of a schedule, in the order the store sees them -/
def adds (e : SmtpConc.Env) (w : World) (sched : List Sess.Ev) : List C01Conc.Add :=
  ((trace e w sched).map (·.2)).filterMap toAdd

private theorem after_addAll (c : Cfg) (s : Store) (ops : List Op) (h : ∀ op ∈ ops, isAdd op = true) :
    after c s ops = addAll c s (ops.filterMap toAdd) := by
  induction ops generalizing s with
  | nil => rfl
  | cons op ops ih =>
    cases op with
    | add b hd src =>
      rw [after_cons]
      simp only [List.filterMap_cons, toAdd, addAll_cons]
      exact ih _ (fun o ho => h o (List.mem_cons_of_mem _ ho))
    | _ => have := h _ List.mem_cons_self; simp [isAdd] at this

private theorem trace_adds (e : SmtpConc.Env) (sched : List Sess.Ev) (w : World) (h : SessionsOnly w) :
    ∀ p ∈ trace e w sched, isAdd p.2 = true := by
  induction sched generalizing w with
  | nil => simp [trace]
  | cons ev rest ih =>
    intro p hp
    rw [trace_cons, List.mem_append] at hp
    rcases hp with hp | hp
    · cases ev with
      | cancel => simp [opsAt] at hp
      | closeL => simp [opsAt] at hp
      | sess i =>
        simp only [opsAt] at hp
        split at hp
        · simp at hp
        · rename_i t ht
          split at hp
          · simp at hp
          · rename_i x xs hin
            have hx : x = In.tick := h t (List.mem_of_getElem? ht) x (by rw [hin]; exact List.mem_cons_self)
            subst hx
            simp only [unitOps, List.map_map, List.mem_map, Function.comp] at hp
            obtain ⟨_, _, rfl⟩ := hp
            rfl
    · exact ih _ (sessionsOnly_exec1 e w ev h) p hp

/-- the store after a schedule of sessions is the initial store with the deliveries of the trace added in order -/
theorem store_is_adds (e : SmtpConc.Env) (sched : List Sess.Ev) (w : World) (h : SessionsOnly w) :
    (SmtpConc.run e w sched).store = addAll e.store w.store (adds e w sched) := by
  rw [store_is_trace, after_addAll]
  · rfl
  · intro op hop
    obtain ⟨p, hp, rfl⟩ := List.mem_map.mp hop
    exact trace_adds e sched w h p hp

/-- **copies_are_session_calls** (C01, no cap, no byte limit).  Only SMTP sessions around the store, any schedule: the
    number of copies of a delivery the store holds afterwards is the number it held before plus the number of
    AddMessage calls the sessions made for it — `Props.C01Conc.copies_are_calls` at the trace of the real sessions;
    by `fresh_session_calls` those calls are the sessions' own copies, so nothing is lost, duplicated or invented by the
    interleaving. -/
theorem copies_are_session_calls (e : SmtpConc.Env) (he : e.store = C01Conc.noLimits) (sched : List Sess.Ev)
    (w : World) (h : SessionsOnly w) (x : C01Conc.Add) :
    C01Conc.copies (SmtpConc.run e w sched).store x =
      C01Conc.copies w.store x + ((adds e w sched).filter (· = x)).length := by
  rw [store_is_adds e sched w h, he]
  exact C01Conc.copies_are_calls w.store (adds e w sched) x

private theorem filter_tag (l : List (Nat × Op)) (i : Nat) :
    l.filter (fun p => p.1 == i) = ((l.filter (fun p => p.1 == i)).map (·.2)).map (fun op => (i, op)) := by
  rw [List.map_map]
  conv => lhs; rw [← List.map_id (l.filter (fun p => p.1 == i))]
  apply List.map_congr_left
  intro p hp
  have := (List.mem_filter.mp hp).2
  simp only [beq_iff_eq] at this
  simp [← this]

private theorem perm_of_tags (l₁ l₂ : List (Nat × Op))
    (h : ∀ i, l₁.filter (fun p => p.1 == i) = l₂.filter (fun p => p.1 == i)) : l₁.Perm l₂ := by
  rw [List.perm_iff_count]
  intro p
  rw [← List.count_filter (p := fun q => q.1 == p.1) (l := l₁) (by simp),
    ← List.count_filter (p := fun q => q.1 == p.1) (l := l₂) (by simp), h]

/-- two schedules that give every client the same number of steps make the same calls, up to order -/
theorem traces_perm (e : SmtpConc.Env) (s₁ s₂ : List Sess.Ev) (w : World)
    (h : ∀ i, s₁.count (.sess i) = s₂.count (.sess i)) : (trace e w s₁).Perm (trace e w s₂) := by
  apply perm_of_tags
  intro i
  cases hi : w.threads[i]? with
  | none => rw [trace_has_no_other_calls e s₁ w i hi, trace_has_no_other_calls e s₂ w i hi]
  | some t => rw [filter_tag (trace e w s₁), filter_tag (trace e w s₂), trace_is_merge e s₁ w i t hi,
      trace_is_merge e s₂ w i t hi, h]

/-- **schedule_is_immaterial** (C01 / C03, no cap, no byte limit).  Two schedules that give every session the same
    number of steps — in particular any two that let every session finish — leave the same number of copies of every
    delivery, however differently they interleave the sessions and wherever they put `cancel` / `closeL`
    (`Props.C01Conc.interleaving_is_immaterial` at the traces of the real sessions). -/
theorem schedule_is_immaterial (e : SmtpConc.Env) (he : e.store = C01Conc.noLimits) (s₁ s₂ : List Sess.Ev)
    (w : World) (hw : SessionsOnly w) (h : ∀ i, s₁.count (.sess i) = s₂.count (.sess i)) (x : C01Conc.Add) :
    C01Conc.copies (SmtpConc.run e w s₁).store x = C01Conc.copies (SmtpConc.run e w s₂).store x := by
  rw [store_is_adds e s₁ w hw, store_is_adds e s₂ w hw, he]
  exact C01Conc.interleaving_is_immaterial w.store _ _
    (((traces_perm e s₁ s₂ w h).map (·.2)).filterMap toAdd) x

/-- **capped_mailbox_holds_newest** (any mailbox cap, no byte limit).  Only SMTP sessions around a store that respects
    its cap: after any schedule every mailbox shows the NEWEST `cap` of (what it held before ++ the copies that arrived
    for it, in arrival order = order of the trace) — everything when the cap is disabled.  Which copies survive thus
    depends on the interleaving (arrival order), which copies were MADE does not (`fresh_session_calls`). -/
theorem capped_mailbox_holds_newest (e : SmtpConc.Env) (hl : e.store.limit = 0) (sched : List Sess.Ev) (w : World)
    (h : SessionsOnly w) (b : Bytes) (hs : e.store.cap = 0 ∨ (listing w.store b).length ≤ e.store.cap) :
    (listing (SmtpConc.run e w sched).store b).map view =
      lastN e.store.cap ((listing w.store b).map view ++
        (((adds e w sched).filter (fun x => x.1 == b)).map (fun x => (x.2.1, false, x.2.2)))) := by
  rw [store_is_adds e sched w h]
  exact addAll_cap_listing e.store hl w.store _ b hs

/-! ### non-vacuity: two sessions delivering to the SAME mailbox, a third that resets, shutdown in the middle -/

/-- a session that opens a transaction and abandons it -/
def dlgR : Bytes := ofAscii "HELO b\r\nMAIL FROM:<>\r\nRCPT TO:<u@x.org>\r\nRSET\r\nQUIT\r\n"

def exConc : SmtpConc.Env := { smtp := exEnv, store := { cap := 0, limit := 0 } }
def exCapped : SmtpConc.Env := { smtp := exEnv, store := { cap := 1, limit := 0 } }

/-- sessions 0 and 1 send `dlg1` (one message to mailbox `u` each), session 2 sends `dlgR` -/
def exWorld (e : SmtpConc.Env) : World :=
  { cancelled := false, closed := false, store := Spec.Store.empty,
    threads := [newClient e none dlg1 8, newClient e none dlg1 8, newClient e none dlgR 8] }

/-- session 1 runs ahead, shutdown is requested while both transactions are open, session 0 finishes first -/
def exSched : List Sess.Ev :=
  [.sess 0, .sess 1, .sess 1, .sess 2, .sess 1, .sess 0, .sess 2, .sess 0, .sess 1, .cancel, .sess 2, .closeL,
   .sess 0, .sess 0, .sess 2, .sess 1, .sess 1, .sess 2, .sess 0, .sess 1, .sess 2]

example : SessionsOnly (exWorld exConc) := by
  intro t ht x hx
  simp only [exWorld, newClient, List.mem_cons, List.not_mem_nil, or_false] at ht
  rcases ht with rfl | rfl | rfl <;> exact List.eq_of_mem_replicate hx

/-- both messages are in mailbox `u` (session 0's first), every session got the replies of its lone dialogue -/
example :
    ((SmtpConc.run exConc (exWorld exConc) exSched).store.msgs.map (fun m => (m.box, m.id))) =
      [(ofAscii "u", 1), (ofAscii "u", 2)] ∧
    (SmtpConc.run exConc (exWorld exConc) exSched).threads.map (fun t => evsOf t.replies) =
      [(Smtp.run exEnv none dlg1).1, (Smtp.run exEnv none dlg1).1, (Smtp.run exEnv none dlgR).1] := by
  decide +kernel

example : (trace exConc (exWorld exConc) exSched).map (·.1) = [0, 1] := by decide +kernel

/-- with cap 1 the mailbox holds only the copy that arrived last (session 1's); the replies are the same -/
example :
    ((SmtpConc.run exCapped (exWorld exCapped) exSched).store.msgs.map (fun m => (m.box, m.id))) = [(ofAscii "u", 2)] ∧
    (SmtpConc.run exCapped (exWorld exCapped) exSched).threads.map (fun t => evsOf t.replies) =
      [(Smtp.run exEnv none dlg1).1, (Smtp.run exEnv none dlg1).1, (Smtp.run exEnv none dlgR).1] := by
  decide +kernel

end Ibx.Props.C03Conc
