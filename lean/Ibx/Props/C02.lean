import Ibx.Bytes
import Ibx.Spec.Unstuff
import Ibx.Model.Dot
import Ibx.Model.Line
import Ibx.Model.Pop3Send
import Ibx.Lemmas.Dot
/-
  C02 — message content survives byte-for-byte from SMTP DATA to every read interface.
  Only property theorems, their non-vacuity examples and counter-witnesses live here.

  Bytes are decimal: 46 '.', 13 CR, 10 LF, 97 'a', 98 'b'.
-/
namespace Ibx.Props.C02
open Ibx Ibx.Spec.Unstuff Ibx.Model.Dot Ibx.Model.Pop3Send Ibx.Lemmas.Dot

/-! ### 1. the standard library's dot reader against the textbook rule -/

/-- What `ReadDotBytes` computes on EVERY byte string, stated over lines: split the input at LF; the machine stops at
    the first un-shadowed line "." / ".CR" and returns the unstuffed lines before it and — byte for byte — everything
    after it; without such a line it fails (io.ErrUnexpectedEOF, nothing is delivered).  `runLines` is the textbook
    rule except for the standard library's quirk (a line that follows a bare LF at line start is taken literally). -/
theorem dot_decode_exact (inp : Bytes) :
    dotDecode inp =
      match runLines false (splitLines inp).1 with
      | .done d rem => some (d, joinLF rem ++ (splitLines inp).2)
      | .cont _ _ => none := by
  obtain ⟨ls, tail, hls, ht, hw, hs⟩ := exists_lines inp
  rw [hs]
  conv => lhs; rw [hw]
  unfold dotDecode
  have := run_lines ls hls false [] tail
  simp only [stOf] at this
  rw [show (if false = true then DState.data else DState.beginLine) = DState.beginLine from rfl] at this
  rw [this]
  cases h : runLines false ls with
  | done d rem => simp [applyOut]
  | cont d sh => simp [applyOut, no_lf_eof tail ht]

example : dotDecode [97, 13, 10, 46, 46, 98, 13, 10, 46, 13, 10, 81] = some ([97, 10, 46, 98, 10], [81]) := by decide

/-- The machine equals the textbook specification — for every wire text `w` of complete lines (8-bit, NUL, bare CR,
    bare LF, dots anywhere, any line length), either form of the end-of-data line and whatever follows — under the
    EXACT guard `quirkFree`: no line that follows a bare LF at line start begins with '.', and the end-of-data line
    does not follow one.  What follows the end-of-data line is returned untouched (it is the next command). -/
theorem dot_decode_is_spec (w t rest : Bytes) (hw : terminated w)
    (hq : quirkFree false (splitLines w).1 = true) (ht : t = [46, 13, 10] ∨ t = [46, 10]) :
    dotDecode (w ++ t ++ rest) = some (unstuffSpec w, rest) := by
  obtain ⟨ls, tail, hls, _, hwe, hs⟩ := exists_lines w
  obtain ⟨htail, hterm⟩ := hw
  rw [hs] at htail hterm hq
  simp only at htail hterm hq
  subst htail
  have hrun := runLines_quirkFree ls hterm false hq
  unfold unstuffSpec
  rw [hs]
  have := run_lines ls hls false [] (t ++ rest)
  rw [hrun] at this
  simp only [stOf, applyOut] at this
  rw [show (if false = true then DState.data else DState.beginLine) = DState.beginLine from rfl] at this
  unfold dotDecode
  rw [hwe, List.append_nil, List.append_assoc, this]
  rcases ht with rfl | rfl
  · simpa using begin_term [46, 13] rest (joinLF (ls.map unstuffLine)).reverse rfl
  · simpa using begin_term [46] rest (joinLF (ls.map unstuffLine)).reverse rfl

/-- hypotheses satisfiable: leading dots, a lone CR line, a bare-LF line followed by a dot-free line -/
example : terminated [46, 46, 97, 13, 10, 13, 10, 10, 98, 10] ∧
    quirkFree false (splitLines [46, 46, 97, 13, 10, 13, 10, 10, 98, 10]).1 = true ∧
    unstuffSpec [46, 46, 97, 13, 10, 13, 10, 10, 98, 10] = [46, 97, 10, 10, 10, 98, 10] := by
  refine ⟨⟨by decide, by decide⟩, by decide, by decide⟩

/-- The guard of `dot_decode_is_spec` is EXACT: on a wire text of complete lines that violates it the machine's answer
    is never the textbook one (it keeps a dot the rule removes, or runs past the end-of-data line). -/
theorem dot_decode_guard_exact (w t rest : Bytes) (hw : terminated w)
    (hq : quirkFree false (splitLines w).1 = false) (ht : t = [46, 13, 10] ∨ t = [46, 10]) :
    dotDecode (w ++ t ++ rest) ≠ some (unstuffSpec w, rest) := by
  obtain ⟨ls, tail, hls, _, hwe, hs⟩ := exists_lines w
  obtain ⟨htail, hterm⟩ := hw
  rw [hs] at htail hterm hq
  simp only at htail hterm hq
  subst htail
  obtain ⟨d, sh', hrun, hle, hstrict⟩ := runLines_len ls hterm false
  unfold unstuffSpec
  rw [hs]
  have := run_lines ls hls false [] (t ++ rest)
  rw [hrun] at this
  simp only [stOf, applyOut, List.append_nil] at this
  rw [show (if false = true then DState.data else DState.beginLine) = DState.beginLine from rfl] at this
  unfold dotDecode
  rw [hwe, List.append_nil, List.append_assoc, this]
  intro heq
  cases sh' with
  | false =>
    have hlt : (joinLF (ls.map unstuffLine)).length < d.length := by
      rcases hstrict hq with h | h
      · simp at h
      · exact h
    have hd : dotLoop (t ++ rest) .beginLine d.reverse = some (d, rest) := by
      rcases ht with rfl | rfl
      · simpa using begin_term [46, 13] rest d.reverse rfl
      · simpa using begin_term [46] rest d.reverse rfl
    simp only [Bool.false_eq_true, if_false] at heq
    rw [hd] at heq
    simp at heq
    rw [heq] at hlt
    exact Nat.lt_irrefl _ hlt
  | true =>
    simp only [if_true] at heq
    rcases ht with rfl | rfl
    · have h1 := (data_cr_line [46, 13] rest (by simp) d.reverse).1
      simp only [List.cons_append, List.nil_append] at h1 heq
      rw [h1] at heq
      have := dotLoop_mono _ _ _ _ _ heq
      simp [dropCR] at this
      omega
    · have h1 := (data_cr_line [46] rest (by simp) d.reverse).1
      simp only [List.cons_append, List.nil_append] at h1 heq
      rw [h1] at heq
      have := dotLoop_mono _ _ _ _ _ heq
      simp [dropCR] at this
      omega

example : terminated [10, 46, 97, 10] ∧ quirkFree false (splitLines [10, 46, 97, 10]).1 = false := by
  refine ⟨⟨by decide, by decide⟩, by decide⟩

/-- a sufficient guard that is easy to read: the wire text has no empty line ended by a bare LF
    (in particular: every line ends with CRLF, as RFC 5321 requires of a client) -/
theorem quirkFree_of_no_bare_lf_line (ls : List Bytes) (h : ∀ l ∈ ls, l ≠ []) : quirkFree false ls = true := by
  induction ls with
  | nil => rfl
  | cons l ls ih =>
    have h1 : (l == []) = false := by simpa using h l (by simp)
    simp only [quirkFree, h1]
    exact ih (fun l' hl' => h l' (by simp [hl']))

theorem dot_decode_is_spec_crlf (w rest : Bytes) (hw : terminated w)
    (hcr : ∀ l ∈ (splitLines w).1, l.getLast? = some 13) :
    dotDecode (w ++ [46, 13, 10] ++ rest) = some (unstuffSpec w, rest) :=
  dot_decode_is_spec w _ rest hw
    (quirkFree_of_no_bare_lf_line _ (fun l hl he => by have := hcr l hl; simp [he] at this)) (Or.inl rfl)

example : terminated [46, 46, 13, 10, 13, 10] ∧ ∀ l ∈ (splitLines [46, 46, 13, 10, 13, 10]).1, l.getLast? = some 13 := by
  refine ⟨⟨by decide, by decide⟩, by decide⟩

/-- The guard is needed — the standard library's quirk: after a bare LF at line start the next line keeps its dot.
    The textbook answer is "LF a LF". -/
theorem dot_quirk_keeps_dot :
    dotDecode [10, 46, 97, 13, 10, 46, 13, 10] = some ([10, 46, 97, 10], []) ∧
    unstuffSpec [10, 46, 97, 13, 10] = [10, 97, 10] ∧ terminated [10, 46, 97, 13, 10] := by
  refine ⟨by decide, by decide, by decide, by decide⟩

/-- … and an end-of-data line that follows a bare LF at line start is NOT recognised: the reader runs on into what
    the client meant as the next command (here it swallows "QUIT" and fails at the end of the input). -/
theorem dot_quirk_misses_terminator :
    dotDecode [97, 13, 10, 10, 46, 13, 10, 81, 85, 73, 84, 13, 10] = none ∧ terminated [97, 13, 10, 10] := by
  refine ⟨by decide, by decide, by decide⟩

/-! ### 2. what a client sends is what is decoded -/

/-- A client whose message is a list of lines — ARBITRARY bytes except LF (CR anywhere, NUL, 8-bit, leading dots,
    the line "." itself, empty lines) — transmitted per RFC 5321 (dot-stuffed, CRLF after each line, ".CRLF"):
    the server decodes exactly those lines, each followed by LF, and leaves `rest` (the next command) untouched. -/
theorem data_round_trip_lines (ls : List Bytes) (rest : Bytes) (h : ∀ l ∈ ls, 10 ∉ l) :
    dotDecode (dataEncodeLines ls ++ rest) = some (joinLF ls, rest) := by
  have henc : ∀ l ∈ ls.map (fun l => stuff l ++ [13]), 10 ∉ l := by
    intro l hl
    simp only [List.mem_map] at hl
    obtain ⟨l', hl', rfl⟩ := hl
    intro h10
    simp at h10
    exact h l' hl' (mem_stuff h10)
  have := run_lines _ henc false [] ([46, 13] ++ 10 :: rest)
  rw [runLines_encoded] at this
  simp only [stOf, applyOut] at this
  rw [show (if false = true then DState.data else DState.beginLine) = DState.beginLine from rfl] at this
  unfold dotDecode
  rw [dataEncodeLines_eq, this]
  simpa using begin_term [46, 13] rest (joinLF ls).reverse rfl

example : dotDecode (dataEncodeLines [[46], [], [46, 46, 0, 200], [97, 13], [13]] ++ [81]) =
    some ([46, 10, 10, 46, 46, 0, 200, 10, 97, 13, 10, 13, 10], [81]) := by decide

/-- The guard is needed — a bare LF inside a "line" of a client that only treats CRLF as a line end: the server sees
    a line start the client did not, and the dot after it is lost. -/
theorem bare_lf_in_line_loses_dot :
    dotDecode (dataEncodeLines [[97, 10, 46, 98]]) = some ([97, 10, 98, 10], []) := by decide

/-- … and a '.' alone after a bare LF ends the message early; the rest of the client's data is left in the
    connection as if it were commands. -/
theorem bare_lf_dot_truncates :
    dotDecode (dataEncodeLines [[97, 10, 46], [98]]) = some ([97, 10], [98, 13, 10, 46, 13, 10]) := by decide

/-- A client whose message is an arbitrary byte string in local form (`dataEncode`: LF and CRLF both end a line and go
    out as CRLF, a missing final newline is supplied): the server decodes the body with its line ends normalised to
    LF — nothing lost, added or reordered — for EVERY body, and `rest` is untouched. -/
theorem data_round_trip (body rest : Bytes) :
    dotDecode (dataEncode body ++ rest) = some (lfNorm body, rest) :=
  data_round_trip_lines (bodyLines body) rest (bodyLines_noLF body)

example : dotDecode (dataEncode [46, 10, 46, 97, 13, 10, 10, 0, 255, 13, 98, 13, 13, 10, 99] ++ [78, 79, 79, 80, 13, 10]) =
    some ([46, 10, 46, 97, 10, 10, 0, 255, 13, 98, 13, 10, 99, 10], [78, 79, 79, 80, 13, 10]) := by decide

/-- the command after the end-of-data line is the next thing the session reads -/
theorem next_command_intact (body cmd more : Bytes) :
    (dotDecode (dataEncode body ++ (cmd ++ 10 :: more))).map (·.2) = some (cmd ++ 10 :: more) := by
  simp [data_round_trip]

/-- what `lfNorm` does NOT change: a text of LF-free lines sent with CRLF line ends comes out with LF line ends and
    is otherwise identical (CR bytes inside or at the end of a line included) … -/
theorem lfNorm_joinCRLF (ls : List Bytes) (h : ∀ l ∈ ls, 10 ∉ l) : lfNorm (joinCRLF ls) = joinLF ls := by
  have he : joinCRLF ls = joinLF (ls.map (· ++ [13])) ++ [] := by
    induction ls with
    | nil => rfl
    | cons l ls ih => simp at ih ⊢; exact ih (fun l' hl' => h l' (by simp [hl']))
  have hs := splitLines_joinLF (ls.map (· ++ [13])) [] (by
    intro l hl; simp only [List.mem_map] at hl; obtain ⟨l', hl', rfl⟩ := hl
    intro h10; simp at h10; exact h l' hl' h10) (by simp)
  unfold lfNorm bodyLines
  rw [he, hs]
  simp [Function.comp_def, dropCR_append_13]

/-- … and a text already in LF form only loses ONE CR directly before each LF -/
theorem lfNorm_joinLF (ls : List Bytes) (h : ∀ l ∈ ls, 10 ∉ l) : lfNorm (joinLF ls) = joinLF (ls.map dropCR) := by
  have hs := splitLines_joinLF ls [] h (by simp)
  unfold lfNorm bodyLines
  rw [show joinLF ls = joinLF ls ++ [] by simp, hs]
  simp

example : lfNorm [97, 13, 13, 10, 98] = [97, 13, 10, 98, 10] := by decide

/-! ### 3. the stored source -/

/-- `Deliver` hands the store exactly two trace lines followed by the decoded block, untouched:
    "Return-Path: <from>CRLF" "Received: from helo ([host]) by domainCRLF  for <mailbox>; timestampCRLF" block -/
theorem stored_source_shape (sender mailbox helo host domain ts blk : Bytes) :
    storedSource sender mailbox (recvdHeader helo host domain) ts blk =
      [82, 101, 116, 117, 114, 110, 45, 80, 97, 116, 104, 58, 32, 60] ++ sender ++ [62, 13, 10] ++
      ([82, 101, 99, 101, 105, 118, 101, 100, 58, 32, 102, 114, 111, 109, 32] ++ helo ++ [32, 40, 91] ++ host ++
        [93, 41, 32, 98, 121, 32] ++ domain ++ [13, 10] ++ [32, 32, 102, 111, 114, 32, 60] ++ mailbox ++ [62, 59, 32] ++ ts ++
        [13, 10]) ++ blk := by
  simp [storedSource, traceHeaders, recvdHeader, fmtS, returnPathFmt, recvdHeaderFmt, recvdFmt]

/-- the decoded block is a suffix of the stored source and the trace lines do not depend on it -/
theorem stored_source_suffix (sender mailbox hdr ts blk : Bytes) :
    storedSource sender mailbox hdr ts blk = storedSource sender mailbox hdr ts [] ++ blk := by
  simp [storedSource]

example : storedSource [97] [98] (recvdHeader [99] [100] [101]) [102] [0, 46, 10] =
    -- "Return-Path: <a>\r\nReceived: from c ([d]) by e\r\n  for <b>; f\r\n" ++ [0, 46, 10]
    [82, 101, 116, 117, 114, 110, 45, 80, 97, 116, 104, 58, 32, 60, 97, 62, 13, 10, 82, 101, 99, 101, 105, 118, 101, 100, 58, 32, 102, 114, 111, 109, 32, 99, 32, 40, 91, 100, 93, 41, 32, 98, 121, 32, 101, 13, 10, 32, 32, 102, 111, 114, 32, 60, 98, 62, 59, 32, 102, 13, 10, 0, 46, 10] := by
  rw [stored_source_shape]; decide

/-! ### 4. POP3 -/

/-- the model of the scanner is the specification's line splitting -/
theorem scanLines_eq (src : Bytes) : scanLines src = bodyLines src := scanLines_eq_bodyLines src

theorem crlf_eq_spec (src : Bytes) : crlf src = crlfNorm src := by
  simp [crlf, crlfNorm, scanLines_eq]

/-- no token of the scanner is longer than the message … -/
theorem scan_line_length (src : Bytes) : ∀ l ∈ scanLines src, l.length ≤ src.length := by
  rw [scanLines_eq]; exact bodyLines_length src

/-- … so with `scanner.Buffer(nil, int(msg.Size())+1)` the token limit is never hit, whatever the message -/
theorem scan_limit_lifted (src : Bytes) (lim : Nat) (h : src.length < lim) :
    scanLim lim src = (scanLines src, true) := by
  unfold scanLim scanLines
  exact scanLimLoop_eq lim src [] 0 [] (by omega)

/-- sendMessage as written (limit = Size()+1, Size() = length of the stored source) never takes its error path -/
theorem send_message_complete (src : Bytes) : sendMessage (storeSize src) src = pop3Send src := by
  unfold sendMessage storeSize
  rw [scan_limit_lifted src (src.length + 1) (by omega)]
  simp [pop3Send]

/-- the limit is real: with a limit not above the longest line the response is cut short and ends in -ERR
    (what the default 64 KiB limit did to longer lines before the repair, F-02) -/
theorem small_limit_truncates :
    scanLim 4 [98, 10, 97, 97, 97, 97, 10, 99] = ([[98]], false) ∧
    sendMessage 3 [98, 10, 97, 97, 97, 97, 10, 99] = [98, 13, 10, 46, 13, 10] ++ errLine ++ [13, 10] := by
  constructor <;> decide

/-- the response body of RETR is the RFC 5321 client encoding of the source (same transparency procedure) -/
theorem pop3Send_eq_dataEncode (src : Bytes) : pop3Send src = dataEncode src := by
  unfold pop3Send dataEncode dataEncodeLines
  have hf : sendLine = fun l => stuff l ++ [13, 10] := by
    funext l; simp [sendLine, dotPrefix_eq_stuff]
  rw [scanLines_eq, hf]

/-- An RFC 1939 client reading the RETR response gets the source with its line ends normalised to CRLF — nothing
    lost, added or reordered, for EVERY source (dots, NUL, 8-bit, bare CR, lines of any length) — and the bytes after
    the terminating "." line (the next response) are untouched. -/
theorem pop3_round_trip (src rest : Bytes) :
    pop3ClientDecode (pop3Send src ++ rest) = some (crlf src, rest) := by
  have hL : ∀ l ∈ scanLines src, 10 ∉ l := by rw [scanLines_eq]; exact bodyLines_noLF src
  unfold pop3ClientDecode pop3Send crlf
  have hlen := length_flatten_sendLine (scanLines src)
  have := client_lines (scanLines src) hL
    (((scanLines src).map sendLine).flatten ++ [46, 13, 10] ++ rest).length [] rest
    (by rw [List.length_append, List.length_append]; simp only [List.length_cons, List.length_nil]; omega)
  simpa using this

example : pop3ClientDecode (pop3Send [46, 10, 46, 46, 97, 13, 10, 10, 0, 255, 13, 98] ++ [43, 79, 75]) =
    some ([46, 13, 10, 46, 46, 97, 13, 10, 13, 10, 0, 255, 13, 98, 13, 10], [43, 79, 75]) := by decide

/-- `crlf` only touches line ends: a source of LF-free lines with CRLF line ends is a fixed point -/
theorem crlf_joinCRLF (ls : List Bytes) (h : ∀ l ∈ ls, 10 ∉ l) : crlf (joinCRLF ls) = joinCRLF ls := by
  have he : joinCRLF ls = joinLF (ls.map (· ++ [13])) ++ [] := by
    induction ls with
    | nil => rfl
    | cons l ls ih => simp at ih ⊢; exact ih (fun l' hl' => h l' (by simp [hl']))
  have hs := splitLines_joinLF (ls.map (· ++ [13])) [] (by
    intro l hl; simp only [List.mem_map] at hl; obtain ⟨l', hl', rfl⟩ := hl
    intro h10; simp at h10; exact h l' hl' h10) (by simp)
  rw [crlf_eq_spec]
  unfold crlfNorm bodyLines
  rw [he, hs]
  simp [Function.comp_def, dropCR_append_13, joinCRLF, joinLF]

/-! ### 5. sizes and the other interfaces -/

/-- the reported size is the length of the stored source -/
theorem size_is_length (src : Bytes) : storeSize src = (storeSource src).length := rfl

/-- Store.Source, the REST source endpoint and the web-UI source endpoint return the stored source itself; POP3 RETR
    returns it with CRLF line ends: all four agree up to `crlf`. -/
theorem interfaces_agree (src : Bytes) :
    storeSource src = src ∧ restSource src = src ∧ webSource src = src ∧
    pop3Source src = some (crlf src, []) ∧
    (∀ i ∈ [storeSource src, restSource src, webSource src], pop3Source src = some (crlf i, [])) := by
  have hp : pop3Source src = some (crlf src, []) := by
    unfold pop3Source
    rw [send_message_complete]
    simpa using pop3_round_trip src []
  refine ⟨rfl, rfl, rfl, hp, ?_⟩
  intro i hi
  simp [storeSource, restSource, webSource] at hi
  subst hi
  exact hp

/-- C02 end to end: a body sent by an RFC client (followed by anything) is stored as the two trace lines plus the body
    with LF line ends; every read interface returns that, POP3 with CRLF line ends; the size is its length. -/
theorem c02_end_to_end (sender mailbox hdr ts body rest : Bytes) :
    ∃ blk, dotDecode (dataEncode body ++ rest) = some (blk, rest) ∧
      let src := storedSource sender mailbox hdr ts blk
      src = traceHeaders sender mailbox hdr ts ++ lfNorm body ∧
      storeSource src = src ∧ restSource src = src ∧ webSource src = src ∧
      pop3Source src = some (crlf src, []) ∧ storeSize src = src.length :=
  ⟨lfNorm body, data_round_trip body rest, rfl, rfl, rfl, rfl, (interfaces_agree _).2.2.2.1, rfl⟩

end Ibx.Props.C02
