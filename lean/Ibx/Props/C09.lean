import Ibx.Lemmas.ConcMemLin
import Ibx.Lemmas.ConcFile
import Ibx.Model.Lin
/-
  C09 — stores are safe under concurrent use.

  Memory store: theorems over ALL interleavings of the step programs of any family of client threads (each running
  any finite sequence of operations) and the size-enforcer goroutine (Ibx/Model/ConcMem.lean), for every cap and
  byte limit.  File store: VisitMailboxes racing with arbitrary mutators (Ibx/Model/ConcFile.lean).
  NOT in Lean (stated in meta/C09.json, supported by the -race harness): freedom from Go data races, and that the
  Go scheduler realises only interleavings of the modelled steps.
-/
namespace Ibx.Props.C09
open Ibx.Model Ibx.Model.ConcMem

/-! ## memory store -/

/-- the code as it is: `gone` protocol, enforcer calls outside the mailbox lock -/
abbrev code : Variant := Variant.code

private theorem reach_ind {v c progs} {P : St → Prop} (h0 : P (init progs))
    (hs : ∀ s s', P s → Step v c s s' → P s') {s : St} (h : Reach v c progs s) : P s := by
  induction h with
  | init => exact h0
  | step _ st ih => exact hs _ _ ih st

/-- **no_panic.**  With the `gone` protocol no interleaving reaches `all.Remove(nil)` (the only partial
    operation of the enforcer): a removal that overtakes the registration of its message finds `el == nil`,
    marks the message gone, and the later registration skips it.  Holds for either call site. -/
theorem no_panic (site : CallSite) (c : Cfg) (progs : Nat → List Op) (s : St)
    (h : Reach { remove := .goneFlag, site := site } c progs s) : s.panic = false := by
  refine reach_ind (P := fun s => s.panic = false) rfl ?_ h
  intro s s' hp st
  cases st <;> simp_all [critEff, evDelete, acquire, release]

/-- a delivery racing with a removal, enforcer enabled -/
def progsRace : Nat → List Op := fun t => if t = 0 then [.add 0 1] else if t = 1 then [.remove 0 1] else []

/-- **the original code crashes.**  Without the `el == nil` guard: deliver (visible, not yet registered),
    remove the message, the removal reaches the enforcer first -> `all.Remove(nil)`.  Explicit schedule. -/
theorem no_panic_unguarded_fails :
    ∃ s, Reach { remove := .unguarded, site := .outsideLock } { cap := 0, limit := 100 } progsRace s ∧ s.panic = true := by
  have r0 : Reach { remove := .unguarded, site := .outsideLock } { cap := 0, limit := 100 } progsRace _ := Reach.init
  have r1 := Reach.step r0 (Step.start 0 (.add 0 1) [] rfl rfl rfl)
  have r2 := Reach.step r1 (Step.lockS 0 (.add 0 1) rfl rfl rfl)
  have r3 := Reach.step r2 (Step.unlockS 0 (.add 0 1) rfl rfl)
  have r4 := Reach.step r3 (Step.lockB 0 (.add 0 1) rfl rfl ⟨rfl, fun _ _ => rfl⟩)
  have r5 := Reach.step r4 (Step.crit 0 (.add 0 1) rfl rfl)
  have r6 := Reach.step r5 (Step.unlockB 0 (.add 0 1) [.inc (0, 1)] (.id 1) rfl rfl)
  have r7 := Reach.step r6 (Step.start 1 (.remove 0 1) [] rfl rfl rfl)
  have r8 := Reach.step r7 (Step.lockS 1 (.remove 0 1) rfl rfl rfl)
  have r9 := Reach.step r8 (Step.unlockS 1 (.remove 0 1) rfl rfl)
  have r10 := Reach.step r9 (Step.lockB 1 (.remove 0 1) rfl rfl ⟨rfl, fun _ _ => rfl⟩)
  have r11 := Reach.step r10 (Step.crit 1 (.remove 0 1) rfl rfl)
  have r12 := Reach.step r11 (Step.unlockB 1 (.remove 0 1) [.rem (0, 1)] .ok rfl rfl)
  have r13 := Reach.step r12 (Step.sendRem 1 (.remove 0 1) (0, 1) [] .ok rfl rfl rfl)
  have r14 := Reach.step r13 (Step.remPanic 1 (0, 1) rfl rfl rfl rfl)
  exact ⟨_, r14, rfl⟩

/-- the same schedule under the `gone` protocol: the enforcer marks the message gone and carries on
    (non-vacuity of `no_panic`: the dangerous state IS reachable, it just is not a crash) -/
example : ∃ s, Reach code { cap := 0, limit := 100 } progsRace s ∧ s.gone (0, 1) = true ∧ s.panic = false := by
  have r0 : Reach code { cap := 0, limit := 100 } progsRace _ := Reach.init
  have r1 := Reach.step r0 (Step.start 0 (.add 0 1) [] rfl rfl rfl)
  have r2 := Reach.step r1 (Step.lockS 0 (.add 0 1) rfl rfl rfl)
  have r3 := Reach.step r2 (Step.unlockS 0 (.add 0 1) rfl rfl)
  have r4 := Reach.step r3 (Step.lockB 0 (.add 0 1) rfl rfl ⟨rfl, fun _ _ => rfl⟩)
  have r5 := Reach.step r4 (Step.crit 0 (.add 0 1) rfl rfl)
  have r6 := Reach.step r5 (Step.unlockB 0 (.add 0 1) [.inc (0, 1)] (.id 1) rfl rfl)
  have r7 := Reach.step r6 (Step.start 1 (.remove 0 1) [] rfl rfl rfl)
  have r8 := Reach.step r7 (Step.lockS 1 (.remove 0 1) rfl rfl rfl)
  have r9 := Reach.step r8 (Step.unlockS 1 (.remove 0 1) rfl rfl)
  have r10 := Reach.step r9 (Step.lockB 1 (.remove 0 1) rfl rfl ⟨rfl, fun _ _ => rfl⟩)
  have r11 := Reach.step r10 (Step.crit 1 (.remove 0 1) rfl rfl)
  have r12 := Reach.step r11 (Step.unlockB 1 (.remove 0 1) [.rem (0, 1)] .ok rfl rfl)
  have r13 := Reach.step r12 (Step.sendRem 1 (.remove 0 1) (0, 1) [] .ok rfl rfl rfl)
  have r14 := Reach.step r13 (Step.remGone 1 (0, 1) rfl rfl rfl rfl)
  exact ⟨_, r14, rfl, rfl⟩

/-- lock discipline: whoever appears in a lock table is at a program point that releases it -/
theorem lock_invariant {v c progs s} (h : Reach v c progs s) : LockInv s :=
  reach_ind (P := LockInv) (lockInv_init progs) (fun _ _ ih st => lockInv_step st ih) h

/-- with the enforcer calls outside withMailbox the mailbox unlock is never queued behind a rendezvous:
    no thread holds a mailbox lock while blocked on the enforcer -/
theorem unlock_first {v c progs s} (hv : v.site = .outsideLock) (h : Reach v c progs s) :
    ∀ t, shapeOK (s.thr t) :=
  reach_ind (P := fun s => ∀ t, shapeOK (s.thr t)) (fun _ => trivial) (fun _ _ ih st => shape_step hv st ih) h

/-- **deadlock_free.**  Every reachable state of the code as it is that is not final (some thread still has
    work) has an enabled step.  Lock order argument: a client blocked on the enforcer holds no lock
    (`unlock_first`); the enforcer waits only for the store mutex and mailbox locks, whose holders are at a
    point where their next step (the critical section / an unlock) is enabled (`lock_invariant`). -/
theorem deadlock_free (c : Cfg) (progs : Nat → List Op) (s : St) (h : Reach code c progs s) (hnf : ¬ Final s) :
    ∃ s', Step code c s s' :=
  progress (no_panic .outsideLock c progs s h) (lock_invariant h) (unlock_first rfl h) hnf

/-- non-vacuity: the initial state of a non-empty program is reachable and not final -/
example : Reach code { cap := 0, limit := 100 } progsRace (init progsRace) ∧ ¬ Final (init progsRace) :=
  ⟨Reach.init, fun h => by have := (h 0).2; simp [init, progsRace] at this⟩

def progsOne : Nat → List Op := fun t => if t = 0 then [.add 0 2] else []

private theorem stuck_of {v c} {s : St} (t0 : Nat) (k : Key) (w : Who) (he : s.epc = .evLockB t0 k)
    (hw : s.wlock k.1 = some w)
    (ht : ∀ t, (s.thr t = .idle ∧ s.prog t = []) ∨ ∃ o todo r, s.thr t = .wait o todo r) :
    ∀ s', ¬ Step v c s s' := by
  intro s' st
  cases st with
  | start t o rest hp h1 h2 => rcases ht t with h | ⟨o', td, r, h⟩ <;> simp_all
  | lockS t o hp h1 h2 => rcases ht t with h | ⟨o', td, r, h⟩ <;> simp_all
  | unlockS t o hp h1 => rcases ht t with h | ⟨o', td, r, h⟩ <;> simp_all
  | lockB t o hp h1 h2 => rcases ht t with h | ⟨o', td, r, h⟩ <;> simp_all
  | crit t o hp h1 => rcases ht t with h | ⟨o', td, r, h⟩ <;> simp_all
  | unlockB t o todo r hp h1 => rcases ht t with h | ⟨o', td, r', h⟩ <;> simp_all
  | sendInc t o k todo r hp h1 h2 => rcases ht t with h | ⟨o', td, r', h⟩ <;> simp_all
  | sendRem t o k todo r hp h1 h2 => rcases ht t with h | ⟨o', td, r', h⟩ <;> simp_all
  | finish t o r hp h1 => rcases ht t with h | ⟨o', td, r', h⟩ <;> simp_all
  | evLockB t k' hp h1 h2 h3 => rw [he] at h1; injection h1 with e1 e2; subst e2; simp_all
  | _ => simp_all

/-- **enforcerDeliver inside withMailbox deadlocks.**  One thread, one delivery larger than the limit: the
    client waits for `done` holding the mailbox lock, the enforcer wants that lock to evict.  Explicit schedule;
    the reached state is not final, has not crashed, and has no enabled step. -/
theorem deadlock_insideLock :
    ∃ s, Reach { remove := .goneFlag, site := .insideLock } { cap := 0, limit := 1 } progsOne s ∧
      ¬ Final s ∧ s.panic = false ∧ ∀ s', ¬ Step { remove := .goneFlag, site := .insideLock } { cap := 0, limit := 1 } s s' := by
  have r0 : Reach { remove := .goneFlag, site := .insideLock } { cap := 0, limit := 1 } progsOne _ := Reach.init
  have r1 := Reach.step r0 (Step.start 0 (.add 0 2) [] rfl rfl rfl)
  have r2 := Reach.step r1 (Step.lockS 0 (.add 0 2) rfl rfl rfl)
  have r3 := Reach.step r2 (Step.unlockS 0 (.add 0 2) rfl rfl)
  have r4 := Reach.step r3 (Step.lockB 0 (.add 0 2) rfl rfl ⟨rfl, fun _ _ => rfl⟩)
  have r5 := Reach.step r4 (Step.crit 0 (.add 0 2) rfl rfl)
  have r6 := Reach.step r5 (Step.sendInc 0 (.add 0 2) (0, 1) [.unlock] (.id 1) rfl rfl rfl)
  have r7 := Reach.step r6 (Step.incReg 0 (0, 1) rfl rfl rfl)
  have r8 := Reach.step r7 (Step.loopEvict 0 (0, 1) [] rfl rfl (by decide) rfl)
  have r9 := Reach.step r8 (Step.evLockS 0 (0, 1) rfl rfl rfl)
  have r10 := Reach.step r9 (Step.evUnlockS 0 (0, 1) rfl rfl)
  refine ⟨_, r10, ?_, rfl, ?_⟩
  · intro h; have := (h 0).1; simp [upd] at this
  · apply stuck_of 0 (0, 1) (.cl 0) rfl rfl
    intro t
    by_cases e : t = 0
    · subst e; right; exact ⟨_, _, _, rfl⟩
    · left; simp [upd, e, init, critEff, acquire, progsOne, Op.isWrite, Op.box]

/-- **linearizable** (forward simulation).  Linearisation point of every operation = its critical section
    under the mailbox lock (a step of the operation itself, hence inside its invocation/response interval);
    evictions by the enforcer are removals by a background client.  In every reachable state the sequence of
    critical sections executed so far is a legal sequential history of the atomic machine `Atomic.step` (one
    operation at a time), it produced exactly the results the operations return, and it ends in the current
    shared state. -/
theorem linearizable {v c progs s} (h : Reach v c progs s) :
    Atomic.run c AS.empty (s.lin.map (·.2.1)) = (s.abs, s.lin.map (·.2.2)) :=
  reach_ind (P := LinOK c) rfl (fun _ _ ih st => linOK_step st ih) h

private theorem retInv {v c progs s} (h : Reach v c progs s) : RetInv s :=
  reach_ind (P := RetInv) ⟨by simp [init], by simp [init]⟩ (fun _ _ ih st => retInv_step st ih) h

/-- every completed operation returned the result computed at its linearisation point -/
theorem results_from_linearisation {v c progs s} (h : Reach v c progs s) (t : Nat) (o : Op) (r : Ret)
    (hh : (t, o, r) ∈ s.hist) : (Who.cl t, o, r) ∈ s.lin :=
  (retInv h).1 _ hh

private theorem idInv {v c progs s} (h : Reach v c progs s) : IdInv s :=
  reach_ind (P := IdInv) (fun _ => by simp [init]) (fun _ _ ih st => idInv_step st ih) h

/-- **ids_distinct.**  The ids assigned by the critical sections of the deliveries to one mailbox are strictly
    increasing in linearisation order (`last++` under the mailbox write lock) — in particular no two deliveries
    ever receive the same id. -/
theorem ids_distinct {v c progs s} (h : Reach v c progs s) (b : Nat) :
    (s.lin.filterMap (addId b)).Pairwise (· < ·) :=
  (idInv h b).1

/-- the id a completed delivery returned is one of those assigned ids -/
theorem delivery_id_assigned {v c progs s} (h : Reach v c progs s) (t b sz i : Nat)
    (hh : (t, Op.add b sz, Ret.id i) ∈ s.hist) : i ∈ s.lin.filterMap (addId b) := by
  have := results_from_linearisation h t _ _ hh
  exact List.mem_filterMap.mpr ⟨_, this, by simp [addId]⟩

private theorem delInv {v c progs s} (h : Reach v c progs s) : DelInv s :=
  reach_ind (P := DelInv) (fun b i h1 h2 => by simp [init, AS.empty] at h2; omega) (fun _ _ ih st => delInv_step st ih) h

/-- **delivered_stays.**  A delivery that returned id `i` is in its mailbox afterwards unless a step that
    deletes from the map took it out: `removed` grows only in the critical sections of RemoveMessage,
    PurgeMessages, the cap loop of AddMessage, and the enforcer's eviction. -/
theorem delivered_stays {v c progs s} (h : Reach v c progs s) (t b sz i : Nat)
    (hh : (t, Op.add b sz, Ret.id i) ∈ s.hist) : i ∈ (s.boxes b).msgs ∨ (b, i) ∈ s.removed := by
  have hi := (idInv h b).2 i (delivery_id_assigned h t b sz i hh)
  exact delInv h b i hi.1 hi.2

def progsAdd : Nat → List Op := fun t => if t = 0 then [.add 0 5] else []

/-- non-vacuity of `delivered_stays` / `ids_distinct` / `linearizable`: a complete delivery through the
    enforcer (11 steps) is reachable, it returned id 1 and the message is there -/
example : ∃ s, Reach code { cap := 0, limit := 100 } progsAdd s ∧ (0, Op.add 0 5, Ret.id 1) ∈ s.hist ∧
    (s.boxes 0).msgs = [1] ∧ s.cur = 5 ∧ Final s := by
  have r0 : Reach code { cap := 0, limit := 100 } progsAdd _ := Reach.init
  have r1 := Reach.step r0 (Step.start 0 (.add 0 5) [] rfl rfl rfl)
  have r2 := Reach.step r1 (Step.lockS 0 (.add 0 5) rfl rfl rfl)
  have r3 := Reach.step r2 (Step.unlockS 0 (.add 0 5) rfl rfl)
  have r4 := Reach.step r3 (Step.lockB 0 (.add 0 5) rfl rfl ⟨rfl, fun _ _ => rfl⟩)
  have r5 := Reach.step r4 (Step.crit 0 (.add 0 5) rfl rfl)
  have r6 := Reach.step r5 (Step.unlockB 0 (.add 0 5) [.inc (0, 1)] (.id 1) rfl rfl)
  have r7 := Reach.step r6 (Step.sendInc 0 (.add 0 5) (0, 1) [] (.id 1) rfl rfl rfl)
  have r8 := Reach.step r7 (Step.incReg 0 (0, 1) rfl rfl rfl)
  have r9 := Reach.step r8 (Step.loopDone 0 rfl rfl (by decide))
  have r10 := Reach.step r9 (Step.fin 0 rfl rfl)
  have r11 := Reach.step r10 (Step.finish 0 (.add 0 5) (.id 1) rfl rfl)
  refine ⟨_, r11, by simp, rfl, rfl, ?_⟩
  intro t
  by_cases e : t = 0
  · subst e; exact ⟨rfl, rfl⟩
  · simp [upd, e, init, critEff, acquire, release, progsAdd, resume]

/-! ## file store: VisitMailboxes racing with mutators -/

open Ibx.Model.ConcFile in
private theorem freach_ind {v keep fs} {P : ConcFile.St → Prop} (h0 : P (ConcFile.start fs))
    (hs : ∀ s s', P s → ConcFile.Step v keep s s' → P s') {s : ConcFile.St} (h : ConcFile.Reach v keep fs s) : P s := by
  induction h with
  | init => exact h0
  | step _ st ih => exact hs _ _ ih st

/-- **visit never errors** (ENOENT tolerated): whatever the mutators do between the visitor's file-system
    calls, the walk does not abort.  The per-mailbox read cannot fail because it runs under the bucket lock
    every mutation of that mailbox holds. -/
theorem visit_no_error (keep : ConcFile.Mb → Bool) (fs : ConcFile.Fs) (s : ConcFile.St)
    (h : ConcFile.Reach .tolerated keep fs s) : s.vpc ≠ .failed :=
  freach_ind (P := fun s => s.vpc ≠ .failed) (by simp [ConcFile.start]) (fun _ _ ih st => ConcFile.no_fail_step st ih) h

/-- **a mailbox that exists during the whole visit is reported**: if the non-empty mailbox `m` is in the tree
    when the visit starts and no mutator removes it (`keep m`), a finished visit has called back with `m`
    and its messages. -/
theorem visit_reports_stable (keep : ConcFile.Mb → Bool) (fs : ConcFile.Fs) (m : ConcFile.Mb) (s : ConcFile.St)
    (hk : keep m = true) (hi : m ∈ fs.idx) (hb : m ∈ fs.mbs) (h2 : (m.d1, m.d2) ∈ fs.d2s) (h1 : m.d1 ∈ fs.d1s)
    (h : ConcFile.Reach .tolerated keep fs s) (hd : s.vpc = .done) : (m, true) ∈ s.reported := by
  have st : ConcFile.Stable m s :=
    freach_ind (P := ConcFile.Stable m) ⟨hi, hb, h2, h1, Or.inr (by simp [ConcFile.start, ConcFile.Will])⟩
      (fun _ _ ih st => ConcFile.stable_step hk st ih) h
  rcases st.w with q | q
  · exact q
  · rw [hd] at q; simp [ConcFile.Will] at q

def fs1 : ConcFile.Fs := { d1s := [1, 2], d2s := [(1, 10), (2, 20)], mbs := [⟨1, 10, 100⟩, ⟨2, 20, 200⟩], idx := [⟨1, 10, 100⟩, ⟨2, 20, 200⟩] }

/-- **the original VisitMailboxes fails**: the visitor lists the root, a mutator removes the last message of
    the only mailbox below level-1 directory 1 (index, mailbox directory, both parents), the visitor's readdir
    of directory 1 returns ENOENT and the walk aborts — mailbox 200 is never visited. -/
theorem visit_fatal_fails :
    ∃ s, ConcFile.Reach .fatal (fun m => m.h == 200) fs1 s ∧ s.vpc = .failed ∧ s.reported = [] := by
  have r0 : ConcFile.Reach .fatal (fun m => m.h == 200) fs1 _ := ConcFile.Reach.init
  have r1 := ConcFile.Reach.step r0 (ConcFile.Step.vRoot rfl)
  have r2 := ConcFile.Reach.step r1 (ConcFile.Step.eLock 1 (by simp [ConcFile.start]))
  have r3 := ConcFile.Reach.step r2 (ConcFile.Step.eRmMb ⟨1, 10, 100⟩ (by simp) rfl)
  have r4 := ConcFile.Reach.step r3 (ConcFile.Step.eRmD2 1 10 (by simp) (by simp [ConcFile.start, fs1]))
  have r5 := ConcFile.Reach.step r4 (ConcFile.Step.eRmD1 1 (by simp) (by simp [ConcFile.start, fs1]))
  have r6 := ConcFile.Reach.step r5 (ConcFile.Step.eUnlock 1 (by simp))
  have r7 := ConcFile.Reach.step r6 (ConcFile.Step.vL1enoent 1 [2] rfl (by simp [ConcFile.start, fs1]))
  exact ⟨_, r7, rfl, rfl⟩

/-- non-vacuity of `visit_reports_stable`, and the same schedule with ENOENT tolerated: the walk continues
    and reports mailbox 200 -/
example : ∃ s, ConcFile.Reach .tolerated (fun m => m.h == 200) fs1 s ∧ s.vpc = .done ∧
    s.reported = [(⟨2, 20, 200⟩, true)] := by
  have r0 : ConcFile.Reach .tolerated (fun m => m.h == 200) fs1 _ := ConcFile.Reach.init
  have r1 := ConcFile.Reach.step r0 (ConcFile.Step.vRoot rfl)
  have r2 := ConcFile.Reach.step r1 (ConcFile.Step.eLock 1 (by simp [ConcFile.start]))
  have r3 := ConcFile.Reach.step r2 (ConcFile.Step.eRmMb ⟨1, 10, 100⟩ (by simp) rfl)
  have r4 := ConcFile.Reach.step r3 (ConcFile.Step.eRmD2 1 10 (by simp) (by simp [ConcFile.start, fs1]))
  have r5 := ConcFile.Reach.step r4 (ConcFile.Step.eRmD1 1 (by simp) (by simp [ConcFile.start, fs1]))
  have r6 := ConcFile.Reach.step r5 (ConcFile.Step.eUnlock 1 (by simp))
  have r7 := ConcFile.Reach.step r6 (ConcFile.Step.vL1enoent 1 [2] rfl (by simp [ConcFile.start, fs1]))
  have r8 := ConcFile.Reach.step r7 (ConcFile.Step.vL1ok 2 [] rfl (by simp [ConcFile.start, fs1]))
  have r9 := ConcFile.Reach.step r8 (ConcFile.Step.vL2ok 2 20 [] [] rfl (by simp [ConcFile.start, fs1]))
  have r10 := ConcFile.Reach.step r9 (ConcFile.Step.vRead 2 20 ⟨2, 20, 200⟩ [] [] [] rfl (by simp [ConcFile.start]))
  have r11 := ConcFile.Reach.step r10 (ConcFile.Step.vL3done 2 20 [] [] rfl)
  have r12 := ConcFile.Reach.step r11 (ConcFile.Step.vL2done 2 [] rfl)
  have r13 := ConcFile.Reach.step r12 (ConcFile.Step.vL1done rfl)
  exact ⟨_, r13, rfl, by simp [ConcFile.start, fs1]⟩

/-! ## the history checker used by the T2 harness -/

/-- an order reported by the Wing–Gong checker is a linearisation by the direct definition: duplicate-free,
    contains every mandatory operation, respects real time, and its sequential run on `Spec.Store` reproduces
    every recorded result -/
theorem lin_checker_sound (c : Spec.Store.Cfg) (h : Array Lin.Ev) (o : List Nat) (hc : (Lin.check c h).order = some o) :
    Lin.validLin c h o = true := Lin.check_sound c h o hc

/-- the definition accepts a linearisation of overlapping deliveries and rejects an order that contradicts
    a recorded result (non-vacuity of `lin_checker_sound`; the compiled checker itself is exercised by T2) -/
example :
    Lin.validLin { cap := 0, limit := 0 } #[⟨.add [97] 1 10 (some 2), .ok, 1, 4⟩, ⟨.add [97] 2 10 (some 1), .ok, 2, 3⟩,
      ⟨.list [97], .toks [2, 1], 5, 6⟩] [1, 0, 2] = true ∧
    Lin.validLin { cap := 0, limit := 0 } #[⟨.add [97] 1 10 (some 2), .ok, 1, 4⟩, ⟨.add [97] 2 10 (some 1), .ok, 2, 3⟩,
      ⟨.list [97], .toks [2, 1], 5, 6⟩] [0, 1, 2] = false := by
  constructor <;> decide

end Ibx.Props.C09
