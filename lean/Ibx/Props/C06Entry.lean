import Ibx.Props.Sys
import Ibx.Gen.Entry
import Ibx.Gen.Rest
import Ibx.Gen.Smtp
/-
  C06, system level — "no message larger than the configured maximum is EVER accepted or stored".

  `Props.Sys.no_oversize_no_overfull` proves the sentence for every history of the composed system UNDER THE HYPOTHESIS that
  no operation of the history is a direct `AddMessage` (`noDirectAdd`: every delivery comes through SMTP).  Here the hypothesis
  becomes a consequence of what the source offers:

    * `Tables` are the regenerated facts about the ways into the store (Ibx/Gen/Entry.lean, go/types over the whole program);
    * `actors t` lists who, according to the tables, makes store calls OUTSIDE the component models' SMTP path — each HTTP
      handler with the Manager / Store methods reachable from it, the other HTTP registrations, the Go functions handed to Lua
      scripts, and every package's uses (the one `Deliver` call of the SMTP server and the one `AddMessage` call of the manager
      are left out exactly when the tables say that they are the DATA handler's call behind the size test and the call inside
      `StoreManager.Deliver`);
    * `FromInterfacesOf t op`: the operation `op` of `Model.Sys` is one the program described by `t` can perform — an SMTP
      connection, a POP3 session, a retention scan, a request to a REGISTERED route, or a direct store call that SOME ACTOR'S
      reachable methods can issue.

  `interface_ops_never_add_directly` then says that, with the tables of the CURRENT source, no such operation is a direct
  add; it is proved by evaluating the tables, so a route whose handler reaches `Deliver`, a second `AddMessage` site, a Lua
  function that reaches the store … make it unprovable (`a_delivering_handler_would_add` shows the definition is sensitive).
  `interface_histories_hold_no_oversize` is `no_oversize_no_overfull` without the hypothesis.

  Second part, "no part of it is stored": an SMTP connection all of whose data phases are over the limit leaves the system
  state — store AND event log — exactly as it was; in general only the phases within the limit reach the store.
-/
namespace Ibx.Props.C06Entry
open Ibx Ibx.Bytes Ibx.Spec.Store Ibx.Model
open Ibx.Model.Sys (State SOp SysEv smtpEnv smtpAdds smtpCalls stampFrom copies noDirectAdd)
open Ibx.Model.Smtp Ibx.Lemmas.SmtpLoop
open Ibx.Props.Sys (exK exConn exSt bU bV)

/-! ### what a method of the manager or of a store can do to the message set -/

inductive Effect
  | read      -- GetMetadata, GetMessage, SourceReader, MailboxForAddress / GetMessage, GetMessages, VisitMailboxes
  | seen      -- MarkSeen
  | remove    -- RemoveMessage
  | purge     -- PurgeMessages
  | add       -- Manager.Deliver (→ Store.AddMessage for every destination), Store.AddMessage
  | unknown   -- a method this model does not know: may do anything
  deriving DecidableEq, Repr

/-- pkg/message/manager.go: each method of StoreManager makes the store call of the same name (Deliver: AddMessage) -/
def effectOf (m : String) : Effect :=
  if m ∈ ["Manager.Deliver", "Store.AddMessage"] then .add
  else if m ∈ ["Manager.MarkSeen", "Store.MarkSeen"] then .seen
  else if m ∈ ["Manager.RemoveMessage", "Store.RemoveMessage"] then .remove
  else if m ∈ ["Manager.PurgeMessages", "Store.PurgeMessages"] then .purge
  else if m ∈ ["Manager.GetMetadata", "Manager.GetMessage", "Manager.SourceReader", "Manager.MailboxForAddress",
    "Store.GetMessage", "Store.GetMessages", "Store.VisitMailboxes"] then .read
  else .unknown

/-- may put a message into the store -/
def Effect.adds : Effect → Bool
  | .add | .unknown => true
  | _ => false

/-- can code with this effect issue the store call `op`? -/
def Effect.allows : Effect → Op → Bool
  | .unknown, _ => true
  | .add, .add _ _ _ => true
  | .seen, .seen _ _ => true
  | .remove, .remove _ _ => true
  | .purge, .purge _ => true
  | .read, .get _ _ | .read, .latest _ | .read, .list _ | .read, .visit => true
  | _, _ => false

private theorem allows_add (f : Effect) (b : Bytes) (hdr : Meta) (src : Bytes) : f.allows (.add b hdr src) = f.adds := by
  cases f <;> rfl

/-! ### the program as the regenerated tables describe it -/

/-- the facts of Ibx/Gen/Entry.lean (and the size-test fact of Ibx/Gen/Smtp.lean) the definition below reads -/
structure Tables where
  deliverSites : List (String × String × String)
  addMessageSites : List (String × String × String)
  dataSizeCheck : String
  packageUses : List (String × List String)
  handlerCalls : List (String × List String × Bool)
  otherHttp : List (String × String × Nat × List String)
  luaUses : List String
  routes : List String          -- handler functions of the registered routes

/-- the tables of the current source -/
def gen : Tables :=
  { deliverSites := Gen.Entry.deliverSites, addMessageSites := Gen.Entry.addMessageSites,
    dataSizeCheck := Gen.Smtp.dataSizeCheck, packageUses := Gen.Entry.packageUses,
    handlerCalls := Gen.Entry.handlerCalls, otherHttp := Gen.Entry.otherHttpHandlers,
    luaUses := Gen.Entry.luaExposedUses, routes := (Gen.Rest.routes.getD []).map (·.1) }

/-- someone who makes store calls: a name and the Manager / Store methods its code can reach -/
structure Actor where
  name : String
  uses : List String
  deriving DecidableEq, Repr

/-- the SMTP path proper — what `SOp.smtp` models — is: ONE use of Deliver in the SMTP server, a plain call in the DATA handler
    behind the size test … -/
def smtpPathPinned (t : Tables) : Bool :=
  t.deliverSites.filter (·.1 == "pkg/server/smtp") == [("pkg/server/smtp", "<DATA handler>", "call")] &&
    t.dataSizeCheck == "afterRead"

/-- … and ONE use of AddMessage in the manager, a plain call inside `StoreManager.Deliver` -/
def managerPathPinned (t : Tables) : Bool :=
  t.addMessageSites.filter (·.1 == "pkg/message") == [("pkg/message", "StoreManager.Deliver", "call")]

/-- is this use of a package part of the SMTP path (and therefore accounted for by `SOp.smtp`, not an actor of its own)? -/
def onSmtpPath (t : Tables) (pkg m : String) : Bool :=
  (pkg == "pkg/server/smtp" && m == "Manager.Deliver" && smtpPathPinned t) ||
  (pkg == "pkg/message" && m == "Store.AddMessage" && managerPathPinned t)

/-- everybody who can make a store call outside the SMTP path -/
def actors (t : Tables) : List Actor :=
  t.handlerCalls.map (fun h => { name := "http:" ++ h.1, uses := h.2.1 }) ++
  t.otherHttp.map (fun o => { name := "http-static:" ++ o.1 ++ "." ++ o.2.1, uses := o.2.2.2 }) ++
  [{ name := "lua", uses := t.luaUses }] ++
  t.packageUses.map (fun p => { name := "package:" ++ p.1, uses := p.2.filter (fun m => !onSmtpPath t p.1 m) }) ++
  -- a Deliver / AddMessage site in any OTHER package is an actor too (it is also in packageUses; listed for the name)
  (t.deliverSites.filter (·.1 != "pkg/server/smtp")).map (fun s => { name := "deliver-site:" ++ s.1 ++ "." ++ s.2.1, uses := ["Manager.Deliver"] }) ++
  (t.addMessageSites.filter (·.1 != "pkg/message")).map (fun s => { name := "add-site:" ++ s.1 ++ "." ++ s.2.1, uses := ["Store.AddMessage"] })

/-- the Go function behind each handler of the model's router (the same table as Tie.Rest.handlerFn, which Tie.Rest.routes_tie
    pins against the registered routes; repeated here so that this file stands on the regenerated tables alone) -/
def routeFn : ClientUrl.Handler → String
  | .listV1 => "MailboxListV1" | .purgeV1 => "MailboxPurgeV1" | .showV1 => "MailboxShowV1"
  | .seenV1 => "MailboxMarkSeenV1" | .deleteV1 => "MailboxDeleteV1" | .sourceV1 => "MailboxSourceV1"
  | .wMessage => "MailboxMessage" | .wHtml => "MailboxHTML" | .wSource => "MailboxSource"
  | .wAttach => "MailboxViewAttach" | .monAllV1 => "MonitorAllMessagesV1" | .monBoxV1 => "MonitorMailboxMessagesV1"
  | .monAllV2 => "MonitorAllMessagesV2" | .monBoxV2 => "MonitorMailboxMessagesV2"
  | .greeting => "RootGreeting" | .status => "RootStatus"

/-- the operations of `Model.Sys` that the program described by `t` can perform through its interfaces:
    an SMTP connection, a POP3 session, a retention scan (the listeners and the scanner: Tie.Entry.servers_tie), a request
    to a registered route, and a direct store call only if some actor's code can issue it -/
def FromInterfacesOf (t : Tables) : SOp → Prop
  | .smtp _ _ _ _ => True
  | .pop3 _ _ => True
  | .scan _ => True
  | .rest h _ => routeFn h ∈ t.routes
  | .store op => ∃ a ∈ actors t, ∃ m ∈ a.uses, (effectOf m).allows op = true

/-- … by the current source -/
abbrev FromInterfaces : SOp → Prop := FromInterfacesOf gen

/-- every handler the REST model knows is registered in the current source, and nothing else is: a request of the model is a
    request to a real route, a real route is a handler of the model -/
theorem model_handlers_are_the_registered_ones :
    (∀ h, routeFn h ∈ gen.routes) ∧ ∀ f ∈ gen.routes, ∃ h, routeFn h = f := by
  refine ⟨fun h => by cases h <;> decide +kernel, ?_⟩
  have : ∀ f ∈ gen.routes, f ∈ [ClientUrl.Handler.listV1, .purgeV1, .showV1, .seenV1, .deleteV1, .sourceV1, .wMessage, .wHtml,
      .wSource, .wAttach, .monAllV1, .monBoxV1, .monAllV2, .monBoxV2, .greeting, .status].map routeFn := by decide +kernel
  intro f hf
  obtain ⟨h, _, rfl⟩ := List.mem_map.mp (this f hf)
  exact ⟨h, rfl⟩

/-- no actor of the current source reaches a method that adds (evaluated on the regenerated tables) -/
theorem no_actor_adds : ∀ a ∈ actors gen, ∀ m ∈ a.uses, (effectOf m).adds = false := by decide +kernel

/-- **interface_ops_never_add_directly.**  Whatever the running program does through its interfaces — SMTP, POP3, every
    registered HTTP route and static handler, retention, Lua scripts — is never a delivery that bypasses the SMTP data phase. -/
theorem interface_ops_never_add_directly : ∀ op, FromInterfaces op → noDirectAdd op = true := by
  intro op h
  cases op with
  | store o =>
    cases o with
    | add b hdr src =>
      obtain ⟨a, ha, m, hm, hal⟩ := h
      rw [allows_add, no_actor_adds a ha m hm] at hal
      exact absurd hal (by decide)
    | _ => rfl
  | _ => rfl

/-- the hypothesis is satisfiable by a history that uses every interface, a direct delete included (the REST delete handler and
    the POP3 server reach RemoveMessage) … -/
example : ∀ op ∈ [exConn, .rest .purgeV1 { name := bV }, .pop3 .eof [], .scan 0, .store (.remove bU 1), exConn],
    FromInterfaces op := by
  intro op h
  simp only [List.mem_cons, List.not_mem_nil, or_false] at h
  rcases h with rfl | rfl | rfl | rfl | rfl | rfl
  · trivial
  · exact model_handlers_are_the_registered_ones.1 _
  · trivial
  · trivial
  · exact ⟨{ name := "http:MailboxDeleteV1", uses := ["Manager.MailboxForAddress", "Manager.RemoveMessage"] },
      by decide +kernel, "Manager.RemoveMessage", by decide, rfl⟩
  · trivial

/-- … while a direct add is NOT an operation of the interfaces -/
theorem direct_add_is_not_an_interface_op (b : Bytes) (hdr : Meta) (src : Bytes) :
    ¬ FromInterfaces (.store (.add b hdr src)) :=
  fun h => absurd (interface_ops_never_add_directly _ h) (by simp [noDirectAdd])

/-- the definition is sensitive to the tables: were a handler registered that reaches `Deliver` (the route
    `POST /api/v1/mailbox/{name}` of a seeded change, say), a direct add of ANY size would be an interface operation, and
    `interface_ops_never_add_directly` could not be proved for those tables -/
theorem a_delivering_handler_would_add (b : Bytes) (hdr : Meta) (src : Bytes) :
    FromInterfacesOf { gen with handlerCalls := ("MailboxAppendV1", ["Manager.Deliver"], true) :: gen.handlerCalls }
      (.store (.add b hdr src)) :=
  ⟨{ name := "http:MailboxAppendV1", uses := ["Manager.Deliver"] }, by simp [actors], "Manager.Deliver", by simp, rfl⟩

/-- likewise a second call of `Deliver` inside the SMTP server (outside the DATA handler) un-pins the SMTP path -/
theorem a_second_deliver_site_would_add (b : Bytes) (hdr : Meta) (src : Bytes) :
    FromInterfacesOf { gen with deliverSites := ("pkg/server/smtp", "Server.Start", "call") :: gen.deliverSites }
      (.store (.add b hdr src)) := by
  refine ⟨{ name := "package:pkg/server/smtp", uses := ["Manager.Deliver"] }, ?_, "Manager.Deliver", by simp, rfl⟩
  decide +kernel

/-- **interface_histories_hold_no_oversize** (C06 + C08, no hypothesis about deliveries).  After ANY history of operations the
    running program can perform through its interfaces: no mailbox lists more than the cap, the stored bytes do not exceed the
    store limit, and every live message is the trace headers followed by a block that a completed data phase of some SMTP
    connection of the history decoded and that is within the SMTP size limit. -/
theorem interface_histories_hold_no_oversize (k : Model.Sys.Cfg) (ops : List SOp) (hops : ∀ op ∈ ops, FromInterfaces op) :
    let st := Model.Sys.run k Model.Sys.init ops
    (k.store.cap > 0 → ∀ b, (listing st.store b).length ≤ k.store.cap) ∧
    (k.store.limit > 0 → total st.store.msgs ≤ k.store.limit) ∧
    ∀ m ∈ st.store.msgs, ∃ e budget clock w, SOp.smtp e budget clock w ∈ ops ∧
      ∃ ph ∈ runPhases (smtpEnv k e) budget w, (ph.block.length : Int) ≤ k.maxBytes ∧
        m.source = traceHeaders (smtpEnv k e) ph.sess m.box ++ ph.block :=
  Ibx.Props.Sys.no_oversize_no_overfull k ops (fun op hop => interface_ops_never_add_directly op (hops op hop))

/-- in particular no live message's body part exceeds the limit: its source is the trace headers and at most `maxBytes` more -/
theorem interface_histories_bound_every_source (k : Model.Sys.Cfg) (ops : List SOp) (hops : ∀ op ∈ ops, FromInterfaces op) :
    ∀ m ∈ (Model.Sys.run k Model.Sys.init ops).store.msgs, ∃ hdrs block : Bytes,
      m.source = hdrs ++ block ∧ (block.length : Int) ≤ k.maxBytes := by
  intro m hm
  obtain ⟨e, budget, _, w, _, ph, _, hsz, hsrc⟩ := (interface_histories_hold_no_oversize k ops hops).2.2 m hm
  exact ⟨_, _, hsrc, hsz⟩

set_option maxRecDepth 40000 in
/-- the example history (limit 20, cap 2) leaves three messages (u/1 removed directly, u/2 evicted by the cap) -/
example : (Model.Sys.run exK Model.Sys.init [exConn, .rest .purgeV1 { name := bV }, .store (.remove bU 1), exConn]).store.msgs.map
    (fun m => (m.box, m.id)) = [(bU, 3), (bV, 2), (bU, 4)] := by decide

/-! ### "no part of it is stored" -/

private theorem flatMap_filter_of_nil {α β : Type} (p : α → Bool) (f : α → List β) (l : List α)
    (h : ∀ x ∈ l, p x = false → f x = []) : l.flatMap f = (l.filter p).flatMap f := by
  induction l with
  | nil => rfl
  | cons a l ih =>
    have ih' := ih (fun x hx => h x (List.mem_cons_of_mem _ hx))
    cases hp : p a with
    | true => simp [hp, ih']
    | false => simp [hp, ih', h a List.mem_cons_self hp]

/-- a completed data phase whose block is over the limit emitted the 552 and nothing else: no copy, no failed delivery, no
    hook call -/
theorem oversize_phase_stores_nothing (e : Env) (b : Option Nat) (w : Bytes) :
    ∀ ph ∈ runPhases e b w, (ph.block.length : Int) > e.maxBytes → ph.evs = [.reply [552]] := by
  intro ph hph hbig
  obtain ⟨_, hevs, _⟩ := Ibx.Props.C03.phases_complete e b w ph hph
  rw [hevs, Ibx.Props.C06.oversize_refused e ph.sess ph.block [] hbig]
  rfl

/-- what a connection hands to the store comes from its data phases WITHIN the limit alone: drop the oversize phases from the
    account and the deliveries (mailbox, metadata, source, date) are the same -/
theorem only_fitting_phases_reach_the_store (k : Model.Sys.Cfg) (e : Smtp.Env) (budget : Option Nat) (clock : Nat → Int)
    (w : Bytes) :
    smtpAdds k e budget clock w = stampFrom clock 0
      (((runPhases (smtpEnv k e) budget w).filter (fun ph => decide ((ph.block.length : Int) ≤ k.maxBytes))).flatMap
        (fun ph => storedOf ph.evs)) := by
  unfold smtpAdds
  rw [Ibx.Lemmas.SysGlue.copies_eq, run_stored]
  congr 1
  apply flatMap_filter_of_nil
  intro ph hph hp
  have hbig : (ph.block.length : Int) > (smtpEnv k e).maxBytes := by
    have : ¬ (ph.block.length : Int) ≤ k.maxBytes := by simpa using hp
    show (ph.block.length : Int) > k.maxBytes
    omega
  rw [oversize_phase_stores_nothing _ budget w ph hph hbig]
  rfl

/-- **refused_oversize_leaves_system_as_it_was.**  An SMTP connection all of whose completed data phases carried a block over
    the limit — whatever else it did: SIZE parameters truthful or not, several transactions, pipelined input, an abrupt end —
    leaves the system state exactly as it was: the same store (no message, no part of one, no mailbox created, no eviction
    triggered, no id consumed) and the same event log. -/
theorem refused_oversize_leaves_system_as_it_was (k : Model.Sys.Cfg) (st : State) (e : Smtp.Env) (budget : Option Nat)
    (clock : Nat → Int) (w : Bytes)
    (hbig : ∀ ph ∈ runPhases (smtpEnv k e) budget w, (ph.block.length : Int) > k.maxBytes) :
    Model.Sys.step k st (.smtp e budget clock w) = st := by
  have hnone : smtpAdds k e budget clock w = [] := by
    rw [only_fitting_phases_reach_the_store]
    have : (runPhases (smtpEnv k e) budget w).filter (fun ph => decide ((ph.block.length : Int) ≤ k.maxBytes)) = [] := by
      rw [List.filter_eq_nil_iff]
      intro ph hph
      have := hbig ph hph
      simp only [decide_eq_true_eq]
      omega
    rw [this]
    rfl
  simp [Model.Sys.step, smtpCalls, hnone, Model.Sys.storeOps]

/-- hence anywhere in a history: such a connection can be struck from the history without changing what follows -/
theorem refused_oversize_connection_is_invisible (k : Model.Sys.Cfg) (st : State) (pre post : List SOp) (e : Smtp.Env)
    (budget : Option Nat) (clock : Nat → Int) (w : Bytes)
    (hbig : ∀ ph ∈ runPhases (smtpEnv k e) budget w, (ph.block.length : Int) > k.maxBytes) :
    Model.Sys.run k st (pre ++ .smtp e budget clock w :: post) = Model.Sys.run k st (pre ++ post) := by
  simp only [Model.Sys.run, List.foldl_append, List.foldl_cons]
  rw [refused_oversize_leaves_system_as_it_was k _ e budget clock w hbig]

/-- a dialogue with ONE data phase of 21 bytes against the limit 20, then QUIT -/
def exBig : Bytes :=
  ofAscii "HELO a\r\nMAIL FROM:<>\r\nRCPT TO:<u@x.org>\r\nDATA\r\n12345678901234567890\r\n.\r\nQUIT\r\n"

set_option maxRecDepth 40000 in
/-- the hypothesis is met by a connection that really ran a data phase (one phase, 21 > 20, answered 552) … -/
example : (runPhases (smtpEnv exK Lemmas.SmtpEx.exEnv) none exBig).map (fun ph => (ph.block.length, ph.evs)) =
    [(21, [.reply [552]])] := by decide

set_option maxRecDepth 40000 in
/-- … and the state it leaves is the state it found (three messages, three events), while the same connection with a fitting
    body adds one -/
example : Model.Sys.step exK exSt (.smtp Lemmas.SmtpEx.exEnv none (fun n => 200 + n) exBig) = exSt ∧
    (Model.Sys.step exK exSt exConn).store.msgs.length ≠ exSt.store.msgs.length := by
  refine ⟨refused_oversize_leaves_system_as_it_was exK exSt _ none _ exBig ?_, by decide⟩
  intro ph hph
  have h : (runPhases (smtpEnv exK Lemmas.SmtpEx.exEnv) none exBig).all (fun ph => decide ((ph.block.length : Int) > exK.maxBytes)) = true := by
    decide
  exact of_decide_eq_true (List.all_eq_true.mp h ph hph)

end Ibx.Props.C06Entry
