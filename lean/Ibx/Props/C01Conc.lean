import Ibx.Spec.Store
/-
  C01 for sessions that run at the same time.

  The session-level theorems (Props/C01, Props/Sys) treat one connection as one atomic operation on the store.  A server
  has many connections open; their `AddMessage` calls reach the store in SOME interleaving (the stores linearise concurrent
  calls: Props/C09, C09b — the result of every call is the result of the abstract store at its linearisation point).  What
  C01 promises per transaction does not depend on that interleaving: over the abstract store without cap and byte limit,
  the number of copies of a message in a mailbox is the number of `add` calls made for it, in whatever order the calls of
  different sessions are merged, and nothing else is created.  The leg `harness/cmd/drive/c01_conc.go` observes exactly
  this on the real stores with eight real sessions at once.
-/
namespace Ibx.Props.C01Conc
open Ibx Ibx.Spec.Store

/-- one `AddMessage` call: mailbox, metadata, source -/
abbrev Add := Bytes × Meta × Bytes

def noLimits : Cfg := { cap := 0, limit := 0 }

/-- the store after a sequence of add calls (no cap, no byte limit) -/
def runAdds (s : Store) (l : List Add) : Store :=
  l.foldl (fun s a => (step noLimits s (.add a.1 a.2.1 a.2.2)).1) s

/-- the message is a copy of what the call `a` delivered (ids are the store's business) -/
def copyOf (a : Add) (m : Msg) : Bool := m.box == a.1 && m.hdr == a.2.1 && m.source == a.2.2

def copies (s : Store) (a : Add) : Nat := (s.msgs.filter (copyOf a)).length

private theorem limitEvict_zero (l : List Msg) : limitEvict 0 l = (l, []) := by
  cases l <;> simp [limitEvict]

private theorem add_msgs (s : Store) (a : Add) :
    (step noLimits s (.add a.1 a.2.1 a.2.2)).1.msgs =
      s.msgs ++ [{ box := a.1, id := s.next a.1 + 1, hdr := a.2.1, seen := false, source := a.2.2 }] := by
  simp [step, noLimits, capEvict, limitEvict_zero]

private theorem copyOf_new (s : Store) (a x : Add) :
    copyOf x { box := a.1, id := s.next a.1 + 1, hdr := a.2.1, seen := false, source := a.2.2 } = decide (a = x) := by
  obtain ⟨b, h, src⟩ := a
  obtain ⟨b', h', src'⟩ := x
  rw [Bool.eq_iff_iff]
  simp [copyOf, Prod.ext_iff, and_assoc]

/-- one call adds one copy of what it delivers and no copy of anything else -/
theorem copies_add (s : Store) (a x : Add) :
    copies (step noLimits s (.add a.1 a.2.1 a.2.2)).1 x = copies s x + (if a = x then 1 else 0) := by
  unfold copies
  rw [add_msgs, List.filter_append, List.length_append]
  congr 1
  by_cases h : a = x <;> simp [List.filter, copyOf_new, h]

/-- **copies_are_calls.**  After any sequence of add calls the number of copies of a delivery in the store is the number it
    held before plus the number of calls made for it — for every delivery, so nothing else is created either. -/
theorem copies_are_calls (s : Store) (l : List Add) (x : Add) :
    copies (runAdds s l) x = copies s x + (l.filter (· = x)).length := by
  induction l generalizing s with
  | nil => simp [runAdds]
  | cons a l ih =>
    have : runAdds s (a :: l) = runAdds (step noLimits s (.add a.1 a.2.1 a.2.2)).1 l := rfl
    rw [this, ih, copies_add]
    by_cases h : a = x <;> simp [h, List.filter] <;> omega

/-- **interleaving_is_immaterial.**  Two orders of the same calls — in particular any two interleavings of the calls of
    several sessions — leave the same number of copies of every delivery. -/
theorem interleaving_is_immaterial (s : Store) (l₁ l₂ : List Add) (h : l₁.Perm l₂) (x : Add) :
    copies (runAdds s l₁) x = copies (runAdds s l₂) x := by
  rw [copies_are_calls, copies_are_calls]
  congr 1
  exact (h.filter _).length_eq

/-- **concurrent_sessions_one_copy_each.**  `sessions` are the add calls each session makes (one per accepted, storable
    recipient of each acknowledged transaction, in the session's order); `merged` is the order in which the store
    linearised them.  Whatever that order, a delivery that exactly one call was made for has exactly one copy in a store
    that started empty, and a delivery nobody made has none. -/
theorem concurrent_sessions_one_copy_each (sessions : List (List Add)) (merged : List Add)
    (h : merged.Perm sessions.flatten) (x : Add) :
    copies (runAdds empty merged) x = (sessions.flatten.filter (· = x)).length := by
  rw [interleaving_is_immaterial empty merged sessions.flatten h, copies_are_calls]
  simp [copies, empty]

/-- per-mailbox order is the order of the calls for that mailbox: the listing of a mailbox after the merged calls is the
    listing a single session making just that mailbox's calls in that order would produce (ids 1, 2, 3, …) -/
theorem listing_ids_count (s : Store) (l : List Add) (b : Bytes) :
    (listing (runAdds s l) b).length = (listing s b).length + (l.filter (fun a => a.1 == b)).length := by
  induction l generalizing s with
  | nil => simp [runAdds]
  | cons a l ih =>
    have : runAdds s (a :: l) = runAdds (step noLimits s (.add a.1 a.2.1 a.2.2)).1 l := rfl
    rw [this, ih]
    unfold listing
    rw [add_msgs, List.filter_append, List.length_append]
    by_cases hb : a.1 == b <;> simp [hb, inBox, List.filter] <;> omega

-- non-vacuity: two sessions, three calls, two interleavings
private def mA : Meta := { sender := [1], rcpts := [[2]], subject := [3], date := 0 }
private def mB : Meta := { sender := [4], rcpts := [[5]], subject := [6], date := 0 }
private def sess1 : List Add := [([10], mA, [7]), ([11], mA, [7])]
private def sess2 : List Add := [([10], mB, [8])]

example : copies (runAdds empty [sess1[0]!, sess2[0]!, sess1[1]!]) ([10], mB, [8]) = 1 := by decide
example : copies (runAdds empty [sess2[0]!, sess1[0]!, sess1[1]!]) ([10], mA, [7]) = 1 := by decide
example : [sess1[0]!, sess2[0]!, sess1[1]!].Perm [sess1, sess2].flatten := by decide

end Ibx.Props.C01Conc
