import Ibx.Model.LuaGlue
import Ibx.Model.Pool
import Ibx.Lemmas.Pool
import Ibx.Lemmas.SmtpHooks
/-
  C17, Lua half: "a Lua handler that raises an error or returns the wrong kind of value behaves as if it had not
  answered, and handlers invoked from many sessions at once never corrupt each other's state".

  Part A  the glue (Ibx/Model/LuaGlue.lean) composed with the session model (Ibx/Model/Smtp.lean)
  Part B  the Lua state pool under every schedule (Ibx/Model/Pool.lean)
  The Lua interpreter is a parameter (see LuaGlue.lean).
-/
namespace Ibx.Props.C17Lua
open Ibx Ibx.Model Ibx.Model.Smtp Ibx.Model.LuaGlue

/-! ## Part A — glue -/

/-- the only outcome of a MAIL / RCPT handler that is an answer: the call succeeded and returned an SMTPResponse userdata -/
theorem glueSmtp_some_iff (o : LuaOutcome) (r : HookAns) :
    glueSmtp o = some r ↔ o = .returned (.smtpResponse r) := by
  cases o with
  | noState => simp [glueSmtp]
  | error => simp [glueSmtp]
  | returned v => cases v <;> simp [glueSmtp, unwrapSMTPResponse]

/-- the only outcome of a message_stored handler that is an answer: an InboundMessage userdata -/
theorem glueStored_some_iff (o : LuaOutcome) (m : Inbound) :
    glueStored o = some m ↔ o = .returned (.inboundMessage m) := by
  cases o with
  | noState => simp [glueStored]
  | error => simp [glueStored]
  | returned v =>
    cases v with
    | bool b => cases b <;> simp [glueStored, lvIsFalse, unwrapInboundMessage]
    | _ => simp [glueStored, lvIsFalse, unwrapInboundMessage]

/-- **glue_total**: every outcome is mapped, and everything but a well-typed answer is mapped to "did not answer":
    a missing Lua state, a raised error, nil, false / true, a number, a string, a table, a function, a userdata of
    another type. -/
theorem glue_total (o : LuaOutcome) :
    (glueSmtp o = none ∨ ∃ r, o = .returned (.smtpResponse r) ∧ glueSmtp o = some r) ∧
    (glueStored o = none ∨ ∃ m, o = .returned (.inboundMessage m) ∧ glueStored o = some m) := by
  constructor
  · cases h : glueSmtp o with
    | none => exact Or.inl rfl
    | some r => exact Or.inr ⟨r, (glueSmtp_some_iff o r).1 h, rfl⟩
  · cases h : glueStored o with
    | none => exact Or.inl rfl
    | some m => exact Or.inr ⟨m, (glueStored_some_iff o m).1 h, rfl⟩

example : glueSmtp .error = none ∧ glueSmtp (.returned (.number 550)) = none ∧ glueSmtp (.returned (.bool false)) = none
    ∧ glueSmtp (.returned (.inboundMessage emptyInbound)) = none
    ∧ (glueSmtp (.returned (.smtpResponse { action := .deny, code := 551, msg := [110, 111] }))).isSome = true := by
  simp [glueSmtp, unwrapSMTPResponse]

theorem glueSmtp_broken (o : LuaOutcome) :
    glueSmtp o = none ↔ ∀ r, o ≠ .returned (.smtpResponse r) := by
  constructor
  · intro h r hr; rw [(glueSmtp_some_iff o r).2 hr] at h; cases h
  · intro h
    cases hg : glueSmtp o with
    | none => rfl
    | some r => exact absurd ((glueSmtp_some_iff o r).1 hg) (h r)

theorem glueStored_broken (o : LuaOutcome) :
    glueStored o = none ↔ ∀ m, o ≠ .returned (.inboundMessage m) := by
  constructor
  · intro h m hm; rw [(glueStored_some_iff o m).2 hm] at h; cases h
  · intro h
    cases hg : glueStored o with
    | none => rfl
    | some m => exact absurd ((glueStored_some_iff o m).1 hg) (h m)

/-- an answer is passed on literally (action, code and text; mailboxes, sender, recipients, subject) -/
theorem glue_literal (r : HookAns) (m : Inbound) :
    glueSmtp (.returned (.smtpResponse r)) = some r ∧ glueStored (.returned (.inboundMessage m)) = some m := by
  simp [glueSmtp, glueStored, unwrapSMTPResponse, unwrapInboundMessage, lvIsFalse]

/-- every garbage / failing body of the grammar is "no answer", for both kinds of handler -/
theorem broken_terms_no_answer (g : Garbage) (f : Failure) (m : Inbound) :
    glueSmtp (evalSmtp (.garbage g)) = none ∧ glueSmtp (evalSmtp (.fail f)) = none ∧
    glueStored (evalStored (.garbage g) m) = none ∧ glueStored (evalStored (.fail f) m) = none := by
  cases g <;> simp [glueSmtp, glueStored, evalSmtp, evalStored, garbageVal, unwrapSMTPResponse, unwrapInboundMessage, lvIsFalse]

/-- **first_answer_wins** (EventBroker.Emit): the result is the first listener's answer that is not nil -/
theorem first_answer_wins {E R : Type} (ls : List (E → Option R)) (ev : E) :
    emit ls ev = ls.findSome? (fun l => l ev) := by
  induction ls with
  | nil => rfl
  | cons l rest ih =>
    simp only [emit, List.findSome?_cons]
    cases l ev <;> simp [ih]

theorem emit_some_iff {E R : Type} (ls : List (E → Option R)) (ev : E) (r : R) :
    emit ls ev = some r ↔ ∃ pre l post, ls = pre ++ l :: post ∧ (∀ x ∈ pre, x ev = none) ∧ l ev = some r := by
  induction ls with
  | nil => simp [emit]
  | cons l rest ih =>
    simp only [emit]
    cases hl : l ev with
    | some r' =>
      constructor
      · intro h; cases h; exact ⟨[], l, rest, rfl, by simp, hl⟩
      · rintro ⟨pre, l', post, heq, hpre, hl'⟩
        cases pre with
        | nil => simp at heq; obtain ⟨h1, _⟩ := heq; subst h1; rw [hl] at hl'; exact hl'
        | cons p pre' =>
          simp at heq; obtain ⟨h1, _⟩ := heq; subst h1
          have := hpre l (by simp); rw [hl] at this; cases this
    | none =>
      rw [ih]
      constructor
      · rintro ⟨pre, l', post, heq, hpre, hl'⟩
        refine ⟨l :: pre, l', post, by simp [heq], ?_, hl'⟩
        intro x hx
        cases List.mem_cons.1 hx with
        | inl h => subst h; exact hl
        | inr h => exact hpre x h
      · rintro ⟨pre, l', post, heq, hpre, hl'⟩
        cases pre with
        | nil => simp at heq; obtain ⟨h1, _⟩ := heq; subst h1; rw [hl] at hl'; cases hl'
        | cons p pre' =>
          simp at heq; obtain ⟨_, h2⟩ := heq
          exact ⟨pre', l', post, h2, fun x hx => hpre x (by simp [hx]), hl'⟩

theorem emit_none_iff {E R : Type} (ls : List (E → Option R)) (ev : E) :
    emit ls ev = none ↔ ∀ l ∈ ls, l ev = none := by
  induction ls with
  | nil => simp [emit]
  | cons l rest ih =>
    simp only [emit]
    cases hl : l ev with
    | some r => simp [hl]
    | none => simp [ih, hl]

example : emit [fun (_ : Nat) => (none : Option Nat), fun n => some (n + 1), fun _ => some 0] 4 = some 5 := by decide

/-! ### scripts -/

theorem find_mem {T : Type} (h : Handler T) (key : Bytes) (t : T) (hf : h.find key = some t) : ∃ p ∈ h, p.2 = t := by
  unfold Handler.find at hf
  cases hq : List.find? (fun p => p.1 == key) h with
  | none => simp [hq] at hf
  | some p =>
    simp [hq] at hf
    exact ⟨p, List.mem_of_find?_eq_some hq, hf⟩

theorem smtp_broken_no_answer (h : Handler SmtpTerm) (hb : ∀ p ∈ h, p.2.broken = true) (key : Bytes) :
    glueSmtp (smtpOutcome h key) = none := by
  unfold smtpOutcome
  cases hf : h.find key with
  | none => simp [glueSmtp, unwrapSMTPResponse]
  | some t =>
    obtain ⟨p, hp, rfl⟩ := find_mem h key t hf
    have := hb p hp
    cases hp2 : p.2 with
    | garbage g => exact (broken_terms_no_answer g .raise emptyInbound).1
    | fail f => exact (broken_terms_no_answer .retNil f emptyInbound).2.1
    | _ => simp [hp2, SmtpTerm.broken] at this

theorem stored_broken_no_answer (h : Handler StoredTerm) (hb : ∀ p ∈ h, p.2.broken = true) (m : Inbound) :
    glueStored (storedOutcome h m) = none := by
  unfold storedOutcome
  cases hf : h.find m.subject with
  | none => simp [glueStored, lvIsFalse]
  | some t =>
    obtain ⟨p, hp, rfl⟩ := find_mem h m.subject t hf
    have := hb p hp
    cases hp2 : p.2 with
    | garbage g => exact (broken_terms_no_answer g .raise m).2.2.1
    | fail f => exact (broken_terms_no_answer .retNil f m).2.2.2
    | _ => simp [hp2, StoredTerm.broken] at this

/-- the environment a broken script produces IS the environment without extensions -/
theorem broken_env (e : Env) (sc : Script) (hb : sc.Broken) : luaEnv e sc = noHooks e := by
  obtain ⟨hm, hr, hs⟩ := hb
  have h1 : hookMailOf sc = fun _ => none := by
    funext a
    unfold hookMailOf mailListeners
    cases hmail : sc.mail with
    | none => simp [emit]
    | some h => simp [emit, smtp_broken_no_answer h (hm h hmail) a]
  have h2 : hookRcptOf sc = fun _ _ => none := by
    funext _ tos
    unfold hookRcptOf
    cases tos.getLast? with
    | none => rfl
    | some a =>
      unfold rcptListeners
      cases hrc : sc.rcpt with
      | none => simp [emit]
      | some h => simp [emit, smtp_broken_no_answer h (hr h hrc) a]
  have h3 : hookStoredOf sc = fun _ => none := by
    funext m
    unfold hookStoredOf storedListeners
    cases hst : sc.stored with
    | none => simp [emit]
    | some h => simp [emit, stored_broken_no_answer h (hs h hst) m]
  unfold luaEnv noHooks
  rw [h1, h2, h3]

/-- **none_is_defer / a broken script never loses mail**: for every server configuration, every script of the grammar
    all of whose handler bodies raise or return garbage (any subset of the handlers defined, any keys), every send
    budget and EVERY input byte stream, the session produces exactly the events (replies, reply texts of hooks, stored
    copies with mailbox, metadata and source), final state and end reason of the same session on a server without any
    extension. -/
theorem broken_script_never_loses_mail (e : Env) (sc : Script) (hb : sc.Broken) (budget : Option Nat) (inp : Bytes) :
    run (luaEnv e sc) budget inp = run (noHooks e) budget inp := by
  rw [broken_env e sc hb]

def sampleBroken : Script :=
  { mail := some [(Bytes.ofString "a@b.c", .fail .raise), (Bytes.ofString "d@e.f", .garbage .number)],
    rcpt := none,
    stored := some [(Bytes.ofString "subj", .garbage .retTrue), (Bytes.ofString "s2", .fail .scribbleRaise)] }

example : sampleBroken.Broken := by
  refine ⟨?_, ?_, ?_⟩ <;> intro h hh <;> simp [sampleBroken] at hh <;> subst hh <;> simp [SmtpTerm.broken, StoredTerm.broken]

/-- bodies that leave the decision to the server: garbage, failures, and `return smtp.defer()` -/
def harmless : SmtpTerm → Bool
  | .defer_ => true
  | t => t.broken

def Harmless (sc : Script) : Prop :=
  (∀ h, sc.mail = some h → ∀ p ∈ h, harmless p.2 = true) ∧
  (∀ h, sc.rcpt = some h → ∀ p ∈ h, harmless p.2 = true) ∧
  (∀ h, sc.stored = some h → ∀ p ∈ h, p.2.broken = true)

open Ibx.Lemmas.SmtpHooks in
theorem smtp_harmless_norm (h : Handler SmtpTerm) (hb : ∀ p ∈ h, harmless p.2 = true) (key : Bytes) :
    normAns (glueSmtp (smtpOutcome h key)) = none := by
  unfold smtpOutcome
  cases hf : h.find key with
  | none => simp [glueSmtp, unwrapSMTPResponse, normAns]
  | some t =>
    obtain ⟨p, hp, rfl⟩ := find_mem h key t hf
    have := hb p hp
    cases hp2 : p.2 with
    | garbage g => simp [(broken_terms_no_answer g .raise emptyInbound).1, normAns]
    | fail f => simp [(broken_terms_no_answer .retNil f emptyInbound).2.1, normAns]
    | defer_ => simp [evalSmtp, glueSmtp, unwrapSMTPResponse, normAns]
    | _ => simp [hp2, harmless, SmtpTerm.broken] at this

open Ibx.Lemmas.SmtpHooks in
/-- **defer is no answer, end to end**: a script whose MAIL / RCPT bodies all raise, return garbage or return
    `smtp.defer()` (a well-typed answer!) and whose message_stored bodies all raise or return garbage gives, for every
    configuration, budget and input, exactly the session of a server without extensions -/
theorem harmless_script_is_no_script (e : Env) (sc : Script) (hh : Harmless sc) (budget : Option Nat) (inp : Bytes) :
    run (luaEnv e sc) budget inp = run (noHooks e) budget inp := by
  obtain ⟨hm, hr, hs⟩ := hh
  have h3 : hookStoredOf sc = fun _ => none := by
    funext m
    unfold hookStoredOf storedListeners
    cases hst : sc.stored with
    | none => simp [emit]
    | some h => simp [emit, stored_broken_no_answer h (hs h hst) m]
  have heq : luaEnv e sc = withHooks (noHooks e) (hookMailOf sc) (hookRcptOf sc) := by
    unfold luaEnv withHooks noHooks
    rw [h3]
  rw [heq]
  apply run_congr
  · intro a
    show normAns (hookMailOf sc a) = normAns none
    unfold hookMailOf mailListeners
    cases hmail : sc.mail with
    | none => simp [emit, normAns]
    | some h =>
      have := smtp_harmless_norm h (hm h hmail) a
      cases hg : glueSmtp (smtpOutcome h a) with
      | none => simp [emit, hg, normAns]
      | some r => simp [emit, hg] at this ⊢; simpa [normAns] using this
  · intro f tos
    show normAns (hookRcptOf sc f tos) = normAns none
    unfold hookRcptOf
    cases tos.getLast? with
    | none => rfl
    | some a =>
      simp only []
      unfold rcptListeners
      cases hrc : sc.rcpt with
      | none => simp [emit, normAns]
      | some h =>
        have := smtp_harmless_norm h (hr h hrc) a
        cases hg : glueSmtp (smtpOutcome h a) with
        | none => simp [emit, hg, normAns]
        | some r => simp [emit, hg] at this ⊢; simpa [normAns] using this

example : Harmless { mail := some [(Bytes.ofString "a@b.c", .defer_), (Bytes.ofString "d@e.f", .fail .recurse)],
                     rcpt := some [(Bytes.ofString "x@y.z", .defer_)], stored := none } := by
  refine ⟨?_, ?_, ?_⟩ <;> intro h hh <;> simp at hh <;> subst hh <;> simp [harmless, SmtpTerm.broken]

/-- a script that defines no handler registers no listener: same as no extension -/
theorem undefined_handlers_no_hooks (e : Env) : luaEnv e { mail := none, rcpt := none, stored := none } = noHooks e :=
  broken_env e _ (by refine ⟨?_, ?_, ?_⟩ <;> intro h hh <;> cases hh)

/-- a non-broken entry IS honoured (the theorem above is not vacuous glue): the deny of a key reaches the session -/
theorem deny_reaches_session (key : Bytes) (c : Nat) (m : Bytes) (rest : Handler SmtpTerm) (e : Env) :
    (luaEnv e { mail := some ((key, .deny c m) :: rest), rcpt := none, stored := none }).hookMail key
      = some { action := .deny, code := c, msg := m } := by
  simp [luaEnv, hookMailOf, mailListeners, emit, smtpOutcome, Handler.find, evalSmtp, glueSmtp, unwrapSMTPResponse]

/-- a rewritten message reaches Deliver with exactly the assigned fields, the others as received -/
theorem rewrite_reaches_deliver (rw : Rewrite) (ib : Inbound) (rest : Handler StoredTerm) (e : Env) :
    (luaEnv e { mail := none, rcpt := none, stored := some ((ib.subject, .inPlace rw) :: rest) }).hookStored ib
      = some (rw.apply ib) := by
  simp [luaEnv, hookStoredOf, storedListeners, emit, storedOutcome, Handler.find, evalStored, glueStored, unwrapInboundMessage, lvIsFalse]

/-! ## Part B — the Lua state pool under every schedule

  `Pool.Reach st` : `st` is reachable from the empty pool by some interleaving of the atomic steps of any number of
  callers (getState, the handler's stack use, the two halves of putState, the dropped state of a failed
  prepareInbucketFuncCall, createChannel's flush).  Proofs: the invariant of Ibx/Lemmas/Pool.lean. -/

open Ibx.Lemmas.Pool in
/-- **pool_exclusive**: in every reachable state a Lua state is held by at most one caller -/
theorem pool_exclusive (st : Pool.St) (h : Pool.Reach st) (t u : Pool.Tid) (s : Pool.Sid)
    (ht : (st.pc t).state = some s) (hu : (st.pc u).state = some s) : t = u :=
  (inv_reach st h).excl t u s ht hu

open Ibx.Lemmas.Pool in
/-- no Lua state is both in the pool and held, and none is in the pool twice (never put back twice) -/
theorem pool_disjoint (st : Pool.St) (h : Pool.Reach st) :
    st.pool.Nodup ∧ ∀ s, s ∈ st.pool → ∀ t, (st.pc t).state ≠ some s := by
  have hi := inv_reach st h
  exact ⟨hi.pool_nodup, fun s hs t ht => hi.disjoint s hs (hi.pc_held t s ht)⟩

open Ibx.Lemmas.Pool in
/-- a pooled state has an empty Lua stack (so the next handler starts from a clean stack) -/
theorem pooled_stack_empty (st : Pool.St) (h : Pool.Reach st) (s : Pool.Sid) (hs : s ∈ st.pool) : st.depth s = 0 :=
  (inv_reach st h).pool_depth s hs

open Ibx.Lemmas.Pool in
/-- states are never used after Close: neither a held nor a pooled state is closed (createChannel closes pooled states
    only and removes them in the same critical section), hence getState never hands out a closed state -/
theorem no_use_after_close (st : Pool.St) (h : Pool.Reach st) (s : Pool.Sid) :
    (∀ t, (st.pc t).state = some s → st.closed s = false) ∧ (s ∈ st.pool → st.closed s = false) := by
  have hi := inv_reach st h
  exact ⟨fun t ht => hi.held_open s (hi.pc_held t s ht), hi.pool_open s⟩

/-- consequently the `IsClosed` branch of putState is dead as far as the pool's own operations go -/
theorem putClosed_never_enabled (st : Pool.St) (h : Pool.Reach st) (t : Pool.Tid) : Pool.step st (.putClosed t) = none := by
  simp only [Pool.step]
  split
  · next s hh =>
    have := (no_use_after_close st h s).1 t (by simp [hh, Pool.Pc.state])
    simp [this]
  · rfl

open Ibx.Lemmas.Pool in
/-- no leak: the pool never holds more states than were checked out at once at some earlier moment -/
theorem pool_bounded (st : Pool.St) (h : Pool.Reach st) : st.pool.length + st.held.length ≤ st.peak :=
  (inv_reach st h).bound

/-- a schedule with two callers overlapping, a flush in between and a dropped state; all theorems above apply to it -/
def sampleSchedule : List Pool.Op :=
  [.get 0 2, .get 1 0, .use 0 5, .putClear 0, .putAppend 0, .get 2 0, .flush, .putClear 1, .putAppend 1, .leak 2, .get 0 1, .get 1 3]

example : (Pool.runOps Pool.init sampleSchedule).isSome = true := by decide
example : ∃ st, Pool.Reach st ∧ st.pool = [] ∧ st.pc 0 = .holding 1 ∧ st.pc 1 = .holding 2 ∧ st.next = 3 := by
  cases h : Pool.runOps Pool.init sampleSchedule with
  | none => exact absurd h (by decide)
  | some st =>
    refine ⟨st, Pool.reach_runOps _ Pool.Reach.init h, ?_⟩
    have : (Pool.runOps Pool.init sampleSchedule).map (fun st => (st.pool, st.pc 0, st.pc 1, st.next))
        = some ([], .holding 1, .holding 2, 3) := by decide
    rw [h] at this
    simpa using this

end Ibx.Props.C17Lua
