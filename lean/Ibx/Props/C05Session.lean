import Ibx.Props.C03
import Ibx.Props.C05
/-
  C05 (session part) — the SMTP session applies the domain policy exactly, and no transaction ever holds more
  than the configured maximum of recipients.  For every environment: any policy, any hooks, any limit
  (`maxRcpt : Int`, including 0 and negative values).
-/
namespace Ibx.Props.C05Session
open Ibx Ibx.Bytes Ibx.Model Ibx.Model.Smtp
open Ibx.Lemmas.Smtp Ibx.Lemmas.SmtpLoop Ibx.Lemmas.SmtpEx

/-! ### the recipient bound -/

def RcptBound (e : Env) (s : Sess) : Prop := (s.rcpts.length : Int) ≤ max 0 e.maxRcpt

private theorem bound_step (e : Env) (s : Sess) (line : Bytes) (s' : Sess) (evs : List Ev) (hb : RcptBound e s)
    (h : Step e s line s' evs) : RcptBound e s' := by
  have h0 : ((0 : Nat) : Int) ≤ max 0 e.maxRcpt := by omega
  cases h <;> simp_all [RcptBound]
  case rcptOk => omega

/-- every command line preserves the bound -/
theorem rcpt_bound_handleLine (e : Env) (s : Sess) (line : Bytes) (acc : List Ev) (hb : RcptBound e s) :
    RcptBound e (handleLine e s line acc).1 := by
  rw [handleLine_acc]
  exact bound_step e s line _ _ hb (handleLine_step e s line)

/-- in every state the loop passes through, the envelope holds at most `max 0 maxRcpt` recipients -/
theorem rcpt_bound_reach (e : Env) (s : Sess) (g : List Addr.Recipient) (s' : Sess) (g' : List Addr.Recipient)
    (hb : RcptBound e s) (h : Reach e s g s' g') : RcptBound e s' := by
  induction h with
  | refl => exact hb
  | line s1 g1 l _ _ _ _ ih => exact rcpt_bound_handleLine e s1 l [] ih
  | data s1 g1 block _ _ _ _ =>
    have h0 : ((0 : Nat) : Int) ≤ max 0 e.maxRcpt := by omega
    simpa [RcptBound] using h0

/-- … so no data phase of any connection ever delivers to more than the configured maximum -/
theorem rcpt_bound (e : Env) (b : Option Nat) (w : Bytes) :
    RcptBound e (run e b w).2.1 ∧ ∀ ph ∈ runPhases e b w, (ph.sess.rcpts.length : Int) ≤ max 0 e.maxRcpt := by
  have h0 : RcptBound e (start e b) := by
    have h0 : ((0 : Nat) : Int) ≤ max 0 e.maxRcpt := by omega
    simpa [RcptBound, start, init, initFor] using h0
  constructor
  · obtain ⟨s1, g1, hr, hf⟩ := loop_final_reach e (w.length + 2) (start e b) [] w [.reply [220]]
    have := rcpt_bound_reach e _ _ _ _ h0 hr
    rw [run_eq]
    rcases hf with hf | hf <;> rw [hf]
    · exact this
    · simpa [RcptBound] using this
  · intro ph hph
    obtain ⟨s1, hr, _, _, hsess, _⟩ := phases_reach e _ _ _ _ ph hph
    have := rcpt_bound_reach e _ _ _ _ h0 hr
    rw [hsess]
    exact this

/-- limit 2: the third RCPT is refused with 552 and the envelope keeps two recipients -/
example : (run exEnv none (ofAscii "HELO a\r\nMAIL FROM:<>\r\nRCPT TO:<a@x.org>\r\nRCPT TO:<b@x.org>\r\nRCPT TO:<c@x.org>\r\n")).1.getLast?
    = some (.reply [552]) := by decide
example : (run exEnv none (ofAscii "HELO a\r\nMAIL FROM:<>\r\nRCPT TO:<a@x.org>\r\nRCPT TO:<b@x.org>\r\nRCPT TO:<c@x.org>\r\n")).2.1.rcpts.length
    = 2 := by decide

/-! ### RCPT follows the recipient policy -/

/-- for a syntactically valid RCPT in state MAIL:
    250 ⇔ (hook allows ∨ (hook defers / is silent ∧ policy accepts the domain)) ∧ the limit is not reached;
    550 ⇔ hook defers / is silent ∧ policy rejects the domain;
    552 ⇔ allowed (as above) ∧ the limit is reached -/
theorem session_follows_policy_rcpt (e : Env) (s : Sess) (line arg addr : Bytes) (r : Addr.Recipient) (acc : List Ev)
    (hs : s.st = .mail) (hp : parseCmd line = .cmd (ofAscii "RCPT") arg) (hsyn : rcptSyntax e arg = some (addr, r)) :
    let allowed := hookAction (rcptAns e s addr) = .allow ∨
      (hookAction (rcptAns e s addr) = .defer ∧ Policy.shouldAccept e.pol r.domain = true)
    ((handleLine e s line acc).2 = .reply [250] :: acc ↔ allowed ∧ (s.rcpts.length : Int) < e.maxRcpt) ∧
    ((handleLine e s line acc).2 = .reply [550] :: acc ↔
      hookAction (rcptAns e s addr) = .defer ∧ Policy.shouldAccept e.pol r.domain = false) ∧
    ((handleLine e s line acc).2 = .reply [552] :: acc ↔ allowed ∧ (s.rcpts.length : Int) ≥ e.maxRcpt) := by
  intro allowed
  rw [handleLine_cmd e s line _ arg acc (by simp [hs]) (by simp [hs]) hp, handleCmd_mail_rcpt e s arg acc hs,
    rcptTo_eq, hsyn]
  simp only []
  rcases rcptDecide_cases e s addr r with ⟨a, ha, hd⟩ | ⟨h, hpol⟩ | h
  · rw [rcptDecide_deny _ _ _ _ _ a ha hd]
    have : hookAction (rcptAns e s addr) = .deny := by simp [hookAction, ha, hd]
    simp [allowed, this]
  · rw [rcptDecide_550 _ _ _ _ _ h hpol]
    simp [allowed, h, hpol]
  · by_cases hl : (s.rcpts.length : Int) < e.maxRcpt
    · rw [rcptDecide_250 _ _ _ _ _ h hl]
      have hnl : ¬ (e.maxRcpt ≤ (s.rcpts.length : Int)) := by omega
      have : ¬ (hookAction (rcptAns e s addr) = .defer ∧ Policy.shouldAccept e.pol r.domain = false) := by
        rcases h with h | ⟨_, h⟩ <;> simp [h]
      simp [allowed, h, hl, hnl, this]
    · rw [rcptDecide_552 _ _ _ _ _ h (by omega)]
      have hnl : e.maxRcpt ≤ (s.rcpts.length : Int) := by omega
      have : ¬ (hookAction (rcptAns e s addr) = .defer ∧ Policy.shouldAccept e.pol r.domain = false) := by
        rcases h with h | ⟨_, h⟩ <;> simp [h]
      simp [allowed, h, hl, hnl, this]

/-! ### MAIL follows the origin policy -/

/-- for a syntactically valid MAIL in state READY: 501 ("unauthorized domain") ⇔ the hook defers / is silent and
    the origin policy refuses the sender's domain; 250 ⇔ the hook allows, or defers with an acceptable domain -/
theorem session_follows_policy_mail (e : Env) (s : Sess) (line arg addr l d : Bytes) (acc : List Ev)
    (hs : s.st = .ready) (hp : parseCmd line = .cmd (ofAscii "MAIL") arg) (hsyn : mailSyntax e arg = .inr (addr, l, d)) :
    ((handleLine e s line acc).2 = .reply [501] :: acc ↔
      hookAction (e.hookMail addr) = .defer ∧ Policy.shouldAcceptOrigin e.pol d = false) ∧
    ((handleLine e s line acc).2 = .reply [250] :: acc ↔
      hookAction (e.hookMail addr) = .allow ∨
        (hookAction (e.hookMail addr) = .defer ∧ Policy.shouldAcceptOrigin e.pol d = true)) := by
  rw [handleLine_cmd e s line _ arg acc (by simp [hs]) (by simp [hs]) hp, handleCmd_ready_mail e s arg acc hs,
    mailFrom_eq, hsyn]
  simp only []
  rcases mailDecide_cases e addr d with ⟨a, ha, hd⟩ | ⟨h, hpol⟩ | h
  · rw [mailDecide_deny _ _ _ _ _ _ a ha hd]
    have : hookAction (e.hookMail addr) = .deny := by simp [hookAction, ha, hd]
    simp [this]
  · rw [mailDecide_refuse _ _ _ _ _ _ h hpol]
    simp [h, hpol]
  · rw [mailDecide_accept _ _ _ _ _ _ h]
    have : ¬ (hookAction (e.hookMail addr) = .defer ∧ Policy.shouldAcceptOrigin e.pol d = false) := by
      rcases h with h | ⟨_, h⟩ <;> simp [h]
    simp [h, this]

/-- with `Props.C05.origin_rule`: under the processed configuration of `raw`, and without an answering hook, a
    sender is refused exactly when its domain matches a reject-origin pattern of the configuration as written
    (glob semantics, ignoring case) -/
theorem session_refuses_listed_origins (e : Env) (raw : Policy.Cfg) (s : Sess) (line arg addr l d : Bytes) (acc : List Ev)
    (hpol : e.pol = Policy.process raw) (hs : s.st = .ready) (hp : parseCmd line = .cmd (ofAscii "MAIL") arg)
    (hsyn : mailSyntax e arg = .inr (addr, l, d)) (hstar : ∀ x ∈ lower d, x ≠ Spec.star)
    (hhook : hookAction (e.hookMail addr) = .defer) :
    (handleLine e s line acc).2 = .reply [501] :: acc ↔ Ibx.Props.C05.OriginRefused raw d := by
  rw [(session_follows_policy_mail e s line arg addr l d acc hs hp hsyn).1, hpol,
    Ibx.Props.C05.origin_rule raw d hstar]
  simp [hhook]

/-- "bad.org" is on the reject list: 550; "x.org" is not: 250 -/
example : (handleLine exEnv exMail (ofAscii "RCPT TO:<w@bad.org>\r\n") []).2 = [.reply [550]] := by decide
example : (handleLine exEnv exMail (ofAscii "RCPT TO:<w@BAD.org>\r\n") []).2 = [.reply [550]] := by decide
example : (handleLine exEnv exMail (ofAscii "RCPT TO:<w@x.org>\r\n") []).2 = [.reply [250]] := by decide
example : rcptSyntax exEnv (ofAscii "TO:<w@bad.org>") =
    some (ofAscii "w@bad.org", ⟨ofAscii "w@bad.org", ofAscii "w", ofAscii "bad.org", ofAscii "w"⟩) := by decide
example : mailSyntax exEnv (ofAscii "FROM:<>") = .inr ([], [], []) := by decide

end Ibx.Props.C05Session
