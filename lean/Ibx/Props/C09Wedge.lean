import Ibx.Lemmas.CapLoop
import Ibx.Lemmas.EmitLock
import Ibx.Model.FsCodec
import Ibx.Props.C16Broker
/-
  C09, "every operation completes … nor deadlocks", for the two places where the file store does something unbounded-looking
  while it holds a mailbox's lock bucket:

  (a) the cap-eviction LOOP of `mbox.newMessage` (inside `Store.AddMessage`), whose condition reads the in-memory list and whose
      body's error is only logged — when file-system calls are refused, for EVERY set of refused calls
      (`Model/CapLoop.lean` on top of `Model/FsFault.lean`);
  (b) `AfterMessageDeleted.Emit` called under the lock (`PurgeMessages`: once per listed message; `removeMessage`: once) while a
      listener may itself need that lock (`Model/EmitLock.lean` on top of `Model/Broker.lean`).

  What the totality of `FsFault.opF` shows and what it does not.  `opF` is a total Lean function because its cap loop `evictF` is a
  structural recursion `e :: l ↦ l` over the listing: the recursion hands the TAIL to the next round whatever the round returned.
  That the in-memory list of the Go code is that tail after a failed `removeMessage` is exactly the thing in question, so the
  totality of `opF` presupposes the loop's termination and proves nothing about it (a model of a `removeMessage` that restores the
  list could be written just as totally, by the same recursion, and would be wrong).  The statement with content is about the loop
  written as a loop (`CapLoop.Iter`: condition, body, iteration count — no fuel, no descent): with the body the source has
  (`shrinksAlways`, tied by T1 `Tie/Wedge.lean`) it ends after exactly `len + 1 - cap` rounds under every fault set, in the state
  `evictF` computes — which is what makes `opF` a model of the code (`cap_loop_terminates`, `add_returns`,
  `every_file_op_returns`); with the other body (`restoresOnFailure`) and a persistent refusal no number of rounds ends it
  (`restoring_loop_never_ends`), i.e. `AddMessage` never reaches its deferred `Unlock`.
-/
namespace Ibx.Props.C09Wedge
open Ibx Ibx.Spec.Store Ibx.Model Ibx.Model.FsSteps Ibx.Model.FsFault Ibx.Model.CapLoop
open Ibx.Model.FileStore (FEnt)
open Ibx.Lemmas.CapLoop

/-! ## (a) the cap loop under refused file-system calls -/

section CapLoop
variable (C : Codec) (F : Nat → Bool) (b : Bytes) (par : List FsStep)

/-- **Any body that shortens the list ends the loop.**  If every round of `for len(mem) >= cap { body }` leaves the in-memory list
    strictly shorter, the loop — started anywhere — ends, after at most `len + 1 - cap` rounds.  (The measure is the length of the
    list; nothing else about the body is used: not what it does on disk, not what it returns.) -/
theorem shrinking_body_terminates {cap : Nat} {body : LoopSt → Option LoopSt}
    (hs : ∀ s, cap ≤ s.mem.length → ∃ s', body s = some s' ∧ s'.mem.length < s.mem.length) (s : LoopSt) :
    ∃ n t, EndsIn cap body s n t ∧ n ≤ s.mem.length + 1 - cap :=
  shrinking_loop_ends hs s.mem.length s rfl

/-- **The cap loop of the source terminates under every fault set.**  With `removeMessage` as it is (the slice is shortened
    before any fallible step, nothing puts it back), whatever calls are refused (`F` arbitrary), from any list and any state of
    the operation in progress: the loop ends; it goes round exactly `len + 1 - cap` times when `len ≥ cap` and not at all
    otherwise; and it ends in the list and the run that FsFault's structural loop (`evictRest`, `evictF`) computes — so `opF`'s
    loop IS this loop. -/
theorem cap_loop_terminates {cap : Nat} (hcap : 0 < cap) (l : List FEnt) (r : Run) :
    ∃ n t, EndsIn cap (body C F b par .shrinksAlways) { mem := l, run := r } n t ∧
      n = (if cap ≤ l.length then l.length + 1 - cap else 0) ∧ n ≤ l.length + 1 - cap ∧
      t.mem = evictRest cap l ∧ t.run = evictF C F b par cap r l := by
  refine ⟨nEvict cap l, _, ⟨shrinks_iter C F b par cap l r, evictRest_exits hcap l⟩, nEvict_eq hcap l, ?_, rfl, rfl⟩
  rw [nEvict_eq hcap l]; split <;> omega

/-- a loop that ends, ends in one way: the number of rounds and the final state are functions of the start (any body) -/
theorem cap_loop_end_unique {cap : Nat} {body : LoopSt → Option LoopSt} {s : LoopSt} {n m : Nat} {t t' : LoopSt}
    (h : EndsIn cap body s n t) (h' : EndsIn cap body s m t') : n = m ∧ t = t' :=
  endsIn_unique h h'

/-- `mb.messages[0]` inside the loop never indexes an empty slice: the guard `messageCap > 0` makes the condition
    `len >= cap` imply `len > 0` (either body). -/
theorem cap_loop_never_panics {cap : Nat} (hcap : 0 < cap) (v : ListEffect) (hv : v ≠ .unknown) (s : LoopSt) :
    ¬ Panics cap (body C F b par v) s := by
  rintro ⟨n, t, _, hc, hb⟩
  cases v with
  | unknown => exact hv rfl
  | shrinksAlways =>
    cases hm : t.mem with
    | nil => rw [hm] at hc; simp at hc; omega
    | cons e l => simp [body, bodyShrinks, hm] at hb
  | restoresOnFailure =>
    cases hm : t.mem with
    | nil => rw [hm] at hc; simp at hc; omega
    | cons e l =>
      simp only [body, bodyRestores, hm] at hb
      split at hb
      · simp at hb
      · split at hb <;> simp at hb

/-- **AddMessage returns, and returns what `opF` says.**  `Store.AddMessage` with its loop written as a loop has an answer under
    every fault set, reached after `nEvict` rounds, and that answer is FsFault's `addF` — the function the T2 leg of C16 compares
    the real store with, call by call. -/
theorem add_returns (cap : Nat) (d : Option MDir) (id : Nat) (hdr : Meta) (src : Bytes) :
    ∃ n, AddReturns C F b .shrinksAlways par cap d id hdr src n (addF C F b par cap d id hdr src) ∧
      n ≤ ((dlisting C d).getD []).length + 1 - cap := by
  unfold AddReturns addF
  cases hd : dlisting C d with
  | none => exact ⟨0, by simp, by omega⟩
  | some l0 =>
    by_cases hcap : cap > 0
    · obtain ⟨n, t, he, _, hn, hm, hr⟩ := cap_loop_terminates C F b par hcap l0 (Run.start d)
      refine ⟨n, ?_, by simpa using hn⟩
      simp only [hcap, if_true]
      exact ⟨t, he, by rw [hm, hr]⟩
    · refine ⟨0, ?_, by omega⟩
      simp [hcap]

/-- **Every operation of the file store returns, under every fault set, after a bounded number of file-system calls.**  For every
    operation, start state, cap and set of refused calls there is a number of loop rounds `n ≤ len + 1 - cap` (`len` = what the
    mailbox lists; `n = 0` for everything but a capped delivery) such that: a delivery, with its loop as a loop, returns `opD`'s
    answer after `n` rounds; and the operation makes at most `8·n + 10` hooked file-system calls (refused ones included) before it
    returns and releases the lock.  There is no other loop whose length is not that of a listing (T1: `Tie/Wedge.lean`). -/
theorem every_file_op_returns (lay : Layout) (cap : Nat) (op : FsSteps.Op) (s : FS) :
    ∃ n, n ≤ ((dlisting C (s.dirs op.box)).getD []).length + 1 - cap ∧
      (match op with
        | .add bx id hdr src =>
            AddReturns C F bx .shrinksAlways (parentSteps lay s bx) cap (s.dirs bx) id hdr src n
              (opD C F (parentSteps lay s bx) cap (s.dirs bx) op)
        | _ => n = 0) ∧
      (opF C lay cap F op s).trace.length ≤ 8 * n + 10 := by
  have hp := parentSteps_len lay s op.box
  cases op with
  | add bx id hdr src =>
    obtain ⟨n, hr, hn⟩ := add_returns C F bx (parentSteps lay s bx) cap (s.dirs bx) id hdr src
    simp only [Op.box] at hp hn ⊢
    -- the number of rounds is determined: it is nEvict
    refine ⟨n, hn, hr, ?_⟩
    simp only [opF, opD, Op.box, addF]
    cases hd : dlisting C (s.dirs bx) with
    | none => simp [Out.of, Run.start]
    | some l0 =>
      simp only
      have hn' : n = if cap > 0 then nEvict cap l0 else 0 := by
        unfold AddReturns at hr
        simp only [hd] at hr
        by_cases hcap : cap > 0
        · simp only [hcap, if_true] at hr ⊢
          obtain ⟨t, he, _⟩ := hr
          exact (endsIn_unique he ⟨shrinks_iter C F bx (parentSteps lay s bx) cap l0 (Run.start (s.dirs bx)),
            evictRest_exits hcap l0⟩).1
        · simp only [hcap, if_false] at hr ⊢
          exact hr.1
      have h1 := addTail_len C F bx (if cap > 0 then evictRest cap l0 else l0) id hdr src
        (if cap > 0 then evictF C F bx (parentSteps lay s bx) cap (Run.start (s.dirs bx)) l0 else Run.start (s.dirs bx))
      have h2 := evictF_len C F bx (parentSteps lay s bx) cap l0 (Run.start (s.dirs bx))
      have h3 : nEvict cap l0 * (6 + (parentSteps lay s bx).length) ≤ nEvict cap l0 * 8 :=
        Nat.mul_le_mul_left _ (by omega)
      have h0 : (Run.start (s.dirs bx)).trace.length = 0 := rfl
      by_cases hcap : cap > 0
      · simp only [hcap, if_true] at h1 hn' ⊢
        omega
      · simp only [hcap, if_false] at h1 hn' ⊢
        omega
  | seen bx id =>
    refine ⟨0, by omega, rfl, ?_⟩
    simp only [opF, opD, Op.box, seenF]
    cases dlisting C (s.dirs bx) with
    | none => simp [Out.of, Run.start]
    | some l =>
      simp only
      cases l.find? (fun e => e.id = id) with
      | none => simp [Out.of, Run.start]
      | some e =>
        simp only
        split
        · simp [Out.of, Run.start]
        · have := writeIndexF_len C F bx (markFirst id l) (Run.start (s.dirs bx))
          have h0 : (Run.start (s.dirs bx)).trace.length = 0 := rfl
          simp only [Out.of]; omega
  | remove bx id =>
    refine ⟨0, by omega, rfl, ?_⟩
    simp only [Op.box] at hp
    simp only [opF, opD, Op.box, removeF]
    cases dlisting C (s.dirs bx) with
    | none => simp [Out.of, Run.start]
    | some l =>
      simp only
      split
      · have := removeFoundF_len C F bx (parentSteps lay s bx) (eraseFirst id l) id (Run.start (s.dirs bx))
        have h0 : (Run.start (s.dirs bx)).trace.length = 0 := rfl
        simp only [Out.of]; omega
      · simp [Out.of, Run.start]
  | purge bx =>
    refine ⟨0, by omega, rfl, ?_⟩
    simp only [Op.box] at hp
    simp only [opF, opD, Op.box, purgeF]
    cases dlisting C (s.dirs bx) with
    | none => simp [Out.of, Run.start]
    | some l =>
      simp only
      have key : ∀ r : Run, r.trace.length = 0 → (removeDirF F (parentSteps lay s bx) r).1.trace.length ≤ 8 * 0 + 10 :=
        fun r h0 => by have := removeDirF_len F (parentSteps lay s bx) r; omega
      exact key _ rfl

/-- **Counter-witness: a `removeMessage` that restores the list.**  With the restoring body, a list at (or over) the cap and a
    persistent refusal (every hooked call from now on is refused: a directory in the way of `index.gob.tmp`, a read-only directory,
    a full disk): for EVERY `n` the loop has gone round `n` times and is still in its condition, with the same list, nothing
    announced, nothing changed on disk — and so it never ends: no number of rounds reaches an exit. -/
theorem restoring_loop_never_ends {cap : Nat} (hcap : 0 < cap) (s : LoopSt) (hc : cap ≤ s.mem.length)
    (hp : PersistentFrom F s.run.k) :
    (∀ n, ∃ t, Iter cap (body C F b par .restoresOnFailure) n s t ∧ cap ≤ t.mem.length ∧ t.mem = s.mem ∧
        t.run.d = s.run.d ∧ t.run.events = s.run.events ∧ t.run.trace.length = s.run.trace.length + n) ∧
    ¬ ∃ n t, EndsIn cap (body C F b par .restoresOnFailure) s n t := by
  constructor
  · intro n
    obtain ⟨t, hi, h1, _, h3, h4, h5, _⟩ := restores_spins C F b par hcap n s hc hp
    exact ⟨t, hi, by rw [h1]; exact hc, h1, h3, h4, h5⟩
  · rintro ⟨n, t, he⟩
    obtain ⟨u, hi, h1, _⟩ := restores_spins C F b par hcap n s hc hp
    exact not_ended_before hi (by rw [h1]; exact hc) n t (Nat.le_refl _) he

/-- … and the refused calls are exactly the index writes: with cap ≥ 2 (so that the list without its head is not empty and
    `writeIndex` writes rather than removes) and the mailbox directory present, the `n` hooked calls of `n` rounds are `n`
    `create-tmp`s — "every call from now on is refused" asks for nothing more than "the temporary index cannot be created". -/
theorem restoring_loop_refusals_are_index_writes {cap : Nat} (hcap : 2 ≤ cap) (s : LoopSt) (hc : cap ≤ s.mem.length)
    (hp : PersistentFrom F s.run.k) (hd : s.run.d.isSome = true) (n : Nat) :
    ∃ t, Iter cap (body C F b par .restoresOnFailure) n s t ∧ t.run.trace = s.run.trace ++ List.replicate n .createTmp := by
  obtain ⟨t, hi, _, _, _, _, _, h6⟩ := restores_spins C F b par (by omega) n s hc hp
  exact ⟨t, hi, h6 hcap hd⟩

/-- Hence that `AddMessage` never returns: the program "readIndex; the loop; the tail" has no answer, for no number of rounds.
    (Its caller holds the bucket lock through a deferred `Unlock`, which is never reached.) -/
theorem restoring_add_never_returns {cap : Nat} (hcap : 0 < cap) (d : Option MDir) (l0 : List FEnt) (hl : dlisting C d = some l0)
    (hc : cap ≤ l0.length) (hp : PersistentFrom F 0) (id : Nat) (hdr : Meta) (src : Bytes) :
    ¬ ∃ n out, AddReturns C F b .restoresOnFailure par cap d id hdr src n out := by
  rintro ⟨n, out, h⟩
  unfold AddReturns at h
  simp only [hl, hcap, if_true] at h
  obtain ⟨t, he, _⟩ := h
  exact (restoring_loop_never_ends C F b par hcap { mem := l0, run := Run.start d } hc (fun k _ => hp k (Nat.zero_le _))).2 ⟨n, t, he⟩

end CapLoop

/-! ### non-vacuity of (a): a two-message mailbox at cap 2, the concrete codec -/

section Concrete
open Ibx.Model.FsCodec

def hdr0 : Meta := { sender := [115], rcpts := [[114]], subject := [120], date := 1700000000 }
def ent1 : FEnt := newEnt 1 hdr0 [104, 105]
def ent2 : FEnt := newEnt 2 hdr0 [121, 111]
def boxA : Bytes := [97]
/-- mailbox "a" on disk: index listing 1 and 2, both raw files -/
def dirA : Option MDir := some { index := some (lp.enc (boxA, [ent1, ent2])), tmp := none, raws := [(1, [104, 105]), (2, [121, 111])] }
def allRefused : Nat → Bool := fun _ => true

example : dlisting lp dirA = some [ent1, ent2] := by
  simp [dlisting, dirA, lp.dec_enc]

/-- the source's loop, everything refused, cap 2, two messages: one round, one message left in memory, the deletion of message 1
    announced, the refused create-tmp in the trace -/
example : ∃ t, EndsIn 2 (body lp allRefused boxA [] .shrinksAlways) { mem := [ent1, ent2], run := Run.start dirA } 1 t ∧
    t.mem = [ent2] ∧ t.run.events = [1] ∧ t.run.trace = [.createTmp] := by
  obtain ⟨n, t, he, hn, _, hm, hr⟩ := cap_loop_terminates lp allRefused boxA [] (cap := 2) (by omega) [ent1, ent2] (Run.start dirA)
  simp at hn
  subst hn
  refine ⟨t, he, by rw [hm]; decide, ?_, ?_⟩
  · rw [hr]; simp [evictF, removeFoundF, writeIndexAnyF, writeIndexF, createDirH, calls, call, emit, Run.start, dirA, allRefused, ent1, ent2, newEnt]
  · rw [hr]; simp [evictF, removeFoundF, writeIndexAnyF, writeIndexF, createDirH, calls, call, emit, Run.start, dirA, allRefused, ent1, ent2, newEnt]

/-- the hypotheses of `restoring_loop_never_ends` are met by that mailbox -/
example : PersistentFrom allRefused (Run.start dirA).k ∧ 2 ≤ ([ent1, ent2] : List FEnt).length ∧ (Run.start dirA).d.isSome = true :=
  ⟨fun _ _ => rfl, by decide, rfl⟩

/-- five rounds of the restoring loop on it: five refused create-tmps, the list as it was -/
example : ∃ t, Iter 2 (body lp allRefused boxA [] .restoresOnFailure) 5 { mem := [ent1, ent2], run := Run.start dirA } t ∧
    t.run.trace = [.createTmp, .createTmp, .createTmp, .createTmp, .createTmp] := by
  obtain ⟨t, hi, ht⟩ := restoring_loop_refusals_are_index_writes lp allRefused boxA [] (cap := 2) (by omega)
    { mem := [ent1, ent2], run := Run.start dirA } (by decide) (fun _ _ => rfl) rfl 5
  exact ⟨t, hi, by rw [ht]; rfl⟩

/-- the guard `2 ≤ cap` of `restoring_loop_refusals_are_index_writes` is needed: with cap 1 the only message is removed by removing
    the DIRECTORY (no index is written, no create-tmp is called), so a mailbox whose temporary index cannot be created does not stop
    a cap-1 store: one round, nothing refused on its way, the list is empty -/
example : body lp (fun _ => false) boxA [] .restoresOnFailure { mem := [ent2], run := Run.start dirA } =
    some { mem := [], run := { d := none, k := 2, trace := [.unlinkIndex, .removeAll], events := [2] } } := by decide

end Concrete

/-! ## (b) emits under the mailbox lock -/

section EmitUnderLock
open Ibx.Model.EmitLock Ibx.Lemmas.EmitLock
open Ibx.Model.Broker (Ev)

variable {beh : Beh} {k : Nat} {nb : NbPhase}

/-- **The broker inside the composed machine is the broker.**  Every step of the composed machine either leaves the broker
    component alone or is a step of `Model.Broker`'s per-listener-queue machine on it — for either queue variant (a bounded queue
    only removes Emit steps). -/
theorem proj_step {v : QueueVar} {s t : EmitLock.St} (hreg : s.b.registered = true) (st : EmitLock.Step v beh s t) :
    t.b = s.b ∨ Broker.Step .perListenerQueue s.b t.b := by
  cases st with
  | opLock => exact Or.inl rfl
  | opEmit j ho hc => exact Or.inr (Broker.Step.emit _ s.b s.next hreg)
  | opUnlock => exact Or.inl rfl
  | lisStart e q hp hr => exact Or.inr (Broker.Step.qStart s.b e q hreg hp hr)
  | lisLock => exact Or.inl rfl
  | lisUnlock => exact Or.inl rfl
  | lisFinish e hr => exact Or.inr (Broker.Step.qFinish s.b e hr)
  | nbLock => exact Or.inl rfl
  | nbUnlock => exact Or.inl rfl

/-- … so every reachable state of the composition carries a reachable broker state, and all of `Props/C16Broker.lean` applies to
    it (one call at a time, FIFO, no event lost). -/
theorem broker_component_reachable {v : QueueVar} (hnb : nb ≠ .inside) {s : EmitLock.St} (h : EmitLock.Reach v beh k nb s) :
    Broker.Reach .perListenerQueue s.b := by
  induction h with
  | init => exact Broker.Reach.init
  | step hr st ih =>
    rcases proj_step (inv_reach hnb hr).reg st with h | h
    · rw [h]; exact ih
    · exact Broker.Reach.step ih h

/-- **"Completes without waiting for a listener" = "Emit never blocks".**  In any state in which the operation holds the lock and
    has events to announce, its next step is enabled exactly when the queue variant lets `push` append — whatever the listener is
    doing, whoever else waits for the lock. -/
theorem op_step_enabled_iff_emit_can_push (v : QueueVar) (s : EmitLock.St) (j : Nat) (ho : s.op = .emitting (j + 1)) :
    (∃ t, OpStep v beh s t) ↔ v.canPush s.b.pending = true := by
  constructor
  · rintro ⟨t, h⟩
    cases h with
    | lock k' h1 => rw [ho] at h1; cases h1
    | emit j' h1 h2 => exact h2
    | unlock h1 => rw [ho] at h1; cases h1
  · intro h
    exact ⟨_, OpStep.emit j ho h⟩

/-- **A store operation never waits for a listener** (the source's queue: unbounded).  In every reachable state of the composition
    — any number `k` of events, any listener behaviour (calling back into the store on the same bucket any number of times per
    event, never returning, …), with or without another operation queued on the bucket — an operation that holds the lock has its
    next step enabled: Emit while events are left, then Unlock.  No step of the listener is ever needed.  (True of every state, reachable
    or not: with the unbounded queue the operation's steps have no premise about anyone else.) -/
theorem store_op_never_waits_for_listener (s : EmitLock.St) (j : Nat) (ho : s.op = .emitting j) :
    ∃ t, OpStep .unbounded beh s t := by
  cases j with
  | zero => exact ⟨_, OpStep.unlock ho⟩
  | succ j => exact ⟨_, OpStep.emit j ho rfl⟩

private theorem op_run_aux : ∀ (j : Nat) (s : EmitLock.St), s.op = .emitting j →
    ∃ u, OpRun .unbounded beh (j + 1) s u ∧ u.op = .returned ∧ u.lock = .free ∧ u.next = s.next + j ∧
      u.b.done = s.b.done ∧ u.b.running = s.b.running ∧ u.b.started = s.b.started ∧ u.lisTodo = s.lisTodo ∧ u.nb = s.nb ∧
      u.b.pending = s.b.pending ++ List.range' s.next j
  | 0, s, ho => ⟨_, OpRun.succ (OpStep.unlock ho) (OpRun.zero _), rfl, rfl, rfl, rfl, rfl, rfl, rfl, rfl, by simp⟩
  | j + 1, s, ho => by
    obtain ⟨u, hr, h1, h2, h3, h4, h5, h6, h7, h8, h9⟩ := op_run_aux j
      { s with op := .emitting j, next := s.next + 1,
               b := { s.b with emitted := s.b.emitted ++ [s.next], pending := s.b.pending ++ [s.next] } } rfl
    refine ⟨u, OpRun.succ (OpStep.emit j ho rfl) hr, h1, h2, ?_, h4, h5, h6, h7, h8, ?_⟩
    · rw [h3]; simp only; omega
    · rw [h9]; simp [List.range'_succ]

/-- **… and returns after `left + 1` steps of its own.**  From any state in which the operation holds the lock with `j` events to
    go there is a run of exactly `j + 1` steps, ALL of them the operation's, to `returned` with the lock free: the listener has not
    moved (same call in progress, same calls finished), the `j` events are queued behind what was queued. -/
theorem op_returns_in_own_steps (s : EmitLock.St) (j : Nat) (ho : s.op = .emitting j) :
    ∃ u, OpRun .unbounded beh (j + 1) s u ∧ u.op = .returned ∧ u.lock = .free ∧
      u.b.done = s.b.done ∧ u.b.running = s.b.running ∧ u.b.pending = s.b.pending ++ List.range' s.next j := by
  obtain ⟨u, hr, h1, h2, _, h4, h5, _, _, _, h9⟩ := op_run_aux (beh := beh) j s ho
  exact ⟨u, hr, h1, h2, h4, h5, h9⟩

/-- **Who holds the lock never waits** (unbounded queue): whoever holds the bucket lock in a reachable state — the emitting
    operation, a listener inside a store call, the neighbour — can take its next step now.  Hence whoever waits for the lock waits
    for someone who is not waiting. -/
theorem lock_holder_never_waits (hnb : nb ≠ .inside) {s : EmitLock.St} (h : EmitLock.Reach .unbounded beh k nb s) (hl : s.lock ≠ .free) :
    ∃ t, EmitLock.Step .unbounded beh s t ∧ (s.lock = .op → t.op ≠ s.op) ∧ (s.lock ≠ .op → t.lock = .free) := by
  have inv := inv_reach hnb h
  cases hlk : s.lock with
  | free => exact absurd hlk hl
  | op =>
    obtain ⟨j, hj⟩ := inv.opHolds.1 hlk
    obtain ⟨t, ht⟩ := store_op_never_waits_for_listener (beh := beh) s j hj
    refine ⟨t, ht.toStep, fun _ => ?_, fun hne => absurd rfl hne⟩
    cases ht with
    | lock k' h1 => rw [hj] at h1; cases h1
    | emit j' h1 => rw [h1]; simp
    | unlock h1 => rw [h1]; simp
  | lis => exact ⟨_, EmitLock.Step.lisUnlock s hlk, fun h => (by cases h), fun _ => rfl⟩
  | nb => exact ⟨_, EmitLock.Step.nbUnlock s (inv.nbHolds.1 hlk), fun h => (by cases h), fun _ => rfl⟩

/-- nothing is left to do, or only a listener that never returns is left -/
def Final (beh : Beh) (s : EmitLock.St) : Prop :=
  s.op = .returned ∧ (s.nb = .done ∨ s.nb = .absent) ∧ s.lock = .free ∧
  ((s.b.pending = [] ∧ s.b.running = []) ∨ ∃ e, s.b.running = [e] ∧ s.lisTodo = 0 ∧ beh.stuck e = true)

/-- **No deadlock** (unbounded queue): every reachable state of the composition that is not final has an enabled step — for every
    `k`, every listener behaviour, every interleaving.  In a final state the operation and the neighbour have returned. -/
theorem deadlock_free (hnb : nb ≠ .inside) {s : EmitLock.St} (h : EmitLock.Reach .unbounded beh k nb s) :
    Final beh s ∨ ∃ t, EmitLock.Step .unbounded beh s t := by
  have inv := inv_reach hnb h
  by_cases hl : s.lock = .free
  · cases ho : s.op with
    | waiting k' => exact Or.inr ⟨_, EmitLock.Step.opLock s k' ho hl⟩
    | emitting j => have := inv.opHolds.2 ⟨j, ho⟩; rw [hl] at this; cases this
    | returned =>
      cases hn : s.nb with
      | waiting => exact Or.inr ⟨_, EmitLock.Step.nbLock s hn hl⟩
      | inside => have := inv.nbHolds.2 hn; rw [hl] at this; cases this
      | done | absent =>
        all_goals
          match hr : s.b.running with
          | [] =>
            match hp : s.b.pending with
            | [] => exact Or.inl ⟨ho, by simp [hn], hl, Or.inl ⟨hp, hr⟩⟩
            | e :: q => exact Or.inr ⟨_, EmitLock.Step.lisStart s e q hp hr⟩
          | [e] =>
            match ht : s.lisTodo with
            | 0 =>
              by_cases hs : beh.stuck e = true
              · exact Or.inl ⟨ho, by simp [hn], hl, Or.inr ⟨e, hr, ht, hs⟩⟩
              · exact Or.inr ⟨_, EmitLock.Step.lisFinish s e hr ht (by simpa using hs)⟩
            | j + 1 => exact Or.inr ⟨_, EmitLock.Step.lisLock s e j hr ht hl⟩
          | _ :: _ :: _ => have := inv.serial; rw [hr] at this; simp at this
  · obtain ⟨t, ht, _⟩ := lock_holder_never_waits hnb h hl
    exact Or.inr ⟨t, ht⟩

/-- **Every schedule is finite** (either queue variant): each step of the composition lowers an explicit measure by exactly one
    (`2 + k + Σ (2·calls e + 2)` at the start), so no interleaving goes on for ever; together with `deadlock_free` every maximal
    run of the unbounded variant ends in a `Final` state: the operation HAS returned, on every schedule, without any fairness
    assumption. -/
theorem every_step_lowers_the_measure {v : QueueVar} (hnb : nb ≠ .inside) {s t : EmitLock.St} (h : EmitLock.Reach v beh k nb s)
    (st : EmitLock.Step v beh s t) : measure beh t + 1 = measure beh s :=
  measure_step (inv_reach hnb h) st

/-- … hence no schedule from a reachable state is longer than the measure of that state: from the start at most
    `measure (St.init k nb)` steps happen, whatever the scheduler does. -/
theorem every_schedule_is_finite {v : QueueVar} (hnb : nb ≠ .inside) {s u : EmitLock.St} {n : Nat} (h : EmitLock.Reach v beh k nb s)
    (hr : Sched v beh n s u) : n + measure beh u = measure beh s := by
  induction hr with
  | zero s => simp
  | succ st _ ih =>
    have h1 := measure_step (inv_reach hnb h) st
    have h2 := ih (EmitLock.Reach.step h st)
    omega

/-- **The listener sees every event exactly once, in order.**  In a reachable quiescent state (operation returned, queue drained,
    listener idle) the calls the listener has finished are exactly the events 0 … k-1, in emission order. -/
theorem quiescent_listener_saw_every_event_once {v : QueueVar} (hnb : nb ≠ .inside) {s : EmitLock.St} (h : EmitLock.Reach v beh k nb s)
    (hq : Quiescent s) : s.b.done = List.range k := by
  have inv := inv_reach hnb h
  obtain ⟨ho, _, hp, hr⟩ := hq
  have hb := C16Broker.no_event_lost (broker_component_reachable hnb h) inv.reg
  have hph := inv.phase
  rw [ho] at hph
  simp only at hph
  rw [hp, hr] at hb
  simp at hb
  rw [hb, inv.emitted, hph]

/-! ### counter-witness: a bounded queue whose `push` waits -/

private theorem reach_emits {n : Nat} : ∀ (j : Nat) (s : EmitLock.St) (m : Nat), EmitLock.Reach (.bounded n) beh k nb s →
    s.op = .emitting (m + j) → s.b.pending.length + j ≤ n →
    ∃ u, EmitLock.Reach (.bounded n) beh k nb u ∧ u.op = .emitting m ∧ u.lock = s.lock ∧ u.b.pending.length = s.b.pending.length + j ∧
      u.b.running = s.b.running ∧ u.lisTodo = s.lisTodo ∧ u.nb = s.nb ∧ u.b.done = s.b.done
  | 0, s, m, h, ho, _ => ⟨s, h, ho, rfl, rfl, rfl, rfl, rfl, rfl⟩
  | j + 1, s, m, h, ho, hlen => by
    have hc : (QueueVar.bounded n).canPush s.b.pending = true := by simp [QueueVar.canPush]; omega
    have st := EmitLock.Step.opEmit (v := .bounded n) (beh := beh) s (m + j) ho hc
    obtain ⟨u, hu, h1, h2, h3, h4, h5, h6, h7⟩ := reach_emits j _ m (EmitLock.Reach.step h st) rfl (by simp; omega)
    refine ⟨u, hu, h1, h2, ?_, h4, h5, h6, h7⟩
    rw [h3]; simp; omega

/-- **Counter-witness: `push` waits while `n` calls are queued.**  For every bound `n ≥ 1`, every `k > n + 1` and every listener
    that makes at least one store call on the bucket when it is called with the first event: the schedule "lock; emit; the worker
    pops and calls the listener; emit `n` more" is reachable and ends in a state in which NOTHING can move — the operation holds
    the lock and waits in Emit for room in the queue, the worker waits for the listener to return, the listener waits for the
    lock, the neighbour (any other operation on any mailbox of the bucket) waits for the lock.  Not final: `k - n - 1 > 0` events
    are unannounced, the operation has not returned. -/
theorem bounded_queue_deadlocks (n : Nat) (hn : 1 ≤ n) (hk : n + 1 < k) (hb : 1 ≤ beh.calls 0) (hnb : nb = .waiting ∨ nb = .absent) :
    ∃ s, EmitLock.Reach (.bounded n) beh k nb s ∧ Stuck (.bounded n) beh s ∧
      s.lock = .op ∧ s.op = .emitting (k - n - 1) ∧ s.b.running = [0] ∧ s.b.done = [] ∧ s.nb = nb ∧ ¬ Final beh s := by
  -- lock
  have r0 : EmitLock.Reach (.bounded n) beh k nb (EmitLock.St.init k nb) := EmitLock.Reach.init
  have r1 := EmitLock.Reach.step r0 (EmitLock.Step.opLock _ k rfl rfl)
  -- first emit
  obtain ⟨k', hk'⟩ : ∃ k', k = (k' + n) + 1 := ⟨k - n - 1, by omega⟩
  have r2 := EmitLock.Reach.step r1 (EmitLock.Step.opEmit (v := .bounded n) _ (k' + n) (by simp [hk']) (by
    exact decide_eq_true (by simp [EmitLock.St.init, Broker.St.init]; omega)))
  -- the worker pops it and calls the listener
  have r3 := EmitLock.Reach.step r2 (EmitLock.Step.lisStart _ 0 [] (by simp [EmitLock.St.init, Broker.St.init]) (by
    simp [EmitLock.St.init, Broker.St.init]))
  -- n more emits fill the queue
  obtain ⟨u, hu, h1, h2, h3, h4, h5, h6, h7⟩ := reach_emits n _ k' r3 rfl (by simp)
  simp only [List.length_nil, Nat.zero_add] at h3
  have hk'' : k - n - 1 = k' := by omega
  have hpos : 0 < k' := by omega
  refine ⟨u, hu, ?_, h2, by rw [h1, hk''], h4, h7, h6, ?_⟩
  · intro t st
    cases st with
    | opLock k0 ho hl => rw [h1] at ho; cases ho
    | opEmit j ho hc => simp [QueueVar.canPush, h3] at hc
    | opUnlock ho => rw [h1] at ho; cases ho; omega
    | lisStart e q hp hr => rw [h4] at hr; cases hr
    | lisLock e j hr ht hl => rw [h2] at hl; cases hl
    | lisUnlock hl => rw [h2] at hl; cases hl
    | lisFinish e hr ht hs => rw [h5] at ht; simp only at ht; omega
    | nbLock hn' hl => rw [h2] at hl; cases hl
    | nbUnlock hn' => rw [h6] at hn'; rcases hnb with h | h <;> rw [h] at hn' <;> cases hn'
  · rintro ⟨ho, _⟩
    rw [h1] at ho; cases ho

/-! ### non-vacuity of (b) -/

/-- a listener that reads the store (same bucket) once per event and returns -/
def readsStore : Beh := { calls := fun _ => 1, stuck := fun _ => false }

/-- the seeded scenario as an instance: queue bound 100, a purge of 150 messages, a listener that reads the store, another
    operation waiting on the bucket — a reachable state in which nothing moves, 49 events unannounced, the neighbour still waiting -/
example : ∃ s, EmitLock.Reach (.bounded 100) readsStore 150 .waiting s ∧ Stuck (.bounded 100) readsStore s ∧
    s.op = .emitting 49 ∧ s.nb = .waiting := by
  obtain ⟨s, h1, h2, _, h4, _, _, h7, _⟩ :=
    bounded_queue_deadlocks (beh := readsStore) (k := 150) (nb := .waiting) 100 (by omega) (by omega) (by simp [readsStore]) (Or.inl rfl)
  exact ⟨s, h1, h2, h4, h7⟩

/-- the same listener on the source's queue, one event: the schedule in which the listener is called WHILE the operation still holds
    the lock (it waits), the operation unlocks and returns, the listener reads and returns — reachable, quiescent, event 0 seen once -/
example : ∃ s, EmitLock.Reach .unbounded readsStore 1 .absent s ∧ Quiescent s ∧ s.b.done = [0] := by
  have r0 : EmitLock.Reach .unbounded readsStore 1 .absent (EmitLock.St.init 1 .absent) := EmitLock.Reach.init
  have r1 := EmitLock.Reach.step r0 (EmitLock.Step.opLock _ 1 rfl rfl)
  have r2 := EmitLock.Reach.step r1 (EmitLock.Step.opEmit _ 0 rfl rfl)
  have r3 := EmitLock.Reach.step r2 (EmitLock.Step.lisStart _ 0 [] rfl rfl)
  have r4 := EmitLock.Reach.step r3 (EmitLock.Step.opUnlock _ rfl)
  have r5 := EmitLock.Reach.step r4 (EmitLock.Step.lisLock _ 0 0 rfl rfl rfl)
  have r6 := EmitLock.Reach.step r5 (EmitLock.Step.lisUnlock _ rfl)
  have r7 := EmitLock.Reach.step r6 (EmitLock.Step.lisFinish _ 0 rfl rfl rfl)
  exact ⟨_, r7, ⟨rfl, Or.inr rfl, rfl, rfl⟩, rfl⟩

/-- … and in the state after `lisStart` of that schedule the operation holds the lock with the listener already waiting for it:
    the hypotheses of `lock_holder_never_waits` / `op_returns_in_own_steps` are met with a listener that needs the lock -/
example : ∃ s, EmitLock.Reach .unbounded readsStore 1 .absent s ∧ s.lock = .op ∧ s.op = .emitting 0 ∧ s.b.running = [0] ∧ s.lisTodo = 1 := by
  have r0 : EmitLock.Reach .unbounded readsStore 1 .absent (EmitLock.St.init 1 .absent) := EmitLock.Reach.init
  have r1 := EmitLock.Reach.step r0 (EmitLock.Step.opLock _ 1 rfl rfl)
  have r2 := EmitLock.Reach.step r1 (EmitLock.Step.opEmit _ 0 rfl rfl)
  have r3 := EmitLock.Reach.step r2 (EmitLock.Step.lisStart _ 0 [] rfl rfl)
  exact ⟨_, r3, rfl, rfl, rfl, rfl⟩

/-- the measure at the start: 2 + k + Σ (2·calls e + 2) — for the instance above 2 + 1 + 4 = 7 steps, which is the length of the
    schedule just given -/
example : measure readsStore (EmitLock.St.init 1 .absent) = 7 := by decide

end EmitUnderLock

end Ibx.Props.C09Wedge
