import Ibx.Lemmas.SmtpEnd
import Ibx.Props.C03
/-
  C03 (extension) — the ways an SMTP connection can end other than QUIT and EOF: the read deadline
  (`config.SMTP.Timeout`) expires, the read fails with another network error, the client stalls in the middle of a
  line and goes on later, a reply cannot be written.  Whatever way the connection ends, the store receives exactly
  the copies of the COMPLETED data phases — a transaction that was never completed adds nothing — and the last
  reply is exactly the one handler.go sends.  For ALL environments, byte strings, send budgets and end kinds.
-/
namespace Ibx.Props.C03End
open Ibx Ibx.Bytes Ibx.Model Ibx.Model.Smtp
open Ibx.Lemmas.Smtp Ibx.Lemmas.SmtpLoop Ibx.Lemmas.SmtpIO Ibx.Lemmas.SmtpEx Ibx.Lemmas.SmtpEnd

/-! ### the end kind changes nothing but the last reply -/

/-- `runEnd … .eof` is `run` (every existing theorem about `run` is a theorem about the EOF end) -/
theorem eof_is_run (e : Env) (b : Option Nat) (w : Bytes) :
    (runEnd e b w .eof).evs = (run e b w).1 ∧ (runEnd e b w .eof).sess = (run e b w).2.1 ∧
    (runEnd e b w .eof).how = (run e b w).2.2 ∧ (runEnd e b w .eof).bye = none := by
  have h : byeOf .eof (run e b w).2.2 = none := by cases (run e b w).2.2 <;> rfl
  simp [runEnd, h]

/-- For every end kind the events are those of `run`, followed by one 221 reply exactly when there is a last
    reply; the session state differs by that one send only (same protocol state, same envelope). -/
theorem end_kind_only_last_reply (e : Env) (b : Option Nat) (w : Bytes) (k : ReadEnd) :
    (runEnd e b w k).how = (run e b w).2.2 ∧
    (((runEnd e b w k).bye = none ∧ (runEnd e b w k).evs = (run e b w).1 ∧ (runEnd e b w k).sess = (run e b w).2.1) ∨
     ((runEnd e b w k).bye = byeOf k (run e b w).2.2 ∧ (runEnd e b w k).bye ≠ none ∧
      (runEnd e b w k).evs = (run e b w).1 ++ [.reply [221]] ∧ (runEnd e b w k).sess = send (run e b w).2.1 1)) := by
  cases h : byeOf k (run e b w).2.2 <;> simp [runEnd, h]

example : (runEnd exEnv none (dlg1.take 30) .timeout).evs = (run exEnv none (dlg1.take 30)).1 ++ [.reply [221]] := by decide

/-! ### whatever way the connection ends, only completed transactions are stored -/

/-- The stored copies of a connection that ends by EOF, by the idle timeout or by a network error — at any byte,
    in any state, under any send budget — are exactly the copies of its completed data phases, in order. -/
theorem ended_any_way_stores_only_completed (e : Env) (b : Option Nat) (w : Bytes) (k : ReadEnd) :
    storedOf (runEnd e b w k).evs = (runPhases e b w).flatMap (fun ph => storedOf ph.evs) := by
  rw [← run_stored]
  rcases (end_kind_only_last_reply e b w k).2 with ⟨_, h, _⟩ | ⟨_, _, h, _⟩ <;> rw [h]
  simp [storedOf]

/-- … so the end kind does not matter for the store at all -/
theorem ended_any_way_same_store (e : Env) (b : Option Nat) (w : Bytes) (k1 k2 : ReadEnd) :
    storedOf (runEnd e b w k1).evs = storedOf (runEnd e b w k2).evs := by
  rw [ended_any_way_stores_only_completed, ended_any_way_stores_only_completed]

/-- each stored copy of a connection that ended in any way is the trace headers followed by a COMPLETE decoded dot
    block that occurs in the input: no partial message, no phantom -/
theorem ended_any_way_no_partial (e : Env) (b : Option Nat) (w : Bytes) (k : ReadEnd) :
    ∀ x ∈ storedOf (runEnd e b w k).evs, ∃ ph ∈ runPhases e b w,
      x.source = traceHeaders e ph.sess x.mailbox ++ ph.block ∧
      ∃ suf rest, suf <:+ w ∧ Dot.dotDecode suf = some (ph.block, rest) := by
  intro x hx
  rw [ended_any_way_stores_only_completed, List.mem_flatMap] at hx
  obtain ⟨ph, hph, hx⟩ := hx
  obtain ⟨hsuf, _, hsrc⟩ := Ibx.Props.C03.phases_complete e b w ph hph
  exact ⟨ph, hph, hsrc x hx, hsuf⟩

/-- a connection without a completed data phase — refused, reset, abandoned, timed out inside DATA — stores nothing -/
theorem uncompleted_stores_nothing (e : Env) (b : Option Nat) (w : Bytes) (k : ReadEnd)
    (h : runPhases e b w = []) : storedOf (runEnd e b w k).evs = [] := by
  rw [ended_any_way_stores_only_completed, h]; rfl

/-- a connection that ends in any way after the bytes `p` has stored a prefix of what the same client would have
    stored by going on with any `q`: everything completed so far, nothing of what was still open -/
theorem cut_any_way_is_prefix (e : Env) (p q : Bytes) (k : ReadEnd) :
    storedOf (runEnd e none p k).evs <+: storedOf (run e none (p ++ q)).1 := by
  rw [ended_any_way_stores_only_completed, ← run_stored]
  exact (Ibx.Props.C03.cut_anywhere e p q).2

/-- timeout inside the data (50 of 55 bytes): nothing stored, `354` then `221 Idle timeout` -/
example : storedOf (runEnd exEnv none (dlg1.take 50) .timeout).evs = [] ∧
    (runEnd exEnv none (dlg1.take 50) .timeout).how = .dataCut ∧
    (runEnd exEnv none (dlg1.take 50) .timeout).bye = some .idle := by decide
/-- timeout / error after the terminator: stored once, whatever the end -/
example : (storedOf (runEnd exEnv none dlg1 .timeout).evs).length = 1 ∧
    (storedOf (runEnd exEnv none dlg1 .neterr).evs).length = 1 := by decide
example : runPhases exEnv none (dlg1.take 50) = [] := by decide

/-! ### the last reply, exactly -/

/-- the two texts of handler.go (pinned against the source by Ibx.Tie.Ends) -/
theorem bye_texts : byeText .idle = ofAscii "221 Idle timeout, bye bye" ∧
    byeText .connErr = (ofAscii "221 Connection error, s" ++ ofAscii "orry") := ⟨rfl, rfl⟩

/-- Idle timeout: while the loop was still reading — a command (outcome `eof`) or a data block (`dataCut`) — the
    last reply is "221 Idle timeout, bye bye"; a session that had already ended (QUIT, send error) says nothing
    more.  There is no other case. -/
theorem timeout_reply_exact (e : Env) (b : Option Nat) (w : Bytes) :
    (((run e b w).2.2 = .eof ∨ (run e b w).2.2 = .dataCut) ∧ (runEnd e b w .timeout).bye = some .idle) ∨
    (((run e b w).2.2 = .quit ∨ (run e b w).2.2 = .sendError) ∧ (runEnd e b w .timeout).bye = none ∧
      (runEnd e b w .timeout).evs = (run e b w).1) := by
  rcases run_outcomes e b w with h | h | h | h <;> simp [runEnd, h, byeOf]

/-- Other network error: "221 Connection error, sorry" in command mode, NOTHING in the data phase (the block is
    dropped silently), nothing after QUIT / a send error. -/
theorem neterr_reply_exact (e : Env) (b : Option Nat) (w : Bytes) :
    ((run e b w).2.2 = .eof ∧ (runEnd e b w .neterr).bye = some .connErr) ∨
    (((run e b w).2.2 = .dataCut ∨ (run e b w).2.2 = .quit ∨ (run e b w).2.2 = .sendError) ∧
      (runEnd e b w .neterr).bye = none ∧ (runEnd e b w .neterr).evs = (run e b w).1) := by
  rcases run_outcomes e b w with h | h | h | h <;> simp [runEnd, h, byeOf]

/-- EOF: never a last reply -/
theorem eof_no_reply (e : Env) (b : Option Nat) (w : Bytes) : (runEnd e b w .eof).bye = none :=
  (eof_is_run e b w).2.2.2

/-- a read failure inside the data phase: the last thing sent before the (possible) 221 is the 354, the session is
    in state QUIT, and the unfinished block contributes no event at all -/
theorem data_phase_end_shape (e : Env) (b : Option Nat) (w : Bytes) (k : ReadEnd) (h : (runEnd e b w k).how = .dataCut) :
    (runEnd e b w k).sess.st = .quit ∧
    ∃ pre, (run e b w).1 = pre ++ [.reply [354]] ∧
      ((runEnd e b w k).evs = pre ++ [.reply [354]] ∨ (runEnd e b w k).evs = pre ++ [.reply [354], .reply [221]]) := by
  obtain ⟨hh, hcase⟩ := end_kind_only_last_reply e b w k
  rw [hh] at h
  obtain ⟨hq, pre, hpre⟩ := (run_end_shape e b w).2.1 h
  rcases hcase with ⟨_, he, hs⟩ | ⟨_, _, he, hs⟩
  · exact ⟨by rw [hs]; exact hq, pre, hpre, .inl (by rw [he, hpre])⟩
  · exact ⟨by rw [hs]; simpa using hq, pre, hpre, .inr (by rw [he, hpre]; simp)⟩

/-- a read failure in command mode leaves the protocol state as it was (an open transaction stays open — and is
    thereby lost: nothing of it is in the store, by `ended_any_way_stores_only_completed`) -/
theorem command_mode_end_shape (e : Env) (b : Option Nat) (w : Bytes) (k : ReadEnd) (h : (runEnd e b w k).how = .eof) :
    (runEnd e b w k).sess.st = (run e b w).2.1.st ∧ (runEnd e b w k).sess.st ≠ .quit ∧ (runEnd e b w k).sess.st ≠ .data ∧
    (runEnd e b w k).sess.rcpts = (run e b w).2.1.rcpts := by
  obtain ⟨hh, hcase⟩ := end_kind_only_last_reply e b w k
  rw [hh] at h
  obtain ⟨h1, h2, _⟩ := (run_end_shape e b w).1 h
  rcases hcase with ⟨_, _, hs⟩ | ⟨_, _, _, hs⟩ <;> rw [hs] <;> simp [h1, h2]

example : (runEnd exEnv none (dlg1.take 30) .timeout).bye = some .idle ∧
    (runEnd exEnv none (dlg1.take 30) .neterr).bye = some .connErr ∧
    (runEnd exEnv none (dlg1.take 30) .eof).bye = none := by decide
/-- network error inside the data: silence -/
example : (runEnd exEnv none (dlg1.take 50) .neterr).bye = none ∧
    (runEnd exEnv none (dlg1.take 50) .neterr).how = .dataCut := by decide
/-- after QUIT nothing more is said -/
example : (runEnd exEnv none dlg2 .timeout).bye = none ∧ (runEnd exEnv none dlg2 .timeout).how = .quit := by decide
/-- an open transaction (MAIL + RCPT accepted) at the timeout: state MAIL kept, nothing stored -/
example : (runEnd exEnv none (dlg1.take 41) .timeout).sess.st = .mail ∧
    storedOf (runEnd exEnv none (dlg1.take 41) .timeout).evs = [] := by decide

/-! ### a client that stalls in the middle and goes on -/

/-- A stall is the end of the session unless an unterminated command line is pending in command mode. -/
theorem stall_ends_session (e : Env) (b : Option Nat) (p q : Bytes) (k : ReadEnd)
    (h : pendingPartial p = false ∨ (run e b (completeLines p)).2.2 ≠ .eof) :
    runStall e b p q k = runEnd e b p .timeout := by
  unfold runStall
  rcases h with h | h
  · simp [h]
  · have : ((run e b (completeLines p)).2.2 == End.eof) = false := by simpa using h
    simp [this]

/-- With a pending unterminated line in command mode the stall only terminates that line. -/
theorem stall_flushes_pending_line (e : Env) (b : Option Nat) (p q : Bytes) (k : ReadEnd)
    (h1 : (run e b (completeLines p)).2.2 = .eof) (h2 : pendingPartial p = true) :
    runStall e b p q k = runEnd e b (p ++ 10 :: q) k := by
  simp [runStall, h1, h2]

/-- A stall inside a data block ends the session with "221 Idle timeout, bye bye"; the block is lost whole. -/
theorem stall_in_data_ends (e : Env) (b : Option Nat) (p q : Bytes) (k : ReadEnd) (h : (run e b p).2.2 = .dataCut)
    (h2 : pendingPartial p = false ∨ (run e b (completeLines p)).2.2 = .dataCut) :
    runStall e b p q k = runEnd e b p .timeout ∧ (runStall e b p q k).bye = some .idle := by
  have h1 := stall_ends_session e b p q k (h2.imp id (fun h => by simp [h]))
  refine ⟨h1, ?_⟩
  rw [h1]
  rcases timeout_reply_exact e b p with ⟨_, hb⟩ | ⟨hc, _⟩
  · exact hb
  · rcases hc with hc | hc <;> simp [h] at hc

/-- Whatever a stalling client does afterwards, the store holds exactly the completed data phases of the byte stream
    the session saw (the stream up to the stall, or the stream with the pending line terminated), never less than
    what was completed before the stall and never more than the continued dialogue stores. -/
theorem stall_stores_only_completed (e : Env) (p q : Bytes) (k : ReadEnd) :
    (storedOf (runStall e none p q k).evs = (runPhases e none p).flatMap (fun ph => storedOf ph.evs) ∨
     storedOf (runStall e none p q k).evs = (runPhases e none (p ++ 10 :: q)).flatMap (fun ph => storedOf ph.evs)) ∧
    storedOf (run e none p).1 <+: storedOf (runStall e none p q k).evs ∧
    storedOf (runStall e none p q k).evs <+: storedOf (run e none (p ++ 10 :: q)).1 := by
  unfold runStall
  split
  · refine ⟨.inr (ended_any_way_stores_only_completed ..), ?_, ?_⟩
    · rw [ended_any_way_stores_only_completed, ← run_stored]
      exact (Ibx.Props.C03.cut_anywhere e p (10 :: q)).2
    · rw [ended_any_way_stores_only_completed, ← run_stored]
      exact List.prefix_refl _
  · refine ⟨.inl (ended_any_way_stores_only_completed ..), ?_, ?_⟩
    · rw [ended_any_way_stores_only_completed, ← run_stored]
      exact List.prefix_refl _
    · exact cut_any_way_is_prefix e p (10 :: q) .timeout

/-- "DATA" without line end, a stall, then the block: the stall makes DATA a command, the message is stored -/
example : (storedOf (runStall exEnv none (dlg1.take 45) (dlg1.drop 47) .eof).evs).length = 1 := by decide
/-- stall after a complete line: the session is over, the rest is never read -/
example : (runStall exEnv none (dlg1.take 47) (dlg1.drop 47) .eof).bye = some .idle ∧
    storedOf (runStall exEnv none (dlg1.take 47) (dlg1.drop 47) .eof).evs = [] := by decide
example : pendingPartial (dlg1.take 45) = true ∧ pendingPartial (dlg1.take 47) = false ∧
    completeLines (dlg1.take 45) = dlg1.take 41 := by decide
/-- stall inside the data, at a line boundary and inside a line: the session ends, nothing stored -/
example : (runStall exEnv none (dlg1.take 51) (dlg1.drop 51) .eof).bye = some .idle ∧
    (runStall exEnv none (dlg1.take 49) (dlg1.drop 49) .eof).bye = some .idle ∧
    storedOf (runStall exEnv none (dlg1.take 49) (dlg1.drop 49) .eof).evs = [] := by decide

/-! ### write errors -/

/-- What a data phase does — the copies stored, the order, the final reply attempted — does not depend on whether
    the replies can be written: the 354 and the 250 may both fail, `Deliver` runs all the same.  In particular a
    message whose `250` never reached the client IS stored (the client will re-send: a duplicate, not a loss). -/
theorem write_error_does_not_undo_delivery (e : Env) (s : Sess) (block : Bytes) :
    (handleData e s block []).2 = (handleData e (erase s) block []).2 := by
  have := handleData_erase e s block []
  rw [this]

/-- after a send error the loop ends at its next head without a last reply, whatever the read would have done -/
theorem send_error_ends_silently (e : Env) (b : Option Nat) (w : Bytes) (k : ReadEnd)
    (h : (run e b w).2.2 = .sendError) : (runEnd e b w k).bye = none ∧ (runEnd e b w k).evs = (run e b w).1 := by
  cases k <;> simp [runEnd, h, byeOf]

/-- budget 5 = greeting, HELO, MAIL, RCPT, 354: the final 250 cannot be written, the copy is there -/
example : (storedOf (runEnd exEnv (some 5) dlg1 .timeout).evs).length = 1 ∧
    (runEnd exEnv (some 5) dlg1 .timeout).how = .sendError ∧ (runEnd exEnv (some 5) dlg1 .timeout).bye = none := by decide

end Ibx.Props.C03End
