import Ibx.Lemmas.FileRefine
/-
  C07 (file half) — the file store behaves as the ordered-mailbox model under any history.
  The file model (Ibx/Model/FileStore.lean: index + raw files per mailbox directory, cap loop BEFORE the add,
  index replaced atomically, directory removed when the last message goes) refines Ibx/Spec/Store.lean run with
  the byte limit disabled.  Only property theorems, their non-vacuity examples and counter-witnesses live here;
  the proofs are in Ibx/Lemmas/FileRefine.lean.
-/
namespace Ibx.Props.C07File
open Ibx Ibx.Spec.Store Ibx.Lemmas.FileRefine
open Ibx.Model.FileStore (FS FEnt Dir readIndex rawOf toMsg capLoop)

abbrev FSempty : FS := Ibx.Model.FileStore.empty
abbrev Sempty : Store := Ibx.Spec.Store.empty
/-- the spec configuration the file store is compared with: same cap, no byte limit -/
abbrev noLimit (c : Cfg) : Cfg := { c with limit := 0 }

/-! ### a concrete history used by the non-vacuity examples -/

def hA : Meta := { sender := [97], rcpts := [[98]], subject := [99], date := 7 }
def boxA : Bytes := [97, 64, 98]
def boxB : Bytes := []
/-- deliver three to A (cap 2: the third evicts the first), one to the empty name, mark, remove -/
def hist6 : List Op :=
  [.add boxA hA [1, 2, 3], .add boxA hA [4], .add boxB hA [], .add boxA hA [5, 6], .seen boxA 2, .remove boxA 3]
def cap2 : Cfg := { cap := 2, limit := 0 }

/-- **file_refines_step.** In a state related by `RF`, every operation of the file model gives the answer of the
    spec (the mailbox walk: the same non-empty mailboxes, in directory order instead of arrival order), emits the
    same `deleted` events in the same order, and leads to related states again — for every cap, every mailbox name,
    every metadata and body. -/
theorem file_refines_step (c : Cfg) (f : FS) (s : Store) (h : RF f s) (op : Op) :
    OutEq (fstep c f op).2.1 (sstep (noLimit c) s op).2.1 ∧
    (fstep c f op).2.2 = (sstep (noLimit c) s op).2.2 ∧
    RF (fstep c f op).1 (sstep (noLimit c) s op).1 :=
  Lemmas.FileRefine.file_refines_step c h op

/-- **file_refines_run.** From the empty directory tree, every history of operations is answered exactly as the
    spec answers it (induction over the history), and the final states are related. -/
theorem file_refines_run (c : Cfg) (ops : List Op) :
    OutsEq (frun c FSempty ops).2 (Spec.Store.run (noLimit c) Sempty ops).2 ∧
    RF (frun c FSempty ops).1 (Spec.Store.run (noLimit c) Sempty ops).1 :=
  Lemmas.FileRefine.file_refines_run c ops RF_empty

/-- the relation is inhabited by the empty store and by a state with messages, an eviction and a removal behind it -/
example : RF FSempty Sempty := RF_empty
example : RF (frun cap2 FSempty hist6).1 (Spec.Store.run cap2 Sempty hist6).1 := (file_refines_run cap2 hist6).2
example : (frun cap2 FSempty hist6).2.map (·.2) = [[], [], [], [(boxA, 1)], [], [(boxA, 3)]] := by decide
example : (fstep cap2 (frun cap2 FSempty hist6).1 (.list boxA)).2.1 =
    .msgs [{ box := boxA, id := 2, hdr := hA, seen := true, source := [4] }] := by decide

/-- **backends_equivalent_file.** What the file store answers is a function of the abstract state only: two file
    systems related to the same spec state give the same answers to every history (walks up to mailbox order), emit
    the same events, and end related to one common spec state. -/
theorem backends_equivalent_file (c : Cfg) (f f' : FS) (s : Store) (h : RF f s) (h' : RF f' s) (ops : List Op) :
    OutsEq (frun c f ops).2 (frun c f' ops).2 ∧
    ∃ s', RF (frun c f ops).1 s' ∧ RF (frun c f' ops).1 s' := by
  obtain ⟨o1, r1⟩ := Lemmas.FileRefine.file_refines_run c ops h
  obtain ⟨o2, r2⟩ := Lemmas.FileRefine.file_refines_run c ops h'
  exact ⟨o1.trans o2.symm, _, r1, r2⟩

/-- answers other than a mailbox walk are literally equal -/
theorem answers_equal_unless_walk (c : Cfg) (f : FS) (s : Store) (h : RF f s) (op : Op)
    (hw : ∀ l, (sstep (noLimit c) s op).2.1 ≠ .boxes l) : (fstep c f op).2.1 = (sstep (noLimit c) s op).2.1 :=
  (file_refines_step c f s h op).1.eq_of_not_boxes hw

/-- **orphans_harmless.** A stray `<i>.raw` without an index entry (any id the generator has handed out) and a
    mailbox directory without an index file change no view: the file system with the orphan is related to the same
    spec state, and (by `backends_equivalent_file`) stays observationally equal under every history. -/
theorem orphans_harmless (c : Cfg) (f : FS) (s : Store) (h : RF f s) (b : Bytes) (i : Nat) (src : Bytes)
    (hi : i ≤ f.next b) (ops : List Op) :
    RF (addOrphanRaw f b i src) s ∧ RF (addOrphanDir f b) s ∧
    OutsEq (frun c f ops).2 (frun c (addOrphanRaw f b i src) ops).2 ∧
    OutsEq (frun c f ops).2 (frun c (addOrphanDir f b) ops).2 := by
  have h1 := orphan_raw_RF h b i src hi
  have h2 := orphan_dir_RF h b
  exact ⟨h1, h2, (backends_equivalent_file c f _ s h h1 ops).1, (backends_equivalent_file c f _ s h h2 ops).1⟩

/-- the orphan constructors really change the file system (an orphan of removed message 3, an index-less directory) -/
example : rawOf (addOrphanRaw (frun cap2 FSempty hist6).1 boxA 3 [9]) boxA 3 = some [9] ∧
    rawOf (frun cap2 FSempty hist6).1 boxA 3 = none := by decide
example : ((addOrphanDir (frun cap2 FSempty hist6).1 [120]).dirs [120]).isSome = true ∧
    ((frun cap2 FSempty hist6).1.dirs [120]).isSome = false := by decide

/-- **cap_loop_is_capEvict** (key lemma).  The file store evicts BEFORE it adds
    (`for len(messages) >= cap { removeMessage(messages[0]) }`, then append); the spec appends and then evicts.
    Both remove the oldest `n + 1 - cap` messages of the mailbox (n = messages held, when `cap > 0` and `n ≥ cap`),
    emit their events oldest first and keep everything else; with `cap = 1` the loop empties the mailbox (the
    directory is removed) and the add re-creates it. -/
theorem cap_loop_is_capEvict (c : Cfg) (hc : c.cap > 0) (f : FS) (s : Store) (h : RF f s) (b : Bytes) (m : Msg)
    (hm : m.box = b) (r : FS × List FEnt × List Ev) (k : Nat)
    (hr : r = capLoop c.cap b ((readIndex f b).length + 1) f (readIndex f b) [])
    (hk : k = evictCount c.cap (readIndex f b).length) :
    r.2.1 = (readIndex f b).drop k ∧ readIndex r.1 b = r.2.1 ∧
    r.2.2 = ((readIndex f b).take k).map (fun e => (b, e.id)) ∧
    r.2.2 = (capEvict c.cap b (s.msgs ++ [m])).2.map evOf ∧
    (∀ x, listing (dropBox s b k) x ++ (if x = b then [m] else []) = (capEvict c.cap b (s.msgs ++ [m])).1.filter (inBox x)) ∧
    RF r.1 (dropBox s b k) := by
  subst hr hk
  have hmb : inBox b m = true := by simp [inBox, hm]
  obtain ⟨i1, i2, i3, _, i5⟩ := capLoop_RF c.cap hc b ((readIndex f b).length + 1) f s (readIndex f b) [] h rfl (Nat.lt_succ_self _)
  obtain ⟨ce2, ce1⟩ := capEvict_append c.cap b s.msgs m hmb
  have hlen : (s.msgs.filter (inBox b)).length = (readIndex f b).length := by
    change (listing s b).length = _; rw [← h.view b, List.length_map]
  rw [hlen] at ce1 ce2
  refine ⟨i5, i2.symm, ?_, ?_, ?_, i1⟩
  · rw [i3, dropOldest_snd]
    simp only [List.reverse_nil, List.nil_append]
    change ((listing s b).take _).map evOf = _
    rw [← h.view b, ← List.map_take, List.map_map]; rfl
  · rw [i3, ce2]; rfl
  · intro x
    rw [ce1 x, List.filter_append]
    by_cases hx : x = b
    · subst hx; simp [hmb, listing, dropBox]
    · have : inBox x m = false := by simp only [inBox, beq_eq_false_iff_ne, hm]; exact fun e => hx e.symm
      simp [hx, this, listing, dropBox]

/-- instance of the key lemma with cap 1: the loop empties the mailbox, the directory goes, the add re-creates it -/
example : (capLoop 1 boxA 3 (frun cap2 FSempty hist6).1 (readIndex (frun cap2 FSempty hist6).1 boxA) []).2 = ([], [(boxA, 2)]) ∧
    ((capLoop 1 boxA 3 (frun cap2 FSempty hist6).1 (readIndex (frun cap2 FSempty hist6).1 boxA) []).1.dirs boxA).isSome = false ∧
    ((fstep { cap := 1, limit := 0 } (frun cap2 FSempty hist6).1 (.add boxA hA [7])).1.dirs boxA).isSome = true := by decide


/-- **file_missing_is_notExist.** Asking for, marking or removing an id the mailbox does not hold is answered
    `notExist` (never success, never a nil result), emits nothing and changes nothing. -/
theorem file_missing_is_notExist (c : Cfg) (f : FS) (b : Bytes) (i : Nat) (hno : ∀ e ∈ readIndex f b, e.id ≠ i) :
    fstep c f (.get b i) = (f, .notExist, []) ∧ fstep c f (.seen b i) = (f, .notExist, []) ∧
    fstep c f (.remove b i) = (f, .notExist, []) := by
  have h1 : (readIndex f b).find? (·.id == i) = none := by
    rw [List.find?_eq_none]; intro e he; simpa using hno e he
  have h2 : (readIndex f b).any (·.id == i) = false := by
    rw [any_eq_find, h1]; rfl
  refine ⟨?_, ?_, ?_⟩
  · simp only [fstep, Model.FileStore.step, h1]
  · simp only [fstep, Model.FileStore.step, h1]
  · simp only [fstep, Model.FileStore.step, removeEnt_eq, h2]; rfl

example : fstep cap2 (frun cap2 FSempty hist6).1 (.remove boxA 3) = ((frun cap2 FSempty hist6).1, .notExist, []) :=
  (file_missing_is_notExist cap2 _ boxA 3 (by decide)).2.2

/-- **file_add_reads_back.** A delivery returns an id larger than every id the mailbox holds, and asking for that id
    right afterwards returns the message with the metadata, unseen flag and content it was delivered with
    (`Msg.size` is the content length; the index entry's recorded size equals it by `RF.ok … rawOk`). -/
theorem file_add_reads_back (c : Cfg) (f : FS) (s : Store) (h : RF f s) (b : Bytes) (hdr : Meta) (src : Bytes) :
    (fstep c f (.add b hdr src)).2.1 = .id (f.next b + 1) ∧
    (∀ e ∈ readIndex f b, e.id < f.next b + 1) ∧
    (fstep c (fstep c f (.add b hdr src)).1 (.get b (f.next b + 1))).2.1 =
      .msg { box := b, id := f.next b + 1, hdr := hdr, seen := false, source := src } := by
  refine ⟨(fstep_add_id c f b hdr src).1, ?_, ?_⟩
  · intro e he
    have := (h.ok b).idsLe e (by rwa [← readIndex_eq])
    omega
  · obtain ⟨_, _, r2⟩ := Lemmas.FileRefine.file_refines_step c h (.add b hdr src)
    obtain ⟨o3, _, _⟩ := Lemmas.FileRefine.file_refines_step c r2 (.get b (f.next b + 1))
    have hl := add_listing c s b hdr src
    have hs : (sstep (noLimit c) (sstep (noLimit c) s (.add b hdr src)).1 (.get b (f.next b + 1))).2.1 = .msg (newMsg s b hdr src) := by
      have hfind : (sstep (noLimit c) s (.add b hdr src)).1.msgs.find? (isMsg b (f.next b + 1)) = some (newMsg s b hdr src) := by
        rw [spec_find, hl, List.find?_append]
        have : ((listing s b).drop (evictCount c.cap (listing s b).length)).find? (fun m => m.id == f.next b + 1) = none := by
          rw [List.find?_eq_none]
          intro m hm
          have := (RF_listing_le h b m (List.mem_of_mem_drop hm)).2
          rw [← h.next b] at this
          simp; omega
        rw [this]
        simp [newMsg, h.next b]
      simp only [sstep, Spec.Store.step] at hfind ⊢
      rw [hfind]
    rw [hs] at o3
    rw [o3.eq_of_not_boxes (by intro l hh; cases hh), newMsg, ← h.next b]

example : (fstep cap2 (fstep cap2 (frun cap2 FSempty hist6).1 (.add boxA hA [8, 8])).1 (.get boxA 4)).2.1 =
    .msg { box := boxA, id := 4, hdr := hA, seen := false, source := [8, 8] } := by decide

end Ibx.Props.C07File
