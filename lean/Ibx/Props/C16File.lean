import Ibx.Lemmas.ConcFileOpsSeq
import Ibx.Lemmas.ConcFileOpsCalls
import Ibx.Lemmas.ConcFileOpsStored
import Ibx.Model.FsCodec
/-
  C16 on the FILE store under concurrent use of ONE mailbox (pkg/storage/file/{fstore,mbox,fmessage}.go).

  Props/C16.lean proves the event accounting over sequential histories; the file store is made sequential per mailbox by
  the mailbox (bucket) lock.  This file proves the step in between, over ALL interleavings of any number of client threads
  running any programs of deliveries (with or without cap evictions), removals, purges, mark-seen and reads on the same
  mailbox, at the granularity of single file-system primitives and single events (Model/ConcFileOps.lean):

    with `AddMessage` holding the lock around the whole method (`LockScope.wholeOp`, what the source has: Tie/FileLock.lean)
      * the lock gives mutual exclusion and nobody touches the mailbox outside it        (mutual_exclusion)
      * every state in which nobody is inside a critical section is EXACTLY the result of running the operations one
        after the other in the order of their index loads (= lock acquisitions), with the same answers   (serialisable)
      * hence the accounting of C16 holds for every interleaving: every message that was listed or delivered and is no
        longer listed has exactly one `deleted` event, no listed one has one, no event concerns an unknown id, no id is
        listed twice                                     (events_exact_concurrent and its corollaries)
      * every `deleted` event follows the index load of the delivery that brought the message in (causal order in terms of
        the serialisation; the `stored` event itself is the manager's and is emitted after AddMessage has returned, outside
        the lock — the open finding F-16c, reproduced here as `stored_may_follow_deleted`)

    with the lock released around the copy of the body and the index appended to the list loaded BEFORE the copy
    (`LockScope.splitAroundCopy`) both halves of the accounting fail, by explicit interleavings:
      * an acknowledged delivery drops out of the mailbox without a `deleted` event     (split_loses_without_deleted)
      * a removed message comes back and is announced `deleted` a second time            (split_announces_twice)
  so the lock scope is not only sufficient but NEEDED.
-/
namespace Ibx.Props.C16File
open Ibx Ibx.Model.FsSteps Ibx.Model.ConcFileOps Ibx.Lemmas.ConcFileOps Ibx.Lemmas.Crash
open Ibx.Spec.Store (Meta)
open Ibx.Model.FileStore (FEnt)
open Ibx.Model.FsCodec (lp)

/-- the steps `par` are the rmdir's of the two parent levels (what `parentSteps` of FsSteps produces) -/
def ParOk (c : Cfg) : Prop := ∀ st ∈ c.par, ∃ lv, st = .rmdirParent lv

/-- thread `t` is between Lock and Unlock -/
abbrev InsideW (s : St) (t : Nat) : Prop := holdsW (s.thr t).pc = true
/-- thread `t` is between RLock and RUnlock -/
abbrev InsideR (s : St) (t : Nat) : Prop := holdsR (s.thr t).pc = true
/-- nobody is inside a write critical section with moves still to make -/
def Settled (s : St) : Prop := ∀ t, isCrit (s.thr t).pc = false

private theorem settled_of_quiescent {s : St} (h : Quiescent s) : Settled s := fun t => by simp [h t, isCrit]

/-! ### the concrete instance used by the examples and counter-witnesses -/

def hdr0 : Meta := { sender := [115], rcpts := [[114]], subject := [120], date := 1700000000 }
def boxA : Bytes := [97]
def cW (cap : Nat) : Cfg := { C := lp, ch := Chooser.whole, par := [], b := boxA, cap := cap, scope := .wholeOp }
def cS (cap : Nat) : Cfg := { C := lp, ch := Chooser.whole, par := [], b := boxA, cap := cap, scope := .splitAroundCopy }

private theorem parOk_cW (cap : Nat) : ParOk (cW cap) := by intro st h; simp [cW] at h

/-- a concurrent run of the code as it is: a capped delivery (thread 0), a removal and a listing (thread 1), a purge
    (thread 2); thread 1 asks for the lock while thread 0 is inside and gets it afterwards -/
def progsW : List (List COp) := [[.add 1 hdr0 [1, 2], .add 2 hdr0 [3], .add 3 hdr0 [4]], [.remove 2, .list], [.purge, .add 4 hdr0 [5]]]
def schedW : List Nat :=
  List.replicate 23 0 ++ List.replicate 10 1 ++ List.replicate 11 0 ++ List.replicate 3 1 ++ List.replicate 22 2

def sW : St := sched (cW 2) none progsW schedW

private theorem reach_sW : Reach (cW 2) none sW := reach_sched (by decide)
private theorem quiescent_sW : Quiescent sW := quiescent_sched (by decide) (by decide)

/-! ### mutual exclusion -/

/-- **Mutual exclusion on the mailbox.**  In every reachable state of every interleaving: two threads between Lock and
    Unlock are the same thread; while one is there nobody is between RLock and RUnlock; nobody makes a move on the
    mailbox without holding the lock; the registered writer is that thread. -/
theorem mutual_exclusion (c : Cfg) (hc : c.scope = .wholeOp) (d0 : Option MDir) (s : St) (h : Reach c d0 s) :
    (∀ t u, InsideW s t → InsideW s u → t = u) ∧
    (∀ t u, InsideW s t → ¬ InsideR s u) ∧
    (∀ t, InsideW s t → s.writer = some t) ∧
    (∀ t, isFree (s.thr t).pc = false) := by
  have m := mutex_reach hc h
  refine ⟨fun t u ht hu => m.unique ht hu, fun t u ht hu => ?_, m.writer, m.noFree⟩
  have := m.no_reader (u := u) ht
  simp [InsideR, this] at hu

example : ∃ s, Reach (cW 2) none s ∧ InsideW s 0 ∧ (s.thr 1).pc = .idle ∧ (s.thr 1).todo ≠ [] :=
  ⟨sched (cW 2) none progsW [0, 0, 0], reach_sched (by decide), by decide, by decide, by decide⟩

/-- … and a thread that asks for the lock meanwhile does not get it (the scheduler rejects its move) -/
example : runSched (cW 2) (start none progsW) [0, 0, 0, 1] = none := by decide

/-! ### serialisability -/

/-- **Serialisability.**  Whenever nobody is inside a write critical section, the mailbox directory and the sequence of
    `deleted` events are exactly those of the operations run ONE AFTER THE OTHER, each from start to end, in the order of
    their index loads (the order in which they got the lock), and every operation has answered what it answers in that
    sequential run.  (`logOps s` is that order; it is an interleaving of the clients' programs.) -/
theorem serialisable (c : Cfg) (hc : c.scope = .wholeOp) (d0 : Option MDir) (s : St) (h : Reach c d0 s) (hq : Settled s) :
    (s.dir, dels s.events) = seqRun c (d0, []) (logOps s) ∧ logRes s = seqRes c (d0, []) (logOps s) :=
  ⟨(sim_reach hc h).settled hq, (sim_reach hc h).answers⟩

/-- the same in the middle of a critical section: what the one thread inside has still to do leads to the sequential state -/
theorem serialisable_inside (c : Cfg) (hc : c.scope = .wholeOp) (d0 : Option MDir) (s : St) (h : Reach c d0 s)
    (t : Nat) (acts : List Act) (n : Next) (ht : (s.thr t).pc = .crit acts n) :
    runActs (s.dir, dels s.events) acts = seqRun c (d0, []) (logOps s) :=
  (sim_reach hc h).pending t acts n ht

example : logOps sW = [.add 1 hdr0 [1, 2], .add 2 hdr0 [3], .remove 2, .add 3 hdr0 [4], .list, .purge, .add 4 hdr0 [5]] ∧
    logRes sW = [.id 1, .id 2, .ok, .id 3, .ents [newEnt 1 hdr0 [1, 2], newEnt 3 hdr0 [4]], .ok, .id 4] ∧
    dels sW.events = [2, 1, 3] ∧ (dlisting lp sW.dir).map (·.map (·.id)) = some [4] := by decide

/-- **The sequential run is the step-program model.**  One operation run alone issues exactly the file-system primitives
    of `progD` (Model/FsSteps.lean — the programs of C11's theorems, tied to the source by Tie/Crash.lean and compared with
    the hook trace of the real store by C11's T3 leg) and emits exactly `eventsOf`. -/
theorem sequential_step_is_step_program (c : Cfg) (d : Option MDir) (ev : List Nat) (l : List FEnt) (op : COp)
    (hl : dlisting c.C d = some l) :
    (seqStep c (d, ev) op).2 = ev ++ eventsOf c.cap l op ∧
    (∀ fop, toFs c.b op = some fop → (seqStep c (d, ev) op).1 = runDir d (progD c.C Variant.safe c.ch c.par c.cap d fop)) ∧
    (toFs c.b op = none → (seqStep c (d, ev) op).1 = d) := by
  refine ⟨by simp [seqStep, runActs_split, evOf_loadW c d l op hl], ?_, ?_⟩
  · intro fop hf
    simp [seqStep, runActs_split, fsOf_loadW c d op fop hf]
  · intro hn
    have : op.isRead = true := by cases op <;> simp [toFs] at hn <;> rfl
    rw [seqStep_read c _ op this]

example : eventsOf 2 [newEnt 1 hdr0 [1, 2], newEnt 2 hdr0 [3]] (.add 3 hdr0 [4]) = [1] := by decide

/-! ### the event accounting under concurrency -/

/-- **events_exact for every interleaving.**  From a well-formed mailbox listing `l0`, ids handed out fresh: in every state
    of every interleaving in which nobody is inside a critical section the mailbox is well-formed, listing some `l`, and
    the ids listed at the start plus the ids delivered since are a PERMUTATION of the ids listed now plus the `deleted`
    events; no operation has answered with an error. -/
theorem events_exact_concurrent (c : Cfg) (hc : c.scope = .wholeOp) (hpar : ParOk c) (d0 : Option MDir) (l0 : List FEnt)
    (hg : Good c.C c.b l0 d0) (s : St) (h : Reach c d0 s) (hq : Settled s) (hf : FreshIds l0 (logOps s)) :
    ∃ l, Good c.C c.b l s.dir ∧ dlisting c.C s.dir = some l ∧
      (l0.map (·.id) ++ addIds (logOps s)).Perm (l.map (·.id) ++ dels s.events) ∧
      ∀ r ∈ logRes s, r ≠ .err := by
  obtain ⟨h1, h2⟩ := serialisable c hc d0 s h hq
  obtain ⟨l, hgl, hp, hr⟩ := seqRun_good c hpar (logOps s) d0 [] l0 hg (by simpa [FreshIds] using hf)
  rw [← h1] at hgl hp
  exact ⟨l, hgl, good_listing hgl, by simpa using hp, by rw [h2]; exact hr⟩

example : Good lp boxA [] none ∧ FreshIds [] (logOps sW) ∧ Settled sW :=
  ⟨rfl, by unfold FreshIds; decide, settled_of_quiescent quiescent_sW⟩

/-- every message that was in the mailbox or was delivered and is no longer listed has EXACTLY ONE `deleted` event -/
theorem departed_announced_exactly_once (c : Cfg) (hc : c.scope = .wholeOp) (hpar : ParOk c) (d0 : Option MDir) (l0 l : List FEnt)
    (hg : Good c.C c.b l0 d0) (s : St) (h : Reach c d0 s) (hq : Settled s) (hf : FreshIds l0 (logOps s))
    (hl : dlisting c.C s.dir = some l) (i : Nat) (hi : i ∈ l0.map (·.id) ++ addIds (logOps s)) (hgone : i ∉ l.map (·.id)) :
    (dels s.events).count i = 1 := by
  obtain ⟨l', _, hl', hp, _⟩ := events_exact_concurrent c hc hpar d0 l0 hg s h hq hf
  rw [hl] at hl'; cases hl'
  have hc1 := hp.count_eq i
  have hA : (l0.map (·.id) ++ addIds (logOps s)).count i = 1 := by
    have := List.Nodup.count (a := i) hf
    simpa [hi] using this
  rw [hA, List.count_append, List.count_eq_zero_of_not_mem hgone] at hc1
  omega

/-- no listed message has a `deleted` event -/
theorem listed_never_announced (c : Cfg) (hc : c.scope = .wholeOp) (hpar : ParOk c) (d0 : Option MDir) (l0 l : List FEnt)
    (hg : Good c.C c.b l0 d0) (s : St) (h : Reach c d0 s) (hq : Settled s) (hf : FreshIds l0 (logOps s))
    (hl : dlisting c.C s.dir = some l) (i : Nat) (hi : i ∈ l.map (·.id)) :
    i ∉ dels s.events := by
  obtain ⟨l', _, hl', hp, _⟩ := events_exact_concurrent c hc hpar d0 l0 hg s h hq hf
  rw [hl] at hl'; cases hl'
  have hnd : (l.map (·.id) ++ dels s.events).Nodup := hp.nodup_iff.1 hf
  intro hd
  exact (List.nodup_append.1 hnd).2.2 i hi i hd rfl

/-- no `deleted` event for an id that was never in the mailbox; none twice; no id listed twice -/
theorem deleted_known_and_once (c : Cfg) (hc : c.scope = .wholeOp) (hpar : ParOk c) (d0 : Option MDir) (l0 l : List FEnt)
    (hg : Good c.C c.b l0 d0) (s : St) (h : Reach c d0 s) (hq : Settled s) (hf : FreshIds l0 (logOps s))
    (hl : dlisting c.C s.dir = some l) :
    (∀ i ∈ dels s.events, i ∈ l0.map (·.id) ++ addIds (logOps s)) ∧ (dels s.events).Nodup ∧ (l.map (·.id)).Nodup := by
  obtain ⟨l', _, hl', hp, _⟩ := events_exact_concurrent c hc hpar d0 l0 hg s h hq hf
  rw [hl] at hl'; cases hl'
  have hnd : (l.map (·.id) ++ dels s.events).Nodup := hp.nodup_iff.1 hf
  exact ⟨fun i hi => (hp.mem_iff).2 (List.mem_append_right _ hi), (List.nodup_append.1 hnd).2.1, (List.nodup_append.1 hnd).1⟩

/-- every acknowledged delivery that nobody removed is listed: an id that came in and has no `deleted` event is in the mailbox -/
theorem delivered_and_not_announced_is_listed (c : Cfg) (hc : c.scope = .wholeOp) (hpar : ParOk c) (d0 : Option MDir) (l0 l : List FEnt)
    (hg : Good c.C c.b l0 d0) (s : St) (h : Reach c d0 s) (hq : Settled s) (hf : FreshIds l0 (logOps s))
    (hl : dlisting c.C s.dir = some l) (i : Nat) (hi : i ∈ l0.map (·.id) ++ addIds (logOps s)) (hno : i ∉ dels s.events) :
    i ∈ l.map (·.id) ∧ ∃ e ∈ l, e.id = i ∧ ∃ r, dcontent s.dir i = some r ∧ r.length = e.size := by
  obtain ⟨l', hgl, hl', hp, _⟩ := events_exact_concurrent c hc hpar d0 l0 hg s h hq hf
  rw [hl] at hl'; cases hl'
  have hm : i ∈ l.map (·.id) := by
    rcases List.mem_append.1 ((hp.mem_iff).1 hi) with h1 | h1
    · exact h1
    · exact absurd h1 hno
  obtain ⟨e, he, hei⟩ := List.mem_map.1 hm
  obtain ⟨r, hr1, hr2⟩ := good_content hgl e he
  exact ⟨hm, e, he, hei, r, by rw [← hei]; exact hr1, hr2⟩

example : ∃ l, dlisting lp sW.dir = some l ∧ (4 : Nat) ∈ l.map (·.id) ∧ (3 : Nat) ∉ l.map (·.id) ∧ (dels sW.events).count 3 = 1 :=
  ⟨[newEnt 4 hdr0 [5]], by decide, by decide, by decide, by decide⟩

/-- **No system call fails.**  The model lets a file-system call that cannot succeed leave the directory as it is and go on
    (the code would take an error path there).  With the whole-method scope, from a well-formed mailbox and with fresh ids,
    that never happens in any interleaving: no call has failed, and none of the calls the thread inside its critical section
    has still to make will fail. -/
theorem no_call_fails (c : Cfg) (hc : c.scope = .wholeOp) (hpar : ParOk c) (d0 : Option MDir) (l0 : List FEnt)
    (hg : Good c.C c.b l0 d0) (s : St) (h : Reach c d0 s) (hf : FreshIds l0 (logOps s)) :
    s.failed = 0 ∧ ∀ t acts n, (s.thr t).pc = .crit acts n → Safe (fun _ => True) s.dir (fsOf acts) :=
  calls_reach hc hpar hg h hf

example : sW.failed = 0 := by decide

/-- **Causal order.**  In EVERY reachable state — also in the middle of critical sections — a `deleted` event concerns a
    message that was in the mailbox at the start or whose delivery has already loaded the index under the lock (is in
    the serialisation): nothing is announced deleted before the delivery that brings it in has begun its critical section. -/
theorem deleted_follows_its_delivery (c : Cfg) (hc : c.scope = .wholeOp) (hpar : ParOk c) (d0 : Option MDir) (l0 : List FEnt)
    (hg : Good c.C c.b l0 d0) (s : St) (h : Reach c d0 s) (hf : FreshIds l0 (logOps s)) :
    ∀ i ∈ dels s.events, i ∈ l0.map (·.id) ++ addIds (logOps s) := by
  have sm := sim_reach hc h
  obtain ⟨l, _, hp, _⟩ := seqRun_good c hpar (logOps s) d0 [] l0 hg (by simpa [FreshIds] using hf)
  have hsub : ∀ i ∈ (seqRun c (d0, []) (logOps s)).2, i ∈ l0.map (·.id) ++ addIds (logOps s) := by
    intro i hi
    have := (hp.mem_iff (a := i)).2 (List.mem_append_right _ hi)
    simpa using this
  intro i hi
  by_cases hcr : ∃ t, isCrit (s.thr t).pc = true
  · obtain ⟨t, ht⟩ := hcr
    cases hpc : (s.thr t).pc <;> simp [hpc, isCrit] at ht
    rename_i acts n
    have := sm.pending t acts n hpc
    rw [runActs_split] at this
    apply hsub
    rw [← this]
    exact List.mem_append_left _ hi
  · have hq : Settled s := by
      intro t
      cases hb : isCrit (s.thr t).pc with
      | false => rfl
      | true => exact absurd ⟨t, hb⟩ hcr
    apply hsub
    rw [← sm.settled hq]
    exact hi

/-- **Every acknowledged delivery produces exactly one `stored` event** (the manager's, emitted by the delivering client
    after AddMessage has returned): for every interleaving and EITHER lock scope, whenever a client is between two
    operations the `stored` events it has emitted are exactly the ids its deliveries were acknowledged with, in that order. -/
theorem stored_exactly_per_client (c : Cfg) (d0 : Option MDir) (s : St) (h : Reach c d0 s) (t : Nat) (ht : (s.thr t).pc = .idle) :
    storedBy t s.events = ackBy t s.log := by
  have := (stored_reach h).1 t
  simpa [ht, owed] using this

example : storedBy 0 sW.events = [1, 2, 3] ∧ ackBy 0 sW.log = [1, 2, 3] ∧ storedBy 2 sW.events = [4] := by decide

/-- the `stored` event is not the store's: `StoreManager.Deliver` emits it after `AddMessage` has returned, outside the
    lock, so another client's removal can be announced first (the open finding F-16c; it is independent of the lock scope
    of the store and is reported by C16's own legs): thread 0 delivers message 1 and returns, thread 1 removes it, then
    thread 0 emits `stored` -/
theorem stored_may_follow_deleted :
    ∃ s, Reach (cW 0) none s ∧ Quiescent s ∧ s.events = [(1, .deleted 1), (0, .stored 1)] :=
  ⟨sched (cW 0) none [[.add 1 hdr0 [7]], [.remove 1]] (List.replicate 11 0 ++ List.replicate 8 1 ++ [0]),
   reach_sched (by decide), quiescent_sched (by decide) (by decide), by decide⟩

/-! ### the lock scope is needed: `AddMessage` split around the copy -/

/-- **A delivery lost without a `deleted` event.**  Two clients deliver to the same (empty, uncapped) mailbox.  Thread 0
    reserves id 1 under the lock — its in-memory list is `[1]` — and copies its body without the lock; meanwhile thread 1
    delivers message 2 completely (index `[2]`, acknowledged, `stored` emitted).  Thread 0 then takes the lock again and
    writes the list it loaded before the copy.  Every system call succeeded, both deliveries were acknowledged and announced
    `stored`; message 2 is no longer listed and there is no `deleted` event at all. -/
theorem split_loses_without_deleted :
    ∃ s, Reach (cS 0) none s ∧ Quiescent s ∧ s.failed = 0 ∧
      logRes s = [.id 1, .id 2] ∧ s.events = [(1, .stored 2), (0, .stored 1)] ∧
      (dlisting lp s.dir).map (·.map (·.id)) = some [1] :=
  ⟨sched (cS 0) none [[.add 1 hdr0 [7]], [.add 2 hdr0 [8]]] (List.replicate 7 0 ++ List.replicate 13 1 ++ List.replicate 7 0),
   reach_sched (by decide), quiescent_sched (by decide) (by decide), by decide, by decide, by decide, by decide⟩

/-- **A message announced `deleted` twice.**  The mailbox holds 1 and 2.  Thread 1 reserves id 3 (in-memory list `[1, 2, 3]`)
    and copies its body without the lock; meanwhile thread 0 removes message 1 (event `deleted 1`, index `[2]`, raw file
    unlinked).  Thread 1 takes the lock again and writes its list: in `s1` message 1 is LISTED again although it has been
    announced (and its content is gone).  A later purge announces it a second time: `deleted` 1, 1, 2, 3.  Every system
    call succeeded. -/
theorem split_announces_twice :
    ∃ s1 s, Reach (cS 0) none s1 ∧ Reach (cS 0) none s ∧ Quiescent s1 ∧ Quiescent s ∧ s.failed = 0 ∧
      dels s1.events = [1] ∧ (dlisting lp s1.dir).map (·.map (·.id)) = some [1, 2, 3] ∧ dcontent s1.dir 1 = none ∧
      dels s.events = [1, 1, 2, 3] :=
  ⟨sched (cS 0) none [[.add 1 hdr0 [7], .add 2 hdr0 [8], .remove 1, .purge], [.add 3 hdr0 [9]]]
     (List.replicate 27 0 ++ List.replicate 6 1 ++ List.replicate 10 0 ++ List.replicate 7 1),
   sched (cS 0) none [[.add 1 hdr0 [7], .add 2 hdr0 [8], .remove 1, .purge], [.add 3 hdr0 [9]]]
     (List.replicate 27 0 ++ List.replicate 6 1 ++ List.replicate 10 0 ++ List.replicate 7 1 ++ List.replicate 11 0),
   reach_sched (by decide), reach_sched (by decide), quiescent_sched (by decide) (by decide), quiescent_sched (by decide) (by decide),
   by decide, by decide, by decide, by decide, by decide⟩

/-- the same through the mailbox cap (cap 3): the message that came back is evicted by a later delivery and announced again
    (here the eviction's unlink of the raw file, which the first removal took away, is the one system call that fails — the
    code logs it and goes on) -/
theorem split_evicts_announced_message_again :
    ∃ s, Reach (cS 3) none s ∧ Quiescent s ∧ dels s.events = [1, 1] ∧ (dlisting lp s.dir).map (·.map (·.id)) = some [2, 3, 4] :=
  ⟨sched (cS 3) none [[.add 1 hdr0 [7], .add 2 hdr0 [8], .remove 1, .add 4 hdr0 [6]], [.add 3 hdr0 [9]]]
     (List.replicate 27 0 ++ List.replicate 6 1 ++ List.replicate 10 0 ++ List.replicate 7 1 ++ List.replicate 19 0),
   reach_sched (by decide), quiescent_sched (by decide) (by decide), by decide, by decide⟩

/-- **The lock scope is needed.**  The conclusion of `events_exact_concurrent` is FALSE for the split scope: there is an
    interleaving from the empty mailbox, fresh ids, nobody inside a critical section, where the ids delivered are not a
    permutation of the ids listed plus the `deleted` events. -/
theorem lock_scope_needed :
    ¬ ∀ s, Reach (cS 0) none s → Settled s → FreshIds [] (logOps s) →
        ∃ l, dlisting lp s.dir = some l ∧ (addIds (logOps s)).Perm (l.map (·.id) ++ dels s.events) := by
  intro hall
  have hs : (runSched (cS 0) (start none [[.add 1 hdr0 [7]], [.add 2 hdr0 [8]]])
      (List.replicate 7 0 ++ List.replicate 13 1 ++ List.replicate 7 0)).isSome = true := by decide
  obtain ⟨l, hl, hp⟩ := hall _ (reach_sched hs) (settled_of_quiescent (quiescent_sched hs (by decide))) (by unfold FreshIds; decide)
  have h1 : dlisting lp (sched (cS 0) none [[.add 1 hdr0 [7]], [.add 2 hdr0 [8]]]
      (List.replicate 7 0 ++ List.replicate 13 1 ++ List.replicate 7 0)).dir = some [newEnt 1 hdr0 [7]] := by decide
  rw [h1] at hl; cases hl
  have := hp.length_eq
  revert this
  decide

/-- … and the same schedule is not a run of the code as it is: with the whole-method scope thread 1's Lock is refused while
    thread 0 copies -/
example : runSched (cW 0) (start none [[.add 1 hdr0 [7]], [.add 2 hdr0 [8]]]) (List.replicate 7 0 ++ [1]) = none := by decide

end Ibx.Props.C16File
