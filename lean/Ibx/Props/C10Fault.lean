import Ibx.Props.C16Fault
/-
  C10 (failing-disk leg) — "after the server is stopped and started again every mailbox lists the same messages … with the
  same … sizes and content as before", file store, for histories in which file-system calls FAIL while the process lives
  on, and in which the index of a mailbox exists but cannot be OPENED.

  Model: Ibx/Model/FsFault.lean.  Between two operations the state of the file store is the directory tree alone (`FS`):
  every operation builds its mbox from the on-disk index (T1 facts of Ibx/Tie/FileStore.lean), so a restart — a new
  process calling file.New on the same path — is the identity on that state and what the new process shows is
  `recover C s`, mailbox by mailbox.  An operation runs with a fault `(F, noread)`:
    * the hook calls `{k | F k = true}` of it are refused (`opF`; any set: one call, every call from the k-th on, every
      call of one kind — a full disk, a read-only directory);
    * with `noread` the operation cannot open the index of its mailbox although the file is there (`opFR`: os.Stat
      succeeds, os.Open fails — EMFILE when the server is out of descriptors, EACCES after a restore with wrong modes).
  harness/cmd/drive/storefault.go generates these classes on the real store, restarts it at any point, and compares every
  outcome with the model (`fault <op> refuse=… [noread=1]`).
-/
namespace Ibx.Props.C10Fault
open Ibx Ibx.Model.FsSteps Ibx.Model.FsFault Ibx.Lemmas.Crash Ibx.Lemmas.FsFault
open Ibx.Props.C11 (WF Fresh readable_of_wf)
open Ibx.Props.C16Fault (refused_steps_keep_store_wellformed)
open Ibx.Spec.Store (Meta)
open Ibx.Model.FileStore (FEnt)
abbrev Op := Ibx.Model.FsSteps.Op

/-- **An index that cannot be opened is not an empty mailbox.**  Whatever the operation (a delivery, a removal, mark-seen, a
    purge) and whatever else fails: when the mailbox has an index file and it cannot be opened, the operation answers with
    the error, emits no event, makes no file-system call, and leaves EVERY mailbox directory as it was — in particular a
    delivery is refused and does not replace the index by one that lists only itself. -/
theorem unopenable_index_changes_nothing (C : Codec) (lay : Layout) (cap : Nat) (F : Nat → Bool) (op : Op) (s : FS)
    (h : hasIndex (s.dirs op.box) = true) :
    (opFR C lay cap F true op s).res = .err ∧ (opFR C lay cap F true op s).events = [] ∧
    (opFR C lay cap F true op s).trace = [] ∧ ∀ x, (opFR C lay cap F true op s).fs.dirs x = s.dirs x := by
  simp [opFR, h]

/-- … so after the fault has gone (and after any restart) every mailbox shows exactly what it showed before -/
theorem unopenable_index_restart_shows_the_same (C : Codec) (lay : Layout) (cap : Nat) (F : Nat → Bool) (op : Op) (s : FS)
    (h : hasIndex (s.dirs op.box) = true) (x : Bytes) :
    recover C (opFR C lay cap F true op s).fs x = recover C s x := by
  simp [recover, view, (unopenable_index_changes_nothing C lay cap F op s h).2.2.2 x]

/-- a mailbox WITHOUT an index file cannot meet the fault (os.Stat fails first: "no index yet", rightly an empty mailbox) -/
theorem no_index_no_read_fault (C : Codec) (lay : Layout) (cap : Nat) (F : Nat → Bool) (nr : Bool) (op : Op) (s : FS)
    (h : hasIndex (s.dirs op.box) = false) :
    opFR C lay cap F nr op s = opF C lay cap F op s := by
  simp [opFR, h]

/-- one operation under a fault keeps the store well-formed -/
theorem faulty_step_wellformed (C : Codec) (lay : Layout) (cap : Nat) (F : Nat → Bool) (nr : Bool) (s : FS) (op : Op)
    (hwf : WF C s) (hfresh : Fresh C s op) : WF C (opFR C lay cap F nr op s).fs := by
  unfold opFR
  split
  · exact hwf
  · exact (refused_steps_keep_store_wellformed C lay cap F s op hwf hfresh).1

/-- a history of operations, each with its own fault (refused calls, unreadable index); restarts are the identity on `FS`
    and need no constructor of their own -/
def runFaulty (C : Codec) (lay : Layout) (cap : Nat) : FS → List (Op × (Nat → Bool) × Bool) → FS
  | s, [] => s
  | s, (op, F, nr) :: h => runFaulty C lay cap (opFR C lay cap F nr op s).fs h

/-- the id generator's contract along such a history -/
def FreshAlong (C : Codec) (lay : Layout) (cap : Nat) : FS → List (Op × (Nat → Bool) × Bool) → Prop
  | _, [] => True
  | s, (op, F, nr) :: h => Fresh C s op ∧ FreshAlong C lay cap (opFR C lay cap F nr op s).fs h

theorem faulty_history_wellformed (C : Codec) (lay : Layout) (cap : Nat) : ∀ (h : List (Op × (Nat → Bool) × Bool)) (s : FS),
    WF C s → FreshAlong C lay cap s h → WF C (runFaulty C lay cap s h)
  | [], _, hwf, _ => hwf
  | (op, F, nr) :: h, s, hwf, hfr =>
    faulty_history_wellformed C lay cap h _ (faulty_step_wellformed C lay cap F nr s op hwf hfr.1) hfr.2

/-- **A restart after ANY history on a failing disk shows complete messages.**  From the empty store (or any well-formed
    one), after any history of operations of which any file-system calls were refused and any index opens failed, a
    fresh process lists every mailbox without error, lists no id twice, and every message it lists has its content file,
    `size` bytes long: no operation — failed or not — leaves a listed message without its content, or an index that does
    not decode. -/
theorem restart_after_faulty_history_shows_complete_messages (C : Codec) (lay : Layout) (cap : Nat)
    (h : List (Op × (Nat → Bool) × Bool)) (s : FS) (hwf : WF C s) (hfr : FreshAlong C lay cap s h) (b : Bytes) :
    ∃ l, listing C (runFaulty C lay cap s h) b = some l ∧
      recover C (runFaulty C lay cap s h) b = some (viewOf ((runFaulty C lay cap s h).dirs b) l) ∧
      (l.map (·.id)).Nodup ∧
      ∀ e ∈ l, ∃ r, content (runFaulty C lay cap s h) b e.id = some r ∧ r.length = e.size := by
  obtain ⟨l, hg⟩ := faulty_history_wellformed C lay cap h s hwf hfr b
  exact ⟨l, good_listing hg, by simp [recover, view, good_view hg], good_nodup hg, good_content hg⟩

/-! ### non-vacuity -/

section Concrete
open Ibx.Model.FsCodec Ibx.Props.C11

/-- the two-message mailbox of C11: its index is there … -/
example : hasIndex (s2.dirs boxA) = true := by decide

/-- … a delivery that cannot open it is refused and the mailbox still shows both messages -/
example : (opFR lp lay0 2 (refuse []) true (.add boxA 3 hdr0 [33]) s2).res = .err ∧
    recover lp (opFR lp lay0 2 (refuse []) true (.add boxA 3 hdr0 [33]) s2).fs boxA = recover lp s2 boxA :=
  ⟨(unopenable_index_changes_nothing lp lay0 2 (refuse []) (.add boxA 3 hdr0 [33]) s2 (by decide)).1,
   unopenable_index_restart_shows_the_same lp lay0 2 (refuse []) (.add boxA 3 hdr0 [33]) s2 (by decide) boxA⟩

/-- a removal whose index writes are all refused, then a delivery that cannot open the index: both fail, both messages complete -/
example : FreshAlong lp lay0 2 s2 [(.remove boxA 1, fun _ => true, false), (.add boxA 3 hdr0 [33], refuse [], true)] := by
  refine ⟨trivial, ?_, trivial⟩
  intro l hl
  have : listing lp (opFR lp lay0 2 (fun _ => true) false (.remove boxA 1) s2).fs boxA =
      some [newEnt 1 hdr0 [104, 101, 108, 108, 111], newEnt 2 hdr0 [121, 111]] := by decide
  rw [this] at hl; cases hl; decide

end Concrete

end Ibx.Props.C10Fault
