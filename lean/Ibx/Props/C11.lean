import Ibx.Model.FsSteps
import Ibx.Model.FsCodec
import Ibx.Lemmas.Crash
/-
  C11 — a crash at any point of a file-store update leaves every mailbox readable.

  Model: Ibx/Model/FsSteps.lean (`program op s` = the file-system primitives the operation issues, in the code's
  order; a crash = only the first k of them happen; `view` = what a fresh file.Store reads).  All theorems are for
  `Variant.safe` = the code as it is (index written via index.gob.tmp + rename; removeDir unlinks the index first),
  for EVERY codec satisfying the `Codec` hypotheses, every chunking of the buffered writes, every order in which
  os.RemoveAll meets the directory entries, every directory layout, every cap, every well-formed state — where
  well-formed (`WF`) is an invariant of ALL crash states, so histories may contain any number of earlier crashes.
  The counter-examples at the end are for the two original variants: reverting either fix has a named failing crash point.
-/
namespace Ibx.Props.C11
open Ibx Ibx.Model.FsSteps Ibx.Lemmas.Crash
open Ibx.Spec.Store (Meta)
open Ibx.Model.FileStore (FEnt)
abbrev Op := Ibx.Model.FsSteps.Op

/-- the store invariant: every mailbox directory either has no index or an index that is the encoding of a list of
    entries with unique ids, each of which has its complete `<id>.raw` (size = recorded size).  Leftover tmp files,
    raws without entry and empty directories are allowed: crash states satisfy it (`crash_atomic`). -/
def WF (C : Codec) (s : FS) : Prop := ∀ b, ∃ l, Good C b l (s.dirs b)

/-- the id generator's contract: the id handed to a delivery is not listed in the mailbox -/
def Fresh (C : Codec) (s : FS) : Op → Prop
  | .add b id _ _ => ∀ l, listing C s b = some l → id ∉ l.map (·.id)
  | _ => True

/-- every system call of `L`, issued in turn from directory state `d`, succeeds -/
def allOk : Option MDir → List FsStep → Bool
  | _, [] => true
  | d, st :: L => okDir d st && allOk (applyDir d st) L

/-! ### lifting from one directory to the file system -/

private theorem run_dirs (b : Bytes) : ∀ (L : List FsStep) (s : FS) (x : Bytes),
    (run b s L).dirs x = if x = b then runDir (s.dirs b) L else s.dirs x
  | [], s, x => by by_cases h : x = b <;> simp [run, runDir, h]
  | st :: L, s, x => by
    have ih := run_dirs b L (apply b s st) x
    simp only [run, List.foldl_cons] at ih ⊢
    rw [ih]
    by_cases h : x = b <;> simp [h, apply, setDir, runDir]

private theorem par_shape (lay : Layout) (s : FS) (b : Bytes) : ∀ st ∈ parentSteps lay s b, ∃ lv, st = .rmdirParent lv := by
  intro st h
  simp only [parentSteps] at h
  split at h
  · simp at h
  · split at h
    · simp only [List.mem_singleton] at h; exact ⟨_, h⟩
    · simp only [List.mem_cons, List.not_mem_nil, or_false] at h
      rcases h with h | h <;> exact ⟨_, h⟩

private theorem allOk_of_safe {R : Option MDir → Prop} : ∀ (L : List FsStep) (d : Option MDir), Safe R d L → allOk d L = true
  | [], _, _ => rfl
  | st :: L, d, h => by simp [allOk, h.2.1, allOk_of_safe L _ h.2.2]

private theorem fresh_local {C : Codec} {s : FS} {op : Op} {l0 : List FEnt} (hf : Fresh C s op) (hg : Good C op.box l0 (s.dirs op.box)) :
    ∀ id hdr src, op = .add op.box id hdr src → id ∉ l0.map (·.id) := by
  intro id hdr src h
  rw [h] at hf
  exact hf l0 (good_listing hg)

/-! ### the theorems -/

/-- a well-formed store is readable: every mailbox lists without error (hence VisitMailboxes succeeds) -/
theorem readable_of_wf (C : Codec) (s : FS) (h : WF C s) : Readable C s := by
  intro b
  obtain ⟨l, hg⟩ := h b
  simp [listing, good_listing hg]

/-- every listed message has its full content: Source() opens and yields exactly `size` bytes -/
theorem listed_complete (C : Codec) (s : FS) (h : WF C s) (b : Bytes) (V : View) (hv : view C s b = some V) :
    ∀ p ∈ V, ∃ r, p.2 = some r ∧ r.length = p.1.size := by
  obtain ⟨l, hg⟩ := h b
  rw [view, good_view hg] at hv
  cases hv
  intro p hp
  simp only [viewOf, List.mem_map] at hp
  obtain ⟨e, he, rfl⟩ := hp
  exact good_content hg e he

/-- **crash_atomic.**  Stop `op` after any number `k` of its file-system primitives (any chunking of the writes — so
    after any BYTE of the raw file or of the new index —, any unlink order inside RemoveAll).  Then the store is
    well-formed again (so the theorem applies to whatever happens next), every mailbox is readable, every mailbox
    directory other than the operation's is untouched, and the operation's mailbox shows one of `unitViews`: its view
    before the operation or the view after one of the operation's atomic units.  For seen / remove / purge that is
    "not at all or completely"; for a capped delivery the units are each eviction of the oldest message and the add:
    the mailbox is seen with its j oldest messages gone for some j ≤ number of evictions, or finally with the new
    message appended — never with a message half there. -/
theorem crash_atomic (C : Codec) (ch : Chooser) (lay : Layout) (cap : Nat) (s : FS) (op : Op) (k : Nat)
    (hwf : WF C s) (hfresh : Fresh C s op) :
    let s' := runPrefix k op.box (program C Variant.safe ch lay cap op s) s
    WF C s' ∧ Readable C s' ∧ (∀ x, x ≠ op.box → s'.dirs x = s.dirs x) ∧
    ∃ V0 V, view C s op.box = some V0 ∧ view C s' op.box = some V ∧ V ∈ unitViews cap V0 op := by
  intro s'
  obtain ⟨l0, hg⟩ := hwf op.box
  have hsafe := (prog_safe C ch (parentSteps lay s op.box) op.box cap (s.dirs op.box) l0 op rfl hg (fresh_local hfresh hg)
    (par_shape lay s op.box)).1
  have hk := safe_prefix _ _ k hsafe
  obtain ⟨l', hg', hv'⟩ := hk
  have hd : ∀ x, s'.dirs x = if x = op.box then runDir (s.dirs op.box) ((program C Variant.safe ch lay cap op s).take k) else s.dirs x :=
    fun x => run_dirs op.box _ s x
  have hwf' : WF C s' := by
    intro x
    rw [hd x]
    by_cases hx : x = op.box
    · subst hx; simp only [if_true]; exact ⟨l', hg'⟩
    · simp only [hx, if_false]; exact hwf x
  refine ⟨hwf', readable_of_wf C s' hwf', fun x hx => by rw [hd x]; simp [hx], viewOf (s.dirs op.box) l0, _, ?_, ?_, hv'⟩
  · exact good_view hg
  · rw [view, hd op.box]; simp only [if_true]; exact good_view hg'

/-- mailboxes not addressed by the interrupted operation read exactly as before it started -/
theorem crash_untouched (C : Codec) (ch : Chooser) (lay : Layout) (cap : Nat) (s : FS) (op : Op) (k : Nat)
    (hwf : WF C s) (hfresh : Fresh C s op) (x : Bytes) (hx : x ≠ op.box) :
    recover C (runPrefix k op.box (program C Variant.safe ch lay cap op s) s) x = recover C s x := by
  have := (crash_atomic C ch lay cap s op k hwf hfresh).2.2.1 x hx
  simp [recover, view, this]

/-- the complete operation: no system call fails, the store stays well-formed and the mailbox shows the LAST unit view
    (a function of the view before — it does not depend on tmp leftovers, orphan raws, empty directories, the chunking,
    the unlink order or the layout) -/
theorem op_complete (C : Codec) (ch : Chooser) (lay : Layout) (cap : Nat) (s : FS) (op : Op)
    (hwf : WF C s) (hfresh : Fresh C s op) :
    allOk (s.dirs op.box) (program C Variant.safe ch lay cap op s) = true ∧ WF C (runOp C Variant.safe ch lay cap op s) ∧
    ∃ V0 V, view C s op.box = some V0 ∧ view C (runOp C Variant.safe ch lay cap op s) op.box = some V ∧
      (unitViews cap V0 op).getLast? = some V := by
  obtain ⟨l0, hg⟩ := hwf op.box
  obtain ⟨hsafe, l', hg', hv'⟩ := prog_safe C ch (parentSteps lay s op.box) op.box cap (s.dirs op.box) l0 op rfl hg (fresh_local hfresh hg)
    (par_shape lay s op.box)
  have hd : ∀ x, (runOp C Variant.safe ch lay cap op s).dirs x = if x = op.box then runDir (s.dirs op.box) (program C Variant.safe ch lay cap op s) else s.dirs x :=
    fun x => run_dirs op.box _ s x
  refine ⟨allOk_of_safe _ _ hsafe, ?_, viewOf (s.dirs op.box) l0, _, good_view hg, ?_, hv'⟩
  · intro x
    rw [hd x]
    by_cases hx : x = op.box
    · subst hx; simp only [if_true]; exact ⟨l', hg'⟩
    · simp only [hx, if_false]; exact hwf x
  · rw [view, hd op.box]; simp only [if_true]; exact good_view hg'

/-- **orphans_harmless (1).**  What crashes leave behind — an `index.gob.tmp`, a raw file that no index entry names, an
    empty mailbox directory — changes neither well-formedness nor any view. -/
theorem residue_invisible (C : Codec) (s : FS) (b : Bytes) (hwf : WF C s) :
    (∀ x t, s.dirs b = some x → WF C (setDir s b (some { x with tmp := t })) ∧
        ∀ y, view C (setDir s b (some { x with tmp := t })) y = view C s y) ∧
    (∀ x id c l, s.dirs b = some x → listing C s b = some l → id ∉ l.map (·.id) →
        WF C (setDir s b (some { x with raws := rawSet x.raws id c })) ∧
        ∀ y, view C (setDir s b (some { x with raws := rawSet x.raws id c })) y = view C s y) ∧
    (s.dirs b = none → WF C (setDir s b (some MDir.empty)) ∧ ∀ y, view C (setDir s b (some MDir.empty)) y = view C s y) := by
  obtain ⟨l0, hg⟩ := hwf b
  refine ⟨?_, ?_, ?_⟩
  · intro x t hx
    rw [hx] at hg
    have hg2 : Good C b l0 (some { x with tmp := t }) := hg
    constructor
    · intro y
      by_cases hy : y = b
      · subst hy; exact ⟨l0, by simpa [setDir] using hg2⟩
      · simpa [setDir, hy] using hwf y
    · intro y
      by_cases hy : y = b
      · subst hy; simp only [view, setDir, if_true, hx, good_view hg2, good_view hg]; rfl
      · simp [view, setDir, hy]
  · intro x id c l hx hl hid
    rw [hx] at hg
    have : l = l0 := by
      have := good_listing hg
      simp only [listing, hx] at hl
      rw [hl] at this; exact Option.some.inj this
    subst this
    have hne : ∀ e ∈ l, e.id ≠ id := fun e he h => hid (by simp only [List.mem_map]; exact ⟨e, he, h⟩)
    obtain ⟨hg2, hv2⟩ := good_raws_change C b (rawSet x.raws id c) hg (fun e he => rawGet_set_ne _ _ _ _ (hne e he))
    constructor
    · intro y
      by_cases hy : y = b
      · subst hy; exact ⟨l, by simpa [setDir] using hg2⟩
      · simpa [setDir, hy] using hwf y
    · intro y
      by_cases hy : y = b
      · subst hy; simp only [view, setDir, if_true, hx, good_view hg2, good_view hg, hv2]
      · simp [view, setDir, hy]
  · intro hx
    rw [hx] at hg
    have hl : l0 = [] := hg
    subst hl
    have hg2 : Good C b [] (some MDir.empty) := good_empty_index _ rfl
    constructor
    · intro y
      by_cases hy : y = b
      · subst hy; exact ⟨[], by simpa [setDir] using hg2⟩
      · simpa [setDir, hy] using hwf y
    · intro y
      by_cases hy : y = b
      · subst hy; simp only [view, setDir, if_true, hx, good_view hg2, good_view hg]; rfl
      · simp [view, setDir, hy]

/-- **orphans_harmless (2).**  No later operation's result depends on such residue: two well-formed stores in which the
    operation's mailbox reads the same (whatever else their directories hold, whatever chunking / unlink order / layout)
    read the same after the operation. -/
theorem orphans_harmless (C : Codec) (ch ch' : Chooser) (lay lay' : Layout) (cap : Nat) (s t : FS) (op : Op)
    (hs : WF C s) (ht : WF C t) (hfs : Fresh C s op) (hft : Fresh C t op) (hv : view C s op.box = view C t op.box) :
    view C (runOp C Variant.safe ch lay cap op s) op.box = view C (runOp C Variant.safe ch' lay' cap op t) op.box := by
  obtain ⟨_, _, V0, V, h0, h1, h2⟩ := op_complete C ch lay cap s op hs hfs
  obtain ⟨_, _, W0, W, g0, g1, g2⟩ := op_complete C ch' lay' cap t op ht hft
  rw [h0, g0] at hv
  cases hv
  rw [h1, g1, ← h2, g2]

/-- **accepts_mail_after.**  From every well-formed state — in particular from every crash state of `crash_atomic` — a
    further delivery succeeds (no system call fails) and the mailbox then lists the new message LAST with its full content. -/
theorem accepts_mail_after (C : Codec) (ch : Chooser) (lay : Layout) (cap : Nat) (s : FS) (b : Bytes) (id : Nat) (hdr : Meta) (src : Bytes)
    (hwf : WF C s) (hfresh : Fresh C s (.add b id hdr src)) :
    allOk (s.dirs b) (program C Variant.safe ch lay cap (.add b id hdr src) s) = true ∧
    ∃ V, view C (runOp C Variant.safe ch lay cap (.add b id hdr src) s) b = some V ∧ V.getLast? = some (newEnt id hdr src, some src) := by
  obtain ⟨hok, _, V0, V, _, h1, h2⟩ := op_complete C ch lay cap s (.add b id hdr src) hwf hfresh
  refine ⟨hok, V, h1, ?_⟩
  simp only [unitViews, List.getLast?_append, List.getLast?_singleton, Option.some_or] at h2
  cases h2
  simp

/-- crash anywhere, restart, deliver: the composition of `crash_atomic` and `accepts_mail_after` -/
theorem crash_then_deliver (C : Codec) (ch ch' : Chooser) (lay lay' : Layout) (cap cap' : Nat) (s : FS) (op : Op) (k : Nat)
    (hwf : WF C s) (hfresh : Fresh C s op) (b : Bytes) (id : Nat) (hdr : Meta) (src : Bytes)
    (hf2 : Fresh C (runPrefix k op.box (program C Variant.safe ch lay cap op s) s) (.add b id hdr src)) :
    let s' := runPrefix k op.box (program C Variant.safe ch lay cap op s) s
    allOk (s'.dirs b) (program C Variant.safe ch' lay' cap' (.add b id hdr src) s') = true ∧
    ∃ V, view C (runOp C Variant.safe ch' lay' cap' (.add b id hdr src) s') b = some V ∧ V.getLast? = some (newEnt id hdr src, some src) :=
  accepts_mail_after C ch' lay' cap' _ b id hdr src (crash_atomic C ch lay cap s op k hwf hfresh).1 hf2

/-- the chunking quantifier really covers partial writes: with byte-wise write(2) calls EVERY byte prefix of the body is the
    content of the raw file at some crash point (`crash_atomic` holds at all of them) -/
theorem every_byte_prefix (x : MDir) (id : Nat) (src : Bytes) (j : Nat) (hj : j ≤ src.length) :
    runDir (some x) ((writeRawP Chooser.bytewise (some x) id src).take (1 + j)) = some { x with raws := rawSet x.raws id (src.take j) } := by
  have h1 : writeRawP Chooser.bytewise (some x) id src = [FsStep.createRaw id] ++ ((src.map ([·])).map (FsStep.appendRaw id) ++ [FsStep.closeRaw id]) := by
    simp [writeRawP, Chooser.bytewise]
  have h2 : ([FsStep.createRaw id] ++ ((src.map ([·])).map (FsStep.appendRaw id) ++ [FsStep.closeRaw id])).take (1 + j)
      = [FsStep.createRaw id] ++ ((src.take j).map ([·])).map (FsStep.appendRaw id) := by
    simp [List.take_append, Nat.add_comm 1 j, List.map_take, Nat.sub_eq_zero_of_le hj]
  rw [h1, h2, runDir_append]
  have h3 := run_appends x id ((src.take j).map ([·])) []
  have h4 : (List.map (fun x => [x]) (List.take j src)).flatten = src.take j := by
    induction (List.take j src) <;> simp_all
  simp only [h4, List.nil_append] at h3
  have h5 : runDir (some x) [FsStep.createRaw id] = some { x with raws := rawSet x.raws id [] } := by simp [runDir, applyDir, onDir]
  rw [h5, h3]

/-- the empty store is well-formed, and complete operations and crashes keep it so: `WF` holds after every history -/
theorem wf_init (C : Codec) : WF C FS.init := fun _ => ⟨[], rfl⟩

/-! ### non-vacuity: a concrete history, its crash points -/

section Concrete
open Ibx.Model.FsCodec

def hdr0 : Meta := { sender := [115], rcpts := [[114]], subject := [120], date := 1700000000 }
def lay0 : Layout := { names := [[97], [98]], l1 := fun _ => 1, l2 := fun b => b.length }
def boxA : Bytes := [97]

/-- two deliveries to mailbox "a" (bodies "hello", "yo") -/
def s1 : FS := runOp lp Variant.safe Chooser.bytewise lay0 0 (.add boxA 1 hdr0 [104, 101, 108, 108, 111]) FS.init
def s2 : FS := runOp lp Variant.safe Chooser.bytewise lay0 0 (.add boxA 2 hdr0 [121, 111]) s1

theorem wf_s2 : WF lp s2 :=
  (op_complete lp _ _ _ s1 _ (op_complete lp _ _ _ FS.init _ (wf_init lp) (by intro l h; simp [listing, dlisting, FS.init] at h; simp [h])).2.1
    (by intro l h; have : listing lp s1 boxA = some [newEnt 1 hdr0 [104, 101, 108, 108, 111]] := by decide
        rw [this] at h; cases h; decide)).2.1

example : view lp s2 boxA = some [(newEnt 1 hdr0 [104, 101, 108, 108, 111], some [104, 101, 108, 108, 111]), (newEnt 2 hdr0 [121, 111], some [121, 111])] := by decide

example : Fresh lp s2 (.add boxA 3 hdr0 [33]) := by
  intro l h
  have : listing lp s2 boxA = some [newEnt 1 hdr0 [104, 101, 108, 108, 111], newEnt 2 hdr0 [121, 111]] := by decide
  rw [this] at h; cases h; decide

/-- a capped delivery (cap 2, two messages present): the program has 1 eviction then the add; the crash point right after
    the eviction's rename shows the mailbox with the oldest message gone and nothing else changed -/
example : view lp (runPrefix 5 boxA (program lp Variant.safe Chooser.whole lay0 2 (.add boxA 3 hdr0 [33]) s2) s2) boxA =
    some [(newEnt 2 hdr0 [121, 111], some [121, 111])] := by decide

example : unitViews 2 [(newEnt 1 hdr0 [104], some [104]), (newEnt 2 hdr0 [121], some [121])] (.add boxA 3 hdr0 [33]) =
    [[(newEnt 1 hdr0 [104], some [104]), (newEnt 2 hdr0 [121], some [121])], [(newEnt 2 hdr0 [121], some [121])],
     [(newEnt 2 hdr0 [121], some [121]), (newEnt 3 hdr0 [33], some [33])]] := by decide

end Concrete

/-! ### counter-examples: the ORIGINAL variants (what the two fixes bought) -/

section Counter
open Ibx.Model.FsCodec

/-- ORIGINAL writeIndex (`os.Create(index.gob)` on the live file): for EVERY codec, mailbox and new list, the state right
    after that create — the first primitive of the index rewrite of an existing mailbox — is unreadable: the live index is
    the empty file, which does not decode.  `listing = none` is the "corrupt mailbox" error of every operation on the
    mailbox and aborts VisitMailboxes (and so retention) for the whole store. -/
theorem inplace_truncation_unreadable (C : Codec) (ch : Chooser) (r : RemoveDirOrder) (b : Bytes) (x : MDir) (l : List FEnt) :
    dlisting C (runDir (some x) ((writeIndexP C { indexWrite := .inPlace, removeDir := r } ch b (some x) l).take 1)) = none := by
  simp [writeIndexP, runDir, applyDir, onDir, dlisting, C.dec_nil]

/-- ORIGINAL writeIndex, later crash points: while the new encoding is being written into the live file the mailbox is
    unreadable, or — worse, silently — lists only a STRICT PREFIX of the new entries (gob decodes message by message, so
    a cut at a message boundary is a clean EOF): messages that were never touched by the operation are gone without any error. -/
theorem inplace_prefix_loses (C : Codec) (b : Bytes) (x : MDir) (l : List FEnt) (p : Bytes) (hp : p <+: C.enc (b, l)) (hne : p ≠ C.enc (b, l)) :
    dlisting C (some { x with index := some p }) = none ∨
    ∃ l', dlisting C (some { x with index := some p }) = some l' ∧ l' <+: l ∧ l' ≠ l := by
  rcases C.dec_prefix b l p hp hne with h | ⟨l', h1, h2, h3⟩
  · left; simp [dlisting, h]
  · right; exact ⟨l', by simp [dlisting, h1], h2, h3⟩

/-- the named failing crash point of the in-place index write, end to end on the concrete codec: mark message 1 of the
    two-message mailbox seen with the ORIGINAL code, crash after the first primitive (the truncating create): the store is
    not readable -/
theorem original_index_write_fails :
    ¬ Readable lp (runPrefix 1 boxA (program lp { indexWrite := .inPlace, removeDir := .indexFirst } Chooser.bytewise lay0 0 (.seen boxA 1) s2) s2) := by
  intro h
  have := h boxA
  revert this
  decide

/-- … and the silent one: the same operation cut at the gob-like message boundary after the first entry lists ONE message
    without error — message 2, which the operation never touched, is lost -/
theorem original_index_write_loses_message :
    ∃ k, listing lp (runPrefix k boxA (program lp { indexWrite := .inPlace, removeDir := .indexFirst } Chooser.bytewise lay0 0 (.seen boxA 1) s2) s2) boxA =
      some [{ newEnt 1 hdr0 [104, 101, 108, 108, 111] with seen := true }] := by
  refine ⟨1 + (putBytes boxA ++ putBytes (encEnt { newEnt 1 hdr0 [104, 101, 108, 108, 111] with seen := true })).length, ?_⟩
  decide

/-- the same crash points with the CURRENT code are harmless (instances of `crash_atomic`) -/
example : ∀ k, Readable lp (runPrefix k boxA (program lp Variant.safe Chooser.bytewise lay0 0 (.seen boxA 1) s2) s2) :=
  fun k => (crash_atomic lp Chooser.bytewise lay0 0 s2 (.seen boxA 1) k wf_s2 trivial).2.1

/-- ORIGINAL removeDir (`os.RemoveAll` with the index still in place): RemoveAll may meet a raw file before index.gob
    (directory order is arbitrary); purge the two-message mailbox, crash after the first unlink: the mailbox still lists
    both messages but one of them has no content — Source() fails -/
theorem original_removeDir_fails :
    ∃ V, view lp (runPrefix 1 boxA (program lp { indexWrite := .tmpRename, removeDir := .removeAllFirst } Chooser.bytewise lay0 0 (.purge boxA) s2) s2) boxA = some V ∧
      ∃ p ∈ V, p.2 = none := by
  refine ⟨[(newEnt 1 hdr0 [104, 101, 108, 108, 111], none), (newEnt 2 hdr0 [121, 111], some [121, 111])], by decide, _, List.mem_cons_self, rfl⟩

/-- with the CURRENT removeDir every crash point of the same purge lists the mailbox as before or as empty -/
example : ∀ k, ∃ V, view lp (runPrefix k boxA (program lp Variant.safe Chooser.bytewise lay0 0 (.purge boxA) s2) s2) boxA = some V ∧
    (V = [] ∨ ∀ p ∈ V, p.2 ≠ none) := by
  intro k
  obtain ⟨hwf', _, _, V0, V, h0, h1, h2⟩ := crash_atomic lp Chooser.bytewise lay0 0 s2 (.purge boxA) k wf_s2 trivial
  refine ⟨V, h1, ?_⟩
  by_cases hV : V = []
  · exact Or.inl hV
  · right
    intro p hp
    obtain ⟨r, hr, _⟩ := listed_complete lp _ hwf' boxA V h1 p hp
    simp [hr]

end Counter

end Ibx.Props.C11
