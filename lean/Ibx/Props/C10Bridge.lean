import Ibx.Props.C11Bridge
/-
  C10 (bridge) — durability across CRASHES, against the ordered-mailbox spec.

  Ibx/Props/C10.lean covers restarts BETWEEN operations (the sequential model has no volatile state); crashes INSIDE an
  operation are C11.  With the bridge of Ibx/Lemmas/CrashBridge.lean the two compose: for every history of the
  step-level store in which any operations run to completion and any others are cut short after any number of
  file-system primitives (process crash, then restart from the crash image),

      recover ∘ (history with crashes)   reads as   Spec.run (completed operations + a prefix of the atomic units of each
                                                              interrupted one),

  in every mailbox: ids (through an injective renaming), order, metadata, seen flags and contents.
  Generator hypothesis: `FreshH` — every delivery's id is not LISTED in its mailbox at that moment (C11's `Fresh`, what the
  re-draw loop of the F-10 fix guarantees); see Ibx/Props/C11Bridge.lean for what the stronger C10 hypothesis adds.
-/
namespace Ibx.Props.C10Bridge
open Ibx Ibx.Model.FsSteps Ibx.Lemmas.Crash Ibx.Lemmas.FileRefine Ibx.Lemmas.CrashBridge
open Ibx.Props.C11 (WF Fresh wf_init)
open Ibx.Props.C11Bridge (idRen idRen_inj FSempty Sempty)
open Ibx.Spec.Store (Meta Msg Store Cfg Out Ev)
open Ibx.Model.FsCodec (lp)

/-- **durable_from.**  From any state satisfying the invariant (well-formed, abstracting to a sequential file system
    that is `RF`-related to the spec state `σ`): after ANY history of completed and crashed operations, what a fresh
    process recovers is, mailbox by mailbox, the listing of `Spec.run σ ops` where `ops` EXPLAINS the history
    (`Explains`: a completed operation contributes itself, a crashed one a prefix of its atomic units) — and the
    invariant holds again. -/
theorem durable_from (C : Codec) (lay : Layout) (c : Cfg) (h : List HEv) (s : SFS) (ρ : Ren) (f : QFS) (σ : Store)
    (hρ : RenInj ρ) (hwf : WF C s) (habs : Abs C ρ s f) (hrf : RF f σ) (hfr : FreshH C lay c.cap s h) :
    ∃ (ρ' : Ren) (ops : List AOp), RenInj ρ' ∧
      Explains c ρ σ h ρ' (Spec.Store.run (noLimit c) σ ops).1 ops ∧
      (∀ b, ∃ V, recover C (runH C lay c.cap s h) b = some V ∧
        V.map (msgOfV ρ' b) = slisting (Spec.Store.run (noLimit c) σ ops).1 b) ∧
      WF C (runH C lay c.cap s h) ∧
      ∃ f', Abs C ρ' (runH C lay c.cap s h) f' ∧ RF f' (Spec.Store.run (noLimit c) σ ops).1 := by
  obtain ⟨ρ', σ', ops, f', he, h1, h2, h3, h4⟩ := history_explained C lay c h s ρ f σ hρ hwf habs hrf hfr
  have hσ := explains_run he
  subst hσ
  exact ⟨ρ', ops, h1, he, (abs_iff h4).1 h3, h2, f', h3, h4⟩

/-- **durable_across_crashes.**  The same from the empty directory tree: every history of the file store with crashes
    anywhere recovers to a state of the ordered-mailbox spec reached by the completed operations plus at most a prefix
    of each interrupted one. -/
theorem durable_across_crashes (C : Codec) (lay : Layout) (c : Cfg) (h : List HEv) (hfr : FreshH C lay c.cap FS.init h) :
    ∃ (ρ : Ren) (ops : List AOp), RenInj ρ ∧
      Explains c idRen Sempty h ρ (Spec.Store.run (noLimit c) Sempty ops).1 ops ∧
      (∀ b, ∃ V, recover C (runH C lay c.cap FS.init h) b = some V ∧
        V.map (msgOfV ρ b) = slisting (Spec.Store.run (noLimit c) Sempty ops).1 b) ∧
      WF C (runH C lay c.cap FS.init h) := by
  obtain ⟨ρ, ops, h1, h2, h3, h4, _⟩ :=
    durable_from C lay c h FS.init idRen FSempty Sempty idRen_inj (wf_init C) (abs_init C idRen) RF_empty hfr
  exact ⟨ρ, ops, h1, h2, h3, h4⟩

/-- without crashes the explanation is the history itself, operation by operation -/
theorem explains_no_crash {c : Cfg} {ρ ρ' : Ren} {σ σ' : Store} {h : List HEv} {ops : List AOp} (e : Explains c ρ σ h ρ' σ' ops)
    (hd : ∀ ev ∈ h, ∃ op ch, ev = HEv.done op ch) : ops.length = h.length := by
  induction e with
  | nil => rfl
  | done _ ih => simp [ih (fun ev hev => hd ev (by simp [hev]))]
  | crashed _ _ _ _ =>
    obtain ⟨op, ch, hh⟩ := hd _ (List.mem_cons_self)
    cases hh

/-- a crashed delivery contributes at most its units: one `remove` per eviction, plus the add; any other crashed
    operation at most itself -/
theorem explains_crash_bound {c : Cfg} {σ : Store} {b : Bytes} {hdr : Meta} {src : Bytes} {us : List AOp}
    (h : us <+: unitOps c σ (.add b hdr src)) : us.length ≤ evictCount c.cap (slisting σ b).length + 1 := by
  have hl := h.length_le
  simp only [unitOps, List.length_append, List.length_map, List.length_take, List.length_cons, List.length_nil] at hl
  omega

/-! ### non-vacuity: two deliveries, then a capped delivery killed right after its eviction, then restart -/

section Concrete
open Ibx.Props.C11 (hdr0 lay0 boxA)
open Ibx.Props.C11Bridge (cfg2)

def hist3 : List HEv :=
  [.done (.add boxA 1 hdr0 [104, 101, 108, 108, 111]) Chooser.bytewise, .done (.add boxA 2 hdr0 [121, 111]) Chooser.bytewise,
   .crashed (.add boxA 3 hdr0 [33]) Chooser.whole 5]

theorem fresh_hist3 : FreshH lp lay0 cfg2.cap FS.init hist3 := by
  refine ⟨?_, ?_, ?_, trivial⟩
  · intro l h; simp [listing, dlisting, FS.init] at h; simp [h]
  · intro l h
    have : listing lp (stepH lp lay0 cfg2.cap FS.init (hist3.get ⟨0, by decide⟩)) boxA = some [newEnt 1 hdr0 [104, 101, 108, 108, 111]] := by decide
    have h' : listing lp (stepH lp lay0 cfg2.cap FS.init (hist3.get ⟨0, by decide⟩)) boxA = some l := h
    rw [this] at h'; cases h'; decide
  · intro l h
    have : listing lp (runH lp lay0 cfg2.cap FS.init (hist3.take 2)) boxA =
        some [newEnt 1 hdr0 [104, 101, 108, 108, 111], newEnt 2 hdr0 [121, 111]] := by decide
    have h' : listing lp (runH lp lay0 cfg2.cap FS.init (hist3.take 2)) boxA = some l := h
    rw [this] at h'; cases h'; decide

/-- what is recovered after the crash: message 2 alone (message 1 evicted, the new one not there) … -/
example : recover lp (runH lp lay0 cfg2.cap FS.init hist3) boxA = some [(newEnt 2 hdr0 [121, 111], some [121, 111])] := by decide

/-- … which is the spec after the two deliveries and ONE unit (the eviction) of the third -/
example : slisting (Spec.Store.run cfg2 Sempty [.add boxA hdr0 [104, 101, 108, 108, 111], .add boxA hdr0 [121, 111], .remove boxA 1]).1 boxA =
    [{ box := boxA, id := 2, hdr := hdr0, seen := false, source := [121, 111] }] := by decide

example : ∃ ρ ops, RenInj ρ ∧ ∀ b, ∃ V, recover lp (runH lp lay0 cfg2.cap FS.init hist3) b = some V ∧
    V.map (msgOfV ρ b) = slisting (Spec.Store.run (noLimit cfg2) Sempty ops).1 b := by
  obtain ⟨ρ, ops, h1, _, h3, _⟩ := durable_across_crashes lp lay0 cfg2 hist3 fresh_hist3
  exact ⟨ρ, ops, h1, h3⟩

end Concrete

end Ibx.Props.C10Bridge
