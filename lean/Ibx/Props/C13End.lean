import Ibx.Props.C13
import Ibx.Lemmas.Pop3End
/-
  C13 (extension) — every way a POP3 session can end, by kind (EOF, idle timeout, other network error, unwritable
  reply), in every state: what is replied last, and that NO deletion is committed unless QUIT was processed in the
  TRANSACTION state.  And the exits of sendMessage / sendMessageTop after "+OK" when `Message.Source()` fails or the
  scanner fails: what goes over the wire, and that the session state (marks included) does not notice.
  For ALL command sequences, store contents and histories, fault oracles and end kinds.
-/
namespace Ibx.Props.C13End
open Ibx Ibx.Model.Pop3 Ibx.Lemmas.Pop3 Ibx.Lemmas.Pop3End Ibx.Props.C13

/-! ### the end kinds -/

/-- the loop ends by EOF / a read error only at the end of the input, in the state it was in: not QUIT -/
private theorem run_read_end (term : Term) (s : St) (evs : List Ev)
    (h : (run term s evs).ending = .eof ∨ (run term s evs).ending = .readError) :
    (run term s evs).final.phase ≠ .quit := by
  induction evs generalizing s with
  | nil =>
    unfold run at h ⊢
    split
    · rename_i hq; simp [hq] at h
    · rename_i hq; cases term <;> simpa using hq
  | cons e evs ih =>
    unfold run at h ⊢
    split
    · rename_i hq; simp [hq] at h
    · rename_i hq
      simp only [if_neg hq] at h
      split
      · simp_all
      · simp_all
      · rename_i s' r rm hs
        simp only [hs] at h
        split
        · rename_i hso
          simp only [hso, if_true] at h
          exact ih s' h
        · rename_i hso
          simp [hso] at h

/-- which endings a session has: never a panic, never "unexpected state" (C13.session_never_panics) -/
theorem ending_cases (t : TermX) (flt : Bytes → SrcFault) (evs : List Ev) :
    (sessionX t flt evs).base.ending = .quit ∨ (sessionX t flt evs).base.ending = .eof ∨
    (sessionX t flt evs).base.ending = .readError ∨ (sessionX t flt evs).base.ending = .sendError := by
  have := session_never_panics t.toTerm evs
  have h3 : (session t.toTerm evs).ending ≠ .tlsFail := (loop_endings t.toTerm St.init inv_init evs).2.2
  simp only [sessionX]
  cases h : (session t.toTerm evs).ending <;> simp_all

/-- **Deletions commit only on QUIT.**  Whatever the commands, the store history, the source faults and the way the
    session ends: either no `RemoveMessage` call is made at all, or QUIT was processed in a reachable TRANSACTION state
    `sq`, the session ended in state QUIT right there, and the calls are exactly the ids marked in `sq`. -/
theorem pop3_no_commit_without_quit (t : TermX) (flt : Bytes → SrcFault) (evs : List Ev) :
    (sessionX t flt evs).base.removed = [] ∨
    ∃ sq, Reach sq ∧ sq.phase = .trans ∧ (sessionX t flt evs).base.final = { sq with phase := .quit } ∧
      (sessionX t flt evs).base.removed = markedIds sq :=
  quit_commits_exactly_session t.toTerm evs

/-- A session whose loop ended because the read failed — EOF, idle timeout or any other error, in ANY state, with
    any marks set — has issued no `RemoveMessage` call. -/
theorem read_failure_commits_nothing (t : TermX) (flt : Bytes → SrcFault) (evs : List Ev)
    (h : (sessionX t flt evs).base.ending = .eof ∨ (sessionX t flt evs).base.ending = .readError) :
    (sessionX t flt evs).base.removed = [] ∧ (sessionX t flt evs).base.final.phase ≠ .quit := by
  have hq : (session t.toTerm evs).final.phase ≠ .quit := run_read_end t.toTerm St.init evs h
  exact ⟨no_quit_no_removal t.toTerm evs hq, hq⟩

/-- … and so has every session that does not end in state QUIT (this includes an unwritable reply to any command
    other than QUIT). -/
theorem no_quit_state_commits_nothing (t : TermX) (flt : Bytes → SrcFault) (evs : List Ev)
    (h : (sessionX t flt evs).base.final.phase ≠ .quit) : (sessionX t flt evs).base.removed = [] :=
  no_quit_no_removal t.toTerm evs h

/-- the last reply by kind: "-ERR Idle timeout, bye bye" exactly when the read timed out while the loop was reading,
    "-ERR Connection error, sorry" exactly for another error, nothing for EOF and nothing once the session is over -/
theorem pop3_end_reply_exact (t : TermX) (flt : Bytes → SrcFault) (evs : List Ev) :
    ((sessionX t flt evs).bye = some .idle ↔ (t = .timeout ∧ (sessionX t flt evs).base.ending = .readError)) ∧
    ((sessionX t flt evs).bye = some .connErr ↔ (t = .neterr ∧ (sessionX t flt evs).base.ending = .readError)) ∧
    ((sessionX t flt evs).bye = none ↔ (t = .eof ∨ (sessionX t flt evs).base.ending ≠ .readError)) := by
  simp only [sessionX]
  cases t <;> cases h : (session _ evs).ending <;> simp_all [byeOf, TermX.toTerm]

theorem bye_texts :
    byeText .idle = Bytes.ofAscii "-ERR Idle timeout, bye bye" ∧
    byeText .connErr = (Bytes.ofAscii "-ERR Connection error, s" ++ Bytes.ofAscii "orry") := by decide

private theorem run_term_replies (s : St) (evs : List Ev) :
    ((run .eof s evs).ending = .eof ∧ (run .readError s evs).ending = .readError ∧
      (run .readError s evs).replies = (run .eof s evs).replies ++ [.err] ∧
      (run .readError s evs).removed = (run .eof s evs).removed ∧ (run .readError s evs).final = (run .eof s evs).final) ∨
    ((run .eof s evs).ending ≠ .eof ∧ run .readError s evs = run .eof s evs) := by
  induction evs generalizing s with
  | nil =>
    by_cases hq : s.phase = .quit
    · right; simp [run, hq]
    · left; simp [run, hq]
  | cons e evs ih =>
    by_cases hq : s.phase = .quit
    · right; simp [run, hq]
    · cases hs : step e.store s e.line with
      | panic => right; simp [run, hq, hs]
      | badState => right; simp [run, hq, hs]
      | ok s' r rm =>
        by_cases hso : e.sendOk = true
        · rcases ih s' with ⟨h1, h2, h3, h4, h5⟩ | ⟨h1, h2⟩
          · left; simp [run, hq, hs, hso, h1, h2, h3, h4, h5]
          · right; simp [run, hq, hs, hso, h1, h2]
        · right; simp [run, hq, hs, hso]

private theorem run_eof_not_readError (s : St) (evs : List Ev) : (run .eof s evs).ending ≠ .readError := by
  induction evs generalizing s with
  | nil => by_cases hq : s.phase = .quit <;> simp [run, hq]
  | cons e evs ih =>
    by_cases hq : s.phase = .quit
    · simp [run, hq]
    · cases hs : step e.store s e.line with
      | panic => simp [run, hq, hs]
      | badState => simp [run, hq, hs]
      | ok s' r rm =>
        by_cases hso : e.sendOk = true
        · simpa [run, hq, hs, hso] using ih s'
        · simp [run, hq, hs, hso]

/-- A read error differs from EOF by ONE "-ERR" line at the very end — in every state, after any history — and by
    nothing else: same replies before, same removals (none), same final state.  When the session ended otherwise
    (QUIT, unwritable reply) the kind of read failure is irrelevant. -/
theorem read_error_adds_one_err (flt : Bytes → SrcFault) (evs : List Ev) (t : TermX) (ht : t ≠ .eof) :
    ((sessionX .eof flt evs).base.ending = .eof ∧ (sessionX t flt evs).base.ending = .readError ∧
      (sessionX t flt evs).base.replies = (sessionX .eof flt evs).base.replies ++ [.err] ∧
      (sessionX t flt evs).base.removed = [] ∧ (sessionX t flt evs).base.final = (sessionX .eof flt evs).base.final) ∨
    ((sessionX .eof flt evs).base.ending ≠ .eof ∧ (sessionX t flt evs).base = (sessionX .eof flt evs).base ∧
      (sessionX t flt evs).bye = none) := by
  have htt : t.toTerm = .readError := by cases t <;> simp_all [TermX.toTerm]
  have hte : TermX.eof.toTerm = .eof := rfl
  simp only [sessionX, htt, hte, session]
  rcases run_term_replies St.init evs with ⟨h1, h2, h3, h4, h5⟩ | ⟨h1, h2⟩
  · left
    refine ⟨h1, h2, by simp [h3], ?_, h5⟩
    have := no_quit_no_removal .readError evs (run_read_end .readError St.init evs (.inr h2))
    simpa [session] using this
  · right
    refine ⟨h1, by rw [h2], ?_⟩
    rw [h2]
    have hne := run_eof_not_readError St.init evs
    cases hh : (run .eof St.init evs).ending <;> cases t <;> simp_all [byeOf]

/-- two marks set, then the idle timeout / a reset connection / EOF: nothing removed, one -ERR line or none -/
example : (sessionX .timeout (fun _ => .none) [ev cUSER, ev cPASS, ev cDELE1, ev cDELE2]).base.removed = [] ∧
    (sessionX .timeout (fun _ => .none) [ev cUSER, ev cPASS, ev cDELE1, ev cDELE2]).bye = some .idle ∧
    (sessionX .neterr (fun _ => .none) [ev cUSER, ev cPASS, ev cDELE1, ev cDELE2]).bye = some .connErr ∧
    (sessionX .eof (fun _ => .none) [ev cUSER, ev cPASS, ev cDELE1, ev cDELE2]).bye = none ∧
    (sessionX .timeout (fun _ => .none) [ev cUSER, ev cPASS, ev cDELE1, ev cDELE2]).base.final.retain = [false, false] := by
  decide
/-- timeout in AUTHORIZATION -/
example : (sessionX .timeout (fun _ => .none) [ev cUSER]).bye = some .idle ∧
    (sessionX .timeout (fun _ => .none) [ev cUSER]).base.replies = [.ok, .ok, .err] := by decide
/-- the positive side: QUIT in TRANSACTION commits, and a timeout "after" it is never seen -/
example : (sessionX .timeout (fun _ => .none) [ev cUSER, ev cPASS, ev cDELE2, ev cQUIT]).base.removed = [[50]] ∧
    (sessionX .timeout (fun _ => .none) [ev cUSER, ev cPASS, ev cDELE2, ev cQUIT]).bye = none := by decide
/-- QUIT in AUTHORIZATION ends in state QUIT and removes nothing -/
example : (sessionX .eof (fun _ => .none) [ev cQUIT]).base.final.phase = .quit ∧
    (sessionX .eof (fun _ => .none) [ev cQUIT]).base.removed = [] := by decide

/-! ### Source() / scanner failures after "+OK" -/

/-- The state machine does not notice a source fault: next state (marks, counters, phase), reply class and payload,
    and removals are exactly those of the fault-free step.  The session CONTINUES; no mark is lost or set. -/
theorem pop3_source_failure_state_unchanged (flt : Bytes → SrcFault) (store : Bytes → List Msg) (s : St) (line : Bytes) :
    (stepF flt store s line).out = step store s line := rfl

/-- A fault reply occurs only for a RETR / TOP that passed all argument checks (status line "+OK" already sent), for
    a message whose oracle is not `none`; state unchanged, nothing removed. -/
theorem pop3_source_failure_only_retr_top (flt : Bytes → SrcFault) (store : Bytes → List Msg) (s : St) (line : Bytes)
    (fr : FaultReply) (h : (stepF flt store s line).fault = some fr) :
    ∃ m k, target s line = some (m, k) ∧ flt m.id ≠ .none ∧
      ((fr = sendMessageF (flt m.id) m.src ∧ ∃ s' z ls rm, step store s line = .ok s' (.okRetr z ls) rm) ∨
       (∃ n, k = some n ∧ fr = sendMessageTopF (flt m.id) m.src n ∧ ∃ s' ls rm, step store s line = .ok s' (.okTop ls) rm)) := by
  simp only [stepF, faultOf] at h
  split at h
  · rename_i s' z ls rm ho
    split at h
    · rename_i m k ht
      split at h
      · simp at h
      · rename_i hne
        simp only [Option.some.injEq] at h
        exact ⟨m, k, ht, hne, .inl ⟨h.symm, s', z, ls, rm, ho⟩⟩
    · simp at h
  · rename_i s' ls rm ho
    split at h
    · rename_i m n ht
      split at h
      · simp at h
      · rename_i hne
        simp only [Option.some.injEq] at h
        exact ⟨m, some n, ht, hne, .inr ⟨n, rfl, h.symm, s', ls, rm, ho⟩⟩
    · simp at h
  · simp at h

/-- **The session continues exactly as the code does**: the command with the failing source leaves the session in the
    very same state — same marks, same counters, TRANSACTION — removes nothing, and the loop goes on with the next
    command.  (handler.go: sendMessage / sendMessageTop `return` to the loop; only `sendError` could end it.) -/
theorem pop3_source_failure_session_continues (flt : Bytes → SrcFault) (store : Bytes → List Msg) (s : St) (line : Bytes)
    (fr : FaultReply) (h : (stepF flt store s line).fault = some fr) :
    s.phase = .trans ∧ ∃ r, (stepF flt store s line).out = .ok s r [] := by
  obtain ⟨m, k, _, _, hc⟩ := pop3_source_failure_only_retr_top flt store s line fr h
  rcases hc with ⟨_, s', z, ls, rm, hs⟩ | ⟨_, _, _, s', ls, rm, hs⟩
  · obtain ⟨rfl, rfl, hp⟩ := step_retr_same store s line s' _ rm hs (.inl ⟨z, ls, rfl⟩)
    exact ⟨hp, _, hs⟩
  · obtain ⟨rfl, rfl, hp⟩ := step_retr_same store s line s' _ rm hs (.inr ⟨ls, rfl⟩)
    exact ⟨hp, _, hs⟩

/-- `Source()` fails (a message that vanished from the store after login): after the status line "+OK …" that was
    already sent comes the single line "-ERR Failed to RETR that message, internal error" — and NO terminating ".":
    the multi-line response the "+OK" announced is never closed. -/
theorem pop3_source_open_failure_reply (src : Bytes) (n : Nat) :
    sendMessageF .openFails src = ⟨[], .err⟩ ∧ sendMessageTopF .openFails src n = ⟨[], .err⟩ := ⟨rfl, rfl⟩

/-- The reader fails after `k` bytes: RETR sends every line of the first `k` bytes (the unterminated rest included),
    then ".", then the -ERR line. -/
theorem pop3_source_read_failure_retr (src : Bytes) (k : Nat) :
    sendMessageF (.readFails k) src = ⟨retrLines (src.take k), .dotErr⟩ := rfl

/-- … and TOP sends the lines `topLoop` selects from those bytes, then "." and — unless the loop stopped early on a
    complete line — the -ERR line. -/
theorem pop3_source_read_failure_top (src : Bytes) (k n : Nat) :
    (sendMessageTopF (.readFails k) src n).lines = topLines (src.take k) n ∧
    (sendMessageTopF (.readFails k) src n).tail ≠ .err := by
  constructor
  · simp only [sendMessageTopF, topLines]
    generalize scanLines (src.take k) = toks
    suffices h : ∀ (inBody : Bool) (n : Nat) (acc : List Bytes), (topLoopB toks inBody n acc).1 = topLoop toks inBody n acc from h _ _ _
    induction toks with
    | nil => intro _ _ _; simp [topLoopB, topLoop]
    | cons l ls ih =>
      intro inBody n acc
      unfold topLoopB topLoop
      simp only
      split
      · split
        · rfl
        · exact ih ..
      · exact ih ..
  · simp only [sendMessageTopF]
    split <;> (try split) <;> simp

/-- no fault oracle whatsoever changes what the session does to its state or to the store -/
theorem pop3_source_failure_marks_kept (t : TermX) (flt1 flt2 : Bytes → SrcFault) (evs : List Ev) :
    (sessionX t flt1 evs).base = (sessionX t flt2 evs).base := rfl

def cRETR2 : Bytes := kRETR ++ [32, 50, 13, 10]
def cTOP2 : Bytes := kTOP ++ [32, 50, 32, 48, 13, 10]
/-- message 2 (".\n..x\n") vanished: "+OK 6 bytes follows" then "-ERR", state `exSt` (mark on 2) kept -/
example : (stepF (fun i => if i = [50] then .openFails else .none) exStore exSt cRETR2).fault = some ⟨[], .err⟩ ∧
    (stepF (fun i => if i = [50] then .openFails else .none) exStore exSt cRETR2).out = .ok exSt (.okRetr 6 [[46, 46], [46, 46, 46, 120]]) [] := by
  decide
/-- its reader fails after 3 bytes (".\n."): "..", "..", ".", "-ERR" -/
example : (stepF (fun i => if i = [50] then .readFails 3 else .none) exStore exSt cRETR2).fault =
    some ⟨[[46, 46], [46, 46]], .dotErr⟩ := by decide
example : (stepF (fun i => if i = [50] then .readFails 3 else .none) exStore exSt cTOP2).fault =
    some ⟨[[46, 46], [46, 46]], .dotErr⟩ := by decide
/-- message 1 is healthy: no fault reply -/
example : (stepF (fun i => if i = [50] then .openFails else .none) exStore exSt (kRETR ++ [32, 49, 13, 10])).fault = none := by
  decide
/-- a whole session: RETR of the vanished message, then DELE 1 and QUIT still work and commit both marks -/
example : (sessionX .eof (fun i => if i = [50] then .openFails else .none)
      [ev cUSER, ev cPASS, ev cDELE2, ev cRETR2, ev cDELE1, ev cQUIT]).base.removed = [[49], [50]] ∧
    (sessionX .eof (fun i => if i = [50] then .openFails else .none)
      [ev cUSER, ev cPASS, ev cDELE2, ev cRETR2, ev cDELE1, ev cQUIT]).faults =
      [none, none, none, some ⟨[], .err⟩, none, none] := by decide

end Ibx.Props.C13End
