import Ibx.Lemmas.SpecStore
import Ibx.Lemmas.MemRefine
/-
  C07 — the storage back-ends behave as one ordered-mailbox model under any history.
  Part 1: what the abstract model `Spec.Store` guarantees, for every configuration, every reachable
          state and every history (ids, arrival order, latest, missing ids, remove / seen locality,
          read-back).
  Part 2: the memory store model (`Model.Mem`, the code shape of pkg/storage/mem) refines it:
          simulation relation `R`, preserved by every operation with equal answers and events.
  (The file-store refinement is a separate module.)
-/
namespace Ibx.Props.C07
open Ibx Ibx.Spec.Store Ibx.Model.Mem Ibx.Lemmas.SpecStore Ibx.Lemmas.MemRefine

/-! ### sample history used by the non-vacuity examples -/

def exCfg : Cfg := { cap := 2, limit := 10 }
def exOps : List Op :=
  [.add [97] default [1, 2, 3], .add [98] default [4, 5], .add [97] default [6], .remove [98] 1,
   .add [97] default [7, 8, 9, 10]]
def exStore : Store := after exCfg empty exOps

theorem exStore_reachable : Reachable exCfg exStore := ⟨exOps, rfl⟩

/-- the sample really exercises cap eviction and removal: mailbox "a" holds ids 2 and 3 only -/
theorem exStore_pairs : exStore.msgs.map evOf = [([97], 2), ([97], 3)] := by decide

/-! ### Part 1 — the ordered-mailbox model -/

/-- In every reachable state the (mailbox, id) pairs of the live messages are pairwise distinct,
    every id is positive and none exceeds its mailbox's counter. -/
theorem ids_unique (c : Cfg) (s : Store) (h : Reachable c s) :
    (s.msgs.map evOf).Nodup ∧ ∀ x ∈ s.msgs, 1 ≤ x.id ∧ x.id ≤ s.next x.box :=
  ⟨(inv_reachable c s h).nodup, (inv_reachable c s h).bound⟩

example : Reachable exCfg exStore := exStore_reachable

/-- `add` answers the mailbox's counter plus one and advances exactly that counter. -/
theorem add_returns_next_id (c : Cfg) (s : Store) (b : Bytes) (hdr : Meta) (src : Bytes) :
    (step c s (.add b hdr src)).2.1 = .id (s.next b + 1) ∧
    (step c s (.add b hdr src)).1.next b = s.next b + 1 ∧
    ∀ b', b' ≠ b → (step c s (.add b hdr src)).1.next b' = s.next b' := by
  rw [step_add]
  refine ⟨rfl, by simp, ?_⟩
  intro b' hb'; simp [hb']

/-- No operation and no history ever lowers a mailbox's id counter (remove, purge and evictions
    included). -/
theorem next_never_decreases (c : Cfg) (s : Store) (ops : List Op) (b : Bytes) :
    s.next b ≤ (after c s ops).next b :=
  after_next_mono c s ops b

/-- An id is never handed out twice for a mailbox: whatever happens between two deliveries to the
    same mailbox (removals, purges, evictions, other deliveries), the later one gets a strictly
    larger id. -/
theorem ids_never_reused (c : Cfg) (s : Store) (b : Bytes) (hdr hdr' : Meta) (src src' : Bytes)
    (ops : List Op) (i j : Nat)
    (h1 : (step c s (.add b hdr src)).2.1 = .id i)
    (h2 : (step c (after c (step c s (.add b hdr src)).1 ops) (.add b hdr' src')).2.1 = .id j) :
    i < j := by
  have a1 := add_returns_next_id c s b hdr src
  have a2 := add_returns_next_id c (after c (step c s (.add b hdr src)).1 ops) b hdr' src'
  have hm := next_never_decreases c (step c s (.add b hdr src)).1 ops b
  rw [a1.1] at h1; rw [a2.1] at h2
  injection h1 with h1; injection h2 with h2
  omega

example : (step exCfg exStore (.add [97] default [1])).2.1 = .id 4 := by decide

/-- Arrival order: `add` appends the new message to its mailbox's listing; the only other change
    to any listing is the loss of an oldest prefix (eviction). -/
theorem listing_add_appends (c : Cfg) (s : Store) (b : Bytes) (hdr : Meta) (src : Bytes) :
    (∃ k, listing (step c s (.add b hdr src)).1 b =
        (listing s b ++ [newMsg s b hdr src]).drop k) ∧
    ∀ b', b' ≠ b → ∃ k, listing (step c s (.add b hdr src)).1 b' = (listing s b').drop k := by
  constructor
  · obtain ⟨k, hk⟩ := listing_add c s b hdr src b
    exact ⟨k, by rw [hk, listing_add_same]⟩
  · intro b' hb'
    obtain ⟨k, hk⟩ := listing_add c s b hdr src b'
    exact ⟨k, by rw [hk, listing_add_other s b hdr src b' hb']⟩

/-- Operations other than `add` never add to a listing and never reorder it. -/
theorem listing_never_reordered (c : Cfg) (s : Store) (op : Op) (hop : isAdd op = false) (b : Bytes) :
    ((listing (step c s op).1 b).map evOf).Sublist ((listing s b).map evOf) :=
  listing_nonadd c s op hop b

example : isAdd (.purge [97]) = false := rfl

/-- In every reachable state a listing is in strictly increasing id order (arrival order). -/
theorem listing_in_id_order (c : Cfg) (s : Store) (h : Reachable c s) (b : Bytes) :
    ((listing s b).map (·.id)).Pairwise (· < ·) :=
  listing_asc (inv_reachable c s h) b

/-- `list` answers exactly the live messages of the mailbox, oldest first, and changes nothing. -/
theorem list_returns_listing (c : Cfg) (s : Store) (b : Bytes) :
    step c s (.list b) = (s, .msgs (listing s b), []) := rfl

/-- `latest` is the last message of the listing; on an empty mailbox it is `notExist`. -/
theorem latest_is_last (c : Cfg) (s : Store) (b : Bytes) :
    step c s (.latest b) =
      (s, (match (listing s b).getLast? with | some m => .msg m | none => .notExist), []) := by
  simp only [Spec.Store.step]
  cases (listing s b).getLast? <;> rfl

/-- get / seen / remove of an id that is not live answer `notExist`, change nothing and emit no
    event. -/
theorem missing_is_notExist (c : Cfg) (s : Store) (b : Bytes) (i : Nat)
    (h : ¬ ∃ x ∈ s.msgs, x.box = b ∧ x.id = i) :
    step c s (.get b i) = (s, .notExist, []) ∧
    step c s (.seen b i) = (s, .notExist, []) ∧
    step c s (.remove b i) = (s, .notExist, []) :=
  ⟨step_get_missing c s b i h, step_seen_missing c s b i h, step_remove_missing c s b i h⟩

example : ¬ ∃ x ∈ exStore.msgs, x.box = [97] ∧ x.id = 1 := by decide

/-- `get` of a live message returns exactly that message (metadata, flag, content) and changes
    nothing. -/
theorem get_returns_message (c : Cfg) (s : Store) (h : Reachable c s) (x : Msg) (hx : x ∈ s.msgs) :
    step c s (.get x.box x.id) = (s, .msg x, []) :=
  step_get_live c s (inv_reachable c s h) hx

example : ∃ x, x ∈ exStore.msgs := ⟨_, List.mem_cons_self⟩

/-- `remove` affects only the named message: every other live message stays, in the same order,
    every other mailbox's listing and every counter is unchanged. -/
theorem remove_only_named (c : Cfg) (s : Store) (b : Bytes) (i : Nat) :
    (step c s (.remove b i)).1.msgs = s.msgs.filter (fun m => !isMsg b i m) ∧
    (step c s (.remove b i)).1.next = s.next ∧
    (∀ b', b' ≠ b → listing (step c s (.remove b i)).1 b' = listing s b') ∧
    (∀ x ∈ s.msgs, ¬ (x.box = b ∧ x.id = i) → x ∈ (step c s (.remove b i)).1.msgs) := by
  obtain ⟨h1, h2, _⟩ := step_remove_msgs c s b i
  refine ⟨h1, h2, ?_, ?_⟩
  · intro b' hb'
    rw [listing_remove]
    exact filter_remove_other b i b' hb' s.msgs
  · intro x hx hne
    rw [h1, List.mem_filter]
    refine ⟨hx, ?_⟩
    cases hh : isMsg b i x with
    | false => rfl
    | true => exact absurd ((isMsg_iff b i x).1 hh) hne

/-- `seen` changes only the flag of the named message: same messages in the same order, same
    mailbox, id, metadata and content each; messages other than the named one are untouched. -/
theorem seen_only_flag (c : Cfg) (s : Store) (b : Bytes) (i : Nat) :
    (step c s (.seen b i)).1.msgs = s.msgs.map (mark b i) ∧
    (step c s (.seen b i)).1.next = s.next ∧
    (∀ m, (mark b i m).box = m.box ∧ (mark b i m).id = m.id ∧ (mark b i m).hdr = m.hdr ∧
          (mark b i m).source = m.source) ∧
    (∀ m, ¬ (m.box = b ∧ m.id = i) → mark b i m = m) ∧
    (∀ m, m.box = b ∧ m.id = i → (mark b i m).seen = true) := by
  obtain ⟨h1, h2, _⟩ := step_seen_msgs c s b i
  refine ⟨h1, h2, fun m => ⟨by simp, by simp, by simp, by simp⟩, ?_, ?_⟩
  · intro m hm
    apply mark_other
    cases hh : isMsg b i m with
    | false => rfl
    | true => exact absurd ((isMsg_iff b i m).1 hh) hm
  · intro m hm
    rw [mark_hit b i m ((isMsg_iff b i m).2 hm)]

/-- Read back as written: unless the delivery itself evicted the new message (its pair is among
    the emitted events), `get` of the returned id right after `add` yields exactly the delivered
    metadata and content, unseen. -/
theorem read_back_as_written (c : Cfg) (s : Store) (h : Reachable c s) (b : Bytes) (hdr : Meta)
    (src : Bytes) (hkept : (b, s.next b + 1) ∉ (step c s (.add b hdr src)).2.2) :
    step c (step c s (.add b hdr src)).1 (.get b (s.next b + 1)) =
      ((step c s (.add b hdr src)).1,
       .msg { box := b, id := s.next b + 1, hdr := hdr, seen := false, source := src }, []) := by
  have hinv := inv_reachable c s h
  have hp := events_step c s (.add b hdr src) hinv
  have hin : (b, s.next b + 1) ∈ (step c s (.add b hdr src)).1.msgs.map evOf := by
    have := (hp.mem_iff (a := (b, s.next b + 1))).1 (by simp [added])
    rw [List.mem_append] at this
    rcases this with h1 | h1
    · exact h1
    · exact absurd h1 hkept
  have hsub : (step c s (.add b hdr src)).1.msgs.Sublist (s.msgs ++ [newMsg s b hdr src]) := by
    rw [step_add]; exact (limitEvict_sublist _ _).trans (capEvict_sublist _ _ _)
  have hx : newMsg s b hdr src ∈ (step c s (.add b hdr src)).1.msgs := by
    simp only [List.mem_map] at hin
    obtain ⟨z, hz, hze⟩ := hin
    have hz' := hsub.subset hz
    simp only [List.mem_append, List.mem_singleton] at hz'
    rcases hz' with hz' | rfl
    · have := (hinv.bound z hz').2
      simp [evOf] at hze
      rw [hze.1, hze.2] at this
      omega
    · exact hz
  exact step_get_live c _ (inv_step c s _ hinv) hx

example : ([97], exStore.next [97] + 1) ∉ (step exCfg exStore (.add [97] default [1])).2.2 := by decide

/-! ### Part 2 — the memory store refines the model -/

/-- The simulation relation holds between the two empty stores. -/
theorem mem_refines_init (c : Cfg) : R c Model.Mem.empty Spec.Store.empty := R_empty c

/-- One step of the memory-store model from related states: the states stay related, the emitted
    `deleted` events are identical, and the answers are identical — for `visit` up to the order in
    which the (non-empty) mailboxes are visited, Go map order being arbitrary. -/
theorem mem_refines_step (c : Cfg) (m : Mem) (s : Store) (op : Op) (h : R c m s) :
    R c (Model.Mem.step c m op).1 (Spec.Store.step c s op).1 ∧
    OutRel (Model.Mem.step c m op).2.1 (Spec.Store.step c s op).2.1 ∧
    (Model.Mem.step c m op).2.2 = (Spec.Store.step c s op).2.2 :=
  refines_step c m s op h

/-- Every operation other than `visit` answers exactly as the model. -/
theorem mem_refines_step_exact (c : Cfg) (m : Mem) (s : Store) (op : Op) (h : R c m s)
    (hv : isVisit op = false) :
    (Model.Mem.step c m op).2 = (Spec.Store.step c s op).2 :=
  refines_step_exact c m s op h hv

example : R exCfg Model.Mem.empty Spec.Store.empty := R_empty exCfg

/-- Every history: running the memory-store model and the abstract model from the empty stores
    gives related final states and pointwise agreeing answers and events. -/
theorem mem_refines_run (c : Cfg) (ops : List Op) :
    R c (runMem c Model.Mem.empty ops).1 (run c Spec.Store.empty ops).1 ∧
    AnsAll (runMem c Model.Mem.empty ops).2 (run c Spec.Store.empty ops).2 :=
  refines_run c ops _ _ (R_empty c)

/-- The invariant the cap loop relies on holds in every related (hence every reachable) state of
    the memory store: indexes strictly ascending, `first ≤` every live index `≤ last`. -/
theorem mem_box_invariant (c : Cfg) (m : Mem) (s : Store) (h : R c m s) (b : Bytes) :
    BoxInv (m.boxes b) :=
  h.boxInv b

/-- the memory model on the sample history: same pairs as the abstract model -/
theorem exMem_pairs :
    ((runMem exCfg Model.Mem.empty exOps).1.boxes [97]).msgs.map (·.index) = [2, 3] := by decide

/-! ### Part 3 — a walk over all mailboxes that is told to stop -/

/-- `VisitMailboxes` with a visitor that says "stop" at the `k`-th non-empty mailbox: it is shown exactly `min k n` mailboxes, `n` the number of
    non-empty mailboxes — the walk neither ends early nor goes on after the visitor said stop. -/
theorem visit_until_shows (s : Store) (k : Nat) :
    (visitUntil s k).length = min k (boxNames s.msgs).length := by
  simp [visitUntil, List.length_take]

/-- What a stopping visitor is shown is a prefix of what a visitor that never stops is shown (same mailboxes, same listings, same order). -/
theorem visit_until_prefix (c : Cfg) (s : Store) (k : Nat) :
    ∃ rest, (Spec.Store.step c s .visit).2.1 = .boxes (visitUntil s k ++ rest) := by
  refine ⟨((boxNames s.msgs).map (listing s)).drop k, ?_⟩
  simp [Spec.Store.step, visitUntil, List.take_append_drop]

/-- A visitor that never says stop within the walk sees everything. -/
theorem visit_until_all (c : Cfg) (s : Store) (k : Nat) (h : (boxNames s.msgs).length ≤ k) :
    (Spec.Store.step c s .visit).2.1 = .boxes (visitUntil s k) := by
  simp [Spec.Store.step, visitUntil, List.take_of_length_le, h]

/-- Stopping a walk changes nothing in the store (the walk is a read). -/
theorem visit_keeps_store (c : Cfg) (s : Store) : (Spec.Store.step c s .visit).1 = s := by
  simp [Spec.Store.step]

example : (visitUntil (run exCfg Spec.Store.empty exOps).1 1).length = 1 := by decide

end Ibx.Props.C07
