import Ibx.Lemmas.FileRefine
/-
  C10 — the file store is durable: a restart shows exactly the mail that was there.

  The file model has NO volatile component: its state is the directory tree (index + raw files per mailbox) plus the
  id generator; every operation is a function of (that state, configuration, operation) only, because the real code
  builds its `mbox` object per call and re-reads the index (T1 facts in Ibx/Tie/FileStore.lean).  Closing and
  re-opening the store is therefore the identity on the model state, and everything proved for uninterrupted
  histories (Ibx/Props/C07File.lean) holds for histories with any number of restarts anywhere.

  The one thing a restart CAN break is the id generator (findings F-10, fixed, and F-10b, open): the real generator is
  `time.Now()` truncated to the second, followed by a process-wide counter modulo 10000 that starts at 0000 in every
  process.  `next` (the generator state of the model) surviving a restart is an explicit hypothesis
  (`ids_unique_across_restarts_partial`); it fails in the real system when two incarnations hand out the same
  counter value for the same mailbox within the same wall-clock second (e.g. restart, then the k-th delivery of the
  new process in the same second as the k-th delivery of the old one), and when one process delivers ≥ 10000 messages
  within one second.  The counter-witness `ids_repeat_when_generator_restarts_fails` shows the hypothesis is needed.
  Since the fix of F-10 (`for mb.hasID(id) { id = generateID(..) }` in newMessage, T1 fact `fileIdCollisionCheck`) the
  id of a message that is STILL in the mailbox is never drawn again, for any generator (`skipExisting_not_present`);
  what remains under the hypothesis is only "the id of a DELETED message is never drawn again" (F-10b).
  The generator itself (clock, counter mod 10000, interference, the loop without fuel, both variants of `hasID`) is
  modelled in Ibx/Model/FileIds.lean; Props/C07Ids.lean (a module of this property) proves `new_id_not_listed`,
  termination of the loop, and `generated_delivery_refines_spec`, which replaces the freshness assumption for LISTED
  ids in the refinement by a theorem about the code's loop.
-/
namespace Ibx.Props.C10
open Ibx Ibx.Spec.Store Ibx.Lemmas.FileRefine
open Ibx.Model.FileStore (FS FEnt Dir readIndex rawOf toMsg reopen)

abbrev FSempty : FS := Ibx.Model.FileStore.empty
abbrev Sempty : Store := Ibx.Spec.Store.empty
abbrev noLimit (c : Cfg) : Cfg := { c with limit := 0 }

/-- a history with restart points -/
inductive HOp
  | op (o : Op)
  | reopen
  deriving Repr

/-- the operations of a history, restarts dropped -/
def strip : List HOp → List Op
  | [] => []
  | .op o :: h => o :: strip h
  | .reopen :: h => strip h

/-- run a history in which every restart applies `restart` to the persistent state -/
def runG (restart : FS → FS) (c : Cfg) : FS → List HOp → FS × List (Out × List Ev)
  | f, [] => (f, [])
  | f, .reopen :: h => runG restart c (restart f) h
  | f, .op o :: h =>
    ((runG restart c (fstep c f o).1 h).1, ((fstep c f o).2.1, (fstep c f o).2.2) :: (runG restart c (fstep c f o).1 h).2)

/-- the model's restart: `reopen` (file.New on the same path) -/
def runWithReopens (c : Cfg) : FS → List HOp → FS × List (Out × List Ev) := runG reopen c

/-! ### example history: six operations, a restart in the middle, cap 2 -/

def hA : Meta := { sender := [97], rcpts := [[98]], subject := [99], date := 7 }
def boxA : Bytes := [97, 64, 98]
def cap2 : Cfg := { cap := 2, limit := 0 }
def hist : List HOp :=
  [.op (.add boxA hA [1, 2, 3]), .op (.add boxA hA [4]), .op (.seen boxA 1), .reopen,
   .op (.add boxA hA [5, 6]), .op (.get boxA 1), .op (.list boxA)]

/-- re-opening changes nothing: there is nothing but the directory tree -/
theorem reopen_is_identity (f : FS) : reopen f = f := rfl

/-- **no_volatile_state.** Interleaving any number of close/re-open points anywhere in a history leaves every answer,
    every event and the final state unchanged. -/
theorem no_volatile_state (c : Cfg) (f : FS) (h : List HOp) : runWithReopens c f h = frun c f (strip h) := by
  unfold runWithReopens
  induction h generalizing f with
  | nil => rfl
  | cons x h ih =>
    cases x with
    | reopen => simp only [runG, strip]; exact ih (reopen f)
    | op o => simp only [runG, strip, frun, ih]

example : (strip hist).length = 6 ∧ hist.length = 7 := by decide
example : (runWithReopens cap2 FSempty hist).2 = (frun cap2 FSempty (strip hist)).2 := by decide

/-- **reopened_store_refines.** After any history with restart points anywhere the store still refines the spec:
    every answer (ids, order, metadata, seen flags, sizes, content) is the spec's answer to the same history without
    the restarts, every `deleted` event too, and the final states are related (so whatever follows is answered right
    as well: removed and purged messages stay gone, cap eviction continues to work). -/
theorem reopened_store_refines (c : Cfg) (h : List HOp) :
    OutsEq (runWithReopens c FSempty h).2 (Spec.Store.run (noLimit c) Sempty (strip h)).2 ∧
    RF (runWithReopens c FSempty h).1 (Spec.Store.run (noLimit c) Sempty (strip h)).1 := by
  rw [no_volatile_state]
  exact file_refines_run c (strip h) RF_empty

/-- the example history: message 1 is marked, survives the restart, is then evicted by the cap (event), and is gone -/
example : (runWithReopens cap2 FSempty hist).2 =
    [(.id 1, []), (.id 2, []), (.ok, []), (.id 3, [(boxA, 1)]), (.notExist, []),
     (.msgs [{ box := boxA, id := 2, hdr := hA, seen := false, source := [4] },
             { box := boxA, id := 3, hdr := hA, seen := false, source := [5, 6] }], [])] := by decide
example : (Spec.Store.run cap2 Sempty (strip hist)).2 = (runWithReopens cap2 FSempty hist).2 := by decide

/-- same, from any related pair of states (e.g. a store that already holds mail) -/
theorem reopened_store_refines_from (c : Cfg) (f : FS) (s : Store) (hrf : RF f s) (h : List HOp) :
    OutsEq (runWithReopens c f h).2 (Spec.Store.run (noLimit c) s (strip h)).2 ∧
    RF (runWithReopens c f h).1 (Spec.Store.run (noLimit c) s (strip h)).1 := by
  rw [no_volatile_state]
  exact file_refines_run c (strip h) hrf

example : RF (runWithReopens cap2 FSempty hist).1 (Spec.Store.run cap2 Sempty (strip hist)).1 :=
  (reopened_store_refines cap2 hist).2

/-- **deleted_stays_gone.** Whatever was announced deleted at some point of a history (removed, purged, or evicted by
    the cap) is reported as not existing by every later `get`, after any further operations and restarts. -/
theorem deleted_stays_gone (c : Cfg) (h₁ h₂ : List HOp) (o : Op) (b : Bytes) (i : Nat)
    (hev : (b, i) ∈ (fstep c (runWithReopens c FSempty h₁).1 o).2.2) :
    (fstep c (runWithReopens c (fstep c (runWithReopens c FSempty h₁).1 o).1 h₂).1 (.get b i)).2.1 = .notExist := by
  obtain ⟨_, r1⟩ := reopened_store_refines c h₁
  obtain ⟨_, e2, r2⟩ := file_refines_step c r1 o
  rw [e2] at hev
  have g := event_gone c r1 o b i hev
  obtain ⟨_, r3⟩ := reopened_store_refines_from c _ _ r2 h₂
  exact FGone_get c ((gone_iff r3 b i).2 (SGone_run c b i (strip h₂) g))

/-- the hypothesis is met in the example: the delivery after the restart announces message 1 deleted -/
example : (boxA, 1) ∈ (fstep cap2 (runWithReopens cap2 FSempty (hist.take 4)).1 (.add boxA hA [5, 6])).2.2 := by decide

/-- **cap_holds_after_reopen.** After any history with restarts, a delivery leaves at most `cap` messages in the
    mailbox and the delivered message is the latest, with the metadata, flag and content it was delivered with. -/
theorem cap_holds_after_reopen (c : Cfg) (hc : c.cap > 0) (h : List HOp) (b : Bytes) (hdr : Meta) (src : Bytes) :
    (readIndex (fstep c (runWithReopens c FSempty h).1 (.add b hdr src)).1 b).length ≤ c.cap ∧
    (fstep c (fstep c (runWithReopens c FSempty h).1 (.add b hdr src)).1 (.latest b)).2.1 =
      .msg { box := b, id := (runWithReopens c FSempty h).1.next b + 1, hdr := hdr, seen := false, source := src } := by
  obtain ⟨_, r1⟩ := reopened_store_refines c h
  generalize (runWithReopens c FSempty h).1 = f at r1 ⊢
  generalize (Spec.Store.run (noLimit c) Sempty (strip h)).1 = s at r1
  obtain ⟨_, _, r2⟩ := file_refines_step c r1 (.add b hdr src)
  have hl := add_listing c s b hdr src
  constructor
  · have : (readIndex (fstep c f (.add b hdr src)).1 b).length = (listing (sstep (noLimit c) s (.add b hdr src)).1 b).length := by
      rw [← r2.view b, List.length_map]
    rw [this, hl, List.length_append, List.length_drop]
    have := evictCount_bound c.cap (listing s b).length hc
    simpa using this
  · obtain ⟨o3, _, _⟩ := file_refines_step c r2 (.latest b)
    have hs : (sstep (noLimit c) (sstep (noLimit c) s (.add b hdr src)).1 (.latest b)).2.1 = .msg (newMsg s b hdr src) := by
      simp only [sstep, Spec.Store.step] at hl ⊢
      rw [hl]; simp
    rw [hs] at o3
    rw [o3.eq_of_not_boxes (by intro l hh; cases hh), newMsg, ← r1.next b]

example : (readIndex (runWithReopens cap2 FSempty hist).1 boxA).length = 2 := by decide

/-! ### ids across incarnations -/

theorem runG_next_mono (restart : FS → FS) (hr : ∀ f b, f.next b ≤ (restart f).next b) (c : Cfg) (b : Bytes) :
    ∀ (h : List HOp) (f : FS), f.next b ≤ (runG restart c f h).1.next b
  | [], _ => Nat.le_refl _
  | .reopen :: h, f => Nat.le_trans (hr f b) (runG_next_mono restart hr c b h (restart f))
  | .op o :: h, f => Nat.le_trans (fstep_next_mono c f o b) (runG_next_mono restart hr c b h (fstep c f o).1)

/-- **ids_unique_across_restarts_partial.**  PARTIAL: under the GENERATOR HYPOTHESIS `hr` — a restart never moves the
    id generator of a mailbox backwards, i.e. the new incarnation never hands out an id an earlier incarnation handed
    out for that mailbox — any two deliveries to one mailbox, with any operations and restarts before, between and
    after, return different ids (the later one is larger in generator order).  The model's own `reopen` satisfies the
    hypothesis trivially; the real generator (`second ‖ process-wide counter mod 10000`, counter restarting at 0000
    per process) does NOT guarantee it: see the header and the counter-witness below.  What is missing for a full
    theorem is a generator whose state is persistent (or derived from the directory contents). -/
theorem ids_unique_across_restarts_partial (restart : FS → FS) (hr : ∀ f b, f.next b ≤ (restart f).next b)
    (c : Cfg) (f : FS) (h₁ h₂ : List HOp) (b : Bytes) (hdr₁ hdr₂ : Meta) (src₁ src₂ : Bytes) :
    ∃ i j, (fstep c (runG restart c f h₁).1 (.add b hdr₁ src₁)).2.1 = .id i ∧
      (fstep c (runG restart c (fstep c (runG restart c f h₁).1 (.add b hdr₁ src₁)).1 h₂).1 (.add b hdr₂ src₂)).2.1 = .id j ∧
      i < j := by
  refine ⟨_, _, (fstep_add_id c _ b hdr₁ src₁).1, (fstep_add_id c _ b hdr₂ src₂).1, ?_⟩
  have h1 := (fstep_add_id c (runG restart c f h₁).1 b hdr₁ src₁).2
  have h2 := runG_next_mono restart hr c b h₂ (fstep c (runG restart c f h₁).1 (.add b hdr₁ src₁)).1
  rw [h1] at h2
  simp only [bump, beq_self_eq_true, if_true] at h2
  omega

/-- the hypothesis holds for the model's restart, and the conclusion is met by the example history (ids 2 and 3 around the restart) -/
example : ∀ f b, f.next b ≤ (reopen f).next b := fun _ _ => Nat.le_refl _
example : (fstep cap2 (runG reopen cap2 FSempty (hist.take 1)).1 (.add boxA hA [4])).2.1 = .id 2 ∧
    (fstep cap2 (runG reopen cap2 (fstep cap2 (runG reopen cap2 FSempty (hist.take 1)).1 (.add boxA hA [4])).1
      [.op (.seen boxA 1), .reopen]).1 (.add boxA hA [5, 6])).2.1 = .id 3 := by decide

/-- the re-draw loop of the fixed `newMessage`: take candidates from the generator until one is not in the index -/
def skipExisting (present : List Nat) : List Nat → Option Nat
  | [] => none
  | c :: cs => if present.contains c then skipExisting present cs else some c

/-- **skipExisting_not_present.** Whatever sequence of candidates the generator produces (restarted counter, repeated
    values, anything), the id the re-draw loop settles on is not the id of a message in the mailbox, and it is the
    first such candidate. -/
theorem skipExisting_not_present (present cands : List Nat) (i : Nat) (h : skipExisting present cands = some i) :
    i ∉ present ∧ i ∈ cands ∧ cands.find? (fun c => !present.contains c) = some i := by
  induction cands with
  | nil => cases h
  | cons c cs ih =>
    simp only [skipExisting] at h
    by_cases hc : present.contains c = true
    · rw [if_pos hc] at h
      obtain ⟨h1, h2, h3⟩ := ih h
      refine ⟨h1, List.mem_cons_of_mem _ h2, ?_⟩
      rw [List.find?_cons, hc]; exact h3
    · rw [if_neg hc] at h
      have hc' : present.contains c = false := by simpa using hc
      cases h
      refine ⟨by simpa using hc, List.mem_cons_self, ?_⟩
      rw [List.find?_cons, hc']; rfl

/-- a restarted counter (candidates 1, 2, 3 again) against a mailbox that still holds 1 and 2 -/
example : skipExisting [1, 2] [1, 2, 3] = some 3 := by decide

/-- what the real generator does when the new process delivers within the same second: the counter is back at 0000 -/
def counterRestarts (f : FS) : FS := { f with next := fun _ => 0 }

/-- counter-witness: without the generator hypothesis two deliveries to one mailbox around a restart get the SAME id,
    and the index then holds two entries with one id (the well-formedness every other theorem rests on is lost) -/
theorem ids_repeat_when_generator_restarts_fails :
    (fstep cap2 FSempty (.add boxA hA [1])).2.1 = .id 1 ∧
    (fstep cap2 (runG counterRestarts cap2 (fstep cap2 FSempty (.add boxA hA [1])).1 [.reopen]).1 (.add boxA hA [2])).2.1 = .id 1 ∧
    (readIndex (fstep cap2 (runG counterRestarts cap2 (fstep cap2 FSempty (.add boxA hA [1])).1 [.reopen]).1 (.add boxA hA [2])).1 boxA).map (·.id) = [1, 1] := by
  decide

end Ibx.Props.C10
