import Ibx.Lemmas.SpecStore
import Ibx.Lemmas.MemRefine
/-
  C16 (first half) — every message that leaves a mailbox produces exactly one `deleted` event.
  Event accounting of the ordered-mailbox model for every operation, configuration and history,
  whatever the reason of the exit (explicit delete, purge, mailbox cap, size limit); the
  memory-store model emits exactly the same events (refinement of C07).
  (The `stored` event is the message manager's; listener serialisation is the broker's half.)
-/
namespace Ibx.Props.C16
open Ibx Ibx.Spec.Store Ibx.Model.Mem Ibx.Lemmas.SpecStore Ibx.Lemmas.MemRefine

/-! ### sample used by the non-vacuity examples: every exit reason occurs -/

def exCfg : Cfg := { cap := 2, limit := 10 }
def exOps : List Op :=
  [.add [97] default [1, 2, 3], .add [98] default [4, 5], .add [97] default [6], .remove [98] 1,
   .add [97] default [7, 8, 9, 10], .add [98] default [1, 2, 3, 4, 5, 6], .add [99] default [1],
   .purge [98], .remove [98] 2]

/-- remove b/1, cap evicts a/1, limit evicts a/2, limit evicts a/3, purge b/2; the second remove
    of b/2 finds nothing and emits nothing -/
theorem ex_events :
    deleted exCfg Spec.Store.empty exOps = [([98], 1), ([97], 1), ([97], 2), ([97], 3), ([98], 2)] := by
  decide

theorem ex_added :
    addedH exCfg Spec.Store.empty exOps =
      [([97], 1), ([98], 1), ([97], 2), ([97], 3), ([98], 2), ([99], 1)] := by
  decide

/-! ### one operation -/

/-- For every operation: the live (mailbox, id) pairs before, plus the pair that `add` creates, are
    a permutation of the live pairs after plus the emitted `deleted` events.  So every message that
    leaves the store — delete, purge, cap, size limit — produces exactly one event carrying its
    mailbox and id, a message that stays produces none, and no event concerns anything else. -/
theorem events_exact (c : Cfg) (s : Store) (h : Reachable c s) (op : Op) :
    (s.msgs.map evOf ++ added s op).Perm
      ((step c s op).1.msgs.map evOf ++ (step c s op).2.2) :=
  events_step c s op (inv_reachable c s h)

example : Reachable exCfg (after exCfg Spec.Store.empty exOps) := ⟨exOps, rfl⟩

/-- `add` brings in exactly the pair it answers; no other operation brings in anything. -/
theorem added_is_answer (c : Cfg) (s : Store) (b : Bytes) (hdr : Meta) (src : Bytes) :
    added s (.add b hdr src) = [(b, s.next b + 1)] ∧
    (step c s (.add b hdr src)).2.1 = .id (s.next b + 1) ∧
    ∀ op, isAdd op = false → added s op = [] := by
  refine ⟨rfl, by rw [step_add], ?_⟩
  intro op hop
  cases op <;> first | rfl | simp [isAdd] at hop

/-- Operations that remove nothing emit nothing. -/
theorem reads_emit_nothing (c : Cfg) (s : Store) (b : Bytes) (i : Nat) :
    (step c s (.get b i)).2.2 = [] ∧ (step c s (.latest b)).2.2 = [] ∧
    (step c s (.list b)).2.2 = [] ∧ (step c s (.seen b i)).2.2 = [] ∧ (step c s .visit).2.2 = [] :=
  ⟨(step_get_state c s b i).2, (step_latest_state c s b).2, rfl, (step_seen_msgs c s b i).2.2, rfl⟩

/-! ### histories -/

/-- Over any history from any reachable state: what was live at the start plus everything that
    came in is a permutation of what is live at the end plus all `deleted` events. -/
theorem events_exact_history (c : Cfg) (s : Store) (h : Reachable c s) (ops : List Op) :
    (s.msgs.map evOf ++ addedH c s ops).Perm
      ((after c s ops).msgs.map evOf ++ deleted c s ops) :=
  events_history c s ops (inv_reachable c s h)

/-- Over any history no (mailbox, id) is announced deleted twice. -/
theorem deleted_at_most_once (c : Cfg) (s : Store) (h : Reachable c s) (ops : List Op) :
    (deleted c s ops).Nodup :=
  deleted_nodup c s ops (inv_reachable c s h)

/-- Every `deleted` event of a history concerns a message that was live at its start or was
    delivered during it — never an id that was not handed out. -/
theorem deleted_only_known (c : Cfg) (s : Store) (h : Reachable c s) (ops : List Op) :
    ∀ e ∈ deleted c s ops, e ∈ s.msgs.map evOf ∨ e ∈ addedH c s ops := by
  intro e he
  have := ((events_exact_history c s h ops).mem_iff (a := e)).2 (List.mem_append_right _ he)
  simpa [List.mem_append] using this

/-- `deleted c s ops` is the concatenation of the per-operation event lists of `run`. -/
theorem deleted_is_run_events (c : Cfg) (s : Store) (ops : List Op) :
    deleted c s ops = ((run c s ops).2.map (·.2)).flatten :=
  deleted_eq_run c s ops

example : Reachable exCfg Spec.Store.empty := reachable_empty exCfg

/-! ### the memory store emits exactly these events -/

/-- From related states the memory-store model (cap eviction, removal, purge, the size enforcer's
    evictions) emits exactly the model's events, in the same order, for every operation. -/
theorem mem_events_exact (c : Cfg) (m : Mem) (s : Store) (op : Op) (h : R c m s) :
    (Model.Mem.step c m op).2.2 = (Spec.Store.step c s op).2.2 :=
  (refines_step c m s op h).2.2

example : R exCfg Model.Mem.empty Spec.Store.empty := R_empty exCfg

/-- the memory-store model on the sample history: the same five events -/
theorem ex_mem_events :
    ((runMem exCfg Model.Mem.empty exOps).2.map (·.2)).flatten =
      [([98], 1), ([97], 1), ([97], 2), ([97], 3), ([98], 2)] := by
  decide

end Ibx.Props.C16
