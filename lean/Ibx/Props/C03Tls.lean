import Ibx.Lemmas.SmtpEx
import Ibx.Props.C03
/-
  C03 (TLS part) — STARTTLS, the EHLO advertisement and ForceTLS of the SMTP session.
  Theorems over the session model `Ibx.Model.Smtp` for ALL environments, inputs and send budgets.  The theorems of
  Props/C03.lean, C03End.lean, C01.lean, C05Session.lean, C06.lean and C17.lean quantify over every `Env` — hence over
  servers with TLS enabled or forced — and over every command stream — hence over streams that contain an accepted
  STARTTLS; what is stated here is what is specific to the switch.
  Events are accumulated newest-first: `(handleLine e s l acc).2 = ev :: acc` means "appended ev".
-/
namespace Ibx.Props.C03Tls
open Ibx Ibx.Bytes Ibx.Model Ibx.Model.Smtp
open Ibx.Lemmas.Smtp Ibx.Lemmas.SmtpLoop Ibx.Lemmas.SmtpIO Ibx.Lemmas.SmtpEx Ibx.Props.C03

/-! ### examples used for non-vacuity -/

/-- `exEnv` with a loaded key pair -/
def exTls : Env := { exEnv with tlsEnabled := true }
/-- the same behind tls.Listen -/
def exForce : Env := { exEnv with tlsEnabled := true, forceTLS := true }

/-- greeting, STARTTLS, (handshake), greeting again, one transaction -/
def dlgTls : Bytes :=
  ofAscii "EHLO a\r\nSTARTTLS\r\nEHLO b\r\nMAIL FROM:<>\r\nRCPT TO:<u@x.org>\r\nDATA\r\nhi\r\n.\r\nQUIT\r\n"

/-- the READY state STARTTLS is issued in -/
def exReadyTls : Sess := { exReady with tls := true }

/-! ### when STARTTLS is accepted -/

/-- STARTTLS never succeeds when TLS is unavailable (no key pair) or already active — in the clear after an earlier
    STARTTLS, or from the first byte under ForceTLS: the answer is 454 and nothing changes -/
theorem starttls_refused (e : Env) (s : Sess) (line arg : Bytes) (acc : List Ev) (hs : s.st = .ready)
    (hp : parseCmd line = .cmd (ofAscii "STARTTLS") arg) (h : e.tlsEnabled = false ∨ s.tls = true) :
    handleLine e s line acc = (send s 1, .reply [454] :: acc) := by
  rw [handleLine_cmd e s line _ arg acc (by simp [hs]) (by simp [hs]) hp, handleCmd_state _ _ _ _ _ (by decide)]
  unfold stateCmd
  rw [hs]
  simp only []
  unfold readyCmd
  rw [if_pos (by decide)]
  rcases h with h | h
  · simp [h, say]
  · cases e.tlsEnabled <;> simp [h, say]

/-- the accepted STARTTLS: one reply 220, the session is back in GREET with TLS recorded; the recipient list, the
    `from` field and the HELO name are left as READY had them -/
theorem starttls_accepted (e : Env) (s : Sess) (line arg : Bytes) (acc : List Ev) (hs : s.st = .ready)
    (hp : parseCmd line = .cmd (ofAscii "STARTTLS") arg) (he : e.tlsEnabled = true) (ht : s.tls = false) :
    handleLine e s line acc = (send { s with st := .greet, tls := true } 1, .reply [220] :: acc) := by
  rw [handleLine_cmd e s line _ arg acc (by simp [hs]) (by simp [hs]) hp, handleCmd_state _ _ _ _ _ (by decide)]
  unfold stateCmd
  rw [hs]
  simp only []
  unfold readyCmd
  rw [if_pos (by decide)]
  simp [he, ht, say]

example : (handleLine exEnv exReady (ofAscii "STARTTLS\r\n") []).2 = [.reply [454]] := by decide
example : (handleLine exTls exReadyTls (ofAscii "STARTTLS\r\n") []).2 = [.reply [454]] := by decide
example : (handleLine exTls exReady (ofAscii "starttls\r\n") []).2 = [.reply [220]] ∧
    (handleLine exTls exReady (ofAscii "starttls\r\n") []).1.st = .greet ∧
    (handleLine exTls exReady (ofAscii "starttls\r\n") []).1.tls = true := by decide

/-- The TLS flag of a session changes in one way only: from off to on, by a STARTTLS command read in READY on a server
    with a key pair, answered 220; the session is then in GREET — so MAIL, RCPT and DATA are out of sequence until the
    client has greeted again — with an EMPTY recipient list (invariant `Inv`) and nothing stored. -/
theorem tls_switch_only_by_starttls (e : Env) (s : Sess) (line : Bytes) (acc : List Ev) (hi : C03.Inv s)
    (h : (handleLine e s line acc).1.tls ≠ s.tls) :
    s.st = .ready ∧ s.tls = false ∧ e.tlsEnabled = true ∧ (∃ arg, parseCmd line = .cmd (ofAscii "STARTTLS") arg) ∧
      (handleLine e s line acc).1.tls = true ∧ (handleLine e s line acc).1.st = .greet ∧
      (handleLine e s line acc).1.rcpts = [] ∧ (handleLine e s line acc).2 = .reply [220] :: acc := by
  rw [handleLine_acc] at h ⊢
  have hstep := handleLine_step e s line
  generalize (handleLine e s line []).1 = s' at *
  generalize (handleLine e s line []).2 = evs at *
  cases hstep <;> simp_all [C03.Inv]

/-- once TLS is active it stays active for the rest of the connection, through command lines … -/
theorem tls_stays_on (e : Env) (s : Sess) (line : Bytes) (acc : List Ev) (h : s.tls = true) :
    (handleLine e s line acc).1.tls = true := by
  rw [handleLine_acc]
  have hstep := handleLine_step e s line
  generalize (handleLine e s line []).1 = s' at *
  generalize (handleLine e s line []).2 = evs at *
  cases hstep <;> simp_all

/-- … and through data phases (which never touch the flag at all) -/
theorem tls_kept_by_data (e : Env) (s : Sess) (block : Bytes) (acc : List Ev) :
    (handleData e s block acc).1.tls = s.tls := by
  simp

/-- hence STARTTLS is accepted at most once per connection: in every state the loop reaches after TLS became
    active, a STARTTLS read in READY is answered 454 -/
theorem starttls_at_most_once (e : Env) (s0 : Sess) (g0 : List Addr.Recipient) (s : Sess) (g : List Addr.Recipient)
    (h0 : s0.tls = true) (h : Reach e s0 g0 s g) : s.tls = true := by
  induction h with
  | refl => exact h0
  | line s1 g1 l _ _ _ _ ih => exact tls_stays_on e s1 l [] ih
  | data s1 g1 block _ _ _ ih => rw [tls_kept_by_data]; simpa using ih

example : ((run exTls none (ofAscii "EHLO a\r\nSTARTTLS\r\nEHLO b\r\nSTARTTLS\r\n")).1.map
    (fun ev => match ev with | .reply (c :: _) => c | _ => 0)) = [220, 250, 220, 250, 454] := by decide

/-! ### the greeting is needed again -/

/-- an accepted greeting replaces the HELO name: whatever name the session carried (after STARTTLS: the one given in
    the clear) is overwritten by the argument of the new HELO / EHLO -/
theorem greeting_sets_helo_name (e : Env) (s : Sess) (l a : Bytes) (hs : s.st = .greet) (ha : a ≠ [])
    (hp : parseCmd l = .cmd (ofAscii "HELO") a ∨ parseCmd l = .cmd (ofAscii "EHLO") a) :
    (handleLine e s l []).1.remoteDomain = a.takeWhile (· != 32) := by
  have h1 : s.st ≠ .login := by simp [hs]
  have h2 : s.st ≠ .password := by simp [hs]
  rcases hp with hp | hp
  · rw [handleLine_cmd e s l _ a [] h1 h2 hp, handleCmd_greet_helo e s a [] hs ha]
    simp
  · rw [handleLine_cmd e s l _ a [] h1 h2 hp, handleCmd_state _ _ _ _ _ (by decide)]
    unfold stateCmd
    rw [hs]
    simp only []
    unfold greetCmd
    rw [if_neg (by decide), if_pos (by decide), if_neg (by simpa using ha)]

/-- After an accepted STARTTLS a 250 to MAIL needs a NEW accepted HELO / EHLO: every path of the loop from the state the
    switch leaves to a state other than GREET / QUIT passes through a HELO or EHLO line with a non-empty argument read
    in GREET inside TLS (`C03.mail_needs_greeting` started at the switch), and the HELO name of the session — the one the
    Received header of every later message carries — is from then on the argument of THAT greeting, not the one given
    in the clear. -/
theorem mail_after_starttls_needs_greeting (e : Env) (s : Sess) (line arg : Bytes) (hs : s.st = .ready)
    (hp : parseCmd line = .cmd (ofAscii "STARTTLS") arg) (he : e.tlsEnabled = true) (ht : s.tls = false)
    (g0 : List Addr.Recipient) (s' : Sess) (g' : List Addr.Recipient)
    (h : Reach e (handleLine e s line []).1 g0 s' g') (hg : s'.st ≠ .greet) (hq : s'.st ≠ .quit) :
    ∃ s1 g1 l a, Reach e (handleLine e s line []).1 g0 s1 g1 ∧ s1.st = .greet ∧ s1.tls = true ∧ a ≠ [] ∧
      (parseCmd l = .cmd (ofAscii "HELO") a ∨ parseCmd l = .cmd (ofAscii "EHLO") a) ∧
      (handleLine e s1 l []).1.st = .ready ∧ (handleLine e s1 l []).1.remoteDomain = a.takeWhile (· != 32) ∧
      Reach e (handleLine e s1 l []).1 (ghostStep e g1 l (handleLine e s1 l []).2) s' g' := by
  have h0 : (handleLine e s line []).1.st = .greet := by rw [starttls_accepted e s line arg [] hs hp he ht]; simp
  have h1 : (handleLine e s line []).1.tls = true := by rw [starttls_accepted e s line arg [] hs hp he ht]; simp
  obtain ⟨s1, g1, l, a, hr, hs1, ha, hpl, hx, hr2⟩ := mail_needs_greeting e _ g0 s' g' h h0 hg hq
  exact ⟨s1, g1, l, a, hr, hs1, starttls_at_most_once e _ g0 s1 g1 h1 hr, ha, hpl, hx,
    greeting_sets_helo_name e s1 l a hs1 ha hpl, hr2⟩

/-- MAIL right behind the handshake is refused (503), also after RSET; after the new greeting it is accepted -/
example : ((run exTls none (ofAscii "EHLO a\r\nSTARTTLS\r\nMAIL FROM:<>\r\nRSET\r\nMAIL FROM:<>\r\nHELO b\r\nMAIL FROM:<>\r\n")).1.map
    (fun ev => match ev with | .reply (c :: _) => c | _ => 0)) = [220, 250, 220, 503, 250, 503, 250, 250] := by decide

/-! ### the switch stores nothing; what follows is an ordinary session -/

/-- the command line that switches to TLS (like every command line) stores nothing -/
theorem switch_stores_nothing (e : Env) (s : Sess) (line : Bytes) (acc : List Ev) :
    storedOf (handleLine e s line acc).2 = storedOf acc :=
  partial_line_stores_nothing e s line acc

/-- the server of `e` with the key pair taken away -/
def noTls (e : Env) : Env := { e with tlsEnabled := false }

/-- the session with the TLS flag forgotten -/
def clearTls (s : Sess) : Sess := { s with tls := false }

/-- what `send` does to the two I/O fields, as a function of those fields alone -/
def ioSend (b : Option Nat) (se : Bool) (n : Nat) : Bool × Option Nat :=
  match b with
  | none => (se, none)
  | some k => if k ≥ n then (se, some (k - n)) else (true, some 0)

private theorem send_io (s : Sess) (n : Nat) :
    send s n = { s with sendErr := (ioSend s.budget s.sendErr n).1, budget := (ioSend s.budget s.sendErr n).2 } := by
  unfold send ioSend
  cases hb : s.budget with
  | none => cases s; simp_all
  | some b => by_cases h : b ≥ n <;> simp [h]

private theorem send_clearTls (s : Sess) (n : Nat) : send (clearTls s) n = clearTls (send s n) := by
  simp [send_io, clearTls]

private theorem mailFrom_noTls (e : Env) (s : Sess) (arg : Bytes) (acc : List Ev) :
    mailFrom (noTls e) (clearTls s) arg acc = (clearTls (mailFrom e s arg acc).1, (mailFrom e s arg acc).2) := by
  rw [mailFrom_eq, mailFrom_eq e s]
  have h1 : mailSyntax (noTls e) arg = mailSyntax e arg := rfl
  rw [h1]
  split
  · simp [say, send_clearTls]
  · unfold mailDecide
    have h2 : (noTls e).hookMail = e.hookMail := rfl
    have h3 : (noTls e).pol = e.pol := rfl
    rw [h2, h3]
    repeat' split
    all_goals simp [say, send_clearTls]
    all_goals (first | rfl | simp [send_io, clearTls])

private theorem rcptTo_noTls (e : Env) (s : Sess) (arg : Bytes) (acc : List Ev) :
    rcptTo (noTls e) (clearTls s) arg acc = (clearTls (rcptTo e s arg acc).1, (rcptTo e s arg acc).2) := by
  rw [rcptTo_eq, rcptTo_eq e s]
  have h1 : rcptSyntax (noTls e) arg = rcptSyntax e arg := rfl
  rw [h1]
  split
  · simp [say, send_clearTls]
  · unfold rcptDecide
    have h2 : ∀ a, rcptAns (noTls e) (clearTls s) a = rcptAns e s a := fun _ => rfl
    have h3 : (noTls e).pol = e.pol := rfl
    have h4 : (noTls e).maxRcpt = e.maxRcpt := rfl
    have h5 : (clearTls s).rcpts = s.rcpts := rfl
    simp only [h2, h3, h4, h5]
    repeat' split
    all_goals simp_all [say, send_clearTls]
    all_goals (first | rfl | simp [send_io, clearTls])

private theorem stateCmd_noTls (e : Env) (s : Sess) (name arg : Bytes) (acc : List Ev) (h : s.tls = true) :
    stateCmd (noTls e) (clearTls s) name arg acc =
      (clearTls (stateCmd e s name arg acc).1, (stateCmd e s name arg acc).2) := by
  have hadv : ehloLines e s = 4 := by simp [ehloLines, advertises, h]
  have hadv' : ehloLines (noTls e) (clearTls s) = 4 := by simp [ehloLines, advertises, noTls]
  have hst : (clearTls s).st = s.st := rfl
  unfold stateCmd
  rw [hst]
  split
  · unfold greetCmd
    rw [hadv, hadv']
    repeat' split
    all_goals simp [say, send_clearTls]
    all_goals (first | rfl | simp [send_io, clearTls])
  · unfold readyCmd
    have h6 : (noTls e).tlsEnabled = false := rfl
    have h7 : (clearTls s).tls = false := rfl
    simp only [h6, h7, h]
    repeat' split
    all_goals first | exact mailFrom_noTls .. | simp_all [say, send_clearTls]
    all_goals (first | rfl | simp [send_io, clearTls, reset])
  · unfold mailCmd
    have h5 : (clearTls s).rcpts = s.rcpts := rfl
    simp only [h5]
    repeat' split
    all_goals first | exact rcptTo_noTls .. | simp_all [say, send_clearTls]
    all_goals (first | rfl | simp [send_io, clearTls, reset])
  · rfl

private theorem handleCmd_noTls (e : Env) (s : Sess) (name arg : Bytes) (acc : List Ev) (h : s.tls = true) :
    handleCmd (noTls e) (clearTls s) name arg acc =
      (clearTls (handleCmd e s name arg acc).1, (handleCmd e s name arg acc).2) := by
  simp only [handleCmd_eq]
  repeat' split
  all_goals first | exact stateCmd_noTls _ _ _ _ _ h | simp [say, send_clearTls]
  all_goals (first | rfl | simp [send_io, clearTls, reset])

/-- Frame lemma, one command line: while TLS is active the session handles every line EXACTLY as the session of a server
    without any TLS support would (same replies, same state up to the flag) -/
theorem tls_active_line_is_plain (e : Env) (s : Sess) (line : Bytes) (acc : List Ev) (h : s.tls = true) :
    handleLine (noTls e) (clearTls s) line acc =
      (clearTls (handleLine e s line acc).1, (handleLine e s line acc).2) := by
  have hst : (clearTls s).st = s.st := rfl
  unfold handleLine
  rw [hst]
  repeat' split
  all_goals first | exact handleCmd_noTls _ _ _ _ _ h | simp [say, send_clearTls]
  all_goals (first | rfl | simp [send_io, clearTls])

/-! ### the frame lemma for data phases and for the whole rest of the connection -/

private theorem storeLoop_noTls (e : Env) (s : Sess) (ib : Inbound) (date : Int) (data : Bytes) (mbs : List Bytes)
    (acc : List Ev) : storeLoop (noTls e) (clearTls s) ib date data mbs acc = storeLoop e s ib date data mbs acc := by
  induction mbs generalizing acc with
  | nil => rfl
  | cons mb rest ih =>
    unfold storeLoop
    have h1 : (noTls e).storeFails = e.storeFails := rfl
    have h2 : traceHeaders (noTls e) (clearTls s) mb = traceHeaders e s mb := rfl
    rw [h1, h2]
    split
    · rfl
    · exact ih _

/-- a data phase inside TLS delivers exactly what the same data phase in the clear delivers: same stored copies (trace
    headers included), same reply -/
theorem tls_active_data_is_plain (e : Env) (s : Sess) (block : Bytes) (acc : List Ev) :
    handleData (noTls e) (clearTls s) block acc =
      (clearTls (handleData e s block acc).1, (handleData e s block acc).2) := by
  have hd : deliver (noTls e) (clearTls s) block acc = deliver e s block acc := by
    unfold deliver
    have h1 : (noTls e).hdr = e.hdr := rfl
    have h2 : (noTls e).hookStored = e.hookStored := rfl
    have h3 : (noTls e).pol = e.pol := rfl
    have h4 : (clearTls s).rcpts = s.rcpts := rfl
    have h5 : (clearTls s).sender = s.sender := rfl
    simp only [h1, h2, h3, h4, h5, storeLoop_noTls]
  unfold handleData
  have h6 : (noTls e).maxBytes = e.maxBytes := rfl
  rw [hd, h6]
  split
  · simp [say]; simp [send_io, clearTls, reset]
  · simp only []
    split <;> (simp [say]; simp [send_io, clearTls, reset])

/-- **Frame lemma.**  From any state in which TLS is active, the whole rest of the connection — every reply, every
    delivery with its stored bytes, the way it ends, the final state up to the flag — is exactly what a server WITHOUT
    TLS produces on the same command stream from the same state.  Together with `starttls_accepted` (the state after the
    switch is GREET) this says: a transaction after STARTTLS is handled as the same commands in the clear, after the
    extra greeting the switch makes necessary. -/
theorem tls_active_rest_is_plain (e : Env) (fuel : Nat) (s : Sess) (inp : Bytes) (acc : List Ev) (h : s.tls = true) :
    loop (noTls e) fuel (clearTls s) inp acc =
      ((loop e fuel s inp acc).1, clearTls (loop e fuel s inp acc).2.1, (loop e fuel s inp acc).2.2) := by
  induction fuel generalizing s inp acc with
  | zero => simp [loop_zero]
  | succ fuel ih =>
    have hst : (clearTls s).st = s.st := rfl
    have hse : (clearTls s).sendErr = s.sendErr := rfl
    cases iter s inp with
    | quit hq => rw [loop_stop_quit _ _ _ _ _ hq, loop_stop_quit _ _ _ _ _ (by rw [hst]; exact hq)]
    | sendErr hq h2 =>
      rw [loop_stop_sendErr _ _ _ _ _ hq h2, loop_stop_sendErr _ _ _ _ _ (by rw [hst]; exact hq) (by rw [hse]; exact h2)]
    | dataCut h2 h3 hd =>
      rw [loop_data_cut _ _ _ _ _ h2 h3 hd, loop_data_cut _ _ _ _ _ (by rw [hse]; exact h2) (by rw [hst]; exact h3) hd]
      simp [send_clearTls]; simp [clearTls]
    | data h2 h3 block rest hd =>
      rw [loop_data _ _ _ _ _ h2 h3 block rest hd,
        loop_data _ _ _ _ _ (by rw [hse]; exact h2) (by rw [hst]; exact h3) block rest hd]
      have hd2 := tls_active_data_is_plain e (send s 1) block []
      rw [← send_clearTls] at hd2
      rw [hd2]
      have : send (reset (send (clearTls s) 1)) 1 = clearTls (send (reset (send s 1)) 1) := by
        simp [send_clearTls]; simp [send_io, clearTls, reset]
      rw [this]
      exact ih _ _ _ (by simpa using h)
    | eof h1 h2 h3 hi =>
      subst hi
      rw [loop_eof _ _ _ _ h1 h2 h3, loop_eof _ _ _ _ (by rw [hst]; exact h1) (by rw [hse]; exact h2) (by rw [hst]; exact h3)]
    | line h1 h2 h3 line rest hl =>
      rw [loop_line _ _ _ _ _ h1 h2 h3 line rest hl,
        loop_line _ _ _ _ _ (by rw [hst]; exact h1) (by rw [hse]; exact h2) (by rw [hst]; exact h3) line rest hl,
        tls_active_line_is_plain e s line [] h]
      exact ih _ _ _ (tls_stays_on e s line [] h)

/-- the TLS part of `dlgTls`, run from the state the switch leaves, against the same commands on a server without TLS -/
example : (loop exTls 200 { exReady with st := .greet, tls := true }
      (ofAscii "EHLO b\r\nMAIL FROM:<>\r\nRCPT TO:<u@x.org>\r\nDATA\r\nhi\r\n.\r\nQUIT\r\n") []).1 =
    (loop exEnv 200 { exReady with st := .greet }
      (ofAscii "EHLO b\r\nMAIL FROM:<>\r\nRCPT TO:<u@x.org>\r\nDATA\r\nhi\r\n.\r\nQUIT\r\n") []).1 := by decide

/-- one message delivered inside TLS: stored once, to the recipient of its own transaction -/
example : (storedOf (run exTls none dlgTls).1).map (·.mailbox) = [ofAscii "u"] ∧ (run exTls none dlgTls).2.2 = .quit ∧
    (run exTls none dlgTls).2.1.tls = true := by decide

/-! ### the advertisement -/

/-- under ForceTLS the session has TLS from its first byte (NewSession records the state of the *tls.Conn) -/
def ForceInv (e : Env) (s : Sess) : Prop := e.forceTLS = true → s.tls = true

/-- … in every state a connection passes through -/
theorem force_inv_reach (e : Env) (b : Option Nat) (s : Sess) (g : List Addr.Recipient)
    (h : Reach e (start e b) [] s g) : ForceInv e s := by
  intro hf
  have h0 : (start e b).tls = true := by rw [start_tls]; exact hf
  exact starttls_at_most_once e _ _ _ _ h0 h

/-- **STARTTLS is advertised iff it would be accepted.**  In every state of every connection the EHLO capability test
    (`TLSEnabled && !ForceTLS && tlsState == nil`) and the STARTTLS acceptance test (`TLSEnabled`, `tlsState == nil`)
    agree … -/
theorem advertised_iff_accepted (e : Env) (b : Option Nat) (s : Sess) (g : List Addr.Recipient)
    (h : Reach e (start e b) [] s g) : advertises e s = acceptsStartTLS e s := by
  have hf := force_inv_reach e b s g h
  unfold advertises acceptsStartTLS
  cases hft : e.forceTLS with
  | false => simp
  | true => simp [hf hft]

/-- … the EHLO answered in GREET has the extra `250-STARTTLS` line (five lines) exactly when the capability test holds, and
    the READY state it leads to accepts STARTTLS (220) exactly then: the advertisement is neither missing nor a lie -/
theorem ehlo_advertisement_is_exact (e : Env) (b : Option Nat) (s : Sess) (g : List Addr.Recipient)
    (h : Reach e (start e b) [] s g) (hs : s.st = .greet) (l a : Bytes) (hp : parseCmd l = .cmd (ofAscii "EHLO") a)
    (ha : a ≠ []) (l2 a2 : Bytes) (hp2 : parseCmd l2 = .cmd (ofAscii "STARTTLS") a2) :
    (handleLine e s l []).1.st = .ready ∧
    (handleLine e s l []).2 = [.reply (List.replicate (if advertises e s then 5 else 4) 250)] ∧
    (handleLine e (handleLine e s l []).1 l2 []).2 = [.reply [if advertises e s then 220 else 454]] := by
  have h1 : s.st ≠ .login := by simp [hs]
  have h2 : s.st ≠ .password := by simp [hs]
  have hl : handleLine e s l [] =
      ({ send s (ehloLines e s) with st := .ready, remoteDomain := a.takeWhile (· != 32) },
        [.reply (List.replicate (ehloLines e s) 250)]) := by
    rw [handleLine_cmd e s l _ a [] h1 h2 hp, handleCmd_state _ _ _ _ _ (by decide)]
    unfold stateCmd
    rw [hs]
    simp only []
    unfold greetCmd
    rw [if_neg (by decide), if_pos (by decide), if_neg (by simpa using ha)]
  have hadv := advertised_iff_accepted e b s g h
  rw [hl]
  refine ⟨rfl, by simp [ehloLines], ?_⟩
  simp only []
  by_cases hacc : advertises e s = true
  · have hacc' : acceptsStartTLS e s = true := by rw [← hadv]; exact hacc
    simp only [acceptsStartTLS, Bool.and_eq_true, Bool.not_eq_true'] at hacc'
    rw [starttls_accepted e _ l2 a2 [] rfl hp2 hacc'.1 (by simpa using hacc'.2)]
    simp [hacc]
  · have hacc' : acceptsStartTLS e s = false := by rw [← hadv]; simpa using hacc
    have : e.tlsEnabled = false ∨ s.tls = true := by
      simp only [acceptsStartTLS, Bool.and_eq_false_iff, Bool.not_eq_false'] at hacc'
      exact hacc'
    rw [starttls_refused e _ l2 a2 [] rfl hp2 (by simpa using this)]
    simp [hacc]

example : (handleLine exTls (start exTls none) (ofAscii "EHLO a\r\n") []).2 = [.reply [250, 250, 250, 250, 250]] := by decide
example : (handleLine exEnv (start exEnv none) (ofAscii "EHLO a\r\n") []).2 = [.reply [250, 250, 250, 250]] := by decide
example : (handleLine exForce (start exForce none) (ofAscii "EHLO a\r\n") []).2 = [.reply [250, 250, 250, 250]] := by decide
/-- after the switch the capability is gone -/
example : ((run exTls none (ofAscii "EHLO a\r\nSTARTTLS\r\nEHLO b\r\n")).1.map
    (fun ev => match ev with | .reply l => l.length | _ => 0)) = [1, 5, 1, 4] := by decide

/-! ### what is on the wire: no plaintext injection, ForceTLS -/

/-- a TLS library for the examples: the handshake succeeds iff no stray byte reaches it, and then yields `inner` -/
def exOpen (inner : Option Bytes) : Bytes → Option Bytes := fun raw => if raw.isEmpty then inner else none

/-- without a key pair no command line changes the TLS flag -/
theorem tls_unchanged_without_keypair (e : Env) (s : Sess) (line : Bytes) (acc : List Ev) (he : e.tlsEnabled = false) :
    (handleLine e s line acc).1.tls = s.tls := by
  rw [handleLine_acc]
  have hstep := handleLine_step e s line
  generalize (handleLine e s line []).1 = s' at *
  generalize (handleLine e s line []).2 = evs at *
  cases hstep <;> simp_all

private theorem switchRest_none (e : Env) (fuel : Nat) (s : Sess) (inp : Bytes) (he : e.tlsEnabled = false) :
    switchRest e fuel s inp = none := by
  induction fuel generalizing s inp with
  | zero => rfl
  | succ fuel ih =>
    unfold switchRest
    repeat' split
    all_goals first | rfl | exact ih _ _ | skip
    all_goals simp_all [tls_unchanged_without_keypair e _ _ [] he]

/-- on a server without TLS (no key pair, no ForceTLS) the wire IS the command stream: nothing of this section applies -/
theorem wire_is_stream_without_tls (e : Env) (b : Option Nat) (w : Wire) (he : e.tlsEnabled = false)
    (hf : e.forceTLS = false) : runWire e b w = run e b w.pre := by
  unfold runWire
  simp [hf, switchRest_none e _ _ _ he]

/-- the bytes `switchRest` reports are what is left of the input behind the accepted STARTTLS line -/
theorem switchRest_suffix (e : Env) (fuel : Nat) (s : Sess) (inp rest : Bytes)
    (h : switchRest e fuel s inp = some rest) : rest <:+ inp := by
  induction fuel generalizing s inp with
  | zero => simp [switchRest] at h
  | succ fuel ih =>
    unfold switchRest at h
    split at h
    · simp at h
    · split at h
      · simp at h
      · split at h
        · split at h
          · simp at h
          · rename_i block r hd
            obtain ⟨pre, _, hpre⟩ := dotDecode_split _ _ _ hd
            exact (ih _ _ h).trans ⟨pre, hpre.symm⟩
        · split at h
          · simp at h
          · rename_i line r hl
            obtain ⟨pre, _, hpre⟩ := readLine_split _ _ _ hl
            simp only [] at h
            split at h
            · split at h
              · simp at h
              · simp only [Option.some.injEq] at h
                subst h
                exact ⟨pre, hpre.symm⟩
            · exact (ih _ _ h).trans ⟨pre, hpre.symm⟩

/-- **No plaintext injection.**  Let the client send `w.pre` in the clear and let `rest` be what it sent behind the
    accepted STARTTLS line without waiting for the 220.  Then the connection is the run of the command stream
    `consumed ++ q`, where `consumed` is `w.pre` up to and including the STARTTLS line and `q` is what the TLS layer
    delivers — `rest` is not part of the command stream: the bytes of it the old reader had buffered are dropped, the
    others go to the handshake.  If the handshake fails, the connection is the run of `consumed` alone, ends there
    (`tlsFail`) and nothing more is stored. -/
theorem starttls_no_plaintext_injection (e : Env) (b : Option Nat) (w : Wire) (rest : Bytes) (hf : e.forceTLS = false)
    (h : switchRest e (w.pre.length + 2) (send (initFor e b) 1) w.pre = some rest) :
    w.pre.take (w.pre.length - rest.length) ++ rest = w.pre ∧
    (∀ q, w.tlsOpen (rest.drop w.buffered) = some q →
      runWire e b w = run e b (w.pre.take (w.pre.length - rest.length) ++ q)) ∧
    (w.tlsOpen (rest.drop w.buffered) = none →
      (runWire e b w).1 = (run e b (w.pre.take (w.pre.length - rest.length))).1 ∧ (runWire e b w).2.2 = .tlsFail) := by
  refine ⟨?_, ?_, ?_⟩
  · obtain ⟨pre, hpre⟩ := switchRest_suffix _ _ _ _ _ h
    rw [← hpre]
    simp
  · intro q hq
    unfold runWire
    simp [hf, h, hq]
  · intro hq
    unfold runWire
    simp [hf, h, hq]

/-- the wire of the classic attack: MAIL / RCPT glued behind STARTTLS in one write, then a real handshake -/
def exInject (buffered : Nat) : Wire :=
  { pre := ofAscii "EHLO a\r\nSTARTTLS\r\nMAIL FROM:<>\r\nRCPT TO:<v@x.org>\r\n", buffered := buffered,
    tlsOpen := exOpen (some (ofAscii "RCPT TO:<u@x.org>\r\nEHLO b\r\nRCPT TO:<u@x.org>\r\n")) }

/-- the glued bytes were buffered (same write): they are dropped — the RCPT sent inside TLS is out of sequence (503) both
    before and after the new greeting, so the injected MAIL was never executed -/
example : ((runWire exTls none (exInject 100)).1.map (fun ev => match ev with | .reply (c :: _) => c | _ => 0)) =
    [220, 250, 220, 503, 250, 503] ∧ (runWire exTls none (exInject 100)).2.2 = .eof := by decide
/-- they were not buffered (a later segment): the handshake reads them and fails; the session ends -/
example : ((runWire exTls none (exInject 0)).1.map (fun ev => match ev with | .reply (c :: _) => c | _ => 0)) =
    [220, 250, 220] ∧ (runWire exTls none (exInject 0)).2.2 = .tlsFail := by decide
example : switchRest exTls 100 (send (initFor exTls none) 1) (exInject 0).pre =
    some (ofAscii "MAIL FROM:<>\r\nRCPT TO:<v@x.org>\r\n") := by decide

/-- **ForceTLS, plaintext client.**  Whatever a client sends in the clear to a ForceTLS listener, it gets nothing — not
    even the greeting (the first write needs the handshake) — no command is executed and nothing is stored. -/
theorem forcetls_plaintext_client_gets_nothing (e : Env) (b : Option Nat) (w : Wire) (hf : e.forceTLS = true)
    (h : w.tlsOpen w.pre = none) : (runWire e b w).1 = [] ∧ (runWire e b w).2.2 = .tlsFail := by
  unfold runWire
  simp [hf, h]

/-- **ForceTLS, TLS client.**  A client that completes the handshake has an ordinary session on what it sends inside
    TLS, with TLS active from the start (so STARTTLS is neither advertised nor accepted: `advertised_iff_accepted`,
    `starttls_at_most_once`) -/
theorem forcetls_tls_client_normal_session (e : Env) (b : Option Nat) (w : Wire) (hf : e.forceTLS = true) (q : Bytes)
    (h : w.tlsOpen w.pre = some q) : runWire e b w = run e b q ∧ (start e b).tls = true := by
  refine ⟨?_, by rw [start_tls]; exact hf⟩
  unfold runWire
  simp [hf, h]

example : (runWire exForce none { pre := ofAscii "EHLO a\r\nMAIL FROM:<>\r\n", buffered := 0, tlsOpen := exOpen none }).1 = [] := by
  decide
example : ((runWire exForce none { pre := [], buffered := 0, tlsOpen := exOpen (some (ofAscii "EHLO a\r\nSTARTTLS\r\nMAIL FROM:<>\r\n")) }).1.map
    (fun ev => match ev with | .reply l => (l.headD 0, l.length) | _ => (0, 0))) = [(220, 1), (250, 4), (454, 1), (250, 1)] := by decide

/-! ### the C03 clauses for connections that switch to TLS

  `C03.inv_loop`, `C03.total`, `C03.cut_anywhere`, `C03.cut_by_send_error`, `C03.phases_complete`, `C03.stored_by_phases`,
  `C01.envelope_is_accepted_since_mail`, … are stated for every `Env` and every command stream; for a connection given
  by its wire they hold of the command stream `runWire` runs.  Two of them, spelled out: -/

/-- whatever is on the wire — STARTTLS or not, handshake or not, junk behind STARTTLS or not — the connection
    terminates (never out of fuel) and ends in a state satisfying the C03 invariant -/
theorem wire_total_and_inv (e : Env) (b : Option Nat) (w : Wire) :
    (runWire e b w).2.2 ≠ .outOfFuel ∧ C03.Inv (runWire e b w).2.1 := by
  unfold runWire
  repeat' split
  all_goals first
    | exact ⟨C03.total e b _, (C03.inv_loop e b _).1⟩
    | skip
  · exact ⟨by simp, by simp [C03.Inv, initFor, init]⟩
  · refine ⟨by simp, ?_⟩
    have := (C03.inv_loop e b (List.take (w.pre.length - List.length ‹Bytes›) w.pre)).1
    simpa [C03.Inv] using this

/-- the events of a connection given by its wire are those of `run` on its command stream — the wire itself, what TLS
    delivered (ForceTLS), or the part up to the STARTTLS line followed by what TLS delivered (nothing, if the handshake
    failed); under ForceTLS with a failed handshake there are no events at all -/
theorem wire_events_are_stream_events (e : Env) (b : Option Nat) (w : Wire) :
    (runWire e b w).1 = [] ∨
    ∃ stream, (runWire e b w).1 = (run e b stream).1 ∧
      (stream = w.pre ∨ w.tlsOpen w.pre = some stream ∨
       ∃ rest, switchRest e (w.pre.length + 2) (send (initFor e b) 1) w.pre = some rest ∧
         (stream = w.pre.take (w.pre.length - rest.length) ∨
          ∃ q, w.tlsOpen (rest.drop w.buffered) = some q ∧ stream = w.pre.take (w.pre.length - rest.length) ++ q)) := by
  unfold runWire
  split
  · split
    · exact .inl rfl
    · rename_i q hq; exact .inr ⟨q, rfl, .inr (.inl hq)⟩
  · split
    · exact .inr ⟨_, rfl, .inl rfl⟩
    · rename_i rest hr
      simp only []
      split
      · exact .inr ⟨_, rfl, .inr (.inr ⟨rest, hr, .inl rfl⟩)⟩
      · rename_i q hq; exact .inr ⟨_, rfl, .inr (.inr ⟨rest, hr, .inr ⟨q, hq, rfl⟩⟩)⟩

/-- hence the stored copies of a connection given by its wire are exactly those of the completed data phases of its
    command stream (`C03.stored_by_phases`, `C03.phases_complete`: whole decoded blocks behind their trace headers) -/
theorem wire_stored_by_phases (e : Env) (b : Option Nat) (w : Wire) :
    storedOf (runWire e b w).1 = [] ∨
    ∃ stream, storedOf (runWire e b w).1 = (runPhases e b stream).flatMap (fun ph => storedOf ph.evs) := by
  rcases wire_events_are_stream_events e b w with h | ⟨stream, h, _⟩
  · exact .inl (by rw [h]; rfl)
  · exact .inr ⟨stream, by rw [h]; exact C03.stored_by_phases e b stream⟩

/-- a well-behaved TLS client: greeting and STARTTLS in the clear, one transaction inside TLS -/
def exGood : Wire :=
  { pre := ofAscii "EHLO a\r\nSTARTTLS\r\n", buffered := 0,
    tlsOpen := exOpen (some (ofAscii "EHLO b\r\nMAIL FROM:<>\r\nRCPT TO:<u@x.org>\r\nDATA\r\nhi\r\n.\r\n")) }

example : (storedOf (runWire exTls none exGood).1).map (·.mailbox) = [ofAscii "u"] := by decide

end Ibx.Props.C03Tls
