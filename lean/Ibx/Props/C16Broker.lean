import Ibx.Model.Broker
/-
  C16 (second half) — a listener is never invoked for the next event before its previous invocation has
  finished, so it observes a message's `stored` before its `deleted` and deliveries in arrival order.
  Section EventBroker: the synchronous broker (first answer wins; registry discipline) — shared with C17.
  Section Async: the per-listener FIFO variant satisfies the contract in EVERY interleaving; the
  goroutine-per-event variant has reachable counter-examples (defect F-16b).
-/
namespace Ibx.Props.C16Broker
open Ibx.Model.Broker

/-! ### EventBroker (synchronous) -/
section EventBroker
variable {E R : Type}

/-- `Emit` returns nil exactly when every registered listener returns nil for the event. -/
theorem emit_none_iff (s : Registry E R) (e : E) : emit s e = none ↔ ∀ l ∈ s, l.fn e = none := by
  induction s with
  | nil => simp [emit]
  | cons l ls ih =>
    cases h : l.fn e <;> simp [emit, h, ih]

example : emit ([⟨"a", fun _ => none⟩, ⟨"b", fun _ => none⟩] : Registry Nat Nat) 7 = none := by decide

/-- `Emit` returns `r` exactly when the registry splits into listeners that all decline, then a listener
    answering `r` (whatever follows is irrelevant): the first answer in registration order wins. -/
theorem first_answer_wins (s : Registry E R) (e : E) (r : R) :
    emit s e = some r ↔
      ∃ pre l post, s = pre ++ l :: post ∧ (∀ x ∈ pre, x.fn e = none) ∧ l.fn e = some r := by
  induction s with
  | nil => simp [emit]
  | cons l ls ih =>
    cases h : l.fn e with
    | some r' =>
      simp only [emit, h]
      constructor
      · intro hr
        exact ⟨[], l, ls, rfl, by simp, by simpa [h] using hr⟩
      · rintro ⟨pre, l', post, hs, hpre, hl'⟩
        cases pre with
        | nil =>
          simp only [List.nil_append, List.cons.injEq] at hs
          obtain ⟨rfl, _⟩ := hs
          simpa [h] using hl'
        | cons p ps =>
          simp only [List.cons_append, List.cons.injEq] at hs
          obtain ⟨rfl, _⟩ := hs
          have := hpre l (by simp)
          simp [h] at this
    | none =>
      simp only [emit, h, ih]
      constructor
      · rintro ⟨pre, l', post, rfl, hpre, hl'⟩
        refine ⟨l :: pre, l', post, rfl, ?_, hl'⟩
        intro x hx
        rcases List.mem_cons.mp hx with rfl | hx
        · exact h
        · exact hpre x hx
      · rintro ⟨pre, l', post, hs, hpre, hl'⟩
        cases pre with
        | nil =>
          simp only [List.nil_append, List.cons.injEq] at hs
          obtain ⟨rfl, _⟩ := hs
          simp [h] at hl'
        | cons p ps =>
          simp only [List.cons_append, List.cons.injEq] at hs
          obtain ⟨rfl, rfl⟩ := hs
          exact ⟨ps, l', post, rfl, fun x hx => hpre x (List.mem_cons_of_mem _ hx), hl'⟩

example : emit ([⟨"a", fun _ => none⟩, ⟨"b", fun _ => some 1⟩, ⟨"c", fun _ => some 2⟩] : Registry Nat Nat) 7 = some 1 := by
  decide

/-- The listeners actually called are those up to and including the first that answers; the rest are
    not called at all. -/
theorem later_listeners_not_called (pre post : Registry E R) (l : Listener E R) (e : E) (r : R)
    (hpre : ∀ x ∈ pre, x.fn e = none) (hl : l.fn e = some r) :
    called (pre ++ l :: post) e = names pre ++ [l.name] := by
  induction pre with
  | nil => simp [called, hl, names]
  | cons p ps ih =>
    have hp : p.fn e = none := hpre p (by simp)
    have := ih (fun x hx => hpre x (List.mem_cons_of_mem _ hx))
    simp [called, hp, names] at this ⊢
    exact this

example : called ([⟨"a", fun _ => none⟩, ⟨"b", fun _ => some 1⟩, ⟨"c", fun _ => some 2⟩] : Registry Nat Nat) 7 = ["a", "b"] := by
  decide

/-- When nobody answers, everybody was called, in registration order. -/
theorem all_called_when_no_answer (s : Registry E R) (e : E) (h : emit s e = none) : called s e = names s := by
  induction s with
  | nil => simp [called, names]
  | cons l ls ih =>
    cases hl : l.fn e with
    | some r => simp [emit, hl] at h
    | none =>
      simp only [emit, hl] at h
      simp [called, hl, names] at ih ⊢
      exact ih h

example : called ([⟨"a", fun _ => none⟩, ⟨"b", fun _ => none⟩] : Registry Nat Nat) 7 = ["a", "b"] := by decide

private theorem names_removeFirst (n : String) (s : Registry E R) : names (removeFirst n s) = (names s).erase n := by
  induction s with
  | nil => simp [removeFirst, names]
  | cons l ls ih =>
    by_cases h : l.name = n
    · simp [removeFirst, names, h]
    · have h' : ¬ (l.name == n) = true := by simpa using h
      simp only [names] at ih
      simp [removeFirst, names, h, ih]

/-- `AddListener` moves the name to the END of the order (a replaced listener loses its priority slot),
    all other names keep their relative order. -/
theorem add_appends_last (s : Registry E R) (n : String) (f : E → Option R) :
    names (addListener s n f) = (names s).erase n ++ [n] := by
  simp only [addListener, names, List.map_append, List.map_cons, List.map_nil]
  have := names_removeFirst n s
  simp only [names] at this
  rw [this]

example : names (addListener ([⟨"a", fun _ => none⟩, ⟨"b", fun _ => none⟩] : Registry Nat Nat) "a" (fun _ => some 3)) = ["b", "a"] := by
  decide

/-- `RemoveListener` deletes the name, keeping the others in order. -/
theorem remove_erases (s : Registry E R) (n : String) : names (removeListener s n) = (names s).erase n :=
  names_removeFirst n s

example : names (removeListener ([⟨"a", fun _ => none⟩, ⟨"b", fun _ => none⟩] : Registry Nat Nat) "a") = ["b"] := by decide

/-- Whatever sequence of AddListener / RemoveListener calls built the registry, no name occurs twice —
    so "remove the first entry of that name" removes the only one. -/
theorem names_nodup (ops : List (Op E R)) : (names (applyOps ops)).Nodup := by
  suffices h : ∀ (s : Registry E R), (names s).Nodup → (names (ops.foldl applyOp s)).Nodup by
    exact h [] (by simp [names])
  induction ops with
  | nil => intro s hs; simpa using hs
  | cons o os ih =>
    intro s hs
    simp only [List.foldl_cons]
    apply ih
    cases o with
    | add n f =>
      simp only [applyOp]
      rw [add_appends_last]
      have h1 : ((names s).erase n).Nodup := hs.erase n
      have h2 : n ∉ (names s).erase n := hs.not_mem_erase
      rw [List.nodup_append]
      refine ⟨h1, by simp, ?_⟩
      intro a ha b hb
      simp only [List.mem_singleton] at hb
      rintro rfl
      exact h2 (hb ▸ ha)
    | remove n =>
      simp only [applyOp]
      rw [remove_erases]
      exact hs.erase n

example : names (applyOps ([.add "a" (fun _ => none), .add "b" (fun _ => none), .add "a" (fun _ => some 1), .remove "c"] : List (Op Nat Nat))) = ["b", "a"] := by
  decide

/-- After `AddListener n f` on a registry built through the API, the listener registered under `n` is `f`
    (the previous one is gone). -/
theorem add_replaces (ops : List (Op E R)) (n : String) (f : E → Option R) (l : Listener E R)
    (hl : l ∈ addListener (applyOps ops) n f) (hn : l.name = n) : l.fn = f := by
  have hnd := names_nodup (ops ++ [Op.add n f])
  simp only [applyOps, List.foldl_append, List.foldl_cons, List.foldl_nil, applyOp] at hnd
  have hnd' : (names (addListener (applyOps ops) n f)).Nodup := hnd
  simp only [addListener, List.mem_append, List.mem_singleton] at hl
  rcases hl with hl | rfl
  · exfalso
    simp only [addListener, names, List.map_append, List.map_cons, List.map_nil] at hnd'
    rw [List.nodup_append] at hnd'
    have hmem : l.name ∈ List.map (·.name) (removeFirst n (applyOps ops)) := List.mem_map_of_mem hl
    exact hnd'.2.2 _ hmem n (by simp) hn
  · rfl

example : ∃ l ∈ addListener (applyOps ([.add "a" (fun _ => none)] : List (Op Nat Nat))) "a" (fun _ => some 1), l.name = "a" :=
  ⟨⟨"a", fun _ => some 1⟩, by simp [addListener, applyOps, applyOp, removeFirst], rfl⟩

end EventBroker

/-! ### AsyncEventBroker, one listener, all interleavings -/
section Async

/-- the invariant of the per-listener FIFO variant -/
structure QInv (s : St) : Prop where
  conserve : s.emitted = s.done ++ s.running ++ s.pending ++ s.dropped
  startedEq : s.started = s.done ++ s.running
  serial : s.running.length ≤ 1
  regDropped : s.registered = true → s.dropped = []
  unregPending : s.registered = false → s.pending = []

private theorem qinv_step {s t : St} (h : QInv s) (st : Step .perListenerQueue s t) : QInv t := by
  obtain ⟨h1, h2, h3, h4, h5⟩ := h
  cases st with
  | emit _ _ e hr =>
    have hd := h4 hr
    constructor <;> simp_all
  | qStart _ e q hr hp hrun =>
    constructor <;> simp_all
  | qFinish _ e hrun =>
    constructor <;> simp_all
  | qRemove _ hr =>
    have hd := h4 hr
    constructor <;> simp_all

private theorem qinv_init : QInv St.init := by
  constructor <;> simp [St.init]

theorem qinv {s : St} (h : Reach .perListenerQueue s) : QInv s := by
  induction h with
  | init => exact qinv_init
  | step _ st ih => exact qinv_step ih st

/-- At most one invocation of the listener is in progress at any time, in every interleaving. -/
theorem listener_serial {s : St} (h : Reach .perListenerQueue s) : s.running.length ≤ 1 := (qinv h).serial

/-- The invocations start in emission order: the started sequence is a prefix of the emitted one, and
    the finished sequence is the started one minus at most its last element. -/
theorem listener_fifo {s : St} (h : Reach .perListenerQueue s) :
    s.started <+: s.emitted ∧ s.done <+: s.started ∧ s.started.length ≤ s.done.length + 1 := by
  obtain ⟨h1, h2, h3, _, _⟩ := qinv h
  refine ⟨⟨s.pending ++ s.dropped, ?_⟩, ⟨s.running, h2.symm⟩, ?_⟩
  · rw [h1, h2]; simp
  · rw [h2]; simp; omega

/-- No event is lost while the listener stays registered: finished ++ in progress ++ queued is exactly the
    emitted sequence (and each event occurs in it as often as it was emitted). -/
theorem no_event_lost {s : St} (h : Reach .perListenerQueue s) (hr : s.registered = true) :
    s.done ++ s.running ++ s.pending = s.emitted := by
  obtain ⟨h1, _, _, h4, _⟩ := qinv h
  rw [h1, h4 hr]; simp

/-- After RemoveListener the events are partitioned: finished ++ in progress ++ dropped; nothing queued. -/
theorem removed_partition {s : St} (h : Reach .perListenerQueue s) (hr : s.registered = false) :
    s.done ++ s.running ++ s.dropped = s.emitted ∧ s.pending = [] := by
  obtain ⟨h1, _, _, _, h5⟩ := qinv h
  have := h5 hr
  rw [h1, this]; simp

/-- `Emit` is enabled in every reachable state with the listener registered, whatever the listener is
    doing (blocked, slow): the queue is unbounded and Emit only appends. -/
theorem emit_never_blocks {s : St} (_h : Reach .perListenerQueue s) (hr : s.registered = true) (e : Ev) :
    ∃ t, Step .perListenerQueue s t ∧ t.emitted = s.emitted ++ [e] ∧ t.pending = s.pending ++ [e] ∧ t.running = s.running :=
  ⟨_, Step.emit _ s e hr, rfl, rfl, rfl⟩

private theorem steps_trans {v : AsyncEmit} {a b c : St} (h1 : Steps v a b) (h2 : Steps v b c) : Steps v a c := by
  induction h2 with
  | refl => exact h1
  | tail _ st ih => exact Steps.tail ih st

theorem reach_steps {v : AsyncEmit} {a b : St} (h : Reach v a) (h2 : Steps v a b) : Reach v b := by
  induction h2 with
  | refl => exact h
  | tail _ st ih => exact Reach.step ih st

private theorem drain_aux (n : Nat) : ∀ (s : St), s.registered = true → s.running = [] → s.pending.length = n →
    ∃ t, Steps .perListenerQueue s t ∧ t.done = s.done ++ s.pending ∧ t.pending = [] ∧ t.running = [] ∧
      t.emitted = s.emitted ∧ t.registered = true := by
  induction n with
  | zero =>
    intro s hr hrun hp
    have : s.pending = [] := List.eq_nil_of_length_eq_zero hp
    exact ⟨s, Steps.refl s, by simp [this], this, hrun, rfl, hr⟩
  | succ n ih =>
    intro s hr hrun hp
    match hpe : s.pending with
    | [] => simp [hpe] at hp
    | e :: q =>
      let s1 : St := { s with pending := q, running := [e], started := s.started ++ [e] }
      let s2 : St := { s1 with running := [], done := s1.done ++ [e] }
      have st1 : Step .perListenerQueue s s1 := Step.qStart s e q hr hpe hrun
      have st2 : Step .perListenerQueue s1 s2 := Step.qFinish s1 e rfl
      have hq : s2.pending.length = n := by simp [s2, s1]; simp [hpe] at hp; exact hp
      obtain ⟨t, hst, hd, hpn, hrn, hem, hreg⟩ := ih s2 hr rfl hq
      refine ⟨t, steps_trans (Steps.tail (Steps.tail (Steps.refl s) st1) st2) hst, ?_, hpn, hrn, ?_, hreg⟩
      · rw [hd]; simp [s2, s1]
      · rw [hem]

/-- Every emitted event is eventually delivered: from any reachable state with the listener registered
    there is a continuation (no further Emit needed) after which the finished sequence IS the emitted
    sequence — nothing queued, nothing in progress. -/
theorem all_delivered_eventually {s : St} (h : Reach .perListenerQueue s) (hr : s.registered = true) :
    ∃ t, Steps .perListenerQueue s t ∧ t.done = s.emitted ∧ t.emitted = s.emitted ∧ t.pending = [] ∧ t.running = [] := by
  have hl := no_event_lost h hr
  have hser := listener_serial h
  match hrun : s.running with
  | [] =>
    obtain ⟨t, hst, hd, hp, hrn, hem, _⟩ := drain_aux s.pending.length s hr hrun rfl
    refine ⟨t, hst, ?_, hem, hp, hrn⟩
    rw [hd, ← hl, hrun]; simp
  | [e] =>
    let s1 : St := { s with running := [], done := s.done ++ [e] }
    have st1 : Step .perListenerQueue s s1 := Step.qFinish s e hrun
    obtain ⟨t, hst, hd, hp, hrn, hem, _⟩ := drain_aux s1.pending.length s1 hr rfl rfl
    refine ⟨t, steps_trans (Steps.tail (Steps.refl s) st1) hst, ?_, ?_, hp, hrn⟩
    · rw [hd, ← hl, hrun]
    · rw [hem]
  | _ :: _ :: _ => simp [hrun] at hser

private theorem prefix_upto {α : Type} (xs : List α) (a b : α) : ∀ (ys zs p q : List α),
    (xs ++ a :: ys ++ b :: zs).Nodup → p ++ q = xs ++ a :: ys ++ b :: zs → b ∈ p →
    ∃ p2, p = xs ++ a :: ys ++ b :: p2 := by
  intro ys zs
  -- flatten to l = pre ++ b :: zs with pre = xs ++ a :: ys
  suffices h : ∀ (pre p q : List α), (pre ++ b :: zs).Nodup → p ++ q = pre ++ b :: zs → b ∈ p → ∃ p2, p = pre ++ b :: p2 by
    intro p q hnd heq hb
    have := h (xs ++ a :: ys) p q (by simpa using hnd) (by simpa using heq) hb
    simpa using this
  intro pre
  induction pre with
  | nil =>
    intro p q _ heq hb
    cases p with
    | nil => simp at hb
    | cons x p' =>
      simp only [List.cons_append, List.nil_append, List.cons.injEq] at heq
      exact ⟨p', by simp [heq.1]⟩
  | cons x pre ih =>
    intro p q hnd heq hb
    cases p with
    | nil => simp at hb
    | cons y p' =>
      simp only [List.cons_append, List.cons.injEq] at heq
      obtain ⟨rfl, heq⟩ := heq
      simp only [List.cons_append, List.nodup_cons] at hnd
      have hb' : b ∈ p' := by
        rcases List.mem_cons.mp hb with rfl | hb
        · exact absurd (by simp) hnd.1
        · exact hb
      obtain ⟨p2, rfl⟩ := ih p' q hnd.2 heq hb'
      exact ⟨p2, by simp⟩

/-- Delivery respects emission order: if `a` was emitted before `b` (event identities distinct) and the
    invocation for `b` has started, then the invocation for `a` has already FINISHED. -/
theorem delivered_in_emission_order {s : St} (h : Reach .perListenerQueue s) (xs ys zs : List Ev) (a b : Ev)
    (hem : s.emitted = xs ++ a :: ys ++ b :: zs) (hnd : s.emitted.Nodup) (hb : b ∈ s.started) : a ∈ s.done := by
  obtain ⟨h1, h2, h3, _, _⟩ := qinv h
  have heq : s.started ++ (s.pending ++ s.dropped) = xs ++ a :: ys ++ b :: zs := by
    rw [← hem, h1, h2]; simp
  obtain ⟨p2, hp⟩ := prefix_upto xs a b ys zs s.started _ (hem ▸ hnd) heq hb
  rw [h2] at hp
  match hrun : s.running with
  | [] =>
    rw [hrun] at hp
    simp only [List.append_nil] at hp
    rw [hp]; simp
  | [r] =>
    rw [hrun] at hp
    have hdl : s.done = (xs ++ a :: ys ++ b :: p2).dropLast := by
      rw [← hp]; simp
    rw [hdl]
    have : (xs ++ a :: ys ++ b :: p2).dropLast = xs ++ a :: (ys ++ b :: p2).dropLast := by
      simp [List.dropLast_cons_of_ne_nil]
    rw [this]; simp
  | _ :: _ :: _ => simp [hrun] at h3

/-- event identities used by the corollary: message number m ↦ its `stored` and its `deleted` event -/
def storedEv (m : Nat) : Ev := 2 * m
def deletedEv (m : Nat) : Ev := 2 * m + 1

/-- A listener (e.g. the message hub) has finished handling a message's `stored` before it is called for
    that message's `deleted`, whenever they were emitted in that order. -/
theorem stored_before_deleted {s : St} (h : Reach .perListenerQueue s) (m : Nat) (xs ys zs : List Ev)
    (hem : s.emitted = xs ++ storedEv m :: ys ++ deletedEv m :: zs) (hnd : s.emitted.Nodup)
    (hb : deletedEv m ∈ s.started) : storedEv m ∈ s.done :=
  delivered_in_emission_order h xs ys zs _ _ hem hnd hb

/-- a witness that the hypotheses of `stored_before_deleted` are met by a reachable state -/
def sbdWitness : St :=
  { emitted := [storedEv 4, deletedEv 4], running := [deletedEv 4], started := [storedEv 4, deletedEv 4], done := [storedEv 4] }

theorem sbdWitness_reach : Reach .perListenerQueue sbdWitness := by
  have r0 : Reach .perListenerQueue St.init := Reach.init
  have r1 := Reach.step r0 (Step.emit _ _ (storedEv 4) rfl)
  have r2 := Reach.step r1 (Step.emit _ _ (deletedEv 4) rfl)
  have r3 := Reach.step r2 (Step.qStart _ (storedEv 4) [deletedEv 4] rfl rfl rfl)
  have r4 := Reach.step r3 (Step.qFinish _ (storedEv 4) rfl)
  have r5 := Reach.step r4 (Step.qStart _ (deletedEv 4) [] rfl rfl rfl)
  simpa [sbdWitness, St.init] using r5

example : storedEv 4 ∈ sbdWitness.done :=
  stored_before_deleted sbdWitness_reach 4 [] [] [] (by decide) (by decide) (by decide)

example : sbdWitness.running.length ≤ 1 := listener_serial sbdWitness_reach
example : sbdWitness.started <+: sbdWitness.emitted := (listener_fifo sbdWitness_reach).1
example : sbdWitness.done ++ sbdWitness.running ++ sbdWitness.pending = sbdWitness.emitted := no_event_lost sbdWitness_reach rfl
example : ∃ t, Step .perListenerQueue sbdWitness t ∧ t.emitted = sbdWitness.emitted ++ [9] :=
  let ⟨t, h1, h2, _⟩ := emit_never_blocks sbdWitness_reach rfl 9; ⟨t, h1, h2⟩
example : ∃ t, Steps .perListenerQueue sbdWitness t ∧ t.done = sbdWitness.emitted :=
  let ⟨t, h1, h2, _⟩ := all_delivered_eventually sbdWitness_reach rfl; ⟨t, h1, h2⟩

/-- After RemoveListener no further invocation starts: the only possible step is the return of the call
    in progress, and once that has returned the worker has nothing left to do (it exits: no leak). -/
theorem no_start_after_remove {s t : St} (h : Reach .perListenerQueue s) (hr : s.registered = false)
    (st : Step .perListenerQueue s t) : t.started = s.started ∧ t.registered = false ∧ t.running = [] := by
  have hp := (qinv h).unregPending hr
  cases st with
  | emit _ _ e hr' => simp [hr] at hr'
  | qStart _ e q hr' _ _ => simp [hr] at hr'
  | qFinish _ e hrun => exact ⟨rfl, hr, rfl⟩
  | qRemove _ hr' => simp [hr] at hr'

theorem worker_stops_after_remove {s : St} (_h : Reach .perListenerQueue s) (hr : s.registered = false)
    (hrun : s.running = []) : ¬ ∃ t, Step .perListenerQueue s t := by
  rintro ⟨t, st⟩
  cases st with
  | emit _ _ e hr' => simp [hr] at hr'
  | qStart _ e q hr' _ _ => simp [hr] at hr'
  | qFinish _ e hrun' => simp [hrun] at hrun'
  | qRemove _ hr' => simp [hr] at hr'

/-- removed while one call is in progress and two events are queued -/
def removedWitness : St :=
  { registered := false, emitted := [1, 2, 3], running := [1], started := [1], dropped := [2, 3] }

theorem removedWitness_reach : Reach .perListenerQueue removedWitness := by
  have r0 : Reach .perListenerQueue St.init := Reach.init
  have r1 := Reach.step r0 (Step.emit _ _ 1 rfl)
  have r2 := Reach.step r1 (Step.qStart _ 1 [] rfl rfl rfl)
  have r3 := Reach.step r2 (Step.emit _ _ 2 rfl)
  have r4 := Reach.step r3 (Step.emit _ _ 3 rfl)
  have r5 := Reach.step r4 (Step.qRemove _ rfl)
  simpa [removedWitness, St.init] using r5

example : ∃ t, Step .perListenerQueue removedWitness t ∧ t.started = removedWitness.started :=
  ⟨_, Step.qFinish _ 1 rfl, rfl⟩
example : removedWitness.done ++ removedWitness.running ++ removedWitness.dropped = removedWitness.emitted :=
  (removed_partition removedWitness_reach rfl).1

/-! #### the executable normal form the harness compares against is a reachable schedule -/

private theorem settle_steps (s : St) : Steps .perListenerQueue s (settle s) := by
  unfold settle
  split
  · next e q hr hrun hp => exact Steps.tail (Steps.refl s) (Step.qStart s e q hr hp hrun)
  · exact Steps.refl s

private theorem act_steps (s : St) (a : Act) : Steps .perListenerQueue s (act s a) := by
  cases a with
  | emit e =>
    simp only [act]
    split
    · next hr => exact steps_trans (Steps.tail (Steps.refl s) (Step.emit _ s e hr)) (settle_steps _)
    · exact Steps.refl s
  | release =>
    simp only [act]
    split
    · next e hrun => exact steps_trans (Steps.tail (Steps.refl s) (Step.qFinish s e hrun)) (settle_steps _)
    · exact Steps.refl s
  | remove =>
    simp only [act]
    split
    · next hr => exact Steps.tail (Steps.refl s) (Step.qRemove s hr)
    · exact Steps.refl s

/-- The state the driver reports after any action list is a state of the interleaving model, so every
    theorem above applies to what the harness compares the real broker with. -/
theorem run_reach (acts : List Act) : Reach .perListenerQueue (run acts) := by
  suffices h : ∀ s, Reach .perListenerQueue s → Reach .perListenerQueue (acts.foldl act s) from h _ Reach.init
  induction acts with
  | nil => intro s hs; exact hs
  | cons a as ih => intro s hs; exact ih _ (reach_steps hs (act_steps s a))

example : (run [.emit 1, .emit 2, .release]).running = [2] ∧ (run [.emit 1, .emit 2, .release]).done = [1] := by decide

/-! #### goroutinePerEvent (`go l(*event)`): the contract fails — defect F-16b -/

/-- Schedule "emit 0; emit 1; start 0; start 1": two invocations of the same listener in progress at once. -/
theorem goroutinePerEvent_overlap :
    ∃ s, Reach .goroutinePerEvent s ∧ s.emitted = [0, 1] ∧ s.running = [0, 1] := by
  have r0 : Reach .goroutinePerEvent St.init := Reach.init
  have r1 := Reach.step r0 (Step.emit _ _ 0 rfl)
  have r2 := Reach.step r1 (Step.emit _ _ 1 rfl)
  have r3 := Reach.step r2 (Step.gStart _ [] [1] 0 rfl)
  have r4 := Reach.step r3 (Step.gStart _ [] [] 1 rfl)
  exact ⟨_, r4, rfl, rfl⟩

/-- Schedule "emit stored(4); emit deleted(4); start deleted(4); finish it": the listener has completely
    handled the deletion of message 4 while its `stored` has not even started (the hub's phantom entry). -/
theorem goroutinePerEvent_reorder :
    ∃ s, Reach .goroutinePerEvent s ∧ s.emitted = [storedEv 4, deletedEv 4] ∧ s.done = [deletedEv 4] ∧
      s.started = [deletedEv 4] ∧ s.pending = [storedEv 4] := by
  have r0 : Reach .goroutinePerEvent St.init := Reach.init
  have r1 := Reach.step r0 (Step.emit _ _ (storedEv 4) rfl)
  have r2 := Reach.step r1 (Step.emit _ _ (deletedEv 4) rfl)
  have r3 := Reach.step r2 (Step.gStart _ [storedEv 4] [] (deletedEv 4) rfl)
  have r4 := Reach.step r3 (Step.gFinish _ [] [] (deletedEv 4) rfl)
  exact ⟨_, r4, rfl, rfl, rfl, rfl⟩

/-- Schedule "emit 0; remove; start 0": the listener is called after RemoveListener returned. -/
theorem goroutinePerEvent_call_after_remove :
    ∃ s t, Reach .goroutinePerEvent s ∧ s.registered = false ∧ Step .goroutinePerEvent s t ∧ t.started = s.started ++ [0] := by
  have r0 : Reach .goroutinePerEvent St.init := Reach.init
  have r1 := Reach.step r0 (Step.emit _ _ 0 rfl)
  have r2 := Reach.step r1 (Step.gRemove _ rfl)
  exact ⟨_, _, r2, rfl, Step.gStart _ [] [] 0 rfl, rfl⟩

/-- Hence `listener_serial` and `listener_fifo` are FALSE for the goroutine-per-event variant. -/
theorem goroutinePerEvent_not_serial : ¬ ∀ s, Reach .goroutinePerEvent s → s.running.length ≤ 1 := by
  intro h
  obtain ⟨s, hs, _, hr⟩ := goroutinePerEvent_overlap
  have := h s hs
  simp [hr] at this

theorem goroutinePerEvent_not_fifo : ¬ ∀ s, Reach .goroutinePerEvent s → s.started <+: s.emitted := by
  intro h
  obtain ⟨s, hs, he, _, hst, _⟩ := goroutinePerEvent_reorder
  have := h s hs
  rw [he, hst] at this
  revert this
  decide

end Async

end Ibx.Props.C16Broker
