import Ibx.Lemmas.CrashBridge
/-
  C11 (bridge) — the crash model of the file store, restated against the ordered-mailbox spec.

  Ibx/Props/C11.lean proves crash atomicity inside the step-level model (its own `unitViews`); Ibx/Props/C07File.lean
  proves that the SEQUENTIAL file model refines Ibx/Spec/Store.lean.  Here the two are connected
  (proofs in Ibx/Lemmas/CrashBridge.lean):

    * `Abs C ρ s f` — the abstraction relation: the step-level file system `s` READS (through `view`) what the
      sequential file system `f` lists, ids translated by the per-mailbox injective renaming `ρ` (concrete id ↦ rank);
    * `bridge_complete_op` — running the whole step program of an operation = `Model.FileStore.step` on the abstraction
      (views, answer, `deleted` events), hence (by `file_refines_step`) = the `Spec.Store` operation;
    * `crash_atomic_spec` — a crash image after ANY prefix of the step program reads, in EVERY mailbox, as the spec
      state reached from the state before by a PREFIX of the operation's atomic units (`unitOps`: each cap eviction is
      one `Spec.remove` of the oldest message, then the add) — and the invariant (WF, Abs, RF) holds again, so whatever
      follows is covered too;
    * `recovered_store_accepts_mail_spec` — a further delivery succeeds and the spec lists it last under the next id;
    * the id generator: the only hypothesis is C11's `Fresh` (id not LISTED; guaranteed by the re-draw loop, F-10);
      `first_appearance_rank_fixes_renaming` / `first_appearance_rank_is_fresh` / `reused_id_changes_rank_fails` say what
      the stronger C10 hypothesis (id never handed out before; F-10b is its failure) adds.
-/
namespace Ibx.Props.C11Bridge
open Ibx Ibx.Model.FsSteps Ibx.Lemmas.Crash Ibx.Lemmas.FileRefine Ibx.Lemmas.CrashBridge
open Ibx.Props.C11 (WF Fresh allOk crash_atomic crash_untouched op_complete wf_init)
open Ibx.Spec.Store (Meta Msg Store Cfg Out Ev)
open Ibx.Model.FileStore (FEnt readIndex toMsg)
open Ibx.Model.FsCodec (lp)

abbrev FSempty : QFS := Ibx.Model.FileStore.empty
abbrev Sempty : Store := Ibx.Spec.Store.empty
/-- the renaming of a store that has never handed out an id: anything injective, e.g. the identity -/
def idRen : Ren := fun _ i => i

theorem idRen_inj : RenInj idRen := fun _ _ _ h => h

/-- **the invariant is inhabited**: the empty directory tree is well-formed, abstracts to the empty sequential file
    system under any renaming, which is related to the empty spec store -/
theorem bridge_init (C : Codec) (ρ : Ren) : WF C FS.init ∧ Abs C ρ FS.init FSempty ∧ RF FSempty Sempty :=
  ⟨wf_init C, abs_init C ρ, RF_empty⟩

/-- **abs_function.**  The abstraction is also a FUNCTION: `absFs C ρ names nx s` (per mailbox: no directory if it reads
    empty, else the renamed decoded index and the raw files of the listed entries — tmp files, orphan raws, empty
    directories dropped; the walk order and the generator state are parameters, the directory tree does not determine
    them) is related by `Abs` to every well-formed `s`. -/
theorem abs_function (C : Codec) (ρ : Ren) (hρ : RenInj ρ) (names : List Bytes) (nx : Bytes → Nat) (s : SFS) (hwf : WF C s) :
    Abs C ρ s (absFs C ρ names nx s) :=
  abs_absFs C hρ names nx s hwf

/-- **bridge_complete_op.**  In a well-formed step-level state `s` that abstracts to the sequential file system `f`
    (`Abs`, renaming `ρ`), itself related to the spec state `σ` (`RF`): running the WHOLE step program of `op` (every
    chunking, every RemoveAll order, every layout) succeeds in every system call, and corresponds to
    `Model.FileStore.step` of the renamed operation on `f` —
      the resulting states are again related by `Abs` (renaming `renFor ρ f.next op`: a delivery gives its id the
      rank `f.next b + 1`, nothing else changes) and by `RF` to the spec state after `Spec.Store.step`;
      the mailbox shows the final unit view;
      the sequential model's answer is the renamed step-level answer (id / ok / notExist), its `deleted` events are the
      renamed step-level events (evictions oldest first, the removed message, the purged messages);
      and both are the spec's. -/
theorem bridge_complete_op (C : Codec) (ch : Chooser) (lay : Layout) (c : Cfg) (s : SFS) (op : SOp) (ρ : Ren) (f : QFS) (σ : Store)
    (hρ : RenInj ρ) (hwf : WF C s) (hfresh : Fresh C s op) (habs : Abs C ρ s f) (hrf : RF f σ) :
    allOk (s.dirs op.box) (program C Variant.safe ch lay c.cap op s) = true ∧
    WF C (runOp C Variant.safe ch lay c.cap op s) ∧ RenInj (renFor ρ f.next op) ∧
    Abs C (renFor ρ f.next op) (runOp C Variant.safe ch lay c.cap op s) (fstep c f (toSpec ρ op)).1 ∧
    RF (fstep c f (toSpec ρ op)).1 (sstep (noLimit c) σ (toSpec ρ op)).1 ∧
    ∃ V0, view C s op.box = some V0 ∧
      view C (runOp C Variant.safe ch lay c.cap op s) op.box = some (finalView c.cap V0 op) ∧
      (fstep c f (toSpec ρ op)).2.1 = renAns (renFor ρ f.next op) op.box (opAns V0 op) ∧
      (fstep c f (toSpec ρ op)).2.2 = (opEvs c.cap V0 op).map (renEv (renFor ρ f.next op)) ∧
      (fstep c f (toSpec ρ op)).2.1 = (sstep (noLimit c) σ (toSpec ρ op)).2.1 ∧
      (fstep c f (toSpec ρ op)).2.2 = (sstep (noLimit c) σ (toSpec ρ op)).2.2 := by
  have hn : f.next = σ.next := funext hrf.next
  rw [hn]
  obtain ⟨V0, hv0, hv, hS, ha, he⟩ := complete_units C ch lay c s op hρ hwf hfresh habs hrf
  obtain ⟨o1, e1, r1⟩ := Lemmas.FileRefine.file_refines_step c hrf (toSpec ρ op)
  obtain ⟨hok, hwf', _⟩ := op_complete C ch lay c.cap s op hwf hfresh
  have ho : (fstep c f (toSpec ρ op)).2.1 = (sstep (noLimit c) σ (toSpec ρ op)).2.1 := by
    apply o1.eq_of_not_boxes
    intro l hh
    have h2 := ha.symm.trans hh
    cases hq : opAns V0 op <;> simp [renAns, hq] at h2
  exact ⟨hok, hwf', renFor_inj hρ _ _, (abs_iff r1).2 hS, r1, V0, hv0, hv, ho.trans ha, e1.trans he, ho, e1⟩

/-- the hypotheses are met by the empty store and a first delivery (the concrete codec `lp`, cap 2) … -/
example : RenInj idRen ∧ WF lp FS.init ∧ Fresh lp FS.init (.add [97] 1700000000 C11.hdr0 [104, 105]) ∧
    Abs lp idRen FS.init FSempty ∧ RF FSempty Sempty :=
  ⟨idRen_inj, wf_init _, by intro l h; simp [listing, dlisting, FS.init] at h; simp [h], abs_init _ _, RF_empty⟩

/-- … and the conclusion then says: the concrete id 1700000000 (a time stamp) is the spec's id 1 -/
example : (fstep { cap := 2, limit := 0 } FSempty (toSpec idRen (.add [97] 1700000000 C11.hdr0 [104, 105]))).2.1 =
    renAns (renFor idRen FSempty.next (.add [97] 1700000000 C11.hdr0 [104, 105])) [97] (.id 1700000000) := by
  simp [renAns, renFor, renUpd_same, toSpec, Ibx.Model.FileStore.empty, fstep, Ibx.Model.FileStore.step,
    Ibx.Model.FileStore.readIndex, Ibx.Model.FileStore.capLoop]

/-- **the atomic units are the operation**: running ALL units of a spec operation (the evictions as separate `remove`s of
    the oldest message, then the add) gives every mailbox the listing, the generator the state and the subscribers the
    events of the single `Spec.Store.step` — so "a prefix of the units" ranges from "nothing happened" to "the operation" -/
theorem units_are_the_operation (c : Cfg) (f : QFS) (σ : Store) (hrf : RF f σ) (op : AOp) :
    (∀ x, slisting (Spec.Store.run (noLimit c) σ (unitOps c σ op)).1 x = slisting (sstep (noLimit c) σ op).1 x) ∧
    (Spec.Store.run (noLimit c) σ (unitOps c σ op)).1.next = (sstep (noLimit c) σ op).1.next ∧
    ((Spec.Store.run (noLimit c) σ (unitOps c σ op)).2.map (·.2)).flatten = (sstep (noLimit c) σ op).2.2 :=
  unitOps_complete c σ op (RF_listing_distinct hrf)

/-- a capped delivery to a mailbox holding 3 messages with cap 2 has three units: two evictions and the add -/
example : unitOps { cap := 2, limit := 0 }
    { msgs := [⟨[97], 1, C11.hdr0, false, []⟩, ⟨[98], 1, C11.hdr0, false, []⟩, ⟨[97], 2, C11.hdr0, false, []⟩, ⟨[97], 3, C11.hdr0, false, []⟩],
      next := fun _ => 3 } (.add [97] C11.hdr0 [1]) = [.remove [97] 1, .remove [97] 2, .add [97] C11.hdr0 [1]] := by rfl

/-- **crash_atomic_spec.**  Stop `op` after ANY number `k` of its file-system primitives (any chunking of the writes — so
    after any byte —, any unlink order inside RemoveAll, any layout).  Then there is a PREFIX `us` of the operation's
    atomic units (`unitOps`: for a capped delivery the evictions, each one `Spec.remove` of the oldest message, then
    the add; one unit otherwise) such that what a fresh process recovers from the crash image is, for EVERY mailbox,
    exactly the listing of the spec state `Spec.run σ us` (ids through a renaming that is `ρ` or `ρ` extended by the
    delivery's id): the touched mailbox reads as the spec before the operation or after some of its units, every
    untouched mailbox reads as before in both worlds.  The crash image is again well-formed, abstracts to the
    sequential file system after the same units and that is `RF`-related to the spec state — so the theorem (and
    `bridge_complete_op`) applies to whatever happens after the restart. -/
theorem crash_atomic_spec (C : Codec) (ch : Chooser) (lay : Layout) (c : Cfg) (s : SFS) (op : SOp) (k : Nat) (ρ : Ren) (f : QFS) (σ : Store)
    (hρ : RenInj ρ) (hwf : WF C s) (hfresh : Fresh C s op) (habs : Abs C ρ s f) (hrf : RF f σ) :
    ∃ (us : List AOp) (ρ' : Ren),
      us <+: unitOps c σ (toSpec ρ op) ∧ (ρ' = ρ ∨ ρ' = renFor ρ f.next op) ∧ RenInj ρ' ∧
      (∀ x, ∃ V, recover C (runPrefix k op.box (program C Variant.safe ch lay c.cap op s) s) x = some V ∧
        V.map (msgOfV ρ' x) = slisting (Spec.Store.run (noLimit c) σ us).1 x) ∧
      (∀ x, x ≠ op.box → slisting (Spec.Store.run (noLimit c) σ us).1 x = slisting σ x ∧
        recover C (runPrefix k op.box (program C Variant.safe ch lay c.cap op s) s) x = recover C s x) ∧
      WF C (runPrefix k op.box (program C Variant.safe ch lay c.cap op s) s) ∧
      Abs C ρ' (runPrefix k op.box (program C Variant.safe ch lay c.cap op s) s) (frun c f us).1 ∧
      RF (frun c f us).1 (Spec.Store.run (noLimit c) σ us).1 := by
  have hn : f.next = σ.next := funext hrf.next
  rw [hn]
  obtain ⟨us, ρ', hpre, hor, hρ', hS⟩ := crash_units C ch lay c s op k hρ hwf hfresh habs hrf
  have hrf1 := (Lemmas.FileRefine.file_refines_run c us hrf).2
  have hwf1 := (crash_atomic C ch lay c.cap s op k hwf hfresh).1
  refine ⟨us, ρ', hpre, hor, hρ', hS, ?_, hwf1, (abs_iff hrf1).2 hS, hrf1⟩
  intro x hx
  have hun := crash_untouched C ch lay c.cap s op k hwf hfresh x hx
  refine ⟨?_, hun⟩
  obtain ⟨V', h1, h2⟩ := hS x
  obtain ⟨V, g1, g2⟩ := (abs_iff hrf).1 habs x
  have : view C (runPrefix k op.box (program C Variant.safe ch lay c.cap op s) s) x = view C s x := hun
  rw [this, g1] at h1
  cases h1
  rw [← h2, ← g2]
  apply map_msgOfV_congr
  intro p _
  rcases hor with rfl | rfl
  · rfl
  · exact renFor_other_box ρ σ.next op hx _

/-- **recovered_store_accepts_mail_spec.**  From every state that satisfies the invariant — in particular from every crash
    image (`crash_atomic_spec` re-establishes it) — a further delivery whose id is not listed succeeds (no system call
    fails); the spec answers it with the next id of the mailbox and lists the message LAST, unseen, with its metadata and
    full content; and the store then reads exactly as that spec state. -/
theorem recovered_store_accepts_mail_spec (C : Codec) (ch : Chooser) (lay : Layout) (c : Cfg) (s : SFS) (ρ : Ren) (f : QFS) (σ : Store)
    (hρ : RenInj ρ) (hwf : WF C s) (habs : Abs C ρ s f) (hrf : RF f σ) (b : Bytes) (id : Nat) (hdr : Meta) (src : Bytes)
    (hfresh : Fresh C s (.add b id hdr src)) :
    allOk (s.dirs b) (program C Variant.safe ch lay c.cap (.add b id hdr src) s) = true ∧
    (sstep (noLimit c) σ (.add b hdr src)).2.1 = .id (σ.next b + 1) ∧
    (slisting (sstep (noLimit c) σ (.add b hdr src)).1 b).getLast? =
      some { box := b, id := σ.next b + 1, hdr := hdr, seen := false, source := src } ∧
    ∃ V, recover C (runOp C Variant.safe ch lay c.cap (.add b id hdr src) s) b = some V ∧
      V.getLast? = some (newEnt id hdr src, some src) ∧
      V.map (msgOfV (renFor ρ f.next (.add b id hdr src)) b) = slisting (sstep (noLimit c) σ (.add b hdr src)).1 b := by
  have hn : f.next = σ.next := funext hrf.next
  rw [hn]
  obtain ⟨V0, _, hv, hS, _, _⟩ := complete_units C ch lay c s (.add b id hdr src) hρ hwf hfresh habs hrf
  obtain ⟨hok, _, _⟩ := op_complete C ch lay c.cap s (.add b id hdr src) hwf hfresh
  obtain ⟨a1, a2, _⟩ := spec_add c σ b hdr src
  refine ⟨hok, by rw [a2], ?_, ?_⟩
  · rw [a1 b]; simp [newMsg]
  · obtain ⟨V, h1, h2⟩ := hS b
    refine ⟨V, h1, ?_, h2⟩
    have : view C (runOp C Variant.safe ch lay c.cap (.add b id hdr src) s) b = some V := h1
    have hv' : view C (runOp C Variant.safe ch lay c.cap (.add b id hdr src) s) b = _ := hv
    rw [hv'] at this
    cases this
    simp [finalView]

/-- crash anywhere, restart, deliver — against the spec: the composition of `crash_atomic_spec` and
    `recovered_store_accepts_mail_spec` -/
theorem crash_then_deliver_spec (C : Codec) (ch ch' : Chooser) (lay : Layout) (c : Cfg) (s : SFS) (op : SOp) (k : Nat) (ρ : Ren) (f : QFS) (σ : Store)
    (hρ : RenInj ρ) (hwf : WF C s) (hfresh : Fresh C s op) (habs : Abs C ρ s f) (hrf : RF f σ) (b : Bytes) (id : Nat) (hdr : Meta) (src : Bytes)
    (hf2 : Fresh C (runPrefix k op.box (program C Variant.safe ch lay c.cap op s) s) (.add b id hdr src)) :
    ∃ (us : List AOp), us <+: unitOps c σ (toSpec ρ op) ∧
      allOk ((runPrefix k op.box (program C Variant.safe ch lay c.cap op s) s).dirs b)
        (program C Variant.safe ch' lay c.cap (.add b id hdr src) (runPrefix k op.box (program C Variant.safe ch lay c.cap op s) s)) = true ∧
      (slisting (sstep (noLimit c) (Spec.Store.run (noLimit c) σ us).1 (.add b hdr src)).1 b).getLast? =
        some { box := b, id := (Spec.Store.run (noLimit c) σ us).1.next b + 1, hdr := hdr, seen := false, source := src } := by
  obtain ⟨us, ρ', hpre, _, hρ', _, _, hwf1, habs1, hrf1⟩ := crash_atomic_spec C ch lay c s op k ρ f σ hρ hwf hfresh habs hrf
  obtain ⟨h1, _, h3, _⟩ := recovered_store_accepts_mail_spec C ch' lay c _ ρ' _ _ hρ' hwf1 habs1 hrf1 b id hdr src hf2
  exact ⟨us, hpre, h1, h3⟩

/-! ### the id generator -/

/-- **delivered_id_is_next_rank.**  Whatever concrete id the generator hands to a delivery, the renaming after the
    operation gives it the id the sequential model and the spec hand out: `next b + 1`; no other mailbox's renaming
    changes, and in the same mailbox every id that already has a rank `≤ next b` (every id of a listed message: `RF`
    bounds them) keeps it, except the delivered id itself. -/
theorem delivered_id_is_next_rank (ρ : Ren) (nx : Bytes → Nat) (b : Bytes) (id : Nat) (hdr : Meta) (src : Bytes) :
    renFor ρ nx (.add b id hdr src) b id = nx b + 1 ∧
    (∀ x, x ≠ b → ∀ j, renFor ρ nx (.add b id hdr src) x j = ρ x j) ∧
    (∀ j, j ≠ id → ρ b j ≤ nx b → renFor ρ nx (.add b id hdr src) b j = ρ b j) :=
  ⟨renUpd_same ρ b id _, fun _ hx j => renUpd_other_box ρ b id _ hx j,
   fun _ hj hle => renUpd_keep ρ b id _ hj (by omega)⟩

/-- **first_appearance_rank_fixes_renaming.**  Under the STRONGER generator hypothesis of C10 — the id has never been
    handed out for this mailbox, i.e. its rank of first appearance is the next one, `ρ b id = next b + 1` — the renaming
    does not move at all: one fixed `ρ` (ranks of first appearance) serves the whole history. -/
theorem first_appearance_rank_fixes_renaming (ρ : Ren) (nx : Bytes → Nat) (b : Bytes) (id : Nat) (hdr : Meta) (src : Bytes)
    (h : ρ b id = nx b + 1) : renFor ρ nx (.add b id hdr src) = ρ := by
  simp only [renFor, ← h]; exact renUpd_self ρ b id

/-- … and that hypothesis implies the `Fresh` every theorem here assumes (an id of rank `next b + 1` cannot be listed:
    `RF` bounds the ranks of listed messages by `next b`) -/
theorem first_appearance_rank_is_fresh (C : Codec) (s : SFS) (ρ : Ren) (f : QFS) (σ : Store)
    (habs : Abs C ρ s f) (hrf : RF f σ) (b : Bytes) (id : Nat) (hdr : Meta) (src : Bytes) (h : ρ b id = f.next b + 1) :
    Fresh C s (.add b id hdr src) := by
  intro l hl hmem
  obtain ⟨V, hv, hV⟩ := (abs_iff hrf).1 habs b
  obtain ⟨e, he, hid⟩ := List.mem_map.1 hmem
  have hV' : V = viewOf (s.dirs b) l := by
    simp only [view, dview] at hv
    simp only [listing] at hl
    rw [hl] at hv
    exact (Option.some.inj hv).symm
  have hm : msgOfV ρ b (e, dcontent (s.dirs b) e.id) ∈ slisting σ b := by
    rw [← hV, hV']
    exact List.mem_map.2 ⟨_, List.mem_map.2 ⟨e, he, rfl⟩, rfl⟩
  have := (RF_listing_le hrf b _ hm).2
  simp only [msgOfV, hid, h, hrf.next b] at this
  omega

/-- **reused_id_changes_rank_fails** (counter-witness for the weak hypothesis; this is finding F-10b seen from the
    model).  `Fresh` only excludes ids that are LISTED.  If the generator re-draws the id of a DELETED message (rank
    `≤ next b`, not listed any more), every theorem above still holds — the store is a correct ordered mailbox — but the
    renaming MOVES: the stale concrete id now denotes the new message, so no single renaming explains the history and
    the spec's "ids are never reused" does not transfer to concrete ids. -/
theorem reused_id_changes_rank_fails (ρ : Ren) (nx : Bytes → Nat) (b : Bytes) (id : Nat) (hdr : Meta) (src : Bytes)
    (h : ρ b id ≤ nx b) : renFor ρ nx (.add b id hdr src) b id ≠ ρ b id := by
  rw [(delivered_id_is_next_rank ρ nx b id hdr src).1]; omega

example : renFor idRen (fun _ => 5) (.add [97] 3 C11.hdr0 []) [97] 3 = 6 ∧ idRen [97] 3 = 3 := by
  simp [renFor, renUpd_same, idRen]

/-! ### non-vacuity: the two-message mailbox of Ibx/Props/C11.lean, reached by a history, and a capped delivery cut short -/

section Concrete
open Ibx.Props.C11 (hdr0 lay0 boxA s1 s2)

def cfg0 : Cfg := { cap := 0, limit := 0 }
def cfg2 : Cfg := { cap := 2, limit := 0 }

/-- two completed deliveries ("hello", "yo") to mailbox "a", byte-wise writes -/
def hist2 : List HEv :=
  [.done (.add boxA 1 hdr0 [104, 101, 108, 108, 111]) Chooser.bytewise, .done (.add boxA 2 hdr0 [121, 111]) Chooser.bytewise]

theorem fresh_s2 : Fresh lp s2 (.add boxA 3 hdr0 [33]) := by
  intro l h
  have : listing lp s2 boxA = some [newEnt 1 hdr0 [104, 101, 108, 108, 111], newEnt 2 hdr0 [121, 111]] := by decide
  rw [this] at h; cases h; decide

theorem fresh_hist2 : FreshH lp lay0 cfg0.cap FS.init hist2 := by
  refine ⟨?_, ?_, trivial⟩
  · intro l h; simp [listing, dlisting, FS.init] at h; simp [h]
  · show Fresh lp s1 _
    intro l h
    have : listing lp s1 boxA = some [newEnt 1 hdr0 [104, 101, 108, 108, 111]] := by decide
    rw [this] at h; cases h; decide

example : runH lp lay0 cfg0.cap FS.init hist2 = s2 := rfl

/-- the hypotheses of `bridge_complete_op` / `crash_atomic_spec` / `recovered_store_accepts_mail_spec` are met at the
    two-message mailbox (with a capped third delivery pending): the invariant comes out of `history_explained` -/
theorem invariant_s2 : ∃ (ρ : Ren) (f : QFS) (σ : Store), RenInj ρ ∧ WF lp s2 ∧ Abs lp ρ s2 f ∧ RF f σ ∧
    Fresh lp s2 (.add boxA 3 hdr0 [33]) := by
  obtain ⟨ρ, σ, _, f, _, h1, h2, h3, h4⟩ :=
    history_explained lp lay0 cfg0 hist2 FS.init idRen FSempty Sempty idRen_inj (wf_init lp) (abs_init lp idRen) RF_empty fresh_hist2
  exact ⟨ρ, f, σ, h1, h2, h3, h4, fresh_s2⟩

/-- the spec side of the crash point C11 exhibits (cap 2, crash right after the eviction's rename: the mailbox shows only
    message 2): one unit — `remove` of the oldest — of the three-message… of the capped delivery's units -/
example : unitOps cfg2 (Spec.Store.run cfg2 Sempty [.add boxA hdr0 [104, 101, 108, 108, 111], .add boxA hdr0 [121, 111]]).1 (.add boxA hdr0 [33]) =
    [.remove boxA 1, .add boxA hdr0 [33]] := by rfl

example : slisting (Spec.Store.run cfg2 (Spec.Store.run cfg2 Sempty [.add boxA hdr0 [104, 101, 108, 108, 111], .add boxA hdr0 [121, 111]]).1
      [.remove boxA 1]).1 boxA = [{ box := boxA, id := 2, hdr := hdr0, seen := false, source := [121, 111] }] := by decide

/-- the function on the two-message mailbox: the sequential model's index lists both entries, the raw of message 2 reads back -/
example : readIndex (absFs lp idRen [boxA] (fun _ => 2) s2) boxA = [newEnt 1 hdr0 [104, 101, 108, 108, 111], newEnt 2 hdr0 [121, 111]] ∧
    Ibx.Model.FileStore.rawOf (absFs lp idRen [boxA] (fun _ => 2) s2) boxA 2 = some [121, 111] := by decide

end Concrete

end Ibx.Props.C11Bridge
