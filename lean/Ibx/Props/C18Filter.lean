import Ibx.Lemmas.SanFilter
import Ibx.Lemmas.TagRead
import Ibx.Props.C18
/-
  C18 (deepening) — the style-tag filter of pkg/webui/sanitize/html.go (`styleTagFilter`, the pass that runs
  before bluemonday) as a function of the x/net/html token stream.                          *** PARTIAL ***

  PROVED here, for EVERY token stream and EVERY CSS scanner `scan` (a parameter, assumption A1):
   * the loop is total: it has exactly two outcomes — `none` exactly when the first ErrorToken carries an error
     other than io.EOF (then the output is discarded), otherwise the bytes written; nothing after the first
     ErrorToken is looked at or written, and the raw bytes of the unfinished token are dropped;
   * the output is, token by token and in order, `outTok` of the tokens before the first ErrorToken: text, end
     tags, comments, doctypes and attribute-less start tags are written as their raw bytes, a start / self-closing
     tag with attributes is re-serialised as `<name key="value"… [/]>`;
   * in the re-serialised tag every attribute whose key lower-cases (Go's strings.ToLower) to `style` — exactly
     the ASCII letter-case variants of `style`, no non-ASCII key — carries `sanitizeStyle` of the input value,
     hence (css_allowlist_only) only `/*TYPE*/` markers and allow-listed declarations; it is dropped exactly
     when that value is empty; every other attribute is written back unchanged, in order, none added;
   * the written value is html.EscapeString (x/net/html: six bytes) of that value: it contains no `"` `'` `<` `>` CR,
     so reading from the opening quote to the next `"` gives it back exactly and un-escaping returns the value;
     a re-serialised tag contains no `>` before its last byte (given that its name and keys contain none, which
     the tokenizer guarantees).

  ASSUMED, NOT PROVED (third-party code, tested by the harness: correspondence `filter`, oracles
  `filter_roundtrip`, `filter_token_agreement`):
   A2  the token stream handed to this model is what the x/net/html tokenizer, constructed as html.go constructs
       it (`html.NewTokenizer`, no option set — pinned by Tie.San.filter_tokenizer_tie), reports for the input;
       bluemonday's tokenizer (same constructor, same options — Tie.San.policy_tokenizer_tie) re-reads the
       filter's OUTPUT as `outTok` of that stream.
-/
namespace Ibx.Props.C18Filter
open Ibx Ibx.Model Ibx.Model.GoLower Ibx.Model.StyleFilter Ibx.Model.TagRead Ibx.Lemmas.SanFilter Ibx.Lemmas.San Ibx.Lemmas.TagRead

variable (scan : Bytes → List Css.Token)

private theorem flatMap_congr' {α β : Type} {f g : α → List β} (l : List α) (h : ∀ t ∈ l, f t = g t) :
    l.flatMap f = l.flatMap g := by
  induction l with
  | nil => rfl
  | cons a l ih =>
    simp only [List.flatMap_cons]
    rw [h a (by simp), ih (fun t ht => h t (by simp [ht]))]

private theorem mem_takeWhile' {α : Type} (p : α → Bool) (l : List α) (t : α) (h : t ∈ l.takeWhile p) : p t = true := by
  induction l with
  | nil => simp at h
  | cons a l ih =>
    simp only [List.takeWhile_cons] at h
    split at h
    · simp at h
      rcases h with rfl | h
      · assumption
      · exact ih h
    · simp at h

/-! ### the loop -/

/-- **Totality, and what ends the loop.**  On every token stream the filter either fails — exactly when the first
    ErrorToken of the stream carries an error other than io.EOF — or returns what the tokens BEFORE the first
    ErrorToken produce, in order.  (The end of the list stands for ErrorToken / io.EOF.) -/
theorem filter_total (ts : List Tok) :
    (firstError ts = some false ∧ filter scan ts = none) ∨
    (firstError ts ≠ some false ∧ filter scan ts = some ((live ts).flatMap (emit scan))) := by
  rw [filter_eq]
  by_cases h : firstError ts = some false
  · left; simp [h]
  · right; simp [h]

/-- nothing behind the first ErrorToken matters — neither later tokens nor the raw bytes of the unfinished token
    (a truncated `<p style="…` at the end of the input is dropped, not passed through) -/
theorem filter_stops_at_error (pre rest : List Tok) (eof : Bool) (raw : Bytes) :
    filter scan (pre ++ .error eof raw :: rest) = filter scan (pre ++ [.error eof []]) := by
  rw [filter_cut, filter_cut scan pre [] eof []]
  induction pre with
  | nil => simp [filter]
  | cons t pre ih => cases t <;> simp_all [filter]

/-- the driver's accumulator form is the specification form -/
theorem filter_driver_form (ts : List Tok) : filterTR scan ts = filter scan ts := filterTR_eq scan ts

/-! ### what is written -/

/-- **Every start tag is rewritten; everything else passes through, in order.**  When the filter succeeds its
    output is the concatenation of the raw bytes of `outTok t` for the tokens `t` before the first ErrorToken, where
    `outTok` changes nothing but start / self-closing tags with attributes, whose attribute list becomes
    `rewriteAttrs` and whose bytes become `<name key="value"… [/]>`. -/
theorem style_filter_rewrites_every_start_tag (ts : List Tok) (out : Bytes) (h : filter scan ts = some out) :
    out = ((live ts).map (outTok scan)).flatMap Tok.raw ∧
    ∀ t ∈ live ts,
      (∀ sc raw name attrs, t = .startTag sc raw name attrs → attrs ≠ [] →
        outTok scan t = .startTag sc (serTag sc name (rewriteAttrs scan attrs)) name (rewriteAttrs scan attrs)) ∧
      ((∀ sc raw name attrs, t = .startTag sc raw name attrs → attrs = []) → outTok scan t = t) := by
  constructor
  · rw [filter_eq] at h
    split at h
    · simp at h
    · simp only [Option.some.injEq] at h
      subst h
      rw [List.flatMap_map]
      apply flatMap_congr'
      intro t ht
      have : t.isError = false := by
        have := mem_takeWhile' _ _ _ ht
        simpa using this
      exact emit_eq_raw scan t this
  · intro t _
    constructor
    · rintro sc raw name attrs rfl hne
      cases attrs with
      | nil => exact absurd rfl hne
      | cons a as => simp [outTok]
    · intro hn
      cases t with
      | startTag sc raw name attrs =>
        have := hn sc raw name attrs rfl
        subst this
        simp [outTok]
      | _ => simp [outTok]

/-- **Every `style` attribute that is written is `sanitizeStyle` of an input value** — and therefore consists of
    `/*TYPE*/` markers and declarations of allow-listed properties only (`css_allowlist_only`); it is not empty. -/
theorem filter_style_sanitized (attrs : List Attr) :
    ∀ a ∈ rewriteAttrs scan attrs, isStyleKey a.1 = true →
      (∃ v0, (a.1, v0) ∈ attrs ∧ a.2 = Css.sanitizeStyle (scan v0)) ∧ a.2 ≠ [] ∧
      ∃ o, Clean o ∧ a.2 = Css.vals o := by
  intro a ha hk
  simp only [rewriteAttrs, List.mem_filterMap] at ha
  obtain ⟨a0, hm, hr⟩ := ha
  unfold rewriteAttr at hr
  split at hr
  · split at hr
    · simp at hr
    · rename_i hne
      simp only [Option.some.injEq] at hr
      subst hr
      simp only [StyleFilter.sanitizeStyle, Css.sanitizeStyleTR_eq] at hne ⊢
      refine ⟨⟨a0.2, hm, rfl⟩, hne, ?_⟩
      exact Ibx.Props.C18.css_allowlist_only (scan a0.2)
  · rename_i hns
    simp only [Option.some.injEq] at hr
    subst hr
    exact absurd hk hns

/-- **No style attribute escapes the rewrite**: an input style attribute is either dropped (its sanitised value is
    empty) or appears with the sanitised value; the raw value is never written unless `sanitizeStyle` returns it. -/
theorem filter_style_complete (attrs : List Attr) (a : Attr) (ha : a ∈ attrs) (hk : isStyleKey a.1 = true) :
    (Css.sanitizeStyle (scan a.2) = [] ∧ rewriteAttr scan a = none) ∨
    (Css.sanitizeStyle (scan a.2) ≠ [] ∧ (a.1, Css.sanitizeStyle (scan a.2)) ∈ rewriteAttrs scan attrs) := by
  by_cases he : Css.sanitizeStyle (scan a.2) = []
  · left
    refine ⟨he, ?_⟩
    simp [rewriteAttr, hk, StyleFilter.sanitizeStyle, Css.sanitizeStyleTR_eq, he]
  · right
    refine ⟨he, ?_⟩
    simp only [rewriteAttrs, List.mem_filterMap]
    exact ⟨a, ha, by simp [rewriteAttr, hk, StyleFilter.sanitizeStyle, Css.sanitizeStyleTR_eq, he]⟩

/-- **No other attribute is changed**: the attributes whose key is not a `style` variant are written back exactly
    as the tokenizer reported them, all of them, in order -/
theorem filter_other_attrs_unchanged (attrs : List Attr) :
    (rewriteAttrs scan attrs).filter (fun a => !isStyleKey a.1) = attrs.filter (fun a => !isStyleKey a.1) := by
  induction attrs with
  | nil => simp [rewriteAttrs]
  | cons a as ih =>
    rw [rewriteAttrs_cons, List.filter_append, ih]
    by_cases hk : isStyleKey a.1 = true
    · have : (rewriteAttr scan a).toList.filter (fun a => !isStyleKey a.1) = [] := by
        unfold rewriteAttr
        simp only [hk, if_true]
        split <;> simp [hk]
      simp [this, hk]
    · simp [rewriteAttr, hk]

/-- no attribute is invented or reordered: the written keys are a subsequence of the reported keys -/
theorem filter_keys_sublist (attrs : List Attr) :
    ((rewriteAttrs scan attrs).map (·.1)).Sublist (attrs.map (·.1)) := by
  induction attrs with
  | nil => simp [rewriteAttrs]
  | cons a as ih =>
    rw [rewriteAttrs_cons]
    cases h : rewriteAttr scan a with
    | none => simpa using ih.cons _
    | some b =>
      have := rewriteAttr_key scan h
      simp only [Option.toList_some, List.singleton_append, List.map_cons, this]
      exact ih.cons_cons _

/-- **Which keys count as `style`**: exactly the ASCII letter-case variants (`style`, `STYLE`, `sTyLe`, …) —
    Go's Unicode-aware strings.ToLower adds no further key, because the only non-ASCII runes that lower-case into
    ASCII give `i` and `k`. -/
theorem filter_style_keys (k : Bytes) :
    isStyleKey k = true ↔ (∀ c ∈ k, c < 128) ∧ Bytes.lower k = styleKey := isStyleKey_iff k

/-! ### serialisation -/

/-- **The written value cannot break out of its attribute.**  What stands between the quotes is
    html.EscapeString of the value: it contains no `"` (nor `'` `<` `>` CR); hence reading from the opening quote
    to the next `"` — what the tokenizer does for a double-quoted value — returns exactly the escaped value and
    stops at the quote the filter wrote, whatever follows; and un-escaping the six entities gives the value back. -/
theorem filter_attr_cannot_break_out (a : Attr) (rest : Bytes) :
    serAttr a ++ rest = 32 :: (a.1 ++ [61, 34] ++ (escape a.2 ++ 34 :: rest)) ∧
    (∀ c ∈ escape a.2, c ≠ 34 ∧ c ≠ 39 ∧ c ≠ 60 ∧ c ≠ 62 ∧ c ≠ 13) ∧
    readQuoted (escape a.2 ++ 34 :: rest) = some (escape a.2, rest) ∧
    unescape6 (escape a.2) = a.2 := by
  have hnb : ∀ c ∈ escape a.2, c ≠ 34 ∧ c ≠ 39 ∧ c ≠ 60 ∧ c ≠ 62 ∧ c ≠ 13 := by
    intro c hc
    have := escape_no_break a.2 c hc
    simp [isBreak] at this
    omega
  refine ⟨by simp [serAttr], hnb, ?_, unescape6_escape a.2⟩
  exact readQuoted_spec _ _ (fun x hx => (hnb x hx).1)

/-- **A re-serialised tag closes exactly once**: if neither the name nor a key contains `>` (the tokenizer ends a
    name / key at `>`), the only `>` of `<name key="value"… [/]>` is its last byte -/
theorem filter_tag_closes_once (sc : Bool) (name : Bytes) (attrs : List Attr)
    (hn : ∀ c ∈ name, c ≠ 62) (hk : ∀ a ∈ attrs, ∀ c ∈ a.1, c ≠ 62) (pre suf : Bytes)
    (h : serTag sc name attrs = pre ++ 62 :: suf) : suf = [] := by
  have hbody : ∀ c ∈ (60 :: (name ++ attrs.flatMap serAttr ++ (if sc then [47] else []))), c ≠ 62 := by
    intro c hc
    simp only [List.mem_cons, List.mem_append, List.mem_flatMap] at hc
    rcases hc with rfl | (hc | ⟨a, ha, hc⟩) | hc
    · decide
    · exact hn c hc
    · simp only [serAttr, List.mem_cons, List.mem_append] at hc
      rcases hc with rfl | ((hc | hc) | hc) | hc
      · decide
      · exact hk a ha c hc
      · simp at hc; rcases hc with rfl | rfl <;> decide
      · have := escape_no_break a.2 c hc
        simp [isBreak] at this
        omega
      · simp at hc; subst hc; decide
    · split at hc
      · simp at hc; subst hc; decide
      · simp at hc
  have hs : serTag sc name attrs = (60 :: (name ++ attrs.flatMap serAttr ++ (if sc then [47] else []))) ++ [62] := by
    simp [serTag]
  rw [hs] at h
  generalize (60 :: (name ++ attrs.flatMap serAttr ++ (if sc then [47] else []))) = body at h hbody
  induction body generalizing pre with
  | nil =>
    cases pre with
    | nil => simpa using h.symm
    | cons p pre => simp at h
  | cons b body ih =>
    cases pre with
    | nil => simp at h; exact absurd h.1 (hbody b (by simp))
    | cons p pre =>
      simp only [List.cons_append, List.cons.injEq] at h
      exact ih pre h.2 (fun c hc => hbody c (by simp [hc]))

/-! ### the tag half of assumption A2, proved over the tag-reader model (Model/TagRead.lean, tied by T2 `rdtag`) -/

/-- **A re-serialised tag is read back as the tag that was written.**  For a tag name and attribute keys of the
    shape the tokenizer reports (`NameOK`, `KeyOK`: not empty, no white space `/` `>`, `=` only as a key's first
    byte), the tokenizer's tag reader, started after the `<` of `<name key="value"… [/]>` followed by ANY bytes
    `rest`, returns the same name, the same keys in the same order, each value span being the escaped value — which
    un-escapes to the value written (and contains no CR, so the tokenizer's newline conversion leaves it alone) —
    the same self-closing flag, and stops exactly at `rest`: the value cannot leak into the markup behind the tag. -/
theorem filter_tag_rereads (sc : Bool) (name : Bytes) (attrs : List Attr) (rest : Bytes)
    (hn : NameOK name) (hk : ∀ a ∈ attrs, KeyOK a.1) :
    ∃ body, serTag sc name attrs = 60 :: body ∧
      readTag (body ++ rest) = some (name, attrs.map (fun a => (a.1, escape a.2)), sc, rest) ∧
      (attrs.map (fun a => (a.1, escape a.2))).map (fun a => (a.1, unescape6 a.2)) = attrs ∧
      ∀ a ∈ attrs, ∀ c ∈ escape a.2, c ≠ 13 := by
  refine ⟨name ++ attrs.flatMap serAttr ++ (if sc then [47] else []) ++ [62], by simp [serTag], ?_, ?_, ?_⟩
  · exact readTag_written sc name rest attrs hn hk
  · simp [List.map_map, Function.comp_def, unescape6_escape]
  · intro a _ c hc
    have := escape_no_break a.2 c hc
    simp [isBreak] at this
    omega

/-- the same for what the filter actually emits: the bytes written for a start tag with attributes are read back
    as that tag with its attributes REWRITTEN (`rewriteAttrs`: style values sanitised, the rest unchanged) -/
theorem filter_written_tag_rereads (sc : Bool) (raw name : Bytes) (attrs : List Attr) (rest : Bytes)
    (hne : attrs ≠ []) (hn : NameOK name) (hk : ∀ a ∈ attrs, KeyOK a.1) :
    ∃ body, emit scan (.startTag sc raw name attrs) = 60 :: body ∧
      readTag (body ++ rest) =
        some (name, (rewriteAttrs scan attrs).map (fun a => (a.1, escape a.2)), sc, rest) := by
  have hk' : ∀ b ∈ rewriteAttrs scan attrs, KeyOK b.1 := by
    intro b hb
    simp only [rewriteAttrs, List.mem_filterMap] at hb
    obtain ⟨a, ha, hr⟩ := hb
    rw [rewriteAttr_key scan hr]
    exact hk a ha
  obtain ⟨body, h1, h2, _⟩ := filter_tag_rereads sc name (rewriteAttrs scan attrs) rest hn hk'
  refine ⟨body, ?_, h2⟩
  cases attrs with
  | nil => exact absurd rfl hne
  | cons a as => simpa [emit] using h1

-- non-vacuity: `<p a="&#34;" style="color:red"/>` followed by `x`
example : NameOK [112] ∧ KeyOK [97] ∧ KeyOK styleKey := by
  refine ⟨⟨by simp, by decide⟩, ⟨by simp, by decide, by decide⟩, ⟨by simp [styleKey], by decide, by decide⟩⟩
example :
    readTag ((serTag true [112] [([97], [34]), (styleKey, [99, 111, 108, 111, 114, 58, 114, 101, 100])]).tail ++ [120])
    = some ([112], [([97], [38, 35, 51, 52, 59]), (styleKey, [99, 111, 108, 111, 114, 58, 114, 101, 100])], true, [120]) := by
  decide
-- the reader on input the filter would never write: unquoted / single-quoted values, `=` first in a key, `/` between
example : readTag [80, 32, 61, 97, 61, 98, 32, 99, 61, 39, 62, 39, 47, 100, 62, 122]   -- `P =a=b c='>'/d>z`
    = some ([80], [([61, 97], [98]), ([99], [62]), ([100], [])], false, [122]) := by decide
example : readTag [112, 32, 97, 61, 34, 120] = none := by decide                         -- `p a="x` : unfinished

/-- counter-witness for `KeyOK`: a key with `=` inside (never reported by the tokenizer, which ends a key there)
    would be read back as a shorter key with a different value -/
theorem filter_tag_rereads_needs_keyOK_fails :
    readTag ((serTag false [112] [([97, 61, 98], [120])]).tail) = some ([112], [([97], [98, 61, 34, 120, 34])], false, []) := by
  decide

/-! ### non-vacuity: a concrete stream (a one-declaration toy scanner: the value is one IDENT, or IDENT `:` IDENT) -/

/-- toy scanner for the examples: `top` -> IDENT top; anything else -> IDENT color CHAR : IDENT red -/
private def toyScan (v : Bytes) : List Css.Token :=
  if v = [116, 111, 112] then [⟨.ident, [116, 111, 112]⟩]
  else [⟨.ident, [99, 111, 108, 111, 114]⟩, ⟨.char, [58]⟩, ⟨.ident, [114, 101, 100]⟩]

-- `<P STYLE=top a='"'>x<br/></p><q sTyLe=c` : style dropped (`top` is not allow-listed), `a` kept and escaped,
-- `<br/>` raw, the unfinished `<q …` dropped
example :
    filter toyScan [.startTag false [60, 80, 62] [112] [([115, 116, 121, 108, 101], [116, 111, 112]), ([97], [34])],
      .text [120], .startTag true [60, 98, 114, 47, 62] [98, 114] [], .endTag [60, 47, 112, 62],
      .error true [60, 113, 32]]
    = some ([60, 112, 32, 97, 61, 34, 38, 35, 51, 52, 59, 34, 62] ++ [120] ++ [60, 98, 114, 47, 62] ++ [60, 47, 112, 62]) := by
  decide
-- an allow-listed value is kept under its key as reported (`STYLE` arrives lower-cased from the tokenizer; a key the
-- tokenizer did not lower-case would be written as it is)
example :
    filter toyScan [.startTag true [] [105] [([83, 116, 89, 108, 101], [120])]]
    = some [60, 105, 32, 83, 116, 89, 108, 101, 61, 34, 99, 111, 108, 111, 114, 58, 114, 101, 100, 34, 47, 62] := by
  decide
-- a read error other than EOF: no output at all
example : filter toyScan [.text [120], .error false [], .text [121]] = none := by decide
example : firstError [.text [120], .error false [], .text [121]] = some false := by decide
-- keys: `STYLE` passes, `stİle` (U+0130) and `ſtyle` (U+017F) do not
example : isStyleKey [83, 84, 89, 76, 69] = true := by decide
example : isStyleKey [115, 116, 196, 176, 108, 101] = false := by decide
example : isStyleKey [197, 191, 116, 121, 108, 101] = false := by decide
example : ∃ attrs a, a ∈ rewriteAttrs toyScan attrs ∧ isStyleKey a.1 = true :=
  ⟨[([115, 116, 121, 108, 101], [120])], ([115, 116, 121, 108, 101], [99, 111, 108, 111, 114, 58, 114, 101, 100]),
    by decide, by decide⟩
example : ∃ (name : Bytes) (attrs : List Attr), (∀ c ∈ name, c ≠ 62) ∧ (∀ a ∈ attrs, ∀ c ∈ a.1, c ≠ 62) ∧ attrs ≠ [] :=
  ⟨[112], [([97], [62])], by decide, by decide, by simp⟩

/-- counter-witness for the guard of `filter_tag_closes_once`: a KEY containing `>` (which the tokenizer never
    reports) would close the tag early — keys are written back verbatim, not escaped -/
theorem filter_key_not_escaped_fails :
    ∃ pre suf, serTag false [112] [([97, 62, 98], [])] = pre ++ 62 :: suf ∧ suf ≠ [] :=
  ⟨[60, 112, 32, 97], [98, 61, 34, 34, 62], by decide, by simp⟩

end Ibx.Props.C18Filter
