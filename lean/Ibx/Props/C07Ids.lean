import Ibx.Lemmas.FileIdsStore
/-
  C02 / C07 / C10 — the file store's id generator is INSIDE the model.

  `Model/FileStore.lean` names messages by fresh tokens; that a delivery's id differs from every listed id used to be
  an assumption about the generator.  Here the generator is modelled as the code has it (Model/FileIds.lean: clock in
  whole seconds, process-wide counter mod 10000, arbitrary interference by other goroutines, the re-draw loop
  `for mb.hasID(id) { id = generateID(now) }` without fuel, `hasID` as a linear scan or as a binary search) and the
  assumption becomes theorems:

  * `new_id_not_listed`           — linear scan: whatever the index, the counter, the clock, the interference, the id
                                     `newMessage` returns is not the id of a listed message;
  * `redraw_terminates_within`    — pigeonhole on the counter cycle: at most (listed ids the clock can still reach) + 1
                                     draws, provided these draws stay within one cycle; `…_one_second`,
                                     `…_no_interference`, `…_when_clock_passes` are the readable special cases;
                                     `full_second_never_terminates`, `interference_can_starve_the_loop`: the guards are needed;
  * `existing_raw_untouched`      — composed with the file-store model: a delivery writes `<newid>.raw` and the index
                                     only, so every earlier message that survives the cap reads back unchanged;
  * `generated_delivery_refines_spec` — the delivery with the GENERATED id is the spec's delivery up to the renaming of
                                     ids the harness uses (new id ↦ next rank): the freshness hypothesis of the
                                     refinement theorems (Props/C07File.lean, Props/C10.lean) is discharged;
  * `binary_search_misses_listed_id`, `binary_search_hands_out_listed_id`, `binary_search_delivery_overwrites` — the
    counter-witness for the variant `binarySearchAssumingSorted`: index counters k, k+1, k-2, k-1, then draw k.
-/
namespace Ibx.Props.C07Ids
open Ibx Ibx.Spec.Store Ibx.Model.FileIds Ibx.Lemmas.FileIds Ibx.Lemmas.FileIdsStore Ibx.Lemmas.FileRefine
open Ibx.Model.FileStore (FS FEnt Dir readIndex rawOf toMsg)

abbrev noLimit (c : Cfg) : Cfg := { c with limit := 0 }

/-- the loop condition of `newMessage` as a function of the draw number -/
abbrev taken (srch : Search) (idx : List Id) (g : Gen) (env : Nat → Tick) : Nat → Bool :=
  fun k => hasID srch idx (cand g env k)

/-! ### examples used below: a wrapped, restarted index -/

/-- second 7: counters 9998, 9999, 0000, 0001 (the counter wrapped), then 9997 (a restarted process) -/
def idxW : List Id := [⟨7, 9998⟩, ⟨7, 9999⟩, ⟨7, 0⟩, ⟨7, 1⟩, ⟨7, 9997⟩]
/-- clock stays in second 7, nobody else draws -/
def quiet : Nat → Tick := fun _ => ⟨0, 0⟩
/-- the generator of a process whose counter stands at 9997 in second 7 -/
def g9997 : Gen := ⟨7, 9997⟩

theorem idxW_halts : Halts (taken .linearScan idxW g9997 quiet) 0 :=
  ⟨5, Nat.zero_le _, by simp [taken, hasID, hasIDLinear, idxW, cand, drawN, draw, g9997, quiet, cycle]⟩

/-! ### the id returned is not listed -/

/-- **new_id_not_listed.**  With `hasID` a linear scan: for EVERY loaded index (any order, any ids, duplicates, any
    length), every generator state, every clock behaviour and every interference by other goroutines for which the
    loop ends at all, the id `newMessage` returns is not the id of any listed message; every id drawn before it was
    listed (the loop does not skip a free id), and the counter has moved by exactly the draws made plus what the
    others consumed. -/
theorem new_id_not_listed (idx : List Id) (g : Gen) (env : Nat → Tick) (h : Halts (taken .linearScan idx g env) 0) :
    (newId .linearScan idx g env h).id ∉ idx ∧
    (∀ j, j + 1 < (newId .linearScan idx g env h).draws → cand g env j ∈ idx) ∧
    (newId .linearScan idx g env h).id = cand g env ((newId .linearScan idx g env h).draws - 1) ∧
    (newId .linearScan idx g env h).id.ctr < cycle := by
  obtain ⟨a, _, c⟩ := firstFree_spec (fun k => hasID .linearScan idx (cand g env k)) 0 h
  refine ⟨?_, ?_, ?_, ?_⟩
  · exact (hasIDLinear_false_iff _ _).1 a
  · intro j hj
    exact (hasIDLinear_iff _ _).1 (c j (Nat.zero_le _) (by simp only [newId] at hj; omega))
  · simp [newId]
  · exact cand_ctr_lt _ _ _

/-- the wrapped and restarted index: draws 9997, 9998, 9999, 0000, 0001 are all listed, the sixth (0002) is returned -/
example : (newId .linearScan idxW g9997 quiet idxW_halts).id ∉ idxW := (new_id_not_listed _ _ _ _).1
example : newId .linearScan idxW g9997 quiet idxW_halts = { id := ⟨7, 2⟩, gen := ⟨7, 3⟩, draws := 6 } :=
  newIdWithin_eq .linearScan idxW g9997 quiet 8 0 _ (by decide) (fun j hj => by omega) _

/-! ### the loop ends, and how soon -/

private theorem halts_and_bound (idx : List Id) (g : Gen) (env : Nat → Tick) (n : Nat)
    (hk : ∃ k, k ≤ n ∧ cand g env k ∉ idx) :
    Halts (taken .linearScan idx g env) 0 ∧ ∀ h, (newId .linearScan idx g env h).draws ≤ n + 1 := by
  obtain ⟨k, hkn, hk⟩ := hk
  have hf : taken .linearScan idx g env k = false := (hasIDLinear_false_iff _ _).2 hk
  refine ⟨⟨k, Nat.zero_le _, hf⟩, fun h => ?_⟩
  have := firstFree_le (fun k => hasID .linearScan idx (cand g env k)) 0 h k (Nat.zero_le _) hf
  simp only [newId]; omega

/-- **redraw_terminates_within.**  Let `m` be the number of listed ids whose second is not before the first clock
    reading of the loop (only these can ever be drawn again: the clock does not go back).  If draws 0 … m — the loop's
    own and what other goroutines consume in between — stay within one cycle of the counter (`span env m < 10000`),
    the loop ends and draws at most `m + 1` ids.  (Pigeonhole: `m + 1` pairwise different ids cannot all be among `m`
    listed ones.) -/
theorem redraw_terminates_within (idx : List Id) (g : Gen) (env : Nat → Tick) (m : Nat)
    (hm : m = (idx.filter (fun x => decide ((cand g env 0).sec ≤ x.sec))).length) (hspan : span env m < cycle) :
    Halts (taken .linearScan idx g env) 0 ∧ ∀ h, (newId .linearScan idx g env h).draws ≤ m + 1 := by
  apply halts_and_bound
  apply free_draw_exists idx g env m (fun i j hij hj => cand_ne_of_span g env hij hj hspan)
  refine Nat.le_trans (filter_length_mono _ (fun x => decide ((cand g env 0).sec ≤ x.sec)) _ ?_) (Nat.le_of_eq hm.symm)
  intro x _ hx
  obtain ⟨j, _, e⟩ := (mem_cands g env _ x).1 (by simpa using hx)
  have := cand_sec_mono g env (Nat.zero_le j)
  rw [e] at this
  simpa using this

/-- the loop ends after at most 6 draws on the wrapped index (5 listed ids of the current second) -/
example : ∀ h, (newId .linearScan idxW g9997 quiet h).draws ≤ 6 :=
  (redraw_terminates_within idxW g9997 quiet 5 (by decide) (by decide)).2

private theorem advSum_const (env : Nat → Tick) (m : Nat) (h : ∀ j, 1 ≤ j → j ≤ m → (env j).adv = 0) :
    ∀ k, k ≤ m → advSum env k = (env 0).adv := by
  intro k
  induction k with
  | zero => intro _; rfl
  | succ k ih => intro hk; simp only [advSum, ih (by omega), h (k + 1) (by omega) hk]; omega

/-- **redraw_terminates_within_one_second.**  While the clock stays in the second of the first reading, only the
    listed ids carrying THAT second's prefix count: with `m` of them and draws 0 … m within one counter cycle the loop
    draws at most `m + 1` ids. -/
theorem redraw_terminates_within_one_second (idx : List Id) (g : Gen) (env : Nat → Tick) (m : Nat)
    (hm : m = (idx.filter (fun x => decide (x.sec = (cand g env 0).sec))).length)
    (hclock : ∀ j, 1 ≤ j → j ≤ m → (env j).adv = 0) (hspan : span env m < cycle) :
    Halts (taken .linearScan idx g env) 0 ∧ ∀ h, (newId .linearScan idx g env h).draws ≤ m + 1 := by
  apply halts_and_bound
  apply free_draw_exists idx g env m (fun i j hij hj => cand_ne_of_span g env hij hj hspan)
  refine Nat.le_trans (filter_length_mono _ (fun x => decide (x.sec = (cand g env 0).sec)) _ ?_) (Nat.le_of_eq hm.symm)
  intro x _ hx
  obtain ⟨j, hj, e⟩ := (mem_cands g env _ x).1 (by simpa using hx)
  have h0 := advSum_const env m hclock j hj
  have : (cand g env j).sec = (cand g env 0).sec := by
    rw [cand_closed, cand_closed]; simp only [h0, advSum]
  rw [e] at this
  simpa using this

private theorem skipSum_quiet (env : Nat → Tick) (h : ∀ j, 1 ≤ j → (env j).skip = 0) : ∀ k, skipSum env k = (env 0).skip := by
  intro k
  induction k with
  | zero => rfl
  | succ k ih => simp only [skipSum, ih, h (k + 1) (by omega)]; omega

/-- **redraw_terminates_no_interference.**  When no other goroutine draws while the loop runs, the guard is only
    about the mailbox: ANY index with fewer than 10000 entries in the seconds the clock can still reach — in any
    order, with any counter values — lets the loop end within (their number) + 1 draws. -/
theorem redraw_terminates_no_interference (idx : List Id) (g : Gen) (env : Nat → Tick) (m : Nat)
    (hm : m = (idx.filter (fun x => decide ((cand g env 0).sec ≤ x.sec))).length)
    (hquiet : ∀ j, 1 ≤ j → (env j).skip = 0) (hlen : m < cycle) :
    Halts (taken .linearScan idx g env) 0 ∧ ∀ h, (newId .linearScan idx g env h).draws ≤ m + 1 := by
  apply redraw_terminates_within idx g env m hm
  simp only [span, skipSum_quiet env hquiet]; omega

example : (idxW.filter (fun x => decide ((cand g9997 quiet 0).sec ≤ x.sec))).length = 5 := by decide

/-- **redraw_terminates_when_clock_passes.**  Any index, of any length: as soon as the clock shows a second later than
    every listed id's, the draw made then is free; the loop ends with that draw at the latest. -/
theorem redraw_terminates_when_clock_passes (idx : List Id) (g : Gen) (env : Nat → Tick) (n : Nat)
    (hpass : ∀ x ∈ idx, x.sec < (cand g env n).sec) :
    Halts (taken .linearScan idx g env) 0 ∧ ∀ h, (newId .linearScan idx g env h).draws ≤ n + 1 := by
  apply halts_and_bound
  exact ⟨n, Nat.le_refl _, fun hin => Nat.lt_irrefl _ (hpass _ hin)⟩

/-- the clock ticks before the third draw: the loop ends there whatever the counter says -/
example : ∀ x ∈ idxW, x.sec < (cand g9997 (fun k => if k = 2 then ⟨1, 0⟩ else ⟨0, 0⟩) 2).sec := by decide

/-- one second, no interference: the wrapped index has 5 ids of second 7, the loop draws at most 6 -/
example : ∀ h, (newId .linearScan idxW g9997 quiet h).draws ≤ 6 :=
  (redraw_terminates_within_one_second idxW g9997 quiet 5 (by decide) (fun _ _ _ => rfl) (by decide)).2

/-- all 10000 ids of one second -/
def fullSecond (s : Nat) : List Id := (List.range cycle).map (fun c => ⟨s, c⟩)

private theorem advSum_zero (env : Nat → Tick) (h : ∀ j, (env j).adv = 0) : ∀ k, advSum env k = 0 := by
  intro k
  induction k with
  | zero => exact h 0
  | succ k ih => simp only [advSum, ih, h (k + 1)]

/-- **full_second_never_terminates** (the guard `m < 10000` is needed).  A mailbox that holds all 10000 ids of the
    current second and a clock that stays in that second: every draw is listed, for every counter state and every
    interference; the loop does not end. -/
theorem full_second_never_terminates (g : Gen) (env : Nat → Tick) (hclock : ∀ j, (env j).adv = 0) :
    ¬ Halts (taken .linearScan (fullSecond g.sec) g env) 0 := by
  apply not_halts_of_all
  intro n
  apply (hasIDLinear_iff _ _).2
  rw [cand_closed, advSum_zero env hclock]
  simp only [fullSecond, List.mem_map, List.mem_range]
  exact ⟨(g.ctr + skipSum env n + n) % cycle, by simp only [cycle]; omega, rfl⟩

example : (fullSecond 7).length = 10000 := by simp [fullSecond, cycle]

/-- two goroutines that keep drawing 9998 values between any two draws of the loop -/
def starver : Nat → Tick := fun k => ⟨0, if k % 2 = 0 ∧ 0 < k then 9998 else 0⟩

/-- **interference_can_starve_the_loop** (the guard `span env m < 10000` is needed).  Two listed ids and a clock that
    stays: other goroutines that consume the right number of counter values between the loop's draws make it see
    0000, 0001, 0000, 0001, … for ever.  (The real loop is rescued only by the clock: `redraw_terminates_when_clock_passes`.) -/
theorem interference_can_starve_the_loop (s : Nat) :
    ¬ Halts (taken .linearScan [⟨s, 0⟩, ⟨s, 1⟩] ⟨s, 0⟩ starver) 0 := by
  apply not_halts_of_all
  intro n
  apply (hasIDLinear_iff _ _).2
  have hs : ∀ k, skipSum starver k = 9998 * (k / 2) := by
    intro k
    induction k with
    | zero => simp [skipSum, starver]
    | succ k ih =>
      simp only [skipSum, ih, starver]
      split <;> omega
  rw [cand_closed, advSum_zero starver (fun _ => rfl), hs]
  simp only [cycle, Nat.add_zero, Nat.zero_add, List.mem_cons, Id.mk.injEq, true_and, List.mem_nil_iff, or_false]
  omega

example : starver 2 = ⟨0, 9998⟩ ∧ starver 3 = ⟨0, 0⟩ ∧ cand ⟨7, 0⟩ starver 2 = ⟨7, 0⟩ ∧ cand ⟨7, 0⟩ starver 3 = ⟨7, 1⟩ := by decide

/-! ### the binary-search variant -/

/-- ids with counters k, k+1 (one process), then k-2, k-1 (a restarted process, or after the wrap), one second -/
def unsortedIdx (s k : Nat) : List Id := [⟨s, k⟩, ⟨s, k + 1⟩, ⟨s, k - 2⟩, ⟨s, k - 1⟩]

/-- **binary_search_misses_listed_id** (counter-witness for `binarySearchAssumingSorted`).  In an index that is not
    ascending — counters k, k+1, k-2, k-1 within one second — the bisection for the listed id with counter k looks at
    positions 2 and 3 only and answers "not there". -/
theorem binary_search_misses_listed_id (s k : Nat) (hk : 2 ≤ k) :
    hasID .binarySearchAssumingSorted (unsortedIdx s k) ⟨s, k⟩ = false ∧ (⟨s, k⟩ : Id) ∈ unsortedIdx s k ∧
    hasID .linearScan (unsortedIdx s k) ⟨s, k⟩ = true := by
  have h2 : ¬ (k ≤ k - 2) := by omega
  have h1 : ¬ (k ≤ k - 1) := by omega
  refine ⟨?_, by simp [unsortedIdx], by simp [hasID, hasIDLinear, unsortedIdx]⟩
  simp only [hasID, hasIDBinary, unsortedIdx, List.length_cons, List.length_nil]
  rw [sortSearch]; simp [Id.le, h2]
  rw [sortSearch]; simp [h1]
  rw [sortSearch]; simp

/-- **binary_search_hands_out_listed_id.**  With that variant `newMessage` returns, at its first draw, the id of a
    listed message: the counter stands at k again (a restarted process in the same second), nobody interferes. -/
theorem binary_search_hands_out_listed_id (s k : Nat) (hk : 2 ≤ k) (hk' : k < cycle) :
    Halts (taken .binarySearchAssumingSorted (unsortedIdx s k) ⟨s, k⟩ quiet) 0 ∧
    ∀ h, (newId .binarySearchAssumingSorted (unsortedIdx s k) ⟨s, k⟩ quiet h).id = ⟨s, k⟩ ∧
      (⟨s, k⟩ : Id) ∈ unsortedIdx s k ∧
      (newId .binarySearchAssumingSorted (unsortedIdx s k) ⟨s, k⟩ quiet h).draws = 1 := by
  have hc : cand ⟨s, k⟩ quiet 0 = ⟨s, k⟩ := by
    simp only [cand, drawN, draw, quiet, Nat.add_zero, Id.mk.injEq, true_and]
    exact Nat.mod_eq_of_lt hk'
  have hf : (fun j => hasID .binarySearchAssumingSorted (unsortedIdx s k) (cand ⟨s, k⟩ quiet j)) 0 = false := by
    simp only [hc]; exact (binary_search_misses_listed_id s k hk).1
  refine ⟨⟨0, Nat.le_refl _, hf⟩, fun h => ?_⟩
  have h0 : firstFree (fun j => hasID .binarySearchAssumingSorted (unsortedIdx s k) (cand ⟨s, k⟩ quiet j)) 0 h = 0 :=
    firstFree_neg _ hf
  simp only [newId, h0, hc]
  exact ⟨trivial, (binary_search_misses_listed_id s k hk).2.1, trivial⟩

example : hasID .binarySearchAssumingSorted (unsortedIdx 7 5) ⟨7, 5⟩ = false := (binary_search_misses_listed_id 7 5 (by omega)).1
/-- on a SORTED index the bisection does find the id: simple id-reuse tests keep passing -/
example : hasID .binarySearchAssumingSorted [⟨7, 5⟩, ⟨7, 6⟩] ⟨7, 5⟩ = true := by
  simp only [hasID, hasIDBinary, List.length_cons, List.length_nil]
  rw [sortSearch]; simp [Id.le]
  rw [sortSearch]; simp
  rw [sortSearch]; simp

/-! ### composed with the file-store model -/

/-- the messages of a mailbox as every reader sees them (index entry + content through `Source()`) -/
def view (f : FS) (b : Bytes) : List Msg := (readIndex f b).map (toMsg f b)

/-- **existing_raw_untouched** (C02's sentence for the file store: nothing lost, added, reordered or truncated by a
    LATER delivery).  In a mailbox whose index ids are pairwise different, a delivery whose id comes out of the re-draw
    loop with the linear scan — any cap, any generator state, clock, interference —
    (1) returns an id no surviving message carries,
    (2) leaves in the index exactly the messages the cap loop kept, in their order, followed by the new one,
    (3) changes the content and the recorded size of none of them (it writes `<newid>.raw` and the index only),
    (4) the new message reads back the delivered bytes with their length as size,
    (5) keeps the invariant, and (6) touches no other mailbox. -/
theorem existing_raw_untouched (c : Cfg) (f : FS) (b : Bytes) (hdr : Meta) (src : Bytes) (g : Gen) (env : Nat → Tick)
    (hok : BoxOK f b) (h : Halts (taken .linearScan (idsOf (loadedAfterCap c f b)) g env) 0) :
    let r := deliver .linearScan c f b hdr src g env h
    let kept := (readIndex f b).drop (evictCount c.cap (readIndex f b).length)
    (∀ e ∈ kept, e.id ≠ r.2.1) ∧
    readIndex r.1 b = kept ++ [{ id := r.2.1, hdr := hdr, seen := false, size := src.length }] ∧
    (∀ e ∈ kept, toMsg r.1 b e = toMsg f b e) ∧
    toMsg r.1 b { id := r.2.1, hdr := hdr, seen := false, size := src.length } =
      { box := b, id := r.2.1, hdr := hdr, seen := false, source := src } ∧
    BoxOK r.1 b ∧ (∀ y, y ≠ b → r.1.dirs y = f.dirs y) := by
  obtain ⟨n1, _, _, n4⟩ := new_id_not_listed _ g env h
  have hfresh : ∀ e ∈ loadedAfterCap c f b, e.id ≠ (newId .linearScan (idsOf (loadedAfterCap c f b)) g env h).id.toNat := by
    intro e he heq
    exact n1 ((mem_idsOf _ _ n4).2 ⟨e, he, heq⟩)
  obtain ⟨a1, a2, a3, a4, _, a6, a7⟩ := addWith_fresh c f b hdr src (fun _ => (newId .linearScan (idsOf (loadedAfterCap c f b)) g env h).id.toNat) hok hfresh
  simp only [deliver]
  rw [← loadedAfterCap_eq c f b hok]
  refine ⟨?_, a2, ?_, ?_, a6, a7⟩
  · intro e he; rw [a1]; exact hfresh e he
  · intro e he; simp only [toMsg, a3 e he]
  · simp only [toMsg, a4, Option.getD_some]

/-- a mailbox built by three deliveries whose counters are 9999, 0000 (wrapped), 9998 (restarted process) -/
def fW : FS :=
  let f1 := (addWith ⟨0, 0⟩ Ibx.Model.FileStore.empty [97] default [1, 2, 3] (fun _ => 79999)).1
  let f2 := (addWith ⟨0, 0⟩ f1 [97] default [4] (fun _ => 70000)).1
  (addWith ⟨0, 0⟩ f2 [97] default [5, 6] (fun _ => 79998)).1

example : (view fW [97]).map (fun m => (m.id, m.source)) = [(79999, [1, 2, 3]), (70000, [4]), (79998, [5, 6])] := by decide

/-- **binary_search_delivery_overwrites** (counter-witness composed with the file store).  A mailbox holding messages
    with counters k, k+1, k-2, k-1 of one second (no cap); the next delivery, by a process whose counter stands at k in
    that second, under the binary-search variant: the new message is created under the FIRST message's id, that
    message's raw file is truncated — it now reads back the new bytes — and the index lists the id twice. -/
theorem binary_search_delivery_overwrites (f : FS) (b : Bytes) (hdr : Meta) (src : Bytes) (s k : Nat) (hk : 2 ≤ k) (hk' : k + 1 < cycle)
    (hidx : (readIndex f b).map (·.id) = (unsortedIdx s k).map Id.toNat) :
    ∃ h, let r := deliver .binarySearchAssumingSorted ⟨0, 0⟩ f b hdr src ⟨s, k⟩ quiet h
      r.2.1 = (⟨s, k⟩ : Id).toNat ∧ rawOf r.1 b (⟨s, k⟩ : Id).toNat = some src ∧
      (readIndex r.1 b).map (·.id) = (unsortedIdx s k).map Id.toNat ++ [(⟨s, k⟩ : Id).toNat] := by
  have hl : loadedAfterCap ⟨0, 0⟩ f b = readIndex f b := rfl
  have hids : idsOf (loadedAfterCap ⟨0, 0⟩ f b) = unsortedIdx s k := by
    rw [hl, idsOf]
    have : (readIndex f b).map (fun e => Id.ofNat e.id) = ((readIndex f b).map (·.id)).map Id.ofNat := by simp
    rw [this, hidx]
    simp only [cycle] at hk'
    simp only [unsortedIdx, List.map_cons, List.map_nil]
    rw [ofNat_toNat _ (by simp only [cycle]; omega), ofNat_toNat _ (by simp only [cycle]; omega),
      ofNat_toNat _ (by simp only [cycle]; omega), ofNat_toNat _ (by simp only [cycle]; omega)]
  have hkc : k < cycle := by omega
  obtain ⟨h, hall⟩ := binary_search_hands_out_listed_id s k hk hkc
  have key : ∀ idx, idx = unsortedIdx s k → ∀ hh, (newId .binarySearchAssumingSorted idx ⟨s, k⟩ quiet hh).id = ⟨s, k⟩ := by
    intro idx e; subst e; exact fun hh => (hall hh).1
  have h' : Halts (taken .binarySearchAssumingSorted (idsOf (loadedAfterCap ⟨0, 0⟩ f b)) ⟨s, k⟩ quiet) 0 := by rw [hids]; exact h
  refine ⟨h', ?_⟩
  have hnew := key _ hids h'
  obtain ⟨o1, o2⟩ := addWith_listed_overwrites ⟨0, 0⟩ f b hdr src
    (fun _ => (newId .binarySearchAssumingSorted (idsOf (loadedAfterCap ⟨0, 0⟩ f b)) ⟨s, k⟩ quiet h').id.toNat)
  simp only [deliver]
  simp only [hnew] at o1 o2 ⊢
  refine ⟨rfl, o1, ?_⟩
  rw [o2, hl, List.map_append, hidx]; rfl

/-- a mailbox with counters 5, 6, 3, 4 of second 7 -/
def fU : FS :=
  let f1 := (addWith ⟨0, 0⟩ Ibx.Model.FileStore.empty [97] default [1, 2, 3] (fun _ => 70005)).1
  let f2 := (addWith ⟨0, 0⟩ f1 [97] default [4] (fun _ => 70006)).1
  let f3 := (addWith ⟨0, 0⟩ f2 [97] default [5, 6] (fun _ => 70003)).1
  (addWith ⟨0, 0⟩ f3 [97] default [7] (fun _ => 70004)).1

example : (readIndex fU [97]).map (·.id) = (unsortedIdx 7 5).map Id.toNat ∧ rawOf fU [97] 70005 = some [1, 2, 3] := by decide
/-- the first message of `fU` was delivered as [1, 2, 3]; after the next delivery ([9]) it reads back [9] -/
example : ∃ h, rawOf (deliver .binarySearchAssumingSorted ⟨0, 0⟩ fU [97] default [9] ⟨7, 5⟩ quiet h).1 [97] 70005 = some [9] := by
  obtain ⟨h, _, h2, _⟩ := binary_search_delivery_overwrites fU [97] default [9] 7 5 (by omega) (by decide) (by decide)
  exact ⟨h, h2⟩

/-! ### the freshness hypothesis of the refinement theorems, discharged -/

/-- rename the id of a message (real id ↦ rank, as the correspondence harness does) -/
def renId (ρ : Nat → Nat) (m : Msg) : Msg := { m with id := ρ m.id }

/-- **generated_delivery_refines_spec.**  Let a mailbox of the file store (ids = whatever the generator produced) show,
    under a renaming `ρ` of ids, the listing of the abstract store `s`.  Then a delivery whose id comes out of the
    re-draw loop (linear scan; any generator state, clock and interference) shows, under `ρ` extended by
    `new id ↦ s.next b + 1`, the listing of the abstract store after ITS delivery; the `deleted` events of the cap loop
    are the spec's under `ρ`; the answer is the spec's answer.  The only fact about the generator that is used is
    `new_id_not_listed` — what `Model/FileStore.lean` assumes of its fresh tokens is a theorem about the code's loop. -/
theorem generated_delivery_refines_spec (c : Cfg) (f : FS) (s : Store) (b : Bytes) (hdr : Meta) (src : Bytes)
    (g : Gen) (env : Nat → Tick) (ρ : Nat → Nat) (hok : BoxOK f b) (hv : (view f b).map (renId ρ) = listing s b)
    (h : Halts (taken .linearScan (idsOf (loadedAfterCap c f b)) g env) 0) :
    let r := deliver .linearScan c f b hdr src g env h
    let ρ' := fun x => if x = r.2.1 then s.next b + 1 else ρ x
    (view r.1 b).map (renId ρ') = listing (sstep (noLimit c) s (.add b hdr src)).1 b ∧
    r.2.2.1.map (fun ev => (ev.1, ρ ev.2)) = (sstep (noLimit c) s (.add b hdr src)).2.2 ∧
    (sstep (noLimit c) s (.add b hdr src)).2.1 = .id (ρ' r.2.1) := by
  obtain ⟨e1, e2, e3, e4, _, _⟩ := existing_raw_untouched c f b hdr src g env hok h
  obtain ⟨n1, _, _, n4⟩ := new_id_not_listed _ g env h
  have hfresh : ∀ e ∈ loadedAfterCap c f b, e.id ≠ (newId .linearScan (idsOf (loadedAfterCap c f b)) g env h).id.toNat := by
    intro e he heq
    exact n1 ((mem_idsOf _ _ n4).2 ⟨e, he, heq⟩)
  obtain ⟨_, _, _, _, a5, _, _⟩ := addWith_fresh c f b hdr src (fun _ => (newId .linearScan (idsOf (loadedAfterCap c f b)) g env h).id.toNat) hok hfresh
  have hlen : (listing s b).length = (readIndex f b).length := by rw [← hv]; simp [view]
  simp only at e1 e2 e3 e4 ⊢
  generalize hr : deliver .linearScan c f b hdr src g env h = r at e1 e2 e3 e4
  have hev : r.2.2.1 = ((readIndex f b).take (evictCount c.cap (readIndex f b).length)).map (fun e => (b, e.id)) := by
    rw [← hr]; exact a5
  refine ⟨?_, ?_, ?_⟩
  · have hR : (listing s b).drop (evictCount c.cap (readIndex f b).length) =
        ((readIndex f b).drop (evictCount c.cap (readIndex f b).length)).map (renId ρ ∘ toMsg f b) := by
      rw [← hv, view, List.map_map, List.map_drop]
    rw [add_listing, hlen, hR, view, e2, List.map_append, List.map_append, List.map_map]
    congr 1
    · apply List.map_congr_left
      intro e he
      have hne := e1 e he
      simp only [Function.comp, renId]
      rw [e3 e he]
      simp [toMsg, hne]
    · simp only [List.map_cons, List.map_nil, e4, renId, newMsg, if_true]
  · rw [sstep_add_eq]
    have hm : inBox b (newMsg s b hdr src) = true := by simp [inBox, newMsg]
    have hlen' : (s.msgs.filter (inBox b)).length = (readIndex f b).length := hlen
    have hv' : s.msgs.filter (inBox b) = (view f b).map (renId ρ) := hv.symm
    simp only
    rw [(capEvict_append c.cap b s.msgs _ hm).1, dropOldest_snd, hlen', hv', view, hev, List.map_map, List.map_map,
      ← List.map_take, List.map_map]
    apply List.map_congr_left
    intro e _
    simp [Function.comp, evOf, renId, toMsg]
  · rw [sstep_add_eq]; simp

/-- the hypotheses are met by the wrapped mailbox `fW` with the renaming real id ↦ rank (79999 ↦ 1, 70000 ↦ 2, 79998 ↦ 3)
    and the abstract store that received the same three deliveries -/
example : BoxOK fW [97] := by
  refine ⟨by decide, ?_⟩
  intro e he
  have : e ∈ [({ id := 79999, hdr := default, seen := false, size := 3 } : FEnt), { id := 70000, hdr := default, seen := false, size := 1 },
      { id := 79998, hdr := default, seen := false, size := 2 }] := he
  simp only [List.mem_cons, List.mem_nil_iff, or_false] at this
  rcases this with rfl | rfl | rfl
  · exact ⟨[1, 2, 3], by decide, rfl⟩
  · exact ⟨[4], by decide, rfl⟩
  · exact ⟨[5, 6], by decide, rfl⟩
example : (view fW [97]).map (renId (fun x => if x = 79999 then 1 else if x = 70000 then 2 else 3)) =
    listing (Spec.Store.run ⟨0, 0⟩ Spec.Store.empty [.add [97] default [1, 2, 3], .add [97] default [4], .add [97] default [5, 6]]).1 [97] := by decide

end Ibx.Props.C07Ids
