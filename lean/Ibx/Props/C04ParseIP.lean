import Ibx.Model.ParseIP
import Ibx.Lemmas.ParseIPTop
import Ibx.Lemmas.ParseIPBytes
import Ibx.Props.C04
import Ibx.Props.Sys
/-
  C04, `net.ParseIP` inside the model.  `Ibx/Model/ParseIP.lean` models the function of the installed Go toolchain
  (net.ParseIP -> netip.ParseAddr -> parseIPv4Fields / parseIPv6, zones rejected); here are the theorems about it:
    * the two facts the C04 theorems used to ASSUME of their `ip` parameter (`IpCaseInsensitive`, `IpAlphabet`) are
      proved of the model,
    * readable characterisations of what parses (dotted quads; the grammar of IPv6 texts; "::" at most once; at most 45
      bytes; never with a zone),
    * the C04 theorems (and the system-level ones built on them) instantiated with the model: no hypothesis on `ip`
      is left.
  What remains outside Lean is the correspondence of the model with the real `net.ParseIP`; the T2 leg
  `harness/cmd/drive/c04_parseip.go` checks it on every run (exhaustive short strings, grammar, mutations).
-/
namespace Ibx.Props.C04ParseIP
open Ibx Ibx.Bytes Ibx.Model.Addr Ibx.Model.ParseIP
open Ibx.Lemmas.AddrCase Ibx.Lemmas.ParseIPShape Ibx.Lemmas.ParseIPv4 Ibx.Lemmas.ParseIPv6 Ibx.Lemmas.ParseIPTop
open Ibx.Props.C04

/-! ### the two former assumptions -/

/-- `net.ParseIP` returns the same 16 bytes (or nil) for a string and for its ASCII lower-casing: hex letters have
    the same value in either case, and nothing else the parser lets through is a letter -/
theorem parseIPv_case_insensitive (s : Bytes) : parseIPv (lower s) = parseIPv s :=
  Lemmas.ParseIPCase.parseIPv_lower s

example : parseIPv (ofAscii "ABCD:Ef01::A.B") = none ∧
    parseIPv (ofAscii "ABCD:Ef01::10.0.0.7") = parseIPv (ofAscii "abcd:ef01::10.0.0.7") ∧
    parseIPv (ofAscii "ABCD:Ef01::10.0.0.7") = some [171, 205, 239, 1, 0, 0, 0, 0, 0, 0, 0, 0, 10, 0, 0, 7] := by
  decide

/-- **IpCaseInsensitive holds of the model**: `net.ParseIP(lower s) != nil` iff `net.ParseIP(s) != nil` -/
theorem parseIP_case_insensitive : IpCaseInsensitive parseIP := by
  intro s
  simp only [parseIP, parseIPv_case_insensitive]

example : parseIP (ofAscii "FE80::AbC") = true ∧ parseIP (lower (ofAscii "FE80::AbC")) = true ∧
    lower (ofAscii "FE80::AbC") ≠ ofAscii "FE80::AbC" := by decide

/-- **IpAlphabet holds of the model**: every byte of a string `net.ParseIP` accepts is a digit, a hex letter,
    '.' or ':' (in particular no 'p', 'v', 'P', 'V': "ipv6:…" never parses) -/
theorem parseIP_alphabet : IpAlphabet parseIP := by
  intro s hs c hc
  exact parseIP_bytes hs c hc

example : parseIP (ofAscii "1:2:3:4:5:6:1.2.3.4") = true ∧ parseIP (ofAscii "ipv6:::1") = false ∧
    parseIP (ofAscii "::g") = false := by decide

/-! ### what parses -/

/-- one IPv4 field as the code accepts it: one to three digits, no leading zero unless the field is "0" itself,
    value at most 255 -/
def Octet (f : Bytes) : Prop :=
  1 ≤ f.length ∧ f.length ≤ 3 ∧ (∀ c ∈ f, isDigitB c = true) ∧ (f.head? = some 48 → f = [48]) ∧ decVal f ≤ 255

theorem octet_iff (f : Bytes) : octetB f = true ↔ Octet f := by
  constructor
  · intro h
    have hl := octet_length h
    simp only [octetB, Bool.and_eq_true, Bool.or_eq_true, decide_eq_true_eq, List.all_eq_true, bne_iff_ne,
      beq_iff_eq] at h
    obtain ⟨⟨⟨_, hd⟩, hz⟩, hv⟩ := h
    refine ⟨hl.1, hl.2, hd, ?_, hv⟩
    intro h0
    rcases hz with hz | hz
    · exact absurd h0 hz
    · match f, hz, h0 with
      | [c], _, h0 => simp at h0; rw [h0]
  · rintro ⟨h1, _, hd, hz, hv⟩
    simp only [octetB, Bool.and_eq_true, Bool.or_eq_true, decide_eq_true_eq, List.all_eq_true, bne_iff_ne,
      beq_iff_eq]
    refine ⟨⟨⟨?_, hd⟩, ?_⟩, hv⟩
    · cases f with
      | nil => simp at h1
      | cons _ _ => rfl
    · by_cases h0 : f.head? = some 48
      · right; rw [hz h0]; rfl
      · left; exact h0

private theorem firstSep_colon_mem {s : Bytes} (h : firstSep s = 58) : 58 ∈ s := by
  induction s with
  | nil => simp [firstSep] at h
  | cons c r ih =>
    simp only [firstSep] at h
    split at h
    · subst h; simp
    · exact List.mem_cons_of_mem _ (ih h)

/-- **which dotted quads parse**: a string without ':' is accepted iff it is four fields separated by periods, each
    field one to three digits without a leading zero (unless it is "0") and of value at most 255; the result is
    the IPv4-mapped address ::ffff:a.b.c.d -/
theorem dotted_quad_iff (s : Bytes) (hs : 58 ∉ s) (v : List Nat) :
    parseIPv s = some v ↔
      ∃ a b c d, s = a ++ 46 :: (b ++ 46 :: (c ++ 46 :: d)) ∧ Octet a ∧ Octet b ∧ Octet c ∧ Octet d ∧
        v = [0, 0, 0, 0, 0, 0, 0, 0, 0, 0, 255, 255, decVal a, decVal b, decVal c, decVal d] := by
  constructor
  · intro h
    have hp : parseIP s = true := by simp [parseIP, h]
    rcases (parseIP_iff s).mp hp with h4 | h6
    · have hsep := v4Text_sep h4
      obtain ⟨a, b, c, d, h1, h2, h3, h4', h5⟩ := h4
      have hf := (parseIPv4Fields_iff s _).mpr ⟨a, b, c, d, h1, h2, h3, h4', h5, rfl⟩
      refine ⟨a, b, c, d, h1, (octet_iff a).mp h2, (octet_iff b).mp h3, (octet_iff c).mp h4', (octet_iff d).mp h5, ?_⟩
      simp only [parseIPv, parseAddr, hsep, beq_self_eq_true, if_true, hf, Option.map_some, List.isEmpty_nil,
        Bool.not_true, Bool.false_eq_true, if_false, as16, Option.some.injEq] at h
      exact h.symm
    · exact absurd (firstSep_colon_mem (v6Text_sep h6)) hs
  · rintro ⟨a, b, c, d, h1, ha, hb, hc, hd, rfl⟩
    have h4 : V4Text s := ⟨a, b, c, d, h1, (octet_iff a).mpr ha, (octet_iff b).mpr hb, (octet_iff c).mpr hc,
      (octet_iff d).mpr hd⟩
    have hsep := v4Text_sep h4
    have hf := (parseIPv4Fields_iff s _).mpr ⟨a, b, c, d, h1, (octet_iff a).mpr ha, (octet_iff b).mpr hb,
      (octet_iff c).mpr hc, (octet_iff d).mpr hd, rfl⟩
    simp [parseIPv, parseAddr, hsep, hf, as16]

example : parseIPv (ofAscii "192.168.0.255") = some [0, 0, 0, 0, 0, 0, 0, 0, 0, 0, 255, 255, 192, 168, 0, 255] ∧
    Octet (ofAscii "192") ∧ Octet (ofAscii "0") ∧ Octet (ofAscii "255") ∧ ¬ Octet (ofAscii "256") ∧
    ¬ Octet (ofAscii "01") ∧ ¬ Octet [] ∧
    parseIP (ofAscii "192.168.0.256") = false ∧ parseIP (ofAscii "192.168.00.1") = false ∧
    parseIP (ofAscii "192.168.1") = false ∧ parseIP (ofAscii "1.2.3.4.5") = false ∧
    parseIP (ofAscii "1.2..4") = false := by
  refine ⟨by decide, ?_, ?_, ?_, ?_, ?_, ?_, by decide, by decide, by decide, by decide, by decide⟩ <;>
    (try rw [← octet_iff]) <;> decide

/-- **the complete characterisation**: `net.ParseIP` accepts exactly the dotted quads (`V4Text`) and the IPv6 texts
    of `V6Text` — "::" alone, "::" followed by a run of groups that leaves room for it, or a run of groups (`Run`:
    groups of one to four hex digits separated by ':', "::" at most once, an IPv4 tail only after "::" or as the last
    two of eight fields) that is complete without "::" or leaves room with it -/
theorem parseIP_accepts_iff (s : Bytes) : parseIP s = true ↔ V4Text s ∨ V6Text s := parseIP_iff s

example : V6Text (ofAscii "::") ∧ V4Text (ofAscii "1.2.3.4") ∧ parseIP (ofAscii "::") = true ∧
    parseIP (ofAscii "1.2.3.4") = true := by
  refine ⟨.inl rfl, ⟨ofAscii "1", ofAscii "2", ofAscii "3", ofAscii "4", rfl, by decide, by decide, by decide, by decide⟩,
    by decide, by decide⟩

/-- eight groups of one to four hex digits, separated by colons, always parse (the full form) -/
theorem eight_groups_parse (g1 g2 g3 g4 g5 g6 g7 g8 : Bytes) (h1 : Hex4 g1) (h2 : Hex4 g2) (h3 : Hex4 g3)
    (h4 : Hex4 g4) (h5 : Hex4 g5) (h6 : Hex4 g6) (h7 : Hex4 g7) (h8 : Hex4 g8) :
    parseIP (g1 ++ 58 :: (g2 ++ 58 :: (g3 ++ 58 :: (g4 ++ 58 :: (g5 ++ 58 :: (g6 ++ 58 :: (g7 ++ 58 :: g8))))))) =
      true := by
  rw [parseIP_iff]
  refine .inr (.inr (.inr ?_))
  have ne : ∀ {g : Bytes} (r : Bytes), Hex4 g → g ++ r ≠ [] := by
    intro g r hg h0
    exact hg.1 (List.append_eq_nil_iff.mp h0).1
  have ne' : ∀ {g : Bytes}, Hex4 g → g ≠ [] := fun hg => hg.1
  have hd' : ∀ {g : Bytes}, Hex4 g → g.head? ≠ some 58 := by
    intro g hg
    have := hex4_head hg []
    rwa [List.append_nil] at this
  refine ⟨16, none, ?_, .inr ⟨rfl, rfl⟩⟩
  exact .colon 7 g1 _ none 16 none h1 (ne _ h2) (hex4_head h2 _)
    (.colon 6 g2 _ none 16 none h2 (ne _ h3) (hex4_head h3 _)
    (.colon 5 g3 _ none 16 none h3 (ne _ h4) (hex4_head h4 _)
    (.colon 4 g4 _ none 16 none h4 (ne _ h5) (hex4_head h5 _)
    (.colon 3 g5 _ none 16 none h5 (ne _ h6) (hex4_head h6 _)
    (.colon 2 g6 _ none 16 none h6 (ne _ h7) (hex4_head h7 _)
    (.colon 1 g7 _ none 16 none h7 (ne' h8) (hd' h8)
    (.last 0 g8 none h8)))))))

example : Hex4 (ofAscii "2001") ∧ Hex4 (ofAscii "dB8") ∧ Hex4 (ofAscii "0") ∧ ¬ Hex4 (ofAscii "12345") ∧
    parseIP (ofAscii "2001:dB8:0:0:0:0:0:1") = true := by
  refine ⟨⟨by decide, by decide, by decide⟩, ⟨by decide, by decide, by decide⟩, ⟨by decide, by decide, by decide⟩,
    ?_, by decide⟩
  rintro ⟨_, h, _⟩
  simp [ofAscii] at h

/-- **"::" at most once**: in an accepted string "::" starts at no more than one position -/
theorem double_colon_at_most_once (s : Bytes) (h : parseIP s = true) : dcCount s ≤ 1 := parseIP_dc h

private theorem dcCount_cons_le (c : Nat) (s : Bytes) : dcCount s ≤ dcCount (c :: s) := by
  simp only [dcCount]; omega

private theorem dcCount_prefix_le (x s : Bytes) : dcCount s ≤ dcCount (x ++ s) := by
  induction x with
  | nil => exact Nat.le_refl _
  | cons c r ih => exact Nat.le_trans ih (dcCount_cons_le c _)

/-- no string with two "::" parses -/
theorem two_double_colons_never_parse (x y z : Bytes) :
    parseIP (x ++ 58 :: 58 :: (y ++ 58 :: 58 :: z)) = false := by
  cases hp : parseIP (x ++ 58 :: 58 :: (y ++ 58 :: 58 :: z)) with
  | false => rfl
  | true =>
    exfalso
    have h1 := parseIP_dc hp
    have h2 := dcCount_prefix_le x (58 :: 58 :: (y ++ 58 :: 58 :: z))
    rw [dcCount_dcolon] at h2
    have h3 := dcCount_cons_le 58 (y ++ 58 :: 58 :: z)
    have h4 := dcCount_prefix_le y (58 :: 58 :: z)
    rw [dcCount_dcolon] at h4
    omega

/-- no string containing ":::" parses -/
theorem triple_colon_never_parses (x z : Bytes) : parseIP (x ++ 58 :: 58 :: 58 :: z) = false := by
  cases hp : parseIP (x ++ 58 :: 58 :: 58 :: z) with
  | false => rfl
  | true =>
    exfalso
    have h1 := parseIP_dc hp
    have h2 := dcCount_prefix_le x (58 :: 58 :: 58 :: z)
    rw [dcCount_dcolon, dcCount_dcolon] at h2
    omega

example : parseIP (ofAscii "1::2::3") = false ∧ parseIP (ofAscii "1:::2") = false ∧ parseIP (ofAscii "1::2:3") = true ∧
    dcCount (ofAscii "1::2:3") = 1 := by decide

/-- **length**: an accepted string has between 2 and 45 bytes — "::" and
    "ffff:ffff:ffff:ffff:ffff:ffff:255.255.255.255" are accepted, so both bounds are met -/
theorem accepted_length (s : Bytes) (h : parseIP s = true) : 2 ≤ s.length ∧ s.length ≤ 45 := parseIP_len h

/-- a string of more than 45 bytes never parses -/
theorem longer_than_45_never_parses (s : Bytes) (h : 45 < s.length) : parseIP s = false := by
  cases hp : parseIP s with
  | false => rfl
  | true => have := (parseIP_len hp).2; omega

example : parseIP (ofAscii "ffff:ffff:ffff:ffff:ffff:ffff:255.255.255.255") = true ∧
    (ofAscii "ffff:ffff:ffff:ffff:ffff:ffff:255.255.255.255").length = 45 ∧ parseIP (ofAscii "::") = true ∧
    parseIP (ofAscii "0ffff:ffff:ffff:ffff:ffff:ffff:255.255.255.255") = false := by decide

/-- **zones are rejected**: a string containing '%' never parses (`netip.ParseAddr` accepts "fe80::1%eth0";
    `net.ParseIP` answers nil for it) -/
theorem zone_never_parses (s : Bytes) (h : 37 ∈ s) : parseIP s = false := by
  cases hp : parseIP s with
  | false => rfl
  | true => exact absurd rfl (isIpB_ne_pct (parseIP_bytes hp 37 h))

example : (parseAddr (ofAscii "fe80::1%eth0")).isSome = true ∧ parseIP (ofAscii "fe80::1%eth0") = false ∧
    parseIP (ofAscii "fe80::1") = true := by decide

/-- a blank, a bracket, a slash, a sign, a NUL, a byte above 127 anywhere: never accepted -/
theorem stray_byte_never_parses (s : Bytes) (c : Nat) (hc : c ∈ s) (hb : isIpByte c = false) : parseIP s = false := by
  cases hp : parseIP s with
  | false => rfl
  | true => have := parseIP_alphabet s hp c hc; rw [hb] at this; cases this

example : parseIP (ofAscii " ::1") = false ∧ parseIP (ofAscii "[::1]") = false ∧ parseIP (ofAscii "::1/128") = false ∧
    isIpByte 32 = false ∧ isIpByte 91 = false ∧ isIpByte 47 = false ∧ isIpByte 0 = false ∧ isIpByte 200 = false := by
  decide

/-- **the value**: `net.ParseIP` answers nil or exactly 16 bytes (an IPv4 address in its IPv4-mapped form) -/
theorem result_is_16_bytes (s : Bytes) (b : List Nat) (h : parseIPv s = some b) :
    b.length = 16 ∧ ∀ x ∈ b, x < 256 := Lemmas.ParseIPBytes.parseIPv_bytes h

example : parseIPv (ofAscii "1:2::ffff:10.255.0.7") = some [0, 1, 0, 2, 0, 0, 0, 0, 0, 0, 255, 255, 10, 255, 0, 7] ∧
    parseIPv (ofAscii "FFFF::") = some [255, 255, 0, 0, 0, 0, 0, 0, 0, 0, 0, 0, 0, 0, 0, 0] := by decide

/-! ### the C04 theorems with the real `ParseIP` model: no hypothesis on `ip` is left -/

/-- `name_fixed_point` with `net.ParseIP` modelled: in every naming mode the mailbox name of an accepted address is
    a fixed point of `ExtractMailbox` -/
theorem name_fixed_point_parseIP (m : Naming) (a : Bytes) (r : Recipient)
    (h : newRecipient parseIP m a = some r) : extractMailbox parseIP m r.mailbox = some r.mailbox :=
  name_fixed_point parseIP parseIP_case_insensitive m a r h

example : ∃ r, newRecipient parseIP .fullN aQuoted = some r ∧ r.mailbox = nQuotedFull ∧
    extractMailbox parseIP .fullN r.mailbox = some r.mailbox := by decide

example : ∃ r, newRecipient parseIP .domainN (ofAscii "u@[IPv6:ABCD::10.0.0.7]") = some r ∧
    r.mailbox = ofAscii "[IPv6:abcd::10.0.0.7]" ∧ extractMailbox parseIP .domainN r.mailbox = some r.mailbox := by
  decide

/-- `name_case_insensitive` with `net.ParseIP` modelled: two accepted addresses that differ only in letter case
    name the same mailbox, in every naming mode -/
theorem name_case_insensitive_parseIP (m : Naming) (a a' : Bytes) (r r' : Recipient) (hl : lower a = lower a')
    (h : newRecipient parseIP m a = some r) (h' : newRecipient parseIP m a' = some r') :
    r.mailbox = r'.mailbox :=
  name_case_insensitive parseIP parseIP_alphabet m a a' r r' hl h h'

example : lower (ofAscii "Joe@[IPv6:ABCD::1]") = lower (ofAscii "joe@[IPv6:abcd::1]") ∧
    mailboxOf parseIP .fullN (ofAscii "Joe@[IPv6:ABCD::1]") = mailboxOf parseIP .fullN (ofAscii "joe@[IPv6:abcd::1]") ∧
    (mailboxOf parseIP .fullN (ofAscii "Joe@[IPv6:ABCD::1]")).isSome = true := by decide

/-- `lookup_case_insensitive` with `net.ParseIP` modelled: whatever name `ExtractMailbox` returns for a re-cased
    spelling of an accepted address is the mailbox the mail went to -/
theorem lookup_case_insensitive_parseIP (m : Naming) (a x mb : Bytes) (r : Recipient) (hl : lower x = lower a)
    (h : newRecipient parseIP m a = some r) (hx : extractMailbox parseIP m x = some mb) : mb = r.mailbox :=
  lookup_case_insensitive parseIP parseIP_alphabet m a x mb r hl h hx

example : lower (ofAscii "JOE@[1.2.3.4]") = lower (ofAscii "joe@[1.2.3.4]") ∧
    (newRecipient parseIP .fullN (ofAscii "joe@[1.2.3.4]")).isSome = true ∧
    extractMailbox parseIP .fullN (ofAscii "JOE@[1.2.3.4]") = mailboxOf parseIP .fullN (ofAscii "joe@[1.2.3.4]") := by
  decide

/-- `ipv6_tag_spelling` with `net.ParseIP` modelled: an accepted IP literal carrying the tag is spelled `[IPv6:`
    exactly — "[ipv6:…]" is never a valid domain part, because "ipv6:…" is not an IP address -/
theorem ipv6_tag_spelling_parseIP (t d' : Bytes) (hl : lower d' = lower (ipv6Open ++ t))
    (hv : validateDomainPart parseIP d' = true) : ∃ t', d' = ipv6Open ++ t' :=
  ipv6_tag_spelling parseIP parseIP_alphabet t d' hl hv

example : validateDomainPart parseIP (ofAscii "[IPv6:::1]") = true ∧
    validateDomainPart parseIP (ofAscii "[ipv6:::1]") = false ∧
    validateDomainPart parseIP (ofAscii "[::1]") = true ∧ validateDomainPart parseIP (ofAscii "[fe80::1%eth0]") = false := by
  decide

/-- **canonical_lookup** with `net.ParseIP` modelled — mail to an address is fetchable by that address: for every
    accepted address `a` the read-side function returns the RCPT-time mailbox when asked for `a`, for the mailbox
    name itself, and for any other accepted spelling of `a` that differs only in letter case.  No hypothesis about
    `net.ParseIP` is left; its correspondence with the installed Go's function is checked by T2. -/
theorem canonical_lookup_parseIP (m : Naming) (a : Bytes) (r : Recipient) (h : newRecipient parseIP m a = some r) :
    r.mailbox ≠ [] ∧ extractMailbox parseIP m a = some r.mailbox ∧
    extractMailbox parseIP m r.mailbox = some r.mailbox ∧
    (∀ a' r', lower a' = lower a → newRecipient parseIP m a' = some r' →
      extractMailbox parseIP m a' = some r.mailbox) :=
  canonical_lookup parseIP parseIP_case_insensitive parseIP_alphabet m a r h

example : (newRecipient parseIP .domainN aQuoted).isSome = true ∧
    (newRecipient parseIP .fullN (ofAscii "a@[IPv6:1:2:3:4:5:6:7:8]")).isSome = true ∧
    (newRecipient parseIP .fullN (ofAscii "a@[IPv6:1:2:3:4:5:6:7:8:9]")).isSome = false := by decide

/-! ### the system-level theorems (Props/Sys, Props/C04Client) -/

/-- a configuration whose `net.ParseIP` is the model meets both hypotheses that `asks_resolve`, `mail_is_fetchable`,
    `smtp_mail_is_fetchable` (Props/Sys) and `mail_is_fetchable_through_client` (Props/C04Client) put on `k.ip` -/
theorem sys_ip_hypotheses (k : Model.Sys.Cfg) (hk : k.ip = parseIP) :
    IpCaseInsensitive k.ip ∧ IpAlphabet k.ip := by
  rw [hk]; exact ⟨parseIP_case_insensitive, parseIP_alphabet⟩

/-- `asks_resolve` with `net.ParseIP` modelled: every spelling a reader may use for an accepted address (the
    address, the canonical name, a re-casing, another or no '+ext') resolves to the RCPT-time mailbox -/
theorem asks_resolve_parseIP (k : Model.Sys.Cfg) (hk : k.ip = parseIP) (a : Bytes) (r : Recipient)
    (ha : newRecipient k.ip k.naming a = some r) (x : Bytes) (hx : Props.Sys.AsksFor k a r x) :
    extractMailbox k.ip k.naming x = some r.mailbox :=
  Props.Sys.asks_resolve k (sys_ip_hypotheses k hk).1 (sys_ip_hypotheses k hk).2 a r ha x hx

/-- the example configuration of Props/Sys with the model as its `net.ParseIP`, full naming -/
def exKip : Model.Sys.Cfg := { Props.Sys.exK with ip := parseIP, naming := .fullN }

example : exKip.ip = parseIP ∧
    (newRecipient exKip.ip exKip.naming (ofAscii "Joe@[IPv6:ABCD::1]")).isSome = true ∧
    extractMailbox exKip.ip exKip.naming (ofAscii "JOE@[IPv6:abcd::1]") =
      mailboxOf parseIP .fullN (ofAscii "Joe@[IPv6:ABCD::1]") := ⟨rfl, by decide, by decide⟩

end Ibx.Props.C04ParseIP
