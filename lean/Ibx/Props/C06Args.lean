import Ibx.Lemmas.MailArgsSmtp
import Ibx.Props.C06
/-
  The MAIL-argument parsing of the SMTP server, inside the model.

  `Ibx.Model.MailArgs.mailRe` / `parseArgs` are hand-written recognisers for the two regular expressions of
  pkg/server/smtp/handler.go (their text is pinned by Tie.Smtp.fromRegex_tie / argsRegex_tie, their agreement with Go's
  regexp engine is checked on every run by harness/cmd/drive/c06_args.go).  This file proves what they compute
  (`Ibx.Spec.MailArgs` is the specification) and then INSTANTIATES the session model with them: for every environment whose
  `mailRe` / `parseArgs` are the concrete functions (`Concrete e`), statements about command lines as bytes.
-/
namespace Ibx.Props.C06Args
open Ibx Ibx.Bytes Ibx.Model Ibx.Model.Smtp Ibx.Model.MailArgs Ibx.Spec.MailArgs
open Ibx.Lemmas.Smtp Ibx.Lemmas.MailArgs Ibx.Lemmas.MailArgsSmtp Ibx.Lemmas.SmtpEx

/-! ### fromRegex -/

/-- SPEC of the match.  `mailRe arg` reports the submatches `(addr, params)` exactly when `arg` reads as
    `FROM:` (either case) · white space · `<` addr `>` params — addr a sequence of `\>`, bytes other than '>' and quoted
    strings `"…"@x`, params empty or a space and parameter tokens — and no other such reading has a longer address. -/
theorem mailRe_spec (arg addr params : Bytes) : mailRe arg = some (addr, params) ↔ MailMatch arg addr params :=
  mailRe_iff arg addr params

/-- no match (Go: `nil`, the session answers 501) exactly when `arg` cannot be read that way at all -/
theorem mailRe_no_match (arg : Bytes) : mailRe arg = none ↔ ¬ ∃ addr params, Decomp arg addr params :=
  mailRe_none_iff arg

/-- the decomposition behind a match, spelled out: the argument IS the five bytes, white space, '<', group 1, '>', group 2 -/
theorem mailRe_decomposes (arg addr params : Bytes) (h : mailRe arg = some (addr, params)) :
    ∃ pre ws, arg = pre ++ ws ++ 60 :: (addr ++ 62 :: params) ∧ lower pre = ofAscii "from:" ∧
      (∀ c ∈ ws, c = 9 ∨ c = 10 ∨ c = 12 ∨ c = 13 ∨ c = 32) ∧ AddrToks addr ∧ ParamTail params := by
  obtain ⟨pre, ws, harg, hpre, hws, ha, hp⟩ := ((mailRe_iff _ _ _).1 h).1
  refine ⟨pre, ws, harg, hpre, ?_, ha, hp⟩
  intro c hc
  have := hws c hc
  simp only [isWs, Bool.or_eq_true, beq_iff_eq] at this
  omega

/-- group 2 never holds a '"', group 1 never ends the match early: behind the '>' that closes group 1 there is nothing or a
    space (so `m[2] != ""` in parseMailFromCmd means "begins with a space") -/
theorem mailRe_params_shape (arg addr params : Bytes) (h : mailRe arg = some (addr, params)) :
    (params = [] ∨ ∃ t, params = 32 :: t ∧ t ≠ []) ∧ 34 ∉ params := by
  obtain ⟨_, _, _, _, _, _, hp⟩ := ((mailRe_iff _ _ _).1 h).1
  refine ⟨?_, paramTail_no34 hp⟩
  rcases hp with rfl | ⟨t, rfl, ht, _⟩
  · exact .inl rfl
  · exact .inr ⟨t, rfl, ht⟩

/-- when the reading is unambiguous the engine has no choice: an address that does not end in a backslash -/
theorem mailRe_unique_no_backslash (arg addr params : Bytes) (hd : Decomp arg addr params)
    (hb : addr.getLast? ≠ some 92) : mailRe arg = some (addr, params) :=
  mailRe_of_decomp_nobs hd hb

/-- … or parameters without `=<>` -/
theorem mailRe_unique_no_angle (arg addr params : Bytes) (hd : Decomp arg addr params) (hp : 62 ∉ params) :
    mailRe arg = some (addr, params) :=
  mailRe_of_decomp hd hp

/-- every address without '>' is accepted as group 1 (the expression does not look at the address syntax) -/
theorem mailRe_any_address (a : Bytes) (h : 62 ∉ a) : mailRe (ofAscii "FROM:<" ++ a ++ [62]) = some (a, []) :=
  mailRe_plain a [] (addrToks_of_no_gt h) (.inl rfl) (by simp)

/-- COUNTER-WITNESS to "the first '>' ends the address": `FROM:<a\> X=<>` has two readings — address `a\` with the
    parameter ` X=<>`, and address `a\> X=<` without parameters — and the engine reports the second (it prefers the
    quoted pair `\>`), so the parameter is swallowed by the address. -/
theorem two_readings :
    Decomp (ofAscii "FROM:<a\\> X=<>") (ofAscii "a\\") (ofAscii " X=<>") ∧
    Decomp (ofAscii "FROM:<a\\> X=<>") (ofAscii "a\\> X=<") [] ∧
    mailRe (ofAscii "FROM:<a\\> X=<>") = some (ofAscii "a\\> X=<", []) := by
  refine ⟨?_, ?_, by decide⟩
  · exact ⟨ofAscii "FROM:", [], by decide, by unfold IsFrom; decide, by intro c h; simp at h,
      .plain (by decide) (.plain (by decide) .nil),
      .inr ⟨ofAscii "X=<>", by decide, by decide, .one (by decide) (.angle .nil)⟩⟩
  · exact ⟨ofAscii "FROM:", [], by decide, by unfold IsFrom; decide, by intro c h; simp at h,
      .plain (by decide) (.esc (.plain (by decide) (.plain (by decide) (.plain (by decide) (.plain (by decide) .nil))))),
      .inl rfl⟩

/-- a '>' inside a quoted string does not end the address; outside it does (and then the rest is not a parameter tail) -/
example : mailRe (ofAscii "FROM:<\"x>y\"@z>") = some (ofAscii "\"x>y\"@z", []) := by decide
example : mailRe (ofAscii "FROM:<x>y@z>") = none := by decide
/-- case of FROM, white space before '<' (TAB, LF, FF, CR, space — not VT), several parameters, `=<>` -/
example : mailRe (ofAscii "fRoM: \t\r<a@b> AUTH=<> SIZE=10") = some (ofAscii "a@b", ofAscii " AUTH=<> SIZE=10") := by
  decide
example : mailRe ([70, 82, 79, 77, 58, 11] ++ ofAscii "<a@b>") = none := by decide
/-- `(?i)` makes `\w` match U+017F and U+212A inside the parameters (Go folds the class): ` SIZE=1ſ` is a parameter tail -/
example : mailRe (ofAscii "FROM:<a> SIZE=1" ++ [197, 191]) = some (ofAscii "a", ofAscii " SIZE=1" ++ [197, 191]) := by
  decide
example : mailRe (ofAscii "FROM:<a> SIZE=1" ++ [226, 132, 170]) = some (ofAscii "a", ofAscii " SIZE=1" ++ [226, 132, 170]) := by
  decide
/-- … but not a lone byte of them (U+FFFD), not a '-', not a trailing space alone -/
example : mailRe (ofAscii "FROM:<a> SIZE=1" ++ [197]) = none := by decide
example : mailRe (ofAscii "FROM:<a> RET=a-b") = none := by decide
example : mailRe (ofAscii "FROM:<a> ") = none := by decide
example : mailRe (ofAscii "FROM:<>") = some ([], []) := by decide

/-! ### parseArgs -/

/-- SPEC of the pairs: the text is gap · ` key=value` · gap · ` key=value` · … · gap, no pair begins inside a gap, keys are
    `\w+`, values `\w+` (the whole run of word bytes) or `<>`; `none` (Go: `ok == false`) exactly when there is no pair. -/
theorem parseArgs_spec (p : Bytes) (ps : List (Bytes × Bytes)) :
    MailArgs.parseArgs p = some ps ↔ ps ≠ [] ∧ ArgsDecomp p ps := by
  unfold MailArgs.parseArgs
  constructor
  · intro h
    split at h
    · simp at h
    · rename_i hne
      simp only [Option.some.injEq] at h
      subst h
      exact ⟨fun h => hne h, (pairsOf_iff _ _).1 rfl⟩
  · rintro ⟨hne, hd⟩
    rw [(pairsOf_iff _ _).2 hd]
    cases ps with
    | nil => exact absurd rfl hne
    | cons a t => rfl

/-- `none` iff no pair ` key=value` (key a word, value a word or `<>`) occurs anywhere in the text -/
theorem parseArgs_none_iff (p : Bytes) : MailArgs.parseArgs p = none ↔ ¬ PairIn p := by
  unfold MailArgs.parseArgs
  constructor
  · intro h
    split at h
    · rename_i hnil
      have := (pairsOf_iff _ _).1 hnil
      cases this with
      | done hg => exact hg
    · simp at h
  · intro h
    rw [(pairsOf_iff _ _).2 (.done h)]

/-- every pair: the key is a non-empty word, the value a non-empty word or `<>` -/
theorem parseArgs_wellformed (p : Bytes) (ps : List (Bytes × Bytes)) (h : MailArgs.parseArgs p = some ps) :
    ∀ kv ∈ ps, Word1 kv.1 ∧ (Word1 kv.2 ∨ kv.2 = [60, 62]) := by
  have hd := ((parseArgs_spec p ps).1 h).2
  clear h
  induction hd with
  | done _ => simp
  | pair _ hk hv _ ih =>
    intro kv hkv
    rcases List.mem_cons.1 hkv with rfl | hkv
    · exact ⟨hk, hv.elim (fun h => .inl h.1) .inr⟩
    · exact ih kv hkv

/-- pairs in the order of the text, keys as written (the session upper-cases them), `<>` only as a whole value,
    a key without value or a value with a '-' is no pair, a pair needs the space before it -/
example : MailArgs.parseArgs (ofAscii " BODY=8BITMIME size=10 AUTH=<> SIZE=20") =
    some [(ofAscii "BODY", ofAscii "8BITMIME"), (ofAscii "size", ofAscii "10"), (ofAscii "AUTH", ofAscii "<>"),
      (ofAscii "SIZE", ofAscii "20")] := by decide
example : MailArgs.parseArgs (ofAscii " A= B=-1 C=<") = none := by decide
example : MailArgs.parseArgs (ofAscii "A=1") = none := by decide
example : MailArgs.parseArgs (ofAscii " A=1B=2 =3") = some [(ofAscii "A", ofAscii "1B")] := by decide
/-- a value stops at U+017F (parseArgs has no `(?i)`): what fromRegex let through as part of a word is cut off here -/
example : MailArgs.parseArgs (ofAscii " SIZE=1" ++ [197, 191]) = some [(ofAscii "SIZE", ofAscii "1")] := by decide

/-! ### the session, with the concrete expressions: the SIZE parameter (C06) -/

/-- the key spells SIZE in some case: it is a word -/
theorem size_key_word (k : Bytes) (hk : upper k = ofAscii "SIZE") : Word1 k := by
  have hS : ofAscii "SIZE" = [83, 73, 90, 69] := by decide
  rw [hS] at hk
  rcases k with _ | ⟨a, _ | ⟨b, _ | ⟨c, _ | ⟨d, _ | ⟨x, t⟩⟩⟩⟩⟩ <;>
    simp only [upper, List.map_cons, List.map_nil, List.cons.injEq, and_true, reduceCtorEq, and_false] at hk
  obtain ⟨ha, hb, hc, hd⟩ := hk
  refine ⟨by simp, ?_⟩
  intro z hz
  simp only [List.mem_cons, List.not_mem_nil, or_false] at hz
  unfold upperB at ha hb hc hd
  simp only [isWord, isDigitB, isAlphaB, isLowerB, isUpperB, Bool.or_eq_true, Bool.and_eq_true, decide_eq_true_eq,
    beq_iff_eq]
  rcases hz with rfl | rfl | rfl | rfl
  · split at ha <;> omega
  · split at hb <;> omega
  · split at hc <;> omega
  · split at hd <;> omega

/-- the size check of MAIL on the parameter string ` SIZE=<digits>` (key in any case): 552 above the limit, 501 when the
    number does not fit 31 bits, nothing otherwise -/
theorem sizeCheck_single (e : Env) (hc : Concrete e) (k ds : Bytes) (hk : upper k = ofAscii "SIZE") (hd : Digits ds) :
    sizeCheck e (32 :: (k ++ 61 :: ds)) =
      if decVal ds ≤ 2147483647 then (if (decVal ds : Int) > e.maxBytes then some 552 else none) else some 501 := by
  have hpairs : pairsOf (32 :: (k ++ 61 :: (ds ++ []))) = [(k, ds)] := by
    rw [pairsOf_pair k ds [] (size_key_word k hk) (.inl ⟨digits_word hd, noWordAhead_nil⟩), pairsOf_nil]
  rw [List.append_nil] at hpairs
  have hargs : e.parseArgs (32 :: (k ++ 61 :: ds)) = some [(k, ds)] := by
    rw [hc.2]; exact parseArgs_of_pairs hpairs (by simp)
  have hsz : sizeArg [(k, ds)] = ds := by simp [sizeArg, hk]
  unfold sizeCheck
  simp only [List.isEmpty_cons, Bool.false_eq_true, if_false, hargs, hsz, List.isEmpty_eq_false_iff.2 hd.1,
    parseInt32_digits ds hd]
  by_cases h31 : decVal ds ≤ 2147483647
  · simp only [h31, if_true]
  · simp only [h31, if_false]

private theorem mailSyntax_refused (e : Env) (arg addr params : Bytes) (c : Nat)
    (h1 : e.mailRe arg = some (addr, params)) (h2 : sizeCheck e params = some c) : mailSyntax e arg = .inl c := by
  unfold mailSyntax
  rw [h1]
  simp only []
  rw [h2]

/-- C06, as bytes in: the argument `FROM:<a> SIZE=n` (SIZE in any case, `a` any group-1 text, `n` decimal) with `n` above
    the limit — any limit, 0 and negative included — is answered 552 and the session stays exactly where it was: same state,
    same envelope, nothing but the reply sent -/
theorem size_over_limit_552 (e : Env) (hc : Concrete e) (s : Sess) (line a k ds : Bytes) (acc : List Ev)
    (hs : s.st = .ready) (ha : AddrToks a) (hk : upper k = ofAscii "SIZE") (hd : Digits ds)
    (h31 : decVal ds ≤ 2147483647) (hbig : (decVal ds : Int) > e.maxBytes)
    (hp : parseCmd line = .cmd (ofAscii "MAIL") (ofAscii "FROM:<" ++ a ++ 62 :: 32 :: (k ++ 61 :: ds))) :
    handleLine e s line acc = (send s 1, .reply [552] :: acc) := by
  have hkw := size_key_word k hk
  have hre : e.mailRe (ofAscii "FROM:<" ++ a ++ 62 :: 32 :: (k ++ 61 :: ds)) = some (a, 32 :: (k ++ 61 :: ds)) := by
    rw [hc.1]
    refine mailRe_plain a _ ha (.inr ⟨_, rfl, by simp, ?_⟩) ?_
    · have := word1_param hkw.2 (.one (c := 61) (by decide) (word1_param (digits_word hd).2 .nil))
      simpa using this
    · simp only [List.mem_cons, List.mem_append, not_or]
      exact ⟨by decide, word_no62 hkw.2, by decide, digits_no62 hd⟩
  rw [handleLine_mail e s line _ acc hs hp, mailFrom_eq]
  have : mailSyntax e (ofAscii "FROM:<" ++ a ++ 62 :: 32 :: (k ++ 61 :: ds)) = .inl 552 :=
    mailSyntax_refused e _ _ _ _ hre (by rw [sizeCheck_single e hc k ds hk hd]; simp [h31, hbig])
  rw [this]
  rfl

/-- the same with the command line spelled out: `MAIL FROM:<a> SIZE=n` CRLF -/
theorem size_over_limit_552_line (e : Env) (hc : Concrete e) (s : Sess) (a ds : Bytes) (acc : List Ev)
    (hs : s.st = .ready) (ha : AddrToks a) (hd : Digits ds) (h31 : decVal ds ≤ 2147483647)
    (hbig : (decVal ds : Int) > e.maxBytes) :
    handleLine e s (ofAscii "MAIL FROM:<" ++ a ++ ofAscii "> SIZE=" ++ ds ++ ofAscii "\r\n") acc =
      (send s 1, .reply [552] :: acc) := by
  refine size_over_limit_552 e hc s _ a (ofAscii "SIZE") ds acc hs ha (by decide) hd h31 hbig ?_
  have hx : ofAscii "MAIL FROM:<" ++ a ++ ofAscii "> SIZE=" ++ ds ++ ofAscii "\r\n" =
      ofAscii "MAIL" ++ 32 :: (ofAscii "FROM:<" ++ a ++ 62 :: 32 :: (ofAscii "SIZE" ++ 61 :: ds)) ++ [13, 10] := by
    simp [ofAscii]
  rw [hx]
  refine parseCmd_mail _ (by intro z hz; simp [ofAscii] at hz; omega) (by simp [ofAscii]) ?_
  intro z hz
  have hlast : (ofAscii "FROM:<" ++ a ++ 62 :: 32 :: (ofAscii "SIZE" ++ 61 :: ds)).getLast? = ds.getLast? := by
    have : ofAscii "FROM:<" ++ a ++ 62 :: 32 :: (ofAscii "SIZE" ++ 61 :: ds) =
        (ofAscii "FROM:<" ++ a ++ 62 :: 32 :: (ofAscii "SIZE" ++ [61])) ++ ds := by simp
    rw [this, getLast?_append_ne _ _ hd.1]
  rw [hlast] at hz
  have := hd.2 z (List.mem_of_getLast? hz)
  simp only [isDigitB, Bool.and_eq_true, decide_eq_true_eq] at this
  omega

/-- a SIZE that does not fit 31 bits is a syntax error (501), whatever the limit; the session stays where it was -/
theorem size_beyond_int32_501 (e : Env) (hc : Concrete e) (s : Sess) (line a k ds : Bytes) (acc : List Ev)
    (hs : s.st = .ready) (ha : AddrToks a) (hk : upper k = ofAscii "SIZE") (hd : Digits ds)
    (h31 : decVal ds > 2147483647)
    (hp : parseCmd line = .cmd (ofAscii "MAIL") (ofAscii "FROM:<" ++ a ++ 62 :: 32 :: (k ++ 61 :: ds))) :
    handleLine e s line acc = (send s 1, .reply [501] :: acc) := by
  have hkw := size_key_word k hk
  have hre : e.mailRe (ofAscii "FROM:<" ++ a ++ 62 :: 32 :: (k ++ 61 :: ds)) = some (a, 32 :: (k ++ 61 :: ds)) := by
    rw [hc.1]
    refine mailRe_plain a _ ha (.inr ⟨_, rfl, by simp, ?_⟩) ?_
    · have := word1_param hkw.2 (.one (c := 61) (by decide) (word1_param (digits_word hd).2 .nil))
      simpa using this
    · simp only [List.mem_cons, List.mem_append, not_or]
      exact ⟨by decide, word_no62 hkw.2, by decide, digits_no62 hd⟩
  rw [handleLine_mail e s line _ acc hs hp, mailFrom_eq]
  have h31' : ¬ decVal ds ≤ 2147483647 := by omega
  have : mailSyntax e (ofAscii "FROM:<" ++ a ++ 62 :: 32 :: (k ++ 61 :: ds)) = .inl 501 :=
    mailSyntax_refused e _ _ _ _ hre (by rw [sizeCheck_single e hc k ds hk hd]; simp [h31'])
  rw [this]
  rfl

/-! ### parameters that change nothing -/

/-- Whatever the parameters are: when they carry no SIZE (no key that upper-cases to SIZE, or an empty value is impossible),
    the MAIL command is handled exactly like `MAIL FROM:<addr>` with the address the engine captured — same replies, same
    resulting session (hooks and policy included: they see the address only). -/
theorem params_without_size_ignored (e : Env) (hc : Concrete e) (s : Sess) (arg addr params : Bytes)
    (pairs : List (Bytes × Bytes)) (acc : List Ev) (hre : MailArgs.mailRe arg = some (addr, params))
    (hargs : MailArgs.parseArgs params = some pairs) (hno : sizeArg pairs = []) :
    mailFrom e s arg acc = mailFrom e s (ofAscii "FROM:<" ++ addr ++ [62]) acc := by
  have haddr : AddrToks addr := by
    obtain ⟨_, _, _, _, _, ha, _⟩ := ((mailRe_iff _ _ _).1 hre).1
    exact ha
  refine mailFrom_congr e s _ _ addr params [] acc (by rw [hc.1]; exact hre)
    (by rw [hc.1]; exact mailRe_plain addr [] haddr (.inl rfl) (by simp)) ?_
  have h2 : sizeCheck e [] = none := by simp [sizeCheck]
  rw [h2]
  unfold sizeCheck
  rw [hc.2, hargs]
  simp [hno]

/-- `AUTH=<>` and `BODY=8BITMIME` are accepted and ignored: for every address text that does not end in a backslash,
    `MAIL FROM:<a> AUTH=<> BODY=8BITMIME` is handled exactly like `MAIL FROM:<a>` -/
theorem auth_body_ignored (e : Env) (hc : Concrete e) (s : Sess) (a : Bytes) (acc : List Ev)
    (ha : AddrToks a) (hb : a.getLast? ≠ some 92) :
    mailFrom e s (ofAscii "FROM:<" ++ a ++ ofAscii "> AUTH=<> BODY=8BITMIME") acc =
      mailFrom e s (ofAscii "FROM:<" ++ a ++ [62]) acc := by
  have hre : MailArgs.mailRe (ofAscii "FROM:<" ++ a ++ ofAscii "> AUTH=<> BODY=8BITMIME") =
      some (a, ofAscii " AUTH=<> BODY=8BITMIME") := by
    refine mailRe_of_decomp_nobs ?_ hb
    have hpt : ParamTail (ofAscii " AUTH=<> BODY=8BITMIME") := by
      refine .inr ⟨ofAscii "AUTH=<> BODY=8BITMIME", by decide, by decide, ?_⟩
      have h1 : ParamToks (ofAscii " BODY=8BITMIME") :=
        pair_param (k := ofAscii "BODY") (v := ofAscii "8BITMIME") (by decide) (by decide) .nil
      have h2 : ParamToks (ofAscii "AUTH" ++ 61 :: 60 :: 62 :: ofAscii " BODY=8BITMIME") :=
        word1_param (w := ofAscii "AUTH") (by decide) (.angle h1)
      exact h2
    have := decomp_plain a _ ha hpt
    have heq : ofAscii "FROM:<" ++ a ++ 62 :: ofAscii " AUTH=<> BODY=8BITMIME" =
        ofAscii "FROM:<" ++ a ++ ofAscii "> AUTH=<> BODY=8BITMIME" := by simp [ofAscii]
    rw [heq] at this
    exact this
  exact params_without_size_ignored e hc s _ a _
    [(ofAscii "AUTH", ofAscii "<>"), (ofAscii "BODY", ofAscii "8BITMIME")] acc hre (by decide) (by decide)

/-- COUNTER-WITNESS for the guard: behind an address that ends in a backslash the engine reads `\>` as a quoted pair and
    the address runs on to the '>' of `AUTH=<>` -/
theorem auth_swallowed_after_backslash :
    MailArgs.mailRe (ofAscii "FROM:<x\\> AUTH=<> BODY=8BITMIME") =
      some (ofAscii "x\\> AUTH=<", ofAscii " BODY=8BITMIME") := by decide

/-- a SIZE within the limit (and within 31 bits) is accepted and ignored as well -/
theorem size_within_limit_ignored (e : Env) (hc : Concrete e) (s : Sess) (a k ds : Bytes) (acc : List Ev)
    (ha : AddrToks a) (hk : upper k = ofAscii "SIZE") (hd : Digits ds) (hfit : (decVal ds : Int) ≤ e.maxBytes)
    (h31 : decVal ds ≤ 2147483647) :
    mailFrom e s (ofAscii "FROM:<" ++ a ++ 62 :: 32 :: (k ++ 61 :: ds)) acc =
      mailFrom e s (ofAscii "FROM:<" ++ a ++ [62]) acc := by
  have hkw := size_key_word k hk
  have hre : e.mailRe (ofAscii "FROM:<" ++ a ++ 62 :: 32 :: (k ++ 61 :: ds)) = some (a, 32 :: (k ++ 61 :: ds)) := by
    rw [hc.1]
    refine mailRe_plain a _ ha (.inr ⟨_, rfl, by simp, ?_⟩) ?_
    · have := word1_param hkw.2 (.one (c := 61) (by decide) (word1_param (digits_word hd).2 .nil))
      simpa using this
    · simp only [List.mem_cons, List.mem_append, not_or]
      exact ⟨by decide, word_no62 hkw.2, by decide, digits_no62 hd⟩
  refine mailFrom_congr e s _ _ a _ [] acc hre
    (by rw [hc.1]; exact mailRe_plain a [] ha (.inl rfl) (by simp)) ?_
  rw [sizeCheck_single e hc k ds hk hd]
  have : ¬ (decVal ds : Int) > e.maxBytes := by omega
  simp [h31, this, sizeCheck]

/-! ### a later SIZE overrides an earlier one -/

/-- Two SIZE parameters (keys in any case; the first value any word, a number or not): only the LAST one is looked at —
    the size check is that of ` SIZE=<second>` alone.  (`args[strings.ToUpper(key)] = value` in a loop.) -/
theorem later_size_overrides (e : Env) (hc : Concrete e) (k1 v1 k2 ds : Bytes) (hk1 : upper k1 = ofAscii "SIZE")
    (hv1 : Word1 v1) (hk2 : upper k2 = ofAscii "SIZE") (hd : Digits ds) :
    sizeCheck e (32 :: (k1 ++ 61 :: (v1 ++ 32 :: (k2 ++ 61 :: ds)))) = sizeCheck e (32 :: (k2 ++ 61 :: ds)) := by
  have hp2 : pairsOf (32 :: (k2 ++ 61 :: (ds ++ []))) = [(k2, ds)] := by
    rw [pairsOf_pair k2 ds [] (size_key_word k2 hk2) (.inl ⟨digits_word hd, noWordAhead_nil⟩), pairsOf_nil]
  rw [List.append_nil] at hp2
  have hp1 : pairsOf (32 :: (k1 ++ 61 :: (v1 ++ 32 :: (k2 ++ 61 :: ds)))) = [(k1, v1), (k2, ds)] := by
    rw [pairsOf_pair k1 v1 _ (size_key_word k1 hk1) (.inl ⟨hv1, noWordAhead_space _⟩), hp2]
  have ha1 : e.parseArgs (32 :: (k1 ++ 61 :: (v1 ++ 32 :: (k2 ++ 61 :: ds)))) = some [(k1, v1), (k2, ds)] := by
    rw [hc.2]; exact parseArgs_of_pairs hp1 (by simp)
  have ha2 : e.parseArgs (32 :: (k2 ++ 61 :: ds)) = some [(k2, ds)] := by
    rw [hc.2]; exact parseArgs_of_pairs hp2 (by simp)
  have hs1 : sizeArg [(k1, v1), (k2, ds)] = ds := by simp [sizeArg, hk2]
  have hs2 : sizeArg [(k2, ds)] = ds := by simp [sizeArg, hk2]
  unfold sizeCheck
  simp only [List.isEmpty_cons, Bool.false_eq_true, if_false, ha1, ha2, hs1, hs2]

/-- and so does the whole command: `MAIL FROM:<a> SIZE=v1 SIZE=n` is handled like `MAIL FROM:<a> SIZE=n` -/
theorem later_size_overrides_mail (e : Env) (hc : Concrete e) (s : Sess) (a k1 v1 k2 ds : Bytes) (acc : List Ev)
    (ha : AddrToks a) (hk1 : upper k1 = ofAscii "SIZE") (hv1 : Word1 v1) (hk2 : upper k2 = ofAscii "SIZE")
    (hd : Digits ds) :
    mailFrom e s (ofAscii "FROM:<" ++ a ++ 62 :: 32 :: (k1 ++ 61 :: (v1 ++ 32 :: (k2 ++ 61 :: ds)))) acc =
      mailFrom e s (ofAscii "FROM:<" ++ a ++ 62 :: 32 :: (k2 ++ 61 :: ds)) acc := by
  have hk1w := size_key_word k1 hk1
  have hk2w := size_key_word k2 hk2
  have ht2 : ParamToks (k2 ++ 61 :: ds) := by
    have := word1_param hk2w.2 (.one (c := 61) (by decide) (word1_param (digits_word hd).2 .nil))
    simpa using this
  have hno2 : 62 ∉ 32 :: (k2 ++ 61 :: ds) := by
    simp only [List.mem_cons, List.mem_append, not_or]
    exact ⟨by decide, word_no62 hk2w.2, by decide, digits_no62 hd⟩
  have hre2 : e.mailRe (ofAscii "FROM:<" ++ a ++ 62 :: 32 :: (k2 ++ 61 :: ds)) = some (a, 32 :: (k2 ++ 61 :: ds)) := by
    rw [hc.1]
    exact mailRe_plain a _ ha (.inr ⟨_, rfl, by simp, ht2⟩) hno2
  have hre1 : e.mailRe (ofAscii "FROM:<" ++ a ++ 62 :: 32 :: (k1 ++ 61 :: (v1 ++ 32 :: (k2 ++ 61 :: ds)))) =
      some (a, 32 :: (k1 ++ 61 :: (v1 ++ 32 :: (k2 ++ 61 :: ds)))) := by
    rw [hc.1]
    refine mailRe_plain a _ ha (.inr ⟨_, rfl, by simp, ?_⟩) ?_
    · exact word1_param hk1w.2 (.one (c := 61) (by decide) (word1_param hv1.2 (.one (c := 32) (by decide) ht2)))
    · simp only [List.mem_cons, List.mem_append, not_or] at hno2 ⊢
      exact ⟨by decide, word_no62 hk1w.2, by decide, word_no62 hv1.2, hno2⟩
  exact mailFrom_congr e s _ _ a _ _ acc hre1 hre2 (later_size_overrides e hc k1 v1 k2 ds hk1 hv1 hk2 hd)

/-! ### non-vacuity: a concrete environment with the concrete expressions -/

/-- `exEnvC` (Lemmas.MailArgsSmtp): `exEnv` — limit 20 bytes — with the real recognisers in place of its stand-ins -/
example : Concrete exEnvC := exEnvC_concrete

example : Digits (ofAscii "21") ∧ decVal (ofAscii "21") = 21 := by
  refine ⟨⟨by decide, by decide⟩, by decide⟩
/-- limit 20: SIZE=21 is refused with 552 and the session stays READY with an empty envelope; SIZE=20 goes on to 250;
    `size=21` in lower case is refused too; SIZE=99999999999 (not an int32) and SIZE=2x are syntax errors -/
example : (handleLine exEnvC exReady (ofAscii "MAIL FROM:<a@b.org> SIZE=21\r\n") []).2 = [.reply [552]] ∧
    (handleLine exEnvC exReady (ofAscii "MAIL FROM:<a@b.org> SIZE=21\r\n") []).1.st = .ready ∧
    (handleLine exEnvC exReady (ofAscii "MAIL FROM:<a@b.org> SIZE=21\r\n") []).1.sender = none := by decide
example : (handleLine exEnvC exReady (ofAscii "MAIL FROM:<a@b.org> SIZE=20\r\n") []).2 = [.reply [250]] ∧
    (handleLine exEnvC exReady (ofAscii "MAIL FROM:<a@b.org> SIZE=20\r\n") []).1.st = .mail := by decide
example : (handleLine exEnvC exReady (ofAscii "mail from:<a@b.org> size=21\r\n") []).2 = [.reply [552]] := by decide
example : (handleLine exEnvC exReady (ofAscii "MAIL FROM:<a@b.org> SIZE=99999999999\r\n") []).2 = [.reply [501]] := by
  decide
example : (handleLine exEnvC exReady (ofAscii "MAIL FROM:<a@b.org> SIZE=2x\r\n") []).2 = [.reply [501]] := by decide
/-- the last SIZE counts, in both directions -/
example : (handleLine exEnvC exReady (ofAscii "MAIL FROM:<a@b.org> SIZE=5 SIZE=21\r\n") []).2 = [.reply [552]] := by decide
example : (handleLine exEnvC exReady (ofAscii "MAIL FROM:<a@b.org> SIZE=21 size=5\r\n") []).2 = [.reply [250]] := by decide
/-- AUTH=<> and BODY=8BITMIME change nothing -/
example : (handleLine exEnvC exReady (ofAscii "MAIL FROM:<a@b.org> AUTH=<> BODY=8BITMIME\r\n") []).2 = [.reply [250]] ∧
    (handleLine exEnvC exReady (ofAscii "MAIL FROM:<a@b.org> AUTH=<> BODY=8BITMIME\r\n") []).1.sender =
      (handleLine exEnvC exReady (ofAscii "MAIL FROM:<a@b.org>\r\n") []).1.sender := by decide
-- a whole connection: the refused MAIL leaves the session usable, the next MAIL opens the transaction that is stored
set_option maxRecDepth 8000 in
example : ((run exEnvC none (ofAscii "HELO a\r\nMAIL FROM:<a@b.org> SIZE=21\r\nMAIL FROM:<a@b.org> SIZE=2\r\nRCPT TO:<u@x.org>\r\nDATA\r\nhi\r\n.\r\n")).1.map
    (fun ev => match ev with | .reply c => c | .stored _ => [1] | _ => [])) = [[220], [250], [552], [250], [250], [354], [1], [250]] := by
  decide

end Ibx.Props.C06Args
