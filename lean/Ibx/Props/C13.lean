import Ibx.Model.Pop3
import Ibx.Lemmas.Pop3
/-
  C13 — a POP3 session is a stable snapshot whose deletions commit only on QUIT.
  Theorems over ALL command sequences, all store contents at login, all store histories afterwards and every way
  the connection can end (EOF, unterminated last line, read error / idle timeout, reply that cannot be written),
  about the executable model Ibx.Model.Pop3 of pkg/server/pop3/handler.go.
  Only property theorems, their non-vacuity examples and counter-witnesses live here.
-/
namespace Ibx.Props.C13
open Ibx Ibx.Model.Pop3 Ibx.Lemmas.Pop3

/-! ### reachable session states -/

/-- `s` is reached from `s0` by command-loop iterations — with ANY line and ANY store content at each iteration -/
inductive ReachFrom (s0 : St) : St → Prop
  | refl : ReachFrom s0 s0
  | step {s s' : St} {store : Bytes → List Msg} {line : Bytes} {r : Reply} {rm : List Bytes} :
      ReachFrom s0 s → s.phase ≠ .quit → step store s line = .ok s' r rm → ReachFrom s0 s'

/-- a state `NewSession` creates: any configuration (TLS off, STLS available, ForceTLS; `tlsState` per server or per
    session), any value of the server's `tlsState` -/
def Fresh (s0 : St) : Prop := ∃ c srv, s0 = St.start c srv

theorem fresh_init : Fresh St.init := ⟨{}, false, by decide⟩

/-- the states a session can be in: reachable from `NewSession` on any server -/
abbrev Reach (s : St) : Prop := ∃ s0, Fresh s0 ∧ ReachFrom s0 s

private theorem reachFrom_inv {s0 s : St} (h0 : Inv s0) (h : ReachFrom s0 s) : Inv s := by
  induction h with
  | refl => exact h0
  | step _ hq hs ih =>
    obtain ⟨s', r, rm, hs', post⟩ := step_ok _ _ ih hq _
    rw [hs] at hs'
    cases hs'
    exact post_inv post

theorem inv_fresh {s0 : St} (h : Fresh s0) : Inv s0 := by
  obtain ⟨c, srv, rfl⟩ := h
  simp [Ibx.Lemmas.Pop3.Inv, St.start, St.init]

private theorem reach_inv {s : St} (h : Reach s) : Inv s := by
  obtain ⟨s0, h0, h⟩ := h
  exact reachFrom_inv (inv_fresh h0) h

private theorem reachFrom_head {s s' sq : St} {store : Bytes → List Msg} {line : Bytes} {r : Reply} {rm : List Bytes}
    (hq : s.phase ≠ .quit) (hs : step store s line = .ok s' r rm) (h : ReachFrom s' sq) : ReachFrom s sq := by
  induction h with
  | refl => exact .step .refl hq hs
  | step _ hq' hs' ih => exact .step ih hq' hs'

/-! ### the example used for non-vacuity: a mailbox with two messages, the second one dot-heavy -/

def exMsgs : List Msg :=
  [{ id := [49], size := 12, src := [65, 58, 32, 49, 13, 10, 13, 10, 104, 105, 13, 10] },   -- "A: 1\r\n\r\nhi\r\n"
   { id := [50], size := 6, src := [46, 10, 46, 46, 120, 10] }]                              -- ".\n..x\n"
def exStore : Bytes → List Msg := fun u => if u = [98, 111, 120] then exMsgs else []          -- mailbox "box"
def cUSER : Bytes := [85, 83, 69, 82, 32, 98, 111, 120, 13, 10]   -- "USER box\r\n"
def cPASS : Bytes := [80, 65, 83, 83, 32, 120, 13, 10]            -- "PASS x\r\n"
def cDELE1 : Bytes := [68, 69, 76, 69, 32, 49, 13, 10]            -- "DELE 1\r\n"
def cDELE2 : Bytes := [68, 69, 76, 69, 32, 50, 13, 10]            -- "DELE 2\r\n"
def cQUIT : Bytes := kQUIT ++ [13, 10]
def cLIST : Bytes := kLIST ++ [13, 10]
def ev (l : Bytes) : Ev := { store := exStore, line := l, sendOk := true }
/-- the state after `USER box`, `PASS x`, `DELE 2` -/
def exSt : St := { phase := .trans, user := [98, 111, 120], msgs := exMsgs, retain := [true, false], msgCount := 1 }

/-- the states after `USER box` and after `PASS x` -/
def exS1 : St := { St.init with user := [98, 111, 120] }
def exS2 : St := { exSt with retain := [true, true], msgCount := 2 }

private theorem exStep1 : step exStore St.init cUSER = .ok exS1 .ok [] := by decide
private theorem exStep2 : step exStore exS1 cPASS = .ok exS2 (.okLogin 2) [] := by decide
private theorem exStep3 : step exStore exS2 cDELE2 = .ok exSt (.okDele 2) [] := by decide
private theorem exStepQuit : step exStore exSt cQUIT = .ok { exSt with phase := .quit } .ok [[50]] := by decide

private theorem exS1_rf : ReachFrom St.init exS1 := .step .refl (by decide) exStep1
private theorem exS2_rf : ReachFrom St.init exS2 := .step exS1_rf (by decide) exStep2
private theorem exSt_rf : ReachFrom St.init exSt := .step exS2_rf (by decide) exStep3
private theorem exS1_reach : Reach exS1 := ⟨_, fresh_init, exS1_rf⟩
private theorem exS2_reach : Reach exS2 := ⟨_, fresh_init, exS2_rf⟩
private theorem exSt_reach : Reach exSt := ⟨_, fresh_init, exSt_rf⟩

/-! ### count_inv, retain length -/

/-- `msgCount` equals the number of `true` flags in `retain`, in every reachable state -/
theorem count_inv {s : St} (h : Reach s) : s.msgCount = ((s.retain.count true : Nat) : Int) := (reach_inv h).2

/-- `retain` has exactly one flag per snapshot message, in every reachable state -/
theorem retain_length {s : St} (h : Reach s) : s.retain.length = s.msgs.length := (reach_inv h).1

example : exSt.msgCount = ((exSt.retain.count true : Nat) : Int) ∧ exSt.retain.length = exSt.msgs.length :=
  ⟨count_inv exSt_reach, retain_length exSt_reach⟩

/-! ### total / no panic -/

/-- `words[0]` in `parseCmd` is always in range -/
theorem parseCmd_total (line : Bytes) : parseCmd line ≠ none := by
  obtain ⟨c, a, h⟩ := parseCmd_isSome line
  simp [h]

/-- In every reachable state that has not quit, every input line whatsoever is answered by exactly one reply and a
    next state: no index expression (`words[0]`, `args[0]`, `args[1]`, `s.retain[i]`, `s.retain[msgNum-1]`,
    `s.messages[msgNum-1]`) is out of range (`panic`), and the "unexpected state" exit is never taken. -/
theorem total {s : St} (h : Reach s) (hq : s.phase ≠ .quit) (store : Bytes → List Msg) (line : Bytes) :
    ∃ s' r rm, step store s line = .ok s' r rm := by
  obtain ⟨s', r, rm, hs, _⟩ := step_ok store s (reach_inv h) hq line
  exact ⟨s', r, rm, hs⟩

theorem no_panic {s : St} (h : Reach s) (hq : s.phase ≠ .quit) (store : Bytes → List Msg) (line : Bytes) :
    step store s line ≠ .panic ∧ step store s line ≠ .badState := by
  obtain ⟨s', r, rm, hs⟩ := total h hq store line
  simp [hs]

example : ∃ s' r rm, step exStore exSt ([68, 69, 76, 69, 32] ++ List.replicate 11 57 ++ [13, 10]) = .ok s' r rm := total exSt_reach (by decide) _ _

example : parseCmd [] ≠ none ∧ parseCmd [32, 32, 10] ≠ none := ⟨parseCmd_total _, parseCmd_total _⟩
example : step exStore exSt ([68, 69, 76, 69, 32] ++ List.replicate 11 57 ++ [13, 10]) ≠ .panic :=
  (no_panic exSt_reach (by decide) _ _).1

private theorem run_ending (term : Term) (s : St) (h : Inv s) (evs : List Ev) :
    (run term s evs).ending ≠ .panic ∧ (run term s evs).ending ≠ .badState ∧ (run term s evs).ending ≠ .tlsFail := by
  induction evs generalizing s with
  | nil =>
    unfold run
    split
    · simp
    · cases term <;> simp
  | cons e evs ih =>
    unfold run
    split
    · simp
    · rename_i hq
      obtain ⟨s', r, rm, hs, post⟩ := step_ok e.store s h hq e.line
      simp only [hs]
      split
      · exact ih s' (post_inv post)
      · simp

/-- no whole session — any number of lines, any store history, any ending — ends in a panic -/
theorem session_never_panics (term : Term) (evs : List Ev) :
    (session term evs).ending ≠ .panic ∧ (session term evs).ending ≠ .badState :=
  ⟨(run_ending term St.init inv_init evs).1, (run_ending term St.init inv_init evs).2.1⟩

/-- the command loop from ANY state satisfying the invariant (any configuration, TLS active or not) ends by QUIT, EOF, a
    read error or a send error — never by a panic, the "unexpected state" exit or a failed handshake (the last one is
    an outcome of `sessionWire` only) -/
theorem loop_endings (term : Term) (s : St) (h : Inv s) (evs : List Ev) :
    (run term s evs).ending ≠ .panic ∧ (run term s evs).ending ≠ .badState ∧ (run term s evs).ending ≠ .tlsFail :=
  run_ending term s h evs

example : (session .readError [ev cUSER, ev [255, 0, 10], ev cPASS, ev cDELE1, ev cDELE1]).ending = .readError := by decide

/-! ### STAT, LIST and UIDL agree -/

/-- `retained s`: the (message number, message) pairs STAT / LIST / UIDL range over.  The number is the snapshot
    index + 1, the entry is there iff the message is not marked, and numbers are strictly increasing. -/
theorem mem_retained_iff (s : St) (n : Nat) (m : Msg) :
    (n, m) ∈ retained s ↔ 1 ≤ n ∧ s.msgs[n - 1]? = some m ∧ s.retain[n - 1]? = some true :=
  mem_retained s n m

theorem retained_sorted (s : St) : ((retained s).map (·.1)).Pairwise (· < ·) :=
  sel_fst_sorted s.retain true (fun m => m) s.msgs 0

example : (1, exMsgs[0]) ∈ retained exSt ∧ (retained exSt).map (·.1) = [1] := by decide
example : ((retained exS2).map (·.1)).Pairwise (· < ·) ∧ (retained exS2).map (·.1) = [1, 2] :=
  ⟨retained_sorted exS2, by decide⟩

/-- In every reachable state STAT, LIST and UIDL (without argument) all succeed, leave the state unchanged, and
    STAT's count and size are the number of, and the sum of the sizes over, exactly the entries LIST prints;
    LIST and UIDL print the same message numbers (the snapshot indices of the unmarked messages) with the
    snapshot's sizes / ids; both announce exactly as many entries as they print. -/
theorem stat_list_uidl_agree {s : St} (h : Reach s) :
    transH s .stat [] = .ok s (.okStat (retained s).length ((retained s).map (·.2.size)).sum) [] ∧
    transH s .list [] = .ok s (.okList ((retained s).length : Int) ((retained s).map fun e => (e.1, e.2.size))) [] ∧
    transH s .uidl [] = .ok s (.okUidl ((retained s).length : Int) ((retained s).map fun e => (e.1, e.2.id))) [] := by
  have hi := reach_inv h
  have hl := retained_length s hi
  refine ⟨?_, ?_, ?_⟩
  · simpa [transH] using cmdStat_eq s hi
  · simpa [transH, hl] using cmdList_nil s hi
  · simpa [transH, hl] using cmdUidl_nil s hi

/-- the same on the wire: the lines `STAT`, `LIST`, `UIDL` in TRANSACTION are these three commands -/
theorem wire_stat_list_uidl (store : Bytes → List Msg) (s : St) (ht : s.phase = .trans) :
    step store s (kSTAT ++ [13, 10]) = transH s .stat [] ∧
    step store s (kLIST ++ [13, 10]) = transH s .list [] ∧
    step store s (kUIDL ++ [13, 10]) = transH s .uidl [] := by
  have p1 : parseCmd (kSTAT ++ [13, 10]) = some (kSTAT, []) := by decide
  have p2 : parseCmd (kLIST ++ [13, 10]) = some (kLIST, []) := by decide
  have p3 : parseCmd (kUIDL ++ [13, 10]) = some (kUIDL, []) := by decide
  have c1 : kSTAT ≠ kCAPA ∧ kSTAT ≠ [] ∧ verbOf kSTAT = some .stat := by decide
  have c2 : kLIST ≠ kCAPA ∧ kLIST ≠ [] ∧ verbOf kLIST = some .list := by decide
  have c3 : kUIDL ≠ kCAPA ∧ kUIDL ≠ [] ∧ verbOf kUIDL = some .uidl := by decide
  refine ⟨?_, ?_, ?_⟩
  · unfold step; rw [p1]; simp only [if_neg c1.1, if_neg c1.2.1, c1.2.2, ht]
  · unfold step; rw [p2]; simp only [if_neg c2.1, if_neg c2.2.1, c2.2.2, ht]
  · unfold step; rw [p3]; simp only [if_neg c3.1, if_neg c3.2.1, c3.2.2, ht]

example : step exStore exSt cLIST = transH exSt .list [] := (wire_stat_list_uidl exStore exSt rfl).2.1
example : transH exSt .stat [] = .ok exSt (.okStat 1 12) [] ∧
    transH exSt .list [] = .ok exSt (.okList 1 [(1, 12)]) [] ∧
    transH exSt .uidl [] = .ok exSt (.okUidl 1 [(1, [49])]) [] := by decide

/-- A message number that passes the argument checks (an integer, ≥ 1, ≤ number of snapshot messages) is answered
    by LIST n / UIDL n with the snapshot's size / id exactly when it is one of the entries the listings print;
    a marked message is refused by LIST n, UIDL n and DELE n alike. -/
theorem single_entry {s : St} (h : Reach s) (a : Bytes) (n : Int) (hn : msgArg s a = some n) :
    (∀ m, (n.toNat, m) ∈ retained s →
        transH s .list [a] = .ok s (.okListOne n m.size) [] ∧ transH s .uidl [a] = .ok s (.okUidlOne n m.id) []) ∧
    ((∀ m, (n.toNat, m) ∉ retained s) →
        transH s .list [a] = .ok s .err [] ∧ transH s .uidl [a] = .ok s .err [] ∧ transH s .dele [a] = .ok s .err []) := by
  have hi := reach_inv h
  obtain ⟨h1, _⟩ := msgArg_range s a n hn
  obtain ⟨r, m, hr, hm, hl⟩ := cmdList_one s hi a n hn
  obtain ⟨r', m', hr', hm', hu⟩ := cmdUidl_one s hi a n hn
  obtain ⟨r'', hr'', hd⟩ := cmdDele_one s hi a n hn
  have e1 : r = r' := by rw [hr] at hr'; simpa using hr'
  have e2 : m = m' := by rw [hm] at hm'; simpa using hm'
  have e3 : r = r'' := by rw [hr] at hr''; simpa using hr''
  subst e1 e2 e3
  have hidx : n.toNat - 1 = (n - 1).toNat := by omega
  constructor
  · intro m0 hmem
    obtain ⟨_, g2, g3⟩ := (mem_retained s _ _).mp hmem
    rw [hidx] at g2 g3
    rw [hm] at g2; rw [hr] at g3
    simp at g2 g3; subst g2 g3
    simp [transH, hl, hu]
  · intro hnot
    have : r = false := by
      cases hr0 : r with
      | false => rfl
      | true =>
        exfalso
        apply hnot m
        rw [mem_retained]
        refine ⟨by omega, ?_, ?_⟩
        · rw [hidx]; exact hm
        · rw [hidx, hr, hr0]
    subst this
    simp [transH, hl, hu, hd]

/-- an argument that fails the checks (not an integer incl. overflow, < 1, > number of messages) is "-ERR" for
    all five commands that take a message number, and nothing changes -/
theorem bad_number_refused (s : St) (a : Bytes) (hn : msgArg s a = none) (b : Bytes) :
    transH s .list [a] = .ok s .err [] ∧ transH s .uidl [a] = .ok s .err [] ∧ transH s .dele [a] = .ok s .err [] ∧
    transH s .retr [a] = .ok s .err [] ∧ transH s .top [a, b] = .ok s .err [] := by
  simp [transH, cmdList, cmdUidl, cmdDele, cmdRetr, cmdTop, hn]

example : msgArg exSt [50] = some 2 ∧ transH exSt .list [[50]] = .ok exSt .err [] ∧
    transH exSt .uidl [[49]] = .ok exSt (.okUidlOne 1 [49]) [] := by decide
example : msgArg exSt [43, 49] = some 1 ∧ msgArg exSt [51] = none ∧ msgArg exSt [45, 49] = none ∧
    msgArg exSt [57, 57, 57, 57, 57, 57, 57, 57, 57, 57, 57] = none ∧ msgArg exSt [] = none := by decide

/-! ### snapshot stability -/

/-- a loop iteration after login never consults the store -/
theorem step_ignores_store_after_login (st1 st2 : Bytes → List Msg) (s : St) (hp : s.phase ≠ .auth) (line : Bytes) :
    step st1 s line = step st2 s line := step_ignores_store st1 st2 s hp line

/-- every iteration in TRANSACTION keeps the snapshot (messages, hence numbers, sizes, ids) and the user -/
theorem step_keeps_snapshot {s : St} (h : Reach s) (ht : s.phase = .trans) {store : Bytes → List Msg} {line : Bytes}
    {s' : St} {r : Reply} {rm : List Bytes} (hs : step store s line = .ok s' r rm) :
    s'.msgs = s.msgs ∧ s'.user = s.user ∧ s'.phase ≠ .auth := by
  obtain ⟨s2, r2, rm2, hs2, post⟩ := step_ok store s (reach_inv h) (by simp [ht]) line
  rw [hs] at hs2; cases hs2
  rcases post with ⟨ha, _⟩ | ⟨_, _, hm, hu, hp⟩
  · simp [ht] at ha
  · refine ⟨hm, hu, ?_⟩
    rcases hp with ⟨hp, _⟩ | ⟨hp, _⟩
    · simp [hp, ht]
    · simp [hp]

example : step exStore exS2 cDELE2 = .ok exSt (.okDele 2) [] ∧ exSt.msgs = exS2.msgs ∧ exSt.user = exS2.user :=
  ⟨exStep3, (step_keeps_snapshot exS2_reach rfl exStep3).1, (step_keeps_snapshot exS2_reach rfl exStep3).2.1⟩
example : step exStore exSt cLIST = step (fun _ => []) exSt cLIST :=
  step_ignores_store_after_login _ _ exSt (by decide) _

/-- Snapshot stability for whole sessions: from any reachable logged-in state, two runs that receive the same
    lines (and the same write failures) produce the same replies, the same removals, the same ending and the same
    final state — WHATEVER the store contains at each step in either run.  So every reply to STAT / LIST / UIDL /
    RETR / … after login is a function of the login snapshot and the command history alone. -/
theorem snapshot_stable (term : Term) {s : St} (h : Reach s) (hp : s.phase ≠ .auth) (evs1 evs2 : List Ev)
    (hl : evs1.map (fun e => (e.line, e.sendOk)) = evs2.map (fun e => (e.line, e.sendOk))) :
    run term s evs1 = run term s evs2 := by
  have hi := reach_inv h
  clear h
  induction evs1 generalizing s evs2 with
  | nil =>
    cases evs2 with
    | nil => rfl
    | cons _ _ => simp at hl
  | cons a l1 ih =>
    cases evs2 with
    | nil => simp at hl
    | cons b l2 =>
    simp only [List.map_cons, List.cons.injEq, Prod.mk.injEq] at hl
    obtain ⟨hab, hl⟩ := hl
    by_cases hq : s.phase = .quit
    · rw [run_quit term s hq, run_quit term s hq]
    · obtain ⟨s', r, rm, hs, post⟩ := step_ok b.store s hi hq b.line
      have hs1 : step a.store s a.line = .ok s' r rm := by
        rw [step_ignores_store a.store b.store s hp, hab.1]; exact hs
      have hp' : s'.phase ≠ .auth := by
        rcases post with ⟨ha, _⟩ | ⟨_, _, _, _, hph⟩
        · exact absurd ha hp
        · rcases hph with ⟨e, _⟩ | ⟨e, _⟩
          · rw [e]; exact hp
          · simp [e]
      have hrec := ih hp' l2 hl (post_inv post)
      simp only [run, if_neg hq, hs, hs1, hab.2, hrec]

example : run .eof exSt [{ store := exStore, line := cLIST, sendOk := true }] =
    run .eof exSt [{ store := fun _ => [], line := cLIST, sendOk := true }] :=
  snapshot_stable .eof exSt_reach (by decide) _ _ rfl

/-- the guard `s.phase ≠ .auth` of `snapshot_stable` is needed: before login the store does matter (PASS reads it) -/
theorem store_matters_before_login : step exStore exS1 cPASS ≠ step (fun _ => []) exS1 cPASS := by decide

/-- login takes the snapshot: the state that enters TRANSACTION holds exactly what `GetMessages(user)` returned at
    that moment, all unmarked, and announces its length -/
theorem login_takes_snapshot {s : St} (h : Reach s) (ha : s.phase = .auth) {store : Bytes → List Msg} {line : Bytes}
    {s' : St} {r : Reply} {rm : List Bytes} (hs : step store s line = .ok s' r rm) (ht : s'.phase = .trans) :
    s'.msgs = store s'.user ∧ s'.retain = List.replicate s'.msgs.length true ∧
      r = .okLogin ((store s'.user).length : Int) ∧ rm = [] := by
  obtain ⟨s2, r2, rm2, hs2, post⟩ := step_ok store s (reach_inv h) (by simp [ha]) line
  rw [hs] at hs2; cases hs2
  rcases post with ⟨_, _, hrm, hc⟩ | ⟨hx, _⟩
  · rcases hc with ⟨hc, _⟩ | ⟨hc, _⟩ | ⟨_, hm, hr, hrep⟩
    · simp [hc] at ht
    · simp [hc] at ht
    · exact ⟨hm, hr, by rw [hrep, hm], hrm⟩
  · simp [ha] at hx

example : exS2.msgs = exStore exS2.user ∧ exS2.retain = [true, true] :=
  ⟨(login_takes_snapshot exS1_reach rfl exStep2 rfl).1, rfl⟩

private theorem reachFrom_keeps {s1 s : St} (hi : Inv s1) (ht : s1.phase = .trans) (h : ReachFrom s1 s) :
    s.msgs = s1.msgs ∧ s.user = s1.user ∧ s.phase ≠ .auth ∧ Inv s := by
  induction h with
  | refl => exact ⟨rfl, rfl, by simp [ht], hi⟩
  | step _ hq hs ih =>
    obtain ⟨e1, e2, e3, e4⟩ := ih
    obtain ⟨s2, r2, rm2, hs2, post⟩ := step_ok _ _ e4 hq _
    rw [hs] at hs2; cases hs2
    rcases post with ⟨ha, _⟩ | ⟨_, hinv, hm, hu, hp⟩
    · exact absurd ha e3
    · refine ⟨hm.trans e1, hu.trans e2, ?_, hinv⟩
      rcases hp with ⟨e, _⟩ | ⟨e, _⟩
      · rw [e]; exact e3
      · simp [e]

/-- The unique ids UIDL prints are the store's ids: at any point of a session after the login step, every entry
    (n, m) the listings range over is the n-th message `GetMessages(user)` returned at login — same id, same size —
    no matter what happened to the store since.  (UIDL prints `m.id`, LIST prints `m.size`: `stat_list_uidl_agree`.) -/
theorem uidl_is_store_id {s0 s1 s : St} (h0 : Reach s0) (ha : s0.phase = .auth) {store : Bytes → List Msg}
    {line : Bytes} {r : Reply} {rm : List Bytes} (hl : step store s0 line = .ok s1 r rm) (ht : s1.phase = .trans)
    (hr : ReachFrom s1 s) (n : Nat) (m : Msg) :
    (n, m) ∈ retained s → (store s1.user)[n - 1]? = some m := by
  intro hmem
  have hi1 : Inv s1 := reachFrom_inv (reach_inv h0) (.step .refl (by simp [ha]) hl)
  obtain ⟨hm, _, _, _⟩ := reachFrom_keeps hi1 ht hr
  obtain ⟨hsnap, _⟩ := login_takes_snapshot h0 ha hl ht
  obtain ⟨_, g, _⟩ := (mem_retained s n m).mp hmem
  rw [hm, hsnap] at g
  exact g

example : (1, exMsgs[0]) ∈ retained exSt ∧ (exStore exS2.user)[1 - 1]? = some exMsgs[0] :=
  ⟨by decide, uidl_is_store_id exS1_reach rfl exStep2 rfl (.step .refl (by decide) exStep3) 1 exMsgs[0] (by decide)⟩

/-! ### RSET -/

/-- RSET succeeds in every reachable state, keeps the snapshot, and afterwards every snapshot message is listed
    again (no mark survives) and `msgCount` is the snapshot length -/
theorem rset_unmarks_all {s : St} (_h : Reach s) (args : List Bytes) :
    ∃ s', transH s .rset args = .ok s' .ok [] ∧ s'.msgs = s.msgs ∧ s'.phase = s.phase ∧ s'.user = s.user ∧
      s'.msgCount = (s.msgs.length : Int) ∧ markedIds s' = [] ∧
      (∀ n m, (n, m) ∈ retained s' ↔ 1 ≤ n ∧ s.msgs[n - 1]? = some m) := by
  refine ⟨retainAll s, rfl, rfl, rfl, rfl, rfl, ?_, ?_⟩
  · have : ∀ x, x ∉ markedIds (retainAll s) := by
      intro x hx
      unfold markedIds at hx
      rw [mem_sel] at hx
      obtain ⟨j, m, h1, h2, _⟩ := hx
      have hj : j < s.msgs.length := (List.getElem?_eq_some_iff.mp h1).1
      simp [retainAll, List.getElem?_replicate] at h2
    exact List.eq_nil_iff_forall_not_mem.mpr this
  · intro n m
    rw [mem_retained]
    constructor
    · rintro ⟨h1, h2, _⟩; exact ⟨h1, h2⟩
    · rintro ⟨h1, h2⟩
      refine ⟨h1, h2, ?_⟩
      have hj : n - 1 < s.msgs.length := (List.getElem?_eq_some_iff.mp h2).1
      simp [retainAll, hj]

example : ∃ s', transH exSt .rset [] = .ok s' .ok [] ∧ transH s' .uidl [] = .ok s' (.okUidl 2 [(1, [49]), (2, [50])]) [] :=
  ⟨_, rfl, by decide⟩

/-! ### QUIT commits exactly the marked messages; nothing else removes anything -/

/-- QUIT in any reachable TRANSACTION state answers +OK, enters QUIT and calls `RemoveMessage(user, id)` exactly
    for the snapshot messages whose flag is `false` at that moment — in snapshot order, each once — and for no
    other id. -/
theorem quit_commits_exactly {s : St} (h : Reach s) (args : List Bytes) :
    transH s .quit args = .ok { s with phase := .quit } .ok
      (((s.msgs.zip s.retain).filter (fun p => p.2 == false)).map (fun p => p.1.id)) := by
  have hi := reach_inv h
  have := sel_eq_zip_filter s.retain false (fun m => m.id) s.msgs 0 (by simp [hi.1])
  simp only [List.drop_zero] at this
  simp only [transH, cmdQuit_eq s hi, markedIds, this]

/-- "each once": the removal list is a sub-list of the snapshot's id list -/
theorem removed_sublist {s : St} (h : Reach s) : (markedIds s).Sublist (s.msgs.map (·.id)) := by
  have hi := reach_inv h
  have := sel_eq_zip_filter s.retain false (fun m => m.id) s.msgs 0 (by simp [hi.1])
  simp only [List.drop_zero] at this
  rw [markedIds, this]
  have h1 : ((s.msgs.zip s.retain).filter (fun p => p.2 == false)).Sublist (s.msgs.zip s.retain) := List.filter_sublist
  have h2 := h1.map (fun p => p.1.id)
  have h3 : (s.msgs.zip s.retain).map (fun p => p.1.id) = s.msgs.map (·.id) := by
    have : (s.msgs.zip s.retain).map (fun p => p.1.id) = ((s.msgs.zip s.retain).map Prod.fst).map (·.id) := by
      simp [List.map_map, Function.comp_def]
    rw [this, List.map_fst_zip (by simp [hi.1])]
  rw [h3] at h2
  exact h2

example : transH exSt .quit [] = .ok { exSt with phase := .quit } .ok [[50]] := by decide
example : (markedIds exSt).Sublist (exSt.msgs.map (·.id)) ∧ markedIds exSt = [[50]] := ⟨removed_sublist exSt_reach, by decide⟩

/-- a loop iteration that removes anything is QUIT issued in TRANSACTION, and it removes the marked ids -/
theorem removal_only_at_quit {s : St} (h : Reach s) (hq : s.phase ≠ .quit) {store : Bytes → List Msg} {line : Bytes}
    {s' : St} {r : Reply} {rm : List Bytes} (hs : step store s line = .ok s' r rm) (hrm : rm ≠ []) :
    s.phase = .trans ∧ s' = { s with phase := .quit } ∧ rm = markedIds s := by
  obtain ⟨s2, r2, rm2, hs2, post⟩ := step_ok store s (reach_inv h) hq line
  rw [hs] at hs2; cases hs2
  rcases post with ⟨_, _, e, _⟩ | ⟨ht, _, _, _, hp⟩
  · exact absurd e hrm
  · rcases hp with ⟨_, e⟩ | ⟨e1, e2⟩
    · exact absurd e hrm
    · exact ⟨ht, e1, e2⟩

example : exSt.phase = .trans ∧ ([[50]] : List Bytes) = markedIds exSt :=
  let h := removal_only_at_quit exSt_reach (by decide) exStepQuit (by decide)
  ⟨h.1, h.2.2⟩

private theorem run_removed (term : Term) (s : St) (hi : Inv s) (evs : List Ev) :
    (run term s evs).removed = [] ∨
    ∃ sq, ReachFrom s sq ∧ sq.phase = .trans ∧ (run term s evs).final = { sq with phase := .quit } ∧
      (run term s evs).removed = markedIds sq := by
  induction evs generalizing s with
  | nil =>
    left
    unfold run
    split
    · rfl
    · cases term <;> rfl
  | cons e evs ih =>
    by_cases hq : s.phase = .quit
    · left; rw [run_quit term s hq]
    · obtain ⟨s', r, rm, hs, post⟩ := step_ok e.store s hi hq e.line
      have hi' := post_inv post
      have hcase : rm = [] ∨ (s.phase = .trans ∧ s' = { s with phase := .quit } ∧ rm = markedIds s) := by
        rcases post with ⟨_, _, e, _⟩ | ⟨ht, _, _, _, hp⟩
        · exact Or.inl e
        · rcases hp with ⟨_, e⟩ | ⟨e1, e2⟩
          · exact Or.inl e
          · exact Or.inr ⟨ht, e1, e2⟩
      simp only [run, if_neg hq, hs]
      by_cases hso : e.sendOk = true
      · simp only [hso, if_true]
        rcases hcase with e0 | ⟨ht, e1, e2⟩
        · rcases ih s' hi' with hl | ⟨sq, hr, hp, hf, hrm⟩
          · left; simp [e0, hl]
          · right; exact ⟨sq, reachFrom_head hq hs hr, hp, hf, by simp [e0, hrm]⟩
        · right
          have hq' : s'.phase = .quit := by rw [e1]
          refine ⟨s, .refl, ht, ?_, ?_⟩
          · rw [run_quit term s' hq' evs, e1]
          · rw [run_quit term s' hq' evs]; simp [e2]
      · simp only [hso]
        rcases hcase with e0 | ⟨ht, e1, e2⟩
        · left; simpa using e0
        · right; exact ⟨s, .refl, ht, by simpa using e1, by simpa using e2⟩

/-- Over a whole session: either nothing is ever removed, or the removals are exactly the ids marked in the
    (reachable, TRANSACTION) state in which QUIT was issued, and the session ended in state QUIT right there. -/
theorem quit_commits_exactly_session (term : Term) (evs : List Ev) :
    (session term evs).removed = [] ∨
    ∃ sq, Reach sq ∧ sq.phase = .trans ∧ (session term evs).final = { sq with phase := .quit } ∧
      (session term evs).removed = markedIds sq := by
  rcases run_removed term St.init inv_init evs with h | ⟨sq, hr, h⟩
  · exact .inl h
  · exact .inr ⟨sq, ⟨_, fresh_init, hr⟩, h⟩

/-- The same for the command loop of a session on ANY server (any TLS configuration, whatever `tlsState` earlier
    sessions left): nothing is removed, or exactly the ids marked in the reachable TRANSACTION state QUIT was issued in. -/
theorem loop_commits_exactly (term : Term) (s0 : St) (h0 : Fresh s0) (evs : List Ev) :
    (run term s0 evs).removed = [] ∨
    ∃ sq, Reach sq ∧ sq.phase = .trans ∧ (run term s0 evs).final = { sq with phase := .quit } ∧
      (run term s0 evs).removed = markedIds sq := by
  rcases run_removed term s0 (inv_fresh h0) evs with h | ⟨sq, hr, h⟩
  · exact .inl h
  · exact .inr ⟨sq, ⟨_, h0, hr⟩, h⟩

/-- A session that does not end in state QUIT — the input ended by EOF, by a last line without line end, by a read
    error or the idle timeout, or a reply to a command other than QUIT could not be written — issues no
    `RemoveMessage` call at all, whatever was marked. -/
theorem no_quit_no_removal (term : Term) (evs : List Ev) (h : (session term evs).final.phase ≠ .quit) :
    (session term evs).removed = [] := by
  rcases quit_commits_exactly_session term evs with h0 | ⟨sq, _, _, hf, _⟩
  · exact h0
  · rw [hf] at h; exact absurd rfl h

private theorem cutAux_line (body cur : Bytes) (acc : List Bytes) (tail : Bytes) (hb : 10 ∉ body) :
    cutAux (body ++ 10 :: tail) cur acc = cutAux tail [] ((cur.reverse ++ body ++ [10]) :: acc) := by
  induction body generalizing cur with
  | nil => simp [cutAux]
  | cons c body ih =>
    have hc : c ≠ 10 := by intro e; simp [e] at hb
    have hb' : 10 ∉ body := by intro e; exact hb (List.mem_cons_of_mem _ e)
    simp only [List.cons_append, cutAux, if_neg hc, ih (c :: cur) hb']
    simp

private theorem cutAux_rest (rest cur : Bytes) (acc : List Bytes) (hb : 10 ∉ rest) :
    cutAux rest cur acc = (acc.reverse, cur.reverse ++ rest) := by
  induction rest generalizing cur with
  | nil => simp [cutAux]
  | cons c rest ih =>
    have hc : c ≠ 10 := by intro e; simp [e] at hb
    have hb' : 10 ∉ rest := by intro e; exact hb (List.mem_cons_of_mem _ e)
    simp only [cutAux, if_neg hc, ih (c :: cur) hb']
    simp

/-- `ReadString('\n')` hands the loop exactly the complete lines; an unterminated rest at the end of the input
    (`rest`, e.g. `DELE 1` or `QUIT` without line end) is never handed to `parseCmd` — the session then ends by EOF,
    which by `no_quit_no_removal` removes nothing. -/
theorem partial_line_not_a_command (lines : List Bytes) (rest : Bytes)
    (hl : ∀ l ∈ lines, ∃ body, l = body ++ [10] ∧ 10 ∉ body) (hr : 10 ∉ rest) :
    cutLines (lines.flatten ++ rest) = (lines, rest) := by
  have gen : ∀ acc : List Bytes, cutAux (lines.flatten ++ rest) [] acc = (acc.reverse ++ lines, rest) := by
    induction lines with
    | nil => intro acc; simp [cutAux_rest rest [] acc hr]
    | cons l ls ih =>
      intro acc
      obtain ⟨body, rfl, hb⟩ := hl _ List.mem_cons_self
      have := ih (fun l hl' => hl l (List.mem_cons_of_mem _ hl')) ((body ++ [10]) :: acc)
      simp only [List.flatten_cons, List.append_assoc, List.cons_append]
      rw [cutAux_line body [] acc _ hb]
      simpa using this
  simpa [cutLines] using gen []

example : cutLines (cDELE1 ++ kQUIT) = ([cDELE1], kQUIT) := by decide

example : (session .eof [ev cUSER, ev cPASS, ev cDELE1, ev cDELE2]).removed = [] ∧
    (session .eof [ev cUSER, ev cPASS, ev cDELE1, ev cDELE2]).final.retain = [false, false] := by decide
example : (session .eof [ev cUSER, ev cPASS, ev cDELE2, ev cQUIT]).removed = [[50]] := by decide
example : (session .readError [ev cUSER, ev cPASS, ev cDELE2]).removed = [] := by decide
example : (session .eof [ev cUSER, ev cPASS, ev cDELE2, { ev cQUIT with sendOk := false }]).removed = [[50]] := by
  decide

/-! ### message output -/

/-- no line of a RETR body is a lone "." — the terminator cannot be forged by message content -/
theorem retr_never_lone_dot (src : Bytes) : ∀ l ∈ retrLines src, l ≠ [46] := by
  intro l hl
  unfold retrLines at hl
  obtain ⟨x, _, rfl⟩ := List.mem_map.mp hl
  unfold dotStuff
  split
  · rename_i hh
    cases x with
    | nil => simp at hh
    | cons c cs => simp
  · rename_i hh
    intro he
    rw [he] at hh
    simp at hh

example : retrLines [46, 13, 10] = [[46, 46]] ∧ ∀ l ∈ retrLines [46, 13, 10], l ≠ [46] :=
  ⟨by decide, retr_never_lone_dot _⟩

/-- documented non-claim of C13: RETR (and TOP) do NOT refuse a message marked deleted — message 2 of the example
    state is marked, LIST 2 is refused, RETR 2 and TOP 2 0 still send it -/
theorem retr_top_serve_marked_message :
    transH exSt .list [[50]] = .ok exSt .err [] ∧
    transH exSt .retr [[50]] = .ok exSt (.okRetr 6 [[46, 46], [46, 46, 46, 120]]) [] ∧
    transH exSt .top [[50], [48]] = .ok exSt (.okTop [[46, 46], [46, 46, 46, 120]]) [] := by decide

private theorem topLoop_prefix (ls : List Bytes) (inBody : Bool) (k : Nat) (acc : List Bytes) :
    ∃ rest, acc.reverse ++ ls.map dotStuff = topLoop ls inBody k acc ++ rest := by
  induction ls generalizing inBody k acc with
  | nil => exact ⟨[], by simp [topLoop]⟩
  | cons l ls ih =>
    unfold topLoop
    simp only
    split
    · split
      · exact ⟨_, rfl⟩
      · obtain ⟨rest, hr⟩ := ih true (k - 1) (dotStuff l :: acc)
        exact ⟨rest, by rw [← hr]; simp⟩
    · obtain ⟨rest, hr⟩ := ih (dotStuff l == []) k (dotStuff l :: acc)
      exact ⟨rest, by rw [← hr]; simp⟩

/-- TOP sends a prefix of what RETR sends -/
theorem top_prefix_of_retr (src : Bytes) (k : Nat) : topLines src k <+: retrLines src := by
  obtain ⟨rest, h⟩ := topLoop_prefix (scanLines src) false k []
  exact ⟨rest, by simpa [topLines, retrLines] using h.symm⟩

example : retrLines [46, 10, 46, 46, 120, 10] = [[46, 46], [46, 46, 46, 120]] ∧
    topLines [65, 13, 10, 13, 10, 98, 10, 99, 10] 1 = [[65], [], [98]] := by decide

end Ibx.Props.C13
