import Ibx.Gen.Addr2
import Ibx.Gen.Pop3
import Ibx.Model.Addr
/-
  T1 tie for C04 (second part): structural facts re-read from the source on every run
  (Ibx/Gen/Addr2.lean, written by harness/cmd/extract/addr2.go) are exactly what the address model and the
  C04 theorems assume about
    * the read side: every HTTP / websocket handler that takes a mailbox name from the URL computes the store key
      with Manager.MailboxForAddress = Addressing.ExtractMailbox, the same function the write side (RCPT) uses;
    * canonicalDomain, the IPv6 tag of ValidateDomainPart, the name-shape test of ExtractMailbox and the two
      naming returns;
    * POP3, which does NOT go through the address policy (open finding F-04d).
  If the source changes one of these shapes the obligation stops checking.

  The facts are STRUCTURAL (harness/cmd/extract/addr2.go): exported / package-level things are found by name, unexported
  helpers by following calls, locals / parameters / receivers by role (printed as `$x`, `$dom`, `$canon`, …), and control
  flow is normalised to guarded exits, so renaming a local, parameter, receiver or unexported helper, if-chain <-> switch,
  splitting / merging `||`, inverting an if / else, extracting an unexported helper or rewording an error text changes none
  of them — while a changed literal, offset, operator, condition, order or callee does.
-/
namespace Ibx.Tie.Addr2
open Ibx.Model.Addr

/-- Read side = write side.  Every function of the REST / websocket / web-UI packages that gets at the URL name of its
    `*web.Context` C (the table is not empty) first turns it into the store key with
    `C.Manager.MailboxForAddress(C.Vars["name"])` (canon), reads the raw name nowhere else and touches neither the
    manager nor the message hub before that call (onlyCanon); and `StoreManager.MailboxForAddress(P)` returns exactly
    `R.AddrPolicy.ExtractMailbox(P)`. -/
theorem read_side_same_function :
    Gen.Addr2.handlers.all (fun h => h.2.2.1 && h.2.2.2) = true
    ∧ Gen.Addr2.handlers ≠ []
    ∧ Gen.Addr2.mailboxForAddressIsExtract = true := by decide

/-- No handler is missed.  The two controller packages contain no `…["name"]` index expression other than the argument
    of the canonical call of a table row (so nobody reads the name through an alias, `mux.Vars` or a second time), the
    table has `handlerCount` rows, every route whose path contains `{name}` is a recognised
    `r.Path(…).Handler(web.Handler(F))` registration, and each such `F` is a row of the table. -/
theorem handlers_complete :
    Gen.Addr2.strayNameReads = 0
    ∧ Gen.Addr2.handlerCount = Gen.Addr2.handlers.length
    ∧ Gen.Addr2.routeNameLits = Gen.Addr2.routesWithName.length
    ∧ Gen.Addr2.routesWithName ≠ []
    ∧ Gen.Addr2.routesWithName.all
        (fun r => (Gen.Addr2.handlers.map (fun h => h.2.1)).contains r.2) = true := by decide

/-- `canonicalDomain` has the modelled shape with the literal `[IPv6:` and the slice offset 6: the literal's bytes
    are `Model.Addr.ipv6Open`, and the offset is the literal's length (what `canonicalDomain` drops). -/
theorem canonicalDomain_tie :
    Gen.Addr2.canonicalDomainShape = some ("[IPv6:", 6)
    ∧ Gen.Addr2.canonicalDomainLit = some ipv6Open
    ∧ ipv6Open.length = 6 := by decide

/-- The bracketed branch of `ValidateDomainPart` tests the prefix `IPv6:` after the `[` and then skips
    6 = 1 + 5 bytes: the literal's bytes are `Model.Addr.ipv6Tag` (of length 5, what `validateDomainPart` drops
    from the inner text). -/
theorem validateTag_tie :
    Gen.Addr2.validateTag = some ("IPv6:", 6)
    ∧ Gen.Addr2.validateTagLit = some ipv6Tag
    ∧ 6 = 1 + ipv6Tag.length := by decide

/-- The name-shape test of `ExtractMailbox` is the modelled `nameShapeOk`: reject the empty name, a leading period,
    a trailing period and two consecutive periods — the SET of rejecting conditions on the parsed name is these four
    and no other (however they are spread over `||`, consecutive ifs, a switch or an unexported helper), and the
    conditions that index the name come after the emptiness test (the model has no panic outcome). -/
theorem nameShape_tie :
    Gen.Addr2.nameShapeTest = some ["dotDot", "empty", "leadDot", "trailDot"]
    ∧ Gen.Addr2.nameShapeIndexGuarded = true := by
  decide

/-- The name-shape test sits where the model puts it: after `parseMailboxName`, before the local/full naming
    decision (no name is returned earlier), and domain naming is dispatched first to `extractDomainMailbox`. -/
theorem nameShape_position_tie :
    Gen.Addr2.nameShapeBeforeNamingSwitch = true ∧ Gen.Addr2.domainDispatchFirst = true := by decide

/-- Full naming returns `local + "@" + canonicalDomain(domain)`: `$x` is the parsed mailbox name, `$dom` result 1 of the
    raw address parser, `$canon` the helper whose shape `canonicalDomain_tie` pins. -/
theorem fullReturn_tie : Gen.Addr2.fullReturn = some "$x + \"@\" + $canon($dom)" := by decide

/-- Domain naming returns `canonicalDomain(domain)`: `$dom` is the variable `ValidateDomainPart` vouched for, `$canon` the
    same helper as in `fullReturn_tie`. -/
theorem domainReturn_tie : Gen.Addr2.domainReturn = some "$canon($dom)" := by decide

/-- POP3 has one of the two recognised shapes: either it never consults the address policy and USER / APOP store
    the client's argument verbatim as the mailbox key (what the code is today: open finding F-04d, replayed on a
    real session by the harness on every run), or it goes through the address policy and no longer stores the raw
    argument (the repaired shape).  Any other shape stops this obligation from checking.  (The two facts are computed
    in harness/cmd/extract/pop3.go — Gen.Pop3 — by role and path by path: the command parser may split the line with
    strings.Split or with strings.Cut + strings.Split; the words after the first blank must come out unchanged.) -/
theorem pop3_shape_recognised :
    (Gen.Pop3.usesPolicy = false ∧ Gen.Pop3.userVerbatim = true) ∨
    (Gen.Pop3.usesPolicy = true ∧ Gen.Pop3.userVerbatim = false) := by decide

end Ibx.Tie.Addr2
