import Ibx.Gen.San
import Ibx.Gen.SanFilter
import Ibx.Model.Css
import Ibx.Model.TextHtml
import Ibx.Model.StyleFilter
/-
  T1 tie for C18: the hand-written sanitiser models use exactly the tables, literals and code shape that the
  regenerated facts (Ibx/Gen/San.lean, re-read from pkg/webui/sanitize/{css,html}.go, pkg/server/web/helpers.go
  and the gorilla/css scanner of go.mod on every run) report.

  The code-shape facts (`…Sem`) are SEMANTIC SUMMARIES, not source text: each function is executed symbolically by
  the extractor (harness/cmd/extract/san.go, header comment there) and printed as rows
      condition && condition => effect; effect -> outcome
  in which local variables are replaced by their definitions (parameters are $1, $2, …), unexported helpers are
  inlined, functions used as values are F1, F2, …, loops are L1, L2, … (one iteration; @1 … are the variables carried
  round, #M is the result of effect M), constructed objects are o1, o2, …, map-literal tables are T1, …, string
  building (a + b, append, Sprintf("%s"), conversions) is a concatenation `++`, a search for one ASCII byte is
  strings.IndexByte / LastIndexByte however it is spelled (Index with a one-character string, IndexRune), indexing a
  `map[string]bool` set literal is a set test `k in {…}`, a loop `for v := E; C; v = E` is the loop that evaluates E and
  tests C at the top of every iteration, and the conditions are re-expanded into a decision tree in a fixed order.  Renaming locals / unexported helpers, extracting helpers, if/else <-> switch,
  early returns, flag variables, reordered cases, comments and formatting do not change a row; a changed call,
  literal, operator, order of effects or condition does.  If the source changes one of them these
  obligations stop checking — e.g. a property added to `allowedProperties` (then decide with the rule below
  whether the new table is still acceptable and update `Ibx.Model.Css.allowed`).

  RULE for the allow-list: a property may be on the list only if, whatever its value, a declaration of it cannot
  (a) load or run code / fetch a resource by itself in current browsers — so NOT behavior, -moz-binding,
  background / background-image / list-style(-image) / cursor / border-image / mask / filter / src (url() fetches,
  tracking pixels); and (b) take the element out of the message pane to cover the UI — so NOT position, top /
  left / right / bottom, z-index, transform, inset.  (`content` is on the upstream list and is inert on
  non-pseudo elements; values are not inspected by the sanitiser at all, see Props/C18 header.)
-/
namespace Ibx.Tie.San
open Ibx.Model

/-- the model's allow-list is the regenerated table -/
theorem allowed_tie : Gen.San.allowedProperties = some Css.allowed := by decide +kernel

/-- none of the properties ruled out above is on the regenerated list -/
theorem allowed_not_dangerous :
    ∀ p ∈ ["behavior", "-moz-binding", "position", "top", "left", "right", "bottom", "z-index", "transform", "inset",
           "background", "background-image", "list-style", "list-style-image", "cursor", "border-image", "mask",
           "filter", "src"], p ∉ Gen.San.allowedPropertyNames := by decide +kernel

/-- css.go, sanitizeStyle: the scan loop (L1: EOF -> the buffer, error -> "", otherwise call the current handler @1,
    nil -> "") and the three handlers reached from it as function values — F1 = stateStart (the initial one), F2 =
    stateValid, F3 = stateEat — row for row `Css.run` / `Css.step`: which token types and values each looks at, what
    it writes, which handler it returns; T1 is the allow-list consulted with strings.ToLower of the value -/
theorem css_sem_tie : Gen.San.cssSem = [
      "always => loop L1(@1 = F1) -> return ret(L1)",
      "L1: ##Next.Type == scanner.TokenEOF => o1.Next(); <membuf>.String() -> return ##String",
      "L1: ##Next.Type == scanner.TokenError => o1.Next() -> return \"\"",
      "L1: ##Next.Type notin {scanner.TokenEOF, scanner.TokenError} && ##call == nil => o1.Next(); @1(<membuf>, ##Next) -> return \"\"",
      "L1: ##Next.Type notin {scanner.TokenEOF, scanner.TokenError} && ##call != nil => o1.Next(); @1(<membuf>, ##Next); @1 := ##call -> next",
      "F1: $2.Type == scanner.TokenIdent && has(T1, strings.ToLower($2.Value)) => $1.WriteString($2.Value) -> return F2",
      "F1: $2.Type == scanner.TokenIdent && !has(T1, strings.ToLower($2.Value)) => - -> return F3",
      "F1: $2.Type == scanner.TokenS => - -> return F1",
      "F1: $2.Type notin {scanner.TokenIdent, scanner.TokenS} => $1.WriteString(\"/*\" ++ $2.Type.String() ++ \"*/\") -> return F3",
      "F2: $2.Type == scanner.TokenChar && $2.Value == \";\" => $1.WriteString($2.Value) -> return F1",
      "F2: $2.Type == scanner.TokenChar && $2.Value != \";\" => $1.WriteString($2.Value) -> return F2",
      "F2: $2.Type != scanner.TokenChar => $1.WriteString($2.Value) -> return F2",
      "F3: $2.Type == scanner.TokenChar && $2.Value == \";\" => - -> return F1",
      "F3: $2.Type == scanner.TokenChar && $2.Value != \";\" => - -> return F3",
      "F3: $2.Type != scanner.TokenChar => - -> return F3",
      "o1 = scanner.New($1)",
      "import scanner = github.com/gorilla/css/scanner",
      "import strings = strings"] := rfl

/-- the scanner's token types (iota order) and their names are the model's -/
theorem token_names_tie : Gen.San.tokenNames = some (Css.TT.all.map Css.TT.name) := by decide +kernel
theorem token_consts_tie : Gen.San.tokenConsts.length = Css.TT.all.length ∧
    Gen.San.tokenConsts.take 3 = ["TokenError", "TokenEOF", "TokenIdent"] ∧
    Gen.San.tokenConsts[13]? = some "TokenS" ∧ Gen.San.tokenConsts[14]? = some "TokenComment" ∧
    Gen.San.tokenConsts[21]? = some "TokenChar" := by decide
theorem token_codes : ∀ t ∈ Css.TT.all, Css.TT.ofCode t.code = some t := by decide

/-- helpers.go, TextToHTML: escape (the standard library's html), then wrap every match of the expression (o1; the
    expression itself is a parameter of the model) with F1 = wrapMatch, then the newline replacer o2 over the whole
    result; F1 row for row `TextHtml.cutMatch` / `wrapMatch` -/
theorem text_sem_tie : Gen.San.textSem = [
      "always => o1.ReplaceAllStringFunc(html.EscapeString($1), F1); o2.Replace(#ReplaceAllStringFunc) -> return #Replace",
      "F1: strings.LastIndexByte($1, \"&\") < 0 => - -> return WrapURL($1)",
      "F1: strings.LastIndexByte($1, \"&\") >= 0 && $1[strings.LastIndexByte($1, \"&\"):] in {\"&#34\", \"&#39\", \"&amp\", \"&gt\", \"&lt\"} => - -> return WrapURL($1[:strings.LastIndexByte($1, \"&\")]) ++ $1[strings.LastIndexByte($1, \"&\"):]",
      "F1: strings.LastIndexByte($1, \"&\") >= 0 && $1[strings.LastIndexByte($1, \"&\"):] notin {\"&#34\", \"&#39\", \"&amp\", \"&gt\", \"&lt\"} => - -> return WrapURL($1)",
      "o1 = regexp.MustCompile(<re>)",
      "o2 = strings.NewReplacer(\"\\r\\n\", \"<br/>\\n\", \"\\r\", \"<br/>\\n\", \"\\n\", \"<br/>\\n\")",
      "import html = html",
      "import regexp = regexp",
      "import strings = strings"] := rfl
/-- the constants wrapMatch compares the tail with are the model's `partials` (as a set) -/
theorem wrapMatch_tie :
    (∀ x ∈ Gen.San.wrapMatchLits, x ∈ TextHtml.partials) ∧ (∀ x ∈ TextHtml.partials, x ∈ Gen.San.wrapMatchLits) ∧
    Gen.San.wrapMatchLits.length = TextHtml.partials.length := by decide
/-- the replacer's arguments, in order (= priority at one position) -/
theorem replacer_tie :
    Gen.San.replacerArgs = [[13, 10], TextHtml.br, [13], TextHtml.br, [10], TextHtml.br] := by decide
/-- WrapURL with linkable inlined, row for row `TextHtml.wrapURL` / `linkable` / `anchor`.  The scheme test is printed
    as a SET test on strings.ToLower of the text in front of the ':' (`in {…}` / `notin {…}`): a `map[string]bool` set
    literal indexed with that value and a `switch` over it with `return true` cases are the same multi-way test to the
    extractor, so the rows do not say which of the two the code uses; the members are pinned here and, as bytes against
    the model's `TextHtml.schemes`, in `linkable_tie` -/
theorem wrap_sem_tie : Gen.San.wrapURLSem = [
      "strings.IndexAny($1, \":/?#&\") < 0 => - -> return \"<a href=\\\"\" ++ strings.ReplaceAll($1, \"&amp;\", \"&\") ++ \"\\\" target=\\\"_blank\\\">\" ++ $1 ++ \"</a>\"",
      "strings.IndexAny($1, \":/?#&\") >= 0 && $1[strings.IndexAny($1, \":/?#&\")] == \"&\" => - -> return $1",
      "strings.IndexAny($1, \":/?#&\") >= 0 && $1[strings.IndexAny($1, \":/?#&\")] == \":\" && strings.ToLower($1[:strings.IndexAny($1, \":/?#&\")]) in {\"ftp\", \"http\", \"https\", \"mailto\"} => - -> return \"<a href=\\\"\" ++ strings.ReplaceAll($1, \"&amp;\", \"&\") ++ \"\\\" target=\\\"_blank\\\">\" ++ $1 ++ \"</a>\"",
      "strings.IndexAny($1, \":/?#&\") >= 0 && $1[strings.IndexAny($1, \":/?#&\")] == \":\" && strings.ToLower($1[:strings.IndexAny($1, \":/?#&\")]) notin {\"ftp\", \"http\", \"https\", \"mailto\"} => - -> return $1",
      "strings.IndexAny($1, \":/?#&\") >= 0 && $1[strings.IndexAny($1, \":/?#&\")] notin {\"&\", \":\"} => - -> return \"<a href=\\\"\" ++ strings.ReplaceAll($1, \"&amp;\", \"&\") ++ \"\\\" target=\\\"_blank\\\">\" ++ $1 ++ \"</a>\"",
      "import strings = strings"] := rfl
theorem wrap_tie :
    Gen.San.wrapURLLits = [TextHtml.amp, [38], TextHtml.aOpen, TextHtml.aMid, TextHtml.aClose] := by decide
theorem linkable_tie :
    Gen.San.linkableLits = [TextHtml.delims] ∧ Gen.San.linkSchemes = some TextHtml.schemes := by decide +kernel

/-! ### the style-tag filter and the two tokenizers (differential parse) -/

/-- html.go, sanitize.HTML with sanitizeStyleTags / styleTagFilter inlined, row for row `StyleFilter.filter` / `emit` /
    `rewriteAttr` / `serAttr` / `serTag`: the filter runs first and the policy o5 (bluemonday UGC + center + style
    matching `.*`, assumption A3 is about exactly this policy) on its output, the output is discarded on error; the
    token loop L1 distinguishes exactly the three cases of the model (Raw is read AFTER TagName); the attribute loop L2
    passes `style` values (key compared after strings.ToLower) through sanitizeStyle, drops the attribute when nothing
    is left and escapes every value it writes with x/net/html's EscapeString (`import html = golang.org/x/net/html`);
    the tokenizer o6 is html.NewTokenizer over the input and nothing is called on it but the five accessors -/
theorem filter_sem_tie : Gen.SanFilter.filterSem = [
      "ret(L1) == nil => loop L1(); <membuf>.String(); o5.Sanitize(#String) -> return (#Sanitize, nil)",
      "ret(L1) != nil => loop L1() -> return (\"\", ret(L1))",
      "L1: ##Next == html.ErrorToken && ##Err == io.EOF => o6.Next(); o6.Err(); o7.Flush() -> return ##Flush",
      "L1: ##Next == html.ErrorToken && ##Err != io.EOF => o6.Next(); o6.Err() -> return ##Err",
      "L1: ##Next == html.SelfClosingTagToken && ##TagName.1 && ##Write.1 == nil => o6.Next(); o6.TagName(); loop L2(@@1 = \"<\" ++ ##TagName.0); o7.Write(L2.@@1 ++ \"/>\") -> next",
      "L1: ##Next == html.SelfClosingTagToken && ##TagName.1 && ##Write.1 != nil => o6.Next(); o6.TagName(); loop L2(@@1 = \"<\" ++ ##TagName.0); o7.Write(L2.@@1 ++ \"/>\") -> return ##Write.1",
      "L1: ##Next == html.SelfClosingTagToken && !##TagName.1 && ##Write.1 == nil => o6.Next(); o6.TagName(); o6.Raw(); o7.Write(##Raw) -> next",
      "L1: ##Next == html.SelfClosingTagToken && !##TagName.1 && ##Write.1 != nil => o6.Next(); o6.TagName(); o6.Raw(); o7.Write(##Raw) -> return ##Write.1",
      "L1: ##Next == html.StartTagToken && ##TagName.1 && ##Write.1 == nil => o6.Next(); o6.TagName(); loop L2(@@1 = \"<\" ++ ##TagName.0); o7.Write(L2.@@1 ++ \">\") -> next",
      "L1: ##Next == html.StartTagToken && ##TagName.1 && ##Write.1 != nil => o6.Next(); o6.TagName(); loop L2(@@1 = \"<\" ++ ##TagName.0); o7.Write(L2.@@1 ++ \">\") -> return ##Write.1",
      "L1: ##Next == html.StartTagToken && !##TagName.1 && ##Write.1 == nil => o6.Next(); o6.TagName(); o6.Raw(); o7.Write(##Raw) -> next",
      "L1: ##Next == html.StartTagToken && !##TagName.1 && ##Write.1 != nil => o6.Next(); o6.TagName(); o6.Raw(); o7.Write(##Raw) -> return ##Write.1",
      "L1: ##Next notin {html.ErrorToken, html.SelfClosingTagToken, html.StartTagToken} && ##Write.1 == nil => o6.Next(); o6.Raw(); o7.Write(##Raw) -> next",
      "L1: ##Next notin {html.ErrorToken, html.SelfClosingTagToken, html.StartTagToken} && ##Write.1 != nil => o6.Next(); o6.Raw(); o7.Write(##Raw) -> return ##Write.1",
      "L2: ###TagAttr.2 && <sanitizeStyle>(###TagAttr.1) == \"\" && strings.ToLower(###TagAttr.0) == \"style\" => o6.TagAttr() -> next",
      "L2: ###TagAttr.2 && <sanitizeStyle>(###TagAttr.1) == \"\" && strings.ToLower(###TagAttr.0) != \"style\" => o6.TagAttr(); @@1 := @@1 ++ \" \" ++ ###TagAttr.0 ++ \"=\\\"\" ++ html.EscapeString(###TagAttr.1) ++ \"\\\"\" -> next",
      "L2: ###TagAttr.2 && <sanitizeStyle>(###TagAttr.1) != \"\" && strings.ToLower(###TagAttr.0) == \"style\" => o6.TagAttr(); @@1 := @@1 ++ \" \" ++ ###TagAttr.0 ++ \"=\\\"\" ++ html.EscapeString(<sanitizeStyle>(###TagAttr.1)) ++ \"\\\"\" -> next",
      "L2: ###TagAttr.2 && <sanitizeStyle>(###TagAttr.1) != \"\" && strings.ToLower(###TagAttr.0) != \"style\" => o6.TagAttr(); @@1 := @@1 ++ \" \" ++ ###TagAttr.0 ++ \"=\\\"\" ++ html.EscapeString(###TagAttr.1) ++ \"\\\"\" -> next",
      "L2: !###TagAttr.2 && <sanitizeStyle>(###TagAttr.1) == \"\" && strings.ToLower(###TagAttr.0) == \"style\" => o6.TagAttr() -> exit",
      "L2: !###TagAttr.2 && <sanitizeStyle>(###TagAttr.1) == \"\" && strings.ToLower(###TagAttr.0) != \"style\" => o6.TagAttr(); @@1 := @@1 ++ \" \" ++ ###TagAttr.0 ++ \"=\\\"\" ++ html.EscapeString(###TagAttr.1) ++ \"\\\"\" -> exit",
      "L2: !###TagAttr.2 && <sanitizeStyle>(###TagAttr.1) != \"\" && strings.ToLower(###TagAttr.0) == \"style\" => o6.TagAttr(); @@1 := @@1 ++ \" \" ++ ###TagAttr.0 ++ \"=\\\"\" ++ html.EscapeString(<sanitizeStyle>(###TagAttr.1)) ++ \"\\\"\" -> exit",
      "L2: !###TagAttr.2 && <sanitizeStyle>(###TagAttr.1) != \"\" && strings.ToLower(###TagAttr.0) != \"style\" => o6.TagAttr(); @@1 := @@1 ++ \" \" ++ ###TagAttr.0 ++ \"=\\\"\" ++ html.EscapeString(###TagAttr.1) ++ \"\\\"\" -> exit",
      "o1 = bluemonday.UGCPolicy()",
      "o2 = o1.AllowElements(\"center\")",
      "o3 = o2.AllowAttrs(\"style\")",
      "o4 = o3.Matching(regexp.MustCompile(\".*\"))",
      "o5 = o4.Globally()",
      "o6 = html.NewTokenizer(strings.NewReader($1))",
      "o7 = bufio.NewWriter(<membuf>)",
      "import bluemonday = github.com/microcosm-cc/bluemonday",
      "import bufio = bufio",
      "import html = golang.org/x/net/html",
      "import io = io",
      "import regexp = regexp",
      "import strings = strings"] := rfl

/-- html.go constructs its tokenizer with x/net/html's one-argument NewTokenizer and calls nothing on it but the five
    accessors the model's token stream is made of — NO option setter (AllowCDATA, NextIsNotRawText, SetMaxBuf) -/
theorem filter_tokenizer_tie :
    Gen.SanFilter.filterTokenizerCtors = ["golang.org/x/net/html.NewTokenizer/1"] ∧
    Gen.SanFilter.filterTokenizerMethods = ["Err", "Next", "Raw", "TagAttr", "TagName"] := by decide

/-- bluemonday (the version go.mod selects) constructs ITS tokenizer the same way and sets no option either: both
    passes read the same bytes with the same tokenizer configuration (assumption A2 is about exactly this pair) -/
theorem policy_tokenizer_tie :
    Gen.SanFilter.policyTokenizerCtors = Gen.SanFilter.filterTokenizerCtors ∧
    Gen.SanFilter.policyTokenizerMethods = ["Err", "Next", "Token"] ∧
    (∀ m ∈ ["AllowCDATA", "NextIsNotRawText", "SetMaxBuf", "Buffered"],
      m ∉ Gen.SanFilter.filterTokenizerMethods ∧ m ∉ Gen.SanFilter.policyTokenizerMethods) := by decide

/-- the options an x/net/html Tokenizer has in the version in use: the harness classifies every generated input by
    whether one of them would move a styled start tag (histogram agree:sensitive:*); a new option in a later version
    stops this obligation -/
theorem tokenizer_options_tie :
    Gen.SanFilter.tokenizerMethods = ["AllowCDATA", "Buffered", "Err", "Next", "NextIsNotRawText", "Raw", "SetMaxBuf",
      "TagAttr", "TagName", "Text", "Token"] ∧
    Gen.SanFilter.tokenizerCtors = ["NewTokenizer", "NewTokenizerFragment"] := by decide

/-- the elements after whose start tag the tokenizer reads raw text (the directed generator of c18filter.go wraps
    styled tags in each of them) -/
theorem tokenizer_raw_tags_tie :
    Gen.SanFilter.tokenizerRawTags = ["iframe", "noembed", "noframes", "noscript", "plaintext", "script", "style",
      "textarea", "title", "xmp"] := by decide

/-- x/net/html EscapeString escapes exactly the six bytes the model escapes, to the model's entities -/
theorem xescape_tie :
    Gen.SanFilter.escapedChars.map StyleFilter.escB =
      [StyleFilter.amp, StyleFilter.apos, StyleFilter.lt, StyleFilter.gt, StyleFilter.quot, StyleFilter.cr] ∧
    Gen.SanFilter.escapeCases = ["'&'->&amp;", "'\\''->&#39;", "'<'->&lt;", "'>'->&gt;", "'\"'->&#34;", "'\\r'->&#13;"] ∧
    Gen.SanFilter.escapedChars.length = 6 := by decide

end Ibx.Tie.San
