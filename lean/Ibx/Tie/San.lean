import Ibx.Gen.San
import Ibx.Gen.SanFilter
import Ibx.Model.Css
import Ibx.Model.TextHtml
import Ibx.Model.StyleFilter
/-
  T1 tie for C18: the hand-written sanitiser models use exactly the tables, literals and code shape that the
  regenerated facts (Ibx/Gen/San.lean, re-read from pkg/webui/sanitize/{css,html}.go, pkg/server/web/helpers.go
  and the gorilla/css scanner of go.mod on every run) report.  If the source changes one of them these
  obligations stop checking — e.g. a property added to `allowedProperties` (then decide with the rule below
  whether the new table is still acceptable and update `Ibx.Model.Css.allowed`).

  RULE for the allow-list: a property may be on the list only if, whatever its value, a declaration of it cannot
  (a) load or run code / fetch a resource by itself in current browsers — so NOT behavior, -moz-binding,
  background / background-image / list-style(-image) / cursor / border-image / mask / filter / src (url() fetches,
  tracking pixels); and (b) take the element out of the message pane to cover the UI — so NOT position, top /
  left / right / bottom, z-index, transform, inset.  (`content` is on the upstream list and is inert on
  non-pseudo elements; values are not inspected by the sanitiser at all, see Props/C18 header.)
-/
namespace Ibx.Tie.San
open Ibx.Model

/-- the model's allow-list is the regenerated table -/
theorem allowed_tie : Gen.San.allowedProperties = some Css.allowed := by decide +kernel

/-- none of the properties ruled out above is on the regenerated list -/
theorem allowed_not_dangerous :
    ∀ p ∈ ["behavior", "-moz-binding", "position", "top", "left", "right", "bottom", "z-index", "transform", "inset",
           "background", "background-image", "list-style", "list-style-image", "cursor", "border-image", "mask",
           "filter", "src"], p ∉ Gen.San.allowedPropertyNames := by decide +kernel

/-- the three handlers, and what each of them looks at / writes / returns -/
theorem handlers_tie : Gen.San.stateHandlers = ["stateStart", "stateEat", "stateValid"] := by decide
theorem loop_tie :
    Gen.San.sanitizeStyleTypes = ["New", "TokenEOF", "TokenError"] ∧
    Gen.San.sanitizeStyleReturns = ["b.String()", "\"\"", "\"\""] ∧
    Gen.San.sanitizeStyleCalls = ["scanner.New", "scan.Next", "b.String", "state"] := by decide
theorem start_tie :
    Gen.San.stateStartLits = ["/*", "*/"] ∧
    Gen.San.stateStartTypes = ["Token", "TokenIdent", "TokenS"] ∧
    Gen.San.stateStartReturns = ["stateEat", "stateValid", "stateStart", "stateEat"] ∧
    Gen.San.stateStartCalls = ["strings.ToLower", "b.WriteString", "b.WriteString", "t.Type.String"] := by decide
theorem eat_tie :
    Gen.San.stateEatLits = [";"] ∧ Gen.San.stateEatTypes = ["Token", "TokenChar"] ∧
    Gen.San.stateEatReturns = ["stateStart", "stateEat"] ∧ Gen.San.stateEatCalls = [] := by decide
theorem valid_tie :
    Gen.San.stateValidLits = [";"] ∧ Gen.San.stateValidTypes = ["Token", "TokenChar"] ∧
    Gen.San.stateValidReturns = ["state"] ∧ Gen.San.stateValidCalls = ["b.WriteString"] := by decide

/-- the scanner's token types (iota order) and their names are the model's -/
theorem token_names_tie : Gen.San.tokenNames = some (Css.TT.all.map Css.TT.name) := by decide +kernel
theorem token_consts_tie : Gen.San.tokenConsts.length = Css.TT.all.length ∧
    Gen.San.tokenConsts.take 3 = ["TokenError", "TokenEOF", "TokenIdent"] ∧
    Gen.San.tokenConsts[13]? = some "TokenS" ∧ Gen.San.tokenConsts[14]? = some "TokenComment" ∧
    Gen.San.tokenConsts[21]? = some "TokenChar" := by decide
theorem token_codes : ∀ t ∈ Css.TT.all, Css.TT.ofCode t.code = some t := by decide

/-- html.go: the bluemonday policy and the order filter -> policy (assumption A3 is about exactly this policy) -/
theorem policy_tie :
    Gen.San.policySrc = some "bluemonday.UGCPolicy().AllowElements(\"center\").AllowAttrs(\"style\").Matching(cssSafe).Globally()" ∧
    Gen.San.cssSafeSrc = some "regexp.MustCompile(\".*\")" ∧
    Gen.San.htmlCalls = ["sanitizeStyleTags", "policy.Sanitize"] := by decide
/-- the filter passes `style` values through sanitizeStyle and escapes what it writes -/
theorem filter_tie :
    "sanitizeStyle" ∈ Gen.San.filterCalls ∧ "html.EscapeString" ∈ Gen.San.filterCalls ∧
    "strings.ToLower" ∈ Gen.San.filterCalls ∧ "style" ∈ Gen.San.filterLits := by decide

/-- helpers.go: escape, then wrap, then the newline replacer; the replacer's arguments; WrapURL's pieces -/
theorem text_order_tie :
    Gen.San.textToHTMLCalls = ["html.EscapeString", "urlRE.ReplaceAllStringFunc", "strings.NewReplacer", "replacer.Replace"] := by decide
theorem wrapMatch_tie :
    Gen.San.textToHTMLReplaceFunc = "wrapMatch" ∧ Gen.San.wrapMatchLits = TextHtml.partials ∧
    Gen.San.wrapMatchCalls = ["strings.LastIndexByte", "WrapURL", "WrapURL"] ∧
    Gen.San.wrapMatchReturns = ["WrapURL(match[:i]) + match[i:]", "WrapURL(match)"] := by decide
theorem replacer_tie :
    Gen.San.textToHTMLLits = [[13, 10], TextHtml.br, [13], TextHtml.br, [10], TextHtml.br] := by decide
theorem wrap_tie :
    Gen.San.wrapURLLits = [TextHtml.amp, [38], TextHtml.aOpen ++ [37, 115] ++ TextHtml.aMid ++ [37, 115] ++ TextHtml.aClose] ∧
    Gen.San.wrapURLCalls = ["linkable", "strings.ReplaceAll", "fmt.Sprintf"] ∧
    Gen.San.wrapURLReturns = ["url", "fmt.Sprintf(\"<a href=\\\"%s\\\" target=\\\"_blank\\\">%s</a>\", unescaped, url)"] := by decide
theorem linkable_tie :
    Gen.San.linkableLits = [TextHtml.delims] ∧ Gen.San.linkSchemes = some TextHtml.schemes ∧
    Gen.San.linkableSrc = "{ i := strings.IndexAny(url, \":/?#&\") if i < 0 { return true } switch url[i] { case ':': return linkSchemes[strings.ToLower(url[:i])] case '&': return false } return true }" := by decide +kernel

/-! ### the style-tag filter and the two tokenizers (differential parse) -/

/-- html.go constructs its tokenizer with `html.NewTokenizer(r)` and calls nothing on it but the five accessors the
    model's token stream is made of — NO option setter (AllowCDATA, NextIsNotRawText, SetMaxBuf); `html` is
    golang.org/x/net/html (not the standard library's); the loop distinguishes exactly the three cases of the model;
    sanitizeStyleTags discards the buffer on error -/
theorem filter_tokenizer_tie :
    Gen.SanFilter.filterTokenizerCtors = ["html.NewTokenizer(r)"] ∧
    Gen.SanFilter.filterTokenizerMethods = ["Err", "Next", "Raw", "TagAttr", "TagName"] ∧
    Gen.SanFilter.filterCases = ["html.ErrorToken", "html.StartTagToken,html.SelfClosingTagToken", "default"] ∧
    Gen.SanFilter.htmlImports = ["bufio", "bytes", "github.com/microcosm-cc/bluemonday", "golang.org/x/net/html", "io", "regexp", "strings"] ∧
    Gen.SanFilter.sanitizeStyleTagsReturns = ["\"\",err", "b.String(),nil"] := by decide

/-- bluemonday (the version go.mod selects) constructs ITS tokenizer the same way and sets no option either: both
    passes read the same bytes with the same tokenizer configuration (assumption A2 is about exactly this pair) -/
theorem policy_tokenizer_tie :
    Gen.SanFilter.policyTokenizerCtors = Gen.SanFilter.filterTokenizerCtors ∧
    Gen.SanFilter.policyTokenizerMethods = ["Err", "Next", "Token"] ∧
    (∀ m ∈ ["AllowCDATA", "NextIsNotRawText", "SetMaxBuf", "Buffered"],
      m ∉ Gen.SanFilter.filterTokenizerMethods ∧ m ∉ Gen.SanFilter.policyTokenizerMethods) := by decide

/-- the options an x/net/html Tokenizer has in the version in use: the harness classifies every generated input by
    whether one of them would move a styled start tag (histogram agree:sensitive:*); a new option in a later version
    stops this obligation -/
theorem tokenizer_options_tie :
    Gen.SanFilter.tokenizerMethods = ["AllowCDATA", "Buffered", "Err", "Next", "NextIsNotRawText", "Raw", "SetMaxBuf",
      "TagAttr", "TagName", "Text", "Token"] ∧
    Gen.SanFilter.tokenizerCtors = ["NewTokenizer", "NewTokenizerFragment"] := by decide

/-- the elements after whose start tag the tokenizer reads raw text (the directed generator of c18filter.go wraps
    styled tags in each of them) -/
theorem tokenizer_raw_tags_tie :
    Gen.SanFilter.tokenizerRawTags = ["iframe", "noembed", "noframes", "noscript", "plaintext", "script", "style",
      "textarea", "title", "xmp"] := by decide

/-- x/net/html EscapeString escapes exactly the six bytes the model escapes, to the model's entities -/
theorem xescape_tie :
    Gen.SanFilter.escapedChars.map StyleFilter.escB =
      [StyleFilter.amp, StyleFilter.apos, StyleFilter.lt, StyleFilter.gt, StyleFilter.quot, StyleFilter.cr] ∧
    Gen.SanFilter.escapeCases = ["'&'->&amp;", "'\\''->&#39;", "'<'->&lt;", "'>'->&gt;", "'\"'->&#34;", "'\\r'->&#13;"] ∧
    Gen.SanFilter.escapedChars.length = 6 := by decide

/-- the body of styleTagFilter is, token for token, the text Model/StyleFilter.lean was read from -/
theorem filter_src_tie : Gen.SanFilter.filterSrc =
    "{ bw := bufio.NewWriter(w) b := make([]byte, 0, 256) z := html.NewTokenizer(r) for { b = b[:0] tt := z.Next() switch tt { case html.ErrorToken: err := z.Err() if err == io.EOF { return bw.Flush() } return err case html.StartTagToken, html.SelfClosingTagToken: name, hasAttr := z.TagName() if !hasAttr { if _, err := bw.Write(z.Raw()); err != nil { return err } continue } b = append(b, '<') b = append(b, name...) for { key, val, more := z.TagAttr() strval := string(val) style := false if strings.ToLower(string(key)) == \"style\" { style = true strval = sanitizeStyle(strval) } if !style || strval != \"\" { b = append(b, ' ') b = append(b, key...) b = append(b, '=', '\"') b = append(b, []byte(html.EscapeString(strval))...) b = append(b, '\"') } if !more { break } } if tt == html.SelfClosingTagToken { b = append(b, '/') } if _, err := bw.Write(append(b, '>')); err != nil { return err } default: if _, err := bw.Write(z.Raw()); err != nil { return err } } } }" := rfl

end Ibx.Tie.San
