import Ibx.Gen.HubWire
import Ibx.Model.WsWire
/-
  T1 tie for C15, the last hop: the writer loop the source has (facts re-read from pkg/rest/socketv1_controller.go
  and socketv2_controller.go on every run by harness/cmd/extract/hubwire.go) is the instance `WsWriter.onePerFrame`
  of Model.WsWire for which Props/C15Wire proves every_text_frame_carries_one_event, client_sees_what_the_writer_took,
  client_sees_every_accepted_event_once_in_order, close_frame_is_last, write_failure_ends_the_writer.

  The facts are STRUCTURAL: the writer loop is the select (inside a `for`, reachable from the exported WSWriter) with a
  case receiving from the event queue; a message write is WriteJSON / WriteMessage / WriteControl / WritePreparedMessage /
  NextWriter…Close on a *websocket.Conn; the case bodies are executed path by path with same-file helpers executed in
  place.  If the queue case writes twice, or not at all on some path, or writes something other than the received value,
  or receives again from the queue (packing several events into one message), or drops a write error, or the done case
  stops returning, or anything else in the file writes on the connection or consumes the queue, these obligations stop
  checking.  A shape the extractor cannot follow is `none` / "unknown", which nothing here accepts.
-/
namespace Ibx.Tie.HubWire
open Ibx.Model.WsWire

/-- the writer variant described by the regenerated facts of one controller: `onePerFrame` = on every path through
    the queue case exactly one message write, of the received value, and no further receive from the queue -/
def writerOf (writes extraRecvs : Option Nat) (writesReceived : Option Bool) : Option WsWriter :=
  match writes, extraRecvs, writesReceived with
  | some 1, some 0, some true => some .onePerFrame
  | _, _, _ => none

theorem writerV1_is_onePerFrame :
    writerOf Gen.HubWire.writerQueueWritesV1 Gen.HubWire.writerQueueExtraRecvsV1 Gen.HubWire.writerWritesReceivedV1
      = some .onePerFrame := by decide

theorem writerV2_is_onePerFrame :
    writerOf Gen.HubWire.writerQueueWritesV2 Gen.HubWire.writerQueueExtraRecvsV2 Gen.HubWire.writerWritesReceivedV2
      = some .onePerFrame := by decide

/-- the select of the writer loop has exactly the three cases of the model (steps wTake, wDone, wPing) -/
theorem writer_select_cases :
    Gen.HubWire.writerSelectV1 = "done,queue,ticker" ∧ Gen.HubWire.writerSelectV2 = "done,queue,ticker" := by decide

/-- step wDone: one close message, then return (the deferred Close() follows) -/
theorem done_case_writes_close_and_returns :
    Gen.HubWire.writerDoneBranchV1 = "closeThenReturn" ∧ Gen.HubWire.writerDoneBranchV2 = "closeThenReturn" := by decide

/-- step wPing: one ping message, no event -/
theorem ticker_case_writes_one_ping :
    Gen.HubWire.writerTickBranchV1 = "pingFrame" ∧ Gen.HubWire.writerTickBranchV2 = "pingFrame" := by decide

/-- steps wWriteFail / wPingFail: a write error is the end of the writer goroutine -/
theorem write_error_returns :
    Gen.HubWire.writerWriteErrorReturnsV1 = some true ∧ Gen.HubWire.writerWriteErrorReturnsV2 = some true := by decide

/-- only wTake / wTakeMore remove from the queue: the writer's select case is the file's only receive from it -/
theorem writer_is_the_only_consumer :
    Gen.HubWire.queueReceivesV1 = some 1 ∧ Gen.HubWire.queueReceivesV2 = some 1 := by decide

/-- `wire` is appended to by the writer loop only: nothing else in the files writes a message on the connection -/
theorem nothing_else_writes :
    Gen.HubWire.writesOutsideWriterLoopV1 = some 0 ∧ Gen.HubWire.writesOutsideWriterLoopV2 = some 0 := by decide

end Ibx.Tie.HubWire
