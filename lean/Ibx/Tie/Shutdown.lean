import Ibx.Gen.Shutdown
import Ibx.Props.C19
/-
  T1 tie for C19: the proved-safe model instances are the ones the regenerated facts
  (Ibx/Gen/Shutdown.lean, re-read from the listener / handler / hub / retention sources on every run) name.
  Moving `wg.Add(1)` back into the session goroutine, closing `opChan` again, adding a bare blocking wait to
  the retention loop, or handing a context to a protocol handler makes one of these obligations stop
  checking; the companion theorems `Props.C19.drain_unsafe`, `hub_panic_closesOpChan` name the schedule.

  The facts are STRUCTURAL (harness/cmd/extract/shutdown.go, toolkit in retention.go): unexported things are found
  through anchors and not by name — the WaitGroup is "a struct field of type sync.WaitGroup", the accept loop is
  "what Start's go statement runs (it calls Accept())", the session function "what the go statement of that loop
  runs", the listener "the field Accept() is called on", the connection "the net.Conn parameter", the context
  "the context.Context parameter", the hub's operation channel "the field Hub.Start receives from beside
  ctx.Done()", its done channel "the field closed in that case", the producers "the functions that send on the
  operation channel", the retention Join channel "the field Join receives from".  Unexported helpers are followed
  as if inlined and conditions are compared as path conditions, so renaming, helper extraction, guard clauses and
  log text do not move these facts; an unrecognised shape gives unknown / none / false.
-/
namespace Ibx.Tie.Shutdown
open Ibx.Model.Shutdown Ibx.Props.C19

/-! ### accept / WaitGroup / Drain -/

/-- the model instance the SMTP source names (an unrecognised shape falls to the unsafe variant) -/
def smtpCfg : Drain.Cfg :=
  ⟨(Drain.WgAdd.parse Gen.Shutdown.smtp_wgAdd).getD .inSessionGoroutine, Gen.Shutdown.smtp_serveCounted.getD false⟩
def pop3Cfg : Drain.Cfg :=
  ⟨(Drain.WgAdd.parse Gen.Shutdown.pop3_wgAdd).getD .inSessionGoroutine, Gen.Shutdown.pop3_serveCounted.getD false⟩

theorem smtp_wgAdd_known : (Drain.WgAdd.parse Gen.Shutdown.smtp_wgAdd).isSome = true := by decide
theorem pop3_wgAdd_known : (Drain.WgAdd.parse Gen.Shutdown.pop3_wgAdd).isSome = true := by decide
theorem smtp_serveCounted_known : Gen.Shutdown.smtp_serveCounted.isSome = true := by decide
theorem pop3_serveCounted_known : Gen.Shutdown.pop3_serveCounted.isSome = true := by decide

/-- the SMTP source has a `<WaitGroup>.Add` before the `go` statement of the accept loop, on every path to it -/
theorem smtp_wgAdd_before : smtpCfg.wgAdd.before = true := by decide
theorem pop3_wgAdd_before : pop3Cfg.wgAdd.before = true := by decide

/-- `Drain()` of the SMTP server, as the source is now -/
theorem C19_smtp_drain_safe : DrainSafe smtpCfg := drain_after_and_only_after smtpCfg smtp_wgAdd_before
/-- `Drain()` of the POP3 server, as the source is now -/
theorem C19_pop3_drain_safe : DrainSafe pop3Cfg := drain_after_and_only_after pop3Cfg pop3_wgAdd_before

/-- the accept loop is counted in the WaitGroup (F-19c fix): one `<WaitGroup>.Add` in Start before the go statement
    that runs the accept loop, on the same path (nothing can return in between), an unconditional deferred `Done`
    in the accept-loop function, and no other WaitGroup call in Start.  Reverting it makes these two obligations stop checking; the failing
    schedules are `Props.C19.handoff_window` and `early_drain_window`. -/
theorem smtp_serve_counted : smtpCfg.serveCounted = true := by decide
theorem pop3_serve_counted : pop3Cfg.serveCounted = true := by decide

/-- whenever `Drain()` of the SMTP server can return, its listener is closed and no accepted connection is
    open then or ever after — as the source is now -/
theorem C19_smtp_drain_final : DrainFinal smtpCfg := drain_is_final smtpCfg smtp_wgAdd_before smtp_serve_counted
theorem C19_pop3_drain_final : DrainFinal pop3Cfg := drain_is_final pop3Cfg pop3_wgAdd_before pop3_serve_counted

/-- the rest of the shape the `Drain` model assumes -/
theorem smtp_shape : Gen.Shutdown.smtp_closeBeforeDone = true ∧ Gen.Shutdown.smtp_startClosesListenerAfterDone = true ∧
    Gen.Shutdown.smtp_serveReturnsOnDone = true ∧ Gen.Shutdown.smtp_drainIsWait = true := by decide
theorem pop3_shape : Gen.Shutdown.pop3_closeBeforeDone = true ∧ Gen.Shutdown.pop3_startClosesListenerAfterDone = true ∧
    Gen.Shutdown.pop3_serveReturnsOnDone = true ∧ Gen.Shutdown.pop3_drainIsWait = true := by decide

/-! ### frame lemma: the session programs are not given the cancellation context -/

theorem smtp_handler_has_no_ctx : Gen.Shutdown.smtp_handlerMentionsCtx = false := by decide
theorem pop3_handler_has_no_ctx : Gen.Shutdown.pop3_handlerMentionsCtx = false := by decide

/-! ### hub -/

/-- the model instance hub.go names (an unrecognised shape falls to the unsafe variant) -/
def hubMode : Hub.OnCancel := (Hub.OnCancel.parse Gen.Shutdown.hub_onCancel).getD .closesOpChan

theorem hub_onCancel_known : (Hub.OnCancel.parse Gen.Shutdown.hub_onCancel).isSome = true := by decide
theorem hub_onCancel_tie : hubMode = .closesDone := by decide
theorem hub_shape : Gen.Shutdown.hub_closesOfOpChan = 0 ∧ Gen.Shutdown.hub_bareSends = 0 ∧
    Gen.Shutdown.hub_enqueueSelectsDone = true ∧ Gen.Shutdown.hub_syncSelectsDone = true := by decide

/-- no panic, producers and Sync never stuck after the stop — for the hub as the source is now -/
theorem C19_hub_stop_safe (cap : Nat) (s : Hub.St) (h : Hub.Reach hubMode cap s) :
    s.panicked = false ∧
    (s.stopped = true → 0 < s.waiting → ∃ s', Hub.Step hubMode cap s s' ∧ s'.waiting = s.waiting - 1) ∧
    (s.stopped = true → 0 < s.syncWait → ∃ s', Hub.Step hubMode cap s s' ∧ s'.syncWait = s.syncWait - 1) := by
  rw [hub_onCancel_tie] at h ⊢
  refine ⟨(no_panic_after_cancel cap h).1, fun hs hw => ?_, fun hs hw => sync_never_blocks_forever_after_stop cap h hs hw⟩
  obtain ⟨s', a, b, _⟩ := producers_never_block_forever_after_stop cap h hs hw
  exact ⟨s', a, b⟩

/-! ### retention scanner: every wait is a select with a ctx.Done case -/

theorem ret_every_wait_selects_done : Gen.Shutdown.ret_selects = Gen.Shutdown.ret_selectsWithDone ∧
    Gen.Shutdown.ret_blockingOutsideSelect = 0 := by decide
/-- the three waits the `Ret` model has (`preSleep`, `postScan`, `waiting`) and what their Done branch does, logging
    aside: a break labelled with Start's loop (twice), `return false` from the visitor callback -/
theorem ret_done_branches : Gen.Shutdown.ret_doneBranches = ["breakLoop", "breakLoop", "returnFalse"] := by decide
/-- Start closes the channel field Join receives from exactly twice — on the disabled path right before its return and
    after the loop — and that receive is Join's only blocking operation -/
theorem ret_join_shape : Gen.Shutdown.ret_closesShutdown = 2 ∧ Gen.Shutdown.ret_joinWaitsShutdown = true := by decide

end Ibx.Tie.Shutdown
