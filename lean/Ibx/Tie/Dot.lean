import Ibx.Gen.Dot
import Ibx.Model.Pop3Send
/-
  T1 tie for C02: the constants and code shapes the hand-written models assume are exactly what the regenerated facts
  (Ibx/Gen/Dot.lean, re-read from pkg/message/manager.go, pkg/server/smtp/handler.go and pkg/server/pop3/handler.go on
  every run) report.  If the source changes one of them these obligations stop checking.
-/
namespace Ibx.Tie.Dot
open Ibx.Model.Pop3Send

/-- the Return-Path line: same format string, one argument (the envelope sender) -/
theorem returnPath_tie : Gen.Dot.returnPathFmt = some returnPathFmt ∧ Gen.Dot.returnPathArgs = ["from.Address.Address"] := by decide
/-- the Received line, second printf step: header from the session, mailbox, timestamp -/
theorem recvd_tie : Gen.Dot.recvdFmt = some recvdFmt ∧ Gen.Dot.recvdArgs = ["recvdHeader", "mb", "tstamp"] := by decide
/-- the Received line, first printf step in dataHandler: HELO domain, remote host, configured domain -/
theorem recvdHeader_tie : Gen.Dot.recvdHeaderFmt = some recvdHeaderFmt ∧
    Gen.Dot.recvdHeaderArgs = ["s.remoteDomain", "s.remoteHost", "s.config.Domain"] := by decide
/-- the stored source is Return-Path, Received, then the block — in this order, nothing else -/
theorem multiReader_tie : Gen.Dot.multiReaderArgs =
    some ["strings.NewReader(returnPath)", "strings.NewReader(recvd)", "bytes.NewReader(source)"] := by decide
/-- dataHandler hands Deliver the header and the bytes of the block exactly as `readDataBlock` (ReadDotBytes) returned them -/
theorem deliver_tie : Gen.Dot.deliverArgs = some ["s.from", "s.recipients", "recvdHeader", "mailData.Bytes()"] ∧
    Gen.Dot.mailDataDefs = ["bytes.NewBuffer(msgBuf)"] ∧ Gen.Dot.readsDotBytes = true := by decide
/-- the timestamp layout has a fixed width in UTC (the harness masks 37 bytes) -/
theorem timeFmt_tie : Gen.Dot.recvdTimeFmt = some "Mon, 02 Jan 2006 15:04:05 -0700 (MST)" := by decide

/-- RETR: a line scanner (no Split call) over the source with the token limit lifted to Size()+1 … -/
theorem sendMessage_scanner_tie : Gen.Dot.sendMessageBuffer = some ["nil", "int(msg.Size()) + 1"] ∧
    Gen.Dot.sendMessageScanner = some ["reader"] ∧ Gen.Dot.sendMessageHasSplit = false := by decide
/-- … a line is prefixed with "." exactly when it starts with "." (`dotPrefix`) … -/
theorem sendMessage_dot_tie : Gen.Dot.sendMessageDotTest = [[46]] ∧ Gen.Dot.sendMessageLineRewrites = ["\".\" + line"] := by decide
/-- TOP: the same loop shape -/
theorem sendMessageTop_scanner_tie : Gen.Dot.sendMessageTopBuffer = some ["nil", "int(msg.Size()) + 1"] ∧
    Gen.Dot.sendMessageTopScanner = some ["reader"] ∧ Gen.Dot.sendMessageTopHasSplit = false := by decide
theorem sendMessageTop_dot_tie : Gen.Dot.sendMessageTopDotTest = [[46]] ∧ Gen.Dot.sendMessageTopLineRewrites = ["\".\" + line"] := by decide
/-- … and every line goes out followed by CR LF (`sendLine`) -/
theorem pop3Send_tie : Gen.Dot.pop3SendArgs = some ["s.conn", "msg + \"\\r\\n\""] := by decide

end Ibx.Tie.Dot
