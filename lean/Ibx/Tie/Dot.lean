import Ibx.Gen.Dot
import Ibx.Model.Pop3Send
/-
  T1 tie for C02: the constants and code shapes the hand-written models assume are exactly what the regenerated facts
  (Ibx/Gen/Dot.lean, re-read from pkg/message/manager.go, pkg/server/smtp/handler.go and pkg/server/pop3/handler.go on
  every run) report.  If the source changes one of them these obligations stop checking.
-/
namespace Ibx.Tie.Dot
open Ibx.Model.Pop3Send

/-
  The facts are structural (harness/cmd/extract/k1kit.go, kit_t1a.go, dot.go): `$p<i>` is the i-th parameter of the exported
  Deliver, `$p` a parameter of an unexported helper, `$r` the receiver, `$each(X)` the range variable over X, `$v` a local
  that is assigned more than once, `$outer(X)` a value computed before the loop that uses it; a local defined once is
  replaced by its definition and an unexported helper by what it returns.  Local and helper names do not occur.  A string
  built from literal pieces and values is reported in ONE format + arguments form (`format#i`), whether the source uses
  fmt.Sprintf, `+` or strconv.Itoa (the plain verbs %s %v %d are one verb, written %s: for the string operands here they
  print the same bytes, and the lines are compared byte for byte by the correspondence runs).
-/

/-- the Return-Path line: same format string, one argument (the envelope sender = Deliver's first parameter) -/
theorem returnPath_tie : Gen.Dot.returnPathFmt = some returnPathFmt ∧ Gen.Dot.returnPathArgs = ["$p0.Address.Address"] := by decide
/-- the Received line, second printf step: header from the session (third parameter), the mailbox being delivered to
    (the range variable of the per-mailbox loop), one timestamp taken before the loop in UTC with the fixed-width layout -/
theorem recvd_tie : Gen.Dot.recvdFmt = some recvdFmt ∧
    Gen.Dot.recvdArgs = ["$p2", "$each($v.Mailboxes)", "$outer(time.Now().UTC().Format(recvdTimeFmt))"] := by decide
/-- the Received line, first printf step in the DATA handler: HELO domain, remote host, configured domain -/
theorem recvdHeader_tie : Gen.Dot.recvdHeaderFmt = some recvdHeaderFmt ∧
    Gen.Dot.recvdHeaderArgs = ["$r.remoteDomain", "$r.remoteHost", "$r.config.Domain"] := by decide
/-- the stored source is Return-Path, Received, then the block (fourth parameter) — in this order, nothing else, each
    reader made per mailbox (none hoisted out of the loop) -/
theorem multiReader_tie : Gen.Dot.multiReaderArgs =
    some ["strings.NewReader(format#0)", "strings.NewReader(format#1)", "bytes.NewReader($p3)"] := by decide
/-- the DATA handler hands Deliver the sender, the recipients, the header and the bytes of the block exactly as
    textproto's ReadDotBytes returned them (directly, or through a bytes.Buffer that is only read, which is the identity) -/
theorem deliver_tie : Gen.Dot.deliverArgs =
    some ["$r.from", "$r.recipients", "format#hdr", "$r.text.ReadDotBytes()#0"] := by decide
/-- the timestamp layout has a fixed width in UTC (the harness masks 37 bytes) -/
theorem timeFmt_tie : Gen.Dot.recvdTimeFmt = some "Mon, 02 Jan 2006 15:04:05 -0700 (MST)" := by decide

/-- RETR: a line scanner (no Split call) over the message's Source() with the token limit lifted to Size()+1 … -/
theorem sendMessage_scanner_tie : Gen.Dot.sendMessageBuffer = some ["nil", "int($p.Size()) + 1"] ∧
    Gen.Dot.sendMessageScanner = some ["$p.Source()#0"] ∧ Gen.Dot.sendMessageHasSplit = false := by decide
/-- … a line is the scanner's Text(), prefixed with "." exactly when it starts with "." (`dotPrefix`), and that is
    what the loop writes … -/
theorem sendMessage_dot_tie : Gen.Dot.sendMessageDotTest = [[46]] ∧
    Gen.Dot.sendMessageLineRewrites = ["$line := $outer(bufio.NewScanner($p.Source()#0)).Text()", "$line = \".\" + $line"] ∧
    Gen.Dot.sendMessageLoopSends = ["$line"] := by decide
/-- TOP: the same loop shape -/
theorem sendMessageTop_scanner_tie : Gen.Dot.sendMessageTopBuffer = some ["nil", "int($p.Size()) + 1"] ∧
    Gen.Dot.sendMessageTopScanner = some ["$p.Source()#0"] ∧ Gen.Dot.sendMessageTopHasSplit = false := by decide
theorem sendMessageTop_dot_tie : Gen.Dot.sendMessageTopDotTest = [[46]] ∧
    Gen.Dot.sendMessageTopLineRewrites = ["$line := $outer(bufio.NewScanner($p.Source()#0)).Text()", "$line = \".\" + $line"] ∧
    Gen.Dot.sendMessageTopLoopSends = ["$line"] := by decide
/-- … and every line goes out followed by CR LF (`sendLine`) -/
theorem pop3Send_tie : Gen.Dot.pop3SendArgs = some ["$r.conn", "$p + \"\\r\\n\""] := by decide

end Ibx.Tie.Dot
