import Ibx.Gen.Hub
import Ibx.Model.WsListener
/-
  T1 tie for C15: the close protocol the source has (facts re-read from pkg/rest/socketv1_controller.go,
  socketv2_controller.go and pkg/msghub/hub.go on every run) is the instance `Proto.fixed` for which
  Props/C15 proves never_blocks_hub, no_send_on_closed, close_unregisters, delivered_in_order_no_loss.
  If Close() goes back to testing the data channel, if a send on the event queue loses its `select … default`, if
  anything closes the event queue, or if Receive starts calling the hub, these obligations stop checking.

  The facts are STRUCTURAL (harness/cmd/extract/hub.go, astutil.go): the listener type of a socket file is the one
  that declares Receive and Delete; its hub field is the one of type *msghub.Hub, its event queue the channel field
  the file sends on, its done channel the `chan struct{}` field the file closes, its once field the sync.Once; the
  hub's operation queue is the Hub field of type `chan func(…)`.  Close / Receive / Delete / WSWriter / Start are
  read together with every same-file function they transitively call.  Renaming the unexported types, fields,
  helpers, constants and locals, extracting or inlining helpers, or rewording log / error text changes no fact.
-/
namespace Ibx.Tie.Hub
open Ibx.Model.WsListener

def closeOf : String → Option WsClose
  | "selectOnDataChan" => some .selectOnDataChan
  | "doneChan" => some .doneChan
  | _ => none

def receiveOf : String → Option WsReceive
  | "blockingSend" => some .blockingSend
  | "nonBlockingSend" => some .nonBlockingSend
  | _ => none

/-- the protocol instance described by the regenerated facts -/
def protoOf (c r : String) : Option Proto :=
  match closeOf c, receiveOf r with
  | some c, some r => some ⟨c, r⟩
  | _, _ => none

theorem protoV1_is_fixed : protoOf Gen.Hub.wsCloseV1 Gen.Hub.wsReceiveV1 = some Proto.fixed := by decide
theorem protoV2_is_fixed : protoOf Gen.Hub.wsCloseV2 Gen.Hub.wsReceiveV2 = some Proto.fixed := by decide

/-- the model's `chClosed` can only be set by Close(): nothing else in the files closes the queue -/
theorem dataChan_never_closed : Gen.Hub.closesDataChanV1 = some false ∧ Gen.Hub.closesDataChanV2 = some false := by decide

/-- the writer learns of the shutdown through `done` (step wSeesDone) -/
theorem writer_selects_done : Gen.Hub.writerSelectsDoneV1 = some true ∧ Gen.Hub.writerSelectsDoneV2 = some true := by decide

/-- Receive/Delete never call back into the hub from the hub goroutine (the model's hub steps enqueue nothing) -/
theorem receive_never_calls_hub : Gen.Hub.receiveCallsHubV1 = some false ∧ Gen.Hub.receiveCallsHubV2 = some false := by decide

/-- queue capacities: the WsListener theorems hold for every capacity; the harness overflows exactly this one -/
theorem chanCap_tie : Gen.Hub.chanCapV1 = some 100 ∧ Gen.Hub.chanCapV2 = some 100 := by decide

/-- capacity given to the make() of the hub's operation queue (literal or constant, whatever it is called) -/
theorem opChanLen_tie : Gen.Hub.opChanLen = some 100 := by decide

/-- the hub's processing loop does not close its queue on shutdown (late RemoveListener / Dispatch callers
    select on `done` instead): Close() after shutdown cannot panic either -/
theorem start_keeps_opChan_open : Gen.Hub.startClosesOpChan = some false := by decide

end Ibx.Tie.Hub
