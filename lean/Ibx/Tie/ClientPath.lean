import Ibx.Gen.Rest
import Ibx.Model.ClientJoin
/-
  T1 tie for the client's path (C14, C04): which variant of `Model.ClientJoin.NameEsc` pkg/rest/client is.

  The regenerated facts `clientEscapers` / `clientJoin` (Ibx/Gen/Rest.lean; the extractor interprets every request-building
  method of apiv1_client.go abstractly, through helpers) say, per operation, the method and the URI that reaches
  http.NewRequest: literal text, `{QueryEscape:n}` / `{PathEscape:n}` = that function applied to the n-th string parameter,
  `{raw:n}` = the parameter as it is, `{?}` = anything else (path.Join, fmt.Sprintf, a helper the interpreter cannot see
  through); and what restClient.do does with the URI (`JoinPath` = `<baseURL>.JoinPath(uri).String()`: no url.Parse of the
  uri, no second escape or unescape by the client itself).  The model `clientRoute` assumes: the mailbox name — parameter 1 of
  every operation — goes through url.QueryEscape, the id — parameter 2 — goes in raw, joined by "/" behind the literal
  "/api/v1/mailbox/", and the URL is formed by JoinPath.
-/
namespace Ibx.Tie.ClientPath
open Ibx.Model.ClientJoin

/-- the URIs of List, Get, MarkSeen, Source, Delete, Purge when the name is QueryEscaped and the id raw -/
def queryEscapeShapes : List String :=
  ["GET /api/v1/mailbox/{QueryEscape:1}", "GET /api/v1/mailbox/{QueryEscape:1}/{raw:2}",
   "PATCH /api/v1/mailbox/{QueryEscape:1}/{raw:2}", "GET /api/v1/mailbox/{QueryEscape:1}/{raw:2}/source",
   "DELETE /api/v1/mailbox/{QueryEscape:1}/{raw:2}", "DELETE /api/v1/mailbox/{QueryEscape:1}"]

/-- the variant a set of extracted shapes stands for; an unescaped name (`{raw:1}`), a name that went through something the
    extractor does not know (`{?}`: path.Join …), another join — all select none -/
def variantOf (shapes : List String) (join : String) : Option NameEsc :=
  if shapes = queryEscapeShapes ∧ join = "JoinPath" then some .queryEscape else none

/-- every request-building method passes the mailbox name through url.QueryEscape before it is joined into the path, the id
    goes in as it is, and restClient.do forms the URL with JoinPath: the client is the `queryEscape` variant -/
theorem client_variant_tie : variantOf Gen.Rest.clientEscapers Gen.Rest.clientJoin = some .queryEscape := by decide

end Ibx.Tie.ClientPath
