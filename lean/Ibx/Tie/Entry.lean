import Ibx.Gen.Entry
import Ibx.Gen.Rest
import Ibx.Gen.Smtp
/-
  T1 tie for "the ways into the store" (C06, system level).

  `Props.Sys.no_oversize_no_overfull` holds for histories in which every delivery comes through SMTP.  That this is all the
  running program can do is a fact about the SOURCE: the facts of Ibx/Gen/Entry.lean are recomputed on every run by
  harness/cmd/extract/entry.go, which type-checks every package under pkg/ and cmd/ (go/types) and resolves every use of a
  method of message.Manager / storage.Store by the method OBJECT and the receiver's type — a use through an interface of
  another name, a method value, a call in a `go` / `defer` statement count alike.  Functions are named by role (the DATA
  handler = what the SMTP session loop calls in state DATA) or by the exported functions they are reachable from, so that
  renaming a local or an unexported helper, or extracting one, changes no fact; a new call site, route, listener, HTTP
  server, exposed Lua function or store / manager implementation does.  Shapes the extractor does not understand come out as
  "unknown", which none of the statements below accepts.

  Not searched for because the language excludes it: an assignment to a store's internals from another package (the fields of
  mem.Store and file.Store are unexported).  Outside go/types' view: reflection, `unsafe`, plugins — `escapeHatches_tie` pins
  that no package which touches the store or the manager imports them.
-/
namespace Ibx.Tie.Entry
open Ibx

/-- every package type-checked; nothing was skipped -/
theorem loaded_tie : Gen.Entry.loaded = true ∧ Gen.Entry.loadError = "" := by decide

/-- the only analysed package no program links is the test-support package -/
theorem unlinked_tie : Gen.Entry.unlinked = ["pkg/test"] := by decide

/-! ### (i) who hands a message to the manager -/

/-- `Deliver` of a message.Manager is used ONCE in the whole program: a plain call in the SMTP DATA handler … -/
theorem deliverSites_tie : Gen.Entry.deliverSites = [("pkg/server/smtp", "<DATA handler>", "call")] := by decide

/-- … in the function whose every path to `Deliver` passes the size test (Tie.Smtp.dataSizeCheck_tie states the same fact for
    the session model; repeated here because this is what makes the one site harmless) -/
theorem deliverSite_behind_size_check : Gen.Smtp.dataSizeCheck = "afterRead" := by decide

/-- one implementation of message.Manager -/
theorem managerImpls_tie : Gen.Entry.managerImpls = ["pkg/message.StoreManager"] := by decide

/-! ### (ii) who hands a message to a store -/

/-- `AddMessage` of a storage.Store is used ONCE: a plain call inside `StoreManager.Deliver` -/
theorem addMessageSites_tie : Gen.Entry.addMessageSites = [("pkg/message", "StoreManager.Deliver", "call")] := by decide

/-- two implementations of storage.Store, the ones C07 models -/
theorem storeImpls_tie : Gen.Entry.storeImpls = ["pkg/storage/file.Store", "pkg/storage/mem.Store"] := by decide

/-- the methods of Manager / Store that put a message into the store; a name this file does not know counts as one -/
def adds (m : String) : Bool :=
  !(m ∈ ["Manager.GetMetadata", "Manager.GetMessage", "Manager.MarkSeen", "Manager.PurgeMessages", "Manager.RemoveMessage",
    "Manager.SourceReader", "Manager.MailboxForAddress", "Store.GetMessage", "Store.GetMessages", "Store.MarkSeen",
    "Store.PurgeMessages", "Store.RemoveMessage", "Store.VisitMailboxes"])

/-- the packages whose code touches the manager or a store at all (the actors of Model.Sys: SMTP, POP3, REST + web UI,
    retention in pkg/storage, the manager itself, and the stores calling their own methods) -/
def actors : List String :=
  ["pkg/message", "pkg/rest", "pkg/server/pop3", "pkg/server/smtp", "pkg/storage", "pkg/storage/file", "pkg/storage/mem", "pkg/webui"]

/-- no other package uses a method of the manager or of a store; the adding methods are used by the SMTP server
    (Manager.Deliver) and by the manager (Store.AddMessage) only — POP3, REST, web UI, retention never add -/
theorem packageUses_tie :
    (∀ p ∈ Gen.Entry.packageUses, p.1 ∈ actors) ∧
    (∀ p ∈ Gen.Entry.packageUses, ∀ m ∈ p.2, adds m = true →
      (p.1, m) ∈ [("pkg/server/smtp", "Manager.Deliver"), ("pkg/message", "Store.AddMessage")]) := by
  decide +kernel

/-- POP3 reads and removes, nothing else -/
theorem pop3Uses_tie : Gen.Entry.packageUses.lookup "pkg/server/pop3" = some ["Store.GetMessages", "Store.RemoveMessage"] := by
  decide +kernel

/-! ### (iii) HTTP -/

/-- the functions registered as routes (Gen.Rest.routes, read from the SetupRoutes functions) are exactly the functions converted to
    web.Handler anywhere in the program -/
theorem handlerNames_tie :
    (∀ r ∈ Gen.Rest.routes.getD [], r.1 ∈ Gen.Entry.handlerCalls.map (·.1)) ∧
    (∀ h ∈ Gen.Entry.handlerCalls, h.1 ∈ (Gen.Rest.routes.getD []).map (·.1)) ∧
    Gen.Rest.routes.isSome = true := by
  decide +kernel

/-- the method name of a row of the behaviour table: `GetMessage(canon,var:id)` ↦ `Manager.GetMessage` -/
def tableMethod (s : String) : String := "Manager." ++ String.ofList (s.toList.takeWhile (· != '('))

/-- two independent readings agree: for every handler that has a behaviour table (Gen.Rest.handlers, computed by abstract
    interpretation of the handler body) the Manager methods of the table are exactly the ones go/types resolves -/
theorem handlerCalls_agree :
    ∀ h ∈ Gen.Rest.handlers, ∃ c ∈ Gen.Entry.handlerCalls, c.1 = h.1 ∧
      (∀ m ∈ c.2.1, m ∈ (h.2.flatMap (·.2.1)).map tableMethod) ∧
      (∀ m ∈ (h.2.flatMap (·.2.1)).map tableMethod, m ∈ c.2.1) := by
  decide +kernel

/-- no handler can reach a method that adds: what a request can do to the message set is mark, remove, purge -/
theorem no_handler_adds : ∀ h ∈ Gen.Entry.handlerCalls, ∀ m ∈ h.2.1, adds m = false := by decide +kernel

/-- every route is registered for GET, DELETE or PATCH -/
theorem routeMethods_tie : ∀ r ∈ Gen.Rest.routes.getD [], r.2.2.1 ∈ ["GET", "DELETE", "PATCH"] := by decide +kernel

/-- one handler reads the request body: the PATCH that marks a message seen -/
theorem bodyReaders_tie : (Gen.Entry.handlerCalls.filter (·.2.2)).map (·.1) = ["MailboxMarkSeenV1"] := by decide +kernel

/-- everything else registered on a router (static files, the SPA page, redirects, expvar, pprof) is set up in web.NewServer,
    from which no method of the manager or of a store is reachable -/
theorem otherHttpHandlers_tie : Gen.Entry.otherHttpHandlers = [("pkg/server/web", "NewServer", 14, [])] := by decide

/-- one HTTP server; three kinds of listening sockets (SMTP plain + TLS, POP3, HTTP): the interfaces of Model.Sys -/
theorem servers_tie :
    Gen.Entry.httpServers = [("pkg/server/web", 1)] ∧
    Gen.Entry.listeners = [("pkg/server/pop3", 1), ("pkg/server/smtp", 2), ("pkg/server/web", 1)] := by decide

/-! ### (iv) Lua -/

/-- the Go functions handed to scripts (constructors and accessors of the event types, the three preloaded modules) reach no
    method of the manager or of a store, and the Lua host cannot even name their types -/
theorem lua_tie :
    Gen.Entry.luaExposed = 22 ∧ Gen.Entry.luaExposedUses = [] ∧ Gen.Entry.luaPreloads = ["http", "json", "logger"] ∧
    (∀ p ∈ Gen.Entry.luaLinks, p ∉ ["unknown", "pkg/message", "pkg/storage", "pkg/storage/file", "pkg/storage/mem", "pkg/server/web"]) := by
  decide +kernel

/-- no package that touches the manager or a store imports reflect, unsafe or plugin -/
theorem escapeHatches_tie : Gen.Entry.escapeHatches = [] := by decide

end Ibx.Tie.Entry
