import Ibx.Gen.Retention
import Ibx.Model.Retention
/-
  T1 tie for C12: the shape of `DoScan` / `Start` that Ibx/Model/Retention.lean transcribes, as regenerated from
  pkg/storage/retention.go on every run (Ibx/Gen/Retention.lean).  If the source changes one of them these
  obligations stop checking.
-/
namespace Ibx.Tie.Retention
open Ibx.Gen.Retention

/-- `expired`: a message is removed iff `msg.Date().Before(cutoff)` (strictly before) -/
theorem removeGuard_tie : removeGuard = some "msg.Date().Before(cutoff)" := by decide
/-- `cutoffOf`: cutoff = now + (-1) * period -/
theorem cutoff_tie : cutoffExpr = some "time.Now().Add(-1 * rs.retentionPeriod)" := by decide
/-- `sweep`: one loop over the snapshot handed to the callback -/
theorem rangeLoop_tie : rangeLoop = some "for _, msg := range messages" := by decide
/-- removal is by (mailbox, id) of the snapshot entry, through the store's RemoveMessage; exactly one call site,
    none for messages that are not before the cutoff -/
theorem removeCall_tie : removeCall = some "rs.ds.RemoveMessage(msg.Mailbox(), msg.ID())" ∧ removeCalls = 1 ∧ removeInElse = false := by decide
/-- a RemoveMessage error is only logged: the error branch holds no statement but logging … -/
theorem removeErr_tie : removeErrBranch = "err != nil => []" := by decide
/-- … and the callback says `false` only in the ctx.Done case of its select; otherwise `true` -/
theorem callbackReturns_tie : callbackReturns = ["false@<-ctx.Done()", "true@-"] := by decide
/-- `check`: DoScan's only wait is one select between ctx.Done (abort) and the retentionSleep timer -/
theorem doScanSelects_tie : doScanSelects = [(true, "return false", "<-time.After(rs.retentionSleep)")] ∧ doScanBareBlocking = [] := by decide
/-- DoScan hands back VisitMailboxes' error -/
theorem visitErr_tie : visitCall = "err := rs.ds.VisitMailboxes" ∧ visitErrCheck = some "if err != nil { return err }" := by decide
/-- `start`: `retentionPeriod <= 0` closes the shutdown channel and returns before the loop -/
theorem disable_tie : disableCond = some "rs.retentionPeriod <= 0" ∧ disableBody = "close(rs.retentionShutdown); return" := by decide
/-- `loop`: wait (only if less than a minute since the last kick-off) in a select with ctx.Done, scan once, poll ctx.Done -/
theorem loopShape_tie : loopShape = ["since := time.Since(start)", "if since < time.Minute", "start = time.Now()", "scan", "select"] ∧
    startScanCalls = 1 ∧ throttleCond = "since < time.Minute" := by decide
/-- every blocking wait of Start is a select with a ctx.Done case that leaves the loop -/
theorem startSelects_tie : startSelects = [(true, "break retentionLoop", "<-time.After(dur)"), (true, "break retentionLoop", "default")] ∧
    startBareBlocking = [] := by decide
/-- all selects of both functions have the ctx.Done case (the form the statement of C12 uses) -/
theorem every_wait_has_done : (doScanSelects ++ startSelects).all (·.1) = true := by decide

/-- the model's reading of the two expressions -/
example : Ibx.Model.Retention.cutoffOf 1000 300 = 700 := by decide
example : Ibx.Model.Retention.expired 700 { box := [], id := 1, hdr := { sender := [], rcpts := [], subject := [], date := 699 }, seen := false, source := [] } = true := by decide
example : Ibx.Model.Retention.expired 700 { box := [], id := 1, hdr := { sender := [], rcpts := [], subject := [], date := 700 }, seen := false, source := [] } = false := by decide

end Ibx.Tie.Retention
