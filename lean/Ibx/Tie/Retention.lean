import Ibx.Gen.Retention
import Ibx.Model.Retention
/-
  T1 tie for C12: the shape of `DoScan` / `Start` / `Join` that Ibx/Model/Retention.lean transcribes, as regenerated
  from pkg/storage/retention.go on every run (Ibx/Gen/Retention.lean).

  Every fact is STRUCTURAL (harness/cmd/extract/retention.go): it is read off go/ast shapes — selectors of exported /
  standard-library names (`Before`, `Date`, `Mailbox`, `ID`, `RemoveMessage`, `VisitMailboxes`, `time.Now`, `Add`,
  `time.After`, `time.Since`, `time.Minute`, `Done`, `close`), operators, literals, path conditions and data-flow
  identity — and not off the spelling of locals, receivers, unexported fields / helpers, labels or log text.
  Unexported helpers are followed as if inlined; `if c {A} else {B}`, `if !c {B; continue}; A` and a tagless
  `switch` give the same path conditions.  Unexported fields are named by anchors: "the field the constructor
  initialises from <config>.RetentionPeriod / RetentionSleep", "the field VisitMailboxes is called on", "the
  channel field Join receives from".  A shape that is not recognised yields "unknown" / false, which nothing
  below accepts.  If the source changes one of these facts the obligation stops checking.
-/
namespace Ibx.Tie.Retention
open Ibx.Gen.Retention

/-- the four functions were found and their control flow is of the kind the path-condition walker understands -/
theorem flow_tie : flowRecognised = true := by decide
/-- `expired`: inside the loop body the RemoveMessage call is reached under exactly one condition,
    `<loop message>.Date().Before(<cutoff>)` (strictly before; `cutoff.After(date)` is the same thing) -/
theorem removeGuard_tie : removeGuard = "dateBeforeCutoff" := by decide
/-- `cutoffOf`: that cutoff is `time.Now().Add(-1 * period)` (or `period * -1`, `-period`), evaluated once per scan
    outside the visitor callback, `period` being the field initialised from the configured RetentionPeriod -/
theorem cutoff_tie : cutoffShape = "nowMinusPeriod" ∧ cutoffAtScanLevel = true ∧ cutoffIsConfigPeriod = true := by decide
/-- `sweep`: one `range` loop over the snapshot handed to the callback (its own parameter), entered unconditionally,
    and nothing inside leaves it early (no return / break / goto): every message of the snapshot is looked at -/
theorem rangeLoop_tie : sweepLoop = "rangeOverSnapshot" ∧ sweepLoopExits = 0 := by decide
/-- removal is by (Mailbox(), ID()) of the loop's message, through RemoveMessage of the very store field that
    VisitMailboxes is called on; exactly one call site in DoScan (helpers followed) — hence none on the
    not-expired path, whose condition is the negation of the guard above -/
theorem removeCall_tie : removeArgs = "mailboxAndIdOfLoopMessage" ∧ removeOnVisitedStore = true ∧ removeCalls = 1 := by decide
/-- a RemoveMessage error is only logged: under `err != nil` nothing is reachable but logging chains (and a plain
    `continue`): no return, no break … -/
theorem removeErr_tie : removeErrEffect = "logOnly" := by decide
/-- … and the callback says `false` only directly in the `<-ctx.Done()` case of a select, and `true` only
    unconditionally (so the select is on every path: no early `return true` that would skip the cancellation point) -/
theorem callbackReturns_tie : callbackReturns = ["false@ctxDoneCase", "true@plain"] := by decide
/-- `check`: DoScan's only blocking operation is one select between ctx.Done (whose body, logging aside, is
    `return false`) and a `time.After` timer on the field initialised from the configured RetentionSleep -/
theorem doScanSelects_tie : doScanWaits = [("select", "returnFalse", ["timeAfter:sleepField"])] := by decide
/-- DoScan calls VisitMailboxes once and hands back its error -/
theorem visitErr_tie : visitCalls = 1 ∧ visitErrPropagated = true := by decide
/-- `start`: `period <= 0` (the field initialised from the configured RetentionPeriod — the same one the cutoff
    uses) closes the channel Join waits on and returns before the loop -/
theorem disable_tie : disableCond = "leZero" ∧ disableIsConfigPeriod = true ∧ disablePath = "closeJoinChanThenReturn" := by decide
/-- `loop`: one unconditional infinite loop whose turn is: measure the time since the last kick-off, wait — only if
    that is less than a minute — in a select, stamp the kick-off, scan once with the ctx parameter (an error is only
    logged), poll ctx.Done in a select with default -/
theorem loopShape_tie : loopOrder = ["since", "throttleWait", "stamp", "scan", "poll"] ∧ startLoops = 1 ∧ loopInfinite = true ∧
    startScanCalls = 1 ∧ throttleGuard = "sinceStampLtMinute" ∧ scanErrEffect = "logOnly" := by decide
/-- every blocking wait of Start is a select with a ctx.Done case that breaks out of the loop; the first one's
    timer is `time.Minute - time.Since(..)`, the second one has a default -/
theorem startSelects_tie : startWaits = [("select", "breakLoop", ["timeAfter:minuteMinusSince"]), ("select", "breakLoop", ["default"])] := by decide
/-- after the loop Start only logs and closes the channel Join waits on; Join's only blocking operation is the
    receive from that field; Start has the two closes (disabled path, end of loop) and no other -/
theorem join_tie : afterLoop = "closeJoinChan" ∧ joinWaits = ["recvField"] ∧ closesOfJoinChan = 2 := by decide
/-- all blocking operations of both functions are selects with a ctx.Done case that leaves (the form the statement
    of C12 uses) -/
theorem every_wait_has_done : (doScanWaits ++ startWaits).all (fun w => w.1 == "select" && (w.2.1 == "returnFalse" || w.2.1 == "breakLoop")) = true := by decide

/-- the variant of the callback (Model/Retention.lean: `Sweep`) a value of the regenerated fact `storeCalls` selects: the
    code's variant only when the COMPLETE list of methods DoScan and its callback call on the visited store is
    VisitMailboxes (once, unconditionally) and RemoveMessage (one site, the guarded one of `removeGuard_tie`).  Any other
    call on that store — PurgeMessages, AddMessage, MarkSeen, a second RemoveMessage site, the store handed to code
    that is not followed — selects nothing: `Props.C12.delivery_between_snapshot_and_sweep_survives` and
    `interleaved_removes_only_expired` are theorems about `removeEach`, and `purge_variant_loses_fresh_delivery` shows
    what one extra mutating call does. -/
def sweepOfCalls (l : List (String × Nat × String)) : Option Ibx.Model.Retention.Sweep :=
  if l = [("RemoveMessage", 1, "removeGuard"), ("VisitMailboxes", 1, "once")] then some .removeEach else none

/-- EVERY call DoScan and its callback make into the visited store: one VisitMailboxes, one guarded RemoveMessage, nothing else -/
theorem storeCalls_tie : sweepOfCalls storeCalls = some .removeEach := by decide
theorem storeCalls_list_tie : storeCalls = [("RemoveMessage", 1, "removeGuard"), ("VisitMailboxes", 1, "once")] := by decide
example : sweepOfCalls [("PurgeMessages", 1, "conditional"), ("RemoveMessage", 1, "removeGuard"), ("VisitMailboxes", 1, "once")] = none := by decide

/-- the model's reading of the two expressions -/
example : Ibx.Model.Retention.cutoffOf 1000 300 = 700 := by decide
example : Ibx.Model.Retention.expired 700 { box := [], id := 1, hdr := { sender := [], rcpts := [], subject := [], date := 699 }, seen := false, source := [] } = true := by decide
example : Ibx.Model.Retention.expired 700 { box := [], id := 1, hdr := { sender := [], rcpts := [], subject := [], date := 700 }, seen := false, source := [] } = false := by decide

end Ibx.Tie.Retention
