import Ibx.Gen.RestFault
import Ibx.Model.RestFault
import Ibx.Tie.Rest
/-
  T1 tie for C14 under a failing store: what Model.RestFault assumes about the ERROR PATHS of web.Handler.ServeHTTP,
  message.StoreManager and the ten mailbox handlers is what the regenerated skeletons (Ibx/Gen/RestFault.lean, re-read from the
  type-checked source on every run by harness/cmd/extract/rest_fault.go) say:

    * the wrapper answers every error a handler returns with http.Error(…, 500) and returns (`wrapper_tie`);
    * StoreManager makes the store-level calls the model's `Call`s stand for, in the model's order, and hands every error on
      as it is: `return nil, err` after Store.GetMessage (also for a nil message), after Message.Source, after
      enmime.ReadEnvelope; SourceReader returns Message.Source's answer; MarkSeen / RemoveMessage / PurgeMessages / GetMetadata
      return the store's error (`manager_tie`);
    * each handler (`handlers_tie`): MailboxForAddress first (`return err`); then ONE Manager call, whose error is tested as the
      model's `afterFetch` / mutation / bulk branches say — by `==` / `!=` against storage.ErrNotExist (`notExist_by_identity`:
      no errors.Is anywhere), 404 = http.NotFound + `return nil`, every other error wrapped and returned; then the only write to
      the ResponseWriter (`no_write_before_the_last_manager_call`); the store's reader is copied straight to the
      ResponseWriter exactly in the two source handlers (`streaming_only_in_source_handlers`).
-/
namespace Ibx.Tie.RestFault
open Ibx Ibx.Model.ClientUrl Ibx.Model.Rest Ibx.Model.RestFault
open Ibx.Tie.Rest (handlerFn modelled mgrCallOf CallKind)

abbrev Step := String × String × String

/-- every error — of NewContext, of the handler — is answered http.Error(w, err.Error(), 500) followed by `return`; the handler gets
    the ResponseWriter itself (Model.RestFault: `r500` for every returned error; `torn` when the body was begun) -/
theorem wrapper_tie : Gen.RestFault.wrapper =
    [("call", "web.NewContext", "err != nil => http.Error:500+return"), ("w", "handler", "err != nil => http.Error:500+return")] := by
  decide

/-- the store-level call each `Call` of the model stands for, as the extractor names it inside StoreManager -/
def callSite : Call → String
  | .getMessages => "Store.GetMessages" | .getMessage => "Store.GetMessage" | .sourceOpen => "Message.Source"
  | .sourceRead => "enmime.ReadEnvelope" | .markSeen => "Store.MarkSeen" | .removeMessage => "Store.RemoveMessage"
  | .purgeMessages => "Store.PurgeMessages"

/-- `err != nil [|| sm == nil]` → `return nil, err`: the error is handed on unchanged -/
def handOn (c : Call) (nilToo : Bool) : Step :=
  ("store", callSite c, if nilToo then "err != nil || res == nil => return-err" else "err != nil => return-err")

/-- `return <call>`: the error is handed on unchanged -/
def tail (c : Call) : Step := ("store", callSite c, "tail")

/-- message.StoreManager as Model.RestFault has it: `mgrGetMessage` = GetMessage · Source · ReadEnvelope (then a Close whose error
    is dropped), `mgrSourceReader` = GetMessage · `return sm.Source()`, the others one store call returned as it is -/
theorem manager_tie : Gen.RestFault.manager = [
    ("GetMetadata", [handOn .getMessages false]),
    ("GetMessage", [handOn .getMessage true, handOn .sourceOpen false, handOn .sourceRead false, ("call", "io.ReadCloser.Close", "ignored")]),
    ("SourceReader", [handOn .getMessage true, tail .sourceOpen]),
    ("MarkSeen", [tail .markSeen]),
    ("RemoveMessage", [tail .removeMessage]),
    ("PurgeMessages", [tail .purgeMessages])] := by decide +kernel

def canonFirst : Step := ("mgr", "MailboxForAddress", "err != nil => return-err")

/-- the tests after the handler's Manager call, as `afterFetch` / the mutation and bulk branches of `handleV` make them -/
def testsOf (h : Handler) : String :=
  match (mgrCallOf h).2.2 with
  | .bulk => "err != nil => return-wrapped"
  | .mutate => "err == ErrNotExist => http.NotFound+return-nil ; err != nil => return-wrapped"
  | .fetch =>
    if nilGuarded h then "err != nil && err != ErrNotExist => return-wrapped ; res == nil => http.NotFound+return-nil"
    else "err == ErrNotExist => http.NotFound+return-nil ; err != nil => return-wrapped"

/-- the one write: the source handlers copy the reader, html / attachment write bytes, the others render JSON -/
def writeOf (h : Handler) : Step :=
  if streams h then ("w", "io.Copy", "then return-err")
  else if h = .wHtml ∨ h = .wAttach then ("w", "ResponseWriter.Write", "then return-err")
  else ("w", "web.RenderJSON", "tail")

/-- the skeleton of a handler as the model has it -/
def skeletonOf (h : Handler) : List Step :=
  let call : Step := ("mgr", (mgrCallOf h).1, testsOf h)
  [canonFirst] ++
  (match h with
   | .seenV1 => [("call", "json.Decoder.Decode", "err != nil => return-wrapped"), ("ctl", "if", ""), call, ("ctl", "end", "")]
   | .wAttach => [("call", "strconv.ParseUint", "err != nil => return-err"), call, ("ctl", "if", ""), ("ctl", "return-wrapped", ""), ("ctl", "end", "")]
   | .wMessage => [call, ("ctl", "if", ""), ("call", "sanitize.HTML", "err == nil => assign ; else => assign"), ("ctl", "end", "")]
   | _ => [call]) ++
  [writeOf h]

/-- per handler: canonicalisation first, one Manager call with exactly the model's tests (404 = http.NotFound + `return nil` where the
    model has a 404, every other error wrapped and returned), one write at the end -/
theorem handlers_tie : Gen.RestFault.handlers = modelled.map (fun h => (handlerFn h, skeletonOf h)) := by decide +kernel

/-- nothing is written to the ResponseWriter before the last Manager call of a handler (Model.RestFault: `torn` only in `copyOut`) -/
def writesLast (l : List Step) : Bool :=
  (l.dropWhile (fun s => s.1 != "w")).all (fun s => s.1 != "mgr")

theorem no_write_before_the_last_manager_call : ∀ h ∈ Gen.RestFault.handlers, writesLast h.2 = true := by decide +kernel

/-- every use of storage.ErrNotExist in a handler is a comparison of identity, `==` / `!=`: no errors.Is (`ErrV.isNotExist`) -/
theorem notExist_by_identity : ∀ h ∈ Gen.RestFault.notExistTests, ∀ t ∈ h.2, t = "==" ∨ t = "!=" := by decide +kernel

theorem notExistTests_cover : Gen.RestFault.notExistTests.map (·.1) = modelled.map handlerFn := by decide +kernel

/-- nothing unrecognised in any skeleton -/
theorem skeletons_known :
    (∀ s ∈ Gen.RestFault.wrapper, s.2.1 ≠ "unknown") ∧
    (∀ m ∈ Gen.RestFault.manager, ∀ s ∈ m.2, s.2.1 ≠ "unknown") ∧
    (∀ h ∈ Gen.RestFault.handlers, ∀ s ∈ h.2, s.2.1 ≠ "unknown") := by decide +kernel

/-- the store's reader is copied to the ResponseWriter exactly by the two source handlers (`streams`) -/
theorem streaming_only_in_source_handlers :
    (Gen.RestFault.handlers.filter (fun h => h.2.any (fun s => s.1 == "w" && s.2.1 == "io.Copy"))).map (·.1) =
      (modelled.filter streams).map handlerFn := by decide +kernel

/-- the handlers that parse the message are those that call Manager.GetMessage (`parses`) -/
theorem parsing_handlers_tie :
    (Gen.RestFault.handlers.filter (fun h => h.2.any (fun s => s.1 == "mgr" && s.2.1 == "GetMessage"))).map (·.1) =
      (modelled.filter parses).map handlerFn := by decide +kernel

/-- the mutating Manager call of each handler is the one `mutCall` names -/
theorem mutating_calls_tie :
    modelled.map (fun h => (mutCall h).map callSite) =
      Gen.RestFault.handlers.map (fun h =>
        (h.2.find? (fun s => s.1 == "mgr" && (s.2.1 == "MarkSeen" || s.2.1 == "RemoveMessage" || s.2.1 == "PurgeMessages"))).map
          (fun s => "Store." ++ s.2.1)) := by decide +kernel

end Ibx.Tie.RestFault
