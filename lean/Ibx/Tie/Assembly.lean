import Ibx.Gen.Assembly
/-
  T1 tie for the ASSEMBLY leg (ASM): the wiring of the program's glue, as regenerated from the source on every run
  (Ibx/Gen/Assembly.lean, extractor harness/cmd/extract/assembly.go).

  The facts are about the ORIGIN of call arguments, not about statement text:
    `$i`            the i-th parameter of the enclosing function, `$i.A.B` a selector path on it,
    `@pkg.F#k`      the result of the k-th call of pkg.F in the function (whatever the local variable is called),
    `&T{…}#k`       the k-th composite literal of that description bound to a local variable.
  The composed model (Ibx/Model/Sys.lean) and the assembly harness (harness/cmd/drive/asm.go) assume exactly this
  wiring: ONE store shared by the manager, the POP3 server and the retention scanner; ONE address policy shared by the
  manager and the SMTP server; ONE extension host; ONE manager behind SMTP and the web handlers; every component
  configured from its own section of the ONE configuration; the configuration lists lower-cased.
  If the source changes one of them these obligations stop checking.
-/
namespace Ibx.Tie.Assembly
open Ibx.Gen.Assembly

def host : String := "@extension.NewHost#1"
def store : String := "@storage.FromConfig#1"
def addressing : String := "&policy.Addressing{Config:$0}#1"
def manager : String :=
  "&message.StoreManager{AddrPolicy:&policy.Addressing{Config:$0}#1,ExtHost:@extension.NewHost#1,Store:@storage.FromConfig#1}#1"

/-- the arguments of the (only) call of `f` in FullAssembly; `none` when there is none or more than one -/
def argsOf (f : String) : Option (List String) :=
  match assemblyCalls.filter (fun c => c.1 == f) with
  | [c] => some c.2
  | _ => none

/-! ### server.FullAssembly -/

/-- ONE extension host is built and handed to the Lua host, the store constructor, the hub and the SMTP server -/
theorem one_extension_host :
    argsOf "extension.NewHost" = some [] ∧
    argsOf "luahost.New" = some ["$0.Lua", host] ∧
    argsOf "storage.FromConfig" = some ["$0.Storage", host] ∧
    argsOf "msghub.New" = some ["$0.Web.MonitorHistory", host] ∧
    (argsOf "smtp.NewServer").map (·.getD 3 "") = some host ∧
    managerLit.lookup "ExtHost" = some host ∧ servicesLit.lookup "ExtHost" = some host := by decide

/-- ONE store (one `storage.FromConfig(conf.Storage, host)` call) goes to the manager, the POP3 server and the
    retention scanner -/
theorem one_store_shared :
    argsOf "storage.FromConfig" = some ["$0.Storage", host] ∧
    managerLit.lookup "Store" = some store ∧
    argsOf "pop3.NewServer" = some ["$0.POP3", store] ∧
    argsOf "storage.NewRetentionScanner" = some ["$0.Storage", store] := by decide

/-- ONE `policy.Addressing` over the whole configuration goes to the manager and to the SMTP server -/
theorem one_addressing_shared :
    addressingLit = [("Config", "$0")] ∧
    managerLit.lookup "AddrPolicy" = some addressing ∧
    (argsOf "smtp.NewServer").map (·.getD 2 "") = some addressing := by decide

/-- ONE manager (store + address policy + host) is behind the SMTP server and the web / REST handlers -/
theorem one_manager_shared :
    managerLit = [("AddrPolicy", addressing), ("ExtHost", host), ("Store", store)] ∧
    argsOf "smtp.NewServer" = some ["$0.SMTP", manager, addressing, host] ∧
    argsOf "web.NewServer" = some ["$0", manager, "@msghub.New#1"] := by decide +kernel

/-- the hub keeps `conf.Web.MonitorHistory` messages and is the hub the web handlers attach monitors to -/
theorem hub_wiring :
    argsOf "msghub.New" = some ["$0.Web.MonitorHistory", host] ∧
    (argsOf "web.NewServer").map (·.getD 2 "") = some "@msghub.New#1" ∧
    servicesLit.lookup "MsgHub" = some "@msghub.New#1" := by decide

/-- both sub-routers are mounted under the prefixer made from `conf.Web.BasePath` -/
theorem routes_under_base_path :
    argsOf "stringutil.MakePathPrefixer" = some ["$0.Web.BasePath"] ∧
    argsOf "webui.SetupRoutes" = some ["web.Router.PathPrefix(@stringutil.MakePathPrefixer#1(\"/serve/\")).Subrouter()"] ∧
    argsOf "rest.SetupRoutes" = some ["web.Router.PathPrefix(@stringutil.MakePathPrefixer#1(\"/api/\")).Subrouter()"] := by decide

/-- every component is configured from its own section of the one configuration, which FullAssembly only reads -/
theorem sections :
    (argsOf "smtp.NewServer").map (·.head?) = some (some "$0.SMTP") ∧
    (argsOf "pop3.NewServer").map (·.head?) = some (some "$0.POP3") ∧
    (argsOf "web.NewServer").map (·.head?) = some (some "$0") ∧
    (argsOf "storage.FromConfig").map (·.head?) = some (some "$0.Storage") ∧
    (argsOf "storage.NewRetentionScanner").map (·.head?) = some (some "$0.Storage") ∧
    assemblyParamWrites = [] := by decide

/-- the whole list of constructor / route set-up calls (nothing is built twice, nothing else is built) -/
theorem assembly_calls_exact :
    assemblyCalls.map (·.1) = ["extension.NewHost", "luahost.New", "msghub.New", "pop3.NewServer", "rest.SetupRoutes", "smtp.NewServer",
      "storage.FromConfig", "storage.NewRetentionScanner", "stringutil.MakePathPrefixer", "web.NewServer", "webui.SetupRoutes"] := by decide

/-- what `*Services` exposes is what was built; its one unexported field initialised here (named by its declared
    type, `~*sync.WaitGroup`, not by its spelling) is a fresh WaitGroup -/
theorem services_fields :
    servicesLit = [("ExtHost", host), ("LuaHost", "@luahost.New#1"), ("MsgHub", "@msghub.New#1"), ("POP3Server", "@pop3.NewServer#1"),
      ("RetentionScanner", "@storage.NewRetentionScanner#1"), ("SMTPServer", "@smtp.NewServer#1"), ("WebServer", "@web.NewServer#1"),
      ("~*sync.WaitGroup", "&sync.WaitGroup{}")] := by decide

/-- `Start` starts the hub, the three servers (each with a ready function) and the scanner, all on the caller's context;
    `Notify` merges the three servers' failure channels.  The ready function is named by ROLE (`~readyFunc`: an
    unexported method of the receiver that `Add(1)`s the `*sync.WaitGroup` field `Start` waits on and returns a function
    literal calling that field's `Done`), the merging helper is found by being called from `FullAssembly` on the value it
    returns — neither by its spelling. -/
theorem start_and_notify :
    startedServices = ["$recv.MsgHub.Start($0)", "$recv.POP3Server.Start($0,$recv.~readyFunc())", "$recv.RetentionScanner.Start($0)",
      "$recv.SMTPServer.Start($0,$recv.~readyFunc())", "$recv.WebServer.Start($0,$recv.~readyFunc())"] ∧
    watchedServices = ["$recv.POP3Server.Notify()", "$recv.SMTPServer.Notify()", "$recv.WebServer.Notify()"] := by decide

/-! ### storage.FromConfig and the constructors -/

/-- the constructor is looked up by `Type` and gets the configuration and the host as they came in -/
theorem fromConfig_passes_through :
    fromConfigLookup = some "$0.Type" ∧ fromConfigCtorArgs = some ["$0", "$1"] ∧ fromConfigParamWrites = [] := by decide

/-- the memory store reads the cap and the `maxkb` parameter; the file store the cap and the `path` parameter -/
theorem constructors_read :
    memNewReads = ["$0.MailboxMsgCap", "$0.Params[\"maxkb\"]"] ∧ memNewWrites = [] ∧
    fileNewReads = ["$0.MailboxMsgCap", "$0.Params[\"path\"]"] ∧ fileNewWrites = [] := by decide

/-- the scanner's cutoff uses `RetentionPeriod`, its pause `RetentionSleep`, its store is the one it was given -/
theorem scanner_origins :
    scannerCutoffPeriodOrigin = ["$0.RetentionPeriod"] ∧ scannerSleepOrigin = ["$0.RetentionSleep"] ∧ scannerStoreOrigin = ["$1"] := by decide

/-- cmd/inbucket registers exactly the two back-ends under the names the configuration uses -/
theorem registered_backends : registeredConstructors = [("file", "file.New"), ("memory", "mem.New")] := by decide

/-! ### config.Process -/

/-- the environment prefix; EVERY list of the configuration is lower-cased (the policy model compares lower-cased
    domains with the list entries verbatim), and so is the log level -/
theorem process_lowercases :
    envPrefix = "inbucket" ∧ loweredLists = listFields ∧
    listFields = ["SMTP.AcceptDomains", "SMTP.DiscardDomains", "SMTP.RejectDomains", "SMTP.RejectOriginDomains", "SMTP.StoreDomains"] ∧
    logLevelLowered = true := by decide

/-- the naming mode is decoded case-insensitively into the three modes; anything else is an error -/
theorem naming_decode :
    namingSwitchTag = some "strings.ToLower($0)" ∧
    namingCases = [("local", "LocalNaming"), ("full", "FullNaming"), ("domain", "DomainNaming")] ∧
    namingDefaultIsError = true := by decide

/-- the defaults the assembly harness relies on when it leaves a variable unset -/
theorem defaults_used :
    defaults.lookup "Storage.RetentionPeriod" = some "24h" ∧ defaults.lookup "Web.BasePath" = some "" ∧
    defaults.lookup "MailboxNaming" = some "local" ∧ defaults.lookup "Storage.Type" = some "memory" ∧
    defaults.lookup "SMTP.TLSEnabled" = some "false" ∧ defaults.lookup "SMTP.ForceTLS" = some "false" ∧
    defaults.lookup "POP3.TLSEnabled" = some "false" ∧ defaults.lookup "POP3.ForceTLS" = some "false" ∧
    defaults.lookup "Web.PProf" = some "false" := by decide

/-! ### the servers' constructors -/

/-- web.NewServer: base path from `conf.Web.BasePath`; the handlers' package variables are its three parameters; the
    listener address is the configuration's `Web.Addr` -/
theorem web_server :
    webPrefixArgs = [("stringutil.MakePathPrefixer", ["$0.Web.BasePath"])] ∧
    webPackageVars = [("manager", "$1"), ("msgHub", "$2"), ("rootConfig", "$0")] ∧
    webServerAddr = ["rootConfig.Web.Addr"] := by decide

/-- the SMTP server keeps all four parameters (configuration, manager, address policy, host), the POP3 server both
    (configuration, store) -/
theorem servers_keep_parameters :
    smtpServerKeeps = ["$0", "$1", "$2", "$3"] ∧ pop3ServerKeeps = ["$0", "$1"] := by decide

/-! ### cmd/inbucket main -/

/-- the sequence the assembly harness copies: Process, FullAssembly on its result, Start on a cancellable context,
    cancel, Drain SMTP, Drain POP3, Join the scanner; a clean shutdown may take 15 s -/
theorem main_sequence :
    mainSequence = ["config.Process", "server.FullAssembly(@config.Process#1)", "@server.FullAssembly#1.Start(@context.WithCancel#1)",
      "@context.WithCancel#1.1", "@server.FullAssembly#1.SMTPServer.Drain", "@server.FullAssembly#1.POP3Server.Drain",
      "@server.FullAssembly#1.RetentionScanner.Join"] ∧
    timedExitSleep = "15 * time.Second" := by decide

/-- the signal / service-failure loop: SIGINT, SIGTERM and a failed service all leave it (and nothing else does), and
    every way out cancels the services' context before the drain calls (otherwise Drain / Join never return and only
    timedExit ends the process).  The ways out are computed from path conditions, so a `switch`, an if / else chain, a
    guard clause, and one cancel call per branch or a single one right after the loop are the same fact. -/
theorem main_loop_cancels :
    mainLoopWays = [("notify", true), ("signal:syscall.SIGINT", true), ("signal:syscall.SIGTERM", true)] ∧
    mainLoopExits = (3, 0) ∧ mainSignals = ["syscall.SIGINT", "syscall.SIGTERM"] ∧ mainWatchesServiceFailure = true := by decide

/-- `argsOf` distinguishes: a function that is not called has no arguments -/
example : argsOf "storage.NewFromNowhere" = none := by decide
example : argsOf "pop3.NewServer" ≠ argsOf "smtp.NewServer" := by decide

end Ibx.Tie.Assembly
