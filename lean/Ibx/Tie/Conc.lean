import Ibx.Gen.Conc
import Ibx.Model.ConcMem
import Ibx.Model.ConcFile
/-
  T1 tie for C09: the variants of the concurrent models that the theorems of Ibx/Props/C09.lean are about are the
  ones the source has NOW.  The facts are regenerated from pkg/storage/mem/{store,maxsize,message}.go,
  pkg/storage/file/fstore.go and pkg/storage/lock.go on every run (harness/cmd/extract/conc.go); a fact whose
  code shape is not recognised is "unknown"/false and none of these obligations accepts it.
-/
namespace Ibx.Tie.Conc
open Ibx.Model

/-- translate the regenerated facts into the model's variant -/
def memRemove : Option ConcMem.RemoveVar :=
  if Gen.Conc.memEnforcerRemove = "goneFlag" then some .goneFlag
  else if Gen.Conc.memEnforcerRemove = "unguarded" then some .unguarded else none

def memSite : Option ConcMem.CallSite :=
  if Gen.Conc.memEnforcerCallSite = "outsideLock" then some .outsideLock
  else if Gen.Conc.memEnforcerCallSite = "insideLock" then some .insideLock else none

def fileEnoent : Option ConcFile.EnoentVar :=
  if Gen.Conc.fileVisitENOENT = "tolerated" then some .tolerated
  else if Gen.Conc.fileVisitENOENT = "fatal" then some .fatal else none

/-- the remove case of the enforcer tests `m.el == nil` and sets `m.gone` -/
theorem memEnforcerRemove_tie : memRemove = some ConcMem.Variant.code.remove := by decide
/-- enforcerDeliver / enforcerRemove are called after withMailbox has returned -/
theorem memEnforcerCallSite_tie : memSite = some ConcMem.Variant.code.site := by decide
/-- the `incoming` case skips messages already marked gone; the eviction loop stops on an empty list -/
theorem memEnforcerShape_tie : Gen.Conc.memIncomingSkipsGone = true ∧ Gen.Conc.memEvictStopsOnEmpty = true := by decide
/-- cap evictions are collected under the lock and announced to the enforcer afterwards (todoOf) -/
theorem memCapEvict_tie : Gen.Conc.memCapEvict = "collectsAndNotifies" ∧ Gen.Conc.memDeliverIsLast = true := by decide
/-- the seen flag is an atomic (the model treats it as shared state outside the mailbox lock) -/
theorem memSeenAtomic_tie : Gen.Conc.memSeenAtomic = true := by decide
/-- withMailbox releases the store mutex before taking the mailbox lock (step program lockS; unlockS; lockB) -/
theorem memWithMailbox_tie : Gen.Conc.memStoreLockReleasedBeforeBoxLock = true := by decide
/-- VisitMailboxes tolerates ENOENT on the level-1 and level-2 readdirs -/
theorem fileVisitENOENT_tie : fileEnoent = some .tolerated := by decide
/-- every other file-store operation holds its bucket lock from start to end; the visitor reads each mailbox
    under the read lock; the bucket is the level-1 directory -/
theorem fileLocks_tie : Gen.Conc.fileOpsHoldBucketLock = true ∧ Gen.Conc.fileVisitReadsLocked = true ∧
    Gen.Conc.fileBucketIsLevel1Dir = true ∧
    Gen.Conc.fileLockedOps = ["AddMessage", "GetMessage", "GetMessages", "MarkSeen", "PurgeMessages", "RemoveMessage"] := by decide

end Ibx.Tie.Conc
