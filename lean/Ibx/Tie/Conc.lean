import Ibx.Gen.Conc
import Ibx.Model.ConcMem
import Ibx.Model.ConcFile
/-
  T1 tie for C09: the variants of the concurrent models that the theorems of Ibx/Props/C09.lean are about are the
  ones the source has NOW.  The facts are regenerated from pkg/storage/mem/*.go, pkg/storage/file/*.go and
  pkg/storage/lock.go on every run (harness/cmd/extract/conc.go).

  The facts are STRUCTURAL: things are identified by exported / library names (PushBack, Front, Remove, Lock, RLock,
  Unlock, RUnlock, AfterMessageDeleted.Emit, MailboxMsgCap, atomic.Bool, os.IsNotExist, filepath.Join,
  strconv.ParseInt, AddMessage, ...), operators, literals, identity of variables, the conditions known to hold where
  a statement runs (from if / else, switch, guard clauses, loop conditions) and order in the view where unexported
  same-package helpers are inlined — never by the spelling of locals, parameters, receivers, unexported functions /
  types / fields, comments or messages.  Anchors used instead of unexported names:
    the size enforcer   = the method started with `go` that selects over two receiver channel fields, one case
                          calling PushBack (the registering case), the other being the un-registering case;
    the lock wrapper    = the function that calls its func parameter on a local it has locked (withMailbox);
    a rendezvous        = a send on one of those two channel fields (wherever a helper hides it).
  A fact whose code shape is not recognised is "unknown" / false / a different list and none of these obligations
  accepts it.
-/
namespace Ibx.Tie.Conc
open Ibx.Model

/-- translate the regenerated facts into the model's variant -/
def memRemove : Option ConcMem.RemoveVar :=
  if Gen.Conc.memEnforcerRemove = "goneFlag" then some .goneFlag
  else if Gen.Conc.memEnforcerRemove = "unguarded" then some .unguarded else none

def memSite : Option ConcMem.CallSite :=
  if Gen.Conc.memEnforcerCallSite = "outsideLock" then some .outsideLock
  else if Gen.Conc.memEnforcerCallSite = "insideLock" then some .insideLock else none

def fileEnoent : Option ConcFile.EnoentVar :=
  if Gen.Conc.fileVisitENOENT = "tolerated" then some .tolerated
  else if Gen.Conc.fileVisitENOENT = "fatal" then some .fatal else none

/-- the un-registering case of the enforcer reaches `Remove(m.el)` only with `m.el` known non-nil, sets the flag
    (`m.gone`) where it is nil, and always closes `done` (Step.remGone / remUnlink, not remPanic) -/
theorem memEnforcerRemove_tie : memRemove = some ConcMem.Variant.code.remove := by decide
/-- no rendezvous with the enforcer is reached from inside a closure passed to the lock wrapper; AddMessage,
    RemoveMessage and PurgeMessages reach theirs after the wrapper has returned (todoOf: `.unlock` first) -/
theorem memEnforcerCallSite_tie : memSite = some ConcMem.Variant.code.site := by decide
/-- the registering case skips (close `done`, continue) messages whose flag is set, otherwise PushBack and record the
    element (Step.incGone / incReg); the eviction loop `total > limit` leaves with break on an empty list
    (Step.loopEmpty) -/
theorem memEnforcerShape_tie : Gen.Conc.memIncomingSkipsGone = true ∧ Gen.Conc.memEvictStopsOnEmpty = true := by decide
/-- cap evictions (loop `len > cap`, oldest index first) are collected under the lock and announced — deleted event
    and un-registration per message — after it, and only then is the new message registered (todoOf:
    `.unlock :: del.map .rem ++ [.inc]`) -/
theorem memCapEvict_tie : Gen.Conc.memCapEvict = "collectsAndNotifies" ∧ Gen.Conc.memDeliverIsLast = true := by decide
/-- the seen flag is an atomic (the model treats it as shared state outside the mailbox lock) -/
theorem memSeenAtomic_tie : Gen.Conc.memSeenAtomic = true := by decide
/-- the lock wrapper releases the store mutex before taking the mailbox lock, write or read as its flag says, and
    calls the critical section under it (step program lockS; unlockS; lockB; crit; unlock) -/
theorem memWithMailbox_tie : Gen.Conc.memStoreLockReleasedBeforeBoxLock = true := by decide
/-- which mailbox lock each operation takes, once: only GetMessage / GetMessages read-lock (Op.isWrite); an
    operation is ONE critical section (no check-then-act over two) -/
theorem memLockModes_tie : Gen.Conc.memLockModes =
    ["AddMessage:W", "GetMessage:R", "GetMessages:R", "MarkSeen:W", "PurgeMessages:W", "RemoveMessage:W",
     "VisitMailboxes:"] := by decide
/-- VisitMailboxes tolerates ENOENT on the level-1 and level-2 readdirs -/
theorem fileVisitENOENT_tie : fileEnoent = some .tolerated := by decide
/-- every other file-store operation holds its bucket lock from start to end (mutators the write lock); the visitor
    reads each mailbox under the read lock and calls back without it; the bucket is the level-1 directory -/
theorem fileLocks_tie : Gen.Conc.fileOpsHoldBucketLock = true ∧ Gen.Conc.fileVisitReadsLocked = true ∧
    Gen.Conc.fileBucketIsLevel1Dir = true ∧
    Gen.Conc.fileLockedOps = ["AddMessage", "GetMessage", "GetMessages", "MarkSeen", "PurgeMessages", "RemoveMessage"] ∧
    Gen.Conc.fileLockModes = ["AddMessage:W", "GetMessage:R", "GetMessages:R", "MarkSeen:W", "PurgeMessages:W",
      "RemoveMessage:W"] := by decide

end Ibx.Tie.Conc
